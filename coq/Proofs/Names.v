(* Lemmas about Model/Names.v: what the name predicates accept, for ALL byte lists; soundness of the
   validators checker and its evaluation on the translated tables. *)
From Coq Require Import List String NArith Bool Lia.
From FB Require Import Gen.Validators Model.Names.
Import ListNotations.
Local Open Scope N_scope.

Lemma contains_In : forall l b, contains l b = true <-> In b l.
Proof.
  intros l b. unfold contains. rewrite existsb_exists. split.
  - intros [x [Hin Heq]]. apply N.eqb_eq in Heq. subst. exact Hin.
  - intros Hin. exists b. split; [exact Hin | apply N.eqb_refl].
Qed.

Lemma contains_with_nul_slash : forall n, contains (with_nul n) slash_ascii = true <-> In 47 n.
Proof.
  intros n. rewrite contains_In. unfold with_nul, slash_ascii. rewrite in_app_iff. split.
  - intros [H | [H | []]]; [exact H | discriminate H].
  - intros H. left. exact H.
Qed.

(* starts_with on the NUL-terminated form against a NUL-terminated pattern is equality *)
Lemma starts_dot : forall n, nul_free n -> (starts_with (with_nul n) current_dir_cstr = true <-> n = dot).
Proof.
  intros n Hnf. unfold current_dir_cstr, dot, with_nul. split.
  - destruct n as [|a [|b r]]; cbn; intros H.
    + discriminate H.
    + rewrite andb_true_r in H. apply N.eqb_eq in H. subst. reflexivity.
    + apply andb_prop in H. destruct H as [_ H]. apply andb_prop in H. destruct H as [H _].
      apply N.eqb_eq in H. subst. exfalso. apply Hnf. right. left. reflexivity.
  - intros ->. reflexivity.
Qed.

Lemma starts_dotdot : forall n, nul_free n -> (starts_with (with_nul n) parent_dir_cstr = true <-> n = dotdot).
Proof.
  intros n Hnf. unfold parent_dir_cstr, dotdot, with_nul. split.
  - destruct n as [|a [|b [|c r]]]; cbn; intros H.
    + discriminate H.
    + apply andb_prop in H. destruct H as [_ H]. discriminate H.
    + apply andb_prop in H. destruct H as [Ha H]. apply andb_prop in H. destruct H as [Hb _].
      apply N.eqb_eq in Ha, Hb. subst. reflexivity.
    + apply andb_prop in H. destruct H as [_ H]. apply andb_prop in H. destruct H as [_ H].
      apply andb_prop in H. destruct H as [H _]. apply N.eqb_eq in H. subst.
      exfalso. apply Hnf. right. right. left. reflexivity.
  - intros ->. reflexivity.
Qed.

Lemma dot_or_dotdot_iff : forall n, nul_free n -> (is_dot_or_dotdot n = true <-> n = dot \/ n = dotdot).
Proof.
  intros n Hnf. unfold is_dot_or_dotdot. cbv zeta. rewrite orb_true_iff.
  rewrite (starts_dot n Hnf), (starts_dotdot n Hnf). reflexivity.
Qed.

Theorem names_safe_iff : forall n, nul_free n ->
  (is_safe_path_component n = true <-> ~ In 47 n /\ n <> dot /\ n <> dotdot).
Proof.
  intros n Hnf. unfold is_safe_path_component. cbv zeta.
  destruct (contains (with_nul n) slash_ascii) eqn:Hc.
  - apply contains_with_nul_slash in Hc. split; [discriminate | intros [H _]; contradiction].
  - assert (Hns : ~ In 47 n).
    { intros H. apply contains_with_nul_slash in H. rewrite H in Hc. discriminate. }
    rewrite negb_true_iff. split.
    + intros Hd. split; [exact Hns|]. split; intros ->.
      * assert (is_dot_or_dotdot dot = true) by reflexivity. congruence.
      * assert (is_dot_or_dotdot dotdot = true) by reflexivity. congruence.
    + intros [_ [H1 H2]]. destruct (is_dot_or_dotdot n) eqn:Hd; [|reflexivity].
      apply (dot_or_dotdot_iff n Hnf) in Hd. destruct Hd; contradiction.
Qed.

Theorem validate_iff : forall n, nul_free n ->
  (validate_path_component n = None <-> ~ In 47 n /\ n <> dot /\ n <> dotdot) /\
  (validate_path_component n <> None -> validate_path_component n = Some EINVAL).
Proof.
  intros n Hnf. unfold validate_path_component. pose proof (names_safe_iff n Hnf) as H.
  destruct (is_safe_path_component n); split.
  - split; [intros _; apply H; reflexivity | reflexivity].
  - intros C. contradiction.
  - split; [discriminate | intros C; apply H in C; discriminate].
  - reflexivity.
Qed.

Theorem lookup_check_iff : forall n,
  (lookup_check n = None <-> ~ In 47 n) /\ (lookup_check n <> None -> lookup_check n = Some EINVAL).
Proof.
  intros n. unfold lookup_check. destruct (contains (with_nul n) slash_ascii) eqn:Hc.
  - apply contains_with_nul_slash in Hc. split; [split; [discriminate | contradiction] | reflexivity].
  - split; [|intros C; contradiction]. split; [|reflexivity]. intros _ H.
    apply contains_with_nul_slash in H. congruence.
Qed.

Theorem pt_validate_iff : forall n, nul_free n ->
  (pt_validate true n = None <-> ~ In 47 n /\ n <> dot /\ n <> dotdot) /\ pt_validate false n = None.
Proof.
  intros n Hnf. split; [|reflexivity]. unfold pt_validate. cbn [negb]. apply (validate_iff n Hnf).
Qed.

(* ".." at the export root is looked up as "."; every other name is looked up as itself *)
Theorem lookup_name_spec : forall n, nul_free n ->
  lookup_name true dotdot = dot /\
  (n <> dotdot -> lookup_name true n = n) /\
  lookup_name false n = n.
Proof.
  intros n Hnf. split; [reflexivity|]. split; [|reflexivity].
  intros Hne. unfold lookup_name. cbn [andb].
  destruct (starts_with (with_nul n) parent_dir_cstr) eqn:Hs; [|reflexivity].
  apply (starts_dotdot n Hnf) in Hs. contradiction.
Qed.

(* ------------------------------------------------------------------ validators checker *)
Local Open Scope string_scope.

Definition validated_before_effect (standalone : bool) (tbl : list vmethod) (m a : string) (r : req) : Prop :=
  exists vm, In vm tbl /\ m_name vm = m /\ In a (m_names vm) /\
    exists v, In v (m_vals vm) /\ v_arg v = a /\ satisfies standalone (v_kind v) r = true /\
              (v_pos v < m_first_effect vm)%nat.

Lemma lookup_req_required : forall m a r, In (m, a, r) required -> lookup_req m a = Some r.
Proof.
  intros m a r H. unfold required in H. cbn [In] in H.
  repeat (destruct H as [H | H]; [inversion H; subst; reflexivity|]). contradiction.
Qed.

Lemma existsb_string_In : forall a l, existsb (String.eqb a) l = true -> In a l.
Proof.
  intros a l H. apply existsb_exists in H. destruct H as [x [Hin Heq]].
  apply String.eqb_eq in Heq. subst. exact Hin.
Qed.

Lemma validators_ok_sound : forall sa tbl, validators_ok sa tbl = true ->
  forall m a r, In (m, a, r) required -> r <> RFree -> validated_before_effect sa tbl m a r.
Proof.
  intros sa tbl Hok m a r Hin Hr. unfold validators_ok in Hok.
  apply andb_prop in Hok. destruct Hok as [Hok H3]. apply andb_prop in Hok. destruct Hok as [H1 _].
  rewrite forallb_forall in H1, H3. specialize (H3 _ Hin). cbn beta iota in H3.
  assert (Hex : existsb (fun vm => String.eqb (m_name vm) m && existsb (String.eqb a) (m_names vm)) tbl = true).
  { destruct r; [exact H3 | exact H3 | contradiction]. }
  apply existsb_exists in Hex. destruct Hex as [vm [Hvm Hc]]. apply andb_prop in Hc. destruct Hc as [Hn Ha].
  apply String.eqb_eq in Hn. apply existsb_string_In in Ha.
  specialize (H1 _ Hvm). unfold method_ok in H1. rewrite forallb_forall in H1. specialize (H1 _ Ha).
  unfold arg_ok in H1. rewrite Hn in H1. rewrite (lookup_req_required _ _ _ Hin) in H1.
  exists vm. split; [exact Hvm|]. split; [exact Hn|]. split; [exact Ha|].
  assert (Hv : existsb (fun v => String.eqb (v_arg v) a && satisfies sa (v_kind v) r
                                && Nat.ltb (v_pos v) (m_first_effect vm)) (m_vals vm) = true).
  { destruct r; [exact H1 | exact H1 | contradiction]. }
  apply existsb_exists in Hv. destruct Hv as [v [Hv Hc]].
  apply andb_prop in Hc. destruct Hc as [Hc Hp]. apply andb_prop in Hc. destruct Hc as [Hva Hs].
  exists v. split; [exact Hv|]. split; [apply String.eqb_eq; exact Hva|]. split; [exact Hs|].
  apply PeanoNat.Nat.ltb_lt. exact Hp.
Qed.

(* every &CStr argument of every translated method is known to the specification *)
Lemma validators_ok_complete_args : forall sa tbl, validators_ok sa tbl = true ->
  forall vm a, In vm tbl -> In a (m_names vm) -> lookup_req (m_name vm) a <> None.
Proof.
  intros sa tbl Hok vm a Hvm Ha. unfold validators_ok in Hok.
  apply andb_prop in Hok. destruct Hok as [Hok _]. apply andb_prop in Hok. destruct Hok as [H1 _].
  rewrite forallb_forall in H1. specialize (H1 _ Hvm). unfold method_ok in H1.
  rewrite forallb_forall in H1. specialize (H1 _ Ha). unfold arg_ok in H1.
  destruct (lookup_req (m_name vm) a); [discriminate | discriminate H1].
Qed.

(* the translated tables: finite, closed by computation over the verified checker *)
Lemma vfs_table_ok : validators_ok false vfs_methods = true.
Proof. vm_compute. reflexivity. Qed.
Lemma pt_table_ok : validators_ok true pt_methods = true.
Proof. vm_compute. reflexivity. Qed.

Theorem validators_vfs : forall m a r, In (m, a, r) required -> r <> RFree ->
  validated_before_effect false vfs_methods m a r.
Proof. exact (validators_ok_sound false vfs_methods vfs_table_ok). Qed.

Theorem validators_pt : forall m a r, In (m, a, r) required -> r <> RFree ->
  validated_before_effect true pt_methods m a r.
Proof. exact (validators_ok_sound true pt_methods pt_table_ok). Qed.

Theorem validators_no_unknown_name_args :
  (forall vm a, In vm vfs_methods -> In a (m_names vm) -> lookup_req (m_name vm) a <> None) /\
  (forall vm a, In vm pt_methods -> In a (m_names vm) -> lookup_req (m_name vm) a <> None).
Proof.
  split; [exact (validators_ok_complete_args false vfs_methods vfs_table_ok)
         | exact (validators_ok_complete_args true pt_methods pt_table_ok)].
Qed.
