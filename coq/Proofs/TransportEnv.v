(* Proofs/TransportEnv.v -- lemmas about Model/TransportEnv.v: the retry loops of file_traits.rs over any oracle of
   per-call answers (part 3) and virtio-queue's descriptor chain iteration (part 2).  The device oracle of the fuse
   descriptor (part 1) is in Proofs/TransportDev.v. *)
From Coq Require Import List Arith NArith Bool Lia ZifyBool ZifyNat ZifyN.
From FB Require Import Model.Transport Model.TransportEnv Proofs.Transport Proofs.TransportMachine Proofs.TransportAsync.
Import ListNotations.
Local Open Scope N_scope.
Arguments N.add : simpl never.
Arguments N.sub : simpl never.
Arguments N.mul : simpl never.
Arguments N.div : simpl never.
Arguments N.modulo : simpl never.

(* ================================================================== part 3: the loops of file_traits.rs *)
(* the calls of a log continue each other: the next one starts in the slice (and in the file) where the last ended *)
Fixpoint contig (foff s : N) (log : list xfer) : Prop :=
  match log with
  | [] => True
  | x :: r => x_soff x = s /\ x_foff x = foff + s /\ 0 < x_n x /\ contig foff (s + x_n x) r
  end.
Definition log_total (log : list xfer) : N := fold_right (fun x a => x_n x + a) 0 log.
(* offsets into the slice touched by the calls, in time order *)
Definition x_ranges (log : list xfer) : list N := flat_map (fun x => addrs (x_soff x) (x_n x)) log.
Definition f_ranges (log : list xfer) : list N := flat_map (fun x => addrs (x_foff x) (x_n x)) log.

Lemma log_total_app a b : log_total (a ++ b) = log_total a + log_total b.
Proof.
  induction a as [|x a IH].
  - change (log_total ([] ++ b)) with (log_total b). change (log_total []) with 0. lia.
  - change (log_total ((x :: a) ++ b)) with (x_n x + log_total (a ++ b)). change (log_total (x :: a)) with (x_n x + log_total a). lia.
Qed.

Lemma contig_app foff s a b : contig foff s (a ++ b) <-> contig foff s a /\ contig foff (s + log_total a) b.
Proof.
  revert s; induction a as [|x a IH]; intro s; cbn [app contig log_total fold_right].
  - replace (s + 0) with s by lia. tauto.
  - rewrite IH. fold (log_total a). replace (s + x_n x + log_total a) with (s + (x_n x + log_total a)) by lia. tauto.
Qed.

Lemma contig_ranges foff s log : contig foff s log -> x_ranges log = addrs s (log_total log).
Proof.
  revert s; induction log as [|x r IH]; intros s H; cbn [x_ranges flat_map log_total fold_right].
  - reflexivity.
  - destruct H as [H1 [_ [_ H3]]]. rewrite addrs_app. fold (x_ranges r). fold (log_total r). rewrite (IH _ H3), H1. reflexivity.
Qed.
Lemma contig_franges foff s log : contig foff s log -> f_ranges log = addrs (foff + s) (log_total log).
Proof.
  revert s; induction log as [|x r IH]; intros s H; cbn [f_ranges flat_map log_total fold_right].
  - reflexivity.
  - destruct H as [_ [H2 [_ H3]]]. rewrite addrs_app. fold (f_ranges r). fold (log_total r). rewrite (IH _ H3), H2.
    f_equal. f_equal. lia.
Qed.

(* what holds for EVERY oracle and every fuel *)
Lemma ft_loop_inv retry at_ orc fuel : forall call len done foff log r c log',
  contig foff 0 log -> log_total log = done -> done <= len -> (at_ = true -> foff + len <= USIZE_MAX) ->
  ft_loop retry at_ orc fuel call len done foff log = (r, c, log') ->
  contig foff 0 log' /\ log_total log' <= len /\ (exists ext, log' = log ++ ext) /\
  (r = LOk -> log_total log' = len) /\ (r <> LFuel -> log_total log' = len -> r = LOk) /\
  (r = LIntr -> retry = false) /\ (call <= c)%nat.
Proof.
  induction fuel as [|f IH]; intros call len done foff log r c log' Hc Ht Hd Hof E; cbn [ft_loop] in E.
  - inversion E; subst. repeat split; auto; try lia; try congruence. exists []. now rewrite app_nil_r.
  - destruct (N.eqb_spec done len) as [Heq|Hne].
    + inversion E; subst. repeat split; auto; try lia; try congruence. exists []. now rewrite app_nil_r.
    + destruct (orc call) as [n| |].
      * destruct n as [|p].
        -- inversion E; subst. repeat split; auto; try lia; try congruence. exists []. now rewrite app_nil_r.
        -- destruct (N.ltb_spec (len - done) (N.pos p)) as [Hl|Hl].
           ++ inversion E; subst. repeat split; auto; try lia; try congruence. exists []. now rewrite app_nil_r.
           ++ assert (Hov : (at_ && (USIZE_MAX <? foff + done + N.pos p)) = false).
              { destruct at_; cbn [andb]; [|reflexivity]. specialize (Hof eq_refl). apply N.ltb_ge. lia. }
              rewrite Hov in E.
              assert (Hc2 : contig foff 0 (log ++ [mkx done (foff + done) (N.pos p)])).
              { apply contig_app. split; [exact Hc|]. cbn [contig x_soff x_foff x_n]. rewrite Ht. repeat split; lia. }
              assert (Ht2 : log_total (log ++ [mkx done (foff + done) (N.pos p)]) = done + N.pos p).
              { rewrite log_total_app, Ht. cbn [log_total fold_right x_n]. lia. }
              assert (Hd2 : done + N.pos p <= len) by lia.
              destruct (IH _ _ _ _ _ _ _ _ Hc2 Ht2 Hd2 Hof E) as [A [B [[ext C] [D [F [G I]]]]]].
              repeat split; auto; try lia. exists ([mkx done (foff + done) (N.pos p)] ++ ext). rewrite C, app_assoc. reflexivity.
      * destruct retry.
        -- destruct (IH _ _ _ _ _ _ _ _ Hc Ht Hd Hof E) as [A [B [C [D [F [G I]]]]]]. repeat split; auto; try lia.
        -- inversion E; subst. repeat split; auto; try lia; try congruence. exists []. now rewrite app_nil_r.
      * inversion E; subst. repeat split; auto; try lia; try congruence. exists []. now rewrite app_nil_r.
Qed.

(* the statement for a whole loop: whatever the file answers, call by call,
   - the slice offsets touched by the calls are exactly 0, 1, ..., total-1 in this order (a prefix, nothing repeated,
     nothing skipped), the file offsets foff, foff+1, ... likewise, and total <= len;
   - success is reported iff everything was transferred (when the loop was not cut by the model's fuel). *)
Theorem ft_loop_spec retry at_ orc fuel len foff r c log :
  (at_ = true -> foff + len <= USIZE_MAX) ->
  ft_loop retry at_ orc fuel 0 len 0 foff [] = (r, c, log) ->
  x_ranges log = addrs 0 (log_total log) /\ f_ranges log = addrs foff (log_total log) /\ log_total log <= len /\
  (r = LOk -> log_total log = len) /\ (r <> LFuel -> log_total log = len -> r = LOk) /\ (r = LIntr -> retry = false).
Proof.
  intros Hof E. assert (H0 : 0 <= len) by lia.
  destruct (ft_loop_inv retry at_ orc fuel 0%nat len 0 foff [] r c log I eq_refl H0 Hof E) as [A [B [_ [D [F [G _]]]]]].
  split; [apply (contig_ranges foff 0); exact A|]. split.
  - rewrite (contig_franges foff 0 _ A). f_equal. lia.
  - auto.
Qed.

(* the model's fuel: a loop that does not retry moves at least one byte per call that lets it continue *)
Lemma ft_loop_fuel at_ orc fuel : forall call len done foff log,
  done <= len -> (N.to_nat (len - done) < fuel)%nat ->
  fst (fst (ft_loop false at_ orc fuel call len done foff log)) <> LFuel.
Proof.
  induction fuel as [|f IH]; intros call len done foff log Hd Hf; [lia|]. cbn [ft_loop].
  destruct (N.eqb_spec done len) as [Heq|Hne]; [cbn; congruence|].
  destruct (orc call) as [n| |]; try (cbn; congruence).
  destruct n as [|p]; [cbn; congruence|].
  destruct (N.ltb_spec (len - done) (N.pos p)) as [Hl|Hl]; [cbn; congruence|].
  destruct (at_ && _); [cbn; congruence|]. apply IH; lia.
Qed.
(* a retrying loop runs out of the model's fuel only by being interrupted again and again *)
Lemma ft_loop_fuel_retry at_ orc fuel : forall call len done foff log,
  done <= len -> (forall k, (call <= k < call + fuel)%nat -> orc k <> CIntr) -> (N.to_nat (len - done) < fuel)%nat ->
  fst (fst (ft_loop true at_ orc fuel call len done foff log)) <> LFuel.
Proof.
  induction fuel as [|f IH]; intros call len done foff log Hd Hn Hf; [lia|]. cbn [ft_loop].
  destruct (N.eqb_spec done len) as [Heq|Hne]; [cbn; congruence|].
  destruct (orc call) as [n| |] eqn:Eo; try (cbn; congruence).
  - destruct n as [|p]; [cbn; congruence|].
    destruct (N.ltb_spec (len - done) (N.pos p)) as [Hl|Hl]; [cbn; congruence|].
    destruct (at_ && _); [cbn; congruence|]. apply IH; try lia. intros k Hk. apply Hn. lia.
  - exfalso. apply (Hn call); [lia|exact Eo].
Qed.

(* the default vectored methods: the documentation promises "the first nonempty buffer" for all four *)
Definition vectored_doc (first_only : bool) : Prop := forall lens, dflt_vectored first_only lens = first_nonempty 0 lens.
Lemma vectored_doc_iff first_only : vectored_doc first_only <-> first_only = false.
Proof.
  split.
  - intro H. destruct first_only; [|reflexivity]. specialize (H [0; 5]). vm_compute in H. discriminate.
  - intros -> lens. reflexivity.
Qed.
(* bufs.first() agrees with it unless the first buffer is empty *)
Lemma vectored_first_partial lens : match lens with l :: _ => l <> 0 | [] => True end ->
  dflt_vectored true lens = first_nonempty 0 lens.
Proof. destruct lens as [|l r]; [reflexivity|]. intro H. cbn. destruct (N.eqb_spec l 0); [contradiction|reflexivity]. Qed.
(* and when it does not: the method answers Ok(0) although a later buffer has room (reads as end of file) *)
Lemma vectored_first_empty r : dflt_vectored true (0 :: r) = Some O.
Proof. reflexivity. Qed.

(* ================================================================== part 2: virtio-queue's DescriptorChain *)
Lemma vq_next_fuel t q n : vq_next (S (S n)) t q = vq_next 2 t q.
Proof.
  cbn [vq_next]. destruct (_ || _); [reflexivity|]. destruct (USIZE_MAX <? _); [reflexivity|].
  destruct (tbl_get t _) as [d|]; [|reflexivity]. destruct (r_indirect d); [|reflexivity].
  destruct (q_ind q); [reflexivity|]. destruct (negb _); [reflexivity|]. destruct (U16_MAX <? _); [reflexivity|].
  cbn [q_ttl q_size q_next q_table q_ind q_yield].
  destruct n; cbn [vq_next q_ttl q_size q_next q_table q_ind q_yield];
    (destruct (_ || _); [reflexivity|]); (destruct (USIZE_MAX <? _); [reflexivity|]);
    (destruct (tbl_get t _) as [d2|]; [|reflexivity]); destruct (r_indirect d2); reflexivity.
Qed.

(* measure that every yielded descriptor decreases *)
Definition vq_mu (q : vqit) : N := q_ttl q + (if q_ind q then 0 else U16_MAX + 1).

Lemma vq_next_step t q d q' : vq_next 2 t q = Some (d, q') ->
  q_yield q' = q_yield q + r_len d /\ q_yield q' <= U32_MAX /\ vq_mu q' < vq_mu q /\ r_indirect d = false.
Proof.
  unfold vq_mu. cbn [vq_next].
  destruct (N.eqb_spec (q_ttl q) 0) as [Hz|Hz]; cbn [orb]; [discriminate|].
  destruct (N.leb_spec (q_size q) (q_next q)); [discriminate|].
  destruct (USIZE_MAX <? _); [discriminate|].
  destruct (tbl_get t _) as [d1|]; [|discriminate]. destruct (r_indirect d1) eqn:Ei.
  - destruct (q_ind q) eqn:Eq; [discriminate|]. destruct (negb _); [discriminate|].
    destruct (N.ltb_spec U16_MAX (r_len d1 / 16)); [discriminate|]. cbn [q_ttl q_size q_next q_table q_ind q_yield].
    destruct (N.eqb_spec (r_len d1 / 16) 0) as [Hz2|Hz2]; cbn [orb]; [discriminate|].
    destruct (N.leb_spec (r_len d1 / 16) 0); [discriminate|].
    destruct (USIZE_MAX <? _); [discriminate|].
    destruct (tbl_get t _) as [d2|]; [|discriminate]. destruct (r_indirect d2) eqn:Ei2; [discriminate|].
    destruct (N.ltb_spec U32_MAX (q_yield q + r_len d2)); [discriminate|].
    intro E; inversion E; subst. destruct (r_has_next d); cbn [q_ttl q_ind q_yield]; unfold U16_MAX in *; repeat split; try lia; auto.
  - destruct (N.ltb_spec U32_MAX (q_yield q + r_len d1)); [discriminate|].
    intro E; inversion E; subst. destruct (r_has_next d); cbn [q_ttl q_ind q_yield]; destruct (q_ind q); repeat split; try lia; auto.
Qed.

Lemma vq_run_some fuel : forall t q, (N.to_nat (vq_mu q) < fuel)%nat -> exists ds, vq_run fuel t q = Some ds.
Proof.
  induction fuel as [|f IH]; intros t q H; [lia|]. cbn [vq_run].
  destruct (vq_next 2 t q) as [[d q']|] eqn:E; [|eauto].
  destruct (vq_next_step _ _ _ _ E) as [_ [_ [Hmu _]]].
  destruct (IH t q' ltac:(lia)) as [ds Hds]. rewrite Hds. cbn. eauto.
Qed.
(* the model's fuel never runs out *)
Lemma vq_collect_some t q : exists ds, vq_collect t q = Some ds.
Proof.
  apply vq_run_some. unfold vq_fuel, vq_mu. destruct (q_ind q); unfold U16_MAX; lia.
Qed.

Definition rlen_total (ds : list rdesc) : N := fold_right (fun d a => r_len d + a) 0 ds.
(* the iterator never yields more than 2^32-1 bytes in total, and never an INDIRECT descriptor *)
Lemma vq_run_total fuel : forall t q ds, vq_run fuel t q = Some ds -> q_yield q <= U32_MAX ->
  q_yield q + rlen_total ds <= U32_MAX /\ Forall (fun d => r_indirect d = false) ds.
Proof.
  induction fuel as [|f IH]; intros t q ds E Hy; cbn [vq_run] in E; [discriminate|].
  destruct (vq_next 2 t q) as [[d q']|] eqn:En.
  - destruct (vq_run f t q') as [r|] eqn:Er; [|discriminate]. cbn in E. inversion E; subst.
    destruct (vq_next_step _ _ _ _ En) as [Hq [Hb [_ Hi]]].
    destruct (IH _ _ _ Er Hb) as [A B]. cbn [rlen_total fold_right]. fold (rlen_total r). split; [lia|]. constructor; assumption.
  - inversion E; subst. cbn. split; [lia|constructor].
Qed.
(* and never more descriptors than the queue size plus the size of one indirect table *)
Lemma vq_run_count fuel : forall t q ds, vq_run fuel t q = Some ds -> N.of_nat (length ds) <= vq_mu q.
Proof.
  induction fuel as [|f IH]; intros t q ds E; cbn [vq_run] in E; [discriminate|].
  destruct (vq_next 2 t q) as [[d q']|] eqn:En.
  - destruct (vq_run f t q') as [r|] eqn:Er; [|discriminate]. cbn in E. inversion E; subst.
    destruct (vq_next_step _ _ _ _ En) as [_ [_ [Hmu _]]]. specialize (IH _ _ _ Er). cbn [length]. lia.
  - inversion E; subst. cbn. lia.
Qed.

Definition dlen_total (ds : list desc) : N := fold_right (fun d a => d_len d + a) 0 ds.
Lemma dlen_total_filter f ds : dlen_total (filter f ds) <= dlen_total ds.
Proof. induction ds as [|d r IH]; cbn [filter dlen_total fold_right]; [lia|]. fold (dlen_total r). destruct (f d); cbn [dlen_total fold_right]; fold (dlen_total (filter f r)); lia. Qed.
Lemma dlen_total_map ds : dlen_total (map desc_of ds) = rlen_total ds.
Proof. induction ds as [|d r IH]; cbn [map dlen_total rlen_total fold_right]; [reflexivity|]. fold (dlen_total (map desc_of r)). fold (rlen_total r). rewrite IH. reflexivity. Qed.

(* the checked_add of the constructors cannot fail when the lengths sum up to a usize *)
Lemma chain_segs_no_overflow regions ds : forall total, total + dlen_total ds <= USIZE_MAX ->
  fst (chain_segs regions ds total) <> RErr EOverflow.
Proof.
  induction ds as [|x r IH]; intros total H; cbn [chain_segs]; [cbn; discriminate|].
  cbn [dlen_total fold_right] in H. fold (dlen_total r) in H.
  destruct (N.ltb_spec USIZE_MAX (total + d_len x)); [lia|].
  destruct (find_region regions (d_addr x)) as [[b z]|]; [|cbn; discriminate].
  destruct (z <? _); [cbn; discriminate|].
  specialize (IH (total + d_len x) ltac:(lia)).
  destruct (chain_segs regions r (total + d_len x)) as [[n q|e|] l] eqn:E; cbn [fst] in *; try discriminate. exact IH.
Qed.
Lemma chain_segs_total_eq regions ds : forall total t x l, chain_segs regions ds total = (ROk t x, l) ->
  seg_total l = dlen_total ds.
Proof.
  induction ds as [|y r IH]; intros total t x l; cbn [chain_segs].
  - intro E; inversion E; reflexivity.
  - destruct (USIZE_MAX <? _); [discriminate|]. destruct (find_region regions (d_addr y)) as [[b z]|]; [|discriminate].
    destruct (z <? _); [discriminate|].
    destruct (chain_segs regions r (total + d_len y)) as [[n q|e|] l'] eqn:E; try discriminate.
    intro HH; inversion HH; subst. cbn [seg_total fold_right sl dlen_total]. fold (seg_total l'). fold (dlen_total r).
    rewrite (IH _ _ _ _ E). reflexivity.
Qed.

(* Error::DescriptorChainOverflow cannot come out of the two constructors, whatever the driver wrote into its tables;
   every accepted chain holds less than 2^32 bytes *)
Theorem from_vq_no_overflow regions t table qsize head w : fst (from_vq regions t table qsize head w) <> RErr EOverflow.
Proof.
  unfold from_vq. destruct (vq_collect t _) as [ds|] eqn:E; [|cbn; discriminate].
  unfold vq_collect in E. destruct (vq_run_total _ _ _ _ E ltac:(cbn; unfold U32_MAX; lia)) as [Ht _]. cbn [vq_new q_yield] in Ht.
  unfold from_chain. pose proof (chain_segs_no_overflow regions (filter (fun x => Bool.eqb (d_wr x) w) (map desc_of ds)) 0) as H.
  destruct (chain_segs regions _ 0) as [r l]. cbn [fst] in *. apply H.
  pose proof (dlen_total_filter (fun x => Bool.eqb (d_wr x) w) (map desc_of ds)). rewrite dlen_total_map in *.
  unfold U32_MAX, USIZE_MAX in *. lia.
Qed.
Theorem from_vq_avail regions t table qsize head w n x b :
  from_vq regions t table qsize head w = (ROk n x, b) -> avail b <= U32_MAX /\ consumed b = 0 /\ wf_io b.
Proof.
  unfold from_vq. destruct (vq_collect t _) as [ds|] eqn:E; [|discriminate].
  unfold vq_collect in E. destruct (vq_run_total _ _ _ _ E ltac:(cbn; unfold U32_MAX; lia)) as [Ht _]. cbn [vq_new q_yield] in Ht.
  intro F. pose proof (from_chain_wf _ _ _ _ _ _ F) as Hwf. unfold from_chain in F.
  destruct (chain_segs regions _ 0) as [r l] eqn:C. inversion F; subst.
  pose proof (chain_segs_total_eq _ _ _ _ _ _ C) as Hs.
  pose proof (dlen_total_filter (fun x => Bool.eqb (d_wr x) w) (map desc_of ds)). rewrite dlen_total_map in *.
  split; [|split; [reflexivity|exact Hwf]]. unfold avail. cbn [segs]. rewrite fold_left_total. lia.
Qed.

(* ---- a plain chain (what MockSplitQueue::build_desc_chain writes, and what the case generators of the checks
   describe as a list of descriptors) is handed to the constructors unchanged: the list-level model [from_chain] used
   by the other theorems is the table-level model on such tables *)
Lemma tbl_get_of_list table : forall ds i j d, nth_error ds j = Some d ->
  tbl_get (tbl_of_list table i ds) (table + (i + N.of_nat j) * 16) =
  Some (mkrd (d_addr d) (d_len d) (match skipn (S j) ds with [] => false | _ => true end) (d_wr d) false (i + N.of_nat j + 1)).
Proof.
  induction ds as [|x r IH]; intros i j d H; [destruct j; discriminate|].
  destruct j as [|j]; cbn [nth_error] in H.
  - inversion H; subst. cbn [tbl_of_list tbl_get skipn].
    replace (table + (i + N.of_nat 0) * 16) with (table + i * 16) by lia. rewrite N.eqb_refl.
    replace (i + N.of_nat 0 + 1) with (i + 1) by lia. reflexivity.
  - cbn [tbl_of_list tbl_get]. destruct (N.eqb_spec (table + i * 16) (table + (i + N.of_nat (S j)) * 16)) as [E|E]; [lia|].
    replace (i + N.of_nat (S j)) with (i + 1 + N.of_nat j) by lia. rewrite (IH (i + 1) j d H). reflexivity.
Qed.

Lemma skipn_nth_cons {A} (l : list A) k d : nth_error l k = Some d -> skipn k l = d :: skipn (S k) l.
Proof. revert k; induction l as [|x r IH]; intros [|k] H; cbn in *; try discriminate; [inversion H; reflexivity|apply IH; exact H]. Qed.

Lemma vq_next_direct t q d : q_ttl q <> 0 -> q_next q < q_size q -> q_table q + q_next q * 16 <= USIZE_MAX ->
  tbl_get t (q_table q + q_next q * 16) = Some d -> r_indirect d = false -> q_yield q + r_len d <= U32_MAX ->
  vq_next 2 t q = Some (d, if r_has_next d
                           then mkvq (q_table q) (q_size q) (r_next d) (q_ttl q - 1) (q_yield q + r_len d) (q_ind q)
                           else mkvq (q_table q) (q_size q) (q_next q) 0 (q_yield q + r_len d) (q_ind q)).
Proof.
  intros H1 H2 H3 H4 H5 H6. cbn [vq_next].
  destruct (N.eqb_spec (q_ttl q) 0); [contradiction|]. destruct (N.leb_spec (q_size q) (q_next q)); [lia|]. cbn [orb].
  destruct (N.ltb_spec USIZE_MAX (q_table q + q_next q * 16)); [lia|]. rewrite H4, H5.
  destruct (N.ltb_spec U32_MAX (q_yield q + r_len d)); [lia|]. reflexivity.
Qed.

Lemma vq_run_list table qsize ds : N.of_nat (length ds) <= qsize -> table + 16 * N.of_nat (length ds) <= USIZE_MAX ->
  forall fuel k y, (k < length ds)%nat -> (length ds - k < fuel)%nat -> y + dlen_total (skipn k ds) <= U32_MAX ->
  option_map (map desc_of) (vq_run fuel (tbl_of_list table 0 ds) (mkvq table qsize (N.of_nat k) (qsize - N.of_nat k) y false))
  = Some (skipn k ds).
Proof.
  intros Hq Ht. induction fuel as [|f IH]; intros k y Hk Hf Hy; [lia|].
  destruct (nth_error ds k) as [d|] eqn:En; [|apply nth_error_None in En; lia].
  pose proof (tbl_get_of_list table ds 0 k d En) as Hg. replace (0 + N.of_nat k) with (N.of_nat k) in Hg by lia.
  rewrite (skipn_nth_cons _ _ _ En) in *. cbn [dlen_total fold_right] in Hy. fold (dlen_total (skipn (S k) ds)) in Hy.
  cbn [vq_run]. erewrite vq_next_direct; cbn [q_ttl q_next q_size q_table q_yield q_ind]; try exact Hg; cbn [r_indirect r_len r_has_next r_next]; try lia; try reflexivity.
  destruct (skipn (S k) ds) as [|d2 rest] eqn:Es.
  - (* the last descriptor: ttl drops to 0 *)
    destruct f as [|f]; [lia|]. cbn [vq_run vq_next q_ttl]. rewrite N.eqb_refl. cbn [orb option_map map desc_of r_addr r_len r_write].
    destruct d; reflexivity.
  - assert (Hk2 : (S k < length ds)%nat).
    { destruct (Nat.lt_ge_cases (S k) (length ds)) as [L|L]; [exact L|]. rewrite (skipn_all2 ds L) in Es. discriminate. }
    replace (N.of_nat k + 1) with (N.of_nat (S k)) by lia. replace (qsize - N.of_nat k - 1) with (qsize - N.of_nat (S k)) by lia.
    specialize (IH (S k) (y + d_len d) Hk2 ltac:(lia)). rewrite Es in IH. specialize (IH ltac:(lia)).
    destruct (vq_run f _ _) as [rs|]; [|discriminate]. cbn [option_map] in *. inversion IH as [IH2].
    cbn [map desc_of r_addr r_len r_write]. rewrite IH2. destruct d; reflexivity.
Qed.

Theorem from_vq_list regions table qsize ds w :
  N.of_nat (length ds) <= qsize -> dlen_total ds <= U32_MAX -> table + 16 * N.of_nat (length ds) <= USIZE_MAX ->
  from_vq regions (tbl_of_list table 0 ds) table qsize 0 w = from_chain regions ds w.
Proof.
  intros Hq Hl Ht. unfold from_vq, vq_collect.
  destruct ds as [|d0 r] eqn:Ed.
  - cbn [tbl_of_list vq_fuel vq_run vq_next vq_new q_ttl q_size q_next q_table tbl_get].
    destruct ((qsize =? 0) || (qsize <=? 0)); [reflexivity|]. destruct (USIZE_MAX <? _); reflexivity.
  - rewrite <- Ed in *.
    pose proof (vq_run_list table qsize ds Hq Ht (vq_fuel (vq_new table qsize 0)) 0%nat 0) as H.
    cbn [N.of_nat skipn] in H. replace (qsize - 0) with qsize in H by lia.
    assert (H1 : (0 < length ds)%nat) by (rewrite Ed; cbn; lia).
    assert (H2 : (length ds - 0 < vq_fuel (vq_new table qsize 0))%nat) by (unfold vq_fuel, vq_new; cbn [q_ttl]; unfold U16_MAX; lia).
    specialize (H H1 H2 ltac:(lia)). unfold vq_new.
    destruct (vq_run _ _ _) as [rs|]; [|discriminate]. cbn [option_map] in H. inversion H as [H3]. reflexivity.
Qed.

(* ---- chains given by tables, the dirty log (C17): whatever the driver wrote into its descriptor tables
   (INDIRECT tables, loops, any queue size, any number of regions), if the two constructors accept the chain then
   after any run every modified byte lies in a marked page, and a newly marked page holds an address of a writable
   descriptor *)
Lemma v_init_vq_wf seed regions t table qsize head r st :
  v_init_vq seed regions t table qsize head = (r, st) -> wf_st st.
Proof.
  unfold v_init_vq, wf_st.
  destruct (from_vq regions t table qsize head false) as [rr rd] eqn:R.
  destruct (from_vq regions t table qsize head true) as [rw wr] eqn:W.
  destruct rr as [n x|e|]; [|intro H; inversion H; subst; cbn [v_rd v_wr]; split; constructor ..].
  destruct rw as [n2 x2|e2|]; [|intro H; inversion H; subst; cbn [v_rd v_wr]; split; constructor ..].
  destruct (from_vq_avail _ _ _ _ _ _ _ _ _ R) as [_ [_ H1]]. destruct (from_vq_avail _ _ _ _ _ _ _ _ _ W) as [_ [_ H2]].
  intro H; inversion H; subst; cbn [v_rd v_wr]. split; constructor; auto.
Qed.
Theorem vq_written_marked seed regions t table qsize head r st0 dirty0 ops :
  v_init_vq seed regions t table qsize head = (r, st0) ->
  let st := mkv (v_mem st0) dirty0 (v_rd st0) (v_wr st0) in
  forall a, mget (v_mem (snd (avrun ops st))) a <> mget (v_mem st) a -> v_dirty (snd (avrun ops st)) (a / PS) = true.
Proof.
  intros H st. apply Proofs.TransportAsync.async_written_marked. destruct (v_init_vq_wf _ _ _ _ _ _ _ _ H) as [A B]. split; assumption.
Qed.
Theorem vq_only_written seed regions t table qsize head r st0 dirty0 ops :
  v_init_vq seed regions t table qsize head = (r, st0) ->
  let st := mkv (v_mem st0) dirty0 (v_rd st0) (v_wr st0) in
  forall p, v_dirty (snd (avrun ops st)) p = true -> dirty0 p = true \/
    exists a b, a / PS = p /\ In b (v_wr st0) /\ In a (flat (segs b)).
Proof.
  intros H st p Hp. rewrite Proofs.TransportAsync.async_run_same in Hp.
  destruct (v_init_vq_wf _ _ _ _ _ _ _ _ H) as [A B].
  exact (only_written (map desugar ops) st (conj A B) p Hp).
Qed.
