(* C12, second half: the switches of Vfs / PassthroughFs / OverlayFs are on only when the feature
   bit was in the capability word of the INIT that set them; the VFS refuses a second INIT. *)
From Coq Require Import List String NArith Bool Lia.
From FB Require Import Lib.Layout Gen.RustABI Model.InitToggles Proofs.ServerInitBits.
Import ListNotations.
Local Open Scope N_scope.

(* ------------------------------------------------------------------ constants against the source *)
Definition fsopt (name : string) : N :=
  match lookup "FsOptions"%string rust_bitflags with
  | Some ms => match lookup name ms with Some v => v | None => 0 end
  | None => 0
  end.

Lemma flag_constants_match_source :
  fsopt "ASYNC_READ" = F_ASYNC_READ /\ fsopt "ATOMIC_O_TRUNC" = F_ATOMIC_O_TRUNC /\
  fsopt "BIG_WRITES" = F_BIG_WRITES /\ fsopt "HAS_IOCTL_DIR" = F_HAS_IOCTL_DIR /\
  fsopt "AUTO_INVAL_DATA" = F_AUTO_INVAL_DATA /\ fsopt "DO_READDIRPLUS" = F_DO_READDIRPLUS /\
  fsopt "READDIRPLUS_AUTO" = F_READDIRPLUS_AUTO /\ fsopt "ASYNC_DIO" = F_ASYNC_DIO /\
  fsopt "WRITEBACK_CACHE" = F_WRITEBACK_CACHE /\ fsopt "ZERO_MESSAGE_OPEN" = F_ZERO_MESSAGE_OPEN /\
  fsopt "PARALLEL_DIROPS" = F_PARALLEL_DIROPS /\ fsopt "MAX_PAGES" = F_MAX_PAGES /\
  fsopt "CACHE_SYMLINKS" = F_CACHE_SYMLINKS /\ fsopt "ZERO_MESSAGE_OPENDIR" = F_ZERO_MESSAGE_OPENDIR /\
  fsopt "EXPLICIT_INVAL_DATA" = F_EXPLICIT_INVAL_DATA /\ fsopt "HANDLE_KILLPRIV_V2" = F_HANDLE_KILLPRIV_V2 /\
  fsopt "PERFILE_DAX" = F_PERFILE_DAX.
Proof. vm_compute. repeat split; reflexivity. Qed.

(* ------------------------------------------------------------------ single-bit tests *)
Lemma has_pow2 v k : has v (2 ^ k) = N.testbit v k.
Proof. unfold has. apply land_pow2_nz. Qed.

Lemma contains_pow2 v k : contains v (2 ^ k) = N.testbit v k.
Proof.
  unfold contains. rewrite land_pow2. destruct (N.testbit v k); [apply N.eqb_refl|].
  apply N.eqb_neq. intro E. symmetry in E. revert E. apply N.pow_nonzero. lia.
Qed.

Lemma testbit_remove v k n : k < 64 -> n < 64 ->
  N.testbit (remove v (2 ^ k)) n = N.testbit v n && negb (n =? k).
Proof.
  intros Hk Hn. unfold remove. rewrite N.land_spec, N.lnot_spec_low by exact Hn.
  rewrite N.pow2_bits_eqb, (N.eqb_sym k n). reflexivity.
Qed.

Lemma ZMO_val : F_ZERO_MESSAGE_OPEN = 2 ^ 17. Proof. reflexivity. Qed.
Lemma ZMOD_val : F_ZERO_MESSAGE_OPENDIR = 2 ^ 24. Proof. reflexivity. Qed.
Lemma WB_val : F_WRITEBACK_CACHE = 2 ^ 16. Proof. reflexivity. Qed.
Lemma KP_val : F_HANDLE_KILLPRIV_V2 = 2 ^ 28. Proof. reflexivity. Qed.
Lemma DAX_val : F_PERFILE_DAX = 2 ^ 33. Proof. reflexivity. Qed.
Lemma AOT_val : F_ATOMIC_O_TRUNC = 2 ^ 3. Proof. reflexivity. Qed.

(* ------------------------------------------------------------------ Vfs *)
(* bit [n] of the option word Vfs::init computes, for n < 64 *)
Lemma vfs_negotiate_out_bit s opts n : n < 64 ->
  N.testbit (v_out_opts (vfs_negotiate s opts)) n =
  N.testbit (v_out_opts s) n && N.testbit opts n &&
  (if v_no_open s then negb (n =? 3) else negb (n =? 17)) &&
  (if v_no_opendir s then true else negb (n =? 24)) &&
  (if v_no_writeback s then negb (n =? 16) else true) &&
  (if v_killpriv_v2 s then true else negb (n =? 28)).
Proof.
  intro Hn. unfold vfs_negotiate.
  rewrite AOT_val, ZMO_val, ZMOD_val, WB_val, KP_val.
  destruct (v_no_open s), (v_no_opendir s), (v_no_writeback s), (v_killpriv_v2 s);
    cbn [v_out_opts]; rewrite N.land_spec, ?testbit_remove by (assumption || reflexivity);
    destruct (N.testbit (v_out_opts s) n), (N.testbit opts n), (n =? 3), (n =? 17), (n =? 24), (n =? 16), (n =? 28);
    reflexivity.
Qed.

Lemma vfs_negotiate_no_open s opts :
  v_no_open (vfs_negotiate s opts) = v_no_open s && has opts F_ZERO_MESSAGE_OPEN.
Proof. unfold vfs_negotiate. destruct (v_no_open s), (v_no_opendir s); reflexivity. Qed.

Lemma vfs_negotiate_no_opendir s opts :
  v_no_opendir (vfs_negotiate s opts) = v_no_opendir s && has opts F_ZERO_MESSAGE_OPENDIR.
Proof. unfold vfs_negotiate. destruct (v_no_open s), (v_no_opendir s); reflexivity. Qed.

(* the state after an init that was not refused as a repeat *)
Lemma vfs_init_state s opts bs r s' :
  v_initialized s = false -> vfs_init s opts bs = (r, s') ->
  v_no_open s' = v_no_open (vfs_negotiate s opts) /\
  v_no_opendir s' = v_no_opendir (vfs_negotiate s opts) /\
  v_out_opts s' = v_out_opts (vfs_negotiate s opts) /\
  v_in_opts s' = opts /\
  (r = IOk (v_out_opts (vfs_negotiate s opts)) /\ v_initialized s' = true \/
   exists e, r = IErr e /\ first_err bs = Some e /\ v_initialized s' = false).
Proof.
  intros Hi. unfold vfs_init. rewrite Hi.
  destruct (first_err bs) as [e|] eqn:E; intro H; inversion H; subst; cbn [v_no_open v_no_opendir v_out_opts v_in_opts v_initialized].
  - repeat split; try reflexivity.
    + unfold vfs_negotiate. destruct (v_no_open s), (v_no_opendir s); reflexivity.
    + right. exists e. repeat split. unfold vfs_negotiate. destruct (v_no_open s), (v_no_opendir s); exact Hi.
  - repeat split; try reflexivity.
    + unfold vfs_negotiate. destruct (v_no_open s), (v_no_opendir s); reflexivity.
    + left. split; reflexivity.
Qed.

(* no-open / no-opendir answer ENOSYS only if the client offered the feature *)
Theorem vfs_no_open_negotiated s opts bs r s' :
  v_initialized s = false -> vfs_init s opts bs = (r, s') ->
  vfs_open_enosys s' = true -> has opts F_ZERO_MESSAGE_OPEN = true.
Proof.
  intros Hi H. destruct (vfs_init_state _ _ _ _ _ Hi H) as [E _]. unfold vfs_open_enosys.
  rewrite E, vfs_negotiate_no_open. intro A. apply andb_prop in A. apply A.
Qed.

Theorem vfs_no_opendir_negotiated s opts bs r s' :
  v_initialized s = false -> vfs_init s opts bs = (r, s') ->
  vfs_opendir_enosys s' = true -> has opts F_ZERO_MESSAGE_OPENDIR = true.
Proof.
  intros Hi H. destruct (vfs_init_state _ _ _ _ _ Hi H) as [_ [E _]]. unfold vfs_opendir_enosys.
  rewrite E, vfs_negotiate_no_opendir. intro A. apply andb_prop in A. apply A.
Qed.

(* everything the VFS answers with (and hands to its backends) was offered by the client *)
Lemma vfs_negotiate_out_land s opts : exists x, v_out_opts (vfs_negotiate s opts) = N.land x opts.
Proof.
  unfold vfs_negotiate.
  destruct (v_no_open s), (v_no_opendir s); cbn [v_out_opts]; eexists; reflexivity.
Qed.

Theorem vfs_out_subset s opts :
  N.land (v_out_opts (vfs_negotiate s opts)) opts = v_out_opts (vfs_negotiate s opts).
Proof.
  destruct (vfs_negotiate_out_land s opts) as [x ->].
  rewrite <- N.land_assoc, N.land_diag. reflexivity.
Qed.

Theorem vfs_reply_subset s opts bs out s' :
  vfs_init s opts bs = (IOk out, s') -> N.land out opts = out /\ vfs_backend_word s opts = out.
Proof.
  unfold vfs_init.
  destruct (v_initialized s); [discriminate|].
  destruct (first_err bs); [discriminate|]. intro H; inversion H; subst.
  split; [apply vfs_out_subset|reflexivity].
Qed.

(* with ZERO_MESSAGE_OPEN[DIR] in the configured out_opts whenever the switch is configured on (true of
   VfsOptions::default, and preserved by init), the switch after init is on exactly when the bit is in
   the reply *)
Definition vfs_cfg_coherent (s : vstate) : Prop :=
  (v_no_open s = true -> has (v_out_opts s) F_ZERO_MESSAGE_OPEN = true) /\
  (v_no_opendir s = true -> has (v_out_opts s) F_ZERO_MESSAGE_OPENDIR = true).

Theorem vfs_switch_iff_enabled s opts bs out s' :
  vfs_cfg_coherent s -> vfs_init s opts bs = (IOk out, s') ->
  vfs_open_enosys s' = has out F_ZERO_MESSAGE_OPEN /\
  vfs_opendir_enosys s' = has out F_ZERO_MESSAGE_OPENDIR /\
  vfs_cfg_coherent s'.
Proof.
  intros [C1 C2] H.
  assert (Hi : v_initialized s = false).
  { unfold vfs_init in H. destruct (v_initialized s); [discriminate|reflexivity]. }
  destruct (vfs_init_state _ _ _ _ _ Hi H) as [E1 [E2 [E3 [_ [[Er _]|[e [Er _]]]]]]]; [|discriminate].
  inversion Er; subst out. clear Er.
  assert (A : vfs_open_enosys s' = has (v_out_opts (vfs_negotiate s opts)) F_ZERO_MESSAGE_OPEN).
  { unfold vfs_open_enosys. rewrite E1, vfs_negotiate_no_open, ZMO_val, !has_pow2.
    rewrite vfs_negotiate_out_bit by reflexivity.
    rewrite ZMO_val, has_pow2 in C1.
    destruct (v_no_open s); [rewrite (C1 eq_refl)|];
      destruct (N.testbit opts 17), (N.testbit (v_out_opts s) 17), (v_no_opendir s), (v_no_writeback s), (v_killpriv_v2 s);
      reflexivity. }
  assert (B : vfs_opendir_enosys s' = has (v_out_opts (vfs_negotiate s opts)) F_ZERO_MESSAGE_OPENDIR).
  { unfold vfs_opendir_enosys. rewrite E2, vfs_negotiate_no_opendir, ZMOD_val, !has_pow2.
    rewrite vfs_negotiate_out_bit by reflexivity.
    rewrite ZMOD_val, has_pow2 in C2.
    destruct (v_no_opendir s); [rewrite (C2 eq_refl)|];
      destruct (N.testbit opts 24), (N.testbit (v_out_opts s) 24), (v_no_open s), (v_no_writeback s), (v_killpriv_v2 s);
      reflexivity. }
  split; [exact A|]. split; [exact B|].
  unfold vfs_cfg_coherent. rewrite E3. unfold vfs_open_enosys, vfs_opendir_enosys in A, B.
  rewrite <- A, <- B. split; intro X; exact X.
Qed.

Lemma vfs_default_coherent a b c d : vfs_cfg_coherent (vfs_new a b c d vfs_default_out).
Proof. split; intros _; vm_compute; reflexivity. Qed.

(* writeback / kill-priv are passed on only if configured and offered; ATOMIC_O_TRUNC never with no-open *)
Theorem vfs_out_feature_bits s opts :
  (has (v_out_opts (vfs_negotiate s opts)) F_WRITEBACK_CACHE = true ->
     v_no_writeback s = false /\ has opts F_WRITEBACK_CACHE = true) /\
  (has (v_out_opts (vfs_negotiate s opts)) F_HANDLE_KILLPRIV_V2 = true ->
     v_killpriv_v2 s = true /\ has opts F_HANDLE_KILLPRIV_V2 = true) /\
  (has (v_out_opts (vfs_negotiate s opts)) F_PERFILE_DAX = true -> has opts F_PERFILE_DAX = true) /\
  (v_no_open (vfs_negotiate s opts) = true -> has (v_out_opts (vfs_negotiate s opts)) F_ATOMIC_O_TRUNC = false).
Proof.
  rewrite WB_val, KP_val, DAX_val, AOT_val, !has_pow2, !vfs_negotiate_out_bit by reflexivity.
  rewrite vfs_negotiate_no_open.
  split; [|split; [|split]].
  - destruct (v_no_open s), (v_no_opendir s), (v_no_writeback s), (v_killpriv_v2 s),
      (N.testbit (v_out_opts s) 16), (N.testbit opts 16); cbn; intro H; try discriminate; split; reflexivity.
  - destruct (v_no_open s), (v_no_opendir s), (v_no_writeback s), (v_killpriv_v2 s),
      (N.testbit (v_out_opts s) 28), (N.testbit opts 28); cbn; intro H; try discriminate; split; reflexivity.
  - destruct (v_no_open s), (v_no_opendir s), (v_no_writeback s), (v_killpriv_v2 s),
      (N.testbit (v_out_opts s) 33), (N.testbit opts 33); cbn; intro H; try discriminate; reflexivity.
  - destruct (v_no_open s), (v_no_opendir s), (v_no_writeback s), (v_killpriv_v2 s),
      (N.testbit (v_out_opts s) 3), (N.testbit opts 3), (has opts F_ZERO_MESSAGE_OPEN);
      cbn; intro H; try discriminate; reflexivity.
Qed.

(* the VFS refuses a second INIT (until DESTROY) *)
Theorem vfs_second_init_refused s opts bs out s' :
  vfs_init s opts bs = (IOk out, s') ->
  forall opts' bs', vfs_init s' opts' bs' = (IErr EINVAL, s').
Proof.
  intros H opts' bs'.
  assert (Hi : v_initialized s = false).
  { unfold vfs_init in H. destruct (v_initialized s); [discriminate|reflexivity]. }
  destruct (vfs_init_state _ _ _ _ _ Hi H) as [_ [_ [_ [_ [[_ I]|[e [Er _]]]]]]]; [|discriminate].
  unfold vfs_init. rewrite I. reflexivity.
Qed.

Theorem vfs_init_when_initialized s opts bs :
  v_initialized s = true -> vfs_init s opts bs = (IErr EINVAL, s).
Proof. intro H. unfold vfs_init. rewrite H. reflexivity. Qed.

(* ------------------------------------------------------------------ PassthroughFs / OverlayFs *)
Definition toggles_within (t : toggles) (capable : N) : Prop :=
  (t_writeback t = true -> contains capable F_WRITEBACK_CACHE = true) /\
  (t_no_open t = true -> contains capable F_ZERO_MESSAGE_OPEN = true) /\
  (t_no_opendir t = true -> contains capable F_ZERO_MESSAGE_OPENDIR = true) /\
  (t_killpriv_v2 t = true -> contains capable F_HANDLE_KILLPRIV_V2 = true) /\
  (t_perfile_dax t = true -> contains capable F_PERFILE_DAX = true).

(* after ANY init (whatever the switches were before): every switch that is on has its bit in the
   capability word of that init *)
Theorem pt_init_any c t capable : toggles_within (snd (pt_init c t capable)) capable.
Proof.
  unfold pt_init, toggles_within. cbn [snd t_writeback t_no_open t_no_opendir t_killpriv_v2 t_perfile_dax].
  repeat split; intro H; try (apply andb_prop in H; apply H); exact H.
Qed.

Theorem ovl_init_any c t capable : toggles_within (snd (ovl_init c t capable)) capable.
Proof.
  unfold ovl_init, toggles_within. cbn [snd t_writeback t_no_open t_no_opendir t_killpriv_v2 t_perfile_dax].
  repeat split; intro H; apply andb_prop in H; apply H.
Qed.

(* the switches after an init do not depend on the switches before it *)
Theorem pt_init_overwrites c t t' capable : pt_init c t capable = pt_init c t' capable.
Proof. reflexivity. Qed.
Theorem ovl_init_overwrites c t t' capable : ovl_init c t capable = ovl_init c t' capable.
Proof. reflexivity. Qed.

Theorem pt_init_fresh c capable : toggles_within (snd (pt_init c toggles_off capable)) capable.
Proof. apply pt_init_any. Qed.

Theorem ovl_init_fresh c capable : toggles_within (snd (ovl_init c toggles_off capable)) capable.
Proof. apply ovl_init_any. Qed.

(* under a VFS (do_import = false) the passthrough layer honours exactly the word it is given *)
Theorem pt_under_vfs_exact c capable :
  c_do_import c = false ->
  let t := snd (pt_init c toggles_off capable) in
  t_writeback t = contains capable F_WRITEBACK_CACHE /\
  t_no_open t = contains capable F_ZERO_MESSAGE_OPEN /\
  t_no_opendir t = contains capable F_ZERO_MESSAGE_OPENDIR /\
  t_killpriv_v2 t = contains capable F_HANDLE_KILLPRIV_V2 /\
  t_perfile_dax t = contains capable F_PERFILE_DAX.
Proof.
  intro H. unfold pt_init, allowed. rewrite H.
  cbn [snd t_writeback t_no_open t_no_opendir t_killpriv_v2 t_perfile_dax toggles_off orb negb andb].
  repeat split; reflexivity.
Qed.

(* standalone (do_import = true): additionally the configuration switch must be on *)
Theorem pt_standalone_needs_switch c capable :
  c_do_import c = true ->
  let t := snd (pt_init c toggles_off capable) in
  (t_writeback t = true -> c_writeback c = true) /\ (t_no_open t = true -> c_no_open c = true) /\
  (t_no_opendir t = true -> c_no_opendir c = true) /\ (t_killpriv_v2 t = true -> c_killpriv_v2 c = true).
Proof.
  intro H. unfold pt_init, allowed. rewrite H.
  cbn [snd t_writeback t_no_open t_no_opendir t_killpriv_v2 t_perfile_dax toggles_off orb negb].
  repeat split; intro A; apply andb_prop in A; apply A.
Qed.

(* PassthroughFs::new drops no_open unless cache=always and writeback when cache=none *)
Theorem pt_new_policy p c :
  (c_no_open (pt_new p c) = true -> p = CacheAlways) /\ (c_writeback (pt_new p c) = true -> p <> CacheNever).
Proof. destruct p; cbn; split; intro H; try discriminate; try reflexivity; intro E; discriminate. Qed.

(* the option bits a layer returns beyond DO_READDIRPLUS | READDIRPLUS_AUTO were offered and correspond
   to the switch it just turned on *)
Lemma layer_opts_bits (wb no nd kp dx : bool) :
  let o := cond_or dx (cond_or kp (cond_or nd
            (if no then remove (N.lor (cond_or wb (N.lor F_DO_READDIRPLUS F_READDIRPLUS_AUTO) F_WRITEBACK_CACHE)
                                      F_ZERO_MESSAGE_OPEN) F_ATOMIC_O_TRUNC
             else cond_or wb (N.lor F_DO_READDIRPLUS F_READDIRPLUS_AUTO) F_WRITEBACK_CACHE)
            F_ZERO_MESSAGE_OPENDIR) F_HANDLE_KILLPRIV_V2) F_PERFILE_DAX in
  has o F_WRITEBACK_CACHE = wb /\ has o F_ZERO_MESSAGE_OPEN = no /\ has o F_ZERO_MESSAGE_OPENDIR = nd /\
  has o F_HANDLE_KILLPRIV_V2 = kp /\ has o F_PERFILE_DAX = dx /\ has o F_ATOMIC_O_TRUNC = false.
Proof. destruct wb, no, nd, kp, dx; vm_compute; repeat split; reflexivity. Qed.

Theorem pt_opts_offered c t capable :
  let o := fst (pt_init c t capable) in
  (has o F_WRITEBACK_CACHE = true -> contains capable F_WRITEBACK_CACHE = true) /\
  (has o F_ZERO_MESSAGE_OPEN = true -> contains capable F_ZERO_MESSAGE_OPEN = true) /\
  (has o F_ZERO_MESSAGE_OPENDIR = true -> contains capable F_ZERO_MESSAGE_OPENDIR = true) /\
  (has o F_HANDLE_KILLPRIV_V2 = true -> contains capable F_HANDLE_KILLPRIV_V2 = true) /\
  (has o F_PERFILE_DAX = true -> contains capable F_PERFILE_DAX = true).
Proof.
  unfold pt_init. cbv zeta. cbn [fst].
  destruct (layer_opts_bits (allowed c (c_writeback c) && contains capable F_WRITEBACK_CACHE)
             (allowed c (c_no_open c) && contains capable F_ZERO_MESSAGE_OPEN)
             (allowed c (c_no_opendir c) && contains capable F_ZERO_MESSAGE_OPENDIR)
             (allowed c (c_killpriv_v2 c) && contains capable F_HANDLE_KILLPRIV_V2)
             (contains capable F_PERFILE_DAX)) as [E1 [E2 [E3 [E4 [E5 _]]]]].
  cbv zeta in E1, E2, E3, E4, E5. rewrite E1, E2, E3, E4, E5.
  repeat split; intro A; try (apply andb_prop in A; apply A); exact A.
Qed.

Theorem ovl_opts_offered c t capable :
  let o := fst (ovl_init c t capable) in
  (has o F_WRITEBACK_CACHE = true -> contains capable F_WRITEBACK_CACHE = true) /\
  (has o F_ZERO_MESSAGE_OPEN = true -> contains capable F_ZERO_MESSAGE_OPEN = true) /\
  (has o F_ZERO_MESSAGE_OPENDIR = true -> contains capable F_ZERO_MESSAGE_OPENDIR = true) /\
  (has o F_HANDLE_KILLPRIV_V2 = true -> contains capable F_HANDLE_KILLPRIV_V2 = true) /\
  (has o F_PERFILE_DAX = true -> contains capable F_PERFILE_DAX = true /\ c_perfile_dax c = true).
Proof.
  unfold ovl_init. cbv zeta. cbn [fst].
  destruct (layer_opts_bits (allowed c (c_writeback c) && contains capable F_WRITEBACK_CACHE)
             (allowed c (c_no_open c) && contains capable F_ZERO_MESSAGE_OPEN)
             (allowed c (c_no_opendir c) && contains capable F_ZERO_MESSAGE_OPENDIR)
             (allowed c (c_killpriv_v2 c) && contains capable F_HANDLE_KILLPRIV_V2)
             (c_perfile_dax c && contains capable F_PERFILE_DAX)) as [E1 [E2 [E3 [E4 [E5 _]]]]].
  cbv zeta in E1, E2, E3, E4, E5. rewrite E1, E2, E3, E4, E5.
  split; [|split; [|split; [|split]]]; intro A; apply andb_prop in A; try apply A.
  split; apply A.
Qed.

(* ------------------------------------------------------------------ histories (INIT, DESTROY, INIT, ...) *)
(* after any number of earlier INIT/DESTROY rounds, the switches on after an INIT were negotiated by
   THAT init (true since fix 3c323ec; before it the switches were never stored back to false) *)
Definition pt_history_full : Prop :=
  forall c caps capable, toggles_within (snd (pt_init c (pt_run c toggles_off caps) capable)) capable.
Definition ovl_history_full : Prop :=
  forall c caps capable, toggles_within (snd (ovl_init c (ovl_run c toggles_off caps) capable)) capable.

Definition all_caps : N := 18446744073709551615.

Theorem pt_history_holds : pt_history_full.
Proof. intros c caps capable. apply pt_init_any. Qed.

Theorem ovl_history_holds : ovl_history_full.
Proof. intros c caps capable. apply ovl_init_any. Qed.

(* stronger: the switches after the last INIT of a history are those of a fresh instance given that word *)
Theorem pt_history_last c caps capable :
  snd (pt_init c (pt_run c toggles_off caps) capable) = snd (pt_init c toggles_off capable).
Proof. reflexivity. Qed.
Theorem ovl_history_last c caps capable :
  snd (ovl_init c (ovl_run c toggles_off caps) capable) = snd (ovl_init c toggles_off capable).
Proof. reflexivity. Qed.

(* ------------------------------------------------------------------ behaviours *)
Definition behaviour_within (b : behaviour) (capable : N) : Prop :=
  (b_open_enosys b = true -> contains capable F_ZERO_MESSAGE_OPEN = true) /\
  (b_opendir_enosys b = true -> contains capable F_ZERO_MESSAGE_OPENDIR = true) /\
  (b_writeback_flags b = true -> contains capable F_WRITEBACK_CACHE = true) /\
  (b_killpriv b = true -> contains capable F_HANDLE_KILLPRIV_V2 = true) /\
  (b_dax b = true -> contains capable F_PERFILE_DAX = true).

Theorem pt_behaviour_negotiated_any c t capable :
  behaviour_within (pt_behaviour c (snd (pt_init c t capable))) capable.
Proof.
  destruct (pt_init_any c t capable) as [A [B [C [D E]]]].
  unfold behaviour_within, pt_behaviour. cbn [b_open_enosys b_opendir_enosys b_writeback_flags b_killpriv b_dax].
  repeat split; assumption.
Qed.

Theorem pt_behaviour_negotiated c capable :
  behaviour_within (pt_behaviour c (snd (pt_init c toggles_off capable))) capable.
Proof. apply pt_behaviour_negotiated_any. Qed.

(* every overlay behaviour is on only when negotiated by the last INIT, whatever happened before
   (true since fix 018111a; before it open()/create() followed the configuration switch) *)
Definition ovl_behaviour_full : Prop :=
  forall c t capable, behaviour_within (ovl_behaviour c (snd (ovl_init c t capable))) capable.

Theorem ovl_behaviour_holds : ovl_behaviour_full.
Proof.
  intros c t capable. destruct (ovl_init_any c t capable) as [A [B [C [D E]]]].
  unfold behaviour_within, ovl_behaviour. cbn [b_open_enosys b_opendir_enosys b_writeback_flags b_killpriv b_dax].
  repeat split; try assumption; discriminate.
Qed.

(* ------------------------------------------------------------------ twin entry points *)
(* RELEASE / RELEASEDIR / CREATE / SETATTR consult the same switches as OPEN / OPENDIR: the observable
   answers of the twins are functions of the behaviour record, so the theorems above apply to them *)
Definition twins_within (w : twins) (capable : N) : Prop :=
  (w_release w = UEnosys -> contains capable F_ZERO_MESSAGE_OPEN = true) /\
  (w_releasedir w = UEnosys -> contains capable F_ZERO_MESSAGE_OPENDIR = true) /\
  (w_create_handle w = false -> contains capable F_ZERO_MESSAGE_OPEN = true) /\
  (w_create_wb w = Some true -> contains capable F_WRITEBACK_CACHE = true) /\
  (w_create_killpriv w = Some true -> contains capable F_HANDLE_KILLPRIV_V2 = true) /\
  (w_setattr_killpriv w = Some true -> contains capable F_HANDLE_KILLPRIV_V2 = true).

Theorem pt_twins_agree c t :
  let b := pt_behaviour c t in let w := pt_twins t in
  (w_release w = if b_open_enosys b then UEnosys else UOk) /\
  (w_releasedir w = if b_opendir_enosys b then UEnosys else UOk) /\
  w_create_handle w = negb (b_open_enosys b) /\
  w_create_wb w = tri (negb (b_open_enosys b)) (b_writeback_flags b) /\
  w_create_killpriv w = Some (b_killpriv b) /\ w_setattr_killpriv w = Some (b_killpriv b).
Proof. repeat split; reflexivity. Qed.

Theorem ovl_twins_agree c t :
  let b := ovl_behaviour c t in let w := ovl_twins t in
  (w_release w = if b_open_enosys b then UEnosys else UOk) /\
  (w_releasedir w = if b_opendir_enosys b then UEnosys else UOk) /\
  w_create_handle w = negb (b_open_enosys b) /\
  w_create_wb w = tri (negb (b_open_enosys b)) (b_writeback_flags b) /\
  w_create_killpriv w = None /\ w_setattr_killpriv w = Some (b_killpriv b).
Proof. repeat split; reflexivity. Qed.

Lemma twins_of_toggles_within (t : toggles) capable (w : twins) :
  toggles_within t capable ->
  (w_release w = UEnosys -> t_no_open t = true) ->
  (w_releasedir w = UEnosys -> t_no_opendir t = true) ->
  (w_create_handle w = false -> t_no_open t = true) ->
  (w_create_wb w = Some true -> t_writeback t = true) ->
  (w_create_killpriv w = Some true -> t_killpriv_v2 t = true) ->
  (w_setattr_killpriv w = Some true -> t_killpriv_v2 t = true) ->
  twins_within w capable.
Proof.
  intros [A [B [C [D E]]]] H1 H2 H3 H4 H5 H6. unfold twins_within.
  repeat split; intro H; auto.
Qed.

Theorem pt_twins_negotiated c t capable : twins_within (pt_twins (snd (pt_init c t capable))) capable.
Proof.
  apply (twins_of_toggles_within _ _ _ (pt_init_any c t capable)); unfold pt_twins;
    cbn [w_release w_releasedir w_create_handle w_create_wb w_create_killpriv w_setattr_killpriv].
  - destruct (t_no_open _); [reflexivity|discriminate].
  - destruct (t_no_opendir _); [reflexivity|discriminate].
  - intro H. apply negb_false_iff in H. exact H.
  - destruct (t_no_open _); cbn [negb tri]; [discriminate|]. intro H; inversion H; reflexivity.
  - intro H; inversion H; reflexivity.
  - intro H; inversion H; reflexivity.
Qed.

Theorem ovl_twins_negotiated c t capable : twins_within (ovl_twins (snd (ovl_init c t capable))) capable.
Proof.
  apply (twins_of_toggles_within _ _ _ (ovl_init_any c t capable)); unfold ovl_twins;
    cbn [w_release w_releasedir w_create_handle w_create_wb w_create_killpriv w_setattr_killpriv].
  - destruct (t_no_open _); [reflexivity|discriminate].
  - destruct (t_no_opendir _); [reflexivity|discriminate].
  - intro H. apply negb_false_iff in H. exact H.
  - destruct (t_no_open _); cbn [negb tri]; [discriminate|]. intro H; inversion H; reflexivity.
  - discriminate.
  - discriminate.
Qed.

(* a single feature bit of a word that is a subset of [opts] is in [opts] *)
Lemma contains_subset w opts k : N.land w opts = w -> contains w (2 ^ k) = true -> contains opts (2 ^ k) = true.
Proof.
  intros Hs. rewrite !contains_pow2. intro H. rewrite <- Hs, N.land_spec in H.
  apply andb_prop in H. apply H.
Qed.

Lemma twins_within_subset w word opts :
  N.land word opts = word -> twins_within w word -> twins_within w opts.
Proof.
  intros Hs [A [B [C [D [E F]]]]]. unfold twins_within.
  rewrite ZMO_val, ZMOD_val, WB_val, KP_val in *.
  repeat split; intro H; eapply contains_subset; eauto.
Qed.

(* through a Vfs: the twins answer with the backend's switches, which were negotiated from a subset of the
   client's word; the Vfs only turns an `ok` into an error, never into ENOSYS *)
Theorem vfs_twins_negotiated s s' t c opts :
  twins_within (vfs_twins s' (snd (pt_init c t (vfs_backend_word s opts)))) opts.
Proof.
  apply (twins_within_subset _ (vfs_backend_word s opts)); [apply vfs_out_subset|].
  pose proof (pt_twins_negotiated c t (vfs_backend_word s opts)) as [A [B [C [D [E F]]]]].
  set (tb := snd (pt_init c t (vfs_backend_word s opts))) in *.
  unfold twins_within, vfs_twins. cbn [w_release w_releasedir w_create_handle w_create_wb w_create_killpriv w_setattr_killpriv].
  repeat split; try assumption.
  - intro H. apply A. destruct (w_release (pt_twins tb)); [destruct (vfs_open_enosys s'); discriminate|reflexivity|discriminate].
  - intro H. apply B. destruct (w_releasedir (pt_twins tb)); [destruct (vfs_opendir_enosys s'); discriminate|reflexivity|discriminate].
Qed.

(* ------------------------------------------------------------------ handle-path entry points
   FLUSH, GETATTR / FSYNC / READDIR with a handle and WRITE with WRITE_KILL_PRIV read the same switches *)
Definition hpaths_within (w : hpaths) (capable : N) : Prop :=
  (h_flush w = UEnosys -> contains capable F_ZERO_MESSAGE_OPEN = true) /\
  (h_getattr w = Some true -> contains capable F_ZERO_MESSAGE_OPEN = true) /\
  (h_fsync w = Some true -> contains capable F_ZERO_MESSAGE_OPEN = true) /\
  (h_readdir w = Some true -> contains capable F_ZERO_MESSAGE_OPENDIR = true) /\
  (h_write_kp w = Some true -> contains capable F_HANDLE_KILLPRIV_V2 = true) /\
  (h_write_append w = Some true -> contains capable F_WRITEBACK_CACHE = true).

Theorem pt_hpaths_agree c t :
  let b := pt_behaviour c t in let w := pt_hpaths t in
  (h_flush w = if b_open_enosys b then UEnosys else UOk) /\
  h_getattr w = Some (b_open_enosys b) /\ h_fsync w = Some (b_open_enosys b) /\
  h_readdir w = Some (b_opendir_enosys b) /\ h_write_kp w = Some (b_killpriv b) /\
  h_write_append w = Some (b_writeback_flags b).
Proof. repeat split; reflexivity. Qed.

Theorem ovl_hpaths_agree c t :
  let b := ovl_behaviour c t in let w := ovl_hpaths t in
  (h_flush w = if b_open_enosys b then UEnosys else UOk) /\
  h_getattr w = None /\ h_fsync w = Some (b_open_enosys b) /\ h_readdir w = None /\
  h_write_kp w = (if b_open_enosys b then None else Some (b_killpriv b)) /\
  h_write_append w = (if b_open_enosys b then None else Some false).
Proof. repeat split; reflexivity. Qed.

Lemma hpaths_of_toggles_within (t : toggles) capable (w : hpaths) :
  toggles_within t capable ->
  (h_flush w = UEnosys -> t_no_open t = true) ->
  (h_getattr w = Some true -> t_no_open t = true) ->
  (h_fsync w = Some true -> t_no_open t = true) ->
  (h_readdir w = Some true -> t_no_opendir t = true) ->
  (h_write_kp w = Some true -> t_killpriv_v2 t = true) ->
  (h_write_append w = Some true -> t_writeback t = true) ->
  hpaths_within w capable.
Proof.
  intros [A [B [C [D E]]]] H1 H2 H3 H4 H5 H6. unfold hpaths_within.
  repeat split; intro H; auto.
Qed.

Theorem pt_hpaths_negotiated c t capable : hpaths_within (pt_hpaths (snd (pt_init c t capable))) capable.
Proof.
  apply (hpaths_of_toggles_within _ _ _ (pt_init_any c t capable)); unfold pt_hpaths;
    cbn [h_flush h_getattr h_fsync h_readdir h_write_kp h_write_append].
  - destruct (t_no_open _); [reflexivity|discriminate].
  - intro H; inversion H; reflexivity.
  - intro H; inversion H; reflexivity.
  - intro H; inversion H; reflexivity.
  - intro H; inversion H; reflexivity.
  - intro H; inversion H; reflexivity.
Qed.

Theorem ovl_hpaths_negotiated c t capable : hpaths_within (ovl_hpaths (snd (ovl_init c t capable))) capable.
Proof.
  apply (hpaths_of_toggles_within _ _ _ (ovl_init_any c t capable)); unfold ovl_hpaths;
    cbn [h_flush h_getattr h_fsync h_readdir h_write_kp h_write_append].
  - destruct (t_no_open _); [reflexivity|discriminate].
  - discriminate.
  - intro H; inversion H; reflexivity.
  - discriminate.
  - destruct (t_no_open _); discriminate.
  - destruct (t_no_open _); discriminate.
Qed.

Lemma hpaths_within_subset w word opts :
  N.land word opts = word -> hpaths_within w word -> hpaths_within w opts.
Proof.
  intros Hs [A [B [C [D [E F]]]]]. unfold hpaths_within.
  rewrite ZMO_val, ZMOD_val, KP_val, WB_val in *.
  repeat split; intro H; eapply contains_subset; eauto.
Qed.

(* through a Vfs: the backend's switches were negotiated from a subset of the client's word; the Vfs only turns
   an `ok` into an error or hides the write, never the other way *)
Theorem vfs_hpaths_negotiated s s' t c opts :
  hpaths_within (vfs_hpaths s' (snd (pt_init c t (vfs_backend_word s opts)))) opts.
Proof.
  apply (hpaths_within_subset _ (vfs_backend_word s opts)); [apply vfs_out_subset|].
  pose proof (pt_hpaths_negotiated c t (vfs_backend_word s opts)) as [A [B [C [D [E F]]]]].
  set (tb := snd (pt_init c t (vfs_backend_word s opts))) in *.
  unfold hpaths_within, vfs_hpaths. cbn [h_flush h_getattr h_fsync h_readdir h_write_kp h_write_append].
  repeat split; try assumption.
  - intro H. apply A. destruct (h_flush (pt_hpaths tb)); [destruct (vfs_open_enosys s'); discriminate|reflexivity|discriminate].
  - intro H. apply E. destruct (vfs_open_enosys s' && negb (t_no_open tb)); [discriminate|exact H].
  - intro H. apply F. destruct (vfs_open_enosys s' && negb (t_no_open tb)); [discriminate|exact H].
Qed.

(* per-file DAX with a dax_file_size threshold: still only with the negotiated switch *)
Theorem pt_behaviour_d_negotiated d c t capable :
  behaviour_within (pt_behaviour_d d c (snd (pt_init c t capable))) capable.
Proof.
  destruct (pt_init_any c t capable) as [A [B [C [D E]]]].
  unfold behaviour_within, pt_behaviour_d. cbn [b_open_enosys b_opendir_enosys b_writeback_flags b_killpriv b_dax].
  repeat split; try assumption. intro H. apply andb_prop in H. apply E, H.
Qed.
Lemma pt_behaviour_d_true c t : pt_behaviour_d true c t = pt_behaviour c t.
Proof. unfold pt_behaviour_d, pt_behaviour. rewrite andb_true_r. reflexivity. Qed.

(* the async entry point of the Vfs is the same test on the same state: every theorem about
   [vfs_open_enosys] is a theorem about it *)
Theorem vfs_async_open_twin s : vfs_async_open_enosys s = vfs_open_enosys s.
Proof. reflexivity. Qed.

Theorem vfs_async_no_open_negotiated s opts bs r s' :
  v_initialized s = false -> vfs_init s opts bs = (r, s') ->
  vfs_async_open_enosys s' = true -> has opts F_ZERO_MESSAGE_OPEN = true.
Proof. rewrite vfs_async_open_twin. apply vfs_no_open_negotiated. Qed.

(* ------------------------------------------------------------------ statements as used by Props/C12.v *)
Definition toggles_history_full : Prop := pt_history_full /\ ovl_history_full.
Theorem toggles_history_holds : toggles_history_full.
Proof. split; [exact pt_history_holds|exact ovl_history_holds]. Qed.

Theorem toggles_history_last c caps capable :
  snd (pt_init c (pt_run c toggles_off caps) capable) = snd (pt_init c toggles_off capable) /\
  snd (ovl_init c (ovl_run c toggles_off caps) capable) = snd (ovl_init c toggles_off capable).
Proof. split; [apply pt_history_last|apply ovl_history_last]. Qed.

(* the former refutation witnesses, now examples of the repaired behaviour *)
Lemma reinit_witness_pt :
  t_no_open (pt_run under_vfs toggles_off [all_caps]) = true /\
  snd (pt_init under_vfs (pt_run under_vfs toggles_off [all_caps]) 0) = toggles_off.
Proof. vm_compute. split; reflexivity. Qed.

Lemma reinit_witness_ovl :
  t_no_open (ovl_run under_vfs toggles_off [all_caps]) = true /\
  snd (ovl_init under_vfs (ovl_run under_vfs toggles_off [all_caps]) 0) = toggles_off.
Proof. vm_compute. split; reflexivity. Qed.

Lemma ovl_writeback_witness :
  let c := mkC true true false false false false in
  b_writeback_flags (ovl_behaviour c (snd (ovl_init c toggles_off 0))) = false /\
  b_writeback_flags (ovl_behaviour c (snd (ovl_init c toggles_off F_WRITEBACK_CACHE))) = true.
Proof. vm_compute. split; reflexivity. Qed.

Lemma flag_constants_short :
  fsopt "WRITEBACK_CACHE" = F_WRITEBACK_CACHE /\ fsopt "ZERO_MESSAGE_OPEN" = F_ZERO_MESSAGE_OPEN /\
  fsopt "ZERO_MESSAGE_OPENDIR" = F_ZERO_MESSAGE_OPENDIR /\ fsopt "HANDLE_KILLPRIV_V2" = F_HANDLE_KILLPRIV_V2 /\
  fsopt "PERFILE_DAX" = F_PERFILE_DAX /\ fsopt "ATOMIC_O_TRUNC" = F_ATOMIC_O_TRUNC.
Proof. vm_compute. repeat split; reflexivity. Qed.
