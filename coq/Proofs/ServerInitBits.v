(* C12: bit-level facts over N used by the INIT negotiation proofs (Proofs/ServerInit.v). *)
From Coq Require Import NArith Bool Lia.
Local Open Scope N_scope.

(* ---------------------------------------------------------------- single-bit masks *)
Lemma land_pow2 v k : N.land v (2 ^ k) = if N.testbit v k then 2 ^ k else 0.
Proof.
  apply N.bits_inj; intro n. rewrite N.land_spec, N.pow2_bits_eqb.
  destruct (N.eqb_spec k n) as [->|Hne].
  - destruct (N.testbit v n); [now rewrite N.pow2_bits_true|now rewrite N.bits_0].
  - rewrite andb_false_r.
    destruct (N.testbit v k); [now rewrite N.pow2_bits_false by exact Hne|now rewrite N.bits_0].
Qed.

Lemma land_pow2_nz v k : negb (N.land v (2 ^ k) =? 0) = N.testbit v k.
Proof.
  rewrite land_pow2. destruct (N.testbit v k); [|reflexivity].
  destruct (N.eqb_spec (2 ^ k) 0) as [E|_]; [|reflexivity].
  exfalso; revert E; apply N.pow_nonzero; lia.
Qed.

(* a value below 2^k has no bit at or above k *)
Lemma testbit_high v k n : v < 2 ^ k -> k <= n -> N.testbit v n = false.
Proof.
  intros Hv Hn. destruct (N.eq_dec v 0) as [->|Hnz]; [apply N.bits_0|].
  apply N.bits_above_log2. apply N.log2_lt_pow2 in Hv; lia.
Qed.

Lemma below_pow2_of_bits v k : (forall n, k <= n -> N.testbit v n = false) -> v < 2 ^ k.
Proof.
  intro H. destruct (N.eq_dec v 0) as [->|Hnz]; [apply N.neq_0_lt_0, N.pow_nonzero; lia|].
  apply N.log2_lt_pow2; [lia|].
  destruct (N.lt_ge_cases (N.log2 v) k) as [Hlt|Hge]; [exact Hlt|].
  specialize (H _ Hge). rewrite N.bit_log2 in H by exact Hnz. discriminate.
Qed.

Lemma land_below a b k : a < 2 ^ k -> N.land a b < 2 ^ k.
Proof.
  intro Ha. apply below_pow2_of_bits. intros n Hn.
  rewrite N.land_spec, (testbit_high a k n Ha Hn). reflexivity.
Qed.

Lemma lor_below a b k : a < 2 ^ k -> b < 2 ^ k -> N.lor a b < 2 ^ k.
Proof.
  intros Ha Hb. apply below_pow2_of_bits. intros n Hn.
  rewrite N.lor_spec, (testbit_high a k n Ha Hn), (testbit_high b k n Hb Hn). reflexivity.
Qed.

Lemma shiftl32_below f : f < 2 ^ 32 -> N.shiftl f 32 < 2 ^ 64.
Proof.
  intro Hf. rewrite N.shiftl_mul_pow2. change (2 ^ 64) with (2 ^ 32 * 2 ^ 32).
  apply N.mul_lt_mono_pos_r; [reflexivity|exact Hf].
Qed.

(* ---------------------------------------------------------------- the two 32-bit halves *)
Lemma testbit_mod32 e n : N.testbit (e mod 2 ^ 32) n = (n <? 32) && N.testbit e n.
Proof.
  destruct (N.ltb_spec n 32) as [Hlt|Hge].
  - rewrite N.mod_pow2_bits_low by exact Hlt. reflexivity.
  - rewrite N.mod_pow2_bits_high by exact Hge. reflexivity.
Qed.

Lemma testbit_shl32 f n : N.testbit (N.shiftl f 32) n = negb (n <? 32) && N.testbit f (n - 32).
Proof.
  destruct (N.ltb_spec n 32) as [Hlt|Hge].
  - rewrite N.shiftl_spec_low by exact Hlt. reflexivity.
  - rewrite N.shiftl_spec_high' by exact Hge. reflexivity.
Qed.

(* the reply's two words put together again give the 64-bit value *)
Lemma lor_split32 e :
  N.lor (e mod 2 ^ 32) (N.shiftl (N.shiftr e 32) 32) = e.
Proof.
  apply N.bits_inj; intro n.
  rewrite N.lor_spec, testbit_mod32, testbit_shl32, N.shiftr_spec'.
  destruct (N.ltb_spec n 32) as [Hlt|Hge]; cbn [negb andb].
  - apply orb_false_r.
  - replace (n - 32 + 32) with n by lia. reflexivity.
Qed.

Lemma shiftr32_below e : e < 2 ^ 64 -> N.shiftr e 32 < 2 ^ 32.
Proof.
  intro He. apply below_pow2_of_bits. intros n Hn.
  rewrite N.shiftr_spec'. apply (testbit_high e 64); [exact He|lia].
Qed.

Lemma mod32_of_below32 e : e < 2 ^ 32 -> e mod 2 ^ 32 = e.
Proof. intro H. apply N.mod_small. exact H. Qed.

Lemma shiftr32_of_below32 e : e < 2 ^ 32 -> N.shiftr e 32 = 0.
Proof.
  intro H. apply N.bits_inj; intro n. rewrite N.shiftr_spec', N.bits_0.
  apply (testbit_high e 32); [exact H|lia].
Qed.

(* ---------------------------------------------------------------- clearing one bit *)
Definition clearbit (v k : N) : N := N.land v (N.lnot (2 ^ k) 64).

Lemma testbit_clearbit v k n : v < 2 ^ 64 -> k < 64 ->
  N.testbit (clearbit v k) n = N.testbit v n && negb (n =? k).
Proof.
  intros Hv Hk. unfold clearbit. rewrite N.land_spec.
  destruct (N.lt_ge_cases n 64) as [Hlt|Hge].
  - rewrite N.lnot_spec_low by exact Hlt. rewrite N.pow2_bits_eqb, (N.eqb_sym k n). reflexivity.
  - rewrite (testbit_high v 64 n Hv Hge). reflexivity.
Qed.

Lemma clearbit_below v k j : v < 2 ^ j -> clearbit v k < 2 ^ j.
Proof. intro H. unfold clearbit. apply land_below. exact H. Qed.

Lemma clearbit_mod32 v k : v < 2 ^ 64 -> k < 64 ->
  (clearbit v k) mod 2 ^ 32 = clearbit (v mod 2 ^ 32) k.
Proof.
  intros Hv Hk. apply N.bits_inj; intro n.
  assert (Hm : v mod 2 ^ 32 < 2 ^ 64).
  { eapply N.lt_trans; [apply N.mod_lt; discriminate|reflexivity]. }
  rewrite testbit_mod32, !testbit_clearbit, testbit_mod32 by assumption.
  rewrite andb_assoc. reflexivity.
Qed.

(* ---------------------------------------------------------------- the negotiation core
   [enabled] = (capable & want) | (capable & MARK); the client sees flags = enabled mod 2^32 and, only when
   the marker is in flags, flags2 = enabled >> 32.  What it reads is capable & want without the
   marker, provided high bits of [capable] only come together with the marker. *)
Section Core.
  Variable k : N.                      (* position of the marker bit, below 32 *)
  Hypothesis Hk : k < 32.

  Definition seen64 (flags flags2 : N) : N :=
    if N.testbit flags k then N.lor flags (N.shiftl flags2 32) else flags.

  Lemma enabled_below capable want :
    capable < 2 ^ 64 -> N.lor (N.land capable want) (N.land capable (2 ^ k)) < 2 ^ 64.
  Proof. intro H. apply lor_below; apply land_below; exact H. Qed.

  Lemma core_roundtrip capable want :
    capable < 2 ^ 64 ->
    (N.testbit capable k = false -> capable < 2 ^ 32) ->
    let enabled := N.lor (N.land capable want) (N.land capable (2 ^ k)) in
    clearbit (seen64 (enabled mod 2 ^ 32) ((N.shiftr enabled 32) mod 2 ^ 32)) k
    = clearbit (N.land capable want) k.
  Proof.
    intros Hc Hcoh enabled.
    assert (He : enabled < 2 ^ 64) by (apply enabled_below; exact Hc).
    assert (Hlw : N.land capable want < 2 ^ 64) by (apply land_below; exact Hc).
    assert (Hbit : forall n, N.testbit enabled n = N.testbit capable n && (N.testbit want n || (n =? k))).
    { intro n. unfold enabled. rewrite N.lor_spec, !N.land_spec, N.pow2_bits_eqb, (N.eqb_sym k n).
      destruct (N.testbit capable n), (N.testbit want n), (n =? k); reflexivity. }
    assert (Hmk : N.testbit (enabled mod 2 ^ 32) k = N.testbit capable k).
    { rewrite testbit_mod32, Hbit, N.eqb_refl, orb_true_r, andb_true_r.
      destruct (N.ltb_spec k 32); [reflexivity|lia]. }
    unfold seen64. rewrite Hmk.
    destruct (N.testbit capable k) eqn:Hm.
    - (* extended form: both words are read *)
      rewrite (N.mod_small (N.shiftr enabled 32)) by (apply shiftr32_below; exact He).
      rewrite lor_split32.
      apply N.bits_inj; intro n. rewrite !testbit_clearbit by (assumption || lia).
      rewrite Hbit, N.land_spec.
      destruct (N.eqb_spec n k) as [->|_]; cbn [negb]; [now rewrite !andb_false_r|].
      rewrite orb_false_r, !andb_true_r. reflexivity.
    - (* legacy form: capable has no high bits *)
      specialize (Hcoh eq_refl).
      assert (He32 : enabled < 2 ^ 32) by (unfold enabled; apply lor_below; apply land_below; exact Hcoh).
      rewrite (N.mod_small enabled) by exact He32.
      apply N.bits_inj; intro n. rewrite !testbit_clearbit by (assumption || lia).
      rewrite Hbit, N.land_spec.
      destruct (N.eqb_spec n k) as [->|_]; cbn [negb]; [now rewrite !andb_false_r|].
      rewrite orb_false_r, !andb_true_r. reflexivity.
  Qed.

  (* the 24-byte form: only the low word travels *)
  Lemma core_low_word capable want :
    capable < 2 ^ 64 ->
    let enabled := N.lor (N.land capable want) (N.land capable (2 ^ k)) in
    clearbit (enabled mod 2 ^ 32) k = (clearbit (N.land capable want) k) mod 2 ^ 32.
  Proof.
    intros Hc enabled.
    assert (Hlw : N.land capable want < 2 ^ 64) by (apply land_below; exact Hc).
    assert (Hm : enabled mod 2 ^ 32 < 2 ^ 64).
    { eapply N.lt_trans; [apply N.mod_lt; discriminate|reflexivity]. }
    apply N.bits_inj; intro n.
    rewrite testbit_mod32, !testbit_clearbit, testbit_mod32 by (assumption || lia).
    unfold enabled. rewrite N.lor_spec, !N.land_spec, N.pow2_bits_eqb, (N.eqb_sym k n).
    destruct (n <? 32), (N.testbit capable n), (N.testbit want n), (n =? k); reflexivity.
  Qed.
End Core.
