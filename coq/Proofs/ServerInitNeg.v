(* C12: the negotiation theorems about the server model's INIT handler [do_init]:
   what the client reads out of the reply is exactly (offered and known and wanted), per reply form. *)
From Coq Require Import List String NArith Bool Lia Arith.
From FB Require Import Lib.Bytes Lib.Layout Spec.KernelABI Model.Server Model.ServerCmp
  Spec.Requests Spec.Replies Spec.Init Proofs.ServerInitBits Proofs.ServerInit.
Import ListNotations.
Local Open Scope N_scope.

(* ------------------------------------------------------------------ the request *)
Definition init_tail (f2 : option N) : bytes :=
  match f2 with Some x => enc 4 x ++ repeat 0 44 | None => [] end.

(* body of an INIT request: the 16 bytes of InitIn, then (7.36 clients) the 48 extension bytes *)
Definition init_req (major minor ra flags : N) (f2 : option N) : bytes :=
  enc 4 major ++ enc 4 minor ++ enc 4 ra ++ enc 4 flags ++ init_tail f2.

(* the same request as a specification-level value (Spec/Requests.v) *)
Definition init_q (major minor ra flags : N) (f2 : option N) : wfreq :=
  {| q_op := 26; q_unique := 0; q_nodeid := 0; q_uid := 0; q_gid := 0; q_pid := 0;
     q_fields := [("major"%string, major); ("minor"%string, minor);
                  ("max_readahead"%string, ra); ("flags"%string, flags)];
     q_name1 := []; q_name2 := []; q_payload := []; q_pairs := []; q_flags2 := f2 |}.

Definition init_in_leaves : list leaf :=
  Eval vm_compute in match struct_leaves kernel_structs "fuse_init_in" with Some l => l | None => [] end.
Lemma init_in_leaves_eq : struct_leaves kernel_structs "fuse_init_in" = Some init_in_leaves.
Proof. vm_compute. reflexivity. Qed.

(* [init_req] is the kernel-table encoding of [init_q] (what encode_req puts after the header) *)
Lemma init_req_is_encoding major minor ra flags f2 :
  struct_bytes (init_q major minor ra flags f2) ++ tail_bytes (init_q major minor ra flags f2)
  = init_req major minor ra flags f2.
Proof.
  unfold struct_bytes, tail_bytes, init_req, init_tail. cbn [q_op init_q req_struct].
  rewrite init_in_leaves_eq. cbn [firstn init_in_leaves flat_map l_width l_path].
  unfold fld. cbn [q_fields lookup String.eqb Ascii.eqb Bool.eqb q_flags2].
  change (N.to_nat 4) with 4%nat. rewrite <- !app_assoc. cbn [app]. reflexivity.
Qed.

(* value-fits-its-field hypotheses, as one boolean *)
Definition init_fits (major minor ra flags : N) (f2 : option N) : bool :=
  (major <? 2 ^ 32) && (minor <? 2 ^ 32) && (ra <? 2 ^ 32) && (flags <? 2 ^ 32) &&
  match f2 with Some x => x <? 2 ^ 32 | None => true end.

Lemma init_fits_elim major minor ra flags f2 :
  init_fits major minor ra flags f2 = true ->
  major < 2 ^ 32 /\ minor < 2 ^ 32 /\ ra < 2 ^ 32 /\ flags < 2 ^ 32 /\
  (forall x, f2 = Some x -> x < 2 ^ 32).
Proof.
  unfold init_fits. intro H.
  apply andb_prop in H; destruct H as [H H5]. apply andb_prop in H; destruct H as [H H4].
  apply andb_prop in H; destruct H as [H H3]. apply andb_prop in H; destruct H as [H1 H2].
  apply N.ltb_lt in H1, H2, H3, H4. repeat split; try assumption.
  intros x ->. apply N.ltb_lt. exact H5.
Qed.

(* the known-capabilities mask contains the extended-flags marker (true of FsOptions::all) *)
Definition known_has_marker (known : N) : bool := N.land known INIT_EXT_BIT =? INIT_EXT_BIT.

(* ------------------------------------------------------------------ do_init after parsing *)
Definition init_flags64 (flags : N) (tail : bytes) : N :=
  if land32 flags INIT_EXT_BIT then
    if Nat.leb 48 (List.length tail) then N.lor flags (N.shiftl (u32 0 tail) 32)
    else N.land flags (N.lnot INIT_EXT_BIT 64)
  else flags.

Definition init_enabled (capable want : N) : N := N.lor (N.land capable want) (N.land capable INIT_EXT_BIT).

Definition init_max_write (enabled : N) : N :=
  if land32 enabled MAX_PAGES_BIT then MAX_REQ_PAGES * PAGE_SIZE
  else if land32 enabled BIG_WRITES_BIT then MAX_REQ_PAGES * PAGE_SIZE else MIN_READ_BUFFER - BUFFER_HEADER_SIZE.

Definition init_reply_full (ra enabled : N) : bytes :=
  init_out KERNEL_VERSION KERNEL_MINOR_VERSION ra (enabled mod 4294967296) 65535 49149
           (init_max_write enabled) 1 (if land32 enabled MAX_PAGES_BIT then MAX_REQ_PAGES else 0) 0
           (N.shiftr enabled 32).

Definition init_reply_body (minor ra enabled : N) : bytes :=
  let out := init_reply_full ra enabled in
  if minor <? 5 then firstn 8 out else if minor <? 23 then firstn 24 out else out.

Definition do_init_parsed (cfg : config) (major minor ra flags : N) (tail : bytes) (fr : fsres)
  : decision * option N :=
  if major <? KERNEL_VERSION then (([], ReplyErr EPROTO None), None)
  else if KERNEL_VERSION <? major then
    (([], ReplyOk (init_out KERNEL_VERSION KERNEL_MINOR_VERSION 0 0 0 0 0 0 0 0 0)), None)
  else
    let capable := N.land (init_flags64 flags tail) (cfg_fsopt_mask cfg) in
    let c := mk "init" (0, 0, 0) [AN capable] in
    match fr with
    | FInit want => (([c], ReplyOk (init_reply_body minor ra (init_enabled capable want))), Some minor)
    | FErr e => (([c], ReplyErr (errno_of e) None), None)
    | _ => (([c], ReplyOk []), None)
    end.

Lemma ltb_16_plus n : Nat.ltb (16 + n) 16 = false.
Proof. apply Nat.ltb_ge. lia. Qed.

Lemma do_init_req cfg h major minor ra flags f2 fr :
  major < 2 ^ 32 -> minor < 2 ^ 32 -> ra < 2 ^ 32 -> flags < 2 ^ 32 ->
  do_init cfg h (init_req major minor ra flags f2) fr
  = do_init_parsed cfg major minor ra flags (init_tail f2) fr.
Proof.
  intros Hmaj Hmin Hra Hfl.
  set (s := enc 4 major ++ enc 4 minor ++ enc 4 ra ++ enc 4 flags).
  assert (Hr : init_req major minor ra flags f2 = s ++ init_tail f2).
  { unfold init_req, s. rewrite <- !app_assoc. reflexivity. }
  assert (Hlen : List.length s = 16%nat).
  { unfold s. rewrite !app_length, !enc_length. reflexivity. }
  assert (E0 : u32 0 s = major).
  { unfold s. rewrite u32_here. apply N.mod_small; exact Hmaj. }
  assert (E4 : u32 4 s = minor).
  { change (u32 4 s) with (u32 (4 + 0) s). unfold s. rewrite !u32_skip, u32_here. apply N.mod_small; exact Hmin. }
  assert (E8 : u32 8 s = ra).
  { change (u32 8 s) with (u32 (4 + (4 + 0)) s). unfold s. rewrite !u32_skip, u32_here. apply N.mod_small; exact Hra. }
  assert (E12 : u32 12 s = flags).
  { change (u32 12 s) with (u32 (4 + (4 + (4 + 0))) s). unfold s. rewrite !u32_skip, u32_here_end.
    apply N.mod_small; exact Hfl. }
  unfold do_init, read_obj. rewrite Hr, app_length, Hlen, ltb_16_plus.
  rewrite (take_app_exact s _ 16 Hlen), (drop_app_exact s _ 16 Hlen).
  cbv zeta. rewrite E0, E4, E8, E12.
  unfold do_init_parsed, init_flags64, init_reply_body, init_reply_full, init_enabled, init_max_write.
  destruct (major <? KERNEL_VERSION); [reflexivity|].
  destruct (KERNEL_VERSION <? major); [reflexivity|].
  destruct fr; try reflexivity.
Qed.

(* ------------------------------------------------------------------ what the client offered *)
Lemma init_tail_some_len x : List.length (init_tail (Some x)) = 48%nat.
Proof. unfold init_tail. rewrite app_length, enc_length, repeat_length. reflexivity. Qed.

Lemma flags64_is_client_capable major minor ra flags f2 :
  (forall x, f2 = Some x -> x < 2 ^ 32) ->
  init_flags64 flags (init_tail f2) = client_capable (init_q major minor ra flags f2).
Proof.
  intro Hf2. unfold init_flags64, client_capable, fld, clear, bit, land32.
  cbn [q_fields init_q lookup String.eqb Ascii.eqb Bool.eqb q_flags2].
  rewrite INIT_EXT_val, INIT_EXT_BIT_val.
  destruct (negb (N.land flags (2 ^ 30) =? 0)); [|reflexivity].
  destruct f2 as [x|].
  - rewrite init_tail_some_len. cbn [Nat.leb]. unfold init_tail. rewrite u32_here.
    rewrite N.mod_small by (apply Hf2; reflexivity). reflexivity.
  - reflexivity.
Qed.

Lemma client_capable_below major minor ra flags f2 :
  flags < 2 ^ 32 -> (forall x, f2 = Some x -> x < 2 ^ 32) ->
  client_capable (init_q major minor ra flags f2) < 2 ^ 64.
Proof.
  intros Hfl Hf2. unfold client_capable, fld, clear.
  cbn [q_fields init_q lookup String.eqb Ascii.eqb Bool.eqb q_flags2].
  assert (Hfl64 : flags < 2 ^ 64) by (eapply N.lt_trans; [exact Hfl|reflexivity]).
  destruct (bit flags INIT_EXT); [|exact Hfl64].
  destruct f2 as [x|].
  - apply lor_below; [exact Hfl64|]. apply shiftl32_below, Hf2; reflexivity.
  - apply land_below. exact Hfl64.
Qed.

(* the invariant that makes the encoding lossless: bits 32.. of the offered word are non-zero only
   if the word carries the marker *)
Lemma client_capable_coherent major minor ra flags f2 :
  flags < 2 ^ 32 ->
  N.testbit (client_capable (init_q major minor ra flags f2)) 30 = false ->
  client_capable (init_q major minor ra flags f2) < 2 ^ 32.
Proof.
  intros Hfl. unfold client_capable, fld, clear, bit.
  cbn [q_fields init_q lookup String.eqb Ascii.eqb Bool.eqb q_flags2].
  rewrite INIT_EXT_val, land_pow2_nz.
  destruct (N.testbit flags 30) eqn:Hb; [|intros _; exact Hfl].
  destruct f2 as [x|].
  - rewrite N.lor_spec, Hb. discriminate.
  - intros _. apply land_below. exact Hfl.
Qed.

Lemma known_marker_bit known : known_has_marker known = true -> N.testbit known 30 = true.
Proof.
  unfold known_has_marker. rewrite INIT_EXT_BIT_val, land_pow2. intro H. apply N.eqb_eq in H.
  destruct (N.testbit known 30); [reflexivity|]. discriminate.
Qed.

(* ------------------------------------------------------------------ reading the reply *)
Lemma clear_is_clearbit v : clear v INIT_EXT = clearbit v 30.
Proof. unfold clear, clearbit. rewrite INIT_EXT_val. reflexivity. Qed.

Lemma bit_marker v : bit v INIT_EXT = N.testbit v 30.
Proof. unfold bit. rewrite INIT_EXT_val. apply land_pow2_nz. Qed.

Lemma client_enabled_full ra enabled :
  client_enabled (init_reply_full ra enabled)
  = clearbit (seen64 30 (enabled mod 2 ^ 32) ((N.shiftr enabled 32) mod 2 ^ 32)) 30.
Proof.
  unfold client_enabled, init_reply_full. cbv zeta.
  rewrite kget_flags, kget_flags2, out_flags, out_flags2, ksize_init_out, out_length.
  change 4294967296 with (2 ^ 32). rewrite N.mod_mod by discriminate.
  rewrite clear_is_clearbit, bit_marker. cbn [Nat.leb]. rewrite andb_true_r. reflexivity.
Qed.

Lemma client_enabled_24 ra enabled :
  client_enabled (firstn 24 (init_reply_full ra enabled)) = clearbit (enabled mod 2 ^ 32) 30.
Proof.
  unfold client_enabled, init_reply_full. cbv zeta. rewrite firstn24_out.
  rewrite kget_flags, out24_flags, ksize_init_out, out24_length.
  change 4294967296 with (2 ^ 32). rewrite N.mod_mod by discriminate.
  rewrite clear_is_clearbit. cbn [Nat.leb]. rewrite andb_false_r. reflexivity.
Qed.

(* ------------------------------------------------------------------ write-size limit *)
Lemma max_write_cases enabled : init_max_write enabled = 4096 \/ init_max_write enabled = 1048576.
Proof.
  unfold init_max_write. destruct (land32 enabled MAX_PAGES_BIT); [right; reflexivity|].
  destruct (land32 enabled BIG_WRITES_BIT); [right|left]; reflexivity.
Qed.

(* the same computation with the page size as a parameter (pagesize() in the source) *)
Definition max_write_for (pagesize enabled : N) : N :=
  if land32 enabled MAX_PAGES_BIT then (MAX_REQ_PAGES * pagesize) mod 2 ^ 32
  else if land32 enabled BIG_WRITES_BIT then (MAX_REQ_PAGES * pagesize) mod 2 ^ 32
       else MIN_READ_BUFFER - BUFFER_HEADER_SIZE.

Lemma max_write_for_4096 enabled : max_write_for 4096 enabled = init_max_write enabled.
Proof. reflexivity. Qed.

(* with 64 KiB pages the advertised write size exceeds the request buffer *)
Lemma max_write_64k_too_big :
  max_write_for 65536 BIG_WRITES_BIT + BUFFER_HEADER_SIZE > MAX_BUFFER_SIZE + BUFFER_HEADER_SIZE.
Proof. vm_compute. reflexivity. Qed.

(* ------------------------------------------------------------------ main theorem *)
Section Success.
  Variables (cfg : config) (h : hdr) (minor ra flags : N) (f2 : option N) (want : N).
  Hypothesis Hfits : init_fits 7 minor ra flags f2 = true.
  Hypothesis Hknown : known_has_marker (cfg_fsopt_mask cfg) = true.

  Let q := init_q 7 minor ra flags f2.
  Let known := cfg_fsopt_mask cfg.
  Let offered := N.land (client_capable q) known.
  Let expect := clear (N.land offered want) INIT_EXT.
  Let body := init_reply_body minor ra (init_enabled offered want).

  Lemma init_success_run :
    do_init cfg h (init_req 7 minor ra flags f2) (FInit want)
    = (([mk "init" (0, 0, 0) [AN offered]], ReplyOk body), Some minor).
  Proof.
    destruct (init_fits_elim _ _ _ _ _ Hfits) as [Hmaj [Hmin [Hra [Hfl Hf2]]]].
    rewrite do_init_req by assumption. unfold do_init_parsed.
    change (7 <? KERNEL_VERSION) with false. change (KERNEL_VERSION <? 7) with false. cbv zeta.
    rewrite (flags64_is_client_capable 7 minor ra flags f2 Hf2). reflexivity.
  Qed.

  Lemma offered_below : offered < 2 ^ 64.
  Proof.
    destruct (init_fits_elim _ _ _ _ _ Hfits) as [_ [_ [_ [Hfl Hf2]]]].
    apply land_below, client_capable_below; assumption.
  Qed.

  Lemma offered_coherent : N.testbit offered 30 = false -> offered < 2 ^ 32.
  Proof.
    destruct (init_fits_elim _ _ _ _ _ Hfits) as [_ [_ [_ [Hfl Hf2]]]].
    unfold offered, known. rewrite N.land_spec, (known_marker_bit _ Hknown), andb_true_r. intro Hb.
    apply land_below, client_capable_coherent; assumption.
  Qed.

  Lemma init_success_len : blen body = init_body_len minor.
  Proof.
    unfold body, init_reply_body, init_body_len, blen, init_reply_full. cbv zeta.
    destruct (minor <? 5); [rewrite firstn8_out, out8_length; reflexivity|].
    destruct (minor <? 23); [rewrite firstn24_out, out24_length; reflexivity|].
    rewrite out_length, ksize_init_out. reflexivity.
  Qed.

  Lemma init_success_major : kget "fuse_init_out" "major" O body = 7.
  Proof.
    rewrite kget_major. unfold body, init_reply_body, init_reply_full. cbv zeta.
    destruct (minor <? 5); [rewrite firstn8_out, out8_major; reflexivity|].
    destruct (minor <? 23); [rewrite firstn24_out, out24_major; reflexivity|].
    rewrite out_major. reflexivity.
  Qed.

  Lemma init_success_enabled :
    5 <= minor -> client_enabled body = if minor <? 23 then m32 expect else expect.
  Proof.
    intro H5. unfold body, init_reply_body. cbv zeta.
    destruct (N.ltb_spec minor 5) as [Hlt|_]; [lia|].
    pose proof offered_below as Hob. pose proof offered_coherent as Hcoh.
    unfold expect. rewrite clear_is_clearbit. unfold init_enabled. rewrite INIT_EXT_BIT_val.
    destruct (minor <? 23).
    - rewrite client_enabled_24. unfold m32. change 4294967296 with (2 ^ 32).
      apply core_low_word; [reflexivity|exact Hob].
    - rewrite client_enabled_full. apply core_roundtrip; [reflexivity|exact Hob|exact Hcoh].
  Qed.

  Lemma init_success_readahead : 5 <= minor -> kget "fuse_init_out" "max_readahead" O body = ra.
  Proof.
    destruct (init_fits_elim _ _ _ _ _ Hfits) as [_ [_ [Hra _]]].
    intro H5. rewrite kget_max_readahead. unfold body, init_reply_body, init_reply_full. cbv zeta.
    destruct (N.ltb_spec minor 5) as [Hlt|_]; [lia|].
    destruct (minor <? 23); [rewrite firstn24_out, out24_ra|rewrite out_ra]; apply N.mod_small; exact Hra.
  Qed.

  Lemma init_success_max_write :
    5 <= minor ->
    kget "fuse_init_out" "max_write" O body = init_max_write (init_enabled offered want) /\
    1 <= kget "fuse_init_out" "max_write" O body /\
    kget "fuse_init_out" "max_write" O body + 4096 <= MAX_BUFFER_SIZE + BUFFER_HEADER_SIZE.
  Proof.
    intro H5. rewrite kget_max_write. unfold body, init_reply_body, init_reply_full. cbv zeta.
    destruct (N.ltb_spec minor 5) as [Hlt|_]; [lia|].
    assert (E : forall e, init_max_write e mod 2 ^ 32 = init_max_write e).
    { intro e. apply N.mod_small. destruct (max_write_cases e) as [-> | ->]; reflexivity. }
    unfold MAX_BUFFER_SIZE, BUFFER_HEADER_SIZE.
    destruct (minor <? 23); [rewrite firstn24_out, out24_mw|rewrite out_mw]; rewrite E;
      (split; [reflexivity|]);
      destruct (max_write_cases (init_enabled offered want)) as [-> | ->]; lia.
  Qed.
End Success.

(* ------------------------------------------------------------------ major mismatch *)
Lemma init_major_low cfg h major minor ra flags f2 fr :
  init_fits major minor ra flags f2 = true -> major < 7 ->
  do_init cfg h (init_req major minor ra flags f2) fr = (([], ReplyErr EPROTO None), None).
Proof.
  intros Hfits Hlt. destruct (init_fits_elim _ _ _ _ _ Hfits) as [Hmaj [Hmin [Hra [Hfl _]]]].
  rewrite do_init_req by assumption. unfold do_init_parsed, KERNEL_VERSION.
  destruct (N.ltb_spec major 7) as [_|Hge]; [reflexivity|lia].
Qed.

Definition init_version_only : bytes := init_out KERNEL_VERSION KERNEL_MINOR_VERSION 0 0 0 0 0 0 0 0 0.

Lemma init_major_high cfg h major minor ra flags f2 fr :
  init_fits major minor ra flags f2 = true -> 7 < major ->
  do_init cfg h (init_req major minor ra flags f2) fr = (([], ReplyOk init_version_only), None).
Proof.
  intros Hfits Hgt. destruct (init_fits_elim _ _ _ _ _ Hfits) as [Hmaj [Hmin [Hra [Hfl _]]]].
  rewrite do_init_req by assumption. unfold do_init_parsed, KERNEL_VERSION.
  destruct (N.ltb_spec major 7) as [Hlt|_]; [lia|].
  destruct (N.ltb_spec 7 major) as [_|Hle]; [reflexivity|lia].
Qed.

Lemma init_version_only_fields :
  List.length init_version_only = 64%nat /\
  kget "fuse_init_out" "major" O init_version_only = 7 /\
  kget "fuse_init_out" "minor" O init_version_only = 33 /\
  client_enabled init_version_only = 0 /\
  kget "fuse_init_out" "max_write" O init_version_only = 0.
Proof. vm_compute. repeat split; reflexivity. Qed.

(* ------------------------------------------------------------------ version stored only on success *)
Lemma init_version_stored cfg h r fr d m :
  do_init cfg h r fr = (d, Some m) ->
  exists want body c, fr = FInit want /\ d = ([c], ReplyOk body) /\ c_method c = "init"%string /\
                      Nat.leb 16 (List.length r) = true /\ u32 0 r = 7 /\ m = u32 4 r.
Proof.
  unfold do_init, read_obj.
  destruct (Nat.ltb (List.length r) 16) eqn:Hl; [discriminate|].
  cbv zeta.
  assert (F : forall k, (k <= 16)%nat -> firstn k (firstn 16 r) = firstn k r).
  { intros k Hk. rewrite firstn_firstn. f_equal. lia. }
  assert (U0 : u32 0 (firstn 16 r) = u32 0 r).
  { unfold u32. cbn [skipn]. apply f_equal, F. lia. }
  assert (U4 : u32 4 (firstn 16 r) = u32 4 r).
  { unfold u32. rewrite skipn_firstn_comm, firstn_firstn. reflexivity. }
  rewrite U0, U4.
  destruct (N.ltb_spec (u32 0 r) KERNEL_VERSION) as [|Hge]; [discriminate|].
  destruct (N.ltb_spec KERNEL_VERSION (u32 0 r)) as [|Hle]; [discriminate|].
  destruct fr; try discriminate.
  intro H.
  pose proof (f_equal fst H) as Hd. pose proof (f_equal snd H) as Hm. cbn [fst snd] in Hd, Hm.
  injection Hm as Hm. rewrite <- Hd, <- Hm. clear H Hd Hm.
  eexists _, _, _. split; [reflexivity|]. split; [reflexivity|]. split; [reflexivity|].
  split; [|split; [|reflexivity]].
  - apply Nat.ltb_ge in Hl. apply Nat.leb_le. exact Hl.
  - unfold KERNEL_VERSION in *. lia.
Qed.

(* no filesystem call unless the major version matches *)
Lemma init_calls_only_on_match cfg h r fr cs a m :
  do_init cfg h r fr = ((cs, a), m) -> cs <> [] -> u32 0 (firstn 16 r) = 7.
Proof.
  unfold do_init, read_obj.
  assert (K : forall (x : action) (y : option N), (([] : list call, x), y) = ((cs, a), m) -> cs <> [] -> u32 0 (firstn 16 r) = 7).
  { intros x y H C. exfalso. apply C. pose proof (f_equal (fun t => fst (fst t)) H) as E. cbn [fst] in E.
    symmetry. exact E. }
  destruct (Nat.ltb (List.length r) 16); [apply K|].
  cbv zeta.
  destruct (N.ltb_spec (u32 0 (firstn 16 r)) KERNEL_VERSION) as [|Hge]; [apply K|].
  destruct (N.ltb_spec KERNEL_VERSION (u32 0 (firstn 16 r))) as [|Hle]; [apply K|].
  intros _ _. unfold KERNEL_VERSION in *. lia.
Qed.

(* ------------------------------------------------------------------ statements as used by Props/C12.v *)
Lemma init_runs cfg h minor ra flags f2 want :
  init_fits 7 minor ra flags f2 = true ->
  let offered := N.land (client_capable (init_q 7 minor ra flags f2)) (cfg_fsopt_mask cfg) in
  let body := init_reply_body minor ra (init_enabled offered want) in
  do_init cfg h (init_req 7 minor ra flags f2) (FInit want)
    = (([mk "init" (0, 0, 0) [AN offered]], ReplyOk body), Some minor) /\
  blen body = init_body_len minor /\
  kget "fuse_init_out" "major" O body = 7.
Proof.
  intros Hf. cbv zeta.
  split; [exact (init_success_run cfg h minor ra flags f2 want Hf)|].
  split; [exact (init_success_len cfg minor ra flags f2 want)|exact (init_success_major cfg minor ra flags f2 want)].
Qed.

(* whatever the filesystem answers, the only call is `init` with the offered-and-known word *)
Lemma init_capable_offered cfg h minor ra flags f2 fr cs a m :
  init_fits 7 minor ra flags f2 = true ->
  do_init cfg h (init_req 7 minor ra flags f2) fr = ((cs, a), m) ->
  cs = [mk "init" (0, 0, 0) [AN (N.land (client_capable (init_q 7 minor ra flags f2)) (cfg_fsopt_mask cfg))]].
Proof.
  intros Hfits. destruct (init_fits_elim _ _ _ _ _ Hfits) as [Hmaj [Hmin [Hra [Hfl Hf2]]]].
  rewrite do_init_req by assumption. unfold do_init_parsed.
  change (7 <? KERNEL_VERSION) with false. change (KERNEL_VERSION <? 7) with false. cbv zeta.
  rewrite (flags64_is_client_capable 7 minor ra flags f2 Hf2).
  destruct fr; intro H; pose proof (f_equal (fun t => fst (fst t)) H) as E; cbn [fst] in E;
    symmetry; exact E.
Qed.

Lemma init_major_mismatch cfg h major minor ra flags f2 fr :
  init_fits major minor ra flags f2 = true ->
  (major < 7 -> do_init cfg h (init_req major minor ra flags f2) fr = (([], ReplyErr EPROTO None), None)) /\
  (7 < major -> do_init cfg h (init_req major minor ra flags f2) fr = (([], ReplyOk init_version_only), None)).
Proof.
  intros Hf. split; intro H.
  - exact (init_major_low cfg h major minor ra flags f2 fr Hf H).
  - exact (init_major_high cfg h major minor ra flags f2 fr Hf H).
Qed.

Lemma max_write_page_sizes :
  max_write_for 4096 BIG_WRITES_BIT = init_max_write BIG_WRITES_BIT /\
  max_write_for 65536 BIG_WRITES_BIT + BUFFER_HEADER_SIZE > MAX_BUFFER_SIZE + BUFFER_HEADER_SIZE.
Proof. split; [reflexivity|exact max_write_64k_too_big]. Qed.
