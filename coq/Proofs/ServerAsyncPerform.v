(* C20: the async reply helpers against the sync ones, for every action, capacity, unique,
   reply-buffer content and both transports.  [to_sync] maps an async reply action to the sync
   action the corresponding sync handler takes; [aperform_eq] says the two produce the same
   outcome except for an error reply on the unsplit fusedev writer with room for a header
   (FuseDevWriter::async_commit re-sends the buffer of an unbuffered writer). *)
From Coq Require Import List String NArith Bool Lia Arith.
From FB Require Import Lib.Bytes Model.Server Model.ServerCmp Model.ServerAsync Proofs.ServerPerform.
Import ListNotations.
Local Open Scope N_scope.

Definition to_sync (a : aaction) : action :=
  match a with
  | ASync a' => a'
  | AReplyOk b => ReplyOk b
  | AReplyErr e after => ReplyErr e after
  | AReplySplit d => ReplySplit d
  | AReplySplitErr e => ReplySplitErr e
  end.

(* the action goes through async_do_reply_error on the writer as handed to async_handle_message *)
Definition is_unsplit_err (a : aaction) : bool :=
  match a with AReplyErr _ _ => true | _ => false end.

Lemma aw_commit_buffered sh buf0 w o : w_buffered w = true -> aw_commit sh buf0 w o = w_commit w o.
Proof.
  intro B. unfold aw_commit, w_commit. rewrite B. cbn [negb]. rewrite andb_false_r.
  destruct (w_kind w); [|reflexivity].
  destruct (w_buf w) as [|x t]; destruct o as [o|]; cbn; try reflexivity.
  destruct (w_buf o); reflexivity.
Qed.

Lemma aw_commit_virtio sh buf0 w o : w_kind w = Virtio -> aw_commit sh buf0 w o = w_commit w o.
Proof. intro K. unfold aw_commit, w_commit. rewrite K. reflexivity. Qed.

(* with the early return of commit() in place the two commits are the same function *)
Lemma aw_commit_skips sh buf0 w o : sh_commit_skips sh = true -> aw_commit sh buf0 w o = w_commit w o.
Proof.
  intro Sk. destruct (w_buffered w) eqn:B; [apply aw_commit_buffered; exact B|].
  unfold aw_commit, w_commit. rewrite Sk, B. destruct (w_kind w); reflexivity.
Qed.

Lemma aperform_err_commit_eq sh buf0 w u e after :
  (forall w' p, w_write w (out_header OUT_HDR (neg32 e) u) = WOk (w', p) -> aw_commit sh buf0 w' None = w_commit w' None) ->
  aperform_err sh buf0 w u e after = perform_err w u e after.
Proof.
  intro H. unfold aperform_err, perform_err.
  destruct (w_write w _) as [[w' p]| |] eqn:E; try reflexivity.
  rewrite (H w' p eq_refl). reflexivity.
Qed.

Lemma aperform_err_buffered sh buf0 w u e after :
  w_buffered w = true -> aperform_err sh buf0 w u e after = perform_err w u e after.
Proof.
  intro B. apply aperform_err_commit_eq. intros w' p E.
  destruct (w_write_packets _ _ _ _ E) as [_ [_ [B' _]]].
  apply aw_commit_buffered. rewrite B'; exact B.
Qed.

Lemma aperform_err_virtio sh buf0 w u e after :
  w_kind w = Virtio -> aperform_err sh buf0 w u e after = perform_err w u e after.
Proof.
  intro K. apply aperform_err_commit_eq. intros w' p E.
  destruct (w_write_packets _ _ _ _ E) as [_ [_ [_ [K' _]]]].
  apply aw_commit_virtio. rewrite K'; exact K.
Qed.

Lemma aperform_err_skips sh buf0 w u e after :
  sh_commit_skips sh = true -> aperform_err sh buf0 w u e after = perform_err w u e after.
Proof. intro Sk. apply aperform_err_commit_eq. intros. apply aw_commit_skips. exact Sk. Qed.

Lemma w_write_fresh_small k cap d : cap < blen d -> w_write (fresh k cap) d = WErr.
Proof.
  intro H. unfold w_write, fresh. cbn [w_kind w_buffered w_buf w_cap].
  change (blen (@nil N)) with 0. rewrite N.sub_0_r.
  assert (cap <? blen d = true) as E by (apply N.ltb_lt; exact H).
  destruct k; cbn [negb andb List.length Nat.eqb]; rewrite E; reflexivity.
Qed.

Lemma w_write_fresh_fusedev cap d : d <> [] -> blen d <= cap ->
  w_write (fresh FuseDev cap) d =
  WOk ({| w_kind := FuseDev; w_buffered := false; w_buf := d; w_cap := cap |}, [d]).
Proof.
  intros Hd H. unfold w_write, fresh. cbn [w_kind w_buffered w_buf w_cap].
  change (blen (@nil N)) with 0. rewrite N.sub_0_r.
  assert (cap <? blen d = false) as E by (apply N.ltb_ge; exact H).
  cbn [negb andb List.length Nat.eqb app]. rewrite E.
  destruct d; [congruence | reflexivity].
Qed.

Lemma aperform_err_small sh k cap buf0 u e after :
  cap < 16 -> aperform_err sh buf0 (fresh k cap) u e after = perform_err (fresh k cap) u e after.
Proof.
  intro H. unfold aperform_err, perform_err.
  rewrite w_write_fresh_small; [reflexivity|]. rewrite out_header_len. exact H.
Qed.

(* the stale second write, exactly: an error reply on a fresh fusedev writer with room for a header *)
Lemma aperform_err_fusedev_stale sh cap buf0 u e :
  sh_commit_skips sh = false -> 16 <= cap ->
  o_packets (aperform_err sh buf0 (fresh FuseDev cap) u e None) =
  [out_header OUT_HDR (neg32 e) u; firstn 16 buf0].
Proof.
  intros Sk H. unfold aperform_err.
  set (hb := out_header OUT_HDR (neg32 e) u).
  assert (L : List.length hb = 16%nat) by apply out_header_length.
  assert (Hne : hb <> []) by (intro X; rewrite X in L; discriminate L).
  assert (W := w_write_fresh_fusedev cap hb Hne).
  rewrite W by (unfold blen; rewrite L; cbn; lia).
  cbn [o_packets out_ok]. unfold aw_commit. cbn [w_kind w_buffered w_buf]. rewrite Sk. cbn [andb]. rewrite L.
  destruct hb; [discriminate L|]. cbn [app]. rewrite app_nil_r. reflexivity.
Qed.

Theorem aperform_eq sh k cap buf0 u a :
  k = Virtio \/ is_unsplit_err a = false \/ cap < 16 \/ sh_commit_skips sh = true ->
  async_perform sh k cap buf0 u a = perform k cap u (to_sync a).
Proof.
  intro H. destruct a as [a'|body|e after|data|e]; cbn [to_sync].
  - reflexivity.
  - reflexivity.
  - unfold async_perform, perform.
    destruct H as [->|[H|[H|H]]].
    + apply aperform_err_virtio. reflexivity.
    + discriminate H.
    + apply aperform_err_small. exact H.
    + apply aperform_err_skips. exact H.
  - unfold async_perform, perform.
    destruct (w_split (fresh k cap) OUT_HDR) as [[w1 w2]|] eqn:S; [|reflexivity].
    destruct (w_split_buffered _ _ _ _ S) as [B1 B2].
    destruct (w_write w2 data) as [[w2' p2]| |] eqn:E2; try reflexivity.
    destruct (w_write w1 _) as [[w1' p1]| |] eqn:E1; try reflexivity.
    destruct (w_write_packets _ _ _ _ E1) as [_ [_ [B1' _]]].
    rewrite aw_commit_buffered; [reflexivity | rewrite B1'; exact B1].
  - unfold async_perform, perform.
    destruct (w_split (fresh k cap) OUT_HDR) as [[w1 w2]|] eqn:S; [|reflexivity].
    destruct (w_split_buffered _ _ _ _ S) as [B1 _].
    apply aperform_err_buffered. exact B1.
Qed.

(* consequences for the async path alone (the C01 facts carry over wherever the helpers agree) *)
Lemma async_perform_no_panic sh k cap buf0 u a : o_panic (async_perform sh k cap buf0 u a) = false.
Proof.
  destruct a as [a'|body|e after|data|e].
  - apply perform_no_panic.
  - rewrite aperform_eq by (right; left; reflexivity). apply perform_no_panic.
  - unfold async_perform, aperform_err.
    destruct (w_write (fresh k cap) _) as [[w' p]| |] eqn:E; try reflexivity.
    exfalso; exact (w_write_fresh_no_panic _ _ _ E).
  - rewrite aperform_eq by (right; left; reflexivity). apply perform_no_panic.
  - rewrite aperform_eq by (right; left; reflexivity). apply perform_no_panic.
Qed.
