(* C01: properties of [decide] that hold for every request byte string. *)
From Coq Require Import List String NArith Bool Lia Arith.
From FB Require Import Lib.Bytes Model.Server Proofs.ServerPerform Proofs.ServerReply.
Import ListNotations.
Local Open Scope N_scope.

(* hypothesis on the filesystem oracle: an error it returns carries a real errno *)
Definition fs_ok (fr : fsres) : Prop :=
  match fr with FErr (Os n) => 1 <= n <= 4095 | _ => True end.

Lemma kind_errno_range k : 1 <= encode_io_error_kind k <= 4095.
Proof.
  unfold encode_io_error_kind.
  destruct k as [|p]; [lia|].
  do 3 (destruct p as [p|p|]; try lia).
Qed.

Lemma errno_of_range e : fs_ok (FErr e) -> 1 <= errno_of e <= 4095.
Proof. destruct e as [n|k]; cbn; [auto|intros _; apply kind_errno_range]. Qed.

Definition handler_wf (f : handler_fn) : Prop :=
  forall cfg h ctx r fr wcap, fs_ok fr -> action_wf (snd (f cfg h ctx r fr wcap)).

Ltac range_const :=
  match goal with
  | |- 1 <= ?c <= 4095 => unfold c; lia
  | |- 1 <= ?c <= 4095 => lia
  end.

Ltac finish_wf :=
  cbn [snd action_wf];
  first [ exact I
        | apply errno_of_range; assumption
        | apply kind_errno_range
        | unfold ENOENT, ENOMEM, EINVAL, ENOTTY, ENOSYS, EPROTO, EOVERFLOW, EIO; lia ].

Ltac break_match :=
  match goal with
  | |- context [match ?x with _ => _ end] => destruct x eqn:?
  end.

Ltac solve_handler :=
  intros cfg h ctx r fr wcap Hfs;
  cbv beta delta [with_obj with_name unit_reply entry_reply attr_reply] in *;
  repeat break_match; subst; try finish_wf.

Lemma wf_lookup op : handler_wf (h_lookup op).
Proof. unfold h_lookup. solve_handler. Qed.
Lemma wf_forget op : handler_wf (h_forget op).
Proof. unfold h_forget. solve_handler. Qed.
Lemma wf_getattr op : handler_wf (h_getattr op).
Proof. unfold h_getattr. solve_handler. Qed.
Lemma wf_setattr op : handler_wf (h_setattr op).
Proof. unfold h_setattr. solve_handler. Qed.
Lemma wf_readlink op : handler_wf (h_readlink op).
Proof. unfold h_readlink. solve_handler. Qed.
Lemma wf_symlink op : handler_wf (h_symlink op).
Proof. unfold h_symlink. solve_handler. Qed.
Lemma wf_mknod op : handler_wf (h_mknod op).
Proof. unfold h_mknod. solve_handler. Qed.
Lemma wf_mkdir op : handler_wf (h_mkdir op).
Proof. unfold h_mkdir. solve_handler. Qed.
Lemma wf_unlink op : handler_wf (h_unlink op).
Proof. unfold h_unlink. solve_handler. Qed.
Lemma wf_rmdir op : handler_wf (h_rmdir op).
Proof. unfold h_rmdir. solve_handler. Qed.
Lemma wf_rename op : handler_wf (h_rename op).
Proof. unfold h_rename. solve_handler. Qed.
Lemma wf_rename2 op : handler_wf (h_rename2 op).
Proof. unfold h_rename2. solve_handler. Qed.
Lemma wf_link op : handler_wf (h_link op).
Proof. unfold h_link. solve_handler. Qed.
Lemma wf_open op : handler_wf (h_open op).
Proof. unfold h_open. solve_handler. Qed.
Lemma wf_read op : handler_wf (h_read op).
Proof. unfold h_read. solve_handler. Qed.
Lemma wf_write op : handler_wf (h_write op).
Proof. unfold h_write. solve_handler. Qed.
Lemma wf_statfs op : handler_wf (h_statfs op).
Proof. unfold h_statfs. solve_handler. Qed.
Lemma wf_release op : handler_wf (h_release op).
Proof. unfold h_release. solve_handler. Qed.
Lemma wf_fsync op : handler_wf (h_fsync op).
Proof. unfold h_fsync. solve_handler. Qed.
Lemma wf_setxattr op : handler_wf (h_setxattr op).
Proof. unfold h_setxattr. solve_handler. Qed.
Lemma wf_getxattr op : handler_wf (h_getxattr op).
Proof. unfold h_getxattr. solve_handler. Qed.
Lemma wf_listxattr op : handler_wf (h_listxattr op).
Proof. unfold h_listxattr. solve_handler. Qed.
Lemma wf_removexattr op : handler_wf (h_removexattr op).
Proof. unfold h_removexattr. solve_handler. Qed.
Lemma wf_flush op : handler_wf (h_flush op).
Proof. unfold h_flush. solve_handler. Qed.
Lemma wf_opendir op : handler_wf (h_opendir op).
Proof. unfold h_opendir. solve_handler. Qed.
Lemma wf_readdir op : handler_wf (h_readdir_readdirplus op).
Proof. unfold h_readdir_readdirplus. solve_handler. Qed.
Lemma wf_releasedir op : handler_wf (h_releasedir op).
Proof. unfold h_releasedir. solve_handler. Qed.
Lemma wf_fsyncdir op : handler_wf (h_fsyncdir op).
Proof. unfold h_fsyncdir. solve_handler. Qed.
Lemma wf_lk op : handler_wf (h_getlk_setlk_setlkw op).
Proof. unfold h_getlk_setlk_setlkw. solve_handler. Qed.
Lemma wf_access op : handler_wf (h_access op).
Proof. unfold h_access. solve_handler. Qed.
Lemma wf_create op : handler_wf (h_create op).
Proof. unfold h_create. solve_handler. Qed.
Lemma wf_interrupt op : handler_wf (h_interrupt op).
Proof. unfold h_interrupt. solve_handler. Qed.
Lemma wf_bmap op : handler_wf (h_bmap op).
Proof. unfold h_bmap. solve_handler. Qed.
Lemma wf_destroy op : handler_wf (h_destroy op).
Proof. unfold h_destroy. solve_handler. Qed.
Lemma wf_ioctl op : handler_wf (h_ioctl op).
Proof. unfold h_ioctl. solve_handler. Qed.
Lemma wf_poll op : handler_wf (h_poll op).
Proof. unfold h_poll. solve_handler. Qed.
Lemma wf_notify_reply op : handler_wf (h_notify_reply op).
Proof. unfold h_notify_reply. solve_handler. Qed.
Lemma wf_fallocate op : handler_wf (h_fallocate op).
Proof. unfold h_fallocate. solve_handler. Qed.
Lemma wf_lseek op : handler_wf (h_lseek op).
Proof. unfold h_lseek. solve_handler. Qed.
Lemma wf_setupmapping op : handler_wf (h_setupmapping op).
Proof. unfold h_setupmapping. solve_handler. Qed.

(* the two handlers with a counted loop *)
Lemma wf_batch_forget op : handler_wf (h_batch_forget op).
Proof.
  unfold h_batch_forget. intros cfg h ctx r fr wcap Hfs.
  cbv beta delta [with_obj]. destruct (read_obj 8 r) as [[s r']|]; [|exact I].
  cbv zeta. destruct (_ <? _); [exact I|].
  generalize (@nil (N * N)). generalize r'.
  induction (N.to_nat (u32 0 s)) as [|n IH]; intros rr acc; [exact I|].
  destruct (read_obj 16 rr) as [[o rr']|]; [apply IH|exact I].
Qed.

Lemma wf_removemapping op : handler_wf (h_removemapping op).
Proof.
  unfold h_removemapping. intros cfg h ctx r fr wcap Hfs.
  destruct (cfg_vu_req cfg); [|cbn; unfold EINVAL; lia].
  cbv beta delta [with_obj]. destruct (read_obj 4 r) as [[s r']|]; [|exact I].
  cbv zeta. destruct (_ <? _); [cbn; unfold ENOMEM; lia|].
  generalize (@nil (N * N)). generalize r'.
  induction (N.to_nat (u32 0 s)) as [|n IH]; intros rr acc.
  - unfold unit_reply. destruct fr; try exact I. cbn. apply errno_of_range; exact Hfs.
  - destruct (read_obj 16 rr) as [[o rr']|]; [apply IH|exact I].
Qed.

Lemma handlers_all_wf : Forall (fun e => handler_wf (snd e)) handlers.
Proof.
  unfold handlers.
  repeat (apply Forall_cons; [cbn [snd];
    first [apply wf_lookup|apply wf_forget|apply wf_getattr|apply wf_setattr|apply wf_readlink
          |apply wf_symlink|apply wf_mknod|apply wf_mkdir|apply wf_unlink|apply wf_rmdir
          |apply wf_rename|apply wf_rename2|apply wf_link|apply wf_open|apply wf_read|apply wf_write
          |apply wf_statfs|apply wf_release|apply wf_fsync|apply wf_setxattr|apply wf_getxattr
          |apply wf_listxattr|apply wf_removexattr|apply wf_flush|apply wf_opendir|apply wf_readdir
          |apply wf_releasedir|apply wf_fsyncdir|apply wf_lk|apply wf_access|apply wf_create
          |apply wf_interrupt|apply wf_bmap|apply wf_destroy|apply wf_ioctl|apply wf_poll
          |apply wf_notify_reply|apply wf_batch_forget|apply wf_fallocate|apply wf_lseek
          |apply wf_setupmapping|apply wf_removemapping]|]).
  apply Forall_nil.
Qed.

Lemma find_handler_in op t f : find_handler op t = Some f -> In (op, f) t.
Proof.
  induction t as [|[o g] t IH]; cbn [find_handler]; [discriminate|].
  destruct (N.eqb_spec op o) as [->|Hne].
  - intro H; injection H as ->. left; reflexivity.
  - intro H; right; auto.
Qed.

Lemma handler_action_wf cfg h ctx r fr wcap :
  fs_ok fr -> action_wf (snd (handler cfg h ctx r fr wcap)).
Proof.
  intro Hfs. unfold handler.
  destruct (find_handler (h_opcode h) handlers) as [f|] eqn:E.
  - apply find_handler_in in E.
    pose proof handlers_all_wf as HA. rewrite Forall_forall in HA.
    apply (HA _ E). exact Hfs.
  - cbn. unfold ENOSYS. lia.
Qed.

Lemma do_init_action_wf cfg h r fr :
  fs_ok fr -> action_wf (snd (fst (do_init cfg h r fr))).
Proof.
  intro Hfs. unfold do_init.
  destruct (read_obj 16 r) as [[s r']|]; [|exact I].
  cbv zeta. destruct (_ <? _); [cbn; unfold EPROTO; lia|].
  destruct (_ <? _); [exact I|].
  destruct fr; try exact I. cbn. apply errno_of_range; exact Hfs.
Qed.

Theorem decide_action_wf cfg req fr cap :
  fs_ok fr -> action_wf (snd (fst (decide cfg req fr cap))).
Proof.
  intro Hfs. unfold decide.
  destruct (read_obj 40 req) as [[hb r]|]; [|exact I].
  cbv zeta. destruct (cfg_remap cfg); [|exact I].
  destruct (_ <? _).
  - destruct (_ || _); [exact I|]. cbn. unfold ENOMEM; lia.
  - destruct (_ =? 26).
    + pose proof (do_init_action_wf cfg (parse_hdr hb) r fr Hfs) as H.
      destruct (do_init cfg (parse_hdr hb) r fr) as [[cs a] m]. exact H.
    + pose proof (handler_action_wf cfg (parse_hdr hb) ((h_uid (parse_hdr hb) + duid) mod 4294967296,
                    (h_gid (parse_hdr hb) + dgid) mod 4294967296, h_pid (parse_hdr hb)) r fr cap Hfs) as H.
      destruct (handler _ _ _ _ _ _) as [cs a]. exact H.
Qed.

Lemma firstn_skipn_firstn {A} : forall k n m (l : list A), (k + n <= m)%nat ->
  firstn n (skipn k (firstn m l)) = firstn n (skipn k l).
Proof.
  induction k as [|k IH]; intros n m l H.
  - cbn [skipn]. rewrite firstn_firstn. rewrite Nat.min_l by lia. reflexivity.
  - destruct l as [|x l].
    + rewrite firstn_nil. reflexivity.
    + destruct m as [|m]; [lia|]. cbn [firstn skipn]. apply IH. lia.
Qed.

Lemma u32_firstn off m b : (off + 4 <= m)%nat -> u32 off (firstn m b) = u32 off b.
Proof. intro H. unfold u32. f_equal. apply firstn_skipn_firstn. lia. Qed.

Lemma read_obj_some n r a b : read_obj n r = Some (a, b) -> a = firstn n r /\ b = skipn n r.
Proof. unfold read_obj. destruct (Nat.ltb _ _); [discriminate|]. intro H; inversion H; auto. Qed.

(* FORGET and BATCH_FORGET never produce a reply, whatever the bytes *)
Definition silent (a : action) : Prop := exists r, a = NoReply r.

Lemma forget_silent_handler cfg h ctx r fr wcap : silent (snd (h_forget 2 cfg h ctx r fr wcap)).
Proof.
  unfold h_forget. cbv beta delta [with_obj]. destruct (read_obj 8 r) as [[s r']|]; cbn; eexists; reflexivity.
Qed.

Lemma batch_forget_silent_handler cfg h ctx r fr wcap : silent (snd (h_batch_forget 42 cfg h ctx r fr wcap)).
Proof.
  unfold h_batch_forget. cbv beta delta [with_obj]. destruct (read_obj 8 r) as [[s r']|]; [|eexists; reflexivity].
  cbv zeta. destruct (_ <? _); [eexists; reflexivity|].
  generalize (@nil (N * N)). generalize r'.
  induction (N.to_nat (u32 0 s)) as [|n IH]; intros rr acc; [eexists; reflexivity|].
  destruct (read_obj 16 rr) as [[o rr']|]; [apply IH|eexists; reflexivity].
Qed.

Theorem decide_forget_silent cfg req fr cap :
  u32 4 req = 2 \/ u32 4 req = 42 -> silent (snd (fst (decide cfg req fr cap))).
Proof.
  intro Hop. unfold decide.
  destruct (read_obj 40 req) as [[hb r]|] eqn:R; [|eexists; reflexivity].
  assert (Hh : h_opcode (parse_hdr hb) = u32 4 req).
  { destruct (read_obj_some _ _ _ _ R) as [-> _].
    unfold parse_hdr. cbn [h_opcode]. apply u32_firstn. lia. }
  cbv zeta. destruct (cfg_remap cfg); [|eexists; reflexivity].
  destruct (_ <? _).
  - rewrite Hh. destruct Hop as [-> | ->]; cbn; eexists; reflexivity.
  - rewrite Hh. destruct Hop as [E|E]; rewrite E.
    + change (2 =? 26) with false. cbv iota.
      unfold handler. rewrite Hh, E. change (find_handler 2 handlers) with (Some (h_forget 2)). cbv iota beta.
      match goal with |- context [h_forget 2 ?a ?b ?c ?d ?e ?f] =>
        pose proof (forget_silent_handler a b c d e f) as H;
        destruct (h_forget 2 a b c d e f) as [cs act] end. exact H.
    + change (42 =? 26) with false. cbv iota.
      unfold handler. rewrite Hh, E. change (find_handler 42 handlers) with (Some (h_batch_forget 42)). cbv iota beta.
      match goal with |- context [h_batch_forget 42 ?a ?b ?c ?d ?e ?f] =>
        pose proof (batch_forget_silent_handler a b c d e f) as H;
        destruct (h_batch_forget 42 a b c d e f) as [cs act] end. exact H.
Qed.

Lemma perform_silent k cap u a : silent a -> o_packets (perform k cap u a) = [] /\ o_mem (perform k cap u a) = [].
Proof. intros [r ->]. split; reflexivity. Qed.
