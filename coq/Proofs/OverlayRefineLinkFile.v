(* Per-operation refinement: LINK whose source is a REGULAR FILE that only lower layers hold; the new parent is a directory of
   the upper layer and the new name has no candidate.  The overlay copies the file up (fresh identity, the missing parent
   directories first) and links the copy, so afterwards BOTH names show the fresh identity where the ordinary file system
   shows the old one at both: the views agree up to file identities - equal serialisations, as in
   Proofs/OverlayRefineCuFile.v, under the same hypotheses (no user xattrs on the lower file, mode within 07777, [cu_okb] for
   the directories copied, fresh identity unused, the file's identity shown at its path only).
   Route: re-run from the state after the copy-up (there: Proofs/OverlayRefineLink.v); the two result trees are related by
   renaming one identity ([tmap_ino] with a function that changes identities only), which [ser] does not see. *)
From Coq Require Import List String Arith NArith Bool Lia.
From FB Require Import Model.Overlay Proofs.OverlayInv Proofs.OverlayScan Proofs.OverlayRestart
  Proofs.OverlayReadOnly Proofs.OverlayCoh Proofs.OverlayCohView Proofs.OverlayCopyUp Proofs.OverlayCohOps
  Proofs.OverlayCohSteps Proofs.OverlayRefineTeq Proofs.OverlayRefineMerge Proofs.OverlayRefineRun Proofs.OverlayRefine
  Proofs.OverlayRefineWh Proofs.OverlayRefineCu Proofs.OverlayRefineCuFile Proofs.OverlayRefineDirAttr Proofs.OverlayRefineLink Proofs.OverlayRefineCuRm
  Proofs.OverlayRefineFail Proofs.OverlayRefineRead Proofs.OverlayRefineFail2 Proofs.OverlayRefineRerun Proofs.OverlayRefineDirAttr2
  Proofs.OverlayRefineRmdirLow Proofs.OverlayRefineCuWh Proofs.OverlayRefineSymlink Proofs.OverlayRefineLinkCu.
Import ListNotations.
Local Open Scope N_scope.

(* ------------------------------------------------------------------ renaming an identity *)
Definition reid (nx : N) (t : tree) : tree := match t with File _ m d x => File nx m d x | _ => t end.
Lemma seqs_tmap_reid i nx : forall t, seqs (tmap_ino i (reid nx) t) t.
Proof.
  induction t as [m x ch IH|j m d x|tg|] using tree_ind2; cbn [tmap_ino]; try (intros f; reflexivity).
  - apply seqs_dir. induction IH as [|[k c] l Hc _ IHl]; cbn [map]; constructor; [|exact IHl]. cbn [fst snd] in *. split; [reflexivity|exact Hc].
  - destruct (i =? j); [apply seqs_file|intros f; reflexivity].
Qed.
Lemma tmap_ino_tupd_ins i f (nm : name) c : file_leaf f -> forall (pp : path) t,
  tmap_ino i f (tupd pp (dir_ins nm c) t) = tupd pp (dir_ins nm (tmap_ino i f c)) (tmap_ino i f t).
Proof.
  intros Hf. assert (Hnd : forall t, is_dirT t = false -> is_dirT (tmap_ino i f t) = false).
  { intros t Ht. destruct t as [| j m d x | |]; try discriminate; cbn [tmap_ino]; try reflexivity. destruct (i =? j); [apply Hf|reflexivity]. }
  induction pp as [|k pp IH]; intros t; cbn [tupd].
  - destruct t as [m x ch| | |] eqn:Et.
    + cbn [dir_ins tmap_ino]. rewrite (map_aset (tmap_ino i f)). reflexivity.
    + cbn [dir_ins]. specialize (Hnd (File ino mode data xs) eq_refl). destruct (tmap_ino i f (File ino mode data xs)); try discriminate; reflexivity.
    + reflexivity.
    + reflexivity.
  - destruct t as [m x ch| | |] eqn:Et.
    + cbn [tmap_ino tupd]. f_equal. unfold amap. rewrite !map_map. apply map_ext. intros [k' c']. cbn [fst snd].
      destruct (String.eqb k k'); cbn [fst snd]; [rewrite IH|]; reflexivity.
    + specialize (Hnd (File ino mode data xs) eq_refl). destruct (tmap_ino i f (File ino mode data xs)); try discriminate; reflexivity.
    + reflexivity.
    + reflexivity.
Qed.
Lemma file_leaf_reid nx : file_leaf (reid nx).
Proof. intros j m d x. reflexivity. Qed.

(* ------------------------------------------------------------------ copy-up of a regular file, with the facts LINK needs *)
Lemma cnu_file_run2 (pp : path) (nm : name) s u n i m d x :
  Coherent s -> upper s = Some u -> nget (pp ++ [nm]) (root s) = Some n -> node_stat s n = Some (File i m d x) -> in_upper n = false ->
  (List.length pp < DEPTH)%nat -> cu_disk_ok u (lowers s) pp ->
  let nx := next_ino s in
  exists s3 u2 m2 x2 ch2 rest0 n3 ri,
    copy_node_up (pp ++ [nm]) s = (Ok tt, s3) /\ Coherent s3 /\ lowers s3 = lowers s /\
    upper s3 = Some (tmap_ino nx (SD d) (tupd pp (dir_ins nm (File nx (N.land m 4095) [] [])) u2)) /\
    Forall wf (u2 :: lowers s) /\ oteq (merge (u2 :: lowers s)) (merge (u :: lowers s)) /\ cu_disk_rel u (lowers s) pp u2 /\
    tget u2 pp = Some (Dir m2 x2 ch2) /\ afind nm ch2 = None /\ mstack (u2 :: lowers s) (pp ++ [nm]) = File i m d x :: rest0 /\
    nget (pp ++ [nm]) (root s3) = Some n3 /\ n_reals n3 = [ri] /\ r_upper ri = true /\ r_layer ri = 0%nat /\ r_path ri = pp ++ [nm] /\
    n_wh n3 = false /\ same_paths s s3.
Proof.
  intros HC Hu Hg Hst Eup Hdep Hcu. cbv zeta. set (p := pp ++ [nm]) in *.
  destruct (nget_prefix pp nm (root s) n Hg) as [pn Hgp].
  destruct (parent_cu_run pp nm s u pn n HC Hu Hgp Hg Hdep (cu_ok_of_disk s u pp HC Hu Hcu)) as (s' & E' & I' & U' & HC' & SP & L' & Fr & Up).
  pose proof HC' as ([u' Hu'] & _ & _).
  assert (Hrel : cu_disk_rel u (lowers s) pp u').
  { destruct (in_upper pn) eqn:Epu.
    - inversion E'; subst s'. assert (u' = u) by congruence. subst u'. apply cu_disk_rel_refl.
    - destruct (cud_disk _ pp s s' u HC Hu E') as (u0 & Hu0 & R). assert (u0 = u') by congruence. subst u0. exact R. }
  destruct (same_paths_some s s' pp pn SP Hgp) as (pn' & Hgp' & _).
  pose proof (Up pn' Hgp') as Hpu.
  destruct (node_first_real s' pp pn' HC' Hgp') as (pr & prs & tp & Er & _ & Hstp' & Hpath & Hupr & _).
  assert (Hup : r_upper pr = true) by (unfold in_upper in Hpu; rewrite Er in Hpu; exact Hpu).
  assert (Hl0 : r_layer pr = 0%nat) by (rewrite Hup in Hupr; symmetry in Hupr; apply Nat.eqb_eq in Hupr; exact Hupr).
  assert (Hgn' : nget p (root s') = Some n) by (unfold p; rewrite (Fr (pp ++ [nm]) (not_prefix_snoc pp nm)); exact Hg).
  pose proof (not_upper_no_entry s' u' _ n HC' Hu' Hgn' Eup) as Hnoent.
  destruct (parent_is_dir s' pp nm pn' n HC' Hgp' Hgn') as (m' & x' & ch' & Hstp2).
  pose proof (upper_dir_of_node s' u' pp pn' _ HC' Hu' Hgp' Hpu Hstp2) as Hpp'.
  assert (Hnone : afind nm ch' = None) by (unfold p in Hnoent; rewrite tget_app, Hpp' in Hnoent; exact Hnoent).
  assert (Hst' : node_stat s' n = Some (File i m d x)) by (rewrite (lower_node_stat s s' _ n HC Hg Eup L'); exact Hst).
  destruct (node_stat_mstack s' u' _ n _ HC' Hu' Hgn' Hst') as [rest0 Hms].
  destruct (node_first_real s p n HC Hg) as (lr & lrs & tl0 & Elr & Etl & Hstl & Hlp & Hlup & _).
  assert (tl0 = File i m d x) by congruence. subst tl0.
  assert (Hlrlow : r_layer lr <> 0%nat).
  { unfold in_upper in Eup. rewrite Elr, Hlup in Eup. apply Nat.eqb_neq in Eup. exact Eup. }
  assert (Hrt : real_tree s lr = Some (File i m d x)) by (rewrite real_tree_ent, Hlp; exact Etl).
  set (nx := next_ino s) in *.
  set (F0 := File nx (N.land m 4095) [] []).
  set (ua := tupd pp (dir_ins nm F0) u').
  set (sa := mkState (Some ua) (lowers s') (root s') (nx + 1) (0%nat :: log s')).
  assert (Ecr : ri_create pr nm (mode_of (File i m d x)) s' = (Ok (mkReal 0 true p false false false), sa)).
  { unfold ri_create, ri_guard. rewrite Hup. unfold bind at 1. cbn [ret]. unfold bind at 1. unfold fresh_ino. unfold bind at 1.
    rewrite Hl0, Hpath. unfold mutate. cbn [get_layer upper]. rewrite Hu'. cbn [next_ino]. rewrite I'. fold nx.
    unfold h_create, h_insert. rewrite Hpp', Hnone. cbn [mode_of]. unfold set_layer. cbn [upper lowers root next_ino log]. rewrite ?Hu'. reflexivity. }
  assert (Hga : tget ua p = Some F0).
  { unfold ua, p. rewrite (tget_app _ pp nm), tget_tupd, Hpp'. cbn [option_map dir_ins]. apply afind_aset_same. }
  set (ub := tmap_ino nx (SD d) ua).
  assert (Esd : mutate 0 (h_setdata p (fun _ => d)) sa = (Ok tt, set_layer sa 0 ub)).
  { apply (mutate0_ok _ sa ua ub); [reflexivity|]. unfold h_setdata. rewrite Hga. reflexivity. }
  set (s3 := mkState (upper (set_layer sa 0 ub)) (lowers (set_layer sa 0 ub))
                   (nupd p (add_upper (mkReal 0 true p false false false) true) (root (set_layer sa 0 ub))) (next_ino (set_layer sa 0 ub)) (log (set_layer sa 0 ub))).
  assert (Hrun : copy_node_up p s = (Ok tt, s3)).
  { unfold copy_node_up. rewrite (bind_ok _ _ _ _ _ (get_node_ok p s n Hg)), Eup.
    assert (Es : stat_node n s = (Ok (File i m d x), s)) by (unfold stat_node; rewrite Hst; reflexivity).
    rewrite (bind_ok _ _ _ _ _ Es). unfold copy_regfile_up.
    rewrite (bind_ok _ _ _ _ _ (get_node_ok p s n Hg)), Eup. unfold p at 1. rewrite split_last_snoc. fold p.
    rewrite (bind_ok _ _ _ _ _ Es).
    assert (Efr : first_real n s = (Ok lr, s)) by (unfold first_real; rewrite Elr; reflexivity).
    rewrite (bind_ok _ _ _ _ _ Efr), (bind_ok _ _ _ _ _ (get_node_ok pp s pn Hgp)), (bind_ok _ _ _ _ _ E').
    rewrite (bind_ok _ _ _ _ _ (get_node_ok pp s' pn' Hgp')), (bind_ok _ _ _ _ _ (upper_real_ok pn' pr prs EINVAL s' Er Hup)).
    rewrite (bind_ok _ _ _ _ _ Ecr).
    assert (Erd : real_tree sa lr = Some (File i m d x)).
    { rewrite <- Hrt. apply lower_real_tree; [exact Hlrlow|]. cbn [lowers sa]. exact L'. }
    unfold bind at 1. rewrite Erd. cbn [r_layer r_path]. rewrite (bind_ok _ _ _ _ _ Esd). reflexivity. }
  assert (Hnw : forall n0, nget p (root s) = Some n0 -> n_wh n0 = false).
  { intros n0 H0. rewrite Hg in H0. inversion H0; subst n0.
    destruct (node_first_real s p n HC Hg) as (r & rs & t & _ & _ & Hst2 & _ & _ & _ & _ & Hw). rewrite Hst in Hst2. inversion Hst2; subst t. exact Hw. }
  destruct (cnu_coherent p s _ s3 HC Hnw Hrun) as (HC3 & SP3 & L3 & _ & _).
  exists s3, u', m', x', ch', rest0. eexists. exists (mkReal 0 true p false false false).
  split; [exact Hrun|]. split; [exact HC3|]. split; [exact L3|].
  split; [reflexivity|].
  split; [rewrite <- L'; apply (coherent_wf_layers s' u' HC' Hu')|].
  split; [rewrite Hu', L' in U'; exact U'|]. split; [exact Hrel|].
  split; [exact Hpp'|]. split; [exact Hnone|]. split; [rewrite <- L'; exact Hms|].
  split; [cbn [root s3 set_layer sa]; rewrite nget_nupd, Hgn'; reflexivity|].
  cbn [add_upper n_reals n_wh r_wh]. repeat (split; [reflexivity|]). exact SP3.
Qed.

(* ------------------------------------------------------------------ LINK runs from the start as from the state after the copy-up *)
Lemma link_file_rerun (sp pp : path) (sn nm : name) s u i m d x rest mp xp chp : let src := sp ++ [sn] in let nx := next_ino s in
  Coherent s -> upper s = Some u ->
  visp (u :: lowers s) [] src -> mstack (u :: lowers s) src = File i m d x :: rest -> tget u src = None -> N.land m 4095 = m ->
  (List.length src < DEPTH)%nat -> cu_disk_ok u (lowers s) sp ->
  tget u pp = Some (Dir mp xp chp) -> mstack (u :: lowers s) (pp ++ [nm]) = [] ->
  exists s5 u2 m2 x2 ch2 rest0 ch5, step (OLink src (pp ++ [nm])) s = step (OLink src (pp ++ [nm])) s5 /\
    Coherent s5 /\ upper s5 = Some (U3 nx m d sp sn u2) /\ lowers s5 = lowers s /\
    Forall wf (u2 :: lowers s) /\ oteq (merge (u2 :: lowers s)) (merge (u :: lowers s)) /\
    tget u2 sp = Some (Dir m2 x2 ch2) /\ afind sn ch2 = None /\ mstack (u2 :: lowers s) src = File i m d x :: rest0 /\
    tget (U3 nx m d sp sn u2) pp = Some (Dir mp xp ch5) /\ mstack (U3 nx m d sp sn u2 :: lowers s) (pp ++ [nm]) = [].
Proof.
  intros src nx HC Hu Hvs Hms Hnoup Hmode Hlen Hcu Hpp Hmn.
  assert (Hdep : (List.length sp < DEPTH)%nat) by (unfold src in Hlen; rewrite app_length in Hlen; cbn in Hlen; lia).
  destruct (mstack_head pp u (lowers s) _ Hpp) as [rp Hmp].
  destruct (link_prefix_run src pp s u _ rest _ rp HC Hu Hvs Hms eq_refl (upper_visp u (lowers s) pp _ Hpp eq_refl) Hmp eq_refl)
    as (s4 & n4 & pn4 & Hrun & HC4 & Hsd4 & Hgs & Hgp & Hws & Hwp & Hsts & Hstp & Hldp).
  specialize (Hldp eq_refl). pose proof Hsd4 as (U4 & L4 & I4). assert (Hu4 : upper s4 = Some u) by congruence.
  assert (Hin4 : in_upper n4 = false).
  { destruct (in_upper n4) eqn:E; [|reflexivity]. rewrite (upper_dir_of_node s4 u src n4 _ HC4 Hu4 Hgs E Hsts) in Hnoup. discriminate. }
  destruct (cnu_file_run2 sp sn s4 u n4 i m d x HC4 Hu4 Hgs Hsts Hin4 Hdep) as (s5 & u2 & m2 & x2 & ch2 & rest0 & n5 & ri & Ecu & HC5 & L5 & U5 & W2 & M2 & (_ & _ & R3) & Hsp2 & Hnone2 & Hms2 & Hg5 & Er5 & Hup5 & Hl05 & Hpath5 & Hw5 & SP);
    [rewrite L4; exact Hcu|].
  rewrite L4, I4, Hmode in *. fold nx in U5. fold (U3 nx m d sp sn u2) in U5. set (u5 := U3 nx m d sp sn u2) in *. fold src in Ecu, Hms2, Hg5, Hpath5.
  pose proof (tget_U3 nx m d sp sn u2 m2 x2 ch2 Hsp2) as Hs5. fold src u5 in Hs5.
  assert (Hst5 : node_stat s5 n5 = Some (File nx m d [])).
  { unfold node_stat. rewrite Er5. cbn [map first_some]. rewrite real_tree_ent, Hl05, Hpath5. unfold ent. cbn [get_layer]. rewrite U5, Hs5. reflexivity. }
  (* the new parent is still a directory of the upper layer *)
  destruct (R3 pp mp xp chp Hpp) as [ch1 Hpp2].
  destruct (tget_tupd_ins_dir sn (File nx m [] []) sp u2 pp m2 x2 ch2 mp xp ch1 Hsp2 Hnone2 Hpp2) as [ch1' Hpp2'].
  assert (Hpp5 : tget u5 pp = Some (Dir mp xp (map (fun kv => (fst kv, tmap_ino nx (SD d) (snd kv))) ch1'))).
  { unfold u5, U3. rewrite (tget_tmap_ino nx (SD d) pp _ _ Hpp2'). reflexivity. }
  destruct (same_paths_some s4 s5 pp pn4 SP Hgp) as (pn5 & Hgp5 & Hsig). unfold nsig in Hsig. inversion Hsig as [[Hld5 Hfd5]]. rewrite Hldp in Hld5.
  destruct (upper_node s5 u5 pp pn5 _ HC5 U5 Hgp5 Hpp5) as (pr5 & prs5 & Epr5 & Hpup5 & _ & _ & _ & Hwp5 & _). cbn in Hwp5.
  assert (Hmn5 : mstack (u5 :: lowers s) (pp ++ [nm]) = []).
  { pose proof HC4 as (_ & _ & HCT4). pose proof (HCT4 pp pn4 Hgp) as N4. cbn [app] in N4. destruct (ok_ld _ _ _ _ N4 Hldp) as (_ & _ & K4).
    assert (Hn4 : afind nm (n_ch pn4) = None) by (apply K4; apply (kids_nil_of_mstack s4 u pp nm Hu4); rewrite L4; exact Hmn).
    pose proof (same_paths_none s4 s5 _ SP (nget_snoc_none pp nm (root s4) pn4 Hgp Hn4)) as Hq5.
    assert (Hn5 : afind nm (n_ch pn5) = None).
    { destruct (afind nm (n_ch pn5)) as [c5|] eqn:Ec; [|reflexivity]. rewrite (nget_snoc pp nm (root s5) pn5 c5 Hgp5 Ec) in Hq5. discriminate. }
    pose proof HC5 as (_ & _ & HCT5). pose proof (HCT5 pp pn5 Hgp5) as N5. cbn [app] in N5. destruct (ok_ld _ _ _ _ N5 Hld5) as (_ & _ & K5).
    apply K5 in Hn5. rewrite <- lstack_snoc in Hn5. pose proof (lstack_rel s5 u5 (pp ++ [nm]) U5) as R. rewrite Hn5, L5 in R. inversion R. reflexivity. }
  exists s5, u2, m2, x2, ch2, rest0. eexists. split; [|repeat (split; [first [assumption|congruence]|]); split; [exact Hpp5|exact Hmn5]].
  assert (Hbody : do_link src pp nm s4 = do_link src pp nm s5).
  { unfold do_link.
    rewrite (bind_ok _ _ _ _ _ (need_upper_ok s5 u5 U5)), (bind_ok _ _ _ _ _ (get_node_ok src s5 n5 Hg5)), (bind_ok _ _ _ _ _ (get_node_ok pp s5 pn5 Hgp5)), Hw5, Hwp5.
    cbn [orb]. assert (Es5 : stat_node n5 s5 = (Ok (File nx m d []), s5)) by (unfold stat_node; rewrite Hst5; reflexivity).
    rewrite (bind_ok _ _ _ _ _ Es5). cbn [is_dirT]. rewrite (bind_ok _ _ _ _ _ (copy_up_noop src s5 n5 ri [] Hg5 Er5 Hup5)).
    rewrite (bind_ok _ _ _ _ _ (need_upper_ok s4 u Hu4)), (bind_ok _ _ _ _ _ (get_node_ok src s4 n4 Hgs)), (bind_ok _ _ _ _ _ (get_node_ok pp s4 pn4 Hgp)), Hws, Hwp.
    cbn [orb]. assert (Es4 : stat_node n4 s4 = (Ok (File i m d x), s4)) by (unfold stat_node; rewrite Hsts; reflexivity).
    rewrite (bind_ok _ _ _ _ _ Es4). cbn [is_dirT]. rewrite (bind_ok _ _ _ _ _ Ecu). reflexivity. }
  cbn [step]. rewrite with_parent_snoc, Hrun.
  rewrite (link_prefix_noop src pp s5 n5 pn5 (File nx m d []) HC5 Hg5 Hw5 Hst5 eq_refl Hgp5 Hwp5 Hld5). apply bind_congr2. exact Hbody.
Qed.

(* ------------------------------------------------------------------ refinement, up to file identities *)
Theorem refines_link_file s (sp pp : path) (sn nm : name) u i m d x rest mp xp chp v : let src := sp ++ [sn] in let nx := next_ino s in
  let o := OLink src (pp ++ [nm]) in
  Coherent s -> upper s = Some u ->
  visb (u :: lowers s) [] src = true -> mstack (u :: lowers s) src = File i m d x :: rest -> tget u src = None ->
  user_xs x = [] -> N.land m 4095 = m -> (List.length src < DEPTH)%nat -> cu_disk_ok u (lowers s) sp ->
  forallb (fun l => negb (ino_in nx l)) (lowers s) = true ->
  tget u pp = Some (Dir mp xp chp) -> mstack (u :: lowers s) (pp ++ [nm]) = [] -> (List.length (pp ++ [nm]) < DEPTH)%nat ->
  view (load_all s) = Some v -> ino_in nx v = false -> ino_off i (Some src) v = false ->
  let spec := fs_apply o (mkFs v (next_ino s)) in
  res_same (fst (step o s)) (fst spec) /\ ser_opt (view (load_all (run_op o s))) = ser SER (f_tree (snd spec)) /\
  lowers (run_op o s) = lowers s.
Proof.
  intros src nx o HC Hu Hvs Hms Hnoup Hx Hmode Hls Hcu Hfresh Hpp Hmn Hlen Hv Hnxv Huniq. cbv zeta.
  destruct (link_file_rerun sp pp sn nm s u i m d x rest mp xp chp HC Hu (visb_visp _ _ _ Hvs) Hms Hnoup Hmode Hls Hcu Hpp Hmn)
    as (s5 & u2 & m2 & x2 & ch2 & rest0 & ch5 & Hrun & HC5 & Hu5 & L5 & W2 & M2 & Hsp2 & Hnone2 & Hms2 & Hpp5 & Hmn5).
  fold src nx o in Hrun, Hu5, Hms2, Hpp5, Hmn5. set (u5 := U3 nx m d sp sn u2) in *.
  assert (Hds : exists f, DEPTH = (S (S f) + List.length sp)%nat).
  { unfold src in Hls. rewrite app_length in Hls. cbn [List.length] in Hls. exists (DEPTH - 2 - List.length sp)%nat. lia. }
  destruct Hds as [f Hds].
  assert (Hdp : exists f', DEPTH = (S (S f') + List.length pp)%nat).
  { rewrite app_length in Hlen. cbn [List.length] in Hlen. exists (DEPTH - 2 - List.length pp)%nat. lia. }
  destruct Hdp as [f' Hdp].
  (* the three unions *)
  pose proof (coherent_view_union s HC) as A. rewrite Hv, Hu in A. cbn [all_layers] in A.
  destruct (merge (u :: lowers s)) as [mv|] eqn:Em; [|contradiction]. cbn [oteq] in A.
  destruct (merge (u2 :: lowers s)) as [mv2|] eqn:Em2; cbn [oteq] in M2; [|exfalso; exact M2].
  assert (T2v : teq mv2 v) by (apply (teq_trans _ mv); assumption).
  destruct (teq_wf _ _ T2v) as [Wmv2 Wv].
  assert (Hnx2 : ino_in nx mv2 = false) by (rewrite (ino_in_teq nx mv2 v T2v); exact Hnxv).
  set (Fi := File i m d []). set (F0 := File nx m [] []). set (F1 := File nx m d []).
  (* what the union of u2 shows at the source *)
  destruct (mstack_head sp u2 (lowers s) _ Hsp2) as [r2 Hr2].
  destruct (tget_merge (S f) sp u2 (lowers s) _ W2 Hsp2 eq_refl Hds) as (mv2' & Hm2' & Ht2). rewrite Em2 in Hm2'. assert (mv2' = mv2) by congruence. subst mv2'. clear Hm2'.
  rewrite Hr2 in Ht2. assert (Wr : Forall wf (Dir m2 x2 ch2 :: r2)) by (rewrite <- Hr2; apply mstack_wf; exact W2).
  destruct (resolve_dir_spec (S f) m2 x2 ch2 r2 Wr) as (chs & Er & N & K). rewrite Er in Ht2.
  assert (Hnm2 : afind sn chs = Some Fi).
  { rewrite K. pose proof Hms2 as H. unfold src in H. rewrite mstack_snoc, Hr2 in H. rewrite H. cbn [resolve hide_xs]. rewrite Hx. reflexivity. }
  assert (Hp2 : tget mv2 src = Some Fi) by (unfold src; rewrite tget_app, Ht2; exact Hnm2).
  (* the union after the copy-up *)
  set (T0 := tupd sp (dir_ins sn F0) u2) in *.
  pose proof (leaf_on_top_merge u2 (lowers s) sp sn m2 x2 ch2 F0 f mv2 W2 Hsp2 Hnone2 eq_refl eq_refl Hds Em2) as E0.
  fold T0 in E0. destruct (merge (T0 :: lowers s)) as [X0|] eqn:EX0; cbn [oteq] in E0; [|exfalso; exact E0].
  assert (E3 : merge (u5 :: lowers s) = Some (tmap_ino nx (SD d) X0)).
  { unfold u5, U3. fold F0 T0. rewrite (merge_tmap_ino nx (SD d) T0 (lowers s) (hide_comm_set_data _) Hfresh), EX0. reflexivity. }
  set (X := tupd sp (dir_ins sn F1) mv2).
  assert (Y1 : teq (tmap_ino nx (SD d) X0) X).
  { apply (teq_trans _ (tmap_ino nx (SD d) (tupd sp (dir_ins sn F0) mv2))); [apply respects_tmap_ino; [apply file_leaf_set_data|exact E0]|].
    rewrite (tmap_ino_ins_fresh nx (SD d) sp sn F0 mv2 _ _ _ Wmv2 Hnx2 Ht2). unfold F0, F1, SD, X. cbn [tmap_ino set_data]. rewrite N.eqb_refl.
    apply teq_refl. apply (wf_tupd_at sp _ mv2 _ Wmv2 Ht2). cbn [dir_ins]. pose proof (wf_tget _ Wmv2 _ _ Ht2) as Wd. inversion Wd; subst.
    constructor; [apply keys_aset; assumption|apply Forall_aset; [assumption|constructor]]. }
  (* the link in the state after the copy-up *)
  assert (W5 : Forall wf (u5 :: lowers s)) by (rewrite <- L5; apply (coherent_wf_layers s5 u5 HC5 Hu5)).
  pose proof (tget_U3 nx m d sp sn u2 m2 x2 ch2 Hsp2) as Hs5. fold src u5 F1 in Hs5.
  pose proof (coherent_view_union s5 HC5) as B5. rewrite Hu5, L5 in B5. cbn [all_layers] in B5. rewrite E3 in B5.
  destruct (view (load_all s5)) as [v5|] eqn:Hv5; [|contradiction]. cbn [oteq] in B5.
  assert (Hd5 : direct_link s5 o = true).
  { unfold direct_link, o. rewrite Hu5, L5, split_last_snoc, Hs5, Hpp5, (proj2 (Nat.ltb_lt _ _) Hls), (proj2 (Nat.ltb_lt _ _) Hlen). unfold no_cand. rewrite Hmn5. reflexivity. }
  destruct (op_refines_link s5 o v5 HC5 Hd5 Hv5) as (R5 & T5 & Lo5).
  (* the ordinary file system on the unions *)
  set (mv5 := tmap_ino nx (SD d) X0) in *.
  destruct (ins_leaf_merge u5 (lowers s) pp nm mp xp _ F1 f' mv5 W5 Hpp5 Hmn5 eq_refl Hdp E3) as [_ I5]. change (hide_xs F1) with F1 in I5.
  assert (Hs5m : tget mv5 src = Some F1).
  { assert (Hdd : exists g, DEPTH = (S g + List.length src)%nat) by (exists (DEPTH - 1 - List.length src)%nat; lia). destruct Hdd as [g Hdd].
    destruct (tget_merge g src u5 (lowers s) F1 W5 Hs5 eq_refl Hdd) as (mm & Hmm & Ht). assert (mm = mv5) by congruence. subst mm.
    destruct (mstack_head src u5 (lowers s) _ Hs5) as [rr Hrr]. rewrite Hrr in Ht. exact Ht. }
  assert (Hfs5 : forall n0, fs_apply o (mkFs mv5 n0) = (Ok (kind_of F1), mkFs (tupd pp (dir_ins nm F1) mv5) n0)).
  { intros n0. unfold o. cbn [fs_apply]. rewrite split_last_snoc. unfold fs_mut, h_link. cbn [f_tree f_next]. rewrite Hs5m. unfold F1 at 1. fold F1. rewrite I5.
    cbn [fs_after f_tree]. rewrite (h_insert_get _ _ _ _ _ I5). reflexivity. }
  (* ... and on the view before *)
  pose proof (coherent_wf_layers s u HC Hu) as W.
  destruct (ins_leaf_merge u (lowers s) pp nm mp xp chp Fi f' mv W Hpp Hmn eq_refl Hdp Em) as [_ Iv]. change (hide_xs Fi) with Fi in Iv.
  assert (Hsm : tget mv src = Some Fi).
  { pose proof (teq_tget src _ _ M2) as Tq. rewrite Hp2 in Tq. destruct (tget mv src) as [tm|] eqn:Etm; [|contradiction]. cbn in Tq.
    rewrite <- (teq_nondir _ _ Tq eq_refl). reflexivity. }
  assert (Hfsv : fs_apply o (mkFs mv nx) = (Ok (kind_of Fi), mkFs (tupd pp (dir_ins nm Fi) mv) nx)).
  { unfold o. cbn [fs_apply]. rewrite split_last_snoc. unfold fs_mut, h_link. cbn [f_tree f_next]. rewrite Hsm. unfold Fi at 1. fold Fi. rewrite Iv.
    cbn [fs_after f_tree]. rewrite (h_insert_get _ _ _ _ _ Iv). reflexivity. }
  destruct (fs_apply_teq o mv v nx A) as (Rv & Tv & _). rewrite Hfsv in Rv, Tv. cbn [fst snd f_tree] in Rv, Tv.
  destruct (fs_apply_teq o mv5 v5 (next_ino s5) B5) as (R55 & T55 & _). rewrite (Hfs5 (next_ino s5)) in R55, T55. cbn [fst snd f_tree] in R55, T55.
  unfold run_op. rewrite Hrun. fold (run_op o s5).
  split; [|split; [|rewrite Lo5; exact L5]].
  - (* the answers: both Ok "f<mode>" *)
    apply (res_same_trans _ (Ok (kind_of Fi))); [|exact Rv].
    assert (E : fst (step o s5) = Ok (kind_of F1)).
    { cbv zeta in R5. revert R5 R55. generalize (fst (step o s5)) (fst (fs_apply o (mkFs v5 (next_ino s5)))).
      intros [a|e] [b|e']; cbn; intros H5 H55; try contradiction; congruence. }
    rewrite E. reflexivity.
  - (* the views, up to the identity *)
    change (next_ino s) with nx. rewrite <- (teq_ser SER _ _ Tv).
    assert (Tm : teq (tupd pp (dir_ins nm F1) mv5) (tupd pp (dir_ins nm F1) X)) by (apply teq_tupd; [apply respects_dir_ins; constructor|exact Y1]).
    assert (Ts : teq (tupd pp (dir_ins nm Fi) mv2) (tupd pp (dir_ins nm Fi) mv)) by (apply teq_tupd; [apply respects_dir_ins; constructor|exact M2]).
    rewrite <- (teq_ser SER _ _ Ts).
    destruct (view (load_all (run_op o s5))) as [va|] eqn:Eva; cbn [oteq] in T5; [|contradiction]. cbn [ser_opt].
    rewrite (teq_ser SER _ _ T5), <- (teq_ser SER _ _ T55), (teq_ser SER _ _ Tm).
    (* renaming the identity in the specification's tree gives the model's tree *)
    assert (Huq : forall (q : path) m' d' x', tget mv2 q = Some (File i m' d' x') -> q = src).
    { intros q m' d' x' Hq. pose proof (teq_tget q _ _ T2v) as Tq. rewrite Hq in Tq. destruct (tget v q) as [tv|] eqn:Ev; [|contradiction].
      cbn in Tq. rewrite <- (teq_nondir _ _ Tq eq_refl) in Ev. exact (ino_off_unique i v src q m' d' x' Wv Huniq Ev). }
    assert (Ere : tmap_ino i (reid nx) (tupd pp (dir_ins nm Fi) mv2) = tupd pp (dir_ins nm F1) X).
    { rewrite (tmap_ino_tupd_ins i (reid nx) nm Fi (file_leaf_reid nx) pp mv2). unfold Fi at 1. cbn [tmap_ino reid]. rewrite N.eqb_refl. fold F1.
      rewrite (tmap_ino_unique i (reid nx) src mv2 m d [] Wmv2 Huq Hp2). unfold src. rewrite (tupd_snoc_ins sp sn (reid nx) mv2 _ _ chs Fi Wmv2 Ht2 Hnm2).
      reflexivity. }
    rewrite <- Ere. apply seqs_tmap_reid.
Qed.

(* ------------------------------------------------------------------ the fragment *)
Definition direct_link_file (s : state) (o : op) : bool :=
  match upper s, o with
  | Some u, OLink src dst =>
      let L := u :: lowers s in
      match split_last src, split_last dst with
      | Some (sp, _), Some (pp, _) =>
          (List.length src <? DEPTH)%nat && (List.length dst <? DEPTH)%nat && no_cand L dst &&
          visb L [] src && match tget u src with None => true | Some _ => false end &&
          match mstack L src with
          | File _ m _ x :: _ => match user_xs x with [] => true | _ => false end && (N.land m 4095 =? m)
          | _ => false
          end && cu_okb u (lowers s) sp && forallb (fun l => negb (ino_in (next_ino s) l)) (lowers s) &&
          match tget u pp with Some (Dir _ _ _) => true | _ => false end
      | _, _ => false
      end
  | _, _ => false
  end.
Definition ids_ok_link (s : state) (o : op) (v : tree) : bool :=
  match upper s, o with
  | Some u, OLink src _ =>
      match mstack (u :: lowers s) src with
      | File i _ _ _ :: _ => negb (ino_in (next_ino s) v) && negb (ino_off i (Some src) v)
      | _ => false
      end
  | _, _ => false
  end.
Theorem op_refines_link_file s o v : Coherent s -> direct_link_file s o = true -> view (load_all s) = Some v -> ids_ok_link s o v = true ->
  let spec := fs_apply o (mkFs v (next_ino s)) in
  res_same (fst (step o s)) (fst spec) /\ ser_opt (view (load_all (run_op o s))) = ser SER (f_tree (snd spec)) /\
  lowers (run_op o s) = lowers s.
Proof.
  intros HC Hd Hv Hi. unfold direct_link_file in Hd. unfold ids_ok_link in Hi.
  destruct (upper s) as [u|] eqn:Hu; [|discriminate]. destruct o; try discriminate. cbv zeta in Hd.
  destruct (split_last src) as [[sp sn]|] eqn:Ess; [|discriminate]. destruct (split_last dst) as [[pp nm]|] eqn:Esd; [|discriminate].
  apply split_last_spec in Ess. apply split_last_spec in Esd. subst src dst.
  apply andb_prop in Hd. destruct Hd as [Hd H9]. apply andb_prop in Hd. destruct Hd as [Hd H8]. apply andb_prop in Hd. destruct Hd as [Hd H7].
  apply andb_prop in Hd. destruct Hd as [Hd H6]. apply andb_prop in Hd. destruct Hd as [Hd H5]. apply andb_prop in Hd. destruct Hd as [Hd H4].
  apply andb_prop in Hd. destruct Hd as [Hd H3]. apply andb_prop in Hd. destruct Hd as [H1 H2]. apply Nat.ltb_lt in H1. apply Nat.ltb_lt in H2.
  unfold no_cand in H3. destruct (mstack (u :: lowers s) (pp ++ [nm])) eqn:Hmn; [|discriminate].
  destruct (tget u (sp ++ [sn])) eqn:Hnoup; [discriminate|].
  destruct (mstack (u :: lowers s) (sp ++ [sn])) as [|[|i m d x| |] rest] eqn:Hms; try discriminate.
  apply andb_prop in H6. destruct H6 as [Hx Hm]. apply N.eqb_eq in Hm. assert (Hx' : user_xs x = []) by (destruct (user_xs x); [reflexivity|discriminate]).
  destruct (tget u pp) as [[mp xp chp| | |]|] eqn:Hpp; try discriminate.
  apply andb_prop in Hi. destruct Hi as [I1 I2]. apply negb_true_iff in I1. apply negb_true_iff in I2.
  exact (refines_link_file s sp pp sn nm u i m d x rest mp xp chp v HC Hu H4 Hms Hnoup Hx' Hm H1 (cu_okb_ok _ _ _ H7) H8 Hpp Hmn H2 Hv I1 I2).
Qed.
