(* Proofs/TransportMachine.v -- the virtio-fs Reader / VirtioFsWriter machine of Model/Transport.v:
   per-operation contracts in terms of the flat view and their lifting to arbitrary operation sequences
   over the family of handles created by split_at. *)
From Coq Require Import List Arith NArith Bool Lia ZifyBool ZifyNat ZifyN Permutation.
From FB Require Import Model.Transport Proofs.Transport.
Import ListNotations.
Local Open Scope N_scope.
Arguments N.add : simpl never.
Arguments N.sub : simpl never.
Arguments N.mul : simpl never.
Arguments N.div : simpl never.
Arguments N.min : simpl never.

(* b' is b advanced by k bytes: the first k addresses of the flat view are gone, the counter moved by k *)
Definition adv (k : N) (b b' : iobuf) : Prop :=
  flat (segs b') = skipn (N.to_nat k) (flat (segs b)) /\ consumed b' = consumed b + k /\ k <= avail b.

Lemma adv_0 b : adv 0 b b.
Proof. unfold adv. cbn [N.to_nat skipn]. repeat split; lia. Qed.

Lemma adv_avail k b b' : adv k b b' -> avail b' + k = avail b.
Proof.
  intros [Hf [_ Hk]]. rewrite !avail_flat in *. rewrite Hf. unfold lenN in *. rewrite skipn_length. lia.
Qed.

Lemma skipn_skipn' {A} a b (l : list A) : skipn a (skipn b l) = skipn (b + a) l.
Proof.
  revert l; induction b as [|b IH]; intro l; [reflexivity|].
  destruct l as [|x l]; cbn [Nat.add skipn]; [now rewrite skipn_nil|]. apply IH.
Qed.

Lemma adv_trans k1 k2 b b1 b2 : adv k1 b b1 -> adv k2 b1 b2 -> adv (k1 + k2) b b2.
Proof.
  intros H1 H2. pose proof (adv_avail _ _ _ H1) as Ha. destruct H1 as [Hf1 [Hc1 Hk1]], H2 as [Hf2 [Hc2 Hk2]].
  unfold adv. rewrite Hf2, Hf1, skipn_skipn'. repeat split; try lia.
  f_equal. lia.
Qed.

Lemma firstn_add {A} a b (l : list A) : firstn (a + b) l = firstn a l ++ firstn b (skipn a l).
Proof.
  revert l; induction a as [|a IH]; intro l; [reflexivity|].
  destruct l as [|x l]; cbn [Nat.add firstn skipn app]; [now rewrite firstn_nil|]. now rewrite IH.
Qed.

Lemma adv_firstn k1 k2 b b1 : adv k1 b b1 ->
  firstn (N.to_nat (k1 + k2)) (flat (segs b)) =
  firstn (N.to_nat k1) (flat (segs b)) ++ firstn (N.to_nat k2) (flat (segs b1)).
Proof. intros [Hf _]. rewrite Hf, N2Nat.inj_add. apply firstn_add. Qed.

Lemma adv_incl k b b' a : adv k b b' -> In a (flat (segs b')) -> In a (flat (segs b)).
Proof.
  intros [Hf _] H. rewrite Hf in H. rewrite <- (firstn_skipn (N.to_nat k)). apply in_or_app. auto.
Qed.

(* ------------------------------------------------------------------ readers *)
(* Reader::read: exactly the next min(n, available) bytes, in order *)
Lemma rd_read_spec n m b : wf_io b ->
  let k := N.min n (avail b) in
  exists b', rd_read n m b = (ROk k (map (mget m) (firstn (N.to_nat k) (flat (segs b)))), b') /\
             adv k b b' /\ wf_io b'.
Proof.
  intros Hwf k. unfold rd_read. destruct (io_read_spec n n m b Hwf) as [b' [H1 [H2 [H3 H4]]]].
  replace (N.min (N.min n n) (avail b)) with k in * by (subst k; lia).
  exists b'. split; [exact H1|]. split; [|exact H4]. unfold adv. repeat split; auto. subst k; lia.
Qed.

(* after a short read nothing is left, and a further read returns 0: the second iteration of std's
   read_exact loop, which Model/Transport.v collapses *)
Lemma read_after_short n m b b' k data : wf_io b -> rd_read n m b = (ROk k data, b') -> k < n ->
  avail b' = 0 /\ forall n2, exists b'', rd_read n2 m b' = (ROk 0 [], b'') /\ adv 0 b' b''.
Proof.
  intros Hwf H Hk. destruct (rd_read_spec n m b Hwf) as [b2 [H1 [Ha Hwf2]]]. rewrite H1 in H.
  inversion H; subst. clear H. pose proof (adv_avail _ _ _ Ha) as Hav.
  assert (avail b' = 0) as Hz by lia. split; [exact Hz|].
  intro n2. destruct (rd_read_spec n2 m b' Hwf2) as [b3 [H3 [Ha3 _]]].
  rewrite Hz in *. replace (N.min n2 0) with 0 in * by lia. cbn [N.to_nat firstn map] in H3.
  exists b3. auto.
Qed.

Lemma rd_read_exact_spec n m b : wf_io b ->
  exists b', adv (N.min n (avail b)) b b' /\ wf_io b' /\
    rd_read_exact n m b =
      ((if avail b <? n then RErr EEof else ROk n (map (mget m) (firstn (N.to_nat n) (flat (segs b))))), b').
Proof.
  intro Hwf. unfold rd_read_exact. destruct (rd_read_spec n m b Hwf) as [b' [H1 [Ha Hwf']]].
  rewrite H1. exists b'. split; [exact Ha|]. split; [exact Hwf'|].
  destruct (N.ltb_spec (avail b) n) as [Hlt|Hge].
  - replace (N.min n (avail b)) with (avail b) by lia.
    destruct (N.ltb_spec (avail b) n); [reflexivity|lia].
  - replace (N.min n (avail b)) with n by lia. destruct (N.ltb_spec n n); [lia|reflexivity].
Qed.

Lemma io_read_any count sink m b : wf_io b -> exists k, adv k b (snd (io_read count sink m b)) /\ wf_io (snd (io_read count sink m b)).
Proof.
  intro Hwf. destruct sink as [lim|].
  - destruct (io_read_spec count lim m b Hwf) as [b' [H1 [H2 [H3 H4]]]]. rewrite H1. cbn [snd].
    eexists. split; [|exact H4]. unfold adv. repeat split; eauto. lia.
  - destruct (io_read_fail count m b) as [r [H _]]. rewrite H. cbn [snd]. exists 0. split; [apply adv_0|exact Hwf].
Qed.

(* a sequence of reads (any counts, any sink limits) on one reader delivers consecutive pieces:
   the pieces followed by what is still unread are the original bytes, in order, nothing skipped or repeated *)
Fixpoint reads (l : list (N * N)) (m : mem) (b : iobuf) : list (list N) * iobuf :=
  match l with
  | [] => ([], b)
  | (count, lim) :: r =>
      match io_read count (Some lim) m b with
      | (ROk _ data, b') => let '(ds, b'') := reads r m b' in (data :: ds, b'')
      | (_, b') => ([], b')
      end
  end.

Lemma reads_stream l m b : wf_io b ->
  let '(ds, b') := reads l m b in
  concat ds ++ map (mget m) (flat (segs b')) = map (mget m) (flat (segs b)) /\
  consumed b' = consumed b + lenN (concat ds) /\ List.length ds = List.length l.
Proof.
  revert b; induction l as [|[count lim] l IH]; intros b Hwf; cbn [reads].
  - cbn [concat app length]. unfold lenN; cbn [length]. repeat split; lia.
  - destruct (io_read_spec count lim m b Hwf) as [b1 [H1 [H2 [H3 H4]]]]. rewrite H1.
    specialize (IH b1 H4). destruct (reads l m b1) as [ds b2]. destruct IH as [I1 [I2 I3]].
    cbn [concat length]. rewrite <- app_assoc, I1, H2, <- map_app, firstn_skipn.
    repeat split; [|lia]. rewrite I2, H3, lenN_app, lenN_map.
    rewrite lenN_firstn; [lia|]. rewrite <- avail_flat. lia.
Qed.

(* ------------------------------------------------------------------ writers: contract of one operation *)
Definition wpost (m : mem) (d : dirty) (b : iobuf) (k : N) (log : list (N * N))
           (m' : mem) (d' : dirty) (b' : iobuf) : Prop :=
  adv k b b' /\ wf_io b' /\ m' = write_addrs m log /\
  map fst log = firstn (N.to_nat k) (flat (segs b)) /\
  (forall p, d' p = true <-> d p = true \/ exists x, In x (firstn (N.to_nat k) (flat (segs b))) /\ x / PS = p).

Lemma wpost_refl m d b : wf_io b -> wpost m d b 0 [] m d b.
Proof.
  intro Hwf. unfold wpost. cbn [N.to_nat firstn map]. repeat split; auto using adv_0.
  - apply adv_0.
  - apply adv_0.
  - intros [H|[x [[] _]]]; exact H.
Qed.

Lemma wpost_trans m d b k1 log1 m1 d1 b1 k2 log2 m2 d2 b2 :
  wpost m d b k1 log1 m1 d1 b1 -> wpost m1 d1 b1 k2 log2 m2 d2 b2 ->
  wpost m d b (k1 + k2) (log1 ++ log2) m2 d2 b2.
Proof.
  intros [A1 [W1 [M1 [F1 D1]]]] [A2 [W2 [M2 [F2 D2]]]]. unfold wpost.
  split; [eapply adv_trans; eauto|]. split; [exact W2|].
  split; [rewrite M2, M1, write_addrs_app; reflexivity|].
  rewrite (adv_firstn k1 k2 b b1 A1). split; [rewrite map_app, F1, F2; reflexivity|].
  intro p. rewrite D2, D1. split.
  - intros [[H|[x [Hx Hp]]]|[x [Hx Hp]]]; auto; right; exists x; (split; [|exact Hp]); apply in_or_app; auto.
  - intros [H|[x [Hx Hp]]]; auto. apply in_app_or in Hx. destruct Hx as [Hx|Hx]; [left; right|right]; eauto.
Qed.

Lemma io_write_post count data m d b : wf_io b ->
  let k := N.min (N.min count (lenN data)) (avail b) in
  exists m' d' b' log, io_write true count (Some data) m d b = (ROk k [], m', d', b') /\
    wpost m d b k log m' d' b' /\ map snd log = firstn (N.to_nat k) data.
Proof.
  intros Hwf k. destruct (io_write_spec true count data m d b Hwf) as [b' [H1 [H2 [H3 H4]]]].
  fold k in H1, H2, H3.
  assert (Hk : k <= avail b) by (subst k; lia).
  assert (Hlen : length (firstn (N.to_nat k) (flat (segs b))) = N.to_nat k).
  { rewrite firstn_length. rewrite avail_flat in Hk. unfold lenN in Hk. lia. }
  eexists _, _, b', _. split; [exact H1|]. split.
  - unfold wpost. split; [unfold adv; auto|]. split; [exact H4|]. split; [reflexivity|]. split.
    + rewrite map_fst_combine, firstn_firstn. f_equal. subst k. unfold lenN. lia.
    + intro p. apply mark_dirty_spec.
  - rewrite map_snd_combine, Hlen. reflexivity.
Qed.

(* VirtioFsWriter::write *)
Lemma vw_write_spec data m d b : wf_io b ->
  (avail b < lenN data -> vw_write data m d b = (RErr ENoSpace, m, d, b)) /\
  (lenN data <= avail b ->
   exists m' d' b' log, vw_write data m d b = (ROk (lenN data) [], m', d', b') /\
     wpost m d b (lenN data) log m' d' b' /\ map snd log = data).
Proof.
  intro Hwf. unfold vw_write. split; intro H.
  - destruct (N.ltb_spec (avail b) (lenN data)); [reflexivity|lia].
  - destruct (N.ltb_spec (avail b) (lenN data)); [lia|].
    destruct (io_write_post (lenN data) data m d b Hwf) as [m' [d' [b' [log [H1 [H2 H3]]]]]].
    replace (N.min (N.min (lenN data) (lenN data)) (avail b)) with (lenN data) in * by lia.
    exists m', d', b', log. split; [exact H1|]. split; [exact H2|].
    rewrite H3. apply firstn_all2. unfold lenN. lia.
Qed.

(* VirtioFsWriter::write_from *)
Lemma vw_write_from_spec count src m d b : wf_io b ->
  (avail b < count -> vw_write_from count src m d b = (RErr ENoSpace, m, d, b)) /\
  (count <= avail b ->
   match src with
   | Some data =>
       let k := N.min count (lenN data) in
       exists m' d' b' log, vw_write_from count src m d b = (ROk k [], m', d', b') /\
         wpost m d b k log m' d' b' /\ map snd log = firstn (N.to_nat k) data
   | None => exists r, vw_write_from count src m d b = (r, m, d, b) /\ (r = RErr EFile \/ r = ROk 0 [])
   end).
Proof.
  intro Hwf. unfold vw_write_from. split; intro H.
  - destruct (N.ltb_spec (avail b) count); [reflexivity|lia].
  - destruct (N.ltb_spec (avail b) count); [lia|]. destruct src as [data|].
    + destruct (io_write_post count data m d b Hwf) as [m' [d' [b' [log [H1 [H2 H3]]]]]].
      replace (N.min (N.min count (lenN data)) (avail b)) with (N.min count (lenN data)) in * by lia.
      exists m', d', b', log. auto.
    + apply io_write_fail.
Qed.

(* VirtioFsWriter::write_vectored *)
Lemma fold_left_len (datas : list (list N)) acc :
  fold_left (fun a x => a + lenN x) datas acc = acc + lenN (concat datas).
Proof.
  revert acc; induction datas as [|x r IH]; intro acc; cbn [fold_left concat].
  - unfold lenN; cbn [length]; lia.
  - rewrite IH, lenN_app. lia.
Qed.

Lemma vw_write_each_spec datas acc m d b : wf_io b -> lenN (concat datas) <= avail b ->
  exists m' d' b' log, vw_write_each datas acc m d b = (ROk (acc + lenN (concat datas)) [], m', d', b') /\
    wpost m d b (lenN (concat datas)) log m' d' b' /\ map snd log = concat datas.
Proof.
  revert acc m d b; induction datas as [|x r IH]; intros acc m d b Hwf Hle; cbn [vw_write_each concat].
  - exists m, d, b, []. unfold lenN; cbn [length N.of_nat]. replace (acc + 0) with acc by lia.
    split; [reflexivity|]. split; [apply wpost_refl; exact Hwf|reflexivity].
  - cbn [concat] in Hle. rewrite lenN_app in Hle. destruct x as [|y x].
    + cbn [app]. apply IH; [exact Hwf|]. unfold lenN in *; cbn [length] in *. lia.
    + set (xx := y :: x) in *.
      destruct (vw_write_spec xx m d b Hwf) as [_ Hok]. destruct Hok as [m1 [d1 [b1 [log1 [H1 [P1 S1]]]]]]; [lia|].
      rewrite H1. pose proof P1 as [A1 [W1 _]]. pose proof (adv_avail _ _ _ A1) as Hav.
      destruct (IH (acc + lenN xx) m1 d1 b1 W1) as [m2 [d2 [b2 [log2 [H2 [P2 S2]]]]]]; [lia|].
      rewrite H2. exists m2, d2, b2, (log1 ++ log2). rewrite lenN_app.
      split; [f_equal; f_equal; f_equal; f_equal; lia|]. split.
      * eapply wpost_trans; eauto.
      * rewrite map_app, S1, S2. reflexivity.
Qed.

Lemma vw_write_vectored_spec datas m d b : wf_io b ->
  (avail b < lenN (concat datas) -> vw_write_vectored datas m d b = (RErr ENoSpace, m, d, b)) /\
  (lenN (concat datas) <= avail b ->
   exists m' d' b' log, vw_write_vectored datas m d b = (ROk (lenN (concat datas)) [], m', d', b') /\
     wpost m d b (lenN (concat datas)) log m' d' b' /\ map snd log = concat datas).
Proof.
  intro Hwf. unfold vw_write_vectored. rewrite fold_left_len. replace (0 + lenN (concat datas)) with (lenN (concat datas)) by lia.
  split; intro H.
  - destruct (N.ltb_spec (avail b) (lenN (concat datas))); [reflexivity|lia].
  - destruct (N.ltb_spec (avail b) (lenN (concat datas))); [lia|].
    destruct (vw_write_each_spec datas 0 m d b Hwf H) as [m' [d' [b' [log [H1 H2]]]]].
    replace (0 + lenN (concat datas)) with (lenN (concat datas)) in H1 by lia. eauto 8.
Qed.

(* every writer operation, whatever its outcome, satisfies the contract for some k and log
   (k = 0, log = [] when it is refused) *)
Lemma vw_write_any data m d b : wf_io b ->
  exists k log, let '(r, m', d', b') := vw_write data m d b in wpost m d b k log m' d' b'.
Proof.
  intro Hwf. destruct (vw_write_spec data m d b Hwf) as [Hno Hok].
  destruct (N.lt_ge_cases (avail b) (lenN data)) as [H|H].
  - rewrite (Hno H). exists 0, []. apply wpost_refl; exact Hwf.
  - destruct (Hok H) as [m' [d' [b' [log [H1 [H2 _]]]]]]. rewrite H1. eauto.
Qed.
Lemma vw_write_vectored_any datas m d b : wf_io b ->
  exists k log, let '(r, m', d', b') := vw_write_vectored datas m d b in wpost m d b k log m' d' b'.
Proof.
  intro Hwf. destruct (vw_write_vectored_spec datas m d b Hwf) as [Hno Hok].
  destruct (N.lt_ge_cases (avail b) (lenN (concat datas))) as [H|H].
  - rewrite (Hno H). exists 0, []. apply wpost_refl; exact Hwf.
  - destruct (Hok H) as [m' [d' [b' [log [H1 [H2 _]]]]]]. rewrite H1. eauto.
Qed.
Lemma vw_write_from_any count src m d b : wf_io b ->
  exists k log, let '(r, m', d', b') := vw_write_from count src m d b in wpost m d b k log m' d' b'.
Proof.
  intro Hwf. destruct (vw_write_from_spec count src m d b Hwf) as [Hno Hok].
  destruct (N.lt_ge_cases (avail b) count) as [H|H].
  - rewrite (Hno H). exists 0, []. apply wpost_refl; exact Hwf.
  - specialize (Hok H). destruct src as [data|].
    + destruct Hok as [m' [d' [b' [log [H1 [H2 _]]]]]]. rewrite H1. eauto.
    + destruct Hok as [r [H1 _]]. rewrite H1. exists 0, []. apply wpost_refl; exact Hwf.
Qed.

(* the two loops (read_exact_to, write_all_from): whatever happens, the handle only advances *)
Lemma rd_read_exact_to_loop_any fuel count sink m b acc : wf_io b ->
  exists k, adv k b (snd (rd_read_exact_to_loop fuel count sink m b acc)) /\
            wf_io (snd (rd_read_exact_to_loop fuel count sink m b acc)).
Proof.
  revert count b acc; induction fuel as [|f IH]; intros count b acc Hwf; cbn [rd_read_exact_to_loop].
  - exists 0. split; [apply adv_0|exact Hwf].
  - destruct (count =? 0); [exists 0; split; [apply adv_0|exact Hwf]|].
    destruct (io_read_any count sink m b Hwf) as [k [Ha Hw]].
    destruct (io_read count sink m b) as [r b1]. cbn [snd] in Ha, Hw.
    destruct r as [n data|e|]; try (exists k; cbn [snd]; split; assumption).
    destruct n as [|pn]; [exists k; cbn [snd]; split; assumption|].
    destruct (IH (count - N.pos pn) b1 (acc ++ data) Hw) as [k2 [Ha2 Hw2]].
    exists (k + k2). split; [eapply adv_trans; eauto|exact Hw2].
Qed.

Lemma wpost_intro_let (P : res * mem * dirty * iobuf -> Prop) x : P x -> let '(r, m', d', b') := x in P (r, m', d', b').
Proof. destruct x as [[[r m'] d'] b']. auto. Qed.

Lemma vw_write_all_from_loop_any fuel count src m d b : wf_io b ->
  exists k log, let '(r, m', d', b') := vw_write_all_from_loop fuel count src m d b in wpost m d b k log m' d' b'.
Proof.
  revert count src m d b; induction fuel as [|f IH]; intros count src m d b Hwf; cbn [vw_write_all_from_loop].
  - exists 0, []. apply wpost_refl; exact Hwf.
  - destruct (count =? 0); [exists 0, []; apply wpost_refl; exact Hwf|].
    destruct (vw_write_from_any count src m d b Hwf) as [k [log H]].
    destruct (vw_write_from count src m d b) as [[[r m1] d1] b1].
    destruct r as [n data|e|]; try (exists k, log; exact H).
    destruct n as [|pn]; [exists k, log; exact H|].
    pose proof H as [_ [W1 _]].
    destruct (IH (count - N.pos pn) (option_map (skipn (N.to_nat (N.pos pn))) src) m1 d1 b1 W1) as [k2 [log2 H2]].
    destruct (vw_write_all_from_loop f (count - N.pos pn) (option_map (skipn (N.to_nat (N.pos pn))) src) m1 d1 b1) as [[[r2 m2] d2] b2].
    exists (k + k2), (log ++ log2). eapply wpost_trans; eauto.
Qed.

Lemma vw_write_all_from_any count src m d b : wf_io b ->
  exists k log, let '(r, m', d', b') := vw_write_all_from count src m d b in wpost m d b k log m' d' b'.
Proof.
  intro Hwf. unfold vw_write_all_from. destruct (avail b <? count).
  - exists 0, []. apply wpost_refl; exact Hwf.
  - apply vw_write_all_from_loop_any; exact Hwf.
Qed.

(* ------------------------------------------------------------------ the machine *)
Definition wf_st (st : vstate) : Prop := Forall wf_io (v_rd st) /\ Forall wf_io (v_wr st).

Lemma Forall_set_nth {A} (P : A -> Prop) i x l : Forall P l -> P x -> Forall P (set_nth i x l).
Proof.
  revert i; induction l as [|y l IH]; intros i Hl Hx; destruct i; cbn [set_nth]; auto;
    inversion Hl; subst; constructor; auto.
Qed.
Lemma nth_error_Forall {A} (P : A -> Prop) l i x : Forall P l -> nth_error l i = Some x -> P x.
Proof. intros H E. rewrite Forall_forall in H. apply H. eapply nth_error_In; eauto. Qed.
Lemma in_set_nth {A} i (x y : A) l : In y (set_nth i x l) -> y = x \/ In y l.
Proof.
  revert i; induction l as [|z l IH]; intros i H; destruct i; cbn [set_nth In] in *; try tauto.
  - destruct H; auto.
  - destruct H as [H|H]; auto. destruct (IH _ H); auto.
Qed.

(* all addresses still covered by a family of handles *)
Definition live (l : list iobuf) : list N := concat (map (fun b => flat (segs b)) l).

Lemma live_set_nth l i b b' p : nth_error l i = Some b -> Permutation (flat (segs b)) (p ++ flat (segs b')) ->
  Permutation (p ++ live (set_nth i b' l)) (live l).
Proof.
  revert i; induction l as [|y l IH]; intros i E HP; destruct i; cbn [nth_error] in E; try discriminate.
  - inversion E; subst. unfold live. cbn [set_nth map concat]. rewrite app_assoc.
    apply Permutation_app_tail. symmetry. exact HP.
  - unfold live. cbn [set_nth map concat]. fold (live (set_nth i b' l)) (live l).
    eapply Permutation_trans; [apply Permutation_app_swap_app|]. apply Permutation_app_head. apply IH; assumption.
Qed.

Lemma live_app l1 l2 : live (l1 ++ l2) = live l1 ++ live l2.
Proof. unfold live. now rewrite map_app, concat_app. Qed.

Lemma adv_perm k b b' : adv k b b' ->
  Permutation (flat (segs b)) (firstn (N.to_nat k) (flat (segs b)) ++ flat (segs b')).
Proof. intros [Hf _]. rewrite Hf, firstn_skipn. apply Permutation_refl. Qed.

(* what one step of the machine guarantees, for every operation and every (well-formed) state:
   log  = the single-byte stores performed, in order (address, value);
   rlog = the addresses consumed by readers *)
Definition step_post (st st' : vstate) (log : list (N * N)) (rlog : list N) : Prop :=
  wf_st st' /\
  v_mem st' = write_addrs (v_mem st) log /\
  (forall a, In a (map fst log) -> exists b, In b (v_wr st) /\ In a (flat (segs b))) /\
  (forall p, v_dirty st' p = true <-> v_dirty st p = true \/ exists x, In x (map fst log) /\ x / PS = p) /\
  (forall b' a, In b' (v_wr st') -> In a (flat (segs b')) -> exists b, In b (v_wr st) /\ In a (flat (segs b))) /\
  Permutation (map fst log ++ live (v_wr st')) (live (v_wr st)) /\
  Permutation (rlog ++ live (v_rd st')) (live (v_rd st)).

Lemma step_post_refl st : wf_st st -> step_post st st [] [].
Proof.
  intro H. unfold step_post. cbn [map app]. split; [exact H|]. split; [reflexivity|]. split; [intros a []|]. split; [|split; [eauto|split; apply Permutation_refl]].
  intro p. split; [auto|]. intros [Hd|[x [[] _]]]; exact Hd.
Qed.

Lemma step_post_reader st i b b' k : wf_st st -> nth_error (v_rd st) i = Some b -> adv k b b' -> wf_io b' ->
  step_post st (mkv (v_mem st) (v_dirty st) (set_nth i b' (v_rd st)) (v_wr st)) [] (firstn (N.to_nat k) (flat (segs b))).
Proof.
  intros [H1 H2] E A W. unfold step_post, wf_st. cbn [v_mem v_dirty v_rd v_wr map app].
  split; [split; [apply Forall_set_nth; assumption|assumption]|]. split; [reflexivity|]. split; [intros a []|].
  split; [|split; [eauto|split; [apply Permutation_refl|]]].
  - intro p. split; [auto|]. intros [Hd|[x [[] _]]]; exact Hd.
  - eapply live_set_nth; [exact E|]. apply adv_perm; exact A.
Qed.

Lemma step_post_writer st i b k log m' d' b' : wf_st st -> nth_error (v_wr st) i = Some b ->
  wpost (v_mem st) (v_dirty st) b k log m' d' b' ->
  step_post st (mkv m' d' (v_rd st) (set_nth i b' (v_wr st))) log [].
Proof.
  intros [H1 H2] E [A [W [M [F D]]]]. pose proof (nth_error_In _ _ E) as Hin.
  unfold step_post, wf_st. cbn [v_mem v_dirty v_rd v_wr app].
  split; [split; [assumption|apply Forall_set_nth; assumption]|]. split; [exact M|]. split; [|split; [|split; [|split]]].
  - intros a Ha. exists b. split; [exact Hin|]. rewrite F in Ha.
    rewrite <- (firstn_skipn (N.to_nat k)). apply in_or_app. auto.
  - intro p. rewrite F. apply D.
  - intros b2 a Hb Ha. apply in_set_nth in Hb. destruct Hb as [->|Hb]; [|eauto].
    exists b. split; [exact Hin|]. eapply adv_incl; eauto.
  - rewrite F. eapply live_set_nth; [exact E|]. apply adv_perm; exact A.
  - apply Permutation_refl.
Qed.

Lemma split_perm off b a o :
  flat (segs a) = firstn (N.to_nat off) (flat (segs b)) -> flat (segs o) = skipn (N.to_nat off) (flat (segs b)) ->
  Permutation (flat (segs b)) (flat (segs o) ++ flat (segs a)).
Proof.
  intros Fa Fo. rewrite Fa, Fo. rewrite <- (firstn_skipn (N.to_nat off) (flat (segs b))) at 1. apply Permutation_app_comm.
Qed.

Lemma vstep_post op st : wf_st st ->
  exists log rlog, step_post st (snd (vstep op st)) log rlog.
Proof.
  intros Hwf. pose proof Hwf as [Hr Hw]. destruct op as [i n|i n|i count sink|i off|i count sink|i count src|i data|i datas|i count src|i off|i];
    cbn [vstep].
  - destruct (nth_error (v_rd st) i) as [b|] eqn:E; [|exists [], []; apply step_post_refl; exact Hwf].
    pose proof (nth_error_Forall _ _ _ _ Hr E) as Hb.
    destruct (rd_read_spec n (v_mem st) b Hb) as [b' [H1 [Ha Hwf']]]. rewrite H1. cbn [snd].
    eexists [], _. eapply step_post_reader; eauto.
  - destruct (nth_error (v_rd st) i) as [b|] eqn:E; [|exists [], []; apply step_post_refl; exact Hwf].
    pose proof (nth_error_Forall _ _ _ _ Hr E) as Hb.
    destruct (rd_read_exact_spec n (v_mem st) b Hb) as [b' [Ha [Hwf' H1]]]. rewrite H1. cbn [snd].
    eexists [], _. eapply step_post_reader; eauto.
  - destruct (nth_error (v_rd st) i) as [b|] eqn:E; [|exists [], []; apply step_post_refl; exact Hwf].
    pose proof (nth_error_Forall _ _ _ _ Hr E) as Hb.
    destruct (io_read_any count sink (v_mem st) b Hb) as [k [Ha Hwf']].
    destruct (io_read count sink (v_mem st) b) as [r b'] eqn:E2. cbn [snd] in *.
    eexists [], _. eapply step_post_reader; eauto.
  - destruct (nth_error (v_rd st) i) as [b|] eqn:E; [|exists [], []; apply step_post_refl; exact Hwf].
    pose proof (nth_error_Forall _ _ _ _ Hr E) as Hb.
    destruct (io_split_spec off b Hb) as [Hok Hno].
    destruct (N.lt_ge_cases (avail b) off) as [H|H].
    + rewrite (Hno H). cbn [snd]. exists [], []. apply step_post_refl; exact Hwf.
    + destruct (Hok H) as [a [o [H1 [Fa [Fo [_ [_ [Wa Wo]]]]]]]]. rewrite H1. cbn [snd].
      exists [], []. unfold step_post, wf_st. cbn [v_mem v_dirty v_rd v_wr map app].
      split; [split; [apply Forall_app; split; [apply Forall_set_nth; assumption|auto]|assumption]|].
      split; [reflexivity|]. split; [intros x []|]. split; [|split; [eauto|split; [apply Permutation_refl|]]].
      * intro p. split; [auto|]. intros [Hd|[x [[] _]]]; exact Hd.
      * rewrite live_app. unfold live at 2. cbn [map concat]. rewrite app_nil_r.
        eapply Permutation_trans; [apply Permutation_app_comm|].
        eapply live_set_nth; [exact E|]. eapply split_perm; eauto.
  - destruct (nth_error (v_rd st) i) as [b|] eqn:E; [|exists [], []; apply step_post_refl; exact Hwf].
    pose proof (nth_error_Forall _ _ _ _ Hr E) as Hb. unfold rd_read_exact_to.
    destruct (rd_read_exact_to_loop_any (S (N.to_nat count)) count sink (v_mem st) b [] Hb) as [k [Ha Hwf']].
    destruct (rd_read_exact_to_loop (S (N.to_nat count)) count sink (v_mem st) b []) as [r b'] eqn:E2. cbn [snd] in *.
    eexists [], _. eapply step_post_reader; eauto.
  - destruct (nth_error (v_wr st) i) as [b|] eqn:E; [|exists [], []; apply step_post_refl; exact Hwf].
    pose proof (nth_error_Forall _ _ _ _ Hw E) as Hb.
    destruct (vw_write_all_from_any count src (v_mem st) (v_dirty st) b Hb) as [k [log H]].
    destruct (vw_write_all_from count src (v_mem st) (v_dirty st) b) as [[[r m'] d'] b']. cbn [snd].
    exists log, []. eapply step_post_writer; eauto.
  - destruct (nth_error (v_wr st) i) as [b|] eqn:E; [|exists [], []; apply step_post_refl; exact Hwf].
    pose proof (nth_error_Forall _ _ _ _ Hw E) as Hb.
    destruct (vw_write_any data (v_mem st) (v_dirty st) b Hb) as [k [log H]].
    destruct (vw_write data (v_mem st) (v_dirty st) b) as [[[r m'] d'] b']. cbn [snd].
    exists log, []. eapply step_post_writer; eauto.
  - destruct (nth_error (v_wr st) i) as [b|] eqn:E; [|exists [], []; apply step_post_refl; exact Hwf].
    pose proof (nth_error_Forall _ _ _ _ Hw E) as Hb.
    destruct (vw_write_vectored_any datas (v_mem st) (v_dirty st) b Hb) as [k [log H]].
    destruct (vw_write_vectored datas (v_mem st) (v_dirty st) b) as [[[r m'] d'] b']. cbn [snd].
    exists log, []. eapply step_post_writer; eauto.
  - destruct (nth_error (v_wr st) i) as [b|] eqn:E; [|exists [], []; apply step_post_refl; exact Hwf].
    pose proof (nth_error_Forall _ _ _ _ Hw E) as Hb.
    destruct (vw_write_from_any count src (v_mem st) (v_dirty st) b Hb) as [k [log H]].
    destruct (vw_write_from count src (v_mem st) (v_dirty st) b) as [[[r m'] d'] b']. cbn [snd].
    exists log, []. eapply step_post_writer; eauto.
  - destruct (nth_error (v_wr st) i) as [b|] eqn:E; [|exists [], []; apply step_post_refl; exact Hwf].
    pose proof (nth_error_Forall _ _ _ _ Hw E) as Hb. pose proof (nth_error_In _ _ E) as Hin.
    destruct (io_split_spec off b Hb) as [Hok Hno].
    destruct (N.lt_ge_cases (avail b) off) as [H|H].
    + rewrite (Hno H). cbn [snd]. exists [], []. apply step_post_refl; exact Hwf.
    + destruct (Hok H) as [a [o [H1 [Fa [Fo [_ [_ [Wa Wo]]]]]]]]. rewrite H1. cbn [snd].
      exists [], []. unfold step_post, wf_st. cbn [v_mem v_dirty v_rd v_wr map app].
      split; [split; [assumption|apply Forall_app; split; [apply Forall_set_nth; assumption|auto]]|].
      split; [reflexivity|]. split; [intros x []|]. split; [|split; [|split; [|apply Permutation_refl]]].
      * intro p. split; [auto|]. intros [Hd|[x [[] _]]]; exact Hd.
      * intros b2 x Hb2 Hx. apply in_app_or in Hb2. destruct Hb2 as [Hb2|[<-|[]]].
        -- apply in_set_nth in Hb2. destruct Hb2 as [->|Hb2]; [|eauto].
           exists b. split; [exact Hin|]. rewrite Fa in Hx.
           rewrite <- (firstn_skipn (N.to_nat off)). apply in_or_app. auto.
        -- exists b. split; [exact Hin|]. rewrite Fo in Hx.
           rewrite <- (firstn_skipn (N.to_nat off)). apply in_or_app. auto.
      * rewrite live_app. unfold live at 2. cbn [map concat]. rewrite app_nil_r.
        eapply Permutation_trans; [apply Permutation_app_comm|].
        eapply live_set_nth; [exact E|]. eapply split_perm; eauto.
  - destruct (nth_error (v_wr st) i) as [b|] eqn:E; exists [], []; apply step_post_refl; exact Hwf.
Qed.

Lemma step_post_trans st st1 st2 log1 log2 rl1 rl2 :
  step_post st st1 log1 rl1 -> step_post st1 st2 log2 rl2 -> step_post st st2 (log1 ++ log2) (rl1 ++ rl2).
Proof.
  intros [W1 [M1 [I1 [D1 [R1 [P1 Q1]]]]]] [W2 [M2 [I2 [D2 [R2 [P2 Q2]]]]]]. unfold step_post.
  split; [exact W2|]. split; [rewrite M2, M1, write_addrs_app; reflexivity|]. rewrite map_app. split; [|split; [|split; [|split]]].
  - intros a Ha. apply in_app_or in Ha. destruct Ha as [Ha|Ha]; [auto|].
    destruct (I2 _ Ha) as [b1 [Hb1 Hx]]. eauto.
  - intro p. rewrite D2, D1. split.
    + intros [[H|[x [Hx Hp]]]|[x [Hx Hp]]]; auto; right; exists x; (split; [|exact Hp]); apply in_or_app; auto.
    + intros [H|[x [Hx Hp]]]; auto. apply in_app_or in Hx. destruct Hx as [Hx|Hx]; [left; right|right]; eauto.
  - intros b2 a Hb2 Ha. destruct (R2 _ _ Hb2 Ha) as [b1 [Hb1 Ha1]]. eauto.
  - rewrite <- app_assoc. eapply Permutation_trans; [apply Permutation_app_head; exact P2|exact P1].
  - rewrite <- app_assoc. eapply Permutation_trans; [apply Permutation_app_head; exact Q2|exact Q1].
Qed.

Lemma vrun_snd_cons op ops st : snd (vrun (op :: ops) st) = snd (vrun ops (snd (vstep op st))).
Proof.
  cbn [vrun]. destruct (vstep op st) as [o st1]. cbn [snd]. destruct (vrun ops st1) as [os st2]. reflexivity.
Qed.

(* any operation sequence: memory = initial memory + an ordered log of single-byte stores, all of them to
   addresses of writable segments; the dirty log grew by exactly the pages of the stored addresses; the
   stored addresses plus what the writers still cover are a rearrangement of what the writers covered
   at the start (likewise for the addresses consumed by readers) *)
Theorem vrun_post ops st : wf_st st -> exists log rlog, step_post st (snd (vrun ops st)) log rlog.
Proof.
  revert st; induction ops as [|op ops IH]; intros st Hwf.
  - exists [], []. apply step_post_refl; exact Hwf.
  - rewrite vrun_snd_cons. destruct (vstep_post op st Hwf) as [log1 [rl1 H1]].
    pose proof H1 as [W1 _]. destruct (IH _ W1) as [log2 [rl2 H2]].
    exists (log1 ++ log2), (rl1 ++ rl2). eapply step_post_trans; eauto.
Qed.

Lemma NoDup_app_l {A} (l1 l2 : list A) : NoDup (l1 ++ l2) -> NoDup l1.
Proof.
  induction l1 as [|x l1 IH]; intro H; [constructor|]. cbn [app] in H. inversion H; subst.
  constructor; [|auto]. intro Hin. apply H2. apply in_or_app. auto.
Qed.

(* ---- C04: with pairwise disjoint writable segments every stored byte is still in place at the end:
   nothing written through any writer of the family is overwritten or lost *)
Theorem stores_persist ops st : wf_st st -> NoDup (live (v_wr st)) ->
  exists log rlog, step_post st (snd (vrun ops st)) log rlog /\
    NoDup (map fst log) /\ forall a v, In (a, v) log -> mget (v_mem (snd (vrun ops st))) a = v.
Proof.
  intros Hwf Hnd. destruct (vrun_post ops st Hwf) as [log [rlog H]]. exists log, rlog. split; [exact H|].
  destruct H as [_ [M [_ [_ [_ [P _]]]]]].
  assert (NoDup (map fst log)) as Hl.
  { eapply NoDup_app_l. eapply Permutation_NoDup; [symmetry; exact P|exact Hnd]. }
  split; [exact Hl|]. intros a v Hin. rewrite M. apply write_addrs_content; assumption.
Qed.

(* ---- C17 *)
Theorem written_marked ops st : wf_st st ->
  forall a, mget (v_mem (snd (vrun ops st))) a <> mget (v_mem st) a ->
            v_dirty (snd (vrun ops st)) (a / PS) = true.
Proof.
  intros Hwf a Hne. destruct (vrun_post ops st Hwf) as [log [rlog [_ [M [_ [D _]]]]]].
  apply D. right. exists a. split; [|reflexivity].
  destruct (in_dec N.eq_dec a (map fst log)) as [Hin|Hnin]; [exact Hin|].
  exfalso. apply Hne. rewrite M. apply write_addrs_frame. exact Hnin.
Qed.

Theorem only_written ops st : wf_st st ->
  forall p, v_dirty (snd (vrun ops st)) p = true -> v_dirty st p = true \/
    exists a b, a / PS = p /\ In b (v_wr st) /\ In a (flat (segs b)).
Proof.
  intros Hwf p Hp. destruct (vrun_post ops st Hwf) as [log [rlog [_ [_ [I [D _]]]]]].
  apply D in Hp. destruct Hp as [Hp|[x [Hx Hxp]]]; [auto|]. right.
  destruct (I _ Hx) as [b [Hb Hxb]]. eauto.
Qed.

(* ---- C04: frame *)
Theorem frame ops st : wf_st st ->
  forall a, (forall b, In b (v_wr st) -> ~ In a (flat (segs b))) ->
            mget (v_mem (snd (vrun ops st))) a = mget (v_mem st) a.
Proof.
  intros Hwf a Hout. destruct (vrun_post ops st Hwf) as [log [rlog [_ [M [I _]]]]].
  rewrite M. apply write_addrs_frame. intro Hin. destruct (I _ Hin) as [b [Hb Hab]]. exact (Hout b Hb Hab).
Qed.

Theorem vrun_wf ops st : wf_st st -> wf_st (snd (vrun ops st)).
Proof. intro Hwf. destruct (vrun_post ops st Hwf) as [log [rlog [W _]]]. exact W. Qed.

(* chains accepted by from_chain are well formed: the sum of the lengths fits a usize *)
Lemma chain_segs_total regions ds total t l x :
  chain_segs regions ds total = (ROk t x, l) -> total <= USIZE_MAX -> t = total + seg_total l /\ t <= USIZE_MAX.
Proof.
  revert total t l x; induction ds as [|y r IH]; intros total t l x; cbn [chain_segs].
  - intros HH Hb; inversion HH; subst. cbn [seg_total fold_right]. split; lia.
  - destruct (N.ltb_spec USIZE_MAX (total + d_len y)) as [Hov|Hov]; [discriminate|].
    destruct (find_region regions (d_addr y)) as [[b z]|]; [|discriminate].
    destruct (z <? d_addr y - b + d_len y); [discriminate|].
    destruct (chain_segs regions r (total + d_len y)) as [[n q|e|] l'] eqn:E; try discriminate.
    intros HH Hb; inversion HH; subst. cbn [seg_total fold_right sl]. fold (seg_total l').
    destruct (IH _ _ _ _ E Hov) as [H1 H2]. split; lia.
Qed.

Lemma from_chain_wf regions ds w n x b : from_chain regions ds w = (ROk n x, b) -> wf_io b.
Proof.
  unfold from_chain. destruct (chain_segs regions _ 0) as [r l] eqn:E. intro HH; inversion HH; subst.
  unfold wf_io. cbn [consumed]. unfold avail. cbn [segs]. rewrite fold_left_total.
  assert (0 <= USIZE_MAX) as H0 by (unfold USIZE_MAX; lia).
  destruct (chain_segs_total _ _ _ _ _ _ E H0) as [H1 H2]. lia.
Qed.

(* ---- refusals leave everything unchanged *)
Lemma split_refused off b : wf_io b -> avail b < off -> io_split off b = None.
Proof. intros Hwf H. apply (io_split_spec off b Hwf). exact H. Qed.

(* ---- segmentation is irrelevant: only the flat view (and the counter) matters *)
Lemma seg_irrelevant_read count k m b1 b2 : wf_io b1 -> wf_io b2 ->
  flat (segs b1) = flat (segs b2) -> consumed b1 = consumed b2 ->
  fst (io_read count (Some k) m b1) = fst (io_read count (Some k) m b2) /\
  flat (segs (snd (io_read count (Some k) m b1))) = flat (segs (snd (io_read count (Some k) m b2))) /\
  consumed (snd (io_read count (Some k) m b1)) = consumed (snd (io_read count (Some k) m b2)).
Proof.
  intros W1 W2 Hf Hc.
  destruct (io_read_spec count k m b1 W1) as [b1' [E1 [F1 [C1 _]]]].
  destruct (io_read_spec count k m b2 W2) as [b2' [E2 [F2 [C2 _]]]].
  rewrite E1, E2. cbn [fst snd]. rewrite F1, F2, C1, C2. rewrite !avail_flat. rewrite Hf, Hc. auto.
Qed.

Lemma seg_irrelevant_write mark count data m d b1 b2 : wf_io b1 -> wf_io b2 ->
  flat (segs b1) = flat (segs b2) -> consumed b1 = consumed b2 ->
  let r1 := io_write mark count (Some data) m d b1 in
  let r2 := io_write mark count (Some data) m d b2 in
  fst (fst (fst r1)) = fst (fst (fst r2)) /\ snd (fst (fst r1)) = snd (fst (fst r2)) /\
  (forall p, snd (fst r1) p = snd (fst r2) p) /\
  flat (segs (snd r1)) = flat (segs (snd r2)) /\ consumed (snd r1) = consumed (snd r2).
Proof.
  intros W1 W2 Hf Hc r1 r2. subst r1 r2.
  destruct (io_write_spec mark count data m d b1 W1) as [b1' [E1 [F1 [C1 _]]]].
  destruct (io_write_spec mark count data m d b2 W2) as [b2' [E2 [F2 [C2 _]]]].
  rewrite E1, E2. cbn [fst snd]. rewrite F1, F2, C1, C2. rewrite !avail_flat. rewrite Hf, Hc.
  repeat split; auto. intro p. destruct mark; [|reflexivity].
  set (n := N.min (N.min count (lenN data)) (lenN (flat (segs b2)))).
  destruct (mark_dirty n (segs b1) d p) eqn:A, (mark_dirty n (segs b2) d p) eqn:B; try reflexivity.
  - apply mark_dirty_spec in A. rewrite Hf in A. apply mark_dirty_spec in A. congruence.
  - apply mark_dirty_spec in B. rewrite <- Hf in B. apply mark_dirty_spec in B. congruence.
Qed.

(* ---- counters *)
Lemma adv_counters k b b' : adv k b b' -> avail b' + consumed b' = avail b + consumed b.
Proof. intro H. pose proof (adv_avail _ _ _ H) as Ha. destruct H as [_ [Hc _]]. lia. Qed.

(* ---- C17: unused reply space and request buffers stay clean (pairwise disjoint writable segments) *)
Lemma NoDup_app_disjoint {A} (l1 l2 : list A) x : NoDup (l1 ++ l2) -> In x l1 -> ~ In x l2.
Proof.
  induction l1 as [|y l1 IH]; intros H H1; [contradiction|]. cbn [app] in H. inversion H; subst.
  destruct H1 as [->|H1]; [|auto]. intro H2. apply H3. apply in_or_app. auto.
Qed.

Theorem only_consumed_marked ops st : wf_st st -> NoDup (live (v_wr st)) ->
  forall p, v_dirty (snd (vrun ops st)) p = true -> v_dirty st p = true \/
    exists a, a / PS = p /\ In a (live (v_wr st)) /\ ~ In a (live (v_wr (snd (vrun ops st)))).
Proof.
  intros Hwf Hnd p Hp. destruct (vrun_post ops st Hwf) as [log [rlog [_ [_ [_ [D [_ [P _]]]]]]]].
  apply D in Hp. destruct Hp as [Hp|[x [Hx Hxp]]]; [auto|]. right. exists x. split; [exact Hxp|].
  assert (NoDup (map fst log ++ live (v_wr (snd (vrun ops st))))) as Hnd2
    by (eapply Permutation_NoDup; [symmetry; exact P|exact Hnd]).
  split.
  - eapply Permutation_in; [exact P|]. apply in_or_app. auto.
  - eapply NoDup_app_disjoint; eauto.
Qed.

(* operations that are not writes change neither memory nor the dirty log *)
Definition is_write_op (op : vop) : bool :=
  match op with WWrite _ _ | WWriteV _ _ | WWriteFrom _ _ _ | WWriteAllFrom _ _ _ => true | _ => false end.
Lemma nonwrite_keeps op st : is_write_op op = false ->
  v_mem (snd (vstep op st)) = v_mem st /\ v_dirty (snd (vstep op st)) = v_dirty st.
Proof.
  destruct op as [i n|i n|i count sink|i off|i count sink|i count src|i data|i datas|i count src|i off|i]; cbn [is_write_op vstep];
    intro H; try discriminate.
  - destruct (nth_error (v_rd st) i); [|auto]. destruct (rd_read n (v_mem st) i0). cbn. auto.
  - destruct (nth_error (v_rd st) i); [|auto]. destruct (rd_read_exact n (v_mem st) i0). cbn. auto.
  - destruct (nth_error (v_rd st) i); [|auto]. destruct (io_read count sink (v_mem st) i0). cbn. auto.
  - destruct (nth_error (v_rd st) i); [|auto]. destruct (io_split off i0) as [[a o]|]; cbn; auto.
  - destruct (nth_error (v_rd st) i); [|auto]. destruct (rd_read_exact_to count sink (v_mem st) i0). cbn. auto.
  - destruct (nth_error (v_wr st) i); [|auto]. destruct (io_split off i0) as [[a o]|]; cbn; auto.
  - destruct (nth_error (v_wr st) i); cbn; auto.
Qed.
