(* The fragments of the per-operation refinement proved on [teq] (file identities included), as one statement. *)
From Coq Require Import List String Arith NArith Bool Lia.
From FB Require Import Model.Overlay Proofs.OverlayInv Proofs.OverlayScan Proofs.OverlayRestart
  Proofs.OverlayReadOnly Proofs.OverlayCoh Proofs.OverlayCohView Proofs.OverlayCopyUp Proofs.OverlayCohOps
  Proofs.OverlayCohSteps Proofs.OverlayRefineTeq Proofs.OverlayRefineMerge Proofs.OverlayRefineRun Proofs.OverlayRefine
  Proofs.OverlayRefineWh Proofs.OverlayRefineCu Proofs.OverlayRefineLink Proofs.OverlayRefineRmdir Proofs.OverlayRefineCuFile Proofs.OverlayRefineDirAttr Proofs.OverlayRefineCuRm
  Proofs.OverlayRefineFail Proofs.OverlayRefineRead Proofs.OverlayRefineFail2 Proofs.OverlayRefineRerun Proofs.OverlayRefineDirAttr2
  Proofs.OverlayRefineRmdirLow Proofs.OverlayRefineCuWh Proofs.OverlayRefineSymlink Proofs.OverlayRefineLinkCu.
Import ListNotations.

(* no copy-up (Stage 1), whiteout cases (Stage 2), creation below a directory that is copied up first (Stage 3), link,
   rmdir of a merged directory that is empty in the view, attribute changes of upper directories,
   unlink below a directory that is copied up first *)
Definition refinable0 (s : state) (o : op) : bool :=
  direct s o || direct_wh s o || direct_cu s o || direct_link s o || direct_rmdir_merged s o || direct_dattr s o || direct_cu_rm s o.
(* ... attribute changes of the root and of directories that are copied up first, rmdir of a lower-only directory whose entries
   are hidden by lower whiteouts, creation over a whiteout and rmdir below a directory that is copied up first, operations on
   symlinks that only lower layers hold and link below a directory that is copied up first; the read-only operations; the
   failing operations (invisible path, existing target, rmdir of a non-directory / non-empty directory, non-directory parent,
   link on a directory, unlink of a directory, rename) *)
Definition refinable1 (s : state) (o : op) : bool :=
  direct_dattr_more s o || direct_rmdir_low s o || direct_cu_wh s o || direct_symlink s o || direct_link_cu s o.
Definition refinable2 (s : state) (o : op) : bool :=
  readable s o || invisible s o || exists_target s o || rmdir_fails s o || fails_more s o.
Definition refinable (s : state) (o : op) : bool := refinable0 s o || refinable1 s o || refinable2 s o.

Theorem op_refines_fragments s o v : Coherent s -> refinable s o = true -> view (load_all s) = Some v -> refines_at s o v.
Proof.
  intros HC H Hv. unfold refinable in H. apply orb_prop in H. destruct H as [H|H]; [apply orb_prop in H; destruct H as [H|H]|].
  - unfold refinable0 in H. apply orb_prop in H. destruct H as [H|H]; [|apply op_refines_unlink_cu; assumption].
    apply orb_prop in H. destruct H as [H|H]; [|apply op_refines_dattr; assumption].
    apply orb_prop in H. destruct H as [H|H]; [|apply op_refines_rmdir_merged; assumption].
    apply orb_prop in H. destruct H as [H|H]; [|apply op_refines_link; assumption].
    apply orb_prop in H. destruct H as [H|H]; [|apply op_refines_copyup; assumption].
    apply orb_prop in H. destruct H as [H|H]; [apply op_refines_direct; assumption|apply op_refines_whiteout; assumption].
  - unfold refinable1 in H. apply orb_prop in H. destruct H as [H|H]; [|apply op_refines_link_cu; assumption].
    apply orb_prop in H. destruct H as [H|H]; [|apply op_refines_symlink; assumption].
    apply orb_prop in H. destruct H as [H|H]; [|apply op_refines_cu_wh; assumption].
    apply orb_prop in H. destruct H as [H|H]; [apply op_refines_dattr_more; assumption|apply op_refines_rmdir_low; assumption].
  - unfold refinable2 in H. apply orb_prop in H. destruct H as [H|H]; [|exact (proj1 (op_refines_fails_more s o v HC H Hv))].
    apply orb_prop in H. destruct H as [H|H]; [|exact (proj1 (op_refines_rmdir_fails s o v HC H Hv))].
    apply orb_prop in H. destruct H as [H|H]; [|exact (proj1 (op_refines_eexist s o v HC H Hv))].
    apply orb_prop in H. destruct H as [H|H]; [exact (proj1 (op_refines_readable s o v HC H Hv))|exact (proj1 (op_refines_enoent s o v HC H Hv))].
Qed.
(* in the form of [op_refines] (the body of C10_op_refines_full), after any history over [coh_op] from any well-formed layers *)
Theorem op_refines_fragments_history u ls nx ops o : Forall layer_ok (u :: ls) -> coh_history ops = true ->
  refinable (run_dumps ops (load_all (fresh (Some u) ls nx))) o = true -> op_refines (Some u) ls nx ops o.
Proof.
  intros Hok Hh Hd. unfold op_refines. cbv zeta. set (s := run_dumps ops (load_all (fresh (Some u) ls nx))) in *.
  assert (HC : Coherent (load_all s)).
  { apply load_all_coherent. apply coherent_history; [exact Hh|]. apply load_all_coherent. apply fresh_coherent. exact Hok. }
  destruct (view (load_all s)) as [v|] eqn:Hv; [|exact I].
  assert (Hv' : view (load_all (load_all s)) = Some v).
  { rewrite <- Hv. apply (view_load_all_vs s (root (load_all s))); try reflexivity.
    unfold load_all. cbn [root]. apply load_node_vs. }
  assert (Hd' : refinable (load_all s) o = true) by exact Hd.
  destruct (op_refines_fragments (load_all s) o v HC Hd' Hv') as (R & T & _).
  split; [exact R|]. change (ser SER ?t) with (ser_opt (Some t)). apply oteq_ser. exact T.
Qed.
