(* C03: universal round trips, one per filesystem result kind.
   For ALL values: the reply bytes the model's encoders produce are accepted by the
   kernel-side decoder [reply_ok] of Spec/Replies.v (which reads fields by NAME through the
   kernel struct tables). *)
From Coq Require Import List String NArith Bool Lia Arith.
From FB Require Import Lib.Bytes Lib.Layout Spec.KernelABI Model.Server Model.ServerCmp Spec.Requests Spec.Replies
  Proofs.EncLemmas Proofs.ServerPerform Proofs.ServerReply Proofs.ServerDecide.
Import ListNotations.
Local Open Scope string_scope.
Local Open Scope list_scope.
Local Open Scope N_scope.

(* ------------------------------------------------------------------ kget by location *)
Definition kloc (s path : string) : option (nat * nat) :=
  match struct_leaves kernel_structs s with
  | None => None
  | Some ls =>
    match find (fun l => String.eqb (l_path l) path) ls with
    | None => None
    | Some l => Some (N.to_nat (l_off l), N.to_nat (l_width l))
    end
  end.

Lemma kget_loc s path base b off w :
  kloc s path = Some (off, w) -> kget s path base b = dec (firstn w (skipn (base + off) b)).
Proof.
  unfold kloc, kget. destruct (struct_leaves kernel_structs s) as [ls|]; [|discriminate].
  destruct (find _ ls) as [l|]; [|discriminate].
  intro H; inversion H; subst. reflexivity.
Qed.

(* field [path] of struct [s] at [base], when the bytes are: [base] bytes of anything, then a
   block of encoded fields, then anything *)
Lemma kget_field s path pre fs rest base off w v :
  kloc s path = Some (off, w) -> List.length pre = base -> fget fs off = Some (w, v) ->
  kget s path base (pre ++ encf fs ++ rest) = v mod 2 ^ (8 * N.of_nat w).
Proof.
  intros Hk Hp Hf. rewrite (kget_loc _ _ _ _ _ _ Hk). apply fget_ok; assumption.
Qed.

Lemma kget_field0 s path fs rest off w v :
  kloc s path = Some (off, w) -> fget fs off = Some (w, v) ->
  kget s path O (encf fs ++ rest) = v mod 2 ^ (8 * N.of_nat w).
Proof. intros Hk Hf. apply (kget_field s path [] fs rest O off w v Hk eq_refl Hf). Qed.

Lemma ksize_entry_out : ksize "fuse_entry_out" = 128%nat. Proof. vm_compute. reflexivity. Qed.
Lemma ksize_attr_out : ksize "fuse_attr_out" = 104%nat. Proof. vm_compute. reflexivity. Qed.
Lemma ksize_statfs_out : ksize "fuse_statfs_out" = 80%nat. Proof. vm_compute. reflexivity. Qed.

Global Opaque kget ksize.

(* ------------------------------------------------------------------ the encoders as field lists *)
Definition attr_fields (s : stat) (flags : N) : list (nat * N) :=
  [(8%nat, st_ino s); (8%nat, st_size s); (8%nat, st_blocks s); (8%nat, st_atime s); (8%nat, st_mtime s); (8%nat, st_ctime s);
   (4%nat, st_atime_nsec s); (4%nat, st_mtime_nsec s); (4%nat, st_ctime_nsec s); (4%nat, st_mode s); (4%nat, st_nlink s);
   (4%nat, st_uid s); (4%nat, st_gid s); (4%nat, st_rdev s); (4%nat, st_blksize s); (4%nat, flags)].

Definition entry_fields (e : entry) (flags : N) : list (nat * N) :=
  [(8%nat, e_inode e); (8%nat, e_generation e); (8%nat, e_entry_secs e); (8%nat, e_attr_secs e);
   (4%nat, e_entry_nsecs e); (4%nat, e_attr_nsecs e);
   (8%nat, st_ino (e_attr e)); (8%nat, st_size (e_attr e)); (8%nat, st_blocks (e_attr e)); (8%nat, st_atime (e_attr e));
   (8%nat, st_mtime (e_attr e)); (8%nat, st_ctime (e_attr e));
   (4%nat, st_atime_nsec (e_attr e)); (4%nat, st_mtime_nsec (e_attr e)); (4%nat, st_ctime_nsec (e_attr e));
   (4%nat, st_mode (e_attr e)); (4%nat, st_nlink (e_attr e));
   (4%nat, st_uid (e_attr e)); (4%nat, st_gid (e_attr e)); (4%nat, st_rdev (e_attr e)); (4%nat, st_blksize (e_attr e));
   (4%nat, flags)].

Definition attr_out_fields (st : stat) (secs nsecs : N) : list (nat * N) :=
  [(8%nat, secs); (4%nat, nsecs); (4%nat, 0);
   (8%nat, st_ino st); (8%nat, st_size st); (8%nat, st_blocks st); (8%nat, st_atime st); (8%nat, st_mtime st); (8%nat, st_ctime st);
   (4%nat, st_atime_nsec st); (4%nat, st_mtime_nsec st); (4%nat, st_ctime_nsec st); (4%nat, st_mode st); (4%nat, st_nlink st);
   (4%nat, st_uid st); (4%nat, st_gid st); (4%nat, st_rdev st); (4%nat, st_blksize st); (4%nat, 0)].

Definition open_fields (fh : option N) (opts : N) (pt : option N) : list (nat * N) :=
  [(8%nat, opt0 fh); (4%nat, opts); (4%nat, opt0 pt)].

Definition statfs_fields (s : statvfs) : list (nat * N) :=
  [(8%nat, f_blocks s); (8%nat, f_bfree s); (8%nat, f_bavail s); (8%nat, f_files s); (8%nat, f_ffree s);
   (4%nat, f_bsize s); (4%nat, f_namemax s); (4%nat, f_frsize s); (4%nat, 0); (24%nat, 0)].

Definition flock_fields (l : flock) : list (nat * N) :=
  [(8%nat, lk_start l); (8%nat, lk_end l); (4%nat, lk_type l); (4%nat, lk_pid l)].

Ltac fields_eq := cbn [encf flat_map fst snd]; rewrite <- ?app_assoc; rewrite ?app_nil_r; reflexivity.

Lemma entry_out_fields e fl : entry_out e fl = encf (entry_fields e fl).
Proof. unfold entry_out, attr_bytes, entry_fields. fields_eq. Qed.
Lemma attr_out_fields_eq st s n : attr_out st s n = encf (attr_out_fields st s n).
Proof. unfold attr_out, attr_bytes, attr_out_fields. fields_eq. Qed.
Lemma open_out_fields fh o pt : open_out fh o pt = encf (open_fields fh o pt).
Proof. unfold open_out, open_fields. fields_eq. Qed.
Lemma kstatfs_fields s : kstatfs_bytes s = encf (statfs_fields s).
Proof. unfold kstatfs_bytes, statfs_fields. fields_eq. Qed.
Lemma flock_fields_eq l : flock_bytes l = encf (flock_fields l).
Proof. unfold flock_bytes, flock_fields. fields_eq. Qed.

Lemma entry_out_length e fl : List.length (entry_out e fl) = 128%nat.
Proof. rewrite entry_out_fields, encf_length. reflexivity. Qed.
Lemma attr_out_length st s n : List.length (attr_out st s n) = 104%nat.
Proof. rewrite attr_out_fields_eq, encf_length. reflexivity. Qed.
Lemma open_out_length fh o pt : List.length (open_out fh o pt) = 16%nat.
Proof. rewrite open_out_fields, encf_length. reflexivity. Qed.
Lemma kstatfs_length s : List.length (kstatfs_bytes s) = 80%nat.
Proof. rewrite kstatfs_fields, encf_length. reflexivity. Qed.
Lemma flock_length l : List.length (flock_bytes l) = 24%nat.
Proof. rewrite flock_fields_eq, encf_length. reflexivity. Qed.

(* ------------------------------------------------------------------ the field-reading tactic *)
(* rewrites one [kget s p base (pre ++ encf fs ++ rest)] (or [kget s p O (encf fs ++ rest)]) into
   [v mod 2^(8w)], computing the location from the kernel table and the value from [fs] *)
Ltac fget_eval fs off :=
  eval cbv [fget entry_fields attr_fields attr_out_fields open_fields statfs_fields flock_fields
            Nat.eqb Nat.ltb Nat.leb Nat.sub] in (fget fs off).

Ltac kget_step lenlemma :=
  match goal with
  | |- context [kget ?s ?p O (encf ?fs ++ ?rest)] =>
    let loc := eval vm_compute in (kloc s p) in
    lazymatch loc with
    | Some (?off, ?w) =>
      let fv := fget_eval fs off in
      lazymatch fv with
      | Some (_, ?v) =>
        rewrite (kget_field0 s p fs rest off w v ltac:(vm_compute; reflexivity) ltac:(reflexivity))
      end
    end
  | |- context [kget ?s ?p ?base (?pre ++ encf ?fs ++ ?rest)] =>
    let loc := eval vm_compute in (kloc s p) in
    lazymatch loc with
    | Some (?off, ?w) =>
      let fv := fget_eval fs off in
      lazymatch fv with
      | Some (_, ?v) =>
        rewrite (kget_field s p pre fs rest base off w v ltac:(vm_compute; reflexivity)
                   ltac:(first [reflexivity | apply lenlemma]) ltac:(reflexivity))
      end
    end
  end.

Ltac finish_fields :=
  unfold m64, m32; rewrite ?pow2_8, ?pow2_4; rewrite ?N.eqb_refl; reflexivity.

(* ------------------------------------------------------------------ struct-level decoders *)
Lemma entry_is_ok e rest : entry_is O (entry_out e (e_attr_flags e) ++ rest) e = true.
Proof.
  rewrite entry_out_fields. cbv beta zeta delta [entry_is attr_is].
  repeat kget_step entry_out_length. finish_fields.
Qed.

Lemma attr_out_is_ok st s n rest :
  let b := attr_out st s n ++ rest in
  (kget "fuse_attr_out" "attr_valid" O b =? m64 s) && (kget "fuse_attr_out" "attr_valid_nsec" O b =? m32 n) &&
  attr_is "fuse_attr_out" "attr." O b st 0 = true.
Proof.
  rewrite attr_out_fields_eq. cbv beta zeta delta [attr_is].
  repeat kget_step entry_out_length. finish_fields.
Qed.

Lemma open_is_ok pre base fh o pt rest :
  List.length pre = base -> open_is base (pre ++ open_out fh o pt ++ rest) fh o pt = true.
Proof.
  intro Hp. rewrite open_out_fields. cbv beta zeta delta [open_is].
  repeat kget_step Hp. finish_fields.
Qed.

Lemma open_is_ok0 fh o pt rest : open_is O (open_out fh o pt ++ rest) fh o pt = true.
Proof. apply (open_is_ok [] O fh o pt rest eq_refl). Qed.

Lemma bytes_eqb_refl b : bytes_eqb b b = true.
Proof. induction b as [|x b IH]; cbn [bytes_eqb]; [reflexivity|]. rewrite N.eqb_refl. exact IH. Qed.

(* ------------------------------------------------------------------ messages *)
Definition ok_msg (u : N) (b : bytes) : bytes := out_header (16 + blen b) 0 u ++ b.
Definition err_msg (u e : N) : bytes := out_header 16 (neg32 e) u.

Definition okhdr (u : N) (r : bytes) : bool :=
  (hdr_len r =? blen r) && (hdr_unique r =? u) && (hdr_err r =? 0).

Lemma body_ok_msg u b : body (ok_msg u b) = b.
Proof. unfold body, ok_msg. apply drop_app_exact. apply out_header_length. Qed.

Lemma okhdr_ok_msg u b : u < 2 ^ 64 -> 16 + blen b < 2 ^ 32 -> okhdr u (ok_msg u b) = true.
Proof.
  intros Hu Hb. unfold okhdr, hdr_len, hdr_unique, hdr_err, ok_msg.
  rewrite hdr_len_field, hdr_unique_field, hdr_err_field, blen_app, out_header_len.
  rewrite (N.mod_small _ _ Hb), (N.mod_small _ _ Hu). change (0 mod 2 ^ 32) with 0.
  rewrite !N.eqb_refl. reflexivity.
Qed.

Lemma neg32_lt e : neg32 e < 2 ^ 32.
Proof. unfold neg32. change 4294967296 with (2 ^ 32). apply N.mod_lt. discriminate. Qed.

Lemma err_msg_fields u e : u < 2 ^ 64 ->
  hdr_len (err_msg u e) = 16 /\ blen (err_msg u e) = 16 /\ hdr_unique (err_msg u e) = u /\
  hdr_err (err_msg u e) = neg32 e.
Proof.
  intro Hu. unfold hdr_len, hdr_unique, hdr_err, err_msg.
  rewrite <- (app_nil_r (out_header 16 (neg32 e) u)).
  rewrite hdr_len_field, hdr_unique_field, hdr_err_field, blen_app, out_header_len.
  rewrite (N.mod_small _ _ Hu), (N.mod_small _ _ (neg32_lt e)). repeat split.
Qed.

Lemma is_error_reply_err_msg u e : u < 2 ^ 64 -> is_error_reply (err_msg u e) u e = true.
Proof.
  intro Hu. destruct (err_msg_fields u e Hu) as [H1 [H2 [H3 H4]]].
  unfold is_error_reply. rewrite H1, H2, H3, H4, !N.eqb_refl. reflexivity.
Qed.

Lemma neg32_neg32 e : 1 <= e <= 4095 -> neg32 (neg32 e) = e.
Proof.
  intro H.
  assert (H1 : neg32 e = 2 ^ 32 - e).
  { unfold neg32. change 4294967296 with (2 ^ 32). rewrite (N.mod_small e) by lia. apply N.mod_small. lia. }
  rewrite H1. unfold neg32. change 4294967296 with (2 ^ 32).
  rewrite (N.mod_small (2 ^ 32 - e)) by lia.
  replace (2 ^ 32 - (2 ^ 32 - e)) with e by lia. apply N.mod_small. lia.
Qed.

(* ------------------------------------------------------------------ round trip per result kind *)
Section RoundTrip.
  Variable q : wfreq.
  Variable minor : N.
  Hypothesis Hu : q_unique q < 2 ^ 64.
  Let u := q_unique q.

  Ltac start :=
    cbv beta iota zeta delta [reply_ok]; fold u;
    rewrite ?body_ok_msg.

  Ltac hdr_ok := change ((hdr_len ?r =? blen ?r) && (hdr_unique ?r =? ?v) && (hdr_err ?r =? 0)) with (okhdr v r).

  (* errors *)
  Lemma rt_err_os n : reply_ok q minor (FErr (Os n)) (err_msg u n) = true.
  Proof. start. apply is_error_reply_err_msg. exact Hu. Qed.

  Lemma rt_err_kind k : reply_ok q minor (FErr (Kind k)) (err_msg u (encode_io_error_kind k)) = true.
  Proof.
    start. replace (kind_errno k) with (encode_io_error_kind k).
    - apply is_error_reply_err_msg. exact Hu.
    - destruct k as [|p]; [reflexivity|]. do 3 (destruct p as [p|p|]; try reflexivity).
  Qed.

  Lemma rt_err e : reply_ok q minor (FErr e) (err_msg u (errno_of e)) = true.
  Proof. destruct e as [n|k]; [apply rt_err_os|apply rt_err_kind]. Qed.

  Lemma rt_unit : reply_ok q minor FUnit (ok_msg u []) = true.
  Proof.
    start. fold (okhdr u (ok_msg u [])). rewrite okhdr_ok_msg by (cbn; lia || exact Hu). reflexivity.
  Qed.

  Lemma rt_entry e :
    (q_op q =? 1) && (minor <? 4) && (e_inode e =? 0) = false ->
    reply_ok q minor (FEntry e) (ok_msg u (entry_out e (e_attr_flags e))) = true.
  Proof.
    intro Hc. start. rewrite Hc. fold (okhdr u (ok_msg u (entry_out e (e_attr_flags e)))).
    rewrite okhdr_ok_msg; [|exact Hu|unfold blen; rewrite entry_out_length; cbn; lia].
    rewrite ksize_entry_out. unfold blen at 1. rewrite entry_out_length. cbn [andb N.of_nat].
    rewrite <- (app_nil_r (entry_out _ _)). rewrite entry_is_ok. reflexivity.
  Qed.

  Lemma rt_entry_enoent e :
    (q_op q =? 1) && (minor <? 4) && (e_inode e =? 0) = true ->
    reply_ok q minor (FEntry e) (err_msg u ENOENT) = true.
  Proof. intro Hc. start. rewrite Hc. apply is_error_reply_err_msg. exact Hu. Qed.

  Lemma rt_attr st s n : reply_ok q minor (FAttr st s n) (ok_msg u (attr_out st s n)) = true.
  Proof.
    start. fold (okhdr u (ok_msg u (attr_out st s n))).
    rewrite okhdr_ok_msg; [|exact Hu|unfold blen; rewrite attr_out_length; cbn; lia].
    rewrite ksize_attr_out. unfold blen at 1. rewrite attr_out_length. cbn [andb N.of_nat].
    pose proof (attr_out_is_ok st s n []) as H. cbv zeta in H. rewrite app_nil_r in H.
    change (Pos.of_succ_nat 103) with 104%positive. rewrite N.eqb_refl. cbn [andb].
    rewrite <- !andb_assoc in *. exact H.
  Qed.

  Lemma rt_bytes v : 16 + blen v < 2 ^ 32 -> reply_ok q minor (FBytes v) (ok_msg u v) = true.
  Proof.
    intro Hl. start. fold (okhdr u (ok_msg u v)). rewrite okhdr_ok_msg by assumption.
    apply bytes_eqb_refl.
  Qed.

  Lemma rt_read d : 16 + blen d < 2 ^ 32 -> reply_ok q minor (FRead d) (ok_msg u d) = true.
  Proof.
    intro Hl. start. fold (okhdr u (ok_msg u d)). rewrite okhdr_ok_msg by assumption.
    apply bytes_eqb_refl.
  Qed.

  (* write count and xattr size query: the same 8 bytes satisfy both decoders *)
  Lemma rt_count n : reply_ok q minor (FCount n) (ok_msg u (enc 4 n ++ enc 4 0)) = true.
  Proof.
    start. fold (okhdr u (ok_msg u (enc 4 n ++ enc 4 0))).
    rewrite okhdr_ok_msg; [|exact Hu|rewrite blen_app, !blen_enc; cbn; lia].
    rewrite blen_app, !blen_enc. cbn [andb].
    change (enc 4 n ++ enc 4 0) with (encf [(4%nat, n); (4%nat, 0)]).
    rewrite <- (app_nil_r (encf _)).
    destruct (q_op q =? 16); repeat kget_step entry_out_length; finish_fields.
  Qed.

  Lemma rt_open fh o pt :
    (q_op q =? 27) = false -> reply_ok q minor (FOpen fh o pt) (ok_msg u (open_out fh o pt)) = true.
  Proof.
    intro Hop. start. rewrite Hop. fold (okhdr u (ok_msg u (open_out fh o pt))).
    rewrite okhdr_ok_msg; [|exact Hu|unfold blen; rewrite open_out_length; cbn; lia].
    unfold blen at 1. rewrite open_out_length. cbn [andb N.of_nat].
    rewrite <- (app_nil_r (open_out _ _ _)). rewrite open_is_ok0. reflexivity.
  Qed.

  (* opendir: the passthrough value of the filesystem's answer is never sent *)
  Lemma rt_opendir fh o pt :
    (q_op q =? 27) = true -> reply_ok q minor (FOpen fh o pt) (ok_msg u (open_out fh o None)) = true.
  Proof.
    intro Hop. start. rewrite Hop. fold (okhdr u (ok_msg u (open_out fh o None))).
    rewrite okhdr_ok_msg; [|exact Hu|unfold blen; rewrite open_out_length; cbn; lia].
    unfold blen at 1. rewrite open_out_length. cbn [andb N.of_nat].
    rewrite <- (app_nil_r (open_out _ _ _)). rewrite open_is_ok0. reflexivity.
  Qed.

  Lemma rt_create e fh o pt :
    reply_ok q minor (FCreate e fh o pt) (ok_msg u (entry_out e (e_attr_flags e) ++ open_out fh o pt)) = true.
  Proof.
    start. fold (okhdr u (ok_msg u (entry_out e (e_attr_flags e) ++ open_out fh o pt))).
    rewrite okhdr_ok_msg;
      [|exact Hu|unfold blen; rewrite app_length, entry_out_length, open_out_length; cbn; lia].
    rewrite ksize_entry_out. unfold blen at 1. rewrite app_length, entry_out_length, open_out_length.
    cbn [andb N.of_nat Nat.add]. rewrite entry_is_ok.
    rewrite <- (app_nil_r (open_out _ _ _)).
    rewrite (open_is_ok (entry_out e (e_attr_flags e)) 128%nat fh o pt [] (entry_out_length _ _)). reflexivity.
  Qed.

  Lemma rt_statfs s : reply_ok q minor (FStatfs s) (ok_msg u (kstatfs_bytes s)) = true.
  Proof.
    start. fold (okhdr u (ok_msg u (kstatfs_bytes s))).
    rewrite okhdr_ok_msg; [|exact Hu|unfold blen; rewrite kstatfs_length; cbn; lia].
    rewrite ksize_statfs_out. unfold blen at 1. rewrite kstatfs_length. cbn [andb N.of_nat].
    rewrite kstatfs_fields. rewrite <- (app_nil_r (encf _)).
    repeat kget_step entry_out_length. finish_fields.
  Qed.

  Lemma rt_lock l : reply_ok q minor (FLock l) (ok_msg u (flock_bytes l)) = true.
  Proof.
    start. fold (okhdr u (ok_msg u (flock_bytes l))).
    rewrite okhdr_ok_msg; [|exact Hu|unfold blen; rewrite flock_length; cbn; lia].
    unfold blen at 1. rewrite flock_length. cbn [andb N.of_nat].
    rewrite flock_fields_eq. rewrite <- (app_nil_r (encf _)).
    repeat kget_step entry_out_length. finish_fields.
  Qed.

  Lemma rt_ioctl res d :
    32 + blen d < 2 ^ 32 -> reply_ok q minor (FIoctl res d) (ok_msg u (enc 4 res ++ enc 12 0 ++ d)) = true.
  Proof.
    intro Hl. start. fold (okhdr u (ok_msg u (enc 4 res ++ enc 12 0 ++ d))).
    rewrite okhdr_ok_msg;
      [|exact Hu|rewrite !blen_app, !blen_enc; change (N.of_nat 4) with 4; change (N.of_nat 12) with 12; lia].
    cbn [andb].
    change (enc 4 res ++ enc 12 0 ++ d) with (encf [(4%nat, res); (12%nat, 0)] ++ d).
    pose proof (skipn_fields [] [(4%nat, res); (12%nat, 0)] d 16 eq_refl) as Hs. cbn [app] in Hs. rewrite Hs.
    repeat kget_step entry_out_length. rewrite bytes_eqb_refl. finish_fields.
  Qed.

  Lemma rt_num8 n : (q_op q =? 40) = false ->
    reply_ok q minor (FNum n) (ok_msg u (enc 8 n)) = true.
  Proof.
    intro Hop. start. rewrite Hop. fold (okhdr u (ok_msg u (enc 8 n))).
    rewrite okhdr_ok_msg; [|exact Hu|rewrite blen_enc; cbn; lia].
    rewrite blen_enc. cbn [andb].
    change (enc 8 n) with (encf [(8%nat, n)]).
    rewrite <- (app_nil_r (encf _)).
    destruct (q_op q =? 37); repeat kget_step entry_out_length; finish_fields.
  Qed.

  Lemma rt_poll n : (q_op q =? 40) = true ->
    reply_ok q minor (FNum n) (ok_msg u (enc 4 n ++ enc 4 0)) = true.
  Proof.
    intro Hop. start. rewrite Hop.
    assert (H37 : (q_op q =? 37) = false).
    { apply N.eqb_eq in Hop. rewrite Hop. reflexivity. }
    rewrite H37. fold (okhdr u (ok_msg u (enc 4 n ++ enc 4 0))).
    rewrite okhdr_ok_msg; [|exact Hu|rewrite blen_app, !blen_enc; cbn; lia].
    rewrite blen_app, !blen_enc. cbn [andb].
    change (enc 4 n ++ enc 4 0) with (encf [(4%nat, n); (4%nat, 0)]).
    rewrite <- (app_nil_r (encf _)).
    repeat kget_step entry_out_length. finish_fields.
  Qed.
End RoundTrip.
