(* Proofs/ReaddirScan.v -- C16: the linear-scan fallback of do_readdir returns the records that
   follow the requested cookie (when every record it has to walk over fits the buffer). *)
From Coq Require Import List NArith Bool Lia ZifyBool ZifyNat ZifyN Arith.
From FB Require Import Model.Readdir Proofs.Readdir.
Import ListNotations.
Local Open Scope N_scope.

Lemma skip_none b c : ~ In c (map h_off b) -> skip_to_cookie b c = None.
Proof.
  induction b as [|x b IH]; [reflexivity|]. cbn [map In skip_to_cookie]. intros Hn.
  destruct (h_off x =? c) eqn:E; [exfalso; apply Hn; left; lia|]. apply IH. tauto.
Qed.

Lemma skip_found r1 e t c :
  ~ In c (map h_off r1) -> h_off e = c -> skip_to_cookie (r1 ++ e :: t) c = Some t.
Proof.
  intros Hn He. induction r1 as [|x r1 IH]; cbn [app skip_to_cookie].
  - rewrite He, N.eqb_refl. reflexivity.
  - cbn [map In] in Hn. destruct (h_off x =? c) eqn:E; [exfalso; apply Hn; left; lia|]. apply IH. tauto.
Qed.

Definition all_fit (size : N) (l : list hent) : Prop := forall x, In x l -> host_reclen x <= size.

Lemma getdents_all_fit rest size :
  all_fit size rest -> exists bb s, getdents_l rest size = ROk bb /\ rest = bb ++ s /\ (rest <> [] -> bb <> []).
Proof.
  intros Hf. assert (Hfit : match rest with e :: _ => host_reclen e <= size | [] => True end).
  { destruct rest; [exact I|]. apply Hf. left. reflexivity. }
  destruct (take_fit_prefix host_reclen rest size) as [s Hs].
  exists (take_fit host_reclen size rest), s. split; [apply getdents_fits; exact Hfit|]. split; [exact Hs|].
  intros Hne. apply (getdents_nonempty rest size); [apply getdents_fits; exact Hfit|exact Hne].
Qed.

(* after the cookie has been consumed as the last record of a batch: the next batch is the reply *)
Lemma scan_after_found fuel r2 size c consumed :
  all_fit size r2 ->
  exists b s, scan (S fuel) r2 size c true consumed = (ROk b, (consumed + length b)%nat) /\
              r2 = b ++ s /\ (r2 <> [] -> b <> []).
Proof.
  intros Hf. destruct (getdents_all_fit _ _ Hf) as (bb & s & Hg & Hs & Hne).
  exists bb, s. cbn [scan]. rewrite Hg. destruct bb as [|b0 bt]; [|auto].
  rewrite Nat.add_0_r. auto.
Qed.

Theorem scan_found : forall fuel (pre r1 : list hent) e r2 size c,
  (length (r1 ++ e :: r2) < fuel)%nat ->
  h_off e = c -> ~ In c (map h_off r1) ->
  all_fit size (r1 ++ e :: r2) ->
  exists b s, scan fuel (r1 ++ e :: r2) size c false (length pre)
              = (ROk b, (length pre + length r1 + 1 + length b)%nat) /\
              r2 = b ++ s /\ (r2 <> [] -> b <> []).
Proof.
  induction fuel as [|f IH]; intros pre r1 e r2 size c Hlen He Hn Hf; [lia|].
  destruct (getdents_all_fit _ _ Hf) as (bb & s' & Hg & Hs & Hne).
  assert (Hbb : bb <> []) by (apply Hne; destruct r1; discriminate).
  cbn [scan]. rewrite Hg.
  destruct bb as [|b0 bt] eqn:Ebb; [congruence|]. rewrite <- Ebb in *. clear Ebb.
  assert (Hskip : skipn (length bb) (r1 ++ e :: r2) = s').
  { rewrite Hs, skipn_app, skipn_all, Nat.sub_diag. reflexivity. }
  symmetry in Hs. apply app_eq_app in Hs. destruct Hs as [l [[Hb Hr]|[Hr Hb]]].
  - (* the batch reaches the cookie: bb = r1 ++ l *)
    destruct l as [|e' t].
    + (* batch = r1 exactly: cookie not in it, continue with e :: r2 *)
      rewrite app_nil_r in Hb. subst bb. cbn [app] in Hr. subst s'.
      rewrite (skip_none _ _ Hn), Hskip.
      assert (Hlen' : (length ([] ++ e :: r2) < f)%nat).
      { rewrite app_length in Hlen. cbn [app length] in *. destruct r1; [congruence|cbn [length] in Hlen; lia]. }
      assert (Hf' : all_fit size ([] ++ e :: r2)) by (intros x Hx; apply Hf; apply in_or_app; right; exact Hx).
      destruct (IH (pre ++ r1) [] e r2 size c Hlen' He (fun H => H) Hf') as (b & s & Hsc & Hr2 & Hne2).
      cbn [app] in Hsc. rewrite app_length in Hsc. exists b, s. rewrite Hsc. cbn [length]. split; [f_equal; lia|split; assumption].
    + cbn [app] in Hr. injection Hr as <- Hr2. subst bb.
      rewrite (skip_found _ _ _ _ Hn He).
      destruct t as [|t0 tt] eqn:Et.
      * (* cookie was the last record of the batch: fetch the next batch *)
        cbn [app] in Hr2. subst s'. rewrite Hskip.
        assert (Hf2 : all_fit size r2) by (intros x Hx; apply Hf; apply in_or_app; right; right; exact Hx).
        destruct f as [|f']; [rewrite app_length in Hlen; cbn [length] in Hlen; lia|].
        destruct (scan_after_found f' r2 size c (length pre + length (r1 ++ [e]))%nat Hf2) as (b & s & Hsc & Hr2 & Hne2).
        exists b, s. rewrite Hsc. rewrite app_length. cbn [length]. split; [f_equal; lia|split; assumption].
      * rewrite <- Et in *. exists t, s'. split; [|split; [exact Hr2|intros _; rewrite Et; discriminate]].
        f_equal. rewrite !app_length. cbn [length]. lia.
  - (* the batch stops before the cookie: r1 = bb ++ l *)
    subst r1 s'. rewrite map_app in Hn.
    assert (Hn1 : ~ In c (map h_off bb)) by (intros Hx; apply Hn; apply in_or_app; left; exact Hx).
    assert (Hn2 : ~ In c (map h_off l)) by (intros Hx; apply Hn; apply in_or_app; right; exact Hx).
    rewrite (skip_none _ _ Hn1), Hskip.
    assert (Hlen' : (length (l ++ e :: r2) < f)%nat).
    { rewrite <- app_assoc, app_length in Hlen. destruct bb; [congruence|cbn [length] in Hlen; lia]. }
    assert (Hf' : all_fit size (l ++ e :: r2)).
    { intros x Hx. apply Hf. rewrite <- app_assoc. apply in_or_app. right. exact Hx. }
    destruct (IH (pre ++ bb) l e r2 size c Hlen' He Hn2 Hf') as (b & s & Hsc & Hr2 & Hne2).
    rewrite app_length in Hsc. exists b, s. rewrite Hsc. split; [f_equal; rewrite app_length; lia|split; assumption].
Qed.
