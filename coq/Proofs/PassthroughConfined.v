(* C06: confinement of PassthroughFs (Model/Passthrough.v) to the inside set E, for every request.
   Inv: the host tree is closed on E, every inode of the inode map and every handle refers to E,
   only fuse inode 1 refers to the export root (so ".." of the root is always rewritten). *)
From Coq Require Import List NArith Bool Lia.
From FB Require Import Gen.Validators Model.Names Model.HostFs Model.Passthrough Proofs.HostFs.
Import ListNotations.
Local Open Scope N_scope.

Section Confined.
  Variable E0 : list N.
  Variable n0 : N.
  Variable root : N.

  Notation inE := (inE E0 n0).
  Notation closedE := (closedE E0 n0 root).
  Notation frameE := (frameE E0 n0).
  Notation conf := (conf E0 n0 root).

  Definition tables_ok (inodes : list (N * idata)) (idmap : list (N * N)) (next : N) (handles : list (N * hdata)) : Prop :=
    (forall f d, In (f, d) inodes -> inE (id_host d)) /\
    (forall f d, In (f, d) inodes -> id_host d = root -> f = ROOT_ID) /\
    (forall i f, In (i, f) idmap -> f = ROOT_ID -> i = root) /\
    2 <= next /\
    (forall k hd, In (k, hd) handles -> inE (hd_host hd)) /\
    (forall d, In (ROOT_ID, d) inodes -> id_host d = root) /\
    (exists d, In (ROOT_ID, d) inodes).

  Definition Inv (s : pstate) : Prop :=
    closedE (p_host s) /\ tables_ok (p_inodes s) (p_idmap s) (p_next_inode s) (p_handles s).

  (* s' is a confined successor of s *)
  Definition good (s s' : pstate) : Prop := Inv s' /\ frameE (p_host s) (p_host s').

  Lemma good_refl : forall s, Inv s -> good s s.
  Proof. intros s H. split; [exact H | apply frameE_refl]. Qed.
  Lemma good_trans : forall a b c, good a b -> good b c -> good a c.
  Proof. intros a b c [I1 F1] [I2 F2]. split; [exact I2 | eapply frameE_trans; eassumption]. Qed.

  Lemma good_with_host : forall s h', Inv s -> conf (p_host s) h' -> good s (with_host s h').
  Proof. intros s h' [_ Ht] [Hc Hf]. split; [split; [exact Hc | exact Ht] | exact Hf]. Qed.

  Lemma assoc_In : forall A (l : list (N * A)) k v, assoc k l = Some v -> In (k, v) l.
  Proof.
    induction l as [|[k' v'] r IH]; intros k v H; cbn in H; [discriminate|].
    destruct (k' =? k) eqn:E.
    - apply N.eqb_eq in E. inversion H; subst. left. reflexivity.
    - right. apply IH. exact H.
  Qed.
  Lemma assoc_set_In : forall A (l : list (N * A)) k v k0 v0, In (k0, v0) (assoc_set k v l) -> (k0, v0) = (k, v) \/ In (k0, v0) l.
  Proof.
    induction l as [|[k' v'] r IH]; intros k v k0 v0 H; cbn in H.
    - destruct H as [H | []]. left. symmetry. exact H.
    - destruct (k' =? k).
      + destruct H as [H | H]; [left; symmetry; exact H | right; right; exact H].
      + destruct H as [H | H]; [right; left; exact H|].
        destruct (IH _ _ _ _ H) as [H1 | H1]; [left; exact H1 | right; right; exact H1].
  Qed.
  Lemma assoc_del_In : forall A (l : list (N * A)) k k0 v0, In (k0, v0) (assoc_del k l) -> In (k0, v0) l.
  Proof.
    induction l as [|[k' v'] r IH]; intros k k0 v0 H; cbn in H; [contradiction|].
    destruct (k' =? k); [right; exact H|].
    destruct H as [H | H]; [left; exact H | right; apply (IH _ _ _ H)].
  Qed.

  Lemma find_by_host_some : forall i l f d, find_by_host i l = Some (f, d) -> id_host d = i /\ In (f, d) l.
  Proof.
    induction l as [|[f0 d0] r IH]; intros f d H; cbn in H; [discriminate|].
    destruct (id_host d0 =? i) eqn:E.
    - inversion H; subst. apply N.eqb_eq in E. split; [exact E | left; reflexivity].
    - destruct (IH f d H) as [H1 H2]. split; [exact H1 | right; exact H2].
  Qed.
  Lemma find_by_host_none : forall i l, find_by_host i l = None -> forall f d, In (f, d) l -> id_host d <> i.
  Proof.
    induction l as [|[f0 d0] r IH]; intros H f d Hin; cbn in H; [contradiction|].
    destruct (id_host d0 =? i) eqn:E; [discriminate|].
    destruct Hin as [Hin | Hin]; [inversion Hin; subst; apply N.eqb_neq; exact E | apply (IH H f d Hin)].
  Qed.

  (* the name do_lookup hands to the kernel for the root is never ".." *)
  Lemma lookup_name_root_not_dotdot : forall n, is_dotdot (lookup_name true n) = false.
  Proof.
    intros n. unfold lookup_name. cbn [andb].
    destruct (starts_with (with_nul n) parent_dir_cstr) eqn:Hs; [reflexivity|].
    destruct (is_dotdot n) eqn:Hd; [|reflexivity].
    unfold is_dotdot in Hd. apply name_eqb_eq in Hd. subst n. discriminate Hs.
  Qed.

  Lemma In_assoc_set_other : forall A (l : list (N * A)) k v k0 v0, In (k0, v0) l -> k0 <> k -> In (k0, v0) (assoc_set k v l).
  Proof.
    induction l as [|[k' v'] r IH]; intros k v k0 v0 H Hne; cbn in *; [contradiction|].
    destruct (k' =? k) eqn:E.
    - apply N.eqb_eq in E. subst k'. destruct H as [H | H]; [inversion H; subst; congruence | right; exact H].
    - destruct H as [H | H]; [left; exact H | right; apply IH; assumption].
  Qed.
  Lemma In_assoc_set_same : forall A (l : list (N * A)) k v, In (k, v) (assoc_set k v l).
  Proof. intros. apply assoc_In. apply assoc_set_same. Qed.
  Lemma In_assoc_del_other : forall A (l : list (N * A)) k k0 v0, In (k0, v0) l -> k0 <> k -> In (k0, v0) (assoc_del k l).
  Proof.
    induction l as [|[k' v'] r IH]; intros k k0 v0 H Hne; cbn in *; [contradiction|].
    destruct (k' =? k) eqn:E.
    - apply N.eqb_eq in E. subst k'. destruct H as [H | H]; [inversion H; subst; congruence | exact H].
    - destruct H as [H | H]; [left; exact H | right; apply IH; assumption].
  Qed.

  Lemma stat_ino : forall h i a, stat h i = Ok a -> a_ino a = i.
  Proof. intros h i a H. unfold stat in H. destruct (get h i); [|discriminate]. inversion H; subst. reflexivity. Qed.

  Definition lookup_post (r : res (N * attr)) (s' : pstate) : Prop :=
    forall f a, r = Ok (f, a) -> inE (a_ino a) /\ exists d, In (f, d) (p_inodes s') /\ id_host d = a_ino a.

  Lemma do_lookup_good : forall s parent n r s', Inv s -> do_lookup s parent n = (r, s') ->
    good s s' /\ p_host s' = p_host s /\ p_creds s' = p_creds s /\ p_handles s' = p_handles s /\ lookup_post r s'.
  Proof.
    intros s parent n r s' HI H. unfold do_lookup in H.
    assert (Hno : forall e, (Err e, s) = (r, s') -> good s s' /\ p_host s' = p_host s /\ p_creds s' = p_creds s /\ p_handles s' = p_handles s /\ lookup_post r s').
    { intros e He. inversion He; subst. split; [apply good_refl; exact HI|]. split; [reflexivity|]. split; [reflexivity|]. split; [reflexivity|]. intros f1 a1 Hfa. discriminate. }
    destruct HI as [Hc [Hi1 [Hi2 [Hi3 [Hi4 [Hi5 [Hi6 Hi7]]]]]]].
    destruct (assoc parent (p_inodes s)) as [dir|] eqn:Hp; [|apply (Hno _ H)].
    pose proof (assoc_In _ _ _ _ Hp) as Hpin.
    destruct (lookup1 (p_creds s) (p_host s) (id_host dir) (lookup_name (parent =? ROOT_ID) n)) as [i|e] eqn:Hl; [|apply (Hno _ H)].
    assert (HiE : inE i).
    { eapply lookup1_inE; [exact Hc | apply (Hi1 _ _ Hpin) | | exact Hl].
      destruct (parent =? ROOT_ID) eqn:Hpr.
      - right. apply lookup_name_root_not_dotdot.
      - left. intros Heq. apply N.eqb_neq in Hpr. apply Hpr. apply (Hi2 _ _ Hpin Heq). }
    destruct (stat (p_host s) i) as [st|e] eqn:Hst; [|apply (Hno _ H)].
    pose proof (stat_ino _ _ _ Hst) as Hino.
    destruct (find_by_host i (p_inodes s)) as [[f d]|] eqn:Hf.
    - destruct (find_by_host_some _ _ _ _ Hf) as [Hdi Hdin]. inversion H; subst r s'. cbn.
      split; [|split; [reflexivity|]; split; [reflexivity|]; split; [reflexivity|]].
      + split; [|apply frameE_refl]. split; [exact Hc|]. cbn. repeat split; try assumption.
        * intros f0 d0 Hin. apply assoc_set_In in Hin. destruct Hin as [Hin | Hin]; [inversion Hin; subst; cbn; apply (Hi1 _ _ Hdin) | apply (Hi1 _ _ Hin)].
        * intros f0 d0 Hin Hr. apply assoc_set_In in Hin. destruct Hin as [Hin | Hin]; [inversion Hin; subst; cbn in Hr; apply (Hi2 _ _ Hdin Hr) | apply (Hi2 _ _ Hin Hr)].
        * intros d0 Hin. apply assoc_set_In in Hin. destruct Hin as [Hin | Hin]; [inversion Hin; subst; cbn; apply (Hi6 _ Hdin) | apply (Hi6 _ Hin)].
        * destruct Hi7 as [dr Hdr]. destruct (N.eq_dec ROOT_ID f) as [<-|Hne].
          -- eexists. apply In_assoc_set_same.
          -- exists dr. apply In_assoc_set_other; assumption.
      + intros f0 a0 Hfa. injection Hfa as <- <-. split; [rewrite Hino; exact HiE|].
        eexists. split; [apply In_assoc_set_same|]. cbn. rewrite Hino. exact Hdi.
    - pose proof (find_by_host_none _ _ Hf) as Hnone.
      assert (Hir : i <> root).
      { intros ->. destruct Hi7 as [dr Hdr]. apply (Hnone _ _ Hdr). apply (Hi6 _ Hdr). }
      destruct (assoc i (p_idmap s)) as [f|] eqn:Hm; inversion H; subst r s'; clear H; cbn.
      + assert (Hf1 : f <> ROOT_ID).
        { intros ->. apply Hir. apply (Hi3 _ _ (assoc_In _ _ _ _ Hm)). reflexivity. }
        split; [|split; [reflexivity|]; split; [reflexivity|]; split; [reflexivity|]].
        * split; [|apply frameE_refl]. split; [exact Hc|]. cbn. repeat split; try assumption.
          -- intros f0 d0 Hin. apply assoc_set_In in Hin. destruct Hin as [Hin | Hin]; [inversion Hin; subst; cbn; exact HiE | apply (Hi1 _ _ Hin)].
          -- intros f0 d0 Hin Hr. apply assoc_set_In in Hin. destruct Hin as [Hin | Hin]; [inversion Hin; subst; cbn in Hr; contradiction | apply (Hi2 _ _ Hin Hr)].
          -- intros d0 Hin. apply assoc_set_In in Hin. destruct Hin as [Hin | Hin]; [inversion Hin; congruence | apply (Hi6 _ Hin)].
          -- destruct Hi7 as [dr Hdr]. exists dr. apply In_assoc_set_other; [exact Hdr | intros Heq; apply Hf1; symmetry; exact Heq].
        * intros f0 a0 Hfa. injection Hfa as <- <-. split; [rewrite Hino; exact HiE|].
          eexists. split; [apply In_assoc_set_same|]. cbn. symmetry. exact Hino.
      + assert (Hf1 : p_next_inode s <> ROOT_ID) by (unfold ROOT_ID; lia).
        split; [|split; [reflexivity|]; split; [reflexivity|]; split; [reflexivity|]].
        * split; [|apply frameE_refl]. split; [exact Hc|]. cbn. repeat split; try assumption.
          -- intros f0 d0 Hin. apply assoc_set_In in Hin. destruct Hin as [Hin | Hin]; [inversion Hin; subst; cbn; exact HiE | apply (Hi1 _ _ Hin)].
          -- intros f0 d0 Hin Hr. apply assoc_set_In in Hin. destruct Hin as [Hin | Hin]; [inversion Hin; subst; cbn in Hr; contradiction | apply (Hi2 _ _ Hin Hr)].
          -- intros i0 f0 Hin Hr. apply assoc_set_In in Hin. destruct Hin as [Hin | Hin]; [inversion Hin; congruence | apply (Hi3 _ _ Hin Hr)].
          -- lia.
          -- intros d0 Hin. apply assoc_set_In in Hin. destruct Hin as [Hin | Hin]; [inversion Hin; congruence | apply (Hi6 _ Hin)].
          -- destruct Hi7 as [dr Hdr]. exists dr. apply In_assoc_set_other; [exact Hdr | intros Heq; apply Hf1; symmetry; exact Heq].
        * intros f0 a0 Hfa. injection Hfa as <- <-. split; [rewrite Hino; exact HiE|].
          eexists. split; [apply In_assoc_set_same|]. cbn. symmetry. exact Hino.
  Qed.

  Lemma eta_creds : forall s, with_creds_of s (p_creds s) = s.
  Proof. destruct s; reflexivity. Qed.

  Lemma with_creds_cases : forall A uid gid s (body : pstate -> res A * pstate) r s',
    with_creds uid gid s body = (r, s') ->
    (exists c, s' = with_creds_of s c /\ exists e, r = Err e) \/
    (exists c2 s1 c3, body (with_creds_of s c2) = (r, s1) /\ s' = with_creds_of s1 c3).
  Proof.
    intros A uid gid s body r s' H. unfold with_creds in H.
    destruct (if gid =? 0 then Ok (p_creds s) else sys_setresgid (p_creds s) gid) as [c1|e].
    - destruct (if uid =? 0 then Ok c1 else sys_setresuid c1 uid) as [c2|e].
      + destruct (body (with_creds_of s c2)) as [r0 s1] eqn:Hb. inversion H; subst. right. eauto.
      + inversion H; subst. left. eexists. split; [reflexivity | eauto].
    - inversion H; subst. left. exists (p_creds s'). split; [symmetry; apply eta_creds | eauto].
  Qed.

  Lemma with_killpriv_cases : forall A cond s (body : pstate -> A * pstate) r s',
    with_killpriv cond s body = (r, s') ->
    exists c1 s1 c2, body (with_creds_of s c1) = (r, s1) /\ s' = with_creds_of s1 c2.
  Proof.
    intros A cond s body r s' H. unfold with_killpriv in H. destruct (cond && fsetid (p_creds s)).
    - destruct (body (with_creds_of s (cap_drop_fsetid (p_creds s)))) as [r0 s1] eqn:Hb. inversion H; subst. eauto.
    - exists (p_creds s), s', (p_creds s'). rewrite eta_creds. split; [exact H | symmetry; apply eta_creds].
  Qed.

  (* Inv and good do not look at the credentials *)
  Lemma Inv_creds : forall s c, Inv (with_creds_of s c) <-> Inv s.
  Proof. intros s c. split; intros H; exact H. Qed.
  Lemma good_creds_l : forall s c s', good (with_creds_of s c) s' <-> good s s'.
  Proof. intros. split; intros H; exact H. Qed.
  Lemma good_creds_r : forall s c s', good s (with_creds_of s' c) <-> good s s'.
  Proof. intros. split; intros H; exact H. Qed.

  Lemma good_with_host_c : forall s c h', Inv s -> conf (p_host s) h' -> good s (with_host (with_creds_of s c) h').
  Proof. intros s c h' H H0. exact (good_with_host s h' H H0). Qed.

  Lemma inode_inE : forall s f d, Inv s -> assoc f (p_inodes s) = Some d -> inE (id_host d).
  Proof. intros s f d [_ [H1 _]] H. apply (H1 f d). apply assoc_In. exact H. Qed.
  Lemma handle_inE : forall s k i hd, Inv s -> handle_get s k i = Ok hd -> inE (hd_host hd).
  Proof.
    intros s k i hd [_ [_ [_ [_ [_ [H5 _]]]]]] H. unfold handle_get in H.
    destruct (assoc k (p_handles s)) as [hd'|] eqn:Ha; [|discriminate].
    destruct (hd_inode hd' =? i); [|discriminate]. inversion H; subst. apply (H5 k hd). apply assoc_In. exact Ha.
  Qed.

  Lemma forget_one_good : forall s i c, Inv s -> good s (forget_one s i c).
  Proof.
    intros s i c HI. unfold forget_one. destruct (i =? ROOT_ID) eqn:Hr; [apply good_refl; exact HI|].
    apply N.eqb_neq in Hr.
    destruct (assoc i (p_inodes s)) as [d|] eqn:Ha; [|apply good_refl; exact HI].
    pose proof (assoc_In _ _ _ _ Ha) as Hin.
    destruct HI as [Hc [Hi1 [Hi2 [Hi3 [Hi4 [Hi5 [Hi6 Hi7]]]]]]].
    split; [|apply frameE_refl]. split; [exact Hc|]. cbn.
    destruct (id_ref d - c =? 0).
    - repeat split; try assumption.
      + intros f0 d0 H. apply (Hi1 _ _ (assoc_del_In _ _ _ _ _ H)).
      + intros f0 d0 H. apply (Hi2 _ _ (assoc_del_In _ _ _ _ _ H)).
      + intros d0 H. apply (Hi6 _ (assoc_del_In _ _ _ _ _ H)).
      + destruct Hi7 as [dr Hdr]. exists dr. apply In_assoc_del_other; [exact Hdr | intros Heq; apply Hr; symmetry; exact Heq].
    - repeat split; try assumption.
      + intros f0 d0 H. apply assoc_set_In in H. destruct H as [H | H]; [inversion H; subst; cbn; apply (Hi1 _ _ Hin) | apply (Hi1 _ _ H)].
      + intros f0 d0 H Hrt. apply assoc_set_In in H. destruct H as [H | H]; [inversion H; subst f0 d0; cbn in Hrt; apply (Hi2 _ _ Hin Hrt) | apply (Hi2 _ _ H Hrt)].
      + intros d0 H. apply assoc_set_In in H. destruct H as [H | H]; [inversion H; congruence | apply (Hi6 _ H)].
      + destruct Hi7 as [dr Hdr]. exists dr. apply In_assoc_set_other; [exact Hdr | intros Heq; apply Hr; symmetry; exact Heq].
  Qed.

  Lemma open_inode_good : forall cf s inode flags r s', Inv s -> open_inode cf s inode flags = (r, s') ->
    good s s' /\ (forall hi fl, r = Ok (hi, fl) -> inE hi).
  Proof.
    intros cf s inode flags r s' HI H. unfold open_inode in H.
    destruct (assoc inode (p_inodes s)) as [d|] eqn:Ha;
      [|inversion H; subst; split; [apply good_refl; exact HI | intros; discriminate]].
    pose proof (inode_inE _ _ _ HI Ha) as Hd.
    destruct (negb (is_safe_inode (id_mode d)));
      [inversion H; subst; split; [apply good_refl; exact HI | intros; discriminate]|].
    destruct (c_ifh cf && negb (euid (p_creds s) =? 0));
      [inversion H; subst; split; [apply good_refl; exact HI | intros; discriminate]|].
    match type of H with context [sys_reopen ?c ?h ?i ?f] => destruct (sys_reopen c h i f) as [rr h'] eqn:Hr end.
    assert (Hcf : conf (p_host s) h') by (eapply sys_reopen_conf; [apply HI | exact Hd | exact Hr]).
    destruct rr; inversion H; subst; (split; [apply good_with_host; assumption|]).
    - intros hi fl Hx. inversion Hx; subst. exact Hd.
    - intros; discriminate.
  Qed.

  Lemma insert_handle_good : forall s hd k s', Inv s -> inE (hd_host hd) -> insert_handle s hd = (k, s') -> good s s'.
  Proof.
    intros s hd k s' [Hc [Hi1 [Hi2 [Hi3 [Hi4 [Hi5 [Hi6 Hi7]]]]]]] Hh H. unfold insert_handle in H. inversion H; subst.
    split; [|apply frameE_refl]. split; [exact Hc|]. cbn. repeat split; try assumption.
    intros k0 hd0 Hin. apply assoc_set_In in Hin. destruct Hin as [Hin | Hin]; [inversion Hin; subst; exact Hh | apply (Hi5 _ _ Hin)].
  Qed.

  Lemma set_handle_good : forall s k hd, Inv s -> inE (hd_host hd) ->
    good s (mkP (p_host s) (p_creds s) (p_inodes s) (p_idmap s) (p_next_inode s) (assoc_set k hd (p_handles s)) (p_next_handle s)).
  Proof.
    intros s k hd [Hc [Hi1 [Hi2 [Hi3 [Hi4 [Hi5 [Hi6 Hi7]]]]]]] Hh.
    split; [|apply frameE_refl]. split; [exact Hc|]. cbn. repeat split; try assumption.
    intros k0 hd0 Hin. apply assoc_set_In in Hin. destruct Hin as [Hin | Hin]; [inversion Hin; subst; exact Hh | apply (Hi5 _ _ Hin)].
  Qed.

  Lemma del_handle_good : forall s k, Inv s ->
    good s (mkP (p_host s) (p_creds s) (p_inodes s) (p_idmap s) (p_next_inode s) (assoc_del k (p_handles s)) (p_next_handle s)).
  Proof.
    intros s k [Hc [Hi1 [Hi2 [Hi3 [Hi4 [Hi5 [Hi6 Hi7]]]]]]].
    split; [|apply frameE_refl]. split; [exact Hc|]. cbn. repeat split; try assumption.
    intros k0 hd0 Hin. apply (Hi5 _ _ (assoc_del_In _ _ _ _ _ Hin)).
  Qed.

  Lemma get_data_good : forall cf no s handle inode flags r s', Inv s -> get_data cf no s handle inode flags = (r, s') ->
    good s s' /\ (forall hid hd, r = Ok (hid, hd) -> inE (hd_host hd)).
  Proof.
    intros cf no s handle inode flags r s' HI H. unfold get_data in H. destruct (negb no).
    - destruct (handle_get s handle inode) as [hd|e] eqn:Hg; inversion H; subst; (split; [apply good_refl; exact HI|]).
      + intros hid hd0 Hx. inversion Hx; subst. apply (handle_inE _ _ _ _ HI Hg).
      + intros; discriminate.
    - destruct (open_inode cf s inode flags) as [[[hi fl]|e] s1] eqn:Ho;
        destruct (open_inode_good _ _ _ _ _ _ HI Ho) as [Hg Hhi]; inversion H; subst; (split; [exact Hg|]).
      + intros hid hd0 Hx. inversion Hx; subst. cbn. apply (Hhi hi fl eq_refl).
      + intros; discriminate.
  Qed.

  Lemma check_fd_flags_good : forall cf s hid hd flags hd' s', Inv s -> inE (hd_host hd) ->
    check_fd_flags cf s hid hd flags = (hd', s') -> good s s' /\ hd_host hd' = hd_host hd.
  Proof.
    intros cf s hid hd flags hd' s' HI Hh H. unfold check_fd_flags in H.
    destruct (hd_flags hd =? flags); [inversion H; subst; split; [apply good_refl; exact HI | reflexivity]|].
    destruct hid as [k|]; inversion H; subst; (split; [|reflexivity]).
    - apply set_handle_good; [exact HI | exact Hh].
    - apply good_refl; exact HI.
  Qed.

  Definition reply_ok (r : reply) : Prop :=
    match r with RpEntry a | RpAttr a | RpCreate a _ _ => inE (a_ino a) | _ => True end.

  Lemma entry_reply_good : forall s parent n rp io s', Inv s -> entry_reply (do_lookup s parent n) = (rp, io, s') ->
    good s s' /\ reply_ok rp.
  Proof.
    intros s parent n rp io s' HI H. destruct (do_lookup s parent n) as [r s1] eqn:Hl.
    destruct (do_lookup_good _ _ _ _ _ HI Hl) as [Hg [_ [_ [_ Hp]]]].
    destruct r as [[f a]|e]; cbn in H; inversion H; subst; (split; [exact Hg|]); cbn; [|exact I].
    apply (Hp f a eq_refl).
  Qed.

  Lemma do_getattr_ok : forall cf s inode handle a, Inv s -> do_getattr cf s inode handle = Ok a -> inE (a_ino a).
  Proof.
    intros cf s inode handle a HI H. unfold do_getattr in H.
    destruct (assoc inode (p_inodes s)) as [d|] eqn:Ha; [|discriminate].
    pose proof (inode_inE _ _ _ HI Ha) as Hd.
    destruct (negb (c_no_open cf)); [destruct handle as [hk|]|].
    - destruct (handle_get s hk inode) as [hd|] eqn:Hg; [|discriminate].
      rewrite (stat_ino _ _ _ H). apply (handle_inE _ _ _ _ HI Hg).
    - rewrite (stat_ino _ _ _ H). exact Hd.
    - rewrite (stat_ino _ _ _ H). exact Hd.
  Qed.

  Lemma create_then_lookup_good : forall s uid gid parent n call rp io s',
    Inv s ->
    (forall c h d r h', closedE h -> inE d -> call c h d = (r, h') -> conf h h') ->
    create_then_lookup s uid gid parent n call = (rp, io, s') -> good s s' /\ reply_ok rp.
  Proof.
    intros s uid gid parent n call rp io s' HI Hcall H. unfold create_then_lookup in H.
    destruct (assoc parent (p_inodes s)) as [d|] eqn:Ha;
      [|inversion H; subst; split; [apply good_refl; exact HI | exact I]].
    pose proof (inode_inE _ _ _ HI Ha) as Hd.
    match type of H with context [with_creds uid gid s ?b] => destruct (with_creds uid gid s b) as [r s1] eqn:Hw end.
    assert (Hg1 : good s s1).
    { destruct (with_creds_cases _ _ _ _ _ _ _ Hw) as [[c [-> _]] | [c2 [s2 [c3 [Hb ->]]]]].
      - apply good_creds_r. apply good_refl. exact HI.
      - apply good_creds_r. cbn in Hb.
        destruct (call c2 (p_host s) (id_host d)) as [r0 h'] eqn:Hc0. inversion Hb; subst.
        apply good_with_host_c; [exact HI|]. eapply Hcall; [apply HI | exact Hd | exact Hc0]. }
    destruct r as [x|e].
    - destruct (entry_reply_good _ _ _ _ _ _ (proj1 Hg1) H) as [Hg2 Hr]. split; [eapply good_trans; eassumption | exact Hr].
    - inversion H; subst. split; [exact Hg1 | exact I].
  Qed.

  Lemma setattr_size_good : forall cf s inode hdo valid size r s', Inv s ->
    (forall hd, hdo = Some hd -> inE (hd_host hd)) ->
    setattr_size cf s inode hdo valid size = (r, s') -> good s s'.
  Proof.
    intros cf s inode hdo valid size r s' HI Hh H. unfold setattr_size in H.
    destruct (with_killpriv_cases _ _ _ _ _ _ H) as [c1 [s1 [c2 [Hb ->]]]]. clear H.
    apply good_creds_r. destruct hdo as [hd|].
    - destruct (acc_w (hd_acc hd)); [|inversion Hb; subst; exact (good_refl s HI)].
      cbn in Hb. destruct (sys_ftruncate c1 (p_host s) (hd_host hd) size) as [r0 h'] eqn:Hf. inversion Hb; subst.
      apply good_with_host_c; [exact HI|]. eapply sys_ftruncate_conf; [apply HI | apply (Hh hd eq_refl) | exact Hf].
    - destruct (open_inode cf (with_creds_of s c1) inode (O_NONBLOCK + O_RDWR)) as [[[hi fl]|e] s2] eqn:Ho.
      + destruct (open_inode_good _ (with_creds_of s c1) _ _ _ _ HI Ho) as [Hg Hhi]. change (good s s2) in Hg.
        destruct (sys_ftruncate (p_creds s2) (p_host s2) hi size) as [r0 h'] eqn:Hf. inversion Hb; subst.
        eapply good_trans; [exact Hg|]. apply good_with_host; [apply Hg|].
        eapply sys_ftruncate_conf; [apply Hg | apply (Hhi hi fl eq_refl) | exact Hf].
      + destruct (open_inode_good _ (with_creds_of s c1) _ _ _ _ HI Ho) as [Hg _]. change (good s s2) in Hg. inversion Hb; subst. exact Hg.
  Qed.

  Lemma do_open_good : forall cf s inode flags ff rp s', Inv s -> do_open cf s inode flags ff = (rp, s') ->
    good s s' /\ reply_ok rp.
  Proof.
    intros cf s inode flags ff rp s' HI H. unfold do_open in H.
    match type of H with context [with_killpriv ?c s ?b] => destruct (with_killpriv c s b) as [r s1] eqn:Hw end.
    destruct (with_killpriv_cases _ _ _ _ _ _ Hw) as [c1 [s2 [c2 [Hb ->]]]].
    destruct (open_inode_good _ (with_creds_of s c1) _ _ _ _ HI Hb) as [Hg Hhi]. change (good s s2) in Hg.
    destruct r as [[hi fl]|e].
    - destruct (insert_handle (with_creds_of s2 c2) (new_hdata inode hi fl flags)) as [k s3] eqn:Hih.
      inversion H; subst. split; [|exact I]. eapply good_trans; [exact Hg|].
      apply (insert_handle_good (with_creds_of s2 c2) (new_hdata inode hi fl flags) _ _ (proj1 Hg) (Hhi hi fl eq_refl) Hih).
    - inversion H; subst. split; [exact Hg | exact I].
  Qed.

  Ltac done_refl HI := split; [exact (good_refl _ HI) | exact I].
  Ltac inv4 H := inversion H; subst; clear H.

  Theorem pstep_good : forall cf s q rp io ho s', Inv s -> pstep cf s q = (rp, io, ho, s') ->
    good s s' /\ reply_ok rp.
  Proof.
    intros cf s q rp io ho s' HI H. unfold pstep in H. destruct q; cbv beta zeta in H.
    - (* lookup *)
      destruct (lookup_check n); [inv4 H; done_refl HI|].
      destruct (entry_reply (do_lookup s parent n)) as [[rp0 io0] s0] eqn:He. inv4 H.
      apply (entry_reply_good _ _ _ _ _ _ HI He).
    - (* forget *)
      inv4 H. split; [apply forget_one_good; exact HI | exact I].
    - (* batch_forget *)
      inv4 H. split; [|exact I]. revert s HI. induction l as [|p l IH]; intros s HI; cbn [fold_left]; [apply good_refl; exact HI|].
      eapply good_trans; [apply forget_one_good; exact HI|]. apply IH. apply (proj1 (forget_one_good s (fst p) (snd p) HI)).
    - (* getattr *)
      destruct (do_getattr cf s inode handle) as [a|e] eqn:Hg; inv4 H; split; try exact (good_refl _ HI); try exact I.
      cbn. apply (do_getattr_ok _ _ _ _ _ HI Hg).
    - (* setattr *)
      destruct (assoc inode (p_inodes s)) as [d|] eqn:Ha; [|inv4 H; done_refl HI].
      pose proof (inode_inE _ _ _ HI Ha) as Hd.
      match type of H with context [match ?x with Ok hdo => _ | Err e => _ end] => destruct x as [hdo|e] eqn:Hhdr end;
        [|inv4 H; done_refl HI].
      assert (Hhd : forall hd, hdo = Some hd -> inE (hd_host hd)).
      { intros hd ->. destruct (c_no_open cf); [discriminate|]. destruct handle as [hk|]; [|discriminate].
        destruct (handle_get s hk inode) as [hd0|] eqn:Hg; [|discriminate]. inversion Hhdr; subst.
        apply (handle_inE _ _ _ _ HI Hg). }
      assert (Htgt : inE (match hdo with Some hd => hd_host hd | None => id_host d end)).
      { destruct hdo as [hd|]; [apply (Hhd hd eq_refl) | exact Hd]. }
      match type of H with context [let '(r1, s1) := ?x in _] => destruct x as [r1 s1] eqn:H1 end.
      assert (G1 : good s s1).
      { destruct (has valid FATTR_MODE); [|inversion H1; subst; exact (good_refl _ HI)].
        match type of H1 with context [sys_chmod ?c ?h ?i ?m] => destruct (sys_chmod c h i m) as [r0 h'] eqn:Hc0 end.
        inversion H1; subst. apply good_with_host; [exact HI|]. eapply sys_chmod_conf; [apply HI | exact Htgt | exact Hc0]. }
      destruct r1 as [u1|e]; [|inv4 H; split; [exact G1 | exact I]].
      match type of H with context [let '(r2, s2) := ?x in _] => destruct x as [r2 s2] eqn:H2 end.
      assert (Ha1 : assoc inode (p_inodes s1) = Some d).
      { destruct (has valid FATTR_MODE); [|inversion H1; subst; exact Ha].
        match type of H1 with context [sys_chmod ?c ?h ?i ?m] => destruct (sys_chmod c h i m) as [r0 h'] end. inversion H1; subst. exact Ha. }
      assert (G2 : good s1 s2).
      { destruct (has valid FATTR_UID || has valid FATTR_GID); [|inversion H2; subst; exact (good_refl _ (proj1 G1))].
        match type of H2 with context [sys_chown ?c ?h ?i ?u ?g] => destruct (sys_chown c h i u g) as [r0 h'] eqn:Hc0 end.
        inversion H2; subst. apply good_with_host; [exact (proj1 G1)|]. eapply sys_chown_conf; [apply G1 | exact Hd | exact Hc0]. }
      destruct r2 as [u2|e]; [|inv4 H; split; [eapply good_trans; eassumption | exact I]].
      match type of H with context [let '(r3, s3) := ?x in _] => destruct x as [r3 s3] eqn:H3 end.
      assert (Hh2 : forall hd, hdo = Some hd -> inE (hd_host hd)) by exact Hhd.
      assert (G3 : good s2 s3).
      { destruct (has valid FATTR_SIZE); [|inversion H3; subst; exact (good_refl _ (proj1 G2))].
        eapply setattr_size_good; [exact (proj1 G2) | exact Hh2 | exact H3]. }
      assert (G : good s s3) by (eapply good_trans; [exact G1 | eapply good_trans; [exact G2 | exact G3]]).
      destruct r3 as [u3|e]; [|inv4 H; split; [exact G | exact I]].
      match type of H with context [let '(r4, s4) := ?x in _] => destruct x as [r4 s4] eqn:H4 end.
      assert (G4 : good s3 s4).
      { destruct (has valid FATTR_ATIME || has valid FATTR_MTIME); [|inversion H4; subst; exact (good_refl _ (proj1 G))].
        match type of H4 with context [sys_utimens ?h ?i ?a ?m] => destruct (sys_utimens h i a m) as [r0 h'] eqn:Hu end.
        inversion H4; subst. apply good_with_host; [exact (proj1 G)|]. eapply sys_utimens_conf; [apply G | exact Hu]. }
      assert (G' : good s s4) by (eapply good_trans; eassumption).
      destruct r4 as [u4|e]; [|inv4 H; split; [exact G' | exact I]].
      destruct (do_getattr cf s4 inode handle) as [a|e] eqn:Hg; inv4 H; (split; [exact G'|]); [|exact I].
      cbn. apply (do_getattr_ok _ _ _ _ _ (proj1 G') Hg).
    - (* mkdir *)
      destruct (validate cf n); [inv4 H; done_refl HI|].
      match type of H with context [create_then_lookup ?a ?b ?c ?d ?e ?f] => destruct (create_then_lookup a b c d e f) as [[rp0 io0] s0] eqn:Hc end.
      inv4 H. eapply create_then_lookup_good; [exact HI | | exact Hc].
      intros c h d r h' Hcl Hd Hcall. eapply (proj1 (sys_mkdirat_conf _ _ _ _ _ _ _ _ _ _ Hcl Hd Hcall)).
    - (* mknod *)
      destruct (validate cf n); [inv4 H; done_refl HI|].
      match type of H with context [create_then_lookup ?a ?b ?c ?d ?e ?f] => destruct (create_then_lookup a b c d e f) as [[rp0 io0] s0] eqn:Hc end.
      inv4 H. eapply create_then_lookup_good; [exact HI | | exact Hc].
      intros c h d r h' Hcl Hd Hcall. eapply (proj1 (sys_mknodat_conf _ _ _ _ _ _ _ _ _ _ _ Hcl Hd Hcall)).
    - (* create *)
      destruct (validate cf n); [inv4 H; done_refl HI|].
      destruct (assoc parent (p_inodes s)) as [d|] eqn:Ha; [|inv4 H; done_refl HI].
      pose proof (inode_inE _ _ _ HI Ha) as Hd.
      match type of H with context [with_creds uid gid s ?b] => destruct (with_creds uid gid s b) as [r s1] eqn:Hw end.
      assert (G1 : good s s1).
      { destruct (with_creds_cases _ _ _ _ _ _ _ Hw) as [[c [-> _]] | [c2 [s2 [c3 [Hb ->]]]]]; [exact (good_refl _ HI)|].
        cbn in Hb.
        match type of Hb with context [sys_openat_creat_excl ?c ?h ?i ?nn ?f ?m] => destruct (sys_openat_creat_excl c h i nn f m) as [r0 h'] eqn:Hc0 end.
        assert (Hcf : conf (p_host s) h') by (eapply (proj1 (sys_openat_creat_excl_conf _ _ _ _ _ _ _ _ _ _ _ (proj1 HI) Hd Hc0))).
        destruct r0 as [i0|e0]; [inversion Hb; subst; exact (good_with_host s h' HI Hcf)|].
        destruct ((e0 =? EEXIST) && negb _); inversion Hb; subst; exact (good_with_host s h' HI Hcf). }
      destruct r as [newf|e]; [|inv4 H; split; [exact G1 | exact I]].
      destruct (do_lookup s1 parent n) as [rl s2] eqn:Hl.
      destruct (do_lookup_good _ _ _ _ _ (proj1 G1) Hl) as [G2 [_ [_ [_ Hpost]]]].
      destruct rl as [[f a]|e]; [|inv4 H; split; [eapply good_trans; eassumption | exact I]].
      destruct (Hpost f a eq_refl) as [HaE [df [Hdf Hdfh]]].
      match type of H with context [let '(rf, s3) := ?x in _] => destruct x as [rf s3] eqn:H3 end.
      assert (G3 : good s2 s3 /\ (forall hi fl, rf = Ok (hi, fl) -> inE hi)).
      { destruct newf as [i0|].
        - inversion H3; subst. split; [exact (good_refl _ (proj1 G2))|]. intros hi fl Hx. inversion Hx; subst.
          (* the new file is the inode just looked up?  not needed: it was created inside E *)
          clear - Hw HI Hd. 
          destruct (with_creds_cases _ _ _ _ _ _ _ Hw) as [[c [_ [e He]]] | [c2 [sx [c3 [Hb _]]]]]; [discriminate|].
          cbn in Hb.
          match type of Hb with context [sys_openat_creat_excl ?c ?h ?i ?nn ?f ?m] => destruct (sys_openat_creat_excl c h i nn f m) as [r0 h'] eqn:Hc0 end.
          pose proof (proj2 (sys_openat_creat_excl_conf _ _ _ _ _ _ _ _ _ _ _ (proj1 HI) Hd Hc0)) as Hi0.
          destruct r0 as [i1|e0]; [inversion Hb; subst; apply (Hi0 hi eq_refl)|].
          destruct ((e0 =? EEXIST) && negb _); inversion Hb.
        - destruct (with_killpriv_cases _ _ _ _ _ _ H3) as [c1 [sa [c2 [Hb ->]]]].
          destruct (with_creds_cases _ _ _ _ _ _ _ Hb) as [[c [-> [e ->]]] | [c3 [sb [c4 [Hb2 ->]]]]].
          + split; [exact (good_refl _ (proj1 G2)) | intros; discriminate].
          + destruct (open_inode_good _ (with_creds_of (with_creds_of s2 c1) c3) _ _ _ _ (proj1 G2) Hb2) as [Hg Hhi].
            split; [exact Hg | exact Hhi]. }
      destruct G3 as [G3 Hhi].
      assert (G : good s s3) by (eapply good_trans; [exact G1 | eapply good_trans; [exact G2 | exact G3]]).
      destruct rf as [[hi fl]|e]; [|inv4 H; split; [eapply good_trans; [exact G | apply forget_one_good; exact (proj1 G)] | exact I]].
      destruct (c_no_open cf); [inv4 H; split; [exact G | exact HaE]|].
      destruct (insert_handle s3 (new_hdata f hi fl flags)) as [hk s4] eqn:Hih. inv4 H.
      split; [|exact HaE]. eapply good_trans; [exact G|].
      apply (insert_handle_good s3 (new_hdata f hi fl flags) _ _ (proj1 G) (Hhi hi fl eq_refl) Hih).
    - (* symlink *)
      destruct (validate cf n); [inv4 H; done_refl HI|].
      match type of H with context [create_then_lookup ?a ?b ?c ?d ?e ?f] => destruct (create_then_lookup a b c d e f) as [[rp0 io0] s0] eqn:Hc end.
      inv4 H. eapply create_then_lookup_good; [exact HI | | exact Hc].
      intros c h d r h' Hcl Hd Hcall. eapply (proj1 (sys_symlinkat_conf _ _ _ _ _ _ _ _ _ _ Hcl Hd Hcall)).
    - (* link *)
      destruct (validate cf n); [inv4 H; done_refl HI|].
      destruct (assoc inode (p_inodes s)) as [d|] eqn:Ha; [|inv4 H; done_refl HI].
      destruct (assoc newparent (p_inodes s)) as [nd|] eqn:Hn; [|inv4 H; done_refl HI].
      pose proof (inode_inE _ _ _ HI Ha) as Hd. pose proof (inode_inE _ _ _ HI Hn) as Hnd.
      destruct (sys_linkat (p_creds s) (p_host s) (id_host d) (id_host nd) n) as [r h'] eqn:Hc.
      assert (G1 : good s (with_host s h')) by (apply good_with_host; [exact HI | eapply sys_linkat_conf; [apply HI | exact Hd | exact Hnd | exact Hc]]).
      destruct r; [|inv4 H; split; [exact G1 | exact I]].
      destruct (entry_reply (do_lookup (with_host s h') newparent n)) as [[rp0 io0] s0] eqn:He. inv4 H.
      destruct (entry_reply_good _ _ _ _ _ _ (proj1 G1) He) as [G2 Hr]. split; [eapply good_trans; eassumption | exact Hr].
    - (* unlink *)
      destruct (validate cf n); [inv4 H; done_refl HI|].
      destruct (assoc parent (p_inodes s)) as [d|] eqn:Ha; [|inv4 H; done_refl HI].
      pose proof (inode_inE _ _ _ HI Ha) as Hd.
      destruct (sys_unlinkat (p_creds s) (p_host s) (id_host d) n 0) as [r h'] eqn:Hc.
      assert (G1 : good s (with_host s h')) by (apply good_with_host; [exact HI | eapply sys_unlinkat_conf; [apply HI | exact Hd | exact Hc]]).
      destruct r; inv4 H; split; try exact G1; exact I.
    - (* rmdir *)
      destruct (validate cf n); [inv4 H; done_refl HI|].
      destruct (assoc parent (p_inodes s)) as [d|] eqn:Ha; [|inv4 H; done_refl HI].
      pose proof (inode_inE _ _ _ HI Ha) as Hd.
      destruct (sys_unlinkat (p_creds s) (p_host s) (id_host d) n AT_REMOVEDIR) as [r h'] eqn:Hc.
      assert (G1 : good s (with_host s h')) by (apply good_with_host; [exact HI | eapply sys_unlinkat_conf; [apply HI | exact Hd | exact Hc]]).
      destruct r; inv4 H; split; try exact G1; exact I.
    - (* rename *)
      destruct (validate cf on); [inv4 H; done_refl HI|].
      destruct (validate cf nn); [inv4 H; done_refl HI|].
      destruct (assoc olddir (p_inodes s)) as [od|] eqn:Ha; [|inv4 H; done_refl HI].
      destruct (assoc newdir (p_inodes s)) as [nd|] eqn:Hn; [|inv4 H; done_refl HI].
      pose proof (inode_inE _ _ _ HI Ha) as Hd. pose proof (inode_inE _ _ _ HI Hn) as Hnd.
      destruct (sys_renameat2 (p_creds s) (p_host s) (id_host od) on (id_host nd) nn flags) as [r h'] eqn:Hc.
      assert (G1 : good s (with_host s h')) by (apply good_with_host; [exact HI | eapply sys_renameat2_conf; [apply HI | exact Hd | exact Hnd | exact Hc]]).
      destruct r; inv4 H; split; try exact G1; exact I.
    - (* open *)
      destruct (c_no_open cf); [inv4 H; done_refl HI|].
      destruct (do_open cf s inode flags fuse_flags) as [rp0 s0] eqn:Ho.
      destruct (do_open_good _ _ _ _ _ _ _ HI Ho) as [G Hr]. destruct rp0; inv4 H; split; assumption.
    - (* opendir *)
      destruct (c_no_opendir cf); [inv4 H; done_refl HI|].
      destruct (do_open cf s inode (N.lor flags O_DIRECTORY) 0) as [rp0 s0] eqn:Ho.
      destruct (do_open_good _ _ _ _ _ _ _ HI Ho) as [G Hr]. destruct rp0; inv4 H; split; assumption.
    - (* release *)
      destruct (c_no_open cf); [inv4 H; done_refl HI|].
      destruct (handle_get s handle inode); inv4 H; [|done_refl HI]. split; [apply del_handle_good; exact HI | exact I].
    - (* releasedir *)
      destruct (c_no_opendir cf); [inv4 H; done_refl HI|].
      destruct (handle_get s handle inode); inv4 H; [|done_refl HI]. split; [apply del_handle_good; exact HI | exact I].
    - (* read *)
      destruct (get_data cf (c_no_open cf) s handle inode O_RDONLY) as [[[hid hd]|e] s1] eqn:Hgd;
        destruct (get_data_good _ _ _ _ _ _ _ _ HI Hgd) as [G1 Hh]; [|inv4 H; split; [exact G1 | exact I]].
      destruct (check_fd_flags cf s1 hid hd flags) as [hd' s2] eqn:Hcf.
      destruct (check_fd_flags_good _ _ _ _ _ _ _ (proj1 G1) (Hh _ _ eq_refl) Hcf) as [G2 _].
      assert (G : good s s2) by (eapply good_trans; eassumption).
      destruct (negb (acc_r (hd_acc hd'))); [inv4 H; split; [exact G | exact I]|].
      destruct (hd_direct hd' && (0 <? size)); [inv4 H; split; [exact G | exact I]|].
      destruct (sys_pread (p_host s2) (hd_host hd') size off); inv4 H; split; try exact G; exact I.
    - (* write *)
      destruct (get_data cf (c_no_open cf) s handle inode O_RDWR) as [[[hid hd]|e] s1] eqn:Hgd;
        destruct (get_data_good _ _ _ _ _ _ _ _ HI Hgd) as [G1 Hh]; [|inv4 H; split; [exact G1 | exact I]].
      destruct (check_fd_flags cf s1 hid hd flags) as [hd' s2] eqn:Hcf.
      destruct (check_fd_flags_good _ _ _ _ _ _ _ (proj1 G1) (Hh _ _ eq_refl) Hcf) as [G2 Hsame].
      assert (G : good s s2) by (eapply good_trans; eassumption).
      match type of H with context [with_killpriv ?c s2 ?b] => destruct (with_killpriv c s2 b) as [r s3] eqn:Hw end.
      assert (G3 : good s2 s3).
      { destruct (with_killpriv_cases _ _ _ _ _ _ Hw) as [c1 [sa [c2 [Hb ->]]]].
        destruct (negb (acc_w (hd_acc hd'))); [inversion Hb; subst; exact (good_refl _ (proj1 G2))|].
        destruct (hd_direct hd' && (0 <? len data)); [inversion Hb; subst; exact (good_refl _ (proj1 G2))|].
        cbn in Hb. destruct (sys_pwrite c1 (p_host s2) (hd_host hd') (hd_append hd') off data) as [r0 h'] eqn:Hc0.
        inversion Hb; subst. apply (good_with_host_c s2 c1 h' (proj1 G2)).
        eapply sys_pwrite_conf; [apply G2 | | exact Hc0]. rewrite Hsame. apply (Hh _ _ eq_refl). }
      destruct r; inv4 H; (split; [eapply good_trans; eassumption | exact I]).
    - (* readlink *)
      destruct (assoc inode (p_inodes s)); [|inv4 H; done_refl HI].
      destruct (sys_readlink (p_host s) (id_host i)); inv4 H; done_refl HI.
    - (* setxattr *)
      destruct (negb (c_xattr cf)); [inv4 H; done_refl HI|].
      destruct (assoc inode (p_inodes s)) as [d|] eqn:Ha; [|inv4 H; done_refl HI].
      pose proof (inode_inE _ _ _ HI Ha) as Hd.
      destruct (sys_setxattr (p_creds s) (p_host s) (id_host d) n v flags) as [r h'] eqn:Hc.
      assert (G1 : good s (with_host s h')) by (apply good_with_host; [exact HI | eapply sys_setxattr_conf; [apply HI | exact Hd | exact Hc]]).
      destruct r; inv4 H; split; try exact G1; exact I.
    - (* getxattr *)
      destruct (negb (c_xattr cf)); [inv4 H; done_refl HI|].
      destruct (assoc inode (p_inodes s)); [|inv4 H; done_refl HI].
      destruct (sys_getxattr (p_creds s) (p_host s) (id_host i) n size) as [[v|c]|e]; inv4 H; done_refl HI.
    - (* listxattr *)
      destruct (negb (c_xattr cf)); [inv4 H; done_refl HI|].
      destruct (assoc inode (p_inodes s)); [|inv4 H; done_refl HI].
      destruct (sys_listxattr (p_host s) (id_host i) size) as [[v|c]|e]; inv4 H; done_refl HI.
    - (* removexattr *)
      destruct (negb (c_xattr cf)); [inv4 H; done_refl HI|].
      destruct (assoc inode (p_inodes s)) as [d|] eqn:Ha; [|inv4 H; done_refl HI].
      pose proof (inode_inE _ _ _ HI Ha) as Hd.
      destruct (sys_removexattr (p_creds s) (p_host s) (id_host d) n) as [r h'] eqn:Hc.
      assert (G1 : good s (with_host s h')) by (apply good_with_host; [exact HI | eapply sys_removexattr_conf; [apply HI | exact Hd | exact Hc]]).
      destruct r; inv4 H; split; try exact G1; exact I.
    - (* fallocate *)
      destruct (get_data cf (c_no_open cf) s handle inode O_RDWR) as [[[hid hd]|e] s1] eqn:Hgd;
        destruct (get_data_good _ _ _ _ _ _ _ _ HI Hgd) as [G1 Hh]; [|inv4 H; split; [exact G1 | exact I]].
      destruct (l =? 0); [inv4 H; split; [exact G1 | exact I]|].
      destruct (negb (acc_w (hd_acc hd))); [inv4 H; split; [exact G1 | exact I]|].
      destruct (sys_fallocate (p_creds s1) (p_host s1) (hd_host hd) mode off l) as [r h'] eqn:Hc.
      assert (G2 : good s1 (with_host s1 h')) by (apply good_with_host; [exact (proj1 G1) | eapply sys_fallocate_conf; [apply G1 | apply (Hh _ _ eq_refl) | exact Hc]]).
      destruct r; inv4 H; (split; [eapply good_trans; eassumption | exact I]).
    - (* lseek *)
      destruct (handle_get s handle inode) as [hd|e] eqn:Hg; [|inv4 H; done_refl HI].
      pose proof (handle_inE _ _ _ _ HI Hg) as Hh.
      destruct (stat (p_host s) (hd_host hd)); [|inv4 H; done_refl HI].
      match type of H with context [match ?x with Some p => _ | None => _ end] => destruct x as [p|] end; [|inv4 H; done_refl HI].
      destruct (9223372036854775807 <? p); inv4 H; [done_refl HI|].
      split; [|exact I]. apply set_handle_good; [exact HI | exact Hh].
    - (* fsync *)
      destruct (get_data cf (c_no_open cf) s handle inode O_RDONLY) as [[x|e] s1] eqn:Hgd;
        destruct (get_data_good _ _ _ _ _ _ _ _ HI Hgd) as [G1 Hh]; inv4 H; split; try exact G1; exact I.
    - (* flush *)
      destruct (c_no_open cf); [inv4 H; done_refl HI|].
      destruct (handle_get s handle inode); inv4 H; done_refl HI.
    - (* statfs *)
      destruct (assoc inode (p_inodes s)); inv4 H; done_refl HI.
    - (* access *)
      destruct (assoc inode (p_inodes s)); [|inv4 H; done_refl HI].
      destruct (stat (p_host s) (id_host i)) as [a|e]; inv4 H; [|done_refl HI].
      split; [exact (good_refl _ HI)|]. unfold access_check.
      repeat match goal with |- reply_ok (if ?b then _ else _) => destruct b end; exact I.
  Qed.
End Confined.
