(* C02: per-opcode exactness of the handlers (part 2: opcodes 15..49 and the table lemma). *)
From Coq Require Import List String NArith Bool Lia Arith ZifyBool ZifyNat ZifyN.
From FB Require Import Lib.Bytes Lib.Layout Spec.KernelABI Model.Server Spec.Requests Spec.WfReq
  Proofs.EncLemmas Proofs.ServerPerform Proofs.ServerDecide Proofs.ServerDecodeLib Proofs.ServerDecodeOps.
Import ListNotations.
Local Open Scope string_scope.
Local Open Scope list_scope.
Local Open Scope N_scope.

Lemma ex_statfs : handler_exact 17 (h_statfs 17).
Proof. simple_op 17 h_statfs. Qed.
Lemma ex_release : handler_exact 18 (h_release 18).
Proof. simple_op 18 h_release. Qed.
Lemma ex_fsync : handler_exact 20 (h_fsync 20).
Proof. simple_op 20 h_fsync. Qed.
Lemma ex_getxattr : handler_exact 22 (h_getxattr 22).
Proof. simple_op 22 h_getxattr. Qed.
Lemma ex_listxattr : handler_exact 23 (h_listxattr 23).
Proof. simple_op 23 h_listxattr. Qed.
Lemma ex_removexattr : handler_exact 24 (h_removexattr 24).
Proof. simple_op 24 h_removexattr. Qed.
Lemma ex_flush : handler_exact 25 (h_flush 25).
Proof. simple_op 25 h_flush. Qed.
Lemma ex_opendir : handler_exact 27 (h_opendir 27).
Proof. simple_op 27 h_opendir. Qed.
Lemma ex_releasedir : handler_exact 29 (h_releasedir 29).
Proof. simple_op 29 h_releasedir. Qed.
Lemma ex_fsyncdir : handler_exact 30 (h_fsyncdir 30).
Proof. simple_op 30 h_fsyncdir. Qed.
Lemma ex_access : handler_exact 34 (h_access 34).
Proof. simple_op 34 h_access. Qed.
Lemma ex_create : handler_exact 35 (h_create 35).
Proof. simple_op 35 h_create. Qed.
Lemma ex_interrupt : handler_exact 36 (h_interrupt 36).
Proof. simple_op 36 h_interrupt. Qed.
Lemma ex_bmap : handler_exact 37 (h_bmap 37).
Proof. simple_op 37 h_bmap. Qed.
Lemma ex_destroy : handler_exact 38 (h_destroy 38).
Proof. simple_op 38 h_destroy. Qed.
Lemma ex_poll : handler_exact 40 (h_poll 40).
Proof. simple_op 40 h_poll. Qed.
Lemma ex_notify_reply : handler_exact 41 (h_notify_reply 41).
Proof. simple_op 41 h_notify_reply. Qed.
Lemma ex_fallocate : handler_exact 43 (h_fallocate 43).
Proof. simple_op 43 h_fallocate. Qed.
Lemma ex_rename2 : handler_exact 45 (h_rename2 45).
Proof. simple_op 45 h_rename2. Qed.
Lemma ex_lseek : handler_exact 46 (h_lseek 46).
Proof. simple_op 46 h_lseek. Qed.

Ltac op_start k h :=
  setup k; unfold h; cbv zeta;
  with_hyps ltac:(fun Hb Hfit Hn1 Hn2 => rewrite ?Hb; steps Hb Hfit Hn1 Hn2).

Lemma ex_read : handler_exact 15 (h_read 15).
Proof.
  op_start 15 h_read.
  replace (cap <? OUT_HDR) with false by lia.
  finish.
Qed.

Lemma ex_write : handler_exact 16 (h_write 16).
Proof.
  op_start 16 h_write.
  apply N.eqb_eq in Hsz. rewrite Hsz, N.min_id, to_nat_blen, firstn_all.
  finish.
Qed.

Lemma ex_readdir : handler_exact 28 (h_readdir_readdirplus 28).
Proof.
  op_start 28 h_readdir_readdirplus.
  replace (cap <? fld q "size" + OUT_HDR) with false by lia.
  replace (cap <? OUT_HDR) with false by lia.
  change (28 =? 44) with false. cbv iota.
  finish.
Qed.

Lemma ex_readdirplus : handler_exact 44 (h_readdir_readdirplus 44).
Proof.
  op_start 44 h_readdir_readdirplus.
  replace (cap <? fld q "size" + OUT_HDR) with false by lia.
  replace (cap <? OUT_HDR) with false by lia.
  change (44 =? 44) with true. cbv iota.
  finish.
Qed.

Lemma ex_getlk : handler_exact 31 (h_getlk_setlk_setlkw 31).
Proof.
  op_start 31 h_getlk_setlk_setlkw.
  change (31 =? 31) with true. cbv iota.
  finish.
Qed.
Lemma ex_setlk : handler_exact 32 (h_getlk_setlk_setlkw 32).
Proof.
  op_start 32 h_getlk_setlk_setlkw.
  change (32 =? 31) with false. change (32 =? 32) with true. cbv iota.
  finish.
Qed.
Lemma ex_setlkw : handler_exact 33 (h_getlk_setlk_setlkw 33).
Proof.
  op_start 33 h_getlk_setlk_setlkw.
  change (33 =? 31) with false. change (33 =? 32) with false. cbv iota. unfold SETLKW_METHOD.
  finish.
Qed.

Lemma ex_ioctl : handler_exact 39 (h_ioctl 39).
Proof.
  op_start 39 h_ioctl.
  apply N.eqb_eq in Hsz. rewrite Hsz, N.ltb_irrefl, to_nat_blen, firstn_all.
  finish.
Qed.

Lemma ex_setupmapping : handler_exact 48 (h_setupmapping 48).
Proof.
  setup 48. unfold h_setupmapping; cbv zeta. rewrite Henv.
  with_hyps ltac:(fun Hb Hfit Hn1 Hn2 => rewrite ?Hb; steps Hb Hfit Hn1 Hn2).
  finish.
Qed.

Lemma skipn_name (a : bytes) x b : skipn (S (List.length a)) (a ++ x :: b) = b.
Proof.
  change (a ++ x :: b) with (a ++ [x] ++ b). rewrite app_assoc. apply drop_app_exact.
  rewrite app_length. cbn. lia.
Qed.

Lemma ex_setxattr : handler_exact 21 (h_setxattr 21).
Proof.
  op_start 21 h_setxattr.
  cbn [app]. rewrite (find_nul_app _ _ Hn1).
  rewrite take_app_exact by reflexivity. rewrite skipn_name.
  apply N.eqb_eq in Hsz.
  assert (Hp : blen (q_payload q) < 4294967296).
  { rewrite Hb in Hlen. rewrite !blen_app in Hlen. unfold MAX_BUFFER_SIZE, BUFFER_HEADER_SIZE in Hlen. lia. }
  rewrite Hsz, (N.mod_small _ _ Hp), N.eqb_refl. cbn [negb].
  finish.
Qed.

Definition pairs_loop (K : list (N * N) -> decision) :=
  fix go (n : nat) (rr : bytes) (acc : list (N * N)) : decision :=
    match n with
    | O => K (rev acc)
    | S n' => match read_obj 16 rr with
              | None => ([], NoReply (RErr EDecodeMessage))
              | Some (o, rr') => go n' rr' ((u64 0 o, u64 8 o) :: acc)
              end
    end.

Lemma pairs_loop_ok K ps : pairs_fit ps = true ->
  forall acc, pairs_loop K (List.length ps) (pairs_bytes ps) acc = K (rev acc ++ ps).
Proof.
  induction ps as [|p ps IH]; intros Hf acc.
  - cbn [List.length pairs_loop]. rewrite app_nil_r. reflexivity.
  - cbn [pairs_fit forallb] in Hf. apply andb_prop in Hf. destruct Hf as [Hp Hps].
    destruct (read_pair p ps Hp) as [o [Hr [H1 H2]]].
    cbn [List.length]. change (pairs_loop K (S (List.length ps)) (pairs_bytes (p :: ps)) acc)
      with (match read_obj 16 (pairs_bytes (p :: ps)) with
            | None => ([], NoReply (RErr EDecodeMessage))
            | Some (o, rr') => pairs_loop K (List.length ps) rr' ((u64 0 o, u64 8 o) :: acc)
            end).
    rewrite Hr, H1, H2. rewrite (IH Hps). cbn [rev]. rewrite <- app_assoc. destruct p; reflexivity.
Qed.

Lemma ex_batch_forget : handler_exact 42 (h_batch_forget 42).
Proof.
  op_start 42 h_batch_forget.
  apply N.eqb_eq in Hsz.
  assert (Hc : fld q "count" * 16 <= 1052624).
  { rewrite Hb in Hlen. rewrite !blen_app, blen_encf in Hlen. unfold blen in Hlen.
    rewrite pairs_bytes_length in Hlen. cbn [fwidth] in Hlen.
    unfold MAX_BUFFER_SIZE, BUFFER_HEADER_SIZE in Hlen. lia. }
  unfold MAX_BUFFER_SIZE, BUFFER_HEADER_SIZE, IN_HDR.
  replace (1048576 + 4096 - 8 - 40 <? fld q "count" * 16) with false by lia.
  rewrite Hsz, Nat2N.id.
  match goal with |- context [?F (List.length _) (pairs_bytes _) []] =>
    change F with (pairs_loop (fun l => ([mk "batch_forget" ctx [APairs l]], NoReply (ROk 0)))) end.
  rewrite (pairs_loop_ok _ _ Hprs). cbn [rev app].
  finish.
Qed.

Lemma ex_removemapping : handler_exact 49 (h_removemapping 49).
Proof.
  setup 49. unfold h_removemapping; cbv zeta. rewrite Henv.
  with_hyps ltac:(fun Hb Hfit Hn1 Hn2 => rewrite ?Hb; steps Hb Hfit Hn1 Hn2).
  apply andb_prop in Hsz. destruct Hsz as [Hsz Hc].
  apply N.eqb_eq in Hsz.
  replace (MAX_BUFFER_SIZE <? fld q "count" * 16) with false by lia.
  rewrite Hsz, Nat2N.id.
  match goal with |- context [?F (List.length _) (pairs_bytes _) []] =>
    change F with (pairs_loop (fun l => ([mk "removemapping" ctx [AN (h_nodeid (qhdr q)); APairs l]], unit_reply fr))) end.
  rewrite (pairs_loop_ok _ _ Hprs). cbn [rev app].
  finish.
Qed.

(* ------------------------------------------------------------------ all handlers *)
Lemma handlers_all_exact : Forall (fun e => handler_exact (fst e) (snd e)) handlers.
Proof.
  unfold handlers.
  repeat (apply Forall_cons; [cbn [fst snd];
    first [exact ex_lookup|exact ex_forget|exact ex_getattr|exact ex_setattr|exact ex_readlink
          |exact ex_symlink|exact ex_mknod|exact ex_mkdir|exact ex_unlink|exact ex_rmdir
          |exact ex_rename|exact ex_rename2|exact ex_link|exact ex_open|exact ex_read|exact ex_write
          |exact ex_statfs|exact ex_release|exact ex_fsync|exact ex_setxattr|exact ex_getxattr
          |exact ex_listxattr|exact ex_removexattr|exact ex_flush|exact ex_opendir|exact ex_readdir
          |exact ex_readdirplus|exact ex_releasedir|exact ex_fsyncdir|exact ex_getlk|exact ex_setlk
          |exact ex_setlkw|exact ex_access|exact ex_create|exact ex_interrupt|exact ex_bmap
          |exact ex_destroy|exact ex_ioctl|exact ex_poll|exact ex_notify_reply|exact ex_batch_forget
          |exact ex_fallocate|exact ex_lseek|exact ex_setupmapping|exact ex_removemapping]|]).
  apply Forall_nil.
Qed.

