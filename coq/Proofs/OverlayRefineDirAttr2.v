(* Per-operation refinement: chmod / setxattr / removexattr (names other than the opaque markers) / open for writing / write /
   truncate of
   - the ROOT directory (always a directory of the upper layer; Proofs/OverlayRefineDirAttr.v needs a parent), and
   - a visible directory that the upper layer does not hold: the directory chain is copied up first (hypothesis [cu_okb], now
     including the directory itself), then the upper copy is changed.  By re-running (Proofs/OverlayRefineRerun.v): from the
     state after the copy-up the operation is the one of Proofs/OverlayRefineDirAttr.v. *)
From Coq Require Import List String Arith NArith Bool Lia.
From FB Require Import Model.Overlay Proofs.OverlayInv Proofs.OverlayScan Proofs.OverlayRestart
  Proofs.OverlayReadOnly Proofs.OverlayCoh Proofs.OverlayCohView Proofs.OverlayCopyUp Proofs.OverlayCohOps
  Proofs.OverlayCohSteps Proofs.OverlayRefineTeq Proofs.OverlayRefineMerge Proofs.OverlayRefineRun Proofs.OverlayRefine
  Proofs.OverlayRefineWh Proofs.OverlayRefineCu Proofs.OverlayRefineCuFile Proofs.OverlayRefineDirAttr Proofs.OverlayRefineCuRm
  Proofs.OverlayRefineFail Proofs.OverlayRefineRead Proofs.OverlayRefineFail2 Proofs.OverlayRefineRerun.
Import ListNotations.
Local Open Scope N_scope.

(* ------------------------------------------------------------------ the root *)
Lemma dattr_merge_root u ls g mv : is_dirT u = true -> dir_hide_comm g -> merge (u :: ls) = Some mv -> merge (g u :: ls) = Some (g mv).
Proof.
  intros Hd Hg Hm. destruct u as [m x ch| | |]; try discriminate. destruct (Hg m x) as (m' & x' & G1 & G2 & Go).
  rewrite G1. unfold merge in *. change DEPTH with (S 11) in *. cbn [resolve] in *. inversion Hm; subst mv. rewrite G2. f_equal. f_equal.
  cbn [dir_stack]. rewrite Go. destruct (xs_opaque x); reflexivity.
Qed.

Theorem refines_dattr_root s o og r u m x ch v :
  Coherent s -> dattr_eff o m x = Some ([], og, r) -> upper s = Some u -> u = Dir m x ch -> view (load_all s) = Some v -> refines_at s o v.
Proof.
  intros HC Ho Hu Eu Hv.
  assert (Hp : tget u [] = Some (Dir m x ch)) by (rewrite Eu; reflexivity).
  destruct (step_dattr_run o [] og r s u m x ch Ho HC Hu Hp) as (s' & Hrun & Hu' & Hl').
  unfold refines_at, run_op. rewrite Hrun. cbn [fst snd].
  pose proof (coherent_wf_layers s u HC Hu) as W.
  destruct (refine_from_disk s o v _ s' HC (dattr_eff_coh _ _ _ _ _ _ Ho) Hv Hrun) as [R T]; [|cbv zeta; auto].
  intros mv Hm. rewrite Hu in Hm. cbn [all_layers] in Hm. rewrite Hu', Hl'. cbn [all_layers]. cbv zeta.
  assert (Wmv : wf mv) by (eapply resolve_wf; [exact W|exact Hm]).
  assert (HT : exists chT, tget mv [] = Some (Dir m (user_xs x) chT)).
  { subst u. unfold merge in Hm. change DEPTH with (S 11) in Hm. cbn [resolve] in Hm. inversion Hm. cbn [tget]. eexists. reflexivity. }
  destruct HT as [chT HT].
  rewrite (fs_apply_dattr o m x _ _ r mv (next_ino s) chT Ho HT). cbn [fst snd f_tree]. split; [destruct r; reflexivity|].
  destruct og as [g|].
  - cbn [tupd]. rewrite (dattr_merge_root u (lowers s) g mv (ltac:(subst u; reflexivity)) (dattr_eff_comm _ _ _ _ _ _ Ho) Hm). cbn [oteq].
    apply teq_refl. assert (E : merge (g u :: lowers s) = Some (g mv)) by (apply dattr_merge_root; [subst u; reflexivity|exact (dattr_eff_comm _ _ _ _ _ _ Ho)|exact Hm]).
    eapply resolve_wf; [|exact E]. inversion W as [|? ? Wu Wl]; subst. constructor; [|exact Wl].
    destruct (dattr_eff_comm _ _ _ _ _ _ Ho m x) as (m' & x' & G1 & _). rewrite G1. inversion Wu; subst. constructor; assumption.
  - rewrite Hm. cbn [oteq]. apply teq_refl. exact Wmv.
Qed.

(* ------------------------------------------------------------------ a visible directory that the upper layer does not hold *)
Definition dattr_op_path (o : op) : option path :=
  match o with
  | OChmod p _ | OWrite p _ _ | OTruncate p _ | OSetxattr p _ _ | ORemovexattr p _ => Some p
  | OOpen p fl => if of_readonly fl then None else Some p
  | _ => None
  end.

Lemma bind_congr {A B} (m : M A) (f : A -> M B) s s' : m s = m s' -> bind m f s = bind m f s'.
Proof. unfold bind. intros ->. reflexivity. Qed.

(* the operation runs from [s] as it does from the state [s3] after the copy-up *)
Lemma dattr_rerun o (p : path) s u m x ch rest : dattr_op_path o = Some p ->
  Coherent s -> upper s = Some u -> visp (u :: lowers s) [] p -> mstack (u :: lowers s) p = Dir m x ch :: rest -> tget u p = None ->
  (List.length p < DEPTH)%nat -> cu_disk_ok u (lowers s) p ->
  exists s3 u3 m3 x3 ch3, step o s = step o s3 /\ Coherent s3 /\ upper s3 = Some u3 /\ lowers s3 = lowers s /\ next_ino s3 = next_ino s /\
    oteq (merge (u3 :: lowers s)) (merge (u :: lowers s)) /\ tget u3 p = Some (Dir m3 x3 ch3).
Proof.
  intros Ho HC Hu Hvis Hms Hnoup Hdep Hcu.
  destruct (target_run p s u _ rest HC Hu Hvis Hms eq_refl) as (s1 & s2 & n2 & r2 & rs2 & E1 & HC1 & Hsd1 & Elk & HC2 & Hsd2 & Hg2 & Hw2 & Er2 & Hrt2 & Hst2 & Hld2).
  specialize (Hld2 eq_refl). pose proof Hsd1 as (U1 & L1 & I1). pose proof Hsd2 as (U2 & L2 & I2).
  assert (Hu1 : upper s1 = Some u) by congruence. assert (Hu2 : upper s2 = Some u) by congruence.
  assert (Hin2 : in_upper n2 = false).
  { destruct (in_upper n2) eqn:E; [|reflexivity]. rewrite (upper_dir_of_node s2 u p n2 _ HC2 Hu2 Hg2 E Hst2) in Hnoup. discriminate. }
  destruct (cu_prestate p s2 u n2 m x ch HC2 Hu2 Hg2 Hst2 Hld2 Hdep) as (s3 & u3 & pn3 & pr & prs & m3 & x3 & ch3 & Ecu & HC3 & Hu3 & L3 & I3 & M3 & _ & Hg3 & Hld3 & Hw3 & Er3 & Hup3 & _ & _ & Hpp3 & _ & _ & W3 & Cu3 & Lk3);
    [rewrite L2; exact Hcu|].
  exists s3, u3, m3, x3, ch3. rewrite L2 in M3.
  split; [|split; [exact HC3|split; [exact Hu3|split; [congruence|split; [congruence|split; [exact M3|exact Hpp3]]]]]].
  assert (Hin3 : in_upper pn3 = true) by (unfold in_upper; rewrite Er3; exact Hup3).
  pose proof (need_upper_ok s1 u Hu1) as Nu1. pose proof (need_upper_ok s3 u3 Hu3) as Nu3.
  assert (Enc : node_checked p s1 = (Ok tt, s2)).
  { unfold node_checked. rewrite (bind_ok _ _ _ _ _ Elk), (bind_ok _ _ _ _ _ (get_node_ok p s2 n2 Hg2)), Hw2. reflexivity. }
  assert (Enc3 : node_checked p s3 = (Ok tt, s3)).
  { unfold node_checked. rewrite (bind_ok _ _ _ _ _ (Lk3 None)), (bind_ok _ _ _ _ _ (get_node_ok p s3 pn3 Hg3)), Hw3. reflexivity. }
  assert (Eens : forall (K : M string), (n <- get_node p;; (if in_upper n then ret tt else copy_node_up p);;; K) s2 = K s3).
  { intros K. rewrite (bind_ok _ _ _ _ _ (get_node_ok p s2 n2 Hg2)), Hin2, (bind_ok _ _ _ _ _ Ecu). reflexivity. }
  assert (Eens3 : forall (K : M string), (n <- get_node p;; (if in_upper n then ret tt else copy_node_up p);;; K) s3 = K s3).
  { intros K. rewrite (bind_ok _ _ _ _ _ (get_node_ok p s3 pn3 Hg3)), Hin3. reflexivity. }
  assert (Eopen : forall fl, of_readonly fl = false -> do_open p fl s1 = do_open p fl s3).
  { intros fl Hro. unfold do_open. rewrite (bind_ok _ _ _ _ _ (Lk3 None)), (bind_ok _ _ _ _ _ (get_node_ok p s3 pn3 Hg3)), Hw3, Hro, (bind_ok _ _ _ _ _ Cu3).
    rewrite (bind_ok _ _ _ _ _ Elk), (bind_ok _ _ _ _ _ (get_node_ok p s2 n2 Hg2)), Hw2, (bind_ok _ _ _ _ _ Ecu). reflexivity. }
  unfold walk in *.
  destruct o; cbn [dattr_op_path] in Ho; try discriminate; cbn [step].
  - (* open for writing *) destruct (of_readonly fl) eqn:Hro; [discriminate|]. inversion Ho; subst p0.
    unfold walk. rewrite (bind_ok _ _ _ _ _ E1), (bind_ok _ _ _ _ _ W3). apply bind_congr. exact (Eopen fl Hro).
  - (* write *) inversion Ho; subst p0. unfold walk. rewrite (bind_ok _ _ _ _ _ E1), (bind_ok _ _ _ _ _ W3).
    apply bind_congr. exact (Eopen OF_W eq_refl).
  - (* chmod *) inversion Ho; subst p0. unfold walk.
    rewrite (bind_ok _ _ _ _ _ E1), (bind_ok _ _ _ _ _ Nu1), (bind_ok _ _ _ _ _ Elk), Eens.
    rewrite (bind_ok _ _ _ _ _ W3), (bind_ok _ _ _ _ _ Nu3), (bind_ok _ _ _ _ _ (Lk3 None)), Eens3. reflexivity.
  - (* truncate *) inversion Ho; subst p0. unfold walk.
    rewrite (bind_ok _ _ _ _ _ E1), (bind_ok _ _ _ _ _ Nu1), (bind_ok _ _ _ _ _ Elk), Eens.
    rewrite (bind_ok _ _ _ _ _ W3), (bind_ok _ _ _ _ _ Nu3), (bind_ok _ _ _ _ _ (Lk3 None)), Eens3. reflexivity.
  - (* setxattr *) inversion Ho; subst p0. unfold walk.
    rewrite (bind_ok _ _ _ _ _ E1), (bind_ok _ _ _ _ _ Enc), Eens. rewrite (bind_ok _ _ _ _ _ W3), (bind_ok _ _ _ _ _ Enc3), Eens3. reflexivity.
  - (* removexattr *) inversion Ho; subst p0. unfold walk.
    rewrite (bind_ok _ _ _ _ _ E1), (bind_ok _ _ _ _ _ Enc), Eens. rewrite (bind_ok _ _ _ _ _ W3), (bind_ok _ _ _ _ _ Enc3), Eens3. reflexivity.
Qed.

(* [direct_dattr_more s o]: chmod / setxattr / removexattr (not an opaque marker) / open for writing / write / truncate of the root, or of
   a visible directory that the upper layer does not hold and whose chain - the directory included - satisfies [cu_okb] *)
Definition direct_dattr_more (s : state) (o : op) : bool :=
  match upper s with
  | None => false
  | Some u =>
      let L := u :: lowers s in
      let chk (p : path) :=
        match p with
        | [] => true
        | _ => (List.length p <? DEPTH)%nat && visb L [] p && match tget u p with None => true | Some _ => false end &&
               match mstack L p with Dir _ _ _ :: _ => true | _ => false end && cu_okb u (lowers s) p
        end in
      match o with
      | OChmod p _ | OWrite p _ _ | OTruncate p _ => chk p
      | OOpen p fl => negb (of_readonly fl) && chk p
      | OSetxattr p k _ | ORemovexattr p k => negb (is_opq_name k) && chk p
      | _ => false
      end
  end.

Theorem op_refines_dattr_more s o v : Coherent s -> direct_dattr_more s o = true -> view (load_all s) = Some v -> refines_at s o v.
Proof.
  intros HC Hd Hv. unfold direct_dattr_more in Hd. destruct (upper s) as [u|] eqn:Hu; [|discriminate]. cbv zeta in Hd.
  pose proof (coherent_layers_ok s HC) as Hok. rewrite Hu in Hok. cbn [all_layers] in Hok.
  assert (Hmain : forall p, match p with
        | [] => true
        | _ => (List.length p <? DEPTH)%nat && visb (u :: lowers s) [] p && match tget u p with None => true | Some _ => false end &&
               match mstack (u :: lowers s) p with Dir _ _ _ :: _ => true | _ => false end && cu_okb u (lowers s) p
        end = true -> dattr_op_path o = Some p -> (forall md xd, exists og r, dattr_eff o md xd = Some (p, og, r)) -> refines_at s o v).
  { intros p H Hop Ho. destruct p as [|a p'].
    - destruct (Forall_inv Hok) as [_ Hdu]. destruct u as [m x ch| | |] eqn:Eu; try discriminate. destruct (Ho m x) as (og & r & Hoe).
      exact (refines_dattr_root s o og r _ m x ch v HC Hoe Hu eq_refl Hv).
    - set (p := a :: p') in *.
      apply andb_prop in H. destruct H as [H H5]. apply andb_prop in H. destruct H as [H H4]. apply andb_prop in H. destruct H as [H H3].
      apply andb_prop in H. destruct H as [H1 H2]. apply Nat.ltb_lt in H1.
      destruct (tget u p) eqn:Hnoup; [discriminate|]. destruct (mstack (u :: lowers s) p) as [|[m x ch| | |] rest] eqn:Hms; try discriminate.
      destruct (dattr_rerun o p s u m x ch rest Hop HC Hu (visb_visp _ _ _ H2) Hms Hnoup H1 (cu_okb_ok _ _ _ H5)) as (s3 & u3 & m3 & x3 & ch3 & Hrun & HC3 & Hu3 & L3 & I3 & M3 & Hp3).
      destruct (views_teq s s3 u u3 v HC HC3 Hu Hu3 L3 M3 Hv) as (v3 & Hv3 & T3).
      apply (refines_transfer s s3 o v v3 Hrun L3 I3 T3). apply (op_refines_dattr s3 o v3 HC3); [|exact Hv3].
      unfold direct_dattr. rewrite Hu3. cbv zeta.
      assert (Hchk : (List.length p <? DEPTH)%nat && match split_last p with Some _ => true | None => false end &&
                     match tget u3 p with Some (Dir _ _ _) => true | _ => false end = true).
      { rewrite Hp3, (proj2 (Nat.ltb_lt _ _) H1). destruct (split_last p) eqn:E; [reflexivity|]. apply split_last_none in E. discriminate. }
      destruct o; cbn [dattr_op_path] in Hop; try discriminate.
      + destruct (of_readonly fl); [discriminate|]. inversion Hop; subst. exact Hchk.
      + inversion Hop; subst. exact Hchk.
      + inversion Hop; subst. exact Hchk.
      + inversion Hop; subst. exact Hchk.
      + inversion Hop; subst. destruct (Ho 0 []) as (og & r & Hoe). cbn [dattr_eff] in Hoe. destruct (is_opq_name k); [discriminate|]. exact Hchk.
      + inversion Hop; subst. destruct (Ho 0 []) as (og & r & Hoe). cbn [dattr_eff] in Hoe. destruct (is_opq_name k); [discriminate|]. exact Hchk. }
  destruct o; try discriminate.
  - apply andb_prop in Hd. destruct Hd as [Hro Hd]. apply negb_true_iff in Hro. apply (Hmain p Hd); [cbn [dattr_op_path]; rewrite Hro; reflexivity|].
    intros md xd. cbn [dattr_eff]. rewrite Hro. eauto.
  - apply (Hmain p Hd); [reflexivity|]. intros md xd. cbn [dattr_eff]. eauto.
  - apply (Hmain p Hd); [reflexivity|]. intros md xd. cbn [dattr_eff]. eauto.
  - apply (Hmain p Hd); [reflexivity|]. intros md xd. cbn [dattr_eff]. eauto.
  - apply andb_prop in Hd. destruct Hd as [Hk Hd]. apply negb_true_iff in Hk. apply (Hmain p Hd); [reflexivity|]. intros md xd. cbn [dattr_eff]. rewrite Hk. eauto.
  - apply andb_prop in Hd. destruct Hd as [Hk Hd]. apply negb_true_iff in Hk. apply (Hmain p Hd); [reflexivity|]. intros md xd. cbn [dattr_eff]. rewrite Hk. destruct (afind k xd); eauto.
Qed.
