(* C02: the hand model's handlers (Model/Server.v, h_<name>) make exactly the filesystem call the SOURCE's handler
   bodies make.  Gen/RustHandlers.v is re-translated from src/api/server/sync_io.rs on every run
   (translator/server_handlers.py): per dispatch arm the request reads, the tests guarding the call, and the call
   as a function of the decoded request (fields by NAME through the translated layouts).  Here: for ALL
   configurations, headers, contexts, request bodies, filesystem answers and reply capacities,

       fst (h_<name> op cfg h ctx r fr wcap) = src_calls <table row> cfg h ctx r wcap.

   The proofs are semantic: the request reads are case-split in lock step on both sides, field accesses by name are
   reduced through the layout, guards are compared by arithmetic (lia); nothing depends on how the Rust text spells
   a local, orders independent lets, or parenthesises a test. *)
From Coq Require Import List String NArith Bool Lia Arith ZifyBool ZifyNat ZifyN.
From FB Require Import Lib.Bytes Lib.Layout Gen.RustABI Model.Server Model.ServerSrc Gen.RustHandlers.
Import ListNotations.
Local Open Scope string_scope.
Local Open Scope list_scope.
Local Open Scope N_scope.

Definition src_tie (e : src_entry) (f : handler_fn) : Prop :=
  forall cfg h ctx r fr wcap, bytes_ok r ->
    fst (f cfg h ctx r fr wcap) = src_calls e cfg h ctx r wcap.

Definition src_entry_for (op : N) : option src_entry := find (fun e => se_op e =? op) src_handlers.

(* the row of opcode [op] in the translated table describes the model's handler for [op] *)
Definition tie_stmt (op : N) : Prop :=
  match src_entry_for op, find_handler op handlers with
  | Some e, Some f => src_tie e f
  | _, _ => False
  end.

(* ------------------------------------------------------------------ bytes stay bytes; fields are bounded *)
Lemma bytes_ok_firstn n (l : bytes) : bytes_ok l -> bytes_ok (firstn n l).
Proof.
  unfold bytes_ok. revert n. induction l as [|x l IH]; intros [|n] H; cbn; try constructor.
  - inversion H; assumption.
  - apply IH. inversion H; assumption.
Qed.

Lemma bytes_ok_skipn n (l : bytes) : bytes_ok l -> bytes_ok (skipn n l).
Proof.
  unfold bytes_ok. revert n. induction l as [|x l IH]; intros [|n] H; cbn; try assumption.
  apply IH. inversion H; assumption.
Qed.

Lemma read_obj_ok n r s r' : bytes_ok r -> read_obj n r = Some (s, r') -> bytes_ok s /\ bytes_ok r'.
Proof.
  unfold read_obj. intros Hok H. destruct (Nat.ltb (List.length r) n); [discriminate|].
  injection H as <- <-. split; [apply bytes_ok_firstn|apply bytes_ok_skipn]; assumption.
Qed.

Lemma fld_bound (s : bytes) (w o : nat) : bytes_ok s -> dec (firstn w (skipn o s)) < 2 ^ (8 * N.of_nat w).
Proof.
  intro H. pose proof (dec_bound (firstn w (skipn o s)) (bytes_ok_firstn _ _ (bytes_ok_skipn _ _ H))) as B.
  pose proof (firstn_le_length w (skipn o s)) as L.
  eapply N.lt_le_trans; [exact B|]. apply N.pow_le_mono_r; lia.
Qed.

(* ------------------------------------------------------------------ the proof procedure *)
Ltac norm_sizes :=
  repeat match goal with
  | |- context [N.of_nat (rsize ?s)] => let v := eval vm_compute in (N.of_nat (rsize s)) in change (N.of_nat (rsize s)) with v
  | |- context [rsize ?s] => let v := eval vm_compute in (rsize s) in change (rsize s) with v
  end.

Ltac norm_rfld :=
  repeat match goal with
  | |- context [rfld ?sn ?fn ?s] =>
    let l := eval vm_compute in (rleaf sn fn) in
    lazymatch l with
    | Some ?lf =>
      let o := eval vm_compute in (N.to_nat (l_off lf)) in
      let w := eval vm_compute in (N.to_nat (l_width lf)) in
      change (rfld sn fn s) with (dec (firstn w (skipn o s)))
    end
  | |- context [rconst ?n] => let v := eval vm_compute in (rconst n) in change (rconst n) with v
  | |- context [rbf ?b ?m] => let v := eval vm_compute in (rbf b m) in change (rbf b m) with v
  | |- context [rbf_all ?b] => let v := eval vm_compute in (rbf_all b) in change (rbf_all b) with v
  end.

Ltac dsimpl := cbn [run_reads app dnth dobj dbuf dname dfirst dsecond nth fst snd].

(* case-split the request reads, in lock step on the model side and the source side *)
Ltac split_reads :=
  repeat (dsimpl; norm_sizes;
    match goal with
    | |- context [read_obj ?n ?r] =>
      let Hr := fresh "Hr" in
      destruct (read_obj n r) as [[? ?]|] eqn:Hr;
      [ match goal with Hok : bytes_ok r |- _ => destruct (read_obj_ok _ _ _ _ Hok Hr) end | ]
    | |- context [get_message_body ?r ?l ?s] => destruct (get_message_body r l s) eqn:?
    | |- context [bytes_to_cstr ?b] => destruct (bytes_to_cstr b) eqn:?
    | |- context [extract_two_cstrs ?b] => destruct (extract_two_cstrs b) as [?|[? ?]] eqn:?
    end; dsimpl; try reflexivity).

Ltac pose_bounds :=
  repeat match goal with
  | |- context [dec (firstn ?w (skipn ?o ?s))] =>
    lazymatch goal with
    | Hb : dec (firstn w (skipn o s)) < _ |- _ => fail
    | Hs : bytes_ok s |- _ =>
      let B := eval vm_compute in (2 ^ (8 * N.of_nat w)) in
      assert (dec (firstn w (skipn o s)) < B) by (exact (fld_bound s w o Hs))
    end
  end.

(* canonical spelling of commutative tests, so that harmless respellings agree syntactically *)
Ltac is_lit t := match t with N0 => idtac | Npos _ => idtac end.
Ltac fold_closed op a b :=
  let v := eval vm_compute in (op a b) in (is_lit v; change (op a b) with v).
Ltac semnorm :=
  repeat match goal with
  | |- context [N.lor ?a ?b] => fold_closed N.lor a b
  | |- context [N.land ?a ?b] => fold_closed N.land a b
  | |- context [N.lxor ?a ?b] => fold_closed N.lxor a b
  | |- context [N.shiftl ?a ?b] => fold_closed N.shiftl a b
  | |- context [N.land ?c ?x] => is_lit c; (tryif is_lit x then fail else rewrite (N.land_comm c x))
  | |- context [N.lor ?c ?x] => is_lit c; (tryif is_lit x then fail else rewrite (N.lor_comm c x))
  | |- context [?c =? ?x] => is_lit c; (tryif is_lit x then fail else rewrite (N.eqb_sym c x))
  | |- context [negb (negb ?b)] => rewrite (negb_involutive b)
  | |- context [if ?b then true else false] => replace (if b then true else false) with b by (destruct b; reflexivity)
  | |- context [if ?b then false else true] => replace (if b then false else true) with (negb b) by (destruct b; reflexivity)
  end.

(* `let st: stat64 = setattr_in.into()`: expose the casts of the translated conversion table and evaluate their
   closed width tests *)
Ltac norm_conv :=
  lazymatch goal with
  | |- context [conv_args _ _ _] =>
    cbv beta iota zeta delta [conv_args map stat_logged conv_row rust_conv_stat_of_setattr String.eqb Ascii.eqb
                              Bool.eqb last_ity cast_chain cast1 fst snd];
    repeat match goal with
    | |- context [?a <=? ?b] =>
      let v := eval vm_compute in (a <=? b) in
      lazymatch v with true => idtac | false => idtac end;
      change (a <=? b) with v; cbv beta iota
    end;
    cbn [andb]; cbv beta iota;
    repeat match goal with
    | |- context [2 ^ ?k] =>
      let v := eval vm_compute in (2 ^ k) in
      lazymatch v with Npos _ => idtac end;
      change (2 ^ k) with v
    end
  | |- _ => idtac
  end.

Ltac split_guards :=
  repeat match goal with
  | |- context [if ?c then ?a else _] =>
    let T := type of a in
    first [unify T decision | unify T (list call)];
    destruct c eqn:?
  end.

Ltac leaves :=
  first
  [ reflexivity
  | exfalso; lia
  | repeat (f_equal; try reflexivity);
    repeat match goal with |- context [?x mod ?m] => rewrite (N.mod_small x m) by (assumption || lia) end;
    try reflexivity;
    repeat match goal with |- context [if ?c then _ else _] => destruct c eqn:? end;
    first [reflexivity | lia | exfalso; lia | congruence] ].

Ltac tie :=
  unfold tie_stmt;
  cbv beta iota delta [src_entry_for find src_handlers se_op N.eqb Pos.eqb find_handler handlers];
  lazymatch goal with
  | |- src_tie {| se_op := _; se_fn := _; se_reads := ?rd; se_guard := ?g; se_call := ?c |} _ =>
    unfold src_tie, src_calls; cbv beta iota delta [se_reads se_guard se_call]; unfold rd, g, c
  end;
  let cfg := fresh "cfg" in let h := fresh "h" in let ctx := fresh "ctx" in let r := fresh "r" in
  let fr := fresh "fr" in let wcap := fresh "wcap" in let Hok := fresh "Hok" in
  intros cfg h ctx r fr wcap Hok;
  norm_sizes;
  lazymatch goal with |- fst (?f _ _ _ _ _ _ _) = _ => unfold f end;
  unfold with_obj, with_name; cbv beta zeta; cbn [N.eqb Pos.eqb];
  split_reads;
  first
  [ reflexivity
  | unfold land32, OUT_HDR, u16, u32, u64 in *; norm_rfld; norm_conv; norm_rfld; pose_bounds; semnorm;
    split_guards; dsimpl; leaves ].

(* ------------------------------------------------------------------ handlers that read a counted list of pairs *)
(* the model's inline pair-reading loop = read_many *)
Lemma go_read_many (k : list (N * N) -> decision) : forall n rr acc,
  (fix go (n : nat) (rr : bytes) (acc : list (N * N)) {struct n} : decision :=
     match n with
     | O => k (rev acc)
     | S n' => match read_obj 16 rr with
               | None => ([], NoReply (RErr EDecodeMessage))
               | Some (o, rr') => go n' rr' ((u64 0 o, u64 8 o) :: acc)
               end
     end) n rr acc =
  match read_many n 16 rr with
  | None => ([], NoReply (RErr EDecodeMessage))
  | Some (os, _) => k (rev acc ++ map (fun o => (u64 0 o, u64 8 o)) os)
  end.
Proof.
  induction n as [|n IH]; intros rr acc.
  - cbn [read_many map]. rewrite app_nil_r. reflexivity.
  - cbn [read_many]. destruct (read_obj 16 rr) as [[o rr']|]; [|reflexivity].
    rewrite IH. destruct (read_many n 16 rr') as [[os rest]|]; [|reflexivity].
    cbn [map rev]. rewrite <- app_assoc. reflexivity.
Qed.


Ltac fold_consts :=
  repeat match goal with
  | |- context [rsconst ?n] => let v := eval vm_compute in (rsconst n) in change (rsconst n) with v
  | |- context [?a mod ?b] => fold_closed N.modulo a b
  | |- context [?a + ?b] => fold_closed N.add a b
  | |- context [?a - ?b] => fold_closed N.sub a b
  | |- context [?a * ?b] => fold_closed N.mul a b
  end.

Ltac tie_loop hname k :=
  unfold tie_stmt;
  cbv beta iota delta [src_entry_for find src_handlers se_op N.eqb Pos.eqb find_handler handlers];
  lazymatch goal with
  | |- src_tie {| se_op := _; se_fn := _; se_reads := ?rd; se_guard := ?g; se_call := ?c |} _ =>
    unfold src_tie, src_calls; cbv beta iota delta [se_reads se_guard se_call]; unfold rd, g, c
  end;
  let cfg := fresh "cfg" in let h := fresh "h" in let ctx := fresh "ctx" in let r := fresh "r" in
  let fr := fresh "fr" in let wcap := fresh "wcap" in let Hok := fresh "Hok" in
  intros cfg h ctx r fr wcap Hok;
  unfold hname, with_obj; cbv beta zeta;
  lazymatch goal with
  | |- context [cfg_vu_req cfg] =>
    destruct (cfg_vu_req cfg) eqn:?;
    [|cbn [fst andb]; repeat (dsimpl; norm_sizes; match goal with |- context [match ?x with _ => _ end] => destruct x as [[? ?]|] end);
      reflexivity]
  | |- _ => idtac
  end;
  dsimpl; norm_sizes;
  match goal with
  | |- context [read_obj ?n r] =>
    let Hr := fresh "Hr" in
    destruct (read_obj n r) as [[? ?]|] eqn:Hr; [destruct (read_obj_ok _ _ _ _ Hok Hr)|reflexivity]
  end;
  dsimpl; norm_sizes;
  rewrite (go_read_many (k h ctx fr));
  unfold u32, MAX_BUFFER_SIZE, BUFFER_HEADER_SIZE, IN_HDR in *; norm_rfld;
  match goal with |- context [read_many ?n ?z ?rr] => destruct (read_many n z rr) as [[? ?]|] end;
  dsimpl; norm_rfld; fold_consts; pose_bounds;
  split_guards; cbn [fst rev app andb]; first [reflexivity | exfalso; lia].

(* ------------------------------------------------------------------ one lemma per dispatch arm *)
Lemma h_lookup_calls_src : tie_stmt 1. Proof. tie. Qed.
Lemma h_forget_calls_src : tie_stmt 2. Proof. tie. Qed.
Lemma h_getattr_calls_src : tie_stmt 3. Proof. tie. Qed.
Lemma h_setattr_calls_src : tie_stmt 4. Proof. tie. Qed.
Lemma h_readlink_calls_src : tie_stmt 5. Proof. tie. Qed.
Lemma h_symlink_calls_src : tie_stmt 6. Proof. tie. Qed.
Lemma h_mknod_calls_src : tie_stmt 8. Proof. tie. Qed.
Lemma h_mkdir_calls_src : tie_stmt 9. Proof. tie. Qed.
Lemma h_unlink_calls_src : tie_stmt 10. Proof. tie. Qed.
Lemma h_rmdir_calls_src : tie_stmt 11. Proof. tie. Qed.
Lemma h_rename_calls_src : tie_stmt 12. Proof. tie. Qed.
Lemma h_link_calls_src : tie_stmt 13. Proof. tie. Qed.
Lemma h_open_calls_src : tie_stmt 14. Proof. tie. Qed.
Lemma h_read_calls_src : tie_stmt 15. Proof. tie. Qed.
Lemma h_write_calls_src : tie_stmt 16. Proof. tie. Qed.
Lemma h_statfs_calls_src : tie_stmt 17. Proof. tie. Qed.
Lemma h_release_calls_src : tie_stmt 18. Proof. tie. Qed.
Lemma h_fsync_calls_src : tie_stmt 20. Proof. tie. Qed.
Lemma h_getxattr_calls_src : tie_stmt 22. Proof. tie. Qed.
Lemma h_listxattr_calls_src : tie_stmt 23. Proof. tie. Qed.
Lemma h_removexattr_calls_src : tie_stmt 24. Proof. tie. Qed.
Lemma h_flush_calls_src : tie_stmt 25. Proof. tie. Qed.
Lemma h_opendir_calls_src : tie_stmt 27. Proof. tie. Qed.
Lemma h_readdir_calls_src : tie_stmt 28. Proof. tie. Qed.
Lemma h_releasedir_calls_src : tie_stmt 29. Proof. tie. Qed.
Lemma h_fsyncdir_calls_src : tie_stmt 30. Proof. tie. Qed.
Lemma h_getlk_calls_src : tie_stmt 31. Proof. tie. Qed.
Lemma h_setlk_calls_src : tie_stmt 32. Proof. tie. Qed.
Lemma h_setlkw_calls_src : tie_stmt 33. Proof. tie. Qed.
Lemma h_access_calls_src : tie_stmt 34. Proof. tie. Qed.
Lemma h_create_calls_src : tie_stmt 35. Proof. tie. Qed.
Lemma h_interrupt_calls_src : tie_stmt 36. Proof. tie. Qed.
Lemma h_bmap_calls_src : tie_stmt 37. Proof. tie. Qed.
Lemma h_destroy_calls_src : tie_stmt 38. Proof. tie. Qed.
Lemma h_poll_calls_src : tie_stmt 40. Proof. tie. Qed.
Lemma h_notify_reply_calls_src : tie_stmt 41. Proof. tie. Qed.
Lemma h_batch_forget_calls_src : tie_stmt 42.
Proof.
  tie_loop h_batch_forget (fun (h : hdr) (ctx : N * N * N) (fr : fsres) (l : list (N * N)) => ([mk "batch_forget" ctx [APairs l]], NoReply (ROk 0))).
Qed.
Lemma h_fallocate_calls_src : tie_stmt 43. Proof. tie. Qed.
Lemma h_readdirplus_calls_src : tie_stmt 44. Proof. tie. Qed.
Lemma h_rename2_calls_src : tie_stmt 45. Proof. tie. Qed.
Lemma h_lseek_calls_src : tie_stmt 46. Proof. tie. Qed.
Lemma h_setupmapping_calls_src : tie_stmt 48. Proof. tie. Qed.
Lemma h_removemapping_calls_src : tie_stmt 49.
Proof.
  tie_loop h_removemapping (fun (h : hdr) (ctx : N * N * N) (fr : fsres) (l : list (N * N)) =>
     ([mk "removemapping" ctx [AN (h_nodeid h); APairs l]], unit_reply fr)).
Qed.

(* ------------------------------------------------------------------ the whole table *)
Definition tie_ok (e : src_entry) : Prop :=
  match find_handler (se_op e) handlers with Some f => src_tie e f | None => False end.

Theorem src_ties_all : Forall tie_ok src_handlers.
Proof.
  unfold src_handlers.
  apply Forall_cons; [exact h_lookup_calls_src|].
  apply Forall_cons; [exact h_forget_calls_src|].
  apply Forall_cons; [exact h_getattr_calls_src|].
  apply Forall_cons; [exact h_setattr_calls_src|].
  apply Forall_cons; [exact h_readlink_calls_src|].
  apply Forall_cons; [exact h_symlink_calls_src|].
  apply Forall_cons; [exact h_mknod_calls_src|].
  apply Forall_cons; [exact h_mkdir_calls_src|].
  apply Forall_cons; [exact h_unlink_calls_src|].
  apply Forall_cons; [exact h_rmdir_calls_src|].
  apply Forall_cons; [exact h_rename_calls_src|].
  apply Forall_cons; [exact h_link_calls_src|].
  apply Forall_cons; [exact h_open_calls_src|].
  apply Forall_cons; [exact h_read_calls_src|].
  apply Forall_cons; [exact h_write_calls_src|].
  apply Forall_cons; [exact h_statfs_calls_src|].
  apply Forall_cons; [exact h_release_calls_src|].
  apply Forall_cons; [exact h_fsync_calls_src|].
  apply Forall_cons; [exact h_getxattr_calls_src|].
  apply Forall_cons; [exact h_listxattr_calls_src|].
  apply Forall_cons; [exact h_removexattr_calls_src|].
  apply Forall_cons; [exact h_flush_calls_src|].
  apply Forall_cons; [exact h_opendir_calls_src|].
  apply Forall_cons; [exact h_readdir_calls_src|].
  apply Forall_cons; [exact h_releasedir_calls_src|].
  apply Forall_cons; [exact h_fsyncdir_calls_src|].
  apply Forall_cons; [exact h_getlk_calls_src|].
  apply Forall_cons; [exact h_setlk_calls_src|].
  apply Forall_cons; [exact h_setlkw_calls_src|].
  apply Forall_cons; [exact h_access_calls_src|].
  apply Forall_cons; [exact h_create_calls_src|].
  apply Forall_cons; [exact h_interrupt_calls_src|].
  apply Forall_cons; [exact h_bmap_calls_src|].
  apply Forall_cons; [exact h_destroy_calls_src|].
  apply Forall_cons; [exact h_poll_calls_src|].
  apply Forall_cons; [exact h_notify_reply_calls_src|].
  apply Forall_cons; [exact h_batch_forget_calls_src|].
  apply Forall_cons; [exact h_fallocate_calls_src|].
  apply Forall_cons; [exact h_readdirplus_calls_src|].
  apply Forall_cons; [exact h_rename2_calls_src|].
  apply Forall_cons; [exact h_lseek_calls_src|].
  apply Forall_cons; [exact h_setupmapping_calls_src|].
  apply Forall_cons; [exact h_removemapping_calls_src|].
  apply Forall_nil.
Qed.

(* every opcode the model dispatches is either tied to the source here or listed by the translator as outside its subset *)
Definition src_table_covers_model : bool :=
  forallb (fun op => existsb (N.eqb op) (map se_op src_handlers) || existsb (N.eqb op) (map fst untranslated_handlers))
          (26 :: map fst handlers).
Lemma src_table_covers : src_table_covers_model = true.
Proof. vm_compute. reflexivity. Qed.

(* the handlers outside the translated subset, pinned: a handler dropping out of the translated table changes this list *)
Lemma src_untranslated_pinned :
  untranslated_handlers = [(21, "setxattr"); (26, "init"); (39, "ioctl")].
Proof. reflexivity. Qed.

Lemma src_table_no_init : forallb (fun e => negb (se_op e =? 26)) src_handlers = true.
Proof. vm_compute. reflexivity. Qed.

(* ------------------------------------------------------------------ at the level of handle_message *)
(* [decide] on any request that passes the header read, the id remap and the size gate, for an opcode of the table:
   the id-remap call, then exactly the calls the source's handler body makes *)
Theorem src_decide_calls : forall e, In e src_handlers ->
  forall cfg req fr wcap hb r du dg,
    bytes_ok req -> read_obj 40 req = Some (hb, r) ->
    h_opcode (parse_hdr hb) = se_op e ->
    cfg_remap cfg = RemapOk du dg ->
    h_len (parse_hdr hb) <= MAX_BUFFER_SIZE + BUFFER_HEADER_SIZE ->
    let h := parse_hdr hb in
    fst (fst (decide cfg req fr wcap)) =
      mk "id_remap" (h_uid h, h_gid h, h_pid h) [AN (h_nodeid h)] ::
      src_calls e cfg h ((h_uid h + du) mod 4294967296, (h_gid h + dg) mod 4294967296, h_pid h) r wcap.
Proof.
  intros e Hin cfg req fr wcap hb r du dg Hok Hrd Hop Hre Hlen h.
  pose proof src_ties_all as HA. rewrite Forall_forall in HA. specialize (HA e Hin). unfold tie_ok in HA.
  pose proof src_table_no_init as HN. rewrite forallb_forall in HN. specialize (HN e Hin).
  destruct (find_handler (se_op e) handlers) as [f|] eqn:Hf; [|contradiction].
  destruct (read_obj_ok _ _ _ _ Hok Hrd) as [_ Hokr].
  unfold decide. rewrite Hrd. fold h. cbv zeta. rewrite Hre.
  destruct (N.ltb_spec (MAX_BUFFER_SIZE + BUFFER_HEADER_SIZE) (h_len h)) as [H|_]; [unfold h in H; lia|].
  fold h in Hop. rewrite Hop.
  destruct (se_op e =? 26) eqn:E26; [discriminate|].
  unfold handler. rewrite Hop, Hf.
  specialize (HA cfg h ((h_uid h + du) mod 4294967296, (h_gid h + dg) mod 4294967296, h_pid h) r fr wcap Hokr).
  destruct (f cfg h _ r fr wcap) as [cs a]. cbn [fst] in *. rewrite HA. reflexivity.
Qed.
