(* save_to_bytes, restore_from_bytes into a freshly constructed Vfs, and restore_mount of every attached backend in
   ANY order: the result is observationally equal to the Vfs that was saved (Proofs/VfsEq.v), whatever the value of
   the index counter (also after it has wrapped), and it satisfies the invariant again, so the round trip can be
   repeated. *)
From Coq Require Import List NArith Bool Lia Permutation.
From FB Require Import Model.Pseudo Gen.VfsTable Model.Vfs Model.Persist Model.VfsRun Model.VfsLive
  Proofs.VfsCodec Proofs.VfsAlloc Proofs.VfsInv Proofs.VfsRouting Proofs.PseudoWalk Proofs.VfsPersist Proofs.PseudoTree
  Proofs.VfsEq Proofs.VfsEqOps Proofs.VfsLiveInv.
Import ListNotations.
Local Open Scope N_scope.

(* ---------- the invariant does not depend on the order of the tables ---------- *)
Lemma wf_veq s t : veq s t -> wf s -> wf t.
Proof.
  intros Q [A B C D]. constructor.
  - rewrite <- (q_next _ _ Q). exact A.
  - intros i b. rewrite <- (q_sb _ _ Q). apply B.
  - intros p m. rewrite <- (q_mps _ _ Q). intros H. destruct (C p m H) as (C1 & C2 & C3 & C4 & C5).
    unfold mp_ok. rewrite <- (q_sb _ _ Q). auto.
  - intros p1 p2 m1 m2. rewrite <- !(q_mps _ _ Q). apply D.
Qed.

Lemma tree_ok_ext a b : tbl_eq a b -> tree_ok a -> NoDup (map fst (ps_inodes b)) -> tree_ok b.
Proof.
  intros E [A B C D F G] ND. constructor.
  - exact ND.
  - destruct B as (cs & Hr). exists cs. rewrite <- (E ROOT_ID). exact Hr.
  - intros i pn. rewrite <- (E i), <- (E (pi_parent pn)). apply C.
  - intros j pn. rewrite <- (E j). apply D.
  - intros j pn. rewrite <- (E j). intros Hj i nm. rewrite (F j pn Hj i nm).
    split; intros (Hn & pi & Hg & Hp); (split; [exact Hn|]); exists pi; [rewrite <- (E i)|rewrite (E i)]; auto.
  - intros j pn. rewrite <- (E j). apply G.
Qed.

Lemma ps_ok_ext a b : tbl_eq a b -> ps_next a = ps_next b -> ps_ok a -> ps_ok b.
Proof.
  intros E Hn (KL & K & Hp). unfold ps_ok, keys_lt, pkids_ok. rewrite <- Hn. repeat split; try assumption.
  - intros i pn. rewrite <- (E i). apply KL.
  - intros i pn. rewrite <- (E i). apply K.
Qed.

Lemma inv_veq c s t live : veq s t -> inv c s live -> NoDup (map fst (ps_inodes (v_ps t))) -> inv c t live.
Proof.
  intros Q [W T P R G L] ND. constructor.
  - apply (wf_veq _ _ Q W).
  - apply (tree_ok_ext _ _ (q_tbl _ _ Q) T ND).
  - apply (ps_ok_ext _ _ (q_tbl _ _ Q) (q_psn _ _ Q) P).
  - rewrite <- (q_rm _ _ Q). exact R.
  - rewrite <- (q_gmap _ _ Q). exact G.
  - apply (live_ok_veq _ _ _ Q L).
Qed.

Lemma live_ok_perm s live live' : Permutation live' live -> live_ok s live -> live_ok s live'.
Proof.
  intros Pm [A B C D E F]. constructor.
  - intros l Hin. apply A. apply (Permutation_in _ Pm Hin).
  - intros l Hin. apply B. apply (Permutation_in _ Pm Hin).
  - intros l Hin. apply C. apply (Permutation_in _ Pm Hin).
  - intros p m H. destruct (D p m H) as (l & Hl & Hp). exists l. split; [apply (Permutation_in _ (Permutation_sym Pm) Hl)|exact Hp].
  - intros i b H. destruct (E i b H) as (l & Hl & Hp). exists l. split; [apply (Permutation_in _ (Permutation_sym Pm) Hl)|exact Hp].
  - apply (Permutation_NoDup (Permutation_map l_pino (Permutation_sym Pm)) F).
Qed.

(* ---------- the rebuilt pseudo table has no duplicate keys ---------- *)
Lemma connect_nodup : forall l tbl tbl', NoDup (map fst tbl) -> connect tbl l = Ok tbl' -> NoDup (map fst tbl').
Proof.
  induction l as [|[[ino parent] nm] r IH]; intros tbl tbl' ND H; [cbn in H; inversion H; subst; exact ND|].
  cbn [connect] in H. destruct (aget ino tbl); [|discriminate]. destruct (aget parent tbl) as [par|]; [|discriminate].
  apply (IH _ _ (aset_nodup _ _ _ ND) H).
Qed.
Lemma fresh_nodup : forall (l : list (N * N * N)) t0, NoDup (map fst t0) ->
  NoDup (map fst (fold_left (fun t x => let '(ino, parent, nm) := x in aset ino (mkPi parent nm []) t) l t0)).
Proof.
  induction l as [|[[i p] nm] r IH]; intros t0 ND; [exact ND|]. cbn [fold_left]. apply IH. apply aset_nodup. exact ND.
Qed.
Lemma ps_restore_nodup target st ps' : ps_restore target st = Ok ps' -> NoDup (map fst (ps_inodes ps')).
Proof.
  unfold ps_restore. destruct (aget ROOT_ID (ps_inodes target)) as [root|]; [|discriminate].
  match goal with |- bind (connect ?tbl ?l) _ = _ -> _ => destruct (connect tbl l) as [tbl'| |] eqn:Ec end; try discriminate.
  cbn [bind]. intros H. inversion H; subst ps'. cbn [ps_inodes].
  apply (connect_nodup _ _ _ (aset_nodup _ _ _ (fresh_nodup _ [] (NoDup_nil _))) Ec).
Qed.

(* ---------- re-attaching ---------- *)
Lemma ser_events_app : forall l1 l2, flat_map ser_event (l1 ++ l2) = flat_map ser_event l1 ++ flat_map ser_event l2.
Proof. intros. apply flat_map_app. Qed.

Section Reattach.
Variable s : vfs.
Variable live : list lv.
Hypothesis W : wf s.
Hypothesis L : live_ok s live.
Hypothesis PR : paths_resolve s live = true.

Lemma path_of_live l : In l live -> ps_path_walk (v_ps s) (l_path l) = Ok (Some (l_pino l)).
Proof.
  intros Hin. unfold paths_resolve in PR. rewrite forallb_forall in PR. specialize (PR l Hin).
  destruct (ps_path_walk (v_ps s) (l_path l)) as [[i|]| |]; try discriminate. apply N.eqb_eq in PR. subst. reflexivity.
Qed.

(* one restore_mount of a recorded backend into a Vfs that has the restored pseudo tree and mappings *)
Lemma reattach_one t l : In l live -> tbl_eq (v_ps t) (v_ps s) -> v_maps t = v_maps s -> v_gmap t = v_gmap s ->
  aget (l_pino l) (v_mps t) = None ->
  exists m, mpd_of s l = Some m /\
    vfs_restore_mount t (l_bid l) (l_idx l) (l_path l) (l_ans l) =
    (mkV (v_next t) (v_ps t) (aset (l_pino l) m (v_mps t)) (aset (l_idx l) (l_bid l) (v_sb t)) (v_maps t) (v_opts t)
         (v_init t) (v_rm t) (v_gmap t), Ok tt, [ev0 (l_bid l) m_mount 0]).
Proof.
  intros Hin E Hmaps Hg Hfree. destruct (lo_mp _ _ L l Hin) as (m & _ & Hm). exists m. split; [exact Hm|].
  destruct (lo_ans _ _ L l Hin) as [He Hx].
  unfold vfs_restore_mount. rewrite He. cbn [N.eqb negb].
  assert (Emax : VFS_MAX_INO <? ma_max (l_ans l) = false) by (apply N.ltb_ge; exact Hx). rewrite Emax.
  unfold insert_mount.
  pose proof (path_of_live l Hin) as Hw. rewrite <- (ps_path_walk_cong _ _ (l_path l) E) in Hw.
  unfold ps_path_walk in Hw. unfold ps_mount. destruct (p_rooted (l_path l)); [|discriminate].
  rewrite (mount_walk_existing _ _ _ _ Hw).
  assert (Ec : convert_entry (with_ps t (v_ps t)) (l_idx l) (e_ino (root_entry_of (l_ans l))) (root_entry_of (l_ans l)) =
               convert_entry s (l_idx l) (ma_ino (l_ans l)) (root_entry_of (l_ans l))).
  { apply convert_entry_eff. unfold effective_mapping. cbn [with_ps v_maps v_gmap]. rewrite Hmaps, Hg. reflexivity. }
  rewrite Ec. unfold mpd_of in Hm.
  destruct (convert_entry s (l_idx l) (ma_ino (l_ans l)) (root_entry_of (l_ans l))) as [e'| |]; try discriminate.
  inversion Hm; subst m. cbn [with_ps v_next v_ps v_mps v_sb v_maps v_opts v_init v_rm v_gmap]. rewrite Hfree. reflexivity.
Qed.

Lemma reattach_ok : forall rest t, (forall l, In l rest -> In l live) -> NoDup (map l_pino rest) ->
  tbl_eq (v_ps t) (v_ps s) -> v_maps t = v_maps s -> v_gmap t = v_gmap s ->
  (forall l, In l rest -> aget (l_pino l) (v_mps t) = None) ->
  exists t', reattach_all t (reattach_of rest) =
             (t', flat_map (fun l => [l_bid l; l_idx l; 0]) rest, map (fun l => ev0 (l_bid l) m_mount 0) rest, false) /\
    v_next t' = v_next t /\ v_ps t' = v_ps t /\ v_maps t' = v_maps t /\ v_opts t' = v_opts t /\ v_init t' = v_init t /\
    v_rm t' = v_rm t /\ v_gmap t' = v_gmap t /\
    (forall l, In l rest -> aget (l_pino l) (v_mps t') = mpd_of s l) /\
    (forall k, ~ In k (map l_pino rest) -> aget k (v_mps t') = aget k (v_mps t)) /\
    (forall l, In l rest -> aget (l_idx l) (v_sb t') = Some (l_bid l)) /\
    (forall k, ~ In k (map l_idx rest) -> aget k (v_sb t') = aget k (v_sb t)).
Proof.
  induction rest as [|l r IH]; intros t Hsub ND E Hmaps Hg Hfree.
  - exists t. cbn. repeat split; try reflexivity; intros; contradiction.
  - inversion ND as [|? ? Hnin ND']; subst.
    destruct (reattach_one t l (Hsub l (or_introl eq_refl)) E Hmaps Hg (Hfree l (or_introl eq_refl))) as (m & Hm & Hr).
    set (t1 := mkV (v_next t) (v_ps t) (aset (l_pino l) m (v_mps t)) (aset (l_idx l) (l_bid l) (v_sb t)) (v_maps t) (v_opts t)
                   (v_init t) (v_rm t) (v_gmap t)) in *.
    destruct (IH t1) as (t' & Hra & A1 & A2 & A3 & A4 & A5 & A6 & A7 & Bm & Bm' & Bs & Bs').
    + intros x Hx. apply Hsub. right. exact Hx.
    + exact ND'.
    + exact E.
    + exact Hmaps.
    + exact Hg.
    + intros x Hx. cbn [t1 v_mps]. rewrite aget_aset_other; [apply Hfree; right; exact Hx|].
      intros Heq. apply Hnin. rewrite <- Heq. apply in_map. exact Hx.
    + (* slots of distinct attached backends are distinct *)
      assert (Hidx : forall x, In x r -> l_idx x <> l_idx l).
      { intros x Hx Heq. apply Hnin.
        assert (Hxl : In x live) by (apply Hsub; right; exact Hx). assert (Hll : In l live) by (apply Hsub; left; reflexivity).
        destruct (lo_mp _ _ L l Hll) as (ml & Al & Bl). destruct (mpd_of_idx _ _ _ Bl) as [Il _].
        assert (Es : l_idx x = mp_idx ml) by congruence.
        rewrite <- (live_slot_inj s live x (l_pino l) ml W L Hxl Al Es). apply in_map. exact Hx. }
      exists t'. cbn [reattach_of map reattach_all]. fold (reattach_of r). rewrite Hr. rewrite Hra.
      cbn [flat_map map app ser_err]. repeat split; try assumption.
      * intros x [<- | Hx]; [|apply Bm; exact Hx]. rewrite Bm' by exact Hnin. cbn [t1 v_mps]. rewrite aget_aset_same. symmetry. exact Hm.
      * intros k Hk. cbn [map] in Hk. rewrite Bm' by (intros H; apply Hk; right; exact H). cbn [t1 v_mps].
        apply aget_aset_other. intros Heq. apply Hk. left. symmetry. exact Heq.
      * intros x [<- | Hx]; [|apply Bs; exact Hx].
        rewrite Bs'; [cbn [t1 v_sb]; apply aget_aset_same|]. intros H. rewrite in_map_iff in H. destruct H as (y & Ey & Hy).
        apply (Hidx y Hy Ey).
      * intros k Hk. cbn [map] in Hk. rewrite Bs' by (intros H; apply Hk; right; exact H). cbn [t1 v_sb].
        apply aget_aset_other. intros Heq. apply Hk. left. symmetry. exact Heq.
Qed.

End Reattach.

(* ---------- the save / restore / re-attach step ---------- *)
Lemma gmap_kept_eq c dflt : gmap_kept c dflt = true -> v_gmap (vfs_of c dflt) = v_gmap (vfs_of c false).
Proof.
  destruct dflt; [|reflexivity]. unfold gmap_kept. cbn [negb orb]. unfold vfs_of, vfs_new, opts_of. cbn [v_gmap o_idmap default_opts].
  destruct (cf_gmap c) as [[[i e] r]|]; [|reflexivity]. intros H. rewrite H. reflexivity.
Qed.

Lemma is_nil_eq {A} (l : list A) : is_nil l = true -> l = [].
Proof. destruct l; [reflexivity|discriminate]. Qed.

Theorem save_step c s live ver dflt live' :
  inv c s live -> Permutation live' live -> save_good c s live ver dflt = true ->
  exists t, run_step c s (SSaveRestore ver dflt (reattach_of live')) = (t, save_ok_obs live', false) /\ veq s t /\ inv c t live.
Proof.
  intros I Pm Hg. pose proof I as [W T P R G L]. unfold save_good in Hg.
  apply andb_true_iff in Hg. destruct Hg as [Hg PR]. apply andb_true_iff in Hg. destruct Hg as [Hg Hv1].
  apply andb_true_iff in Hg. destruct Hg as [Hinit Hgm]. apply eqb_prop in Hinit.
  set (saved := if ver =? 1 then as_v1 (vfs_save s) else vfs_save s).
  assert (Hsi : st_inodes saved = save_inodes (v_ps s)) by (unfold saved; destruct (ver =? 1); reflexivity).
  assert (Hsn : st_next_inode saved = ps_next (v_ps s)) by (unfold saved; destruct (ver =? 1); reflexivity).
  assert (Hso : st_opts saved = v_opts s) by (unfold saved; destruct (ver =? 1); reflexivity).
  assert (Hsx : st_next_super saved = v_next s) by (unfold saved; destruct (ver =? 1); reflexivity).
  assert (Hsm : match st_maps saved with Some m => m | None => [] end = v_maps s).
  { unfold saved. destruct (ver =? 1); [|reflexivity]. cbn. symmetry. apply is_nil_eq. exact Hv1. }
  destruct (pseudo_roundtrip (v_ps s) saved T Hsi Hsn) as (ps' & Er & Hn' & Ht').
  pose proof (ps_restore_nodup _ _ _ Er) as ND'.
  cbn [run_step]. fold saved. unfold vfs_restore.
  change (v_ps (vfs_of c dflt)) with ps_new. rewrite Er, Hso, Hsx, Hsm.
  change (v_mps (vfs_of c dflt)) with (@nil (N * mpd)). change (v_sb (vfs_of c dflt)) with (@nil (N * N)).
  change (v_rm (vfs_of c dflt)) with (cf_rm c).
  set (t0 := with_ps (mkV (v_next s) ps_new [] [] (v_maps s) (v_opts s) (negb (o_in (v_opts s) =? 0)) (cf_rm c) (v_gmap (vfs_of c dflt))) ps').
  assert (PR' : paths_resolve s live = true) by exact PR.
  destruct (reattach_ok s live W L PR' live' t0) as (t' & Hra & A1 & A2 & A3 & A4 & A5 & A6 & A7 & Bm & Bm' & Bs & Bs').
  - intros l Hl. apply (Permutation_in _ Pm Hl).
  - apply (Permutation_NoDup (Permutation_map l_pino (Permutation_sym Pm)) (lo_nodup _ _ L)).
  - exact Ht'.
  - reflexivity.
  - cbn [t0 with_ps v_gmap]. rewrite (gmap_kept_eq _ _ Hgm). symmetry. exact G.
  - intros l _. reflexivity.
  - assert (Q : veq s t').
    { constructor.
      + rewrite A1. reflexivity.
      + rewrite A2. cbn [t0 with_ps v_ps]. symmetry. exact Hn'.
      + intros j. rewrite A2. cbn [t0 with_ps v_ps]. symmetry. apply Ht'.
      + intros j. destruct (in_dec N.eq_dec j (map l_pino live')) as [Hin | Hnin].
        * rewrite in_map_iff in Hin. destruct Hin as (l & <- & Hl). rewrite (Bm l Hl).
          destruct (lo_mp _ _ L l (Permutation_in _ Pm Hl)) as (m & B1 & B2). rewrite B1, B2. reflexivity.
        * rewrite (Bm' j Hnin). cbn [t0 with_ps v_mps aget].
          destruct (aget j (v_mps s)) as [m|] eqn:Em; [|reflexivity]. exfalso. apply Hnin.
          destruct (lo_all _ _ L j m Em) as (l & Hl & Hp). rewrite <- Hp. apply in_map. apply (Permutation_in _ (Permutation_sym Pm) Hl).
      + intros j. destruct (in_dec N.eq_dec j (map l_idx live')) as [Hin | Hnin].
        * rewrite in_map_iff in Hin. destruct Hin as (l & <- & Hl). rewrite (Bs l Hl). apply (lo_sb _ _ L l (Permutation_in _ Pm Hl)).
        * rewrite (Bs' j Hnin). cbn [t0 with_ps v_sb aget].
          destruct (aget j (v_sb s)) as [b|] eqn:Eb; [|reflexivity]. exfalso. apply Hnin.
          destruct (lo_sball _ _ L j b Eb) as (l & Hl & Hp). rewrite <- Hp. apply in_map. apply (Permutation_in _ (Permutation_sym Pm) Hl).
      + rewrite A3. reflexivity.
      + rewrite A4. reflexivity.
      + rewrite A5. cbn [t0 with_ps v_init]. exact Hinit.
      + rewrite A6. cbn [t0 with_ps v_rm]. exact R.
      + rewrite A7. cbn [t0 with_ps v_gmap]. rewrite (gmap_kept_eq _ _ Hgm). exact G. }
    exists t'. split; [|split; [exact Q|]].
    + rewrite Hra. unfold save_ok_obs, reattach_of. rewrite map_length. reflexivity.
    + apply (inv_veq c s t' live Q I). rewrite A2. exact ND'.
Qed.
