(* Proofs/RustPureIdmap.v -- [remap_id] of Model/Vfs.v IS what `fn remap_id` of src/api/vfs/mod.rs computes, for all
   u32 arguments, in a debug build (overflow = panic = [None]) and in a release build (wrap-around) (C14). *)
From Coq Require Import List NArith ZArith String Bool Lia.
From FB Require Import Lib.RustExpr Gen.RustPure Proofs.RustPure Model.Pseudo Model.Vfs.
Import ListNotations.
Local Open Scope N_scope.

Definition u32max := 4294967296.

(* fn remap_id(value, from_base, to_base, range) -> u32, debug build: the model's [remap_id], [None] = the panic
   "attempt to add with overflow" *)
Lemma src_remap_id : forall v f t r, v < u32max -> f < u32max -> t < u32max -> r < u32max ->
  eval_fn Debug remap_id_src [VInt U32 v; VInt U32 f; VInt U32 t; VInt U32 r] =
  match remap_id v f t r with Some x => Val (VInt U32 x) | None => RustExpr.Panic POverflow end.
Proof. unfold u32max. intros. rsolve. Qed.

(* release build: the same function with the sum wrapped mod 2^32, and never a panic *)
Lemma src_remap_id_release : forall v f t r, v < u32max -> f < u32max -> t < u32max -> r < u32max ->
  eval_fn Release remap_id_src [VInt U32 v; VInt U32 f; VInt U32 t; VInt U32 r] =
  Val (VInt U32 (if (f <=? v) && (v - f <? r) then (v - f + t) mod u32max else v)).
Proof.
  unfold u32max. intros. rsolve.
Qed.

(* the result of remap_id is a u32 whenever it is a value *)
Lemma src_remap_id_range : forall v f t r x, v < u32max -> remap_id v f t r = Some x -> x < u32max.
Proof.
  unfold remap_id, u32max, two32. intros v f t r x Hv.
  destruct ((f <=? v) && (v - f <? r)); [destruct (v - f + t <? 4294967296) eqn:E |]; intros H; inversion H; subst.
  - apply N.ltb_lt; exact E.
  - exact Hv.
Qed.

