(* Per-operation refinement, the whiteout cases (parent directory in the upper layer, no copy-up):
   - unlink / rmdir of an entry that has lower candidates, or that only lower layers hold: a whiteout is written and the
     union loses the name;
   - mkdir / create / mknod / symlink over a whiteout (of the upper layer: it is removed first; or of a lower layer):
     a new directory is made opaque and the union shows an empty directory. *)
From Coq Require Import List String Arith NArith Bool Lia.
From FB Require Import Model.Overlay Proofs.OverlayInv Proofs.OverlayScan Proofs.OverlayRestart
  Proofs.OverlayReadOnly Proofs.OverlayCoh Proofs.OverlayCohView Proofs.OverlayCopyUp Proofs.OverlayCohOps
  Proofs.OverlayCohSteps Proofs.OverlayRefineTeq Proofs.OverlayRefineMerge Proofs.OverlayRefineRun Proofs.OverlayRefine.
Import ListNotations.
Local Open Scope N_scope.

(* ------------------------------------------------------------------ more on candidates *)
Lemma lstack_head_rel s u (q : path) t0 rest0 : upper s = Some u -> mstack (u :: lowers s) q = t0 :: rest0 ->
  exists i0 irest, lstack (shp s) (List.length (lowers s)) q = i0 :: irest /\ ent s i0 q = Some t0.
Proof.
  intros Hu Hm. pose proof (lstack_rel s u q Hu) as R. rewrite Hm in R. inversion R as [|i0 ? irest ? Hi _]; subst. eauto.
Qed.
Lemma lstack_present s (pp : path) (nm : name) i : In i (lstack (shp s) (List.length (lowers s)) (pp ++ [nm])) ->
  ent s i (pp ++ [nm]) <> None.
Proof.
  rewrite lstack_snoc. unfold kids. intros H. apply filter_In in H. destruct H as [_ H]. unfold present, shp in H.
  destruct (ent s i (pp ++ [nm])); [discriminate|discriminate].
Qed.
Lemma Forall2_tl {A B} (R : A -> B -> Prop) l l' : Forall2 R l l' -> Forall2 R (tl l) (tl l').
Proof. intros H. destruct H; [constructor|assumption]. Qed.
Lemma lowcands_of_lowerc s u (pp : path) (nm : name) rest : upper s = Some u ->
  lstack (shp s) (List.length (lowers s)) pp = 0%nat :: rest -> lowerc (shp s) pp nm rest = [] ->
  ents nm (tl (dir_stack (mstack (u :: lowers s) pp))) = [].
Proof.
  intros Hu Hst Hl. pose proof (lstack_rel s u pp Hu) as R. apply dcut_rel in R. apply Forall2_tl in R.
  apply (ents_rel s pp nm) in R. rewrite Hst in R. unfold lowerc in Hl. rewrite Hl in R. inversion R. reflexivity.
Qed.
(* the cached node of a path whose first candidate is known *)
Lemma cand_node s (q : path) c i0 irest t0 : Coherent s -> nget q (root s) = Some c ->
  lstack (shp s) (List.length (lowers s)) q = i0 :: irest -> ent s i0 q = Some t0 ->
  exists cr crs, n_reals c = cr :: crs /\ r_layer cr = i0 /\ r_path cr = q /\ r_upper cr = Nat.eqb i0 0 /\
    node_stat s c = Some t0 /\ n_wh c = is_whT t0 /\ first_dir (n_reals c) = is_dirT t0.
Proof.
  intros (_ & _ & HCT) Hg Hl He. pose proof (HCT q c Hg) as N. cbn [app] in N.
  destruct (first_good_stat s _ q c N) as (r & rs & t' & Er & Et & Hst & Hw & Hd & Hp).
  pose proof (ok_hd _ _ _ _ N) as Hh. rewrite Er, Hl in Hh. cbn [map hd_error] in Hh. inversion Hh as [H0].
  assert (t' = t0) by (rewrite H0, He in Et; inversion Et; reflexivity). subst t'.
  exists r, rs. split; [exact Er|].
  pose proof (ok_reals _ _ _ _ N) as Hr. rewrite Er in Hr. inversion Hr as [|? ? (_ & Hup & _) _]; subst.
  repeat split; auto.
  - rewrite (ok_wh _ _ _ _ N), Er. exact Hw.
  - rewrite Er. exact Hd.
Qed.

(* the name has a candidate: lookup finds the child *)
Lemma lookup_cand_run (pp : path) (nm : name) s u pn m x ch t0 rest0 :
  Coherent s -> upper s = Some u -> nget pp (root s) = Some pn ->
  tget u pp = Some (Dir m x ch) -> mstack (u :: lowers s) (pp ++ [nm]) = t0 :: rest0 ->
  exists s1 pn1 pr prs c, lookup_node pp (Some nm) s = (Ok (pp ++ [nm]), s1) /\ Coherent s1 /\ sd s s1 /\
    nget pp (root s1) = Some pn1 /\ n_wh pn1 = false /\ n_loaded pn1 = true /\
    n_reals pn1 = pr :: prs /\ r_upper pr = true /\ r_layer pr = 0%nat /\ r_path pr = pp /\
    nget (pp ++ [nm]) (root s1) = Some c.
Proof.
  intros HC Hu Hg Hpp Hms.
  destruct (upper_node s u pp pn _ HC Hu Hg Hpp) as (pr & prs & Er & Hup & Hl0 & Hpath & _ & Hw & Hfd). cbn in Hw, Hfd.
  destruct (lookup_run pp s pn HC Hg Hw) as (s1 & pn1 & HC1 & Hsd1 & Hg1 & Hw1 & Hr1 & Hld1 & Hlk).
  specialize (Hld1 Hfd). pose proof Hsd1 as (U1 & L1 & I1).
  assert (Hu1 : upper s1 = Some u) by congruence.
  pose proof HC1 as (_ & _ & HCT1). pose proof (HCT1 pp pn1 Hg1) as N1. cbn [app] in N1.
  destruct (ok_ld _ _ _ _ N1 Hld1) as (_ & _ & Kids).
  destruct (afind nm (n_ch pn1)) as [c|] eqn:Ec.
  2:{ exfalso. apply Kids in Ec. rewrite <- lstack_snoc in Ec.
      destruct (lstack_head_rel s1 u (pp ++ [nm]) t0 rest0 Hu1) as (i0 & irest & Hl & _); [rewrite L1; exact Hms|]. rewrite Hl in Ec. discriminate. }
  exists s1, pn1, pr, prs, c. specialize (Hlk (Some nm)). cbn beta iota in Hlk. rewrite Ec in Hlk.
  split; [exact Hlk|]. split; [exact HC1|]. split; [exact Hsd1|]. split; [exact Hg1|]. split; [exact Hw1|]. split; [exact Hld1|].
  rewrite Hr1. repeat split; auto. apply (nget_snoc pp nm (root s1) pn1 c Hg1 Ec).
Qed.

(* upper entry of the name vs. the first candidate *)
Lemma cand_upper_cases s u (pp : path) (nm : name) m x ch t0 rest0 i0 irest :
  upper s = Some u -> tget u pp = Some (Dir m x ch) -> mstack (u :: lowers s) (pp ++ [nm]) = t0 :: rest0 ->
  lstack (shp s) (List.length (lowers s)) (pp ++ [nm]) = i0 :: irest ->
  (afind nm ch = Some t0 /\ i0 = 0%nat /\ rest0 = ents nm (tl (dir_stack (mstack (u :: lowers s) pp)))) \/
  (afind nm ch = None /\ i0 <> 0%nat /\ t0 :: rest0 = ents nm (tl (dir_stack (mstack (u :: lowers s) pp)))).
Proof.
  intros Hu Hpp Hms Hl. rewrite mstack_snoc in Hms. destruct (mstack_head pp u (lowers s) _ Hpp) as [r Hr]. rewrite Hr in *.
  rewrite (dir_stack_head m x ch), ents_cons in Hms. cbn [dir_children tl] in *.
  destruct (afind nm ch) as [t|] eqn:Enm.
  - left. inversion Hms; subst. split; [reflexivity|]. split; [|reflexivity].
    assert (Hq : tget u (pp ++ [nm]) = Some t0) by (rewrite tget_app, Hpp; exact Enm).
    destruct (lstack_upper s u _ Hu _ Hq) as [rest' Hr']. rewrite Hr' in Hl. inversion Hl. reflexivity.
  - right. split; [reflexivity|]. split; [|symmetry; exact Hms]. intros ->.
    assert (Hin : In 0%nat (lstack (shp s) (List.length (lowers s)) (pp ++ [nm]))) by (rewrite Hl; left; reflexivity).
    apply lstack_present in Hin. apply Hin. unfold ent. cbn [get_layer]. rewrite Hu, tget_app, Hpp. exact Enm.
Qed.

(* ------------------------------------------------------------------ creation over a whiteout *)
Definition has_entry (nm : name) (ch : list (name * tree)) : bool := match afind nm ch with Some _ => true | None => false end.
Lemma del_wh_step pr (nm : name) s1 u (pp : path) m x ch (delw : bool) :
  upper s1 = Some u -> tget u pp = Some (Dir m x ch) -> r_layer pr = 0%nat -> r_path pr = pp ->
  (delw = true -> afind nm ch = Some Wh) -> (delw = false -> afind nm ch = None) ->
  let Ua := if delw then tupd pp (dir_del nm) u else u in
  let chA := if delw then adel nm ch else ch in
  exists s3, (if delw then delete_whiteout_ignored pr nm else ret tt) s1 = (Ok tt, s3) /\
    upper s3 = Some Ua /\ lowers s3 = lowers s1 /\ root s3 = root s1 /\ next_ino s3 = next_ino s1 /\
    tget Ua pp = Some (Dir m x chA) /\ afind nm chA = None.
Proof.
  intros Hu Hpp Hl0 Hpath Ht Hf. cbv zeta. destruct delw.
  - specialize (Ht eq_refl). eexists. split; [|split; [|split; [|split; [|split; [|split]]]]].
    + unfold delete_whiteout_ignored, ignore. rewrite Hl0, Hpath.
      rewrite (mutate0_ok (h_delete_whiteout pp nm) s1 u (tupd pp (dir_del nm) u) Hu); [reflexivity|].
      unfold h_delete_whiteout. rewrite (tget_app u pp nm), Hpp, Ht. unfold h_unlink. rewrite Hpp, Ht. reflexivity.
    + apply (upper_set_layer _ u). exact Hu.
    + reflexivity.
    + reflexivity.
    + reflexivity.
    + rewrite tget_tupd, Hpp. reflexivity.
    + rewrite afind_adel, String.eqb_refl. reflexivity.
  - exists s1. cbn [ret]. repeat split; auto.
Qed.

Lemma wh_cand_facts (pp : path) (nm : name) s1 u c m x ch rest0 :
  Coherent s1 -> upper s1 = Some u -> tget u pp = Some (Dir m x ch) ->
  mstack (u :: lowers s1) (pp ++ [nm]) = Wh :: rest0 -> nget (pp ++ [nm]) (root s1) = Some c ->
  n_wh c = true /\ in_upper c = has_entry nm ch /\ (has_entry nm ch = true -> afind nm ch = Some Wh) /\
  (has_entry nm ch = false -> afind nm ch = None).
Proof.
  intros HC1 Hu1 Hpp Hms Hgq.
  destruct (lstack_head_rel s1 u _ _ _ Hu1 Hms) as (i0 & irest & Hl & He).
  destruct (cand_node s1 _ c i0 irest Wh HC1 Hgq Hl He) as (cr & crs & Ecr & _ & _ & Hcup & _ & Hwc & _).
  split; [exact Hwc|]. unfold in_upper, has_entry. rewrite Ecr, Hcup.
  destruct (cand_upper_cases s1 u pp nm m x ch Wh rest0 i0 irest Hu1 Hpp Hms Hl) as [(A & B & _)|(A & B & _)]; rewrite A.
  - subst i0. repeat split; auto. discriminate.
  - apply Nat.eqb_neq in B. rewrite B. repeat split; auto. discriminate.
Qed.

Lemma do_make_wh_run (pp : path) (nm : name) mk cleaf s u pn m x ch rest0 :
  mk_spec pp nm mk cleaf -> (forall a b, next_ino b = next_ino a -> cleaf b = cleaf a) ->
  Coherent s -> upper s = Some u -> nget pp (root s) = Some pn ->
  tget u pp = Some (Dir m x ch) -> mstack (u :: lowers s) (pp ++ [nm]) = Wh :: rest0 ->
  exists s5 pn5, do_make pp nm mk s = (Ok tt, s5) /\
    upper s5 = Some (tupd pp (chmap (fun l => aset nm (cleaf s) (if has_entry nm ch then adel nm l else l))) u) /\
    lowers s5 = lowers s /\ nget pp (root s5) = Some pn5.
Proof.
  intros Hmk Hcl HC Hu Hg Hpp Hms.
  destruct (upper_node s u pp pn _ HC Hu Hg Hpp) as (pr0 & prs0 & _ & _ & _ & _ & _ & Hw & _). cbn in Hw.
  destruct (lookup_cand_run pp nm s u pn m x ch Wh rest0 HC Hu Hg Hpp Hms) as (s1 & pn1 & pr & prs & c & Elk & HC1 & (U1 & L1 & I1) & Hg1 & Hw1 & Hld1 & Er & Hup & Hl0 & Hpath & Hgq).
  assert (Hu1 : upper s1 = Some u) by congruence.
  assert (Hms1 : mstack (u :: lowers s1) (pp ++ [nm]) = Wh :: rest0) by (rewrite L1; exact Hms).
  destruct (wh_cand_facts pp nm s1 u c m x ch rest0 HC1 Hu1 Hpp Hms1 Hgq) as (Hwc & Hin & HT & HF).
  set (delw := has_entry nm ch) in *.
  destruct (del_wh_step pr nm s1 u pp m x ch delw Hu1 Hpp Hl0 Hpath HT HF) as (s3 & E3 & U3 & L3 & R3 & I3 & Hpp3 & Hnone3).
  destruct (Hmk pr s3 _ Hup Hl0 Hpath U3) as [_ Hrun]. unfold h_insert in Hrun. rewrite Hpp3, Hnone3 in Hrun.
  destruct Hrun as (s4 & E4 & U4 & L4 & R4).
  assert (Elki : lookup_node_ignore_enoent pp nm s = (Ok (Some (pp ++ [nm])), s1)) by (unfold lookup_node_ignore_enoent; rewrite Elk; reflexivity).
  unfold do_make. rewrite (bind_ok _ _ _ _ _ (need_upper_ok s u Hu)), (bind_ok _ _ _ _ _ (get_node_ok pp s pn Hg)), Hw.
  rewrite (bind_ok _ _ _ _ _ Elki), (bind_ok _ _ _ _ _ (get_node_ok _ s1 c Hgq)), Hwc. cbn [negb].
  rewrite (bind_ok _ _ _ _ _ (copy_up_noop pp s1 pn1 pr prs Hg1 Er Hup)).
  rewrite (bind_ok _ _ _ _ _ (get_node_ok pp s1 pn1 Hg1)), (bind_ok _ _ _ _ _ (upper_real_ok pn1 pr prs EINVAL s1 Er Hup)).
  rewrite Hin. rewrite (bind_ok _ _ _ _ _ E3), (bind_ok _ _ _ _ _ E4). unfold mod_node. eexists. eexists. split; [reflexivity|].
  cbn [upper lowers root]. rewrite (Hcl s s3) in U4 by congruence. split; [|split; [congruence|]].
  - rewrite U4. f_equal. unfold delw. destruct (has_entry nm ch); rewrite ?tupd_tupd; apply tupd_ext; intros d; destruct d; reflexivity.
  - rewrite R4, R3, nupd_app, nget_nupd, Hg1. reflexivity.
Qed.

Definition OPQM : tree -> tree := set_xs OPQ1 OPQV.
Lemma do_mkdir_wh_run (pp : path) (nm : name) mode s u pn m x ch rest0 :
  Coherent s -> upper s = Some u -> nget pp (root s) = Some pn ->
  tget u pp = Some (Dir m x ch) -> mstack (u :: lowers s) (pp ++ [nm]) = Wh :: rest0 ->
  exists s5 pn5, do_mkdir pp nm mode s = (Ok tt, s5) /\
    upper s5 = Some (tupd pp (chmap (fun l => amap nm OPQM (aset nm (Dir (N.land mode 1023) [] []) (if has_entry nm ch then adel nm l else l)))) u) /\
    lowers s5 = lowers s /\ nget pp (root s5) = Some pn5.
Proof.
  intros HC Hu Hg Hpp Hms.
  destruct (upper_node s u pp pn _ HC Hu Hg Hpp) as (pr0 & prs0 & _ & _ & _ & _ & _ & Hw & _). cbn in Hw.
  destruct (lookup_cand_run pp nm s u pn m x ch Wh rest0 HC Hu Hg Hpp Hms) as (s1 & pn1 & pr & prs & c & Elk & HC1 & (U1 & L1 & I1) & Hg1 & Hw1 & Hld1 & Er & Hup & Hl0 & Hpath & Hgq).
  assert (Hu1 : upper s1 = Some u) by congruence.
  assert (Hms1 : mstack (u :: lowers s1) (pp ++ [nm]) = Wh :: rest0) by (rewrite L1; exact Hms).
  destruct (wh_cand_facts pp nm s1 u c m x ch rest0 HC1 Hu1 Hpp Hms1 Hgq) as (Hwc & Hin & HT & HF).
  set (delw := has_entry nm ch) in *.
  destruct (del_wh_step pr nm s1 u pp m x ch delw Hu1 Hpp Hl0 Hpath HT HF) as (s3 & E3 & U3 & L3 & R3 & I3 & Hpp3 & Hnone3).
  set (Ua := if delw then tupd pp (dir_del nm) u else u) in *.
  set (c0 := Dir (N.land mode 1023) [] []).
  set (Ub := tupd pp (dir_ins nm c0) Ua).
  assert (E4 : ri_mkdir pr nm mode s3 = (Ok (mkReal 0 true (pp ++ [nm]) false false true), set_layer s3 0 Ub)).
  { unfold ri_mkdir, ri_guard. rewrite Hup. unfold bind at 1. cbn [ret]. unfold bind at 1. rewrite Hl0, Hpath.
    rewrite (mutate0_ok (h_mkdir pp nm mode) s3 Ua Ub U3); [reflexivity|].
    unfold h_mkdir, h_insert. rewrite Hpp3, Hnone3. reflexivity. }
  set (s4 := set_layer s3 0 Ub) in *.
  assert (Hu4 : upper s4 = Some Ub) by (apply (upper_set_layer _ Ua); exact U3).
  assert (Hget4 : tget Ub (pp ++ [nm]) = Some c0).
  { unfold Ub. rewrite (tget_app _ pp nm), tget_tupd, Hpp3. cbn [option_map dir_ins]. apply afind_aset_same. }
  set (Uc := tupd (pp ++ [nm]) OPQM Ub).
  assert (E5 : mutate (r_layer pr) (h_set_opaque (pp ++ [nm])) s4 = (Ok tt, set_layer s4 0 Uc)).
  { rewrite Hl0. apply (mutate0_ok (h_set_opaque (pp ++ [nm])) s4 Ub Uc Hu4). unfold h_set_opaque. rewrite Hget4. unfold c0 at 1.
    unfold h_setxattr, h_update. rewrite Hget4. unfold c0 at 1. reflexivity. }
  assert (Elki : lookup_node_ignore_enoent pp nm s = (Ok (Some (pp ++ [nm])), s1)) by (unfold lookup_node_ignore_enoent; rewrite Elk; reflexivity).
  unfold do_mkdir. rewrite (bind_ok _ _ _ _ _ (need_upper_ok s u Hu)), (bind_ok _ _ _ _ _ (get_node_ok pp s pn Hg)), Hw.
  rewrite (bind_ok _ _ _ _ _ Elki).
  assert (Efl : (n <- get_node (pp ++ [nm]);; (if negb (n_wh n) then fail EEXIST else ret (in_upper n, true))) s1 = (Ok (delw, true), s1)).
  { rewrite (bind_ok _ _ _ _ _ (get_node_ok _ s1 c Hgq)), Hwc, Hin. reflexivity. }
  rewrite (bind_ok _ _ _ _ _ Efl).
  rewrite (bind_ok _ _ _ _ _ (copy_up_noop pp s1 pn1 pr prs Hg1 Er Hup)).
  rewrite (bind_ok _ _ _ _ _ (get_node_ok pp s1 pn1 Hg1)), (bind_ok _ _ _ _ _ (upper_real_ok pn1 pr prs EINVAL s1 Er Hup)).
  rewrite (bind_ok _ _ _ _ _ E3), (bind_ok _ _ _ _ _ E4). cbn [r_path]. rewrite (bind_ok _ _ _ _ _ E5).
  unfold insert_child, mod_node. eexists. eexists. split; [reflexivity|]. cbn [upper lowers root set_layer s4].
  rewrite U3. split; [|split; [congruence|]].
  - f_equal. unfold Uc, Ub, Ua, delw, OPQM. destruct (has_entry nm ch); rewrite ?tupd_snoc, ?tupd_tupd; apply tupd_ext; intros d; destruct d; reflexivity.
  - rewrite R3, nget_nupd, Hg1. reflexivity.
Qed.

(* the frame of the creating operations, for any new upper directory whose entry [nm] of [pp] is [cfin] *)
Lemma parent_op_run2 {A} (pre : path -> M A) (body : path -> name -> M unit) (pp : path) (nm : name) cfin u' ch' s u m x ch :
  Coherent s -> upper s = Some u -> tget u pp = Some (Dir m x ch) ->
  tget u' pp = Some (Dir m x ch') -> afind nm ch' = Some cfin -> is_whT cfin = false ->
  (forall s1 pn1, Coherent s1 -> sd s s1 -> nget pp (root s1) = Some pn1 ->
     exists s2 pn2 a, pre pp s1 = (Ok a, s2) /\ Coherent s2 /\ sd s1 s2 /\ nget pp (root s2) = Some pn2) ->
  (forall s2 pn2, Coherent s2 -> sd s s2 -> nget pp (root s2) = Some pn2 ->
     exists s5 pn5, body pp nm s2 = (Ok tt, s5) /\ upper s5 = Some u' /\ lowers s5 = lowers s /\ nget pp (root s5) = Some pn5) ->
  (forall s0, Coherent s0 -> Coherent (snd (body pp nm s0))) ->
  exists s', (walk pp ;;; (pre pp ;;; body pp nm ;;; entry_of pp nm)) s = (Ok (kind_of cfin), s') /\
    upper s' = Some u' /\ lowers s' = lowers s.
Proof.
  intros HC Hu Hpp Hpp' Hnm' Hcw Hpre Hbody Hcp.
  destruct (walk_run u pp [] s (root s) _ HC Hu eq_refl Hpp eq_refl) as (s1 & n1 & E1 & HC1 & Hsd1 & Hg1). cbn [app] in Hg1.
  destruct (Hpre s1 n1 HC1 Hsd1 Hg1) as (s2 & pn2 & a & E2 & HC2 & Hsd2 & Hg2).
  pose proof (sd_trans _ _ _ Hsd1 Hsd2) as Hsd02.
  destruct (Hbody s2 pn2 HC2 Hsd02 Hg2) as (s5 & pn5 & E5 & U5 & L5 & Hg5).
  assert (HC5 : Coherent s5) by (pose proof (Hcp s2 HC2) as H; rewrite E5 in H; exact H).
  destruct (entry_run pp nm s5 _ pn5 m x _ cfin HC5 U5 Hg5 Hpp' Hnm' Hcw) as (s6 & E6 & _ & (U6 & L6 & _)).
  exists s6. unfold walk. rewrite (bind_ok _ _ _ _ _ E1), (bind_ok _ _ _ _ _ E2), (bind_ok _ _ _ _ _ E5), E6.
  split; [reflexivity|]. split; congruence.
Qed.

Definition Gmk (nm : name) (c : tree) (delw : bool) (l : list (name * tree)) : list (name * tree) :=
  aset nm c (if delw then adel nm l else l).
Definition Gmkdir (nm : name) (c : tree) (delw : bool) (l : list (name * tree)) : list (name * tree) :=
  amap nm OPQM (aset nm c (if delw then adel nm l else l)).

Theorem step_mkdir_wh_run (pp : path) (nm : name) mode s u m x ch rest0 :
  Coherent s -> upper s = Some u -> tget u pp = Some (Dir m x ch) -> mstack (u :: lowers s) (pp ++ [nm]) = Wh :: rest0 ->
  let c := Dir (N.land mode 1023) [] [] in
  exists s', step (OMkdir (pp ++ [nm]) mode) s = (Ok (kind_of c), s') /\
    upper s' = Some (tupd pp (chmap (Gmkdir nm c (has_entry nm ch))) u) /\ lowers s' = lowers s.
Proof.
  intros HC Hu Hpp Hms c. cbn [step]. rewrite with_parent_snoc.
  change (kind_of c) with (kind_of (OPQM c)).
  apply (parent_op_run2 sync_parent (fun pp nm => do_mkdir pp nm mode) pp nm (OPQM c) _ (Gmkdir nm c (has_entry nm ch) ch) s u m x ch HC Hu Hpp).
  - rewrite tget_tupd, Hpp. reflexivity.
  - unfold Gmkdir. rewrite afind_amap, afind_aset_same. reflexivity.
  - reflexivity.
  - apply (pre_sync_ok pp s u m x ch Hu Hpp).
  - intros s2 pn2 HC2 (U2 & L2 & I2) Hg2. assert (Hu2 : upper s2 = Some u) by congruence.
    destruct (do_mkdir_wh_run pp nm mode s2 u pn2 m x ch rest0 HC2 Hu2 Hg2 Hpp) as (s5 & pn5 & E & U5 & L5 & Hg5); [rewrite L2; exact Hms|].
    exists s5, pn5. split; [exact E|]. split; [exact U5|]. split; [congruence|exact Hg5].
  - intros s0 HC0. apply cpres_do_mkdir. exact HC0.
Qed.
Lemma make_step_wh_run {A} (pre : path -> M A) mk cleaf (pp : path) (nm : name) s u m x ch rest0 :
  mk_spec pp nm mk cleaf -> (forall a b, next_ino b = next_ino a -> cleaf b = cleaf a) ->
  (forall s1 pn1, Coherent s1 -> sd s s1 -> nget pp (root s1) = Some pn1 ->
     exists s2 pn2 a, pre pp s1 = (Ok a, s2) /\ Coherent s2 /\ sd s1 s2 /\ nget pp (root s2) = Some pn2) ->
  Coherent s -> upper s = Some u -> tget u pp = Some (Dir m x ch) -> mstack (u :: lowers s) (pp ++ [nm]) = Wh :: rest0 ->
  exists s', (walk pp ;;; (pre pp ;;; do_make pp nm mk ;;; entry_of pp nm)) s = (Ok (kind_of (cleaf s)), s') /\
    upper s' = Some (tupd pp (chmap (Gmk nm (cleaf s) (has_entry nm ch))) u) /\ lowers s' = lowers s.
Proof.
  intros Hmk Hcl Hpre HC Hu Hpp Hms.
  destruct (Hmk (mkReal 0 true pp false false true) s u eq_refl eq_refl eq_refl Hu) as [(_ & Hcw & _) _].
  apply (parent_op_run2 pre (fun pp nm => do_make pp nm mk) pp nm (cleaf s) _ (Gmk nm (cleaf s) (has_entry nm ch) ch) s u m x ch HC Hu Hpp).
  - rewrite tget_tupd, Hpp. reflexivity.
  - unfold Gmk. apply afind_aset_same.
  - exact Hcw.
  - exact Hpre.
  - intros s2 pn2 HC2 (U2 & L2 & I2) Hg2. assert (Hu2 : upper s2 = Some u) by congruence.
    destruct (do_make_wh_run pp nm mk cleaf s2 u pn2 m x ch rest0 Hmk Hcl HC2 Hu2 Hg2 Hpp) as (s5 & pn5 & E & U5 & L5 & Hg5); [rewrite L2; exact Hms|].
    exists s5, pn5. rewrite (Hcl s s2 I2) in U5. split; [exact E|]. split; [exact U5|]. split; [congruence|exact Hg5].
  - intros s0 HC0. apply (cpres_do_make pp nm mk cleaf Hmk). exact HC0.
Qed.

(* the four creating operations over a whiteout *)
Lemma step_ins_wh_run o (pp : path) (nm : name) c s u m x ch rest0 :
  ins_leaf o (next_ino s) = Some (pp ++ [nm], c) ->
  Coherent s -> upper s = Some u -> tget u pp = Some (Dir m x ch) -> mstack (u :: lowers s) (pp ++ [nm]) = Wh :: rest0 ->
  exists s' G cfin, step o s = (Ok (kind_of c), s') /\ upper s' = Some (tupd pp (chmap G) u) /\ lowers s' = lowers s /\
    ((G = Gmk nm c (has_entry nm ch) /\ cfin = c /\ is_dirT c = false) \/
     (G = Gmkdir nm c (has_entry nm ch) /\ cfin = OPQM c /\ exists md, c = Dir md [] [])).
Proof.
  intros Ho HC Hu Hpp Hms. destruct o; cbn [ins_leaf] in Ho; inversion Ho; subst.
  - destruct (make_step_wh_run sync_parent _ (fun s => File (next_ino s) (N.land mode 4095) [] []) pp nm s u m x ch rest0 (mk_spec_create pp nm mode)) as (s' & E & U & L); auto.
    { intros a b E. rewrite E. reflexivity. } { apply (pre_sync_ok pp s u m x ch Hu Hpp). }
    exists s', (Gmk nm (File (next_ino s) (N.land mode 4095) [] []) (has_entry nm ch)), (File (next_ino s) (N.land mode 4095) [] []).
    cbn [step]. rewrite with_parent_snoc. split; [exact E|]. split; [exact U|]. split; [exact L|]. left. auto.
  - destruct (step_mkdir_wh_run pp nm mode s u m x ch rest0 HC Hu Hpp Hms) as (s' & E & U & L).
    exists s', (Gmkdir nm (Dir (N.land mode 1023) [] []) (has_entry nm ch)), (OPQM (Dir (N.land mode 1023) [] [])).
    split; [exact E|]. split; [exact U|]. split; [exact L|]. right. eauto.
  - destruct (make_step_wh_run sync_parent _ (fun s => File (next_ino s) (N.land mode 4095) [] []) pp nm s u m x ch rest0 (mk_spec_create pp nm mode)) as (s' & E & U & L); auto.
    { intros a b E. rewrite E. reflexivity. } { apply (pre_sync_ok pp s u m x ch Hu Hpp). }
    exists s', (Gmk nm (File (next_ino s) (N.land mode 4095) [] []) (has_entry nm ch)), (File (next_ino s) (N.land mode 4095) [] []).
    cbn [step]. rewrite with_parent_snoc. split; [exact E|]. split; [exact U|]. split; [exact L|]. left. auto.
  - destruct (make_step_wh_run (fun pp => lookup_node pp None) _ (fun _ => Lnk target) pp nm s u m x ch rest0 (mk_spec_symlink pp nm target)) as (s' & E & U & L); auto.
    { apply (pre_lookup_ok pp s u m x ch Hu Hpp). }
    exists s', (Gmk nm (Lnk target) (has_entry nm ch)), (Lnk target).
    cbn [step]. rewrite with_parent_snoc. split; [exact E|]. split; [exact U|]. split; [exact L|]. left. auto.
Qed.

Section InsertWh.
Variables (u : tree) (ls : list tree) (pp : path) (nm : name) (m : N) (x : xattrs) (ch : list (name * tree)) (c : tree) (f : nat) (rest0 : list tree).
Variables (G : list (name * tree) -> list (name * tree)) (cfin : tree).
Hypothesis W : Forall wf (u :: ls).
Hypothesis Hpp : tget u pp = Some (Dir m x ch).
Hypothesis Hms : mstack (u :: ls) (pp ++ [nm]) = Wh :: rest0.
Hypothesis Hc : plain_leaf c.
Hypothesis Hd : DEPTH = (S (S f) + List.length pp)%nat.
Hypothesis HG : (G = Gmk nm c (has_entry nm ch) /\ cfin = c /\ is_dirT c = false) \/
                (G = Gmkdir nm c (has_entry nm ch) /\ cfin = OPQM c /\ exists md, c = Dir md [] []).

Lemma wf_cfin : wf cfin.
Proof.
  destruct HG as [(_ & -> & _)|(_ & -> & md & ->)]; [apply plain_leaf_wf; exact Hc|]. cbn. constructor; constructor.
Qed.
Lemma afind_G_nm : afind nm (G ch) = Some cfin.
Proof.
  destruct HG as [(-> & -> & _)|(-> & -> & _)]; unfold Gmk, Gmkdir; rewrite ?afind_amap, afind_aset_same; reflexivity.
Qed.
Lemma only_at_G : only_at nm G ch.
Proof.
  pose proof (wf_tget _ (Forall_inv W) _ _ Hpp) as Wd.
  assert (Hn : NoDup (map fst ch)) by (inversion Wd; assumption).
  assert (Hn' : NoDup (map fst (if has_entry nm ch then adel nm ch else ch))) by (destruct (has_entry nm ch); [apply keys_adel_nd|]; exact Hn).
  split; [|split].
  - destruct HG as [(-> & _)|(-> & _)]; unfold Gmk, Gmkdir; rewrite ?keys_amap; apply keys_aset; exact Hn'.
  - intros k Hk. apply String.eqb_neq in Hk.
    destruct HG as [(-> & _)|(-> & _)]; unfold Gmk, Gmkdir; rewrite ?afind_amap_other by (rewrite String.eqb_sym; exact Hk);
      rewrite afind_aset, Hk; destruct (has_entry nm ch); rewrite ?afind_adel, ?Hk; reflexivity.
  - intros c0 H0. rewrite afind_G_nm in H0. assert (E : c0 = cfin) by congruence. rewrite E. apply wf_cfin.
Qed.
Lemma resolve_cfin lowc : resolve (S f) (cfin :: lowc) = Some c.
Proof.
  destruct HG as [(_ & -> & Hnd)|(_ & -> & md & ->)].
  - destruct c as [? ? ?|i mo d xs|tg|]; cbn [plain_leaf is_dirT] in *; try discriminate; try contradiction; [subst xs|]; reflexivity.
  - reflexivity.
Qed.

Lemma ins_wh_merge mv : merge (u :: ls) = Some mv ->
  oteq (merge (tupd pp (chmap G) u :: ls)) (Some (tupd pp (dir_ins nm c) mv)) /\
  h_insert pp nm c mv = Ok (tupd pp (dir_ins nm c) mv).
Proof.
  intros Hm. destruct (mstack_head pp u ls _ Hpp) as [r Hr].
  split.
  - pose proof (merge_tupd nm G (S f) pp u ls m x ch W Hpp only_at_G Hd) as M. cbv zeta in M.
    rewrite Hm in M. cbn [option_map] in M.
    rewrite (dir_stack_head m x (G ch)), ents_cons in M. cbn [dir_children] in M. rewrite afind_G_nm, resolve_cfin in M. exact M.
  - destruct (tget_merge (S f) pp u ls _ W Hpp eq_refl Hd) as (r0 & Hr0 & Ht). rewrite Hm in Hr0. inversion Hr0; subst r0.
    rewrite Hr in Ht. assert (Wr : Forall wf (Dir m x ch :: r)) by (rewrite <- Hr; apply mstack_wf; exact W).
    destruct (resolve_dir_spec (S f) m x ch r Wr) as (chs & Er & N & K). rewrite Er in Ht.
    unfold h_insert. rewrite Ht, K.
    assert (E0 : ents nm (dir_stack (Dir m x ch :: r)) = Wh :: rest0).
    { pose proof Hms as H. rewrite mstack_snoc, Hr in H. exact H. }
    rewrite E0. reflexivity.
Qed.
End InsertWh.

Theorem refines_insert_wh s o (pp : path) (nm : name) c u m x ch rest0 v :
  Coherent s -> ins_leaf o (next_ino s) = Some (pp ++ [nm], c) ->
  upper s = Some u -> tget u pp = Some (Dir m x ch) -> mstack (u :: lowers s) (pp ++ [nm]) = Wh :: rest0 ->
  (List.length (pp ++ [nm]) < DEPTH)%nat -> view (load_all s) = Some v -> refines_at s o v.
Proof.
  intros HC Ho Hu Hpp Hms Hlen Hv.
  destruct (step_ins_wh_run o pp nm c s u m x ch rest0 Ho HC Hu Hpp Hms) as (s' & G & cfin & Hrun & Hu' & Hl' & HG).
  unfold refines_at, run_op. rewrite Hrun. cbn [fst snd].
  assert (Hd : exists f, DEPTH = (S (S f) + List.length pp)%nat).
  { rewrite app_length in Hlen. cbn [List.length] in Hlen. exists (DEPTH - 2 - List.length pp)%nat. lia. }
  destruct Hd as [f Hd].
  pose proof (coherent_wf_layers s u HC Hu) as W.
  pose proof (ins_leaf_plain _ _ _ _ Ho) as Hc.
  destruct (refine_from_disk s o v _ s' HC (ins_leaf_coh _ _ _ _ Ho) Hv Hrun) as [R T]; [|cbv zeta; auto].
  intros mv Hm. rewrite Hu in Hm. cbn [all_layers] in Hm. rewrite Hu', Hl'. cbn [all_layers]. cbv zeta.
  destruct (ins_wh_merge u (lowers s) pp nm m x ch c f rest0 G cfin W Hpp Hms Hc Hd HG mv Hm) as [M I].
  destruct (fs_apply_ins o (next_ino s) pp nm c mv _ Ho I) as [F1 F2]. rewrite F1, F2. split; [reflexivity|exact M].
Qed.

(* ------------------------------------------------------------------ unlink / rmdir with lower candidates, or of a lower-only entry *)
Lemma ents_nil_of_empty k ds : Forall (fun d => dir_children d = []) ds -> ents k ds = [].
Proof. induction 1 as [|d ds Hd _ IH]; [reflexivity|]. rewrite ents_cons, Hd. exact IH. Qed.
Definition Grm (nm : name) (delu b : bool) (l : list (name * tree)) : list (name * tree) :=
  let l1 := if delu then adel nm l else l in if b then aset nm Wh l1 else l1.

Lemma do_rm_wh_run (pp : path) (nm : name) (dir : bool) s u pn m x ch t0 rest0 :
  Coherent s -> upper s = Some u -> nget pp (root s) = Some pn ->
  tget u pp = Some (Dir m x ch) -> mstack (u :: lowers s) (pp ++ [nm]) = t0 :: rest0 -> is_whT t0 = false ->
  (if dir then is_dirT t0 = true /\ Forall (fun d => dir_children d = []) (dir_stack (t0 :: rest0)) else is_dirT t0 = false) ->
  exists s' (b : bool), do_rm pp nm dir s = (Ok tt, s') /\
    upper s' = Some (tupd pp (chmap (Grm nm (has_entry nm ch) b)) u) /\ lowers s' = lowers s /\
    (b = false -> ents nm (tl (dir_stack (mstack (u :: lowers s) pp))) = [] /\ has_entry nm ch = true).
Proof.
  intros HC Hu Hg Hpp Hms Hnw Hkind.
  set (q := pp ++ [nm]) in *.
  destruct (upper_node s u pp pn _ HC Hu Hg Hpp) as (pr0 & prs0 & _ & _ & _ & _ & _ & Hw & Hfd). cbn in Hw, Hfd.
  (* lookup_node pp None *)
  destruct (lookup_run pp s pn HC Hg Hw) as (s1 & pn1 & HC1 & Hsd1 & Hg1 & Hw1 & Hr1 & _ & Hlk1).
  assert (Hu1 : upper s1 = Some u) by (destruct Hsd1 as (A & _); congruence).
  assert (Hl1 : lowers s1 = lowers s) by (destruct Hsd1 as (_ & B & _); exact B).
  (* lookup_node pp (Some nm) *)
  destruct (lookup_cand_run pp nm s1 u pn1 m x ch t0 rest0 HC1 Hu1 Hg1 Hpp) as (s2 & pn2 & pr2 & prs2 & c & Elk2 & HC2 & Hsd2 & Hg2 & Hw2 & Hld2 & _ & _ & _ & _ & Hgq);
    [rewrite Hl1; exact Hms|]. fold q in Hgq, Elk2.
  pose proof (sd_trans _ _ _ Hsd1 Hsd2) as Hsd02. destruct Hsd02 as (U2 & L2 & I2).
  assert (Hu2 : upper s2 = Some u) by congruence.
  assert (Hms2 : mstack (u :: lowers s2) q = t0 :: rest0) by (rewrite L2; exact Hms).
  destruct (lstack_head_rel s2 u q t0 rest0 Hu2 Hms2) as (i0 & irest & Hl2 & He2).
  destruct (cand_node s2 q c i0 irest t0 HC2 Hgq Hl2 He2) as (cr & crs & Ecr & _ & _ & Hcup & Hstc & Hwc & Hfdc).
  (* the directory branch *)
  assert (Hmid : exists s3 c3 pn3, (if dir then
     load_dir q ;;;
     n1 <- get_node q ;;
     st <- stat_node n1 ;;
     if negb (is_dirT st) then fail ENOTDIR else
     let count := List.length (filter (fun kv => negb (n_wh (snd kv))) (n_ch n1)) in
     let whiteouts := List.length (filter (fun kv => n_wh (snd kv)) (n_ch n1)) in
     if negb (Nat.eqb count 0) then fail ENOTEMPTY else
     if negb (Nat.eqb whiteouts 0) && in_upper n1 then empty_node_directory q else ret tt
   else ret tt) s2 = (Ok tt, s3) /\ Coherent s3 /\ sd s2 s3 /\ nget q (root s3) = Some c3 /\ nget pp (root s3) = Some pn3).
  { destruct dir.
    - destruct Hkind as [Hdt Hemp]. destruct t0 as [m' x' ch0| | |]; try discriminate.
      destruct (load_dir_run q s2 c _ _ _ HC2 Hgq Hstc) as (s3 & c3 & E3 & HC3 & Hsd3 & Hg3 & Hld3 & Hroot3).
      assert (Hu3 : upper s3 = Some u) by (destruct Hsd3 as (A & _); congruence).
      assert (Hl3 : lowers s3 = lowers s) by (destruct Hsd3 as (_ & B & _); congruence).
      assert (Hms3 : mstack (u :: lowers s3) q = Dir m' x' ch0 :: rest0) by (rewrite Hl3; exact Hms).
      destruct (lstack_head_rel s3 u q _ _ Hu3 Hms3) as (j0 & jrest & Hl3' & He3).
      destruct (cand_node s3 q c3 j0 jrest _ HC3 Hg3 Hl3' He3) as (cr3 & crs3 & Ecr3 & _ & _ & _ & Hstc3 & _ & _).
      assert (Hpn3 : exists pn3, nget pp (root s3) = Some pn3).
      { destruct Hroot3 as [->|[g ->]]; [eauto|]. unfold q. apply (nget_parent_nupd pp nm g (root s2) pn2 Hg2). }
      destruct Hpn3 as [pn3 Hpn3].
      assert (Hch3 : n_ch c3 = []).
      { apply all_none_nil. intros k. pose proof HC3 as (_ & _ & HCT3). pose proof (HCT3 q c3 Hg3) as N3. cbn [app] in N3.
        destruct (ok_ld _ _ _ _ N3 Hld3) as (_ & _ & K3). apply K3. rewrite <- lstack_snoc.
        pose proof (lstack_rel s3 u (q ++ [k]) Hu3) as R. rewrite mstack_snoc, Hms3, (ents_nil_of_empty k _ Hemp) in R. unfold path, name in *. inversion R. congruence. }
      exists s3, c3, pn3. rewrite (bind_ok _ _ _ _ _ E3), (bind_ok _ _ _ _ _ (get_node_ok q s3 c3 Hg3)).
      assert (Es : stat_node c3 s3 = (Ok (Dir m' x' ch0), s3)) by (unfold stat_node; rewrite Hstc3; reflexivity).
      rewrite (bind_ok _ _ _ _ _ Es). cbn [is_dirT negb]. rewrite Hch3. cbn [filter List.length Nat.eqb negb andb ret].
      split; [reflexivity|]. split; [exact HC3|]. split; [exact Hsd3|]. split; [exact Hg3|exact Hpn3].
    - exists s2, c, pn2. cbn [ret]. split; [reflexivity|]. split; [exact HC2|]. split; [apply sd_refl|]. split; [exact Hgq|exact Hg2]. }
  destruct Hmid as (s3 & c3 & pn3 & E3 & HC3 & Hsd3 & Hg3 & Hgp3).
  assert (Hu3 : upper s3 = Some u) by (destruct Hsd3 as (A & _); congruence).
  assert (Hl3 : lowers s3 = lowers s) by (destruct Hsd3 as (_ & B & _); congruence).
  assert (Hms3 : mstack (u :: lowers s3) q = t0 :: rest0) by (rewrite Hl3; exact Hms).
  destruct (upper_node s3 u pp pn3 _ HC3 Hu3 Hgp3 Hpp) as (pr & prs & Er & Hup & Hl0 & Hpath & _ & Hw3 & _).
  destruct (lstack_head_rel s3 u q t0 rest0 Hu3 Hms3) as (j0 & jrest & Hlq3 & Heq3).
  destruct (cand_node s3 q c3 j0 jrest t0 HC3 Hg3 Hlq3 Heq3) as (cr3 & crs3 & Ecr3 & _ & _ & Hcup3 & _ & _ & _).
  pose proof HC3 as (_ & Hwl3 & HCT3). pose proof (HCT3 pp pn3 Hgp3) as N3. cbn [app] in N3.
  destruct (lstack_upper s3 u pp Hu3 _ Hpp) as [rest Hstk].
  assert (Hpd : shp s3 0%nat pp = Some (SDir (xs_opaque x))) by (apply (sh_dir_of_tget s3 u pp m x ch Hu3 Hpp)).
  (* need0 *)
  assert (Hneed0 : exists need0, (if upper_only c3
            then fun s => match lower_has_child s (n_reals pn3) nm with Ok b => (Ok b, s) | Err e => (Err e, s) end
            else ret true) s3 = (Ok need0, s3) /\
            (need0 = false -> upper_only c3 = true /\ ents nm (tl (dir_stack (mstack (u :: lowers s) pp))) = [])).
  { destruct (upper_only c3) eqn:Euo; [|exists true; split; [reflexivity|discriminate]].
    destruct (lower_has_child s3 (n_reals pn3) nm) as [b|e] eqn:El.
    - exists b. split; [reflexivity|]. intros ->. split; [reflexivity|]. rewrite <- Hl3.
      apply (lowcands_of_lowerc s3 u pp nm rest Hu3 Hstk). apply (lowerc_of_lhc s3 pp nm pn3 rest _ Hwl3 N3 Hstk Hpd El).
    - exfalso. revert El. apply (lhc_no_err s3 pp).
      pose proof (ok_reals _ _ _ _ N3) as G. pose proof (ok_tl _ _ _ _ N3) as T. rewrite Er in *. cbn [tl] in T.
      inversion G as [|? ? G1 G2]; subst. constructor; [split; [exact G1|left; exact Hup]|].
      clear -G2 T. induction G2 as [|a l Ha _ IH]; [constructor|]. inversion T; subst. constructor; [split; [exact Ha|right; assumption]|auto]. }
  destruct Hneed0 as (need0 & En0 & Hn0).
  (* common prefix of the run *)
  unfold do_rm. rewrite (bind_ok _ _ _ _ _ (need_upper_ok s u Hu)), (bind_ok _ _ _ _ _ (Hlk1 None)).
  rewrite (bind_ok _ _ _ _ _ (get_node_ok pp s1 pn1 Hg1)), Hw1.
  rewrite (bind_ok _ _ _ _ _ Elk2). rewrite (bind_ok _ _ _ _ _ (get_node_ok q s2 c Hgq)), Hwc, Hnw.
  rewrite (bind_ok _ _ _ _ _ E3).
  rewrite (bind_ok _ _ _ _ _ (copy_up_noop pp s3 pn3 pr prs Hgp3 Er Hup)).
  rewrite (bind_ok _ _ _ _ _ (get_node_ok q s3 c3 Hg3)), (bind_ok _ _ _ _ _ (get_node_ok pp s3 pn3 Hgp3)).
  rewrite (bind_ok _ _ _ _ _ En0).
  assert (Hin : in_upper c3 = Nat.eqb j0 0) by (unfold in_upper; rewrite Ecr3; exact Hcup3). rewrite Hin.
  (* the whiteout step, from a state whose upper directory [u4] no longer has the name *)
  assert (Hwh : forall s5 u4 ch4, upper s5 = Some u4 -> tget u4 pp = Some (Dir m x ch4) -> afind nm ch4 = None ->
            nget pp (root s5) = Some (Node (n_reals pn3) (n_wh pn3) (n_loaded pn3) (adel nm (n_ch pn3))) ->
            exists s6, (pn'' <- get_node pp;; pr0 <- upper_real pn'' EINVAL;; ri <- ri_whiteout pr0 nm;; insert_child pp nm (new_node ri)) s5 = (Ok tt, s6) /\
              upper s6 = Some (tupd pp (dir_ins nm Wh) u4) /\ lowers s6 = lowers s5).
  { intros s5 u4 ch4 Hu5 T4 N4 Hg5.
    rewrite (bind_ok _ _ _ _ _ (get_node_ok pp s5 _ Hg5)).
    rewrite (bind_ok _ _ _ _ _ (upper_real_ok _ pr prs EINVAL s5 Er Hup)).
    assert (E6 : ri_whiteout pr nm s5 = (Ok (mkReal 0 true (pp ++ [nm]) true false false), set_layer s5 0 (tupd pp (dir_ins nm Wh) u4))).
    { unfold ri_whiteout, ri_guard. rewrite Hup. unfold bind at 1. cbn [ret]. unfold bind at 1. rewrite Hl0, Hpath.
      rewrite (mutate0_ok (h_create_whiteout pp nm) s5 u4 (tupd pp (dir_ins nm Wh) u4)); [reflexivity|exact Hu5|].
      unfold h_create_whiteout. rewrite tget_app, T4, N4. unfold h_insert. rewrite T4, N4. reflexivity. }
    rewrite (bind_ok _ _ _ _ _ E6). unfold insert_child, mod_node. eexists. split; [reflexivity|].
    cbn [upper lowers set_layer]. rewrite Hu5. auto. }
  destruct (cand_upper_cases s3 u pp nm m x ch t0 rest0 j0 jrest Hu3 Hpp Hms3 Hlq3) as [(Hnm & Hj0 & Hrest0)|(Hnm & Hj0 & Hrest0)].
  - (* the upper layer holds the entry *)
    subst j0. cbn [Nat.eqb]. assert (He : has_entry nm ch = true) by (unfold has_entry; rewrite Hnm; reflexivity). rewrite He.
    set (u4 := tupd pp (dir_del nm) u).
    assert (Hrm : (if dir then h_rmdir pp nm else h_unlink pp nm) u = Ok u4).
    { destruct dir.
      - destruct Hkind as [Hdt Hemp]. destruct t0 as [m' x' ch0| | |]; try discriminate.
        assert (ch0 = []). { rewrite (dir_stack_head m' x' ch0) in Hemp. inversion Hemp as [|? ? H0 _]. exact H0. }
        subst ch0. unfold h_rmdir. rewrite Hpp, Hnm. reflexivity.
      - unfold h_unlink. rewrite Hpp, Hnm. destruct t0; try discriminate; reflexivity. }
    set (need := need0 && negb (r_opq pr)).
    set (s4 := set_layer s3 0 u4).
    assert (E4 : mutate (r_layer pr) (if dir then h_rmdir (r_path pr) nm else h_unlink (r_path pr) nm) s3 = (Ok tt, s4)).
    { rewrite Hl0, Hpath. apply (mutate0_ok _ s3 u u4 Hu3). exact Hrm. }
    assert (Hu4 : upper s4 = Some u4) by (apply (upper_set_layer _ u); exact Hu3).
    assert (En : (pr0 <- upper_real pn3 EINVAL;; mutate (r_layer pr0) (if dir then h_rmdir (r_path pr0) nm else h_unlink (r_path pr0) nm);;; ret (need0 && negb (r_opq pr0))) s3 = (Ok need, s4)).
    { rewrite (bind_ok _ _ _ _ _ (upper_real_ok pn3 pr prs EINVAL s3 Er Hup)), (bind_ok _ _ _ _ _ E4). reflexivity. }
    rewrite (bind_ok _ _ _ _ _ En).
    unfold remove_child at 1. unfold mod_node at 1. unfold bind at 1.
    set (s5 := mkState (upper s4) (lowers s4) (nupd pp (fun n => Node (n_reals n) (n_wh n) (n_loaded n) (adel nm (n_ch n))) (root s4)) (next_ino s4) (log s4)).
    assert (Hnb : need = false -> ents nm (tl (dir_stack (mstack (u :: lowers s) pp))) = []).
    { unfold need. intros Hf. apply andb_false_iff in Hf. destruct Hf as [Hf|Hf]; [exact (proj2 (Hn0 Hf))|].
      apply negb_false_iff in Hf. pose proof (ok_reals _ _ _ _ N3) as G. rewrite Er in G. pose proof (Forall_inv G) as (_ & _ & G1).
      rewrite Hl0, Hpd in G1. destruct G1 as (_ & _ & Ho). specialize (Ho Hf).
      destruct (mstack_head pp u (lowers s) _ Hpp) as [r Hr]. rewrite Hr. cbn [dir_stack]. rewrite Ho. reflexivity. }
    destruct need eqn:Eneed.
    + destruct (Hwh s5 u4 (adel nm ch)) as (s6 & E6 & U6 & L6).
      * exact Hu4.
      * unfold u4. rewrite tget_tupd, Hpp. reflexivity.
      * rewrite afind_adel, String.eqb_refl. reflexivity.
      * cbn [root s5 s4 set_layer]. rewrite nget_nupd, Hgp3. reflexivity.
      * exists s6, true. split; [exact E6|]. split; [|split; [rewrite L6; exact Hl3|discriminate]].
        rewrite U6. unfold u4. rewrite tupd_tupd. apply f_equal. apply tupd_ext. intros d. destruct d; reflexivity.
    + cbn [ret]. exists s5, false. split; [reflexivity|]. cbn [upper lowers s5 s4 set_layer]. rewrite Hu3. split; [|split; [exact Hl3|]].
      * unfold u4. apply f_equal. apply tupd_ext. intros d. destruct d; reflexivity.
      * intros _. split; [apply Hnb; reflexivity|reflexivity].
  - (* only lower layers hold the entry *)
    apply Nat.eqb_neq in Hj0. rewrite Hj0. assert (He : has_entry nm ch = false) by (unfold has_entry; rewrite Hnm; reflexivity). rewrite He.
    assert (Huo : upper_only c3 = false).
    { unfold upper_only. rewrite Ecr3. destruct crs3; [rewrite Hcup3; exact Hj0|reflexivity]. }
    assert (need0 = true) by (destruct need0; [reflexivity|destruct (Hn0 eq_refl); congruence]). subst need0.
    assert (Er0 : ret true s3 = (Ok true, s3)) by reflexivity. rewrite (bind_ok _ _ _ _ _ Er0).
    unfold remove_child at 1. unfold mod_node at 1. unfold bind at 1.
    set (s5 := mkState (upper s3) (lowers s3) (nupd pp (fun n => Node (n_reals n) (n_wh n) (n_loaded n) (adel nm (n_ch n))) (root s3)) (next_ino s3) (log s3)).
    destruct (Hwh s5 u ch) as (s6 & E6 & U6 & L6).
    + exact Hu3.
    + exact Hpp.
    + exact Hnm.
    + cbn [root s5]. rewrite nget_nupd, Hgp3. reflexivity.
    + exists s6, true. split; [exact E6|]. split; [|split; [rewrite L6; exact Hl3|discriminate]].
      rewrite U6. apply f_equal. apply tupd_ext. intros d. destruct d; reflexivity.
Qed.

Theorem step_rm_wh_run (pp : path) (nm : name) (dir : bool) s u m x ch t0 rest0 :
  Coherent s -> upper s = Some u -> tget u pp = Some (Dir m x ch) ->
  mstack (u :: lowers s) (pp ++ [nm]) = t0 :: rest0 -> is_whT t0 = false ->
  (if dir then is_dirT t0 = true /\ Forall (fun d => dir_children d = []) (dir_stack (t0 :: rest0)) else is_dirT t0 = false) ->
  exists s' (b : bool), step (if dir then ORmdir (pp ++ [nm]) else OUnlink (pp ++ [nm])) s = (Ok ""%string, s') /\
    upper s' = Some (tupd pp (chmap (Grm nm (has_entry nm ch) b)) u) /\ lowers s' = lowers s /\
    (b = false -> ents nm (tl (dir_stack (mstack (u :: lowers s) pp))) = [] /\ has_entry nm ch = true).
Proof.
  intros HC Hu Hpp Hms Hnw Hkind.
  destruct (walk_run u pp [] s (root s) _ HC Hu eq_refl Hpp eq_refl) as (s1 & n1 & E1 & HC1 & (U1 & L1 & I1) & Hg1). cbn [app] in Hg1.
  assert (Hu1 : upper s1 = Some u) by congruence.
  destruct (do_rm_wh_run pp nm dir s1 u n1 m x ch t0 rest0 HC1 Hu1 Hg1 Hpp) as (s' & b & E & U' & L' & Hb); try assumption; [rewrite L1; exact Hms|].
  exists s', b. split; [|split; [exact U'|split; [congruence|rewrite <- L1; exact Hb]]].
  destruct dir; cbn [step]; rewrite with_parent_snoc; unfold walk; rewrite (bind_ok _ _ _ _ _ E1), (bind_ok _ _ _ _ _ E); reflexivity.
Qed.

Lemma collect_trees_empty ds : Forall (fun d => dir_children d = []) ds -> collect_trees ds = [].
Proof.
  unfold collect_trees. intros H.
  assert (G : forall acc, fold_left (fun a d => fold_left add_tree (dir_children d) a) ds acc = acc).
  { induction H as [|d ds Hd _ IH]; intros acc; cbn [fold_left]; [reflexivity|]. rewrite Hd. cbn [fold_left]. apply IH. }
  apply G.
Qed.

Section RemoveWh.
Variables (u : tree) (ls : list tree) (pp : path) (nm : name) (m : N) (x : xattrs) (ch : list (name * tree)) (t0 : tree) (rest0 : list tree) (f : nat) (dir b : bool).
Hypothesis W : Forall wf (u :: ls).
Hypothesis Hpp : tget u pp = Some (Dir m x ch).
Hypothesis Hms : mstack (u :: ls) (pp ++ [nm]) = t0 :: rest0.
Hypothesis Hnw : is_whT t0 = false.
Hypothesis Hkind : if dir then is_dirT t0 = true /\ Forall (fun d => dir_children d = []) (dir_stack (t0 :: rest0)) else is_dirT t0 = false.
Hypothesis Hb : b = false -> ents nm (tl (dir_stack (mstack (u :: ls) pp))) = [] /\ has_entry nm ch = true.
Hypothesis Hd : DEPTH = (S (S f) + List.length pp)%nat.
Let G := Grm nm (has_entry nm ch) b.

Lemma rm_wh_merge mv : merge (u :: ls) = Some mv ->
  oteq (merge (tupd pp (chmap G) u :: ls)) (Some (tupd pp (dir_del nm) mv)) /\
  (if dir then h_rmdir pp nm else h_unlink pp nm) mv = Ok (tupd pp (dir_del nm) mv).
Proof.
  intros Hm. destruct (mstack_head pp u ls _ Hpp) as [r Hr].
  pose proof (wf_tget _ (Forall_inv W) _ _ Hpp) as Wd.
  assert (Hn : NoDup (map fst ch)) by (inversion Wd; assumption).
  assert (Hn1 : NoDup (map fst (if has_entry nm ch then adel nm ch else ch))) by (destruct (has_entry nm ch); [apply keys_adel_nd|]; exact Hn).
  assert (Hnone1 : afind nm (if has_entry nm ch then adel nm ch else ch) = None).
  { unfold has_entry. destruct (afind nm ch) eqn:E; [rewrite afind_adel, String.eqb_refl; reflexivity|exact E]. }
  split.
  - assert (HG : only_at nm G ch).
    { unfold G, Grm. cbv zeta. split; [destruct b; [apply keys_aset|]; exact Hn1|]. split.
      - intros k Hk. apply String.eqb_neq in Hk. destruct b; rewrite ?afind_aset, ?Hk; destruct (has_entry nm ch); rewrite ?afind_adel, ?Hk; reflexivity.
      - intros c0 H0. destruct b; [rewrite afind_aset_same in H0; assert (E : c0 = Wh) by congruence; rewrite E; constructor|].
        rewrite Hnone1 in H0. discriminate. }
    pose proof (merge_tupd nm G (S f) pp u ls m x ch W Hpp HG Hd) as M. cbv zeta in M.
    rewrite Hm in M. cbn [option_map] in M.
    assert (Eg : resolve (S f) (ents nm (dir_stack (Dir m x (G ch) :: tl (mstack (u :: ls) pp)))) = None).
    { rewrite (dir_stack_head m x (G ch)), ents_cons. cbn [dir_children]. unfold G, Grm. cbv zeta. destruct b.
      - rewrite afind_aset_same. reflexivity.
      - rewrite Hnone1. destruct (Hb eq_refl) as [Hlow _]. rewrite Hr in *. cbn [tl] in *.
        rewrite (dir_stack_tl_indep m x ch). rewrite (dir_stack_head m x ch) in Hlow. cbn [tl] in Hlow. rewrite Hlow. reflexivity. }
    rewrite Eg in M. exact M.
  - destruct (tget_merge (S f) pp u ls _ W Hpp eq_refl Hd) as (r0 & Hr0 & Ht). rewrite Hm in Hr0. assert (E0 : r0 = mv) by congruence. rewrite E0 in Ht. clear E0 Hr0.
    rewrite Hr in Ht. assert (Wr : Forall wf (Dir m x ch :: r)) by (rewrite <- Hr; apply mstack_wf; exact W).
    destruct (resolve_dir_spec (S f) m x ch r Wr) as (chs & Er & N & K). rewrite Er in Ht.
    assert (E0 : afind nm chs = resolve (S f) (t0 :: rest0)).
    { rewrite K. pose proof Hms as H. rewrite mstack_snoc, Hr in H. rewrite H. reflexivity. }
    destruct dir.
    + destruct Hkind as [Hdt Hemp]. destruct t0 as [m' x' ch0| | |]; try discriminate.
      unfold h_rmdir. rewrite Ht, E0. cbn [resolve]. rewrite (collect_trees_empty _ Hemp). reflexivity.
    + unfold h_unlink. rewrite Ht, E0. destruct t0; try discriminate; reflexivity.
Qed.
End RemoveWh.

Theorem refines_remove_wh s (dir : bool) (pp : path) (nm : name) t0 rest0 u m x ch v :
  Coherent s -> upper s = Some u -> tget u pp = Some (Dir m x ch) ->
  mstack (u :: lowers s) (pp ++ [nm]) = t0 :: rest0 -> is_whT t0 = false ->
  (if dir then is_dirT t0 = true /\ Forall (fun d => dir_children d = []) (dir_stack (t0 :: rest0)) else is_dirT t0 = false) ->
  (List.length (pp ++ [nm]) < DEPTH)%nat -> view (load_all s) = Some v ->
  refines_at s (if dir then ORmdir (pp ++ [nm]) else OUnlink (pp ++ [nm])) v.
Proof.
  intros HC Hu Hpp Hms Hnw Hkind Hlen Hv. set (o := if dir then ORmdir (pp ++ [nm]) else OUnlink (pp ++ [nm])).
  destruct (step_rm_wh_run pp nm dir s u m x ch t0 rest0 HC Hu Hpp Hms Hnw Hkind) as (s' & b & Hrun & Hu' & Hl' & Hb). fold o in Hrun.
  unfold refines_at, run_op. rewrite Hrun. cbn [fst snd].
  assert (Hd : exists f, DEPTH = (S (S f) + List.length pp)%nat).
  { rewrite app_length in Hlen. cbn [List.length] in Hlen. exists (DEPTH - 2 - List.length pp)%nat. lia. }
  destruct Hd as [f Hd].
  pose proof (coherent_wf_layers s u HC Hu) as W.
  assert (Ho : coh_op o = true) by (unfold o; destruct dir; reflexivity).
  destruct (refine_from_disk s o v _ s' HC Ho Hv Hrun) as [R T]; [|cbv zeta; auto].
  intros mv Hm. rewrite Hu in Hm. cbn [all_layers] in Hm. rewrite Hu', Hl'. cbn [all_layers]. cbv zeta.
  destruct (rm_wh_merge u (lowers s) pp nm m x ch t0 rest0 f dir b W Hpp Hms Hnw Hkind Hb Hd mv Hm) as [M I].
  unfold o. destruct dir; cbn [fs_apply]; rewrite split_last_snoc; unfold fs_mut; cbn [f_tree f_next]; rewrite I; cbn [fst snd f_tree]; (split; [reflexivity|exact M]).
Qed.

(* ------------------------------------------------------------------ the side condition of the whiteout cases, on the disk state *)
Definition no_children (d : tree) : bool := match dir_children d with [] => true | _ => false end.
(* [direct_wh s o]: the parent is a directory of the upper layer (no copy-up), the path is shorter than DEPTH, and
   - mkdir / create / mknod / symlink: the first candidate for the name is a whiteout (of the upper layer or of a lower one);
   - unlink: the first candidate is a regular file or symlink of any layer (lower candidates may exist);
   - rmdir: the first candidate is a directory and no directory that is merged into it (dir_stack) has an entry. *)
Definition direct_wh (s : state) (o : op) : bool :=
  match upper s with
  | None => false
  | Some u =>
      let L := u :: lowers s in
      let par (p : path) (test : list tree -> bool) :=
        match split_last p with
        | Some (pp, nm) =>
            (List.length p <? DEPTH)%nat && match tget u pp with Some (Dir _ _ _) => true | _ => false end && test (mstack L p)
        | None => false
        end in
      match o with
      | OMkdir p _ | OCreate p _ | OMknod p _ | OSymlink p _ => par p (fun g => match g with Wh :: _ => true | _ => false end)
      | OUnlink p => par p (fun g => match g with t0 :: _ => negb (is_whT t0) && negb (is_dirT t0) | [] => false end)
      | ORmdir p => par p (fun g => match g with t0 :: _ => is_dirT t0 && forallb no_children (dir_stack g) | [] => false end)
      | _ => false
      end
  end.

Theorem op_refines_whiteout s o v : Coherent s -> direct_wh s o = true -> view (load_all s) = Some v -> refines_at s o v.
Proof.
  intros HC Hd Hv. unfold direct_wh in Hd. destruct (upper s) as [u|] eqn:Hu; [|discriminate]. cbv zeta in Hd.
  assert (Hpar : forall p test, match split_last p with
        | Some (pp, nm) => (List.length p <? DEPTH)%nat && match tget u pp with Some (Dir _ _ _) => true | _ => false end && test (mstack (u :: lowers s) p)
        | None => false end = true ->
        exists pp nm m x ch, p = pp ++ [nm] /\ (List.length p < DEPTH)%nat /\ tget u pp = Some (Dir m x ch) /\ test (mstack (u :: lowers s) p) = true).
  { intros p test H. destruct (split_last p) as [[pp nm]|] eqn:Esp; [|discriminate]. apply split_last_spec in Esp.
    apply andb_prop in H. destruct H as [H H3]. apply andb_prop in H. destruct H as [H1 H2]. apply Nat.ltb_lt in H1.
    destruct (tget u pp) as [[m x ch| | |]|] eqn:Hpp; try discriminate. exists pp, nm, m, x, ch. auto. }
  assert (Hins : forall p, match split_last p with
        | Some (pp, nm) => (List.length p <? DEPTH)%nat && match tget u pp with Some (Dir _ _ _) => true | _ => false end &&
                           (fun g => match g with Wh :: _ => true | _ => false end) (mstack (u :: lowers s) p)
        | None => false end = true -> forall c, ins_leaf o (next_ino s) = Some (p, c) -> refines_at s o v).
  { intros p H c Ho. destruct (Hpar p (fun g => match g with Wh :: _ => true | _ => false end) H) as (pp & nm & m & x & ch & -> & Hlen & Hpp & Ht). cbv beta in Ht.
    destruct (mstack (u :: lowers s) (pp ++ [nm])) as [|[| | |] rest0] eqn:Hms; try discriminate.
    exact (refines_insert_wh s o pp nm c u m x ch rest0 v HC Ho Hu Hpp Hms Hlen Hv). }
  destruct o; try discriminate.
  - apply (Hins p Hd _ eq_refl).
  - apply (Hins p Hd _ eq_refl).
  - apply (Hins p Hd _ eq_refl).
  - apply (Hins p Hd _ eq_refl).
  - destruct (Hpar p (fun g => match g with t0 :: _ => negb (is_whT t0) && negb (is_dirT t0) | [] => false end) Hd) as (pp & nm & m & x & ch & -> & Hlen & Hpp & Ht). cbv beta in Ht.
    destruct (mstack (u :: lowers s) (pp ++ [nm])) as [|t0 rest0] eqn:Hms; [discriminate|].
    apply andb_prop in Ht. destruct Ht as [A B]. apply negb_true_iff in A. apply negb_true_iff in B.
    exact (refines_remove_wh s false pp nm t0 rest0 u m x ch v HC Hu Hpp Hms A B Hlen Hv).
  - destruct (Hpar p (fun g => match g with t0 :: _ => is_dirT t0 && forallb no_children (dir_stack g) | [] => false end) Hd) as (pp & nm & m & x & ch & -> & Hlen & Hpp & Ht). cbv beta in Ht.
    destruct (mstack (u :: lowers s) (pp ++ [nm])) as [|t0 rest0] eqn:Hms; [discriminate|].
    apply andb_prop in Ht. destruct Ht as [A B].
    assert (Hnw : is_whT t0 = false) by (destruct t0; try discriminate; reflexivity).
    assert (Hemp : Forall (fun d => dir_children d = []) (dir_stack (t0 :: rest0))).
    { apply Forall_forall. intros d Hin. rewrite forallb_forall in B. specialize (B d Hin). unfold no_children in B.
      destruct (dir_children d); [reflexivity|discriminate]. }
    exact (refines_remove_wh s true pp nm t0 rest0 u m x ch v HC Hu Hpp Hms Hnw (conj A Hemp) Hlen Hv).
Qed.

Theorem op_refines_whiteout_history u ls nx ops o : Forall layer_ok (u :: ls) -> coh_history ops = true ->
  direct_wh (run_dumps ops (load_all (fresh (Some u) ls nx))) o = true -> op_refines (Some u) ls nx ops o.
Proof.
  intros Hok Hh Hd. unfold op_refines. cbv zeta. set (s := run_dumps ops (load_all (fresh (Some u) ls nx))) in *.
  assert (HC : Coherent (load_all s)).
  { apply load_all_coherent. apply coherent_history; [exact Hh|]. apply load_all_coherent. apply fresh_coherent. exact Hok. }
  destruct (view (load_all s)) as [v|] eqn:Hv; [|exact I].
  assert (Hv' : view (load_all (load_all s)) = Some v).
  { rewrite <- Hv. apply (view_load_all_vs s (root (load_all s))); try reflexivity.
    unfold load_all. cbn [root]. apply load_node_vs. }
  assert (Hd' : direct_wh (load_all s) o = true) by exact Hd.
  destruct (op_refines_whiteout (load_all s) o v HC Hd' Hv') as (R & T & _).
  split; [exact R|]. change (ser SER ?t) with (ser_opt (Some t)). apply oteq_ser. exact T.
Qed.
