(* C12: INIT negotiation in the model (do_init) against the client-side reading of the reply. *)
From Coq Require Import List String NArith Bool Lia.
From FB Require Import Lib.Bytes Lib.Layout Gen.RustABI Model.Server.
Import ListNotations.
Local Open Scope N_scope.

Lemma init_out_lengths major minor ra fl mb ct mw tg mp ma f2 :
  let out := init_out major minor ra fl mb ct mw tg mp ma f2 in
  List.length out = 64%nat /\ List.length (firstn 8 out) = 8%nat /\ List.length (firstn 24 out) = 24%nat.
Proof.
  cbv zeta. assert (H : List.length (init_out major minor ra fl mb ct mw tg mp ma f2) = 64%nat).
  { unfold init_out. rewrite !app_length, !enc_length. reflexivity. }
  split; [exact H|]. split; rewrite firstn_length, H; reflexivity.
Qed.

(* FsOptions::all().bits() from the translated bitflags table *)
Definition fsoptions_all : N :=
  match lookup "FsOptions"%string rust_bitflags with
  | Some ms => fold_right (fun m acc => N.lor (snd m) acc) 0 ms
  | None => 0
  end.

Lemma fsoptions_all_has_ext : N.land fsoptions_all INIT_EXT_BIT = INIT_EXT_BIT.
Proof. vm_compute. reflexivity. Qed.
