(* C12: INIT negotiation in the model (do_init) against the client-side reading of the reply. *)
From Coq Require Import List String NArith Bool Lia Arith.
From FB Require Import Lib.Bytes Lib.Layout Gen.RustABI Spec.KernelABI Model.Server Model.ServerCmp
  Spec.Requests Spec.Replies Spec.Init Proofs.ServerInitBits.
Import ListNotations.
Local Open Scope N_scope.

Lemma init_out_lengths major minor ra fl mb ct mw tg mp ma f2 :
  let out := init_out major minor ra fl mb ct mw tg mp ma f2 in
  List.length out = 64%nat /\ List.length (firstn 8 out) = 8%nat /\ List.length (firstn 24 out) = 24%nat.
Proof.
  cbv zeta. assert (H : List.length (init_out major minor ra fl mb ct mw tg mp ma f2) = 64%nat).
  { unfold init_out. rewrite !app_length, !enc_length. reflexivity. }
  split; [exact H|]. split; rewrite firstn_length, H; reflexivity.
Qed.

(* FsOptions::all().bits() from the translated bitflags table *)
Definition fsoptions_all : N :=
  match lookup "FsOptions"%string rust_bitflags with
  | Some ms => fold_right (fun m acc => N.lor (snd m) acc) 0 ms
  | None => 0
  end.

Lemma fsoptions_all_has_ext : N.land fsoptions_all INIT_EXT_BIT = INIT_EXT_BIT.
Proof. vm_compute. reflexivity. Qed.

(* ------------------------------------------------------------------ list plumbing *)
Lemma skipn_len_app (a rest : bytes) k : skipn (List.length a + k) (a ++ rest) = skipn k rest.
Proof. induction a as [|x a IH]; cbn [List.length Nat.add app skipn]; [reflexivity|exact IH]. Qed.

Lemma firstn_len_app (a rest : bytes) k : firstn (List.length a + k) (a ++ rest) = a ++ firstn k rest.
Proof. induction a as [|x a IH]; cbn [List.length Nat.add app firstn]; [reflexivity|now rewrite IH]. Qed.

Lemma skipn_enc_app w n rest k : skipn (w + k) (enc w n ++ rest) = skipn k rest.
Proof. rewrite <- (enc_length w n) at 1. apply skipn_len_app. Qed.

Lemma firstn_enc_app w n rest k : firstn (w + k) (enc w n ++ rest) = enc w n ++ firstn k rest.
Proof. rewrite <- (enc_length w n) at 1. apply firstn_len_app. Qed.

Lemma firstn_enc_exact w n rest : firstn w (enc w n ++ rest) = enc w n.
Proof. apply take_app_exact, enc_length. Qed.

Lemma dec_enc4 n : dec (enc 4 n) = n mod 2 ^ 32.
Proof. apply dec_enc. Qed.
Lemma dec_enc2 n : dec (enc 2 n) = n mod 2 ^ 16.
Proof. apply dec_enc. Qed.

Lemma u32_skip w n rest k : u32 (w + k) (enc w n ++ rest) = u32 k rest.
Proof. unfold u32. rewrite skipn_enc_app. reflexivity. Qed.
Lemma u32_here n rest : u32 0 (enc 4 n ++ rest) = n mod 2 ^ 32.
Proof. unfold u32. cbn [skipn]. rewrite firstn_enc_exact. apply dec_enc4. Qed.
Lemma u32_here_end n : u32 0 (enc 4 n) = n mod 2 ^ 32.
Proof. rewrite <- (app_nil_r (enc 4 n)). apply u32_here. Qed.

(* ------------------------------------------------------------------ kernel-side field access *)
Definition init_out_leaves : list leaf :=
  Eval vm_compute in match struct_leaves kernel_structs "fuse_init_out" with Some l => l | None => [] end.

Lemma init_out_leaves_eq : struct_leaves kernel_structs "fuse_init_out" = Some init_out_leaves.
Proof. vm_compute. reflexivity. Qed.

Lemma kget_init_out path off w sg b :
  find (fun l => String.eqb (l_path l) path) init_out_leaves
    = Some {| l_path := path; l_off := off; l_width := w; l_signed := sg |} ->
  kget "fuse_init_out" path O b = dec (firstn (N.to_nat w) (skipn (N.to_nat off) b)).
Proof. intro H. unfold kget. rewrite init_out_leaves_eq, H. reflexivity. Qed.

Lemma kget_major b : kget "fuse_init_out" "major" O b = u32 0 b.
Proof. rewrite (kget_init_out "major" 0 4 false) by (vm_compute; reflexivity). reflexivity. Qed.
Lemma kget_minor b : kget "fuse_init_out" "minor" O b = u32 4 b.
Proof. rewrite (kget_init_out "minor" 4 4 false) by (vm_compute; reflexivity). reflexivity. Qed.
Lemma kget_max_readahead b : kget "fuse_init_out" "max_readahead" O b = u32 8 b.
Proof. rewrite (kget_init_out "max_readahead" 8 4 false) by (vm_compute; reflexivity). reflexivity. Qed.
Lemma kget_flags b : kget "fuse_init_out" "flags" O b = u32 12 b.
Proof. rewrite (kget_init_out "flags" 12 4 false) by (vm_compute; reflexivity). reflexivity. Qed.
Lemma kget_max_write b : kget "fuse_init_out" "max_write" O b = u32 20 b.
Proof. rewrite (kget_init_out "max_write" 20 4 false) by (vm_compute; reflexivity). reflexivity. Qed.
Lemma kget_flags2 b : kget "fuse_init_out" "flags2" O b = u32 32 b.
Proof. rewrite (kget_init_out "flags2" 32 4 false) by (vm_compute; reflexivity). reflexivity. Qed.

Lemma ksize_init_out : ksize "fuse_init_out" = 64%nat.
Proof. vm_compute. reflexivity. Qed.

Lemma INIT_EXT_val : INIT_EXT = 2 ^ 30.
Proof. vm_compute. reflexivity. Qed.
Lemma INIT_EXT_BIT_val : INIT_EXT_BIT = 2 ^ 30.
Proof. reflexivity. Qed.

(* ------------------------------------------------------------------ fields of the model's InitOut *)
Section Fields.
  Variables major minor ra fl mb ct mw tg mp ma f2 : N.
  Let out := init_out major minor ra fl mb ct mw tg mp ma f2.

  Lemma out_major : u32 0 out = major mod 2 ^ 32.
  Proof. unfold out, init_out. apply u32_here. Qed.
  Lemma out_minor : u32 4 out = minor mod 2 ^ 32.
  Proof. change (u32 4 out) with (u32 (4 + 0) out). unfold out, init_out. rewrite !u32_skip. apply u32_here. Qed.
  Lemma out_ra : u32 8 out = ra mod 2 ^ 32.
  Proof. change (u32 8 out) with (u32 (4 + (4 + 0)) out). unfold out, init_out. rewrite !u32_skip. apply u32_here. Qed.
  Lemma out_flags : u32 12 out = fl mod 2 ^ 32.
  Proof. change (u32 12 out) with (u32 (4 + (4 + (4 + 0))) out). unfold out, init_out. rewrite !u32_skip. apply u32_here. Qed.
  Lemma out_mw : u32 20 out = mw mod 2 ^ 32.
  Proof.
    change (u32 20 out) with (u32 (4 + (4 + (4 + (4 + (2 + (2 + 0)))))) out).
    unfold out, init_out. rewrite !u32_skip. apply u32_here.
  Qed.
  Lemma out_flags2 : u32 32 out = f2 mod 2 ^ 32.
  Proof.
    change (u32 32 out) with (u32 (4 + (4 + (4 + (4 + (2 + (2 + (4 + (4 + (2 + (2 + 0)))))))))) out).
    unfold out, init_out. rewrite !u32_skip. apply u32_here.
  Qed.

  (* the two compat forms *)
  Definition out24 : bytes :=
    enc 4 major ++ enc 4 minor ++ enc 4 ra ++ enc 4 fl ++ enc 2 mb ++ enc 2 ct ++ enc 4 mw.
  Definition out8 : bytes := enc 4 major ++ enc 4 minor.

  Lemma firstn24_out : firstn 24 out = out24.
  Proof.
    change 24%nat with (4 + (4 + (4 + (4 + (2 + (2 + (4 + 0)))))))%nat. unfold out, init_out, out24.
    rewrite !firstn_enc_app. cbn [firstn]. rewrite app_nil_r. reflexivity.
  Qed.
  Lemma firstn8_out : firstn 8 out = out8.
  Proof.
    change 8%nat with (4 + (4 + 0))%nat. unfold out, init_out, out8.
    rewrite !firstn_enc_app. cbn [firstn]. rewrite app_nil_r. reflexivity.
  Qed.

  Lemma out24_major : u32 0 out24 = major mod 2 ^ 32.
  Proof. unfold out24. apply u32_here. Qed.
  Lemma out24_ra : u32 8 out24 = ra mod 2 ^ 32.
  Proof. change (u32 8 out24) with (u32 (4 + (4 + 0)) out24). unfold out24. rewrite !u32_skip. apply u32_here. Qed.
  Lemma out24_flags : u32 12 out24 = fl mod 2 ^ 32.
  Proof. change (u32 12 out24) with (u32 (4 + (4 + (4 + 0))) out24). unfold out24. rewrite !u32_skip. apply u32_here. Qed.
  Lemma out24_mw : u32 20 out24 = mw mod 2 ^ 32.
  Proof.
    change (u32 20 out24) with (u32 (4 + (4 + (4 + (4 + (2 + (2 + 0)))))) out24).
    unfold out24. rewrite !u32_skip. apply u32_here_end.
  Qed.
  Lemma out24_length : List.length out24 = 24%nat.
  Proof. unfold out24. rewrite !app_length, !enc_length. reflexivity. Qed.
  Lemma out8_major : u32 0 out8 = major mod 2 ^ 32.
  Proof. unfold out8. apply u32_here. Qed.
  Lemma out8_length : List.length out8 = 8%nat.
  Proof. unfold out8. rewrite !app_length, !enc_length. reflexivity. Qed.
  Lemma out_length : List.length out = 64%nat.
  Proof. unfold out, init_out. rewrite !app_length, !enc_length. reflexivity. Qed.
End Fields.
