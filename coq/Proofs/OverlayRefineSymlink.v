(* Per-operation refinement: operations whose target is a SYMLINK and that make the overlay copy it up: chmod, truncate,
   setxattr / removexattr (names other than the opaque markers), open with a flag word that is not read-only, write.  On a
   symlink they all fail - EOPNOTSUPP, EBADF, EOPNOTSUPP / ENODATA, EBADF, EBADF - as they do in the ordinary file system; when
   only lower layers hold the symlink the overlay has copied it (and the missing parent directories, hypothesis [cu_okb]) up by
   then, which does not change the client's view ([symlink_up_merge]: a symlink on top of the same symlink).
   Route: the upper-layer case by a symbolic run; the lower-only case by re-running from the state after the copy-up. *)
From Coq Require Import List String Arith NArith Bool Lia.
From FB Require Import Model.Overlay Proofs.OverlayInv Proofs.OverlayScan Proofs.OverlayRestart
  Proofs.OverlayReadOnly Proofs.OverlayCoh Proofs.OverlayCohView Proofs.OverlayCopyUp Proofs.OverlayCohOps
  Proofs.OverlayCohSteps Proofs.OverlayRefineTeq Proofs.OverlayRefineMerge Proofs.OverlayRefineRun Proofs.OverlayRefine
  Proofs.OverlayRefineWh Proofs.OverlayRefineCu Proofs.OverlayRefineCuFile Proofs.OverlayRefineDirAttr Proofs.OverlayRefineLink Proofs.OverlayRefineCuRm
  Proofs.OverlayRefineFail Proofs.OverlayRefineRead Proofs.OverlayRefineFail2 Proofs.OverlayRefineRerun Proofs.OverlayRefineDirAttr2.
Import ListNotations.
Local Open Scope N_scope.

(* ------------------------------------------------------------------ copy-up of a symlink *)
Lemma cnu_symlink_run (pp : path) (nm : name) s u n tg :
  Coherent s -> upper s = Some u -> nget (pp ++ [nm]) (root s) = Some n -> node_stat s n = Some (Lnk tg) -> in_upper n = false ->
  (List.length pp < DEPTH)%nat -> cu_disk_ok u (lowers s) pp ->
  exists s3 u2 m2 x2 ch2 rest0 n3 ri,
    copy_node_up (pp ++ [nm]) s = (Ok tt, s3) /\ Coherent s3 /\ lowers s3 = lowers s /\ next_ino s3 = next_ino s /\
    upper s3 = Some (tupd pp (dir_ins nm (Lnk tg)) u2) /\
    Forall wf (u2 :: lowers s) /\ oteq (merge (u2 :: lowers s)) (merge (u :: lowers s)) /\ cu_disk_rel u (lowers s) pp u2 /\
    tget u2 pp = Some (Dir m2 x2 ch2) /\ afind nm ch2 = None /\ mstack (u2 :: lowers s) (pp ++ [nm]) = Lnk tg :: rest0 /\
    nget (pp ++ [nm]) (root s3) = Some n3 /\ n_reals n3 = [ri] /\ r_upper ri = true /\ r_layer ri = 0%nat /\ r_path ri = pp ++ [nm] /\
    n_wh n3 = false /\ same_paths s s3.
Proof.
  intros HC Hu Hg Hst Eup Hdep Hcu. set (p := pp ++ [nm]) in *.
  destruct (nget_prefix pp nm (root s) n Hg) as [pn Hgp].
  destruct (parent_cu_run pp nm s u pn n HC Hu Hgp Hg Hdep (cu_ok_of_disk s u pp HC Hu Hcu)) as (s' & E' & I' & U' & HC' & SP & L' & Fr & Up).
  pose proof HC' as ([u' Hu'] & _ & _).
  assert (Hrel : cu_disk_rel u (lowers s) pp u').
  { destruct (in_upper pn) eqn:Epu.
    - inversion E'; subst s'. assert (u' = u) by congruence. subst u'. apply cu_disk_rel_refl.
    - destruct (cud_disk _ pp s s' u HC Hu E') as (u0 & Hu0 & R). assert (u0 = u') by congruence. subst u0. exact R. }
  destruct (same_paths_some s s' pp pn SP Hgp) as (pn' & Hgp' & _).
  pose proof (Up pn' Hgp') as Hpu.
  destruct (node_first_real s' pp pn' HC' Hgp') as (pr & prs & tp & Er & _ & Hstp' & Hpath & Hupr & _).
  assert (Hup : r_upper pr = true) by (unfold in_upper in Hpu; rewrite Er in Hpu; exact Hpu).
  assert (Hl0 : r_layer pr = 0%nat) by (rewrite Hup in Hupr; symmetry in Hupr; apply Nat.eqb_eq in Hupr; exact Hupr).
  assert (Hgn' : nget p (root s') = Some n) by (unfold p; rewrite (Fr (pp ++ [nm]) (not_prefix_snoc pp nm)); exact Hg).
  pose proof (not_upper_no_entry s' u' _ n HC' Hu' Hgn' Eup) as Hnoent.
  destruct (parent_is_dir s' pp nm pn' n HC' Hgp' Hgn') as (m' & x' & ch' & Hstp2).
  pose proof (upper_dir_of_node s' u' pp pn' _ HC' Hu' Hgp' Hpu Hstp2) as Hpp'.
  assert (Hnone : afind nm ch' = None) by (unfold p in Hnoent; rewrite tget_app, Hpp' in Hnoent; exact Hnoent).
  assert (Hst' : node_stat s' n = Some (Lnk tg)) by (rewrite (lower_node_stat s s' _ n HC Hg Eup L'); exact Hst).
  destruct (node_stat_mstack s' u' _ n _ HC' Hu' Hgn' Hst') as [rest0 Hms].
  destruct (node_first_real s p n HC Hg) as (lr & lrs & tl0 & Elr & Etl & Hstl & Hlp & Hlup & _).
  assert (tl0 = Lnk tg) by congruence. subst tl0.
  assert (Hlrlow : r_layer lr <> 0%nat).
  { unfold in_upper in Eup. rewrite Elr, Hlup in Eup. apply Nat.eqb_neq in Eup. exact Eup. }
  assert (Hrt : real_tree s lr = Some (Lnk tg)) by (rewrite real_tree_ent, Hlp; exact Etl).
  set (ua := tupd pp (dir_ins nm (Lnk tg)) u').
  set (ri := mkReal 0 true p false false false).
  assert (Esy : ri_symlink pr nm tg s' = (Ok ri, set_layer s' 0 ua)).
  { unfold ri_symlink, ri_guard. rewrite Hup. unfold bind at 1. cbn [ret]. unfold bind at 1. rewrite Hl0, Hpath.
    rewrite (mutate0_ok (h_symlink pp nm tg) s' u' ua Hu'); [reflexivity|]. unfold h_symlink, h_insert. rewrite Hpp', Hnone. reflexivity. }
  set (sa := set_layer s' 0 ua) in *.
  set (s3 := mkState (upper sa) (lowers sa) (nupd p (add_upper ri true) (root sa)) (next_ino sa) (log sa)).
  assert (Hrun : copy_node_up p s = (Ok tt, s3)).
  { unfold copy_node_up. rewrite (bind_ok _ _ _ _ _ (get_node_ok p s n Hg)), Eup.
    assert (Es : stat_node n s = (Ok (Lnk tg), s)) by (unfold stat_node; rewrite Hst; reflexivity).
    rewrite (bind_ok _ _ _ _ _ Es). unfold copy_symlink_up.
    rewrite (bind_ok _ _ _ _ _ (get_node_ok p s n Hg)), Eup. unfold p at 1. rewrite split_last_snoc. fold p.
    assert (Efr : first_real n s = (Ok lr, s)) by (unfold first_real; rewrite Elr; reflexivity).
    rewrite (bind_ok _ _ _ _ _ Efr), (bind_ok _ _ _ _ _ (get_node_ok pp s pn Hgp)), (bind_ok _ _ _ _ _ E').
    assert (Erd : real_tree s' lr = Some (Lnk tg)) by (rewrite <- Hrt; apply lower_real_tree; [exact Hlrlow|exact L']).
    unfold bind at 1. rewrite Erd.
    rewrite (bind_ok _ _ _ _ _ (get_node_ok pp s' pn' Hgp')), (bind_ok _ _ _ _ _ (upper_real_ok pn' pr prs EROFS s' Er Hup)).
    rewrite (bind_ok _ _ _ _ _ Esy). reflexivity. }
  assert (Hnw : forall n0, nget p (root s) = Some n0 -> n_wh n0 = false).
  { intros n0 H0. rewrite Hg in H0. inversion H0; subst n0.
    destruct (node_first_real s p n HC Hg) as (r & rs & t & _ & _ & Hst2 & _ & _ & _ & _ & Hw). rewrite Hst in Hst2. inversion Hst2; subst t. exact Hw. }
  destruct (cnu_coherent p s _ s3 HC Hnw Hrun) as (HC3 & SP3 & L3 & _ & _).
  exists s3, u', m', x', ch', rest0. eexists. exists ri.
  split; [exact Hrun|]. split; [exact HC3|]. split; [exact L3|]. split; [cbn [next_ino s3 sa set_layer]; exact I'|].
  split; [cbn [upper s3 sa set_layer]; rewrite Hu'; reflexivity|].
  split; [rewrite <- L'; apply (coherent_wf_layers s' u' HC' Hu')|].
  split; [rewrite Hu', L' in U'; exact U'|]. split; [exact Hrel|].
  split; [exact Hpp'|]. split; [exact Hnone|]. split; [rewrite <- L'; exact Hms|].
  split; [cbn [root s3 sa set_layer]; rewrite nget_nupd, Hgn'; reflexivity|].
  cbn [add_upper n_reals n_wh r_wh ri]. repeat (split; [reflexivity|]). exact SP3.
Qed.

(* a symlink on top of the same symlink does not change the union *)
Lemma symlink_up_merge u2 ls (pp : path) (nm : name) m2 x2 ch2 tg rest0 f :
  Forall wf (u2 :: ls) -> tget u2 pp = Some (Dir m2 x2 ch2) -> afind nm ch2 = None -> mstack (u2 :: ls) (pp ++ [nm]) = Lnk tg :: rest0 ->
  DEPTH = (S (S f) + List.length pp)%nat -> oteq (merge (tupd pp (dir_ins nm (Lnk tg)) u2 :: ls)) (merge (u2 :: ls)).
Proof.
  intros W Hpp Hnone Hms Hd.
  destruct (tget_merge (S f) pp u2 ls _ W Hpp eq_refl Hd) as (mv2 & Hm & Ht).
  destruct (mstack_head pp u2 ls _ Hpp) as [r Hr]. rewrite Hr in Ht.
  assert (Wr : Forall wf (Dir m2 x2 ch2 :: r)) by (rewrite <- Hr; apply mstack_wf; exact W).
  destruct (resolve_dir_spec (S f) m2 x2 ch2 r Wr) as (chs & Er & N & K). rewrite Er in Ht.
  assert (Hnm : afind nm chs = Some (Lnk tg)).
  { rewrite K. pose proof Hms as H. rewrite mstack_snoc, Hr in H. rewrite H. reflexivity. }
  pose proof (leaf_on_top_merge u2 ls pp nm m2 x2 ch2 (Lnk tg) f mv2 W Hpp Hnone I eq_refl Hd Hm) as E.
  rewrite Hm. rewrite (tupd_fix pp (dir_ins nm (Lnk tg)) mv2 _ (resolve_wf _ _ _ W Hm) Ht) in E; [exact E|].
  cbn [dir_ins]. rewrite (aset_same_val nm (Lnk tg) chs Hnm). reflexivity.
Qed.

(* ------------------------------------------------------------------ the operations and their answer on a symlink *)
Definition sym_eff (o : op) : option (path * N) :=
  match o with
  | OChmod p _ => Some (p, EOPNOTSUPP)
  | OTruncate p _ | OWrite p _ _ => Some (p, EBADF)
  | OSetxattr p k _ => if is_opq_name k then None else Some (p, EOPNOTSUPP)
  | ORemovexattr p k => if is_opq_name k then None else Some (p, ENODATA)
  | OOpen p fl => if of_readonly fl then None else Some (p, EBADF)
  | _ => None
  end.
Lemma sym_eff_coh o p e : sym_eff o = Some (p, e) -> coh_op o = true.
Proof.
  destruct o; cbn [sym_eff coh_op]; try discriminate; try reflexivity.
  - destruct (is_opq_name k); [discriminate|reflexivity].
  - destruct (is_opq_name k); [discriminate|reflexivity].
Qed.
Lemma sym_eff_path o p e : sym_eff o = Some (p, e) -> dattr_op_path o = Some p.
Proof.
  destruct o; cbn [sym_eff dattr_op_path]; try discriminate; try (intros H; inversion H; reflexivity).
  - destruct (of_readonly fl); [discriminate|]. intros H; inversion H; reflexivity.
  - destruct (is_opq_name k); [discriminate|]. intros H; inversion H; reflexivity.
  - destruct (is_opq_name k); [discriminate|]. intros H; inversion H; reflexivity.
Qed.

Lemma upper_lookup_run (p : path) s u n t : Coherent s -> upper s = Some u -> nget p (root s) = Some n ->
  tget u p = Some t -> is_whT t = false ->
  exists s2 n2 pr prs, lookup_node p None s = (Ok p, s2) /\ Coherent s2 /\ sd s s2 /\ nget p (root s2) = Some n2 /\
    n_wh n2 = false /\ n_reals n2 = pr :: prs /\ r_upper pr = true /\ r_layer pr = 0%nat /\ r_path pr = p.
Proof.
  intros HC Hu Hg Hp Hwt.
  destruct (upper_node s u p n _ HC Hu Hg Hp) as (pr0 & prs0 & _ & _ & _ & _ & _ & Hw & _). rewrite Hwt in Hw.
  destruct (lookup_run p s n HC Hg Hw) as (s2 & n2 & HC2 & Hsd2 & Hg2 & Hw2 & _ & _ & Hlk).
  assert (Hu2 : upper s2 = Some u) by (destruct Hsd2 as (A & _); congruence).
  destruct (upper_node s2 u p n2 _ HC2 Hu2 Hg2 Hp) as (pr & prs & Er & Hup & Hl0 & Hpath & _).
  exists s2, n2, pr, prs. split; [exact (Hlk None)|]. split; [exact HC2|]. split; [exact Hsd2|]. split; [exact Hg2|]. auto.
Qed.

Theorem step_symlink_run o (p : path) e s u tg : sym_eff o = Some (p, e) ->
  Coherent s -> upper s = Some u -> tget u p = Some (Lnk tg) ->
  exists s', step o s = (Err e, s') /\ sd s s'.
Proof.
  intros Ho HC Hu Hp.
  destruct (walk_run u p [] s (root s) _ HC Hu eq_refl Hp eq_refl) as (s1 & n1 & E1 & HC1 & Hsd1 & Hg1). cbn [app] in Hg1.
  pose proof Hsd1 as (U1 & L1 & I1). assert (Hu1 : upper s1 = Some u) by congruence. unfold walk in *.
  destruct (upper_lookup_run p s1 u n1 _ HC1 Hu1 Hg1 Hp eq_refl) as (s2 & n2 & pr & prs & Elk & HC2 & Hsd2 & Hg2 & Hw2 & Er & Hup & Hl0 & Hpath).
  pose proof Hsd2 as (U2 & L2 & I2). assert (Hu2 : upper s2 = Some u) by congruence.
  pose proof (first_tree_run p s2 u n2 pr prs _ Hu2 Hg2 Er Hl0 Hpath Hp) as Eft.
  assert (Enc : node_checked p s1 = (Ok tt, s2)).
  { unfold node_checked. rewrite (bind_ok _ _ _ _ _ Elk), (bind_ok _ _ _ _ _ (get_node_ok p s2 n2 Hg2)), Hw2. reflexivity. }
  assert (Hmerr : forall F e0, F u = Err e0 -> mutate (r_layer (fst (pr, Lnk tg))) F s2 = (Err e0, s2)).
  { intros F e0 HF. cbn [fst]. rewrite Hl0. apply (mutate0_err F s2 u e0 Hu2 HF). }
  assert (Hopen : forall fl, of_readonly fl = false -> do_open p fl s1 = (Err EBADF, s2)).
  { intros fl Hf. unfold do_open. rewrite (bind_ok _ _ _ _ _ Elk), (bind_ok _ _ _ _ _ (get_node_ok p s2 n2 Hg2)), Hw2, Hf.
    rewrite (bind_ok _ _ _ _ _ (copy_up_noop p s2 n2 pr prs Hg2 Er Hup)), (bind_ok _ _ _ _ _ (get_node_ok p s2 n2 Hg2)).
    unfold first_real. rewrite Er. unfold bind at 1. cbn [ret]. unfold bind at 1. unfold real_tree. rewrite Hl0, Hpath. cbn [get_layer]. rewrite Hu2, Hp. reflexivity. }
  exists s2. split; [|exact (sd_trans _ _ _ Hsd1 Hsd2)].
  assert (Er0 : ret tt s2 = (Ok tt, s2)) by reflexivity.
  destruct o; cbn [sym_eff] in Ho; try discriminate; cbn [step].
  - destruct (of_readonly fl) eqn:Ero; [discriminate|]. inversion Ho; subst p0 e; clear Ho.
    rewrite (bind_ok _ _ _ _ _ E1), (bind_err _ _ _ _ _ (Hopen fl Ero)). reflexivity.
  - inversion Ho; subst p0 e; clear Ho. rewrite (bind_ok _ _ _ _ _ E1), (bind_err _ _ _ _ _ (Hopen OF_W eq_refl)). reflexivity.
  - inversion Ho; subst p0 e; clear Ho.
    assert (HF : h_chmod p mode u = Err EOPNOTSUPP) by (unfold h_chmod, h_update; rewrite Hp; reflexivity).
    rewrite (bind_ok _ _ _ _ _ E1), (bind_ok _ _ _ _ _ (need_upper_ok s1 u Hu1)), (bind_ok _ _ _ _ _ Elk).
    rewrite (bind_ok _ _ _ _ _ (get_node_ok p s2 n2 Hg2)). unfold in_upper. rewrite Er, Hup.
    rewrite (bind_ok _ _ _ _ _ Er0), (bind_ok _ _ _ _ _ Eft). cbn [fst]. rewrite Hpath, (bind_err _ _ _ _ _ (Hmerr _ _ HF)). reflexivity.
  - inversion Ho; subst p0 e; clear Ho.
    assert (HF : h_setdata p (resize (N.to_nat size)) u = Err EBADF) by (unfold h_setdata; rewrite Hp; reflexivity).
    rewrite (bind_ok _ _ _ _ _ E1), (bind_ok _ _ _ _ _ (need_upper_ok s1 u Hu1)), (bind_ok _ _ _ _ _ Elk).
    rewrite (bind_ok _ _ _ _ _ (get_node_ok p s2 n2 Hg2)). unfold in_upper. rewrite Er, Hup.
    rewrite (bind_ok _ _ _ _ _ Er0), (bind_ok _ _ _ _ _ Eft). cbn [fst]. rewrite Hpath, (bind_err _ _ _ _ _ (Hmerr _ _ HF)). reflexivity.
  - destruct (is_opq_name k) eqn:Ek; [discriminate|]. inversion Ho; subst p0 e; clear Ho.
    assert (HF : h_setxattr p k v u = Err EOPNOTSUPP) by (unfold h_setxattr, h_update; rewrite Hp; reflexivity).
    rewrite (bind_ok _ _ _ _ _ E1), (bind_ok _ _ _ _ _ Enc).
    rewrite (bind_ok _ _ _ _ _ (get_node_ok p s2 n2 Hg2)). unfold in_upper. rewrite Er, Hup.
    rewrite (bind_ok _ _ _ _ _ Er0), (bind_ok _ _ _ _ _ Eft). cbn [fst]. rewrite Hpath, (bind_err _ _ _ _ _ (Hmerr _ _ HF)). reflexivity.
  - destruct (is_opq_name k) eqn:Ek; [discriminate|]. inversion Ho; subst p0 e; clear Ho.
    assert (HF : h_removexattr p k u = Err ENODATA) by (unfold h_removexattr; rewrite Hp; reflexivity).
    rewrite (bind_ok _ _ _ _ _ E1), (bind_ok _ _ _ _ _ Enc).
    rewrite (bind_ok _ _ _ _ _ (get_node_ok p s2 n2 Hg2)). unfold in_upper. rewrite Er, Hup.
    rewrite (bind_ok _ _ _ _ _ Er0), (bind_ok _ _ _ _ _ Eft). cbn [fst]. rewrite Hpath, (bind_err _ _ _ _ _ (Hmerr _ _ HF)). reflexivity.
Qed.

Lemma fs_apply_sym o (p : path) e tg mv nx : sym_eff o = Some (p, e) -> tget mv p = Some (Lnk tg) ->
  fs_apply o (mkFs mv nx) = (Err e, mkFs mv nx).
Proof.
  intros Ho Hp. destruct o; cbn [sym_eff] in Ho; try discriminate; cbn [fs_apply f_tree].
  - destruct (of_readonly fl); [discriminate|]. inversion Ho; subst. rewrite Hp. reflexivity.
  - inversion Ho; subst. unfold fs_mut, h_setdata. cbn [f_tree]. rewrite Hp. reflexivity.
  - inversion Ho; subst. unfold fs_mut, h_chmod, h_update. cbn [f_tree]. rewrite Hp. reflexivity.
  - inversion Ho; subst. unfold fs_mut, h_setdata. cbn [f_tree]. rewrite Hp. reflexivity.
  - destruct (is_opq_name k); [discriminate|]. inversion Ho; subst. unfold fs_mut, h_setxattr, h_update. cbn [f_tree]. rewrite Hp. reflexivity.
  - destruct (is_opq_name k); [discriminate|]. inversion Ho; subst. unfold fs_mut, h_removexattr. cbn [f_tree]. rewrite Hp. reflexivity.
Qed.

Theorem refines_symlink_upper s o (p : path) e u tg v : sym_eff o = Some (p, e) ->
  Coherent s -> upper s = Some u -> tget u p = Some (Lnk tg) -> (List.length p < DEPTH)%nat -> view (load_all s) = Some v ->
  refines_at s o v.
Proof.
  intros Ho HC Hu Hp Hlen Hv.
  destruct (step_symlink_run o p e s u tg Ho HC Hu Hp) as (s' & Hrun & (U' & L' & _)).
  apply (refine_unchanged s o v e s' HC (sym_eff_coh _ _ _ Ho) Hv Hrun U' L').
  intros mv Hm. rewrite Hu in Hm. cbn [all_layers] in Hm.
  apply (fs_apply_sym o p e tg mv (next_ino s) Ho).
  exact (merge_leaf_at u (lowers s) p (Lnk tg) mv (coherent_wf_layers s u HC Hu) Hp eq_refl Hlen Hm).
Qed.

(* ------------------------------------------------------------------ re-running after the copy-up of the target *)
Lemma bind_congr2 {A B} (m : M A) (f : A -> M B) s s' : m s = m s' -> bind m f s = bind m f s'.
Proof. unfold bind. intros ->. reflexivity. Qed.
(* the six operations have the shape walk, lookup, copy-up unless upper, tail: they run alike from [s] and from [s3] *)
Lemma attr_ops_rerun o (p : path) s s1 s2 s3 u u3 n2 n3 : dattr_op_path o = Some p ->
  walk p s = (Ok tt, s1) -> upper s1 = Some u -> lookup_node p None s1 = (Ok p, s2) -> nget p (root s2) = Some n2 -> n_wh n2 = false -> in_upper n2 = false ->
  copy_node_up p s2 = (Ok tt, s3) -> upper s3 = Some u3 ->
  walk p s3 = (Ok tt, s3) -> lookup_node p None s3 = (Ok p, s3) -> nget p (root s3) = Some n3 -> n_wh n3 = false -> in_upper n3 = true ->
  copy_node_up p s3 = (Ok tt, s3) -> step o s = step o s3.
Proof.
  intros Ho E1 Hu1 Elk Hg2 Hw2 Hin2 Ecu Hu3 W3 Lk3 Hg3 Hw3 Hin3 Cu3.
  pose proof (need_upper_ok s1 u Hu1) as Nu1. pose proof (need_upper_ok s3 u3 Hu3) as Nu3.
  assert (Enc : node_checked p s1 = (Ok tt, s2)).
  { unfold node_checked. rewrite (bind_ok _ _ _ _ _ Elk), (bind_ok _ _ _ _ _ (get_node_ok p s2 n2 Hg2)), Hw2. reflexivity. }
  assert (Enc3 : node_checked p s3 = (Ok tt, s3)).
  { unfold node_checked. rewrite (bind_ok _ _ _ _ _ Lk3), (bind_ok _ _ _ _ _ (get_node_ok p s3 n3 Hg3)), Hw3. reflexivity. }
  assert (Eens : forall (K : M string), (n <- get_node p;; (if in_upper n then ret tt else copy_node_up p);;; K) s2 = K s3).
  { intros K. rewrite (bind_ok _ _ _ _ _ (get_node_ok p s2 n2 Hg2)), Hin2, (bind_ok _ _ _ _ _ Ecu). reflexivity. }
  assert (Eens3 : forall (K : M string), (n <- get_node p;; (if in_upper n then ret tt else copy_node_up p);;; K) s3 = K s3).
  { intros K. rewrite (bind_ok _ _ _ _ _ (get_node_ok p s3 n3 Hg3)), Hin3. reflexivity. }
  assert (Eopen : forall fl, of_readonly fl = false -> do_open p fl s1 = do_open p fl s3).
  { intros fl Hro. unfold do_open. rewrite (bind_ok _ _ _ _ _ Lk3), (bind_ok _ _ _ _ _ (get_node_ok p s3 n3 Hg3)), Hw3, Hro, (bind_ok _ _ _ _ _ Cu3).
    rewrite (bind_ok _ _ _ _ _ Elk), (bind_ok _ _ _ _ _ (get_node_ok p s2 n2 Hg2)), Hw2, (bind_ok _ _ _ _ _ Ecu). reflexivity. }
  unfold walk in *.
  destruct o; cbn [dattr_op_path] in Ho; try discriminate; cbn [step].
  - destruct (of_readonly fl) eqn:Hro; [discriminate|]. inversion Ho; subst p0.
    unfold walk. rewrite (bind_ok _ _ _ _ _ E1), (bind_ok _ _ _ _ _ W3). apply bind_congr2. exact (Eopen fl Hro).
  - inversion Ho; subst p0. unfold walk. rewrite (bind_ok _ _ _ _ _ E1), (bind_ok _ _ _ _ _ W3). apply bind_congr2. exact (Eopen OF_W eq_refl).
  - inversion Ho; subst p0. unfold walk.
    rewrite (bind_ok _ _ _ _ _ E1), (bind_ok _ _ _ _ _ Nu1), (bind_ok _ _ _ _ _ Elk), Eens.
    rewrite (bind_ok _ _ _ _ _ W3), (bind_ok _ _ _ _ _ Nu3), (bind_ok _ _ _ _ _ Lk3), Eens3. reflexivity.
  - inversion Ho; subst p0. unfold walk.
    rewrite (bind_ok _ _ _ _ _ E1), (bind_ok _ _ _ _ _ Nu1), (bind_ok _ _ _ _ _ Elk), Eens.
    rewrite (bind_ok _ _ _ _ _ W3), (bind_ok _ _ _ _ _ Nu3), (bind_ok _ _ _ _ _ Lk3), Eens3. reflexivity.
  - inversion Ho; subst p0. unfold walk.
    rewrite (bind_ok _ _ _ _ _ E1), (bind_ok _ _ _ _ _ Enc), Eens. rewrite (bind_ok _ _ _ _ _ W3), (bind_ok _ _ _ _ _ Enc3), Eens3. reflexivity.
  - inversion Ho; subst p0. unfold walk.
    rewrite (bind_ok _ _ _ _ _ E1), (bind_ok _ _ _ _ _ Enc), Eens. rewrite (bind_ok _ _ _ _ _ W3), (bind_ok _ _ _ _ _ Enc3), Eens3. reflexivity.
Qed.

(* lookup_node with the empty name on a node that is not a directory reads the cache only *)
Lemma lookup_nondir_noop (p : path) s n t : nget p (root s) = Some n -> n_wh n = false -> node_stat s n = Some t -> is_dirT t = false ->
  lookup_node p None s = (Ok p, s).
Proof.
  intros Hg Hw Hst Hnd. unfold lookup_node. rewrite (bind_ok _ _ _ _ _ (get_node_ok p s n Hg)), Hw.
  assert (Es : stat_node n s = (Ok t, s)) by (unfold stat_node; rewrite Hst; reflexivity).
  rewrite (bind_ok _ _ _ _ _ Es). unfold load_if_dir. rewrite Hnd. reflexivity.
Qed.

(* the state after the copy-up of a lower-only symlink at [pp]/[nm] *)
Lemma symlink_prestate (pp : path) (nm : name) s u tg rest : let p := pp ++ [nm] in
  Coherent s -> upper s = Some u -> visp (u :: lowers s) [] p -> mstack (u :: lowers s) p = Lnk tg :: rest -> tget u p = None ->
  (List.length p < DEPTH)%nat -> cu_disk_ok u (lowers s) pp ->
  exists s1 s2 n2 s3 u3 n3, walk p s = (Ok tt, s1) /\ upper s1 = Some u /\ lookup_node p None s1 = (Ok p, s2) /\ Coherent s2 /\ sd s s2 /\
    nget p (root s2) = Some n2 /\ n_wh n2 = false /\ in_upper n2 = false /\ copy_node_up p s2 = (Ok tt, s3) /\
    Coherent s3 /\ upper s3 = Some u3 /\ lowers s3 = lowers s /\ next_ino s3 = next_ino s /\ oteq (merge (u3 :: lowers s)) (merge (u :: lowers s)) /\
    tget u3 p = Some (Lnk tg) /\ (forall (q : path) t, tget u q = Some t -> is_dirT t = false -> tget u3 q = Some t) /\
    (forall (q : path) m x ch, tget u q = Some (Dir m x ch) -> exists ch', tget u3 q = Some (Dir m x ch')) /\
    walk p s3 = (Ok tt, s3) /\ lookup_node p None s3 = (Ok p, s3) /\ nget p (root s3) = Some n3 /\ n_wh n3 = false /\ in_upper n3 = true /\
    copy_node_up p s3 = (Ok tt, s3) /\ same_paths s2 s3.
Proof.
  intros p HC Hu Hvis Hms Hnoup Hlen Hcu.
  assert (Hdep : (List.length pp < DEPTH)%nat) by (unfold p in Hlen; rewrite app_length in Hlen; cbn in Hlen; lia).
  destruct (target_run p s u _ rest HC Hu Hvis Hms eq_refl) as (s1 & s2 & n2 & r2 & rs2 & E1 & HC1 & Hsd1 & Elk & HC2 & Hsd2 & Hg2 & Hw2 & Er2 & Hrt2 & Hst2 & _).
  pose proof Hsd1 as (U1 & L1 & I1). pose proof Hsd2 as (U2 & L2 & I2).
  assert (Hu1 : upper s1 = Some u) by congruence. assert (Hu2 : upper s2 = Some u) by congruence.
  assert (Hin2 : in_upper n2 = false).
  { destruct (in_upper n2) eqn:E; [|reflexivity]. rewrite (upper_dir_of_node s2 u p n2 _ HC2 Hu2 Hg2 E Hst2) in Hnoup. discriminate. }
  destruct (cnu_symlink_run pp nm s2 u n2 tg HC2 Hu2 Hg2 Hst2 Hin2 Hdep) as (s3 & u2 & m2 & x2 & ch2 & rest0 & n3 & ri & Ecu & HC3 & L3 & I3 & U3 & W2 & M2 & (_ & R2 & R3) & Hpp2 & Hnone2 & Hms2 & Hg3 & Er3 & Hup3 & Hl03 & Hpath3 & Hw3 & SP);
    [rewrite L2; exact Hcu|].
  rewrite L2 in *. set (u3 := tupd pp (dir_ins nm (Lnk tg)) u2) in *.
  assert (Hd : exists f, DEPTH = (S (S f) + List.length pp)%nat).
  { unfold p in Hlen. rewrite app_length in Hlen. cbn [List.length] in Hlen. exists (DEPTH - 2 - List.length pp)%nat. lia. }
  destruct Hd as [f Hd].
  assert (Hp3 : tget u3 p = Some (Lnk tg)).
  { unfold u3, p. rewrite (tget_app _ pp nm), tget_tupd, Hpp2. cbn [option_map dir_ins]. apply afind_aset_same. }
  assert (Hst3 : node_stat s3 n3 = Some (Lnk tg)).
  { unfold node_stat. rewrite Er3. cbn [map first_some]. rewrite real_tree_ent, Hl03, Hpath3. unfold ent. cbn [get_layer]. rewrite U3. fold u3 p. rewrite Hp3. reflexivity. }
  assert (Hin3 : in_upper n3 = true) by (unfold in_upper; rewrite Er3; exact Hup3).
  exists s1, s2, n2, s3, u3, n3.
  split; [exact E1|]. split; [exact Hu1|]. split; [exact Elk|]. split; [exact HC2|]. split; [exact Hsd2|]. split; [exact Hg2|]. split; [exact Hw2|]. split; [exact Hin2|].
  split; [exact Ecu|]. split; [exact HC3|]. split; [exact U3|]. split; [exact L3|]. split; [congruence|].
  split; [apply (oteq_trans _ (merge (u2 :: lowers s))); [exact (symlink_up_merge u2 (lowers s) pp nm m2 x2 ch2 tg rest0 f W2 Hpp2 Hnone2 Hms2 Hd)|exact M2]|].
  split; [exact Hp3|]. split.
  { intros q t Hq Hnd. unfold u3. apply (tget_tupd_ins_leaf nm (Lnk tg) pp u2 q t m2 x2 ch2 Hpp2 Hnone2); [apply R2; assumption|exact Hnd]. }
  split.
  { intros q mq xq chq Hq. destruct (R3 q mq xq chq Hq) as [ch1 H1]. unfold u3. exact (tget_tupd_ins_dir nm (Lnk tg) pp u2 q m2 x2 ch2 mq xq ch1 Hpp2 Hnone2 H1). }
  split; [unfold walk; apply (walk_noop s3 p [] n3 (Lnk tg) HC3 Hg3 Hw3 Hst3); discriminate|].
  split; [exact (lookup_nondir_noop p s3 n3 _ Hg3 Hw3 Hst3 eq_refl)|]. split; [exact Hg3|]. split; [exact Hw3|]. split; [exact Hin3|].
  split; [exact (copy_up_noop p s3 n3 ri [] Hg3 Er3 Hup3)|exact SP].
Qed.

Theorem refines_symlink_lower s o (pp : path) (nm : name) e u tg rest v : sym_eff o = Some (pp ++ [nm], e) ->
  Coherent s -> upper s = Some u -> visp (u :: lowers s) [] (pp ++ [nm]) -> mstack (u :: lowers s) (pp ++ [nm]) = Lnk tg :: rest ->
  tget u (pp ++ [nm]) = None -> (List.length (pp ++ [nm]) < DEPTH)%nat -> cu_disk_ok u (lowers s) pp -> view (load_all s) = Some v ->
  refines_at s o v.
Proof.
  intros Ho HC Hu Hvis Hms Hnoup Hlen Hcu Hv.
  destruct (symlink_prestate pp nm s u tg rest HC Hu Hvis Hms Hnoup Hlen Hcu)
    as (s1 & s2 & n2 & s3 & u3 & n3 & E1 & Hu1 & Elk & HC2 & Hsd2 & Hg2 & Hw2 & Hin2 & Ecu & HC3 & Hu3 & L3 & I3 & M3 & Hp3 & _ & _ & W3 & Lk3 & Hg3 & Hw3 & Hin3 & Cu3 & _).
  pose proof (attr_ops_rerun o (pp ++ [nm]) s s1 s2 s3 u u3 n2 n3 (sym_eff_path _ _ _ Ho) E1 Hu1 Elk Hg2 Hw2 Hin2 Ecu Hu3 W3 Lk3 Hg3 Hw3 Hin3 Cu3) as Hrun.
  destruct (views_teq s s3 u u3 v HC HC3 Hu Hu3 L3 M3 Hv) as (v3 & Hv3 & T3).
  apply (refines_transfer s s3 o v v3 Hrun L3 I3 T3).
  exact (refines_symlink_upper s3 o (pp ++ [nm]) e u3 tg v3 Ho HC3 Hu3 Hp3 Hlen Hv3).
Qed.

(* ------------------------------------------------------------------ the fragment *)
(* [direct_symlink s o]: chmod / truncate / write / open (not read-only) / setxattr / removexattr (not an opaque marker) of a
   visible path whose first candidate is a symlink - of the upper layer, or of a lower layer with a parent chain within [cu_okb] *)
Definition direct_symlink (s : state) (o : op) : bool :=
  match upper s, sym_eff o with
  | Some u, Some (p, _) =>
      let L := u :: lowers s in
      match split_last p with
      | Some (pp, nm) =>
          (List.length p <? DEPTH)%nat && visb L [] p && match mstack L p with Lnk _ :: _ => true | _ => false end &&
          match tget u p with Some _ => true | None => cu_okb u (lowers s) pp end
      | None => false
      end
  | _, _ => false
  end.
Theorem op_refines_symlink s o v : Coherent s -> direct_symlink s o = true -> view (load_all s) = Some v -> refines_at s o v.
Proof.
  intros HC Hd Hv. unfold direct_symlink in Hd. destruct (upper s) as [u|] eqn:Hu; [|discriminate].
  destruct (sym_eff o) as [[p e]|] eqn:Ho; [|discriminate]. cbv zeta in Hd.
  destruct (split_last p) as [[pp nm]|] eqn:Esp; [|discriminate]. apply split_last_spec in Esp. subst p.
  apply andb_prop in Hd. destruct Hd as [Hd H4]. apply andb_prop in Hd. destruct Hd as [Hd H3]. apply andb_prop in Hd. destruct Hd as [H1 H2]. apply Nat.ltb_lt in H1.
  destruct (mstack (u :: lowers s) (pp ++ [nm])) as [|[| |tg|] rest] eqn:Hms; try discriminate.
  destruct (tget u (pp ++ [nm])) as [t|] eqn:Hp.
  - destruct (mstack_head (pp ++ [nm]) u (lowers s) t Hp) as [r Hr]. assert (t = Lnk tg) by congruence. subst t.
    exact (refines_symlink_upper s o (pp ++ [nm]) e u tg v Ho HC Hu Hp H1 Hv).
  - exact (refines_symlink_lower s o pp nm e u tg rest v Ho HC Hu (visb_visp _ _ _ H2) Hms Hp H1 (cu_okb_ok _ _ _ H4) Hv).
Qed.
