(* C19 as one statement: a history with a save / restore / re-attach step inserted anywhere is answered, from that
   step on, exactly like the history without it -- every later step, for every future, including further
   save/restores.  Bisimulation: observational equality of states (Proofs/VfsEq.v) is established by the round trip
   (Proofs/VfsRoundtrip.v) and preserved by every step (Proofs/VfsEqOps.v). *)
From Coq Require Import List NArith Bool Lia Permutation.
From FB Require Import Model.Pseudo Gen.VfsTable Model.Vfs Model.Persist Model.VfsRun Model.VfsLive
  Proofs.VfsInv Proofs.VfsRouting Proofs.VfsPersist Proofs.PseudoTree
  Proofs.VfsEq Proofs.VfsEqOps Proofs.VfsLiveInv Proofs.VfsRoundtrip.
Import ListNotations.
Local Open Scope N_scope.

Definition perm_order (ord : order) : Prop := forall st l, Permutation (ord st l) l.
Lemma ord_idx_perm : perm_order ord_idx.
Proof. intros st l. apply Permutation_refl. Qed.

(* ---------- unfolding the three runners ---------- *)
Lemma triple_proj (x : vfs * list N * bool) : x = (st_of x, obs_of x, dead_of x).
Proof. destruct x as [[a b] d]. reflexivity. Qed.

Lemma run_from_cons c s st r :
  run_from c s false (st :: r) = obs_of (run_step c s st) :: run_from c (st_of (run_step c s st)) (dead_of (run_step c s st)) r.
Proof. cbn [run_from]. destruct (run_step c s st) as [[s' o] d]. reflexivity. Qed.
Lemma fill_from_cons ord c s live st r :
  fill_from ord c s live false (st :: r) =
  fill_step ord live st :: fill_from ord c (st_of (run_step c s (fill_step ord live st))) (live_step s (fill_step ord live st) live)
                                     (dead_of (run_step c s (fill_step ord live st))) r.
Proof. cbn [fill_from]. destruct (run_step c s (fill_step ord live st)) as [[s' o] d]. reflexivity. Qed.
Lemma good_from_cons ord c s live st r :
  good_from ord c s live false (st :: r) =
  step_good c s live (fill_step ord live st) &&
  good_from ord c (st_of (run_step c s (fill_step ord live st))) (live_step s (fill_step ord live st) live)
            (dead_of (run_step c s (fill_step ord live st))) r.
Proof. cbn [good_from]. destruct (run_step c s (fill_step ord live st)) as [[s' o] d]. reflexivity. Qed.

Lemma run_from_dead c s t : forall l, run_from c s true l = run_from c t true l.
Proof. induction l as [|st r IH]; [reflexivity|]. cbn [run_from]. rewrite IH. reflexivity. Qed.
Lemma fill_from_dead ord c s live l : fill_from ord c s live true l = l.
Proof. destruct l; reflexivity. Qed.

Lemma good_from_dead ord c s live l : good_from ord c s live true l = true.
Proof. destruct l; reflexivity. Qed.

Lemma fill_step_save ord live st : is_save (fill_step ord live st) = is_save st.
Proof. destruct st; reflexivity. Qed.

(* ---------- one step, from related states ---------- *)
Section Ord.
Variable ord : order.
Hypothesis Hord : perm_order ord.

Lemma step_rel c s t live st : veq s t -> inv c s live -> inv c t live ->
  step_good c s live (fill_step ord live st) = true ->
  let x := run_step c s (fill_step ord live st) in let y := run_step c t (fill_step ord live st) in
  veq (st_of x) (st_of y) /\ obs_of x = obs_of y /\ dead_of x = dead_of y /\
  inv c (st_of x) (live_step s (fill_step ord live st) live) /\ inv c (st_of y) (live_step s (fill_step ord live st) live) /\
  live_step t (fill_step ord live st) live = live_step s (fill_step ord live st) live.
Proof.
  intros Q Is It Hg. cbv zeta.
  pose proof (step_good_cong c s t live (fill_step ord live st) Q) as Hgt. rewrite Hg in Hgt. symmetry in Hgt.
  pose proof (live_step_cong s t (fill_step ord live st) live Q) as Hl.
  destruct (is_save (fill_step ord live st)) eqn:Es.
  - (* save / restore / re-attach on both sides *)
    rewrite fill_step_save in Es. destruct st as [| | | | | | |ver dflt hint]; try discriminate.
    cbn [fill_step step_good live_step] in *.
    destruct (save_step c s live ver dflt (ord (SSaveRestore ver dflt hint) live) Is (Hord _ live) Hg) as (s1 & Hs & Qs & Is1).
    destruct (save_step c t live ver dflt (ord (SSaveRestore ver dflt hint) live) It (Hord _ live) Hgt) as (t1 & Ht & Qt & It1).
    rewrite Hs, Ht. unfold st_of, obs_of, dead_of. cbn [fst snd].
    split; [apply (veq_trans _ _ _ (veq_sym _ _ Qs) (veq_trans _ _ _ Q Qt))|].
    split; [reflexivity|]. split; [reflexivity|]. split; [exact Is1|]. split; [exact It1|reflexivity].
  - destruct (run_step_cong c s t _ Es Q) as (Q1 & Ho & Hd).
    split; [exact Q1|]. split; [exact Ho|]. split; [exact Hd|].
    split; [apply (inv_step c s live _ Es Is Hg)|].
    split; [rewrite Hl; apply (inv_step c t live _ Es It Hgt)|symmetry; exact Hl].
Qed.

(* ---------- the bisimulation ---------- *)
Theorem bisim c : forall l s t live dead, veq s t -> inv c s live -> inv c t live ->
  good_from ord c s live dead l = true ->
  run_from c s dead (fill_from ord c s live dead l) = run_from c t dead (fill_from ord c t live dead l).
Proof.
  induction l as [|st r IH]; intros s t live dead Q Is It Hg; [destruct dead; reflexivity|].
  destruct dead; [rewrite !fill_from_dead; apply run_from_dead|].
  rewrite good_from_cons in Hg. apply andb_true_iff in Hg. destruct Hg as [Hg1 Hg2].
  destruct (step_rel c s t live st Q Is It Hg1) as (Q1 & Ho & Hd & Is1 & It1 & Hl).
  rewrite !fill_from_cons, !run_from_cons, Ho, Hd, Hl. f_equal.
  rewrite <- Hd. apply IH; assumption.
Qed.

(* a step from one state: the invariant is kept *)
Lemma step_inv c s live st : inv c s live -> step_good c s live (fill_step ord live st) = true ->
  inv c (st_of (run_step c s (fill_step ord live st))) (live_step s (fill_step ord live st) live).
Proof. intros I Hg. apply (step_rel c s s live st (veq_refl s) I I Hg). Qed.

(* ---------- inserting one save/restore into a history ---------- *)
Theorem insert_save c : forall h s live dead ver dflt hint fut, inv c s live ->
  good_from ord c s live dead (h ++ SSaveRestore ver dflt hint :: fut) = true ->
  skipn (S (length h)) (run_from c s dead (fill_from ord c s live dead (h ++ SSaveRestore ver dflt hint :: fut))) =
  skipn (length h) (run_from c s dead (fill_from ord c s live dead (h ++ fut))).
Proof.
  induction h as [|st h IH]; intros s live dead ver dflt hint fut I Hg.
  - cbn [app length] in *. destruct dead.
    + rewrite !fill_from_dead. reflexivity.
    + rewrite good_from_cons in Hg. apply andb_true_iff in Hg. destruct Hg as [Hg1 Hg2].
      rewrite fill_from_cons, run_from_cons. cbn [skipn].
      cbn [fill_step step_good live_step] in *.
      destruct (save_step c s live ver dflt (ord (SSaveRestore ver dflt hint) live) I (Hord _ live) Hg1) as (s1 & Hs & Qs & Is1).
      rewrite Hs in *. unfold st_of, dead_of in *. cbn [fst snd] in *.
      apply (bisim c fut s1 s live false (veq_sym _ _ Qs) Is1 I Hg2).
  - cbn [app length] in *. destruct dead.
    + rewrite !fill_from_dead. cbn [run_from]. change (skipn (S (S (length h)))) with (fun l : list (list N) => skipn (S (S (length h))) l).
      cbv beta. cbn [skipn]. specialize (IH s live true ver dflt hint fut I). rewrite !fill_from_dead in IH. apply IH. apply good_from_dead.
    + rewrite good_from_cons in Hg. apply andb_true_iff in Hg. destruct Hg as [Hg1 Hg2].
      rewrite !fill_from_cons, !run_from_cons. cbn [skipn].
      apply IH; [|exact Hg2]. apply (step_inv c s live st I Hg1).
Qed.

Theorem obs_equiv c h ver dflt hint fut :
  good ord c (h ++ SSaveRestore ver dflt hint :: fut) = true ->
  skipn (S (length h)) (run_hist c (fill ord c (h ++ SSaveRestore ver dflt hint :: fut))) =
  skipn (length h) (run_hist c (fill ord c (h ++ fut))).
Proof. intros Hg. apply (insert_save c h (vfs_of c false) [] false ver dflt hint fut (inv_new c) Hg). Qed.

(* the save/restore itself succeeds, and every backend is re-attached *)
Theorem save_succeeds c : forall h s live dead ver dflt hint, inv c s live ->
  good_from ord c s live dead (h ++ [SSaveRestore ver dflt hint]) = true ->
  let o := nth (length h) (run_from c s dead (fill_from ord c s live dead (h ++ [SSaveRestore ver dflt hint]))) [] in
  o = [3] \/ exists live', o = save_ok_obs live'.
Proof.
  induction h as [|st h IH]; intros s live dead ver dflt hint I Hg; cbv zeta.
  - cbn [app length] in *. destruct dead; [left; reflexivity|].
    rewrite good_from_cons in Hg. apply andb_true_iff in Hg. destruct Hg as [Hg1 _].
    rewrite fill_from_cons, run_from_cons. cbn [nth fill_step step_good] in *.
    destruct (save_step c s live ver dflt (ord (SSaveRestore ver dflt hint) live) I (Hord _ live) Hg1) as (s1 & Hs & _). rewrite Hs. right. eexists. reflexivity.
  - cbn [app length] in *. destruct dead.
    + rewrite fill_from_dead. cbn [run_from nth]. specialize (IH s live true ver dflt hint I (good_from_dead _ _ _ _ _)). rewrite fill_from_dead in IH. exact IH.
    + rewrite good_from_cons in Hg. apply andb_true_iff in Hg. destruct Hg as [Hg1 Hg2].
      rewrite fill_from_cons, run_from_cons. cbn [nth]. apply IH; [|exact Hg2]. apply (step_inv c s live st I Hg1).
Qed.

(* the invariant holds after every covered history *)
Theorem good_inv c : forall h s live, inv c s live -> good_from ord c s live false h = true ->
  exists s' live' d, inv c s' live' /\ forall r, good_from ord c s live false (h ++ r) = good_from ord c s' live' d r.
Proof.
  induction h as [|st h IH]; intros s live I Hg.
  - exists s, live, false. split; [exact I|reflexivity].
  - rewrite good_from_cons in Hg. apply andb_true_iff in Hg. destruct Hg as [Hg1 Hg2].
    pose proof (step_inv c s live st I Hg1) as I1.
    destruct (dead_of (run_step c s (fill_step ord live st))) eqn:Ed.
    + exists (st_of (run_step c s (fill_step ord live st))), (live_step s (fill_step ord live st) live), true.
      split; [exact I1|]. intros r. cbn [app]. rewrite good_from_cons, Hg1, Ed. destruct (h ++ r); destruct r; reflexivity.
    + destruct (IH _ _ I1 Hg2) as (s' & live' & d & I' & Hr). exists s', live', d. split; [exact I'|].
      intros r. cbn [app]. rewrite good_from_cons, Hg1, Ed. apply Hr.
Qed.

End Ord.

(* ---------- doing it twice ---------- *)
Theorem restore_idempotent c s live ver dflt ver2 dflt2 : inv c s live ->
  save_good c s live ver dflt = true -> save_good c s live ver2 dflt2 = true ->
  let t1 := restore_and_reattach c ver dflt s live in
  let t2 := restore_and_reattach c ver2 dflt2 t1 live in
  veq s t1 /\ veq s t2 /\ inv c t2 live.
Proof.
  intros I G1 G2. cbv zeta. unfold restore_and_reattach.
  destruct (save_step c s live ver dflt live I (Permutation_refl _) G1) as (t1 & H1 & Q1 & I1). rewrite H1. cbn [fst].
  assert (G2' : save_good c t1 live ver2 dflt2 = true).
  { pose proof (step_good_cong c s t1 live (SSaveRestore ver2 dflt2 []) Q1) as E. cbn [step_good] in E. rewrite <- E. exact G2. }
  destruct (save_step c t1 live ver2 dflt2 live I1 (Permutation_refl _) G2') as (t2 & H2 & Q2 & I2). rewrite H2. cbn [fst].
  split; [exact Q1|]. split; [apply (veq_trans _ _ _ Q1 Q2)|exact I2].
Qed.
