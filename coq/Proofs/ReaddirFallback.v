(* Proofs/ReaddirFallback.v -- C16 on hosts whose cookies cannot all be lseek'ed to (NFS-like:
   cookies above i64::MAX, or lseek answering EINVAL): the linear-scan fallback of do_readdir keeps
   the listing safe - what the client receives is always a prefix of the remaining entries. *)
From Coq Require Import List NArith Bool Lia ZifyBool ZifyNat ZifyN Arith.
From FB Require Import Model.Readdir Proofs.Readdir Proofs.ReaddirStep Proofs.ReaddirListing Proofs.ReaddirScan.
Import ListNotations.
Local Open Scope N_scope.

(* lseek either works or says EINVAL (the only recoverable error), and rewinding always works *)
Definition seek_recoverable (H : host) : Prop :=
  ho_seek_status H 0 = 0 /\ forall c, ho_seek_status H c = 0 \/ ho_seek_status H c = EINVAL.

Lemma all_fit_mono size size' l : size <= size' -> all_fit size l -> all_fit size' l.
Proof. intros Hle Hf x Hx. pose proof (Hf x Hx). lia. Qed.

Lemma all_fit_app_r size a b : all_fit size (a ++ b) -> all_fit size b.
Proof. intros Hf x Hx. apply Hf. apply in_or_app. right. exact Hx. Qed.

(* with every record fitting, the re-read loop cannot fail *)
Lemma refill_all_fit size : forall fuel s b pos,
  (length s < fuel)%nat -> all_fit size s ->
  exists b2 n2, refill fuel s size b pos = (ROk b2, n2).
Proof.
  induction fuel as [|f IH]; intros s b pos Hlen Hf; [lia|].
  cbn [refill]. destruct (only_dots b); [|eauto].
  destruct (getdents_all_fit _ _ Hf) as (b' & s' & Hg & Hs & Hne). rewrite Hg.
  assert (Hsk : skipn (length b') s = s') by (rewrite Hs at 1; apply skipn_app_len). rewrite Hsk.
  destruct s as [|e ts].
  - destruct b'; [|discriminate]. cbn [app] in Hs. subst s'. destruct f; cbn [refill only_dots]; eauto.
  - assert (Hb' : b' <> []) by (apply Hne; discriminate).
    apply IH.
    + assert (Hl : length (e :: ts) = (length b' + length s')%nat) by (rewrite Hs at 1; apply app_length).
      destruct b'; [congruence|cbn [length] in *; lia].
    + rewrite Hs in Hf. apply (all_fit_app_r _ _ _ Hf).
Qed.

(* what `post` hands over: a segment of b ++ s after skipped dot records *)
Lemma post_resume X uc d size (p : list hent) b s :
  d = p ++ b ++ s -> all_fit size s ->
  exists K B S, b ++ s = K ++ B ++ S /\ visible K = [] /\
                fst (post X uc d size b (length p + length b)) = ROk B.
Proof.
  intros Hd Hf. unfold post.
  assert (Hsk : skipn (length p + length b) d = s).
  { rewrite Hd, app_assoc. replace (length p + length b)%nat with (length (p ++ b)) by (rewrite app_length; reflexivity).
    apply skipn_app_len. }
  rewrite Hsk. destruct (rx_refill X).
  - destruct (refill_all_fit size (S (length s)) s b (length p + length b)%nat (Nat.lt_succ_diag_r _) Hf) as (b2 & n2 & Hr).
    rewrite Hr. destruct (refill_segment size _ p b s b2 n2 Hr) as (K & s2 & HK & _ & Hv).
    exists K, b2, s2. split; [exact HK|]. split; [exact Hv|reflexivity].
  - exists [], b, s. split; [reflexivity|]. split; reflexivity.
Qed.

Lemma fb_resume X uc p x rest size :
  good_dir ((p ++ [x]) ++ rest) -> all_fit size ((p ++ [x]) ++ rest) ->
  exists K B S, rest = K ++ B ++ S /\ visible K = [] /\
                fst (fb X uc ((p ++ [x]) ++ rest) size (h_off x)) = ROk B.
Proof.
  intros Hg Hf.
  assert (Hd : (p ++ [x]) ++ rest = p ++ x :: rest) by (rewrite <- app_assoc; reflexivity).
  unfold fb.
  set (ss := if rx_scanlen X then N.max size 4096 else size).
  assert (Hfs : all_fit ss (p ++ x :: rest)).
  { rewrite <- Hd. apply (all_fit_mono size); [unfold ss; destruct (rx_scanlen X); lia|exact Hf]. }
  assert (Hn : ~ In (h_off x) (map h_off p)) by (apply nodup_mid_notin with rest; rewrite <- Hd; apply Hg).
  rewrite Hd.
  destruct (scan_found (S (length (p ++ x :: rest))) [] p x rest ss (h_off x)
              (Nat.lt_succ_diag_r _) eq_refl Hn Hfs) as (b & s & Hsc & Hr & _).
  cbn [length] in Hsc. rewrite Hsc.
  assert (Hd2 : p ++ x :: rest = (p ++ [x]) ++ b ++ s) by (rewrite Hr, <- app_assoc; reflexivity).
  assert (Hfs2 : all_fit size s).
  { intros y Hy. apply Hf. apply in_or_app. right. rewrite Hr. apply in_or_app. right. exact Hy. }
  destruct (post_resume X uc (p ++ x :: rest) size (p ++ [x]) b s Hd2 Hfs2) as (K & B & S & HK & Hv & Hp).
  replace (0 + length p + 1 + length b)%nat with (length (p ++ [x]) + length b)%nat by (rewrite app_length; cbn [length]; lia).
  exists K, B, S. split; [rewrite Hr; exact HK|]. split; [exact Hv|exact Hp].
Qed.

Lemma gd_resume X uc pre rest size :
  all_fit size (pre ++ rest) ->
  exists K B S, rest = K ++ B ++ S /\ visible K = [] /\
                fst (gd X uc (pre ++ rest) size (length pre)) = ROk B.
Proof.
  intros Hf. unfold gd. rewrite skipn_pre.
  destruct (getdents_all_fit rest size (all_fit_app_r _ _ _ Hf)) as (b & s & Hg & Hs & _). rewrite Hg.
  assert (Hd : pre ++ rest = pre ++ b ++ s) by (rewrite Hs; reflexivity).
  assert (Hfs : all_fit size s).
  { intros y Hy. apply Hf. apply in_or_app. right. rewrite Hs. apply in_or_app. right. exact Hy. }
  destruct (post_resume X uc (pre ++ rest) size pre b s Hd Hfs) as (K & B & S & HK & Hv & Hp).
  exists K, B, S. split; [rewrite Hs; exact HK|]. split; [exact Hv|exact Hp].
Qed.

Lemma fetch_resume_any H X uc pre rest hs size off :
  good_dir (pre ++ rest) -> seek_recoverable H -> Inv_h (pre ++ rest) hs -> off_at pre off ->
  all_fit size (pre ++ rest) ->
  exists K B S, rest = K ++ B ++ S /\ visible K = [] /\ fst (fetch H X uc (pre ++ rest) hs size off) = ROk B.
Proof.
  intros Hg [Hs0 Hs] Hi Ho Hf. rewrite fetch_unfold.
  destruct (off_at_index _ _ _ Hg Ho) as [[-> ->]|[Hnz Hidx]].
  - destruct (cache_hit uc hs 0) eqn:Hh.
    + exfalso. destruct uc; [|discriminate]. destruct (cache_hit_sound H _ _ _ Hg Hi Hh) as [Hx _].
      exact (good_no_zero _ _ Hg Hx).
    + replace (I64_MAX <? 0) with false by reflexivity. rewrite Hs0. cbn [N.eqb].
      unfold lseek_pos. cbn [N.eqb]. apply (gd_resume X uc [] rest size Hf).
  - assert (Hgd : forall pos, pos = length pre ->
              exists K B S, rest = K ++ B ++ S /\ visible K = [] /\ fst (gd X uc (pre ++ rest) size pos) = ROk B).
    { intros pos ->. apply gd_resume. exact Hf. }
    assert (Hfb : exists K B S, rest = K ++ B ++ S /\ visible K = [] /\ fst (fb X uc (pre ++ rest) size off) = ROk B).
    { destruct Ho as [[_ ->]|(p & x & -> & ->)]; [congruence|]. apply fb_resume; assumption. }
    destruct (cache_hit uc hs off) eqn:Hh.
    + destruct uc; [|discriminate]. destruct (cache_hit_sound H _ _ _ Hg Hi Hh) as [Hx _].
      rewrite Hidx in Hx. injection Hx as Hx. apply Hgd. congruence.
    + destruct (I64_MAX <? off); [exact Hfb|].
      destruct (Hs off) as [-> | ->].
      * cbn [N.eqb]. apply Hgd. unfold lseek_pos. destruct (off =? 0) eqn:E; [lia|]. rewrite Hidx. reflexivity.
      * replace (EINVAL =? 0) with false by reflexivity. rewrite N.eqb_refl. exact Hfb.
Qed.

Lemma step_resume_any H C pre rest st r :
  good_dir (pre ++ rest) -> seek_recoverable H -> InvSt (pre ++ rest) st ->
  lookups_ok H (pre ++ rest) -> wrap_total (c_wrap C) ->
  (c_noopendir C = false -> hs_open (st_h st (r_handle r)) = true) ->
  off_at pre (r_offset r) -> r_size r <> 0 -> all_fit (r_size r) (pre ++ rest) ->
  exists K B S, rest = K ++ B ++ S /\ visible K = [] /\
    fst (step H C (pre ++ rest) st r) =
    ROk (map (mkd H (c_wrap C) (r_plus r)) (take_fit (dirent_size (r_plus r)) (r_size r) (visible B))).
Proof.
  intros Hg Hs Hi Hl Hw Hop Ho Hnz Hf. rewrite step_unfold.
  destruct (r_size r =? 0) eqn:Ez; [lia|].
  assert (Hdel : forall K B S refs, rest = K ++ B ++ S ->
     fst (deliver H (c_wrap C) (r_plus r) (r_size r) B true 0 refs) =
     ROk (map (mkd H (c_wrap C) (r_plus r)) (take_fit (dirent_size (r_plus r)) (r_size r) (visible B)))).
  { intros K B S refs HB. rewrite (deliver_spec _ _ _ _ B); [rewrite N.sub_0_r; reflexivity| |exact Hw].
    apply (lookups_ok_sub H (pre ++ rest)); [exact Hl|]. intros e He. apply in_or_app. right.
    rewrite HB. apply in_or_app. right. apply in_or_app. left. exact He. }
  destruct (c_noopendir C).
  - destruct (fetch_resume_any H (c_rx C) false pre rest fresh_fd (r_size r) (r_offset r) Hg Hs I Ho Hf) as (K & B & S & HB & Hv & Hfe).
    exists K, B, S. split; [exact HB|]. split; [exact Hv|]. rewrite Hfe. cbn [fst]. apply (Hdel K B S _ HB).
  - rewrite (Hop eq_refl). cbn [negb]. cbv zeta.
    destruct (fetch_resume_any H (c_rx C) true pre rest (st_h st (r_handle r)) (r_size r) (r_offset r) Hg Hs (Hi _) Ho Hf) as (K & B & S & HB & Hv & Hfe).
    exists K, B, S. split; [exact HB|]. split; [exact Hv|]. rewrite Hfe. cbn [fst]. apply (Hdel K B S _ HB).
Qed.

(* safety on any host with recoverable lseek, for sizes that hold every host record *)
Theorem listing_prefix_any_host : forall plan H C pre rest st off plus replies,
  good_dir (pre ++ rest) -> seek_recoverable H -> lookups_ok H (pre ++ rest) ->
  wrap_total (c_wrap C) -> InvSt (pre ++ rest) st ->
  (c_noopendir C = false -> forall m, In m plan -> hs_open (st_h st (ms_handle m)) = true) ->
  (forall m, In m plan -> ms_size m = 0 \/ all_fit (ms_size m) (pre ++ rest)) ->
  off_at pre off ->
  listing H C (pre ++ rest) st off plus plan = map ROk replies ->
  exists s, map (mkd H (c_wrap C) plus) (visible rest) = concat replies ++ s.
Proof.
  induction plan as [|m t IH]; intros H C pre rest st off plus replies Hg Hs Hl Hw Hi Hop Hsz Ho Hlist.
  - destruct replies; [|discriminate]. cbn [concat app]. eexists. reflexivity.
  - cbn [listing] in Hlist. cbv zeta in Hlist.
    set (st1 := snd (run H C (pre ++ rest) st (ms_noise m))) in *.
    destruct replies as [|rp replies]; [discriminate|]. cbn [map] in Hlist.
    injection Hlist as Hfst Hrest.
    assert (Hi1 : InvSt (pre ++ rest) st1) by (apply run_inv; assumption).
    assert (Hop1 : c_noopendir C = false -> forall m', In m' (m :: t) -> hs_open (st_h st1 (ms_handle m')) = true).
    { intros Hc m' Hm'. unfold st1. rewrite run_open. apply Hop; assumption. }
    set (o := step H C (pre ++ rest) st1 (mk_req (ms_handle m) (ms_size m) off plus)) in *.
    assert (Hi2 : InvSt (pre ++ rest) (snd o)) by (apply step_inv; assumption).
    assert (Hop2 : c_noopendir C = false -> forall m', In m' t -> hs_open (st_h (snd o) (ms_handle m')) = true).
    { intros Hc m' Hm'. unfold o. rewrite step_open. apply Hop1; [exact Hc|right; exact Hm']. }
    assert (Hsz2 : forall m', In m' t -> ms_size m' = 0 \/ all_fit (ms_size m') (pre ++ rest))
      by (intros m' Hm'; apply Hsz; right; exact Hm').
    rewrite Hfst in Hrest.
    destruct (Hsz m (or_introl eq_refl)) as [Hz|Hfit].
    { assert (Hrp : rp = []).
      { unfold o in Hfst. rewrite step_unfold in Hfst. cbn [r_size] in Hfst. rewrite Hz in Hfst. cbn in Hfst. congruence. }
      subst rp. unfold last_off in Hrest. cbn [rev] in Hrest.
      destruct (IH H C pre rest (snd o) off plus replies Hg Hs Hl Hw Hi2 Hop2 Hsz2 Ho Hrest) as [s Hs0].
      exists s. cbn [concat app]. exact Hs0. }
    destruct (N.eq_dec (ms_size m) 0) as [Hz|Hnz].
    { assert (Hrp : rp = []).
      { unfold o in Hfst. rewrite step_unfold in Hfst. cbn [r_size] in Hfst. rewrite Hz in Hfst. cbn in Hfst. congruence. }
      subst rp. unfold last_off in Hrest. cbn [rev] in Hrest.
      destruct (IH H C pre rest (snd o) off plus replies Hg Hs Hl Hw Hi2 Hop2 Hsz2 Ho Hrest) as [s Hs0].
      exists s. cbn [concat app]. exact Hs0. }
    destruct (step_resume_any H C pre rest st1 (mk_req (ms_handle m) (ms_size m) off plus) Hg Hs Hi1 Hl Hw
                (fun Hc => Hop1 Hc m (or_introl eq_refl)) Ho Hnz Hfit) as (K & B & S & HS & HK & Hstep).
    cbn [r_size r_plus r_handle r_offset] in Hstep. fold o in Hstep. rewrite Hstep in Hfst.
    injection Hfst as Hrp.
    set (DD := take_fit (dirent_size plus) (ms_size m) (visible B)) in *.
    destruct (take_fit_prefix (dirent_size plus) (visible B) (ms_size m)) as [s' Hs']. fold DD in Hs'.
    destruct (snoc_cases DD) as [HDD|(DD' & x & HDD)].
    + rewrite HDD in Hrp. cbn [map] in Hrp. subst rp. unfold last_off in Hrest. cbn [rev] in Hrest.
      destruct (IH H C pre rest (snd o) off plus replies Hg Hs Hl Hw Hi2 Hop2 Hsz2 Ho Hrest) as [s Hs0].
      exists s. cbn [concat app]. exact Hs0.
    + rewrite HDD in Hs'. rewrite <- app_assoc in Hs'. cbn [app] in Hs'.
      destruct (filter_prefix_split _ _ _ _ _ Hs') as (B1 & B2 & HB & HB1 & HB2 & Hx).
      assert (Hd : pre ++ rest = (pre ++ (K ++ B1) ++ [x]) ++ (B2 ++ S)).
      { rewrite HS, HB, <- !app_assoc. reflexivity. }
      assert (Hvr : visible rest = DD ++ visible (B2 ++ S)).
      { rewrite HS, HB, HDD. rewrite app_assoc. rewrite (app_assoc K). apply visible_split; [|exact Hx].
        change (filter (fun e => negb (is_dot e)) (K ++ B1)) with (visible (K ++ B1)).
        rewrite visible_app, HK. exact HB1. }
      assert (Ho' : off_at (pre ++ (K ++ B1) ++ [x]) (last_off rp off)).
      { right. exists (pre ++ K ++ B1), x. split; [rewrite <- !app_assoc; reflexivity|].
        rewrite <- Hrp, HDD. apply last_off_map. }
      rewrite Hd in Hg, Hl, Hi2, Hrest, Hsz2.
      destruct (IH H C _ _ (snd o) _ plus replies Hg Hs Hl Hw Hi2 Hop2 Hsz2 Ho' Hrest) as [s Hs0].
      exists s. cbn [concat]. rewrite Hvr, map_app, Hs0, <- Hrp, app_assoc. reflexivity.
Qed.

(* ------------------------------------------------------------------ the statement on such hosts is refuted too *)
(* the full statement for hosts whose cookies need not be seekable *)
Definition C16_full_any_host_stmt (X : rfixes) : Prop :=
  forall plan H C pre rest st off plus,
  c_rx C = X ->
  good_dir (pre ++ rest) -> seek_recoverable H -> lookups_ok H (pre ++ rest) ->
  wrap_total (c_wrap C) -> InvSt (pre ++ rest) st ->
  (c_noopendir C = false -> forall m, In m plan -> hs_open (st_h st (ms_handle m)) = true) ->
  off_at pre off ->
  plan_ok spec_size_ok H C (pre ++ rest) st off plus plan ->
  (length (visible rest) < length plan)%nat ->
  exists replies,
    listing H C (pre ++ rest) st off plus plan = map ROk (replies ++ [[]]) /\
    concat replies = map (mkd H (c_wrap C) plus) (visible rest).

(* witness: a 100-byte name first, cookies above i64::MAX; the second request (32 bytes, enough for
   "a") has to scan over the first record, which does not fit 32 bytes: getdents64 says EINVAL *)
Definition f_dir : list hent :=
  [mk_hent (repeat 120 100) 11 9223372036854775900 8; mk_hent [97] 12 9223372036854775901 8;
   mk_hent [98] 13 9223372036854775902 8].
Definition f_host : host := mk_host (fun _ => 0%nat) (fun c => if c =? 0 then 0 else EINVAL) (fun _ => ROk (7, 11)).
Definition f_cfg : cfg := mk_cfg true (fun i => ROk i) no_rfixes.     (* no_opendir: no cookie cache in the way *)
Definition f_plan : list mstep := [mk_mstep [] 0 128; mk_mstep [] 0 32; mk_mstep [] 0 32; mk_mstep [] 0 32].

Lemma f_listing_value :
  listing f_host f_cfg f_dir (init_state []) 0 false f_plan
  = [ROk [mk_dirent 7 9223372036854775900 8 (repeat 120 100) 0]; RErr EINVAL].
Proof. vm_compute. reflexivity. Qed.

Lemma C16_full_any_host_refuted : ~ C16_full_any_host_stmt no_rfixes.
Proof.
  intros Hfull.
  destruct (Hfull f_plan f_host f_cfg [] f_dir (init_state []) 0 false) as (replies & Hl & _).
  - reflexivity.
  - split; [cbn; repeat constructor; cbn; intuition discriminate|repeat constructor; cbn; discriminate].
  - split; [reflexivity|intros c; cbn; destruct (c =? 0); auto].
  - intros e _ _. exists (7, 11). reflexivity.
  - intros i. exists i. reflexivity.
  - intros h. unfold Inv_h, init_state. cbn [st_h]. destruct (existsb (N.eqb h) []); exact I.
  - intros Hc. discriminate Hc.
  - left. auto.
  - vm_compute. repeat split; try discriminate; try (intros Hx; discriminate Hx).
  - cbn. lia.
  - change ([] ++ f_dir) with f_dir in Hl. rewrite f_listing_value in Hl.
    destruct replies as [|r1 [|r2 rs]]; cbn in Hl; discriminate.
Qed.

(* the same witness on a tree whose scan uses a buffer of max(size, 4096): the listing is complete *)
Lemma f_listing_fixed :
  listing f_host (mk_cfg true (fun i => ROk i) all_rfixes) f_dir (init_state []) 0 false f_plan
  = [ROk [mk_dirent 7 9223372036854775900 8 (repeat 120 100) 0]; ROk [mk_dirent 7 9223372036854775901 8 [97] 0];
     ROk [mk_dirent 7 9223372036854775902 8 [98] 0]; ROk []].
Proof. vm_compute. reflexivity. Qed.
