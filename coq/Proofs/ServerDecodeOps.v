(* C02: per-opcode exactness of the handlers on the body of an encoded well-formed request
   (part 1: the tactics and opcodes 1..14).  [handler_exact k f]: on [body q] with [q_op q = k]
   the handler [f] makes exactly the filesystem call [expected_call q ctx] (for ALL field values),
   and its action is a reply when the opcode needs an answer. *)
From Coq Require Import List String NArith Bool Lia Arith ZifyBool ZifyNat ZifyN.
From FB Require Import Lib.Bytes Lib.Layout Spec.KernelABI Model.Server Spec.Requests Spec.WfReq
  Proofs.EncLemmas Proofs.ServerPerform Proofs.ServerDecide Proofs.ServerDecodeLib.
Import ListNotations.
Local Open Scope string_scope.
Local Open Scope list_scope.
Local Open Scope N_scope.

Definition expected_calls (q : wfreq) (ctx : N * N * N) : list call :=
  match expected_call q ctx with Some c => [c] | None => [] end.

Definition handler_exact (k : N) (f : handler_fn) : Prop :=
  forall q cfg ctx fr cap,
    q_op q = k -> wf_facts q -> env_ok cfg cap q = true ->
    exists a, f cfg (qhdr q) ctx (body q) fr cap = (expected_calls q ctx, a)
              /\ action_kind_ok k a = true.

Lemma encf_nil_app (x : bytes) : encf [] ++ x = x.
Proof. reflexivity. Qed.

Lemma to_nat_blen (b : bytes) : N.to_nat (blen b) = List.length b.
Proof. unfold blen. lia. Qed.

(* concretise everything that depends on the opcode *)
Ltac setup k :=
  intros q cfg ctx fr cap Hop [_ _ Hfit Hn1 Hn2 Hprs Hlen Hsz] Henv;
  pose proof (struct_bytes_eq q) as Hsb;
  unfold qfields in Hsb, Hfit; rewrite Hop in Hsb, Hfit;
  let lay := eval vm_compute in (req_layout k) in
  change (req_layout k) with lay in Hsb, Hfit;
  cbn [qfields_of map fst snd] in Hsb, Hfit;
  pose proof (eq_refl (tail_bytes q)) as Htl;
  unfold tail_bytes at 2 in Htl; rewrite Hop in Htl; cbv beta iota in Htl;
  unfold sizes_ok in Hsz; rewrite Hop in Hsz; cbv beta iota in Hsz;
  unfold env_ok in Henv; rewrite Hop in Henv; cbv beta iota in Henv;
  assert (Hb : body q = struct_bytes q ++ tail_bytes q) by reflexivity;
  rewrite Hsb, Htl in Hb; rewrite ?encf_nil_app in Hb;
  unfold expected_calls, expected_call; rewrite Hop; cbv beta iota zeta.



Ltac hlen_goal Hb :=
  cbn [h_len qhdr]; rewrite Hb; rewrite ?blen_app, ?blen_encf; cbn [fwidth]; unfold IN_HDR; lia.

Ltac rw_fields Hfit :=
  repeat match goal with
  | |- context [u32 ?off (encf ?l)] => rewrite (u32_encf off l _ Hfit eq_refl)
  | |- context [u64 ?off (encf ?l)] => rewrite (u64_encf off l _ Hfit eq_refl)
  end.

Ltac kc_compute :=
  repeat match goal with
  | |- context [kc ?s] => let v := eval vm_compute in (kc s) in change (kc s) with v
  end.

Ltac answers :=
  cbv beta delta [unit_reply entry_reply attr_reply];
  match goal with F : fsres |- _ => destruct F end; try reflexivity;
  repeat match goal with |- context [if ?c then _ else _] => destruct c end; reflexivity.

Ltac finish :=
  cbn [h_nodeid qhdr]; unfold land32, bit; kc_compute;
  eexists; split; [reflexivity|answers].

Ltac steps Hb Hfit Hn1 Hn2 :=
  repeat first
  [ rewrite with_obj_app by reflexivity
  | rewrite with_name_exact by (first [exact Hn1 | hlen_goal Hb])
  | rewrite get_message_body_exact by hlen_goal Hb
  | rewrite extract_two_names by assumption ];
  rw_fields Hfit.

Ltac with_hyps tac :=
  match goal with
  | Hb : body _ = _, Hfit : fits _ = true, Hn1 : nul_free (q_name1 _) = true, Hn2 : nul_free (q_name2 _) = true |- _ =>
    tac Hb Hfit Hn1 Hn2
  end.

Ltac simple_op k h :=
  setup k; unfold h; cbv zeta;
  with_hyps ltac:(fun Hb Hfit Hn1 Hn2 => rewrite ?Hb; steps Hb Hfit Hn1 Hn2); finish.

Lemma ex_lookup : handler_exact 1 (h_lookup 1).
Proof. simple_op 1 h_lookup. Qed.
Lemma ex_forget : handler_exact 2 (h_forget 2).
Proof. simple_op 2 h_forget. Qed.
Lemma ex_getattr : handler_exact 3 (h_getattr 3).
Proof. simple_op 3 h_getattr. Qed.
Lemma ex_setattr : handler_exact 4 (h_setattr 4).
Proof. simple_op 4 h_setattr. Qed.
Lemma ex_readlink : handler_exact 5 (h_readlink 5).
Proof. simple_op 5 h_readlink. Qed.
Lemma ex_symlink : handler_exact 6 (h_symlink 6).
Proof. simple_op 6 h_symlink. Qed.
Lemma ex_mknod : handler_exact 8 (h_mknod 8).
Proof. simple_op 8 h_mknod. Qed.
Lemma ex_mkdir : handler_exact 9 (h_mkdir 9).
Proof. simple_op 9 h_mkdir. Qed.
Lemma ex_unlink : handler_exact 10 (h_unlink 10).
Proof. simple_op 10 h_unlink. Qed.
Lemma ex_rmdir : handler_exact 11 (h_rmdir 11).
Proof. simple_op 11 h_rmdir. Qed.
Lemma ex_rename : handler_exact 12 (h_rename 12).
Proof. simple_op 12 h_rename. Qed.
Lemma ex_link : handler_exact 13 (h_link 13).
Proof. simple_op 13 h_link. Qed.
Lemma ex_open : handler_exact 14 (h_open 14).
Proof. simple_op 14 h_open. Qed.

