(* C03: lifting the per-kind round trips through the model.
   (1) [handler_post]: once a handler has reached its filesystem call, the reply action is a
       fixed function [post_action] of the opcode and of the filesystem's answer;
   (2) [perform_packet]: with enough capacity, the single packet written to /dev/fuse for an
       action is header ++ body (or the bare error header);
   (3) [post_action_roundtrip]: that packet is accepted by the kernel-side decoder [reply_ok]
       for the same filesystem answer.  [handler_roundtrip] composes the three. *)
From Coq Require Import List String NArith Bool Lia Arith.
From FB Require Import Lib.Bytes Lib.Layout Spec.KernelABI Model.Server Model.ServerCmp Spec.Requests Spec.Replies
  Proofs.EncLemmas Proofs.ServerPerform Proofs.ServerReply Proofs.ServerDecide Proofs.ServerHandle Proofs.ServerEncode
  Proofs.ServerEncodeDir.
Import ListNotations.
Local Open Scope string_scope.
Local Open Scope list_scope.
Local Open Scope N_scope.

(* ------------------------------------------------------------------ (1) actions after the fs call *)
Definition lookup_action (minor : N) (fr : fsres) : action :=
  match fr with
  | FEntry e => if (minor <? 4) && (e_inode e =? 0) then ReplyErr ENOENT None
                else ReplyOk (entry_out e (e_attr_flags e))
  | _ => entry_reply fr
  end.
Definition bytes_action (fr : fsres) : action :=
  match fr with FErr e => ReplyErr (errno_of e) None | FBytes b => ReplyOk b | _ => ReplyOk [] end.
Definition xattr_action (fr : fsres) : action :=
  match fr with
  | FErr e => ReplyErr (errno_of e) None
  | FBytes v => ReplyOk v
  | FCount n => ReplyOk (enc 4 n ++ enc 4 0)
  | _ => ReplyOk []
  end.
Definition count_action (fr : fsres) : action :=
  match fr with FErr e => ReplyErr (errno_of e) None | FCount n => ReplyOk (enc 4 n ++ enc 4 0) | _ => ReplyOk [] end.
Definition open_action (dir : bool) (fr : fsres) : action :=
  match fr with
  | FErr e => ReplyErr (errno_of e) None
  | FOpen fh opts pt => ReplyOk (open_out fh opts (if dir then None else pt))
  | _ => ReplyOk []
  end.
Definition create_action (fr : fsres) : action :=
  match fr with
  | FErr e => ReplyErr (errno_of e) None
  | FCreate e fh opts pt => ReplyOk (entry_out e (e_attr_flags e) ++ open_out fh opts pt)
  | _ => ReplyOk []
  end.
Definition statfs_action (fr : fsres) : action :=
  match fr with FErr e => ReplyErr (errno_of e) None | FStatfs st => ReplyOk (kstatfs_bytes st) | _ => ReplyOk [] end.
Definition lock_action (fr : fsres) : action :=
  match fr with FErr e => ReplyErr (errno_of e) None | FLock l => ReplyOk (flock_bytes l) | _ => ReplyOk [] end.
Definition num8_action (fr : fsres) : action :=
  match fr with FErr e => ReplyErr (errno_of e) None | FNum n => ReplyOk (enc 8 n) | _ => ReplyOk [] end.
Definition poll_action (fr : fsres) : action :=
  match fr with FErr e => ReplyErr (errno_of e) None | FNum n => ReplyOk (enc 4 n ++ enc 4 0) | _ => ReplyOk [] end.
Definition ioctl_action (fr : fsres) : action :=
  match fr with
  | FErr e => ReplyErr (errno_of e) None
  | FIoctl result d => ReplyOk (enc 4 result ++ enc 12 0 ++ d)
  | _ => ReplyOk []
  end.
Definition read_action (wcap : N) (fr : fsres) : action :=
  match fr with
  | FErr e => ReplySplitErr (errno_of e)
  | FRead data => if wcap - OUT_HDR <? blen data then ReplySplitErr (encode_io_error_kind 5) else ReplySplit data
  | _ => ReplySplit []
  end.
Definition readdir_action (plus : bool) (wcap size : N) (fr : fsres) : action :=
  match fr with
  | FErr e => ReplySplitErr (errno_of e)
  | FDirents ds =>
    let data := fill_dirents ds plus size [] in
    if wcap - OUT_HDR <? blen data then ReplySplitErr (encode_io_error_kind 5) else ReplySplit data
  | _ => ReplySplit []
  end.

(* opcode -> action taken after the filesystem call returned [fr]; None: the opcode never
   answers with the filesystem's result (forget, batch_forget, interrupt, destroy, notify_reply,
   init, unknown opcodes) *)
Definition post_action (op minor wcap size : N) (fr : fsres) : option action :=
  match op with
  | 1 => Some (lookup_action minor fr)
  | 6 | 8 | 9 | 13 => Some (entry_reply fr)
  | 3 | 4 => Some (attr_reply fr)
  | 5 => Some (bytes_action fr)
  | 10 | 11 | 12 | 45 | 18 | 20 | 21 | 24 | 25 | 29 | 30 | 32 | 33 | 34 | 43 | 48 | 49 => Some (unit_reply fr)
  | 14 => Some (open_action false fr)
  | 27 => Some (open_action true fr)
  | 15 => Some (read_action wcap fr)
  | 16 => Some (count_action fr)
  | 17 => Some (statfs_action fr)
  | 22 | 23 => Some (xattr_action fr)
  | 28 => Some (readdir_action false wcap size fr)
  | 44 => Some (readdir_action true wcap size fr)
  | 31 => Some (lock_action fr)
  | 35 => Some (create_action fr)
  | 37 | 46 => Some (num8_action fr)
  | 39 => Some (ioctl_action fr)
  | 40 => Some (poll_action fr)
  | _ => None
  end.

(* "the handler reached its filesystem call": its call list is not empty *)
Definition post_ok (op : N) (f : handler_fn) : Prop :=
  forall cfg h ctx r fr wcap a,
    fst (f cfg h ctx r fr wcap) <> [] ->
    post_action op (cfg_minor cfg) wcap (u32 16 r) fr = Some a ->
    snd (f cfg h ctx r fr wcap) = a.

Ltac post_start :=
  intros cfg h ctx r fr wcap a Hreach Hpost;
  cbv beta iota delta [post_action] in Hpost;
  first [discriminate Hpost | injection Hpost as <-];
  revert Hreach.

Ltac post_solve :=
  post_start;
  cbv beta delta [with_obj with_name unit_reply entry_reply attr_reply lookup_action bytes_action xattr_action
                  count_action open_action create_action statfs_action lock_action num8_action poll_action
                  ioctl_action read_action CREATE_ATTR_FLAGS];
  cbn [N.eqb Pos.eqb];
  repeat break_match; cbn [fst snd]; intro Hreach;
  first [reflexivity | congruence | exfalso; match goal with H : _ <> [] |- _ => apply H; reflexivity end].

Lemma post_lookup : post_ok 1 (h_lookup 1). Proof. unfold h_lookup. post_solve. Qed.
Lemma post_forget : post_ok 2 (h_forget 2). Proof. post_start. Qed.
Lemma post_getattr : post_ok 3 (h_getattr 3). Proof. unfold h_getattr. post_solve. Qed.
Lemma post_setattr : post_ok 4 (h_setattr 4). Proof. unfold h_setattr. post_solve. Qed.
Lemma post_readlink : post_ok 5 (h_readlink 5). Proof. unfold h_readlink. post_solve. Qed.
Lemma post_symlink : post_ok 6 (h_symlink 6). Proof. unfold h_symlink. post_solve. Qed.
Lemma post_mknod : post_ok 8 (h_mknod 8). Proof. unfold h_mknod. post_solve. Qed.
Lemma post_mkdir : post_ok 9 (h_mkdir 9). Proof. unfold h_mkdir. post_solve. Qed.
Lemma post_unlink : post_ok 10 (h_unlink 10). Proof. unfold h_unlink. post_solve. Qed.
Lemma post_rmdir : post_ok 11 (h_rmdir 11). Proof. unfold h_rmdir. post_solve. Qed.
Lemma post_rename : post_ok 12 (h_rename 12). Proof. unfold h_rename. post_solve. Qed.
Lemma post_link : post_ok 13 (h_link 13). Proof. unfold h_link. post_solve. Qed.
Lemma post_open : post_ok 14 (h_open 14). Proof. unfold h_open. post_solve. Qed.
Lemma post_read : post_ok 15 (h_read 15). Proof. unfold h_read. post_solve. Qed.
Lemma post_write : post_ok 16 (h_write 16). Proof. unfold h_write. post_solve. Qed.
Lemma post_statfs : post_ok 17 (h_statfs 17). Proof. unfold h_statfs. post_solve. Qed.
Lemma post_release : post_ok 18 (h_release 18). Proof. unfold h_release. post_solve. Qed.
Lemma post_fsync : post_ok 20 (h_fsync 20). Proof. unfold h_fsync. post_solve. Qed.
Lemma post_setxattr : post_ok 21 (h_setxattr 21). Proof. unfold h_setxattr. post_solve. Qed.
Lemma post_getxattr : post_ok 22 (h_getxattr 22). Proof. unfold h_getxattr. post_solve. Qed.
Lemma post_listxattr : post_ok 23 (h_listxattr 23). Proof. unfold h_listxattr. post_solve. Qed.
Lemma post_removexattr : post_ok 24 (h_removexattr 24). Proof. unfold h_removexattr. post_solve. Qed.
Lemma post_flush : post_ok 25 (h_flush 25). Proof. unfold h_flush. post_solve. Qed.
Lemma post_opendir : post_ok 27 (h_opendir 27). Proof. unfold h_opendir. post_solve. Qed.
Lemma post_releasedir : post_ok 29 (h_releasedir 29). Proof. unfold h_releasedir. post_solve. Qed.
Lemma post_fsyncdir : post_ok 30 (h_fsyncdir 30). Proof. unfold h_fsyncdir. post_solve. Qed.
Lemma post_getlk : post_ok 31 (h_getlk_setlk_setlkw 31). Proof. unfold h_getlk_setlk_setlkw. post_solve. Qed.
Lemma post_setlk : post_ok 32 (h_getlk_setlk_setlkw 32). Proof. unfold h_getlk_setlk_setlkw. post_solve. Qed.
Lemma post_setlkw : post_ok 33 (h_getlk_setlk_setlkw 33). Proof. unfold h_getlk_setlk_setlkw. post_solve. Qed.
Lemma post_access : post_ok 34 (h_access 34). Proof. unfold h_access. post_solve. Qed.
Lemma post_create : post_ok 35 (h_create 35). Proof. unfold h_create. post_solve. Qed.
Lemma post_interrupt : post_ok 36 (h_interrupt 36). Proof. post_start. Qed.
Lemma post_bmap : post_ok 37 (h_bmap 37). Proof. unfold h_bmap. post_solve. Qed.
Lemma post_destroy : post_ok 38 (h_destroy 38). Proof. post_start. Qed.
Lemma post_ioctl : post_ok 39 (h_ioctl 39). Proof. unfold h_ioctl. post_solve. Qed.
Lemma post_poll : post_ok 40 (h_poll 40). Proof. unfold h_poll. post_solve. Qed.
Lemma post_notify_reply : post_ok 41 (h_notify_reply 41). Proof. post_start. Qed.
Lemma post_batch_forget : post_ok 42 (h_batch_forget 42). Proof. post_start. Qed.
Lemma post_fallocate : post_ok 43 (h_fallocate 43). Proof. unfold h_fallocate. post_solve. Qed.
Lemma post_rename2 : post_ok 45 (h_rename2 45). Proof. unfold h_rename2. post_solve. Qed.
Lemma post_lseek : post_ok 46 (h_lseek 46). Proof. unfold h_lseek. post_solve. Qed.
Lemma post_setupmapping : post_ok 48 (h_setupmapping 48). Proof. unfold h_setupmapping. post_solve. Qed.

Ltac not_reached := let Hnr := fresh "Hnr" in intro Hnr; exfalso; apply Hnr; reflexivity.

Lemma post_readdir_28 : post_ok 28 (h_readdir_readdirplus 28).
Proof.
  unfold h_readdir_readdirplus. post_start. cbv beta delta [with_obj readdir_action]. cbn [N.eqb Pos.eqb].
  destruct (read_obj 40 r) as [[s r']|] eqn:E; [|not_reached].
  apply read_obj_some in E. destruct E as [-> ->]. cbv zeta. rewrite u32_firstn by (cbn; lia).
  repeat break_match; cbn [fst snd]; intro Hreach;
  first [reflexivity | congruence | exfalso; apply Hreach; reflexivity].
Qed.

Lemma post_readdir_44 : post_ok 44 (h_readdir_readdirplus 44).
Proof.
  unfold h_readdir_readdirplus. post_start. cbv beta delta [with_obj readdir_action]. cbn [N.eqb Pos.eqb].
  destruct (read_obj 40 r) as [[s r']|] eqn:E; [|not_reached].
  apply read_obj_some in E. destruct E as [-> ->]. cbv zeta. rewrite u32_firstn by (cbn; lia).
  repeat break_match; cbn [fst snd]; intro Hreach;
  first [reflexivity | congruence | exfalso; apply Hreach; reflexivity].
Qed.

Lemma post_removemapping : post_ok 49 (h_removemapping 49).
Proof.
  unfold h_removemapping. post_start.
  destruct (cfg_vu_req cfg); [|not_reached].
  cbv beta delta [with_obj]. destruct (read_obj 4 r) as [[s r']|]; [|not_reached].
  cbv zeta. destruct (_ <? _); [not_reached|].
  generalize (@nil (N * N)). generalize r'.
  induction (N.to_nat (u32 0 s)) as [|n IH]; intros rr acc.
  - intros _. reflexivity.
  - destruct (read_obj 16 rr) as [[o rr']|]; [apply IH|not_reached].
Qed.

Lemma handlers_post : Forall (fun e => post_ok (fst e) (snd e)) handlers.
Proof.
  unfold handlers.
  repeat (apply Forall_cons; [cbn [fst snd];
    first [exact post_lookup|exact post_forget|exact post_getattr|exact post_setattr|exact post_readlink
          |exact post_symlink|exact post_mknod|exact post_mkdir|exact post_unlink|exact post_rmdir
          |exact post_rename|exact post_rename2|exact post_link|exact post_open|exact post_read|exact post_write
          |exact post_statfs|exact post_release|exact post_fsync|exact post_setxattr|exact post_getxattr
          |exact post_listxattr|exact post_removexattr|exact post_flush|exact post_opendir
          |exact post_readdir_28|exact post_readdir_44
          |exact post_releasedir|exact post_fsyncdir|exact post_getlk|exact post_setlk|exact post_setlkw
          |exact post_access|exact post_create
          |exact post_interrupt|exact post_bmap|exact post_destroy|exact post_ioctl|exact post_poll
          |exact post_notify_reply|exact post_batch_forget|exact post_fallocate|exact post_lseek
          |exact post_setupmapping|exact post_removemapping]|]).
  apply Forall_nil.
Qed.

(* (1) for the dispatch function: whatever the request bytes, if the handler reached its
   filesystem call, the action is [post_action] of the opcode and the filesystem's answer *)
Theorem handler_post cfg h ctx r fr wcap a :
  fst (handler cfg h ctx r fr wcap) <> [] ->
  post_action (h_opcode h) (cfg_minor cfg) wcap (u32 16 r) fr = Some a ->
  snd (handler cfg h ctx r fr wcap) = a.
Proof.
  unfold handler. destruct (find_handler (h_opcode h) handlers) as [f|] eqn:E.
  - apply find_handler_in in E. pose proof handlers_post as HA. rewrite Forall_forall in HA.
    apply (HA _ E).
  - not_reached.
Qed.

(* ------------------------------------------------------------------ (2) the packet of an action *)
Definition action_len (a : action) : N :=
  match a with
  | ReplyOk b | ReplySplit b | ReplyOkIgnored b => 16 + blen b
  | ReplyErr _ _ | ReplySplitErr _ => 16
  | NoReply _ => 0
  end.
Definition action_msg (u : N) (a : action) : option bytes :=
  match a with
  | ReplyOk b | ReplySplit b => Some (ok_msg u b)
  | ReplyErr e _ | ReplySplitErr e => Some (err_msg u e)
  | _ => None
  end.

Lemma w_write_fresh_dev cap d : d <> [] -> blen d <= cap ->
  w_write (fresh FuseDev cap) d =
  WOk ({| w_kind := FuseDev; w_buffered := false; w_buf := d; w_cap := cap |}, [d]).
Proof.
  intros Hne Hle. unfold w_write, fresh. cbn [w_kind w_buffered w_buf w_cap negb andb List.length Nat.eqb app].
  change (blen []) with 0. rewrite N.sub_0_r.
  destruct (N.ltb_spec cap (blen d)) as [Hlt|_]; [lia|].
  destruct d; [contradiction|reflexivity].
Qed.

Lemma w_write_buffered_dev buf cap d : blen buf + blen d <= cap ->
  w_write {| w_kind := FuseDev; w_buffered := true; w_buf := buf; w_cap := cap |} d =
  WOk ({| w_kind := FuseDev; w_buffered := true; w_buf := buf ++ d; w_cap := cap |}, []).
Proof.
  intro Hle. unfold w_write. cbn [w_kind w_buffered w_buf w_cap negb andb].
  destruct (N.ltb_spec (cap - blen buf) (blen d)) as [Hlt|_]; [lia|]. reflexivity.
Qed.

Lemma err_msg_nonempty u e : err_msg u e <> [].
Proof. unfold err_msg. rewrite <- (app_nil_r (out_header _ _ _)). apply out_header_app_nonempty. Qed.

Lemma perform_err_fresh cap u e after : 16 <= cap ->
  o_packets (perform_err (fresh FuseDev cap) u e after) = [err_msg u e].
Proof.
  intro Hc. unfold perform_err. change (out_header OUT_HDR (neg32 e) u) with (err_msg u e).
  rewrite w_write_fresh_dev; [|apply err_msg_nonempty|unfold err_msg; rewrite out_header_len; exact Hc].
  reflexivity.
Qed.

Lemma perform_err_buffered u e after :
  o_packets (perform_err {| w_kind := FuseDev; w_buffered := true; w_buf := []; w_cap := OUT_HDR |} u e after)
  = [err_msg u e].
Proof.
  unfold perform_err. change (out_header OUT_HDR (neg32 e) u) with (err_msg u e).
  rewrite w_write_buffered_dev by (unfold err_msg; rewrite out_header_len; change (blen []) with 0; unfold OUT_HDR; lia).
  cbn [app o_packets out_ok]. unfold w_commit. cbn [w_kind w_buffered w_buf negb app].
  rewrite app_nil_r. change (out_header OUT_HDR (neg32 e) u) with (err_msg u e).
  pose proof (err_msg_nonempty u e) as Hne.
  destruct (err_msg u e); [contradiction|reflexivity].
Qed.

Lemma w_split_fresh_dev cap : 16 <= cap ->
  w_split (fresh FuseDev cap) OUT_HDR =
  Some ({| w_kind := FuseDev; w_buffered := true; w_buf := []; w_cap := OUT_HDR |},
        {| w_kind := FuseDev; w_buffered := true; w_buf := []; w_cap := cap - OUT_HDR |}).
Proof.
  intro Hc. unfold w_split, fresh. cbn [w_kind w_buffered w_buf w_cap].
  change (blen []) with 0. rewrite !N.sub_0_r, N.add_0_l.
  destruct (N.ltb_spec cap OUT_HDR) as [Hlt|_]; [unfold OUT_HDR in Hlt; lia|]. reflexivity.
Qed.

Theorem perform_packet cap u a p :
  cap < 2 ^ 32 -> action_msg u a = Some p -> action_len a <= cap ->
  o_packets (perform FuseDev cap u a) = [p].
Proof.
  intros Hcap Hm Hl.
  destruct a as [r|body|e after|data|e|body]; cbn [action_msg action_len] in Hm, Hl; try discriminate;
    injection Hm as <-; unfold perform.
  - (* ReplyOk *)
    change OUT_HDR with 16. fold (ok_msg u body).
    rewrite w_write_fresh_dev;
      [reflexivity|apply out_header_app_nonempty|unfold ok_msg; rewrite blen_app, out_header_len; exact Hl].
  - (* ReplyErr *) apply perform_err_fresh. exact Hl.
  - (* ReplySplit *)
    rewrite w_split_fresh_dev by lia.
    rewrite w_write_buffered_dev by (change (blen []) with 0; unfold OUT_HDR; lia).
    cbn [app]. change OUT_HDR with 16.
    change 4294967296 with (2 ^ 32). rewrite (N.mod_small (16 + blen data)) by lia.
    rewrite w_write_buffered_dev by (rewrite out_header_len; change (blen []) with 0; lia).
    cbn [app o_packets out_ok]. unfold w_commit. cbn [w_kind w_buffered w_buf negb].
    fold (ok_msg u data).
    pose proof (out_header_app_nonempty (16 + blen data) 0 u data) as Hne. fold (ok_msg u data) in Hne.
    destruct (ok_msg u data); [contradiction|reflexivity].
  - (* ReplySplitErr *)
    rewrite w_split_fresh_dev by lia. apply perform_err_buffered.
Qed.

(* READ / READDIR: header(16 + count) ++ exactly the bytes the filesystem produced *)
Lemma perform_split_packet cap u data : cap < 2 ^ 32 -> 16 + blen data <= cap ->
  o_packets (perform FuseDev cap u (ReplySplit data)) = [out_header (16 + blen data) 0 u ++ data].
Proof. intros H1 H2. apply (perform_packet cap u (ReplySplit data) _ H1 eq_refl H2). Qed.

(* ------------------------------------------------------------------ (3) round trip of the action *)
(* the result kinds each operation returns (besides an error) *)
Definition kind_ok (op : N) (fs : fsres) : bool :=
  existsb (N.eqb op)
    match fs with
    | FErr _ => [1;3;4;5;6;8;9;10;11;12;13;14;15;16;17;18;20;21;22;23;24;25;27;28;29;30;31;32;33;34;35;37;39;40;
                 43;44;45;46;48;49]
    | FUnit => [10;11;12;45;18;20;21;24;25;29;30;32;33;34;43;48;49]
    | FEntry _ => [1;6;8;9;13]
    | FAttr _ _ _ => [3;4]
    | FBytes _ => [5;22;23]
    | FCount _ => [16;22;23]
    | FOpen _ _ _ => [14;27]
    | FCreate _ _ _ _ => [35]
    | FRead _ => [15]
    | FStatfs _ => [17]
    | FLock _ => [31]
    | FDirents _ => [28;44]
    | FInit _ => []
    | FIoctl _ _ => [39]
    | FNum _ => [37;40;46]
    end.

(* what the filesystem's answer must satisfy for the reply to be expressible:
   read data and directory records fit the reply buffer, names fit the 32-bit namelen field *)
Definition reply_fits (q : wfreq) (cap : N) (fs : fsres) : Prop :=
  match fs with
  | FRead d => 16 + blen d <= cap
  | FDirents ds => names_ok ds = true
  | _ => True
  end.

(* do_readdir's gate since fix 65c0776: the reply buffer has room for [size] bytes AND the header.
   Once it passed, the directory records (at most [size] bytes) always fit the data writer of
   capacity wcap - 16: the EIO branch of the model after the filesystem call is unreachable. *)
Definition readdir_room (q : wfreq) (cap : N) : Prop :=
  q_op q = 28 \/ q_op q = 44 -> fld q "size" + OUT_HDR <= cap.

Lemma readdir_never_overruns ds plus size wcap :
  names_ok ds = true -> size + OUT_HDR <= wcap ->
  (wcap - OUT_HDR <? blen (fill_dirents ds plus size [])) = false.
Proof.
  intros Hn Hroom. destruct (fill_dirents_ok ds plus size Hn) as [Hle _]. cbv zeta in Hle.
  apply N.ltb_ge. unfold OUT_HDR in *. lia.
Qed.

(* a READDIR / READDIRPLUS handler that reached its call passed the gate *)
Lemma readdir_reached_room cfg h ctx r fs wcap :
  h_opcode h = 28 \/ h_opcode h = 44 ->
  fst (handler cfg h ctx r fs wcap) <> [] -> u32 16 r + OUT_HDR <= wcap.
Proof.
  intros Hop. unfold handler.
  assert (Hf : find_handler (h_opcode h) handlers = Some (h_readdir_readdirplus (h_opcode h))).
  { destruct Hop as [-> | ->]; reflexivity. }
  rewrite Hf. unfold h_readdir_readdirplus. cbv beta delta [with_obj].
  destruct (read_obj 40 r) as [[s r']|] eqn:E; [|not_reached].
  apply read_obj_some in E. destruct E as [-> ->]. cbv zeta. rewrite u32_firstn by (cbn; lia).
  destruct (N.ltb_spec wcap (u32 16 r + OUT_HDR)) as [Hlt|Hge]; [not_reached|]. intros _. exact Hge.
Qed.

Theorem readdir_reply_is_listing cfg h ctx r wcap ds :
  h_opcode h = 28 \/ h_opcode h = 44 -> names_ok ds = true ->
  fst (handler cfg h ctx r (FDirents ds) wcap) <> [] ->
  snd (handler cfg h ctx r (FDirents ds) wcap) =
    ReplySplit (fill_dirents ds (h_opcode h =? 44) (u32 16 r) []).
Proof.
  intros Hop Hn Hreach.
  pose proof (readdir_reached_room cfg h ctx r _ wcap Hop Hreach) as Hroom.
  apply (handler_post cfg h ctx r _ wcap _ Hreach).
  destruct Hop as [-> | ->]; cbv beta iota zeta delta [post_action readdir_action]; cbn [N.eqb Pos.eqb];
    rewrite (readdir_never_overruns _ _ _ _ Hn Hroom); reflexivity.
Qed.

Ltac enum_op H k Hin Hk :=
  apply existsb_exists in H; destruct H as [k [Hin Hk]]; apply N.eqb_eq in Hk; cbn [In] in Hin;
  repeat (destruct Hin as [Hin|Hin]); try contradiction; subst k.

Ltac post_eval Hk Hpost :=
  rewrite Hk in Hpost;
  cbv beta iota delta [post_action lookup_action entry_reply attr_reply unit_reply bytes_action xattr_action
                       count_action open_action create_action statfs_action lock_action num8_action poll_action
                       ioctl_action read_action readdir_action] in Hpost.

Lemma some_inj {A} (x y : A) : Some x = Some y -> x = y.
Proof. intro H; injection H; auto. Qed.

Ltac opfalse Hk := rewrite Hk; reflexivity.

Theorem post_action_roundtrip q minor cap fs a :
  q_unique q < 2 ^ 64 -> cap < 2 ^ 32 ->
  kind_ok (q_op q) fs = true -> reply_fits q cap fs -> readdir_room q cap ->
  post_action (q_op q) minor cap (fld q "size") fs = Some a -> action_len a <= cap ->
  exists p, action_msg (q_unique q) a = Some p /\ reply_ok q minor fs p = true.
Proof.
  intros Hu Hcap Hkind Hfits Hroom Hpost Hlen. unfold kind_ok in Hkind.
  destruct fs as [e| |e|st s n|v|n|fh o pt|e fh o pt|d|s|l|ds|w|res d|n].
  - (* FErr *)
    enum_op Hkind k Hin Hk; post_eval Hk Hpost; apply some_inj in Hpost; subst a;
      (eexists; split; [reflexivity|apply rt_err; exact Hu]).
  - (* FUnit *)
    enum_op Hkind k Hin Hk; post_eval Hk Hpost; apply some_inj in Hpost; subst a;
      (eexists; split; [reflexivity|apply rt_unit; exact Hu]).
  - (* FEntry *)
    enum_op Hkind k Hin Hk; post_eval Hk Hpost.
    + (* lookup *)
      destruct ((minor <? 4) && (e_inode e =? 0)) eqn:Hc; apply some_inj in Hpost; subst a;
        (eexists; split; [reflexivity|]).
      * apply rt_entry_enoent; [exact Hu|]. rewrite Hk. rewrite <- andb_assoc, Hc. reflexivity.
      * apply rt_entry; [exact Hu|]. rewrite Hk. rewrite <- andb_assoc, Hc. reflexivity.
    + apply some_inj in Hpost; subst a. eexists; split; [reflexivity|apply rt_entry; [exact Hu|opfalse Hk]].
    + apply some_inj in Hpost; subst a. eexists; split; [reflexivity|apply rt_entry; [exact Hu|opfalse Hk]].
    + apply some_inj in Hpost; subst a. eexists; split; [reflexivity|apply rt_entry; [exact Hu|opfalse Hk]].
    + apply some_inj in Hpost; subst a. eexists; split; [reflexivity|apply rt_entry; [exact Hu|opfalse Hk]].
  - (* FAttr *)
    enum_op Hkind k Hin Hk; post_eval Hk Hpost; apply some_inj in Hpost; subst a;
      (eexists; split; [reflexivity|apply rt_attr; exact Hu]).
  - (* FBytes *)
    enum_op Hkind k Hin Hk; post_eval Hk Hpost; apply some_inj in Hpost; subst a; cbn [action_len] in Hlen;
      (eexists; split; [reflexivity|apply rt_bytes; [exact Hu|lia]]).
  - (* FCount *)
    enum_op Hkind k Hin Hk; post_eval Hk Hpost; apply some_inj in Hpost; subst a;
      (eexists; split; [reflexivity|apply rt_count; exact Hu]).
  - (* FOpen *)
    enum_op Hkind k Hin Hk; post_eval Hk Hpost; apply some_inj in Hpost; subst a; (eexists; split; [reflexivity|]).
    + apply rt_open; [exact Hu|opfalse Hk].
    + apply rt_opendir; [exact Hu|opfalse Hk].
  - (* FCreate *)
    enum_op Hkind k Hin Hk; post_eval Hk Hpost; apply some_inj in Hpost; subst a;
      (eexists; split; [reflexivity|apply rt_create; exact Hu]).
  - (* FRead *)
    enum_op Hkind k Hin Hk; post_eval Hk Hpost. cbn [reply_fits] in Hfits.
    destruct (N.ltb_spec (cap - OUT_HDR) (blen d)) as [Hlt|_]; [unfold OUT_HDR in Hlt; lia|].
    apply some_inj in Hpost; subst a. eexists; split; [reflexivity|apply rt_read; [exact Hu|lia]].
  - (* FStatfs *)
    enum_op Hkind k Hin Hk; post_eval Hk Hpost; apply some_inj in Hpost; subst a;
      (eexists; split; [reflexivity|apply rt_statfs; exact Hu]).
  - (* FLock *)
    enum_op Hkind k Hin Hk; post_eval Hk Hpost; apply some_inj in Hpost; subst a;
      (eexists; split; [reflexivity|apply rt_lock; exact Hu]).
  - (* FDirents *)
    cbn [reply_fits] in Hfits. rename Hfits into Hn. unfold readdir_room in Hroom.
    enum_op Hkind k Hin Hk; post_eval Hk Hpost; cbv zeta in Hpost.
    + specialize (Hroom (or_introl Hk)).
      rewrite (readdir_never_overruns ds false _ cap Hn Hroom) in Hpost.
      destruct (fill_dirents_ok ds false (fld q "size") Hn) as [Hle _]. cbv zeta in Hle.
      apply some_inj in Hpost; subst a. eexists; split; [reflexivity|].
      pose proof (rt_dirents q minor ds Hu Hn) as H. cbv zeta in H. rewrite Hk in H. cbn [N.eqb Pos.eqb] in H.
      apply H. unfold OUT_HDR in Hroom. lia.
    + specialize (Hroom (or_intror Hk)).
      rewrite (readdir_never_overruns ds true _ cap Hn Hroom) in Hpost.
      destruct (fill_dirents_ok ds true (fld q "size") Hn) as [Hle _]. cbv zeta in Hle.
      apply some_inj in Hpost; subst a. eexists; split; [reflexivity|].
      pose proof (rt_dirents q minor ds Hu Hn) as H. cbv zeta in H. rewrite Hk in H. cbn [N.eqb Pos.eqb] in H.
      apply H. unfold OUT_HDR in Hroom. lia.
  - (* FInit *) cbn [existsb] in Hkind. discriminate.
  - (* FIoctl *)
    enum_op Hkind k Hin Hk; post_eval Hk Hpost;  apply some_inj in Hpost; subst a; cbn [action_len] in Hlen;

      rewrite !blen_app, !blen_enc in Hlen; change (N.of_nat 4) with 4 in Hlen; change (N.of_nat 12) with 12 in Hlen;
      (eexists; split; [reflexivity|apply rt_ioctl; [exact Hu|lia]]).
  - (* FNum *)
    enum_op Hkind k Hin Hk; post_eval Hk Hpost; apply some_inj in Hpost; subst a; (eexists; split; [reflexivity|]).
    + apply rt_num8; [exact Hu|opfalse Hk].
    + apply rt_poll; [exact Hu|opfalse Hk].
    + apply rt_num8; [exact Hu|opfalse Hk].
Qed.

(* ------------------------------------------------------------------ composition *)
(* For every request whose handler reached the filesystem call, every filesystem answer of a
   kind that operation returns, and a reply buffer that holds the reply: exactly one packet is
   written, and the kernel-side decoder reads the filesystem's answer back out of it. *)
Theorem handler_roundtrip cfg h ctx r cap q fs :
  q_unique q < 2 ^ 64 -> cap < 2 ^ 32 ->
  h_opcode h = q_op q -> u32 16 r = fld q "size" ->
  kind_ok (q_op q) fs = true -> reply_fits q cap fs ->
  fst (handler cfg h ctx r fs cap) <> [] ->
  action_len (snd (handler cfg h ctx r fs cap)) <= cap ->
  exists p, o_packets (perform FuseDev cap (q_unique q) (snd (handler cfg h ctx r fs cap))) = [p] /\
            reply_ok q (cfg_minor cfg) fs p = true.
Proof.
  intros Hu Hcap Hop Hsize Hkind Hfits Hreach Hlen.
  assert (Hsome : exists a, post_action (q_op q) (cfg_minor cfg) cap (fld q "size") fs = Some a).
  { unfold kind_ok in Hkind. apply existsb_exists in Hkind. destruct Hkind as [k [Hin Hk]].
    apply N.eqb_eq in Hk. rewrite Hk.
    destruct fs; cbn [In] in Hin; repeat (destruct Hin as [Hin|Hin]); try contradiction; subst k;
      eexists; reflexivity. }
  destruct Hsome as [a Ha].
  pose proof (handler_post cfg h ctx r fs cap a Hreach) as Hp. rewrite Hop, Hsize in Hp. specialize (Hp Ha).
  rewrite Hp in *.
  assert (Hroom : readdir_room q cap).
  { intro Hq. rewrite <- Hsize. apply (readdir_reached_room cfg h ctx r fs cap); [rewrite Hop; exact Hq|exact Hreach]. }
  destruct (post_action_roundtrip q (cfg_minor cfg) cap fs a Hu Hcap Hkind Hfits Hroom Ha Hlen) as [p [Hm Hr]].
  exists p. split; [|exact Hr]. apply perform_packet; assumption.
Qed.

(* ------------------------------------------------------------------ one entry encoder on every path *)
(* LOOKUP, SYMLINK, MKNOD, MKDIR, LINK reply with exactly [entry_out e (e_attr_flags e)];
   CREATE with the same bytes followed by the open reply; every READDIRPLUS record is the same
   bytes followed by the plain READDIR record. *)
Theorem entry_paths_agree :
  (forall cfg h ctx r wcap e,
     In (h_opcode h) [1; 6; 8; 9; 13] ->
     fst (handler cfg h ctx r (FEntry e) wcap) <> [] ->
     (h_opcode h =? 1) && (cfg_minor cfg <? 4) && (e_inode e =? 0) = false ->
     snd (handler cfg h ctx r (FEntry e) wcap) = ReplyOk (entry_out e (e_attr_flags e))) /\
  (forall cfg h ctx r wcap e fh o pt,
     h_opcode h = 35 ->
     fst (handler cfg h ctx r (FCreate e fh o pt) wcap) <> [] ->
     snd (handler cfg h ctx r (FCreate e fh o pt) wcap) =
     ReplyOk (entry_out e (e_attr_flags e) ++ open_out fh o pt)) /\
  (forall cfg h ctx r wcap ds,
     h_opcode h = 44 ->
     fst (handler cfg h ctx r (FDirents ds) wcap) <> [] ->
     names_ok ds = true ->
     snd (handler cfg h ctx r (FDirents ds) wcap) = ReplySplit (fill_dirents ds true (u32 16 r) [])) /\
  (forall ds size, names_ok ds = true ->
     fill_dirents ds true size [] = flat_map (rec_bytes true) (fitting_prefix true ds size)) /\
  (forall d e, rec_bytes true (d, e) = entry_out e (e_attr_flags e) ++ rec_bytes false (d, e)).
Proof.
  split; [|split; [|split; [|split]]].
  - intros cfg h ctx r wcap e Hin Hreach Hc.
    apply (handler_post cfg h ctx r (FEntry e) wcap _ Hreach).
    cbn [In] in Hin. repeat (destruct Hin as [Hin|Hin]); try contradiction; rewrite <- Hin in *;
      cbv beta iota delta [post_action lookup_action entry_reply]; try reflexivity.
    cbn [N.eqb Pos.eqb andb] in Hc. rewrite Hc. reflexivity.
  - intros cfg h ctx r wcap e fh o pt Hop Hreach.
    apply (handler_post cfg h ctx r _ wcap _ Hreach). rewrite Hop. reflexivity.
  - intros cfg h ctx r wcap ds Hop Hreach Hn.
    rewrite (readdir_reply_is_listing cfg h ctx r wcap ds (or_intror Hop) Hn Hreach). rewrite Hop. reflexivity.
  - intros ds size Hn. apply fill_dirents_recs. exact Hn.
  - intros d e. unfold rec_bytes, dirent_bytes. cbn [fst snd app]. reflexivity.
Qed.

(* ------------------------------------------------------------------ virtio: the same message in the descriptors *)
Lemma w_write_virtio b buf cap d : blen buf + blen d <= cap ->
  w_write {| w_kind := Virtio; w_buffered := b; w_buf := buf; w_cap := cap |} d =
  WOk ({| w_kind := Virtio; w_buffered := b; w_buf := buf ++ d; w_cap := cap |}, []).
Proof.
  intro Hle. unfold w_write. cbn [w_kind w_buffered w_buf w_cap].
  destruct (N.ltb_spec (cap - blen buf) (blen d)) as [Hlt|_]; [lia|]. reflexivity.
Qed.

Lemma blen_ok_msg u b : blen (ok_msg u b) = 16 + blen b.
Proof. unfold ok_msg. rewrite blen_app, out_header_len. reflexivity. Qed.
Lemma blen_err_msg u e : blen (err_msg u e) = 16.
Proof. unfold err_msg. apply out_header_len. Qed.

Theorem perform_mem_virtio cap u a p :
  cap < 2 ^ 32 -> action_msg u a = Some p -> action_len a <= cap ->
  o_mem (perform Virtio cap u a) = p.
Proof.
  intros Hcap Hm Hl.
  destruct a as [r|body|e after|data|e|body]; cbn [action_msg action_len] in Hm, Hl; try discriminate;
    apply some_inj in Hm; subst p; unfold perform, fresh.
  - change OUT_HDR with 16. fold (ok_msg u body).
    rewrite w_write_virtio by (rewrite blen_ok_msg; change (blen []) with 0; lia).
    cbn [app o_res o_mem out_ok w_buf]. reflexivity.
  - unfold perform_err. change (out_header OUT_HDR (neg32 e) u) with (err_msg u e).
    rewrite w_write_virtio by (rewrite blen_err_msg; change (blen []) with 0; lia).
    cbn [app o_res o_mem out_ok w_buf]. reflexivity.
  - unfold w_split. cbn [w_kind w_buffered w_buf w_cap]. change (blen []) with 0.
    rewrite !N.sub_0_r, N.add_0_l.
    destruct (N.ltb_spec cap OUT_HDR) as [Hlt|_]; [unfold OUT_HDR in Hlt; lia|].
    rewrite w_write_virtio by (change (blen []) with 0; unfold OUT_HDR; lia).
    cbn [app]. change OUT_HDR with 16.
    change 4294967296 with (2 ^ 32). rewrite (N.mod_small (16 + blen data)) by lia.
    rewrite w_write_virtio by (rewrite out_header_len; change (blen []) with 0; lia).
    cbn [app o_res o_mem out_ok w_buf]. reflexivity.
  - unfold w_split. cbn [w_kind w_buffered w_buf w_cap]. change (blen []) with 0.
    rewrite !N.sub_0_r, N.add_0_l.
    destruct (N.ltb_spec cap OUT_HDR) as [Hlt|_]; [unfold OUT_HDR in Hlt; lia|].
    unfold perform_err. change (out_header OUT_HDR (neg32 e) u) with (err_msg u e).
    rewrite w_write_virtio by (rewrite blen_err_msg; change (blen []) with 0; unfold OUT_HDR; lia).
    cbn [app o_res o_mem out_ok w_buf]. reflexivity.
Qed.

Theorem handler_roundtrip_virtio cfg h ctx r cap q fs :
  q_unique q < 2 ^ 64 -> cap < 2 ^ 32 ->
  h_opcode h = q_op q -> u32 16 r = fld q "size" ->
  kind_ok (q_op q) fs = true -> reply_fits q cap fs ->
  fst (handler cfg h ctx r fs cap) <> [] ->
  action_len (snd (handler cfg h ctx r fs cap)) <= cap ->
  reply_ok q (cfg_minor cfg) fs
    (o_mem (perform Virtio cap (q_unique q) (snd (handler cfg h ctx r fs cap)))) = true.
Proof.
  intros Hu Hcap Hop Hsize Hkind Hfits Hreach Hlen.
  assert (Hsome : exists a, post_action (q_op q) (cfg_minor cfg) cap (fld q "size") fs = Some a).
  { unfold kind_ok in Hkind. apply existsb_exists in Hkind. destruct Hkind as [k [Hin Hk]].
    apply N.eqb_eq in Hk. rewrite Hk.
    destruct fs; cbn [In] in Hin; repeat (destruct Hin as [Hin|Hin]); try contradiction; subst k;
      eexists; reflexivity. }
  destruct Hsome as [a Ha].
  pose proof (handler_post cfg h ctx r fs cap a Hreach) as Hp. rewrite Hop, Hsize in Hp. specialize (Hp Ha).
  rewrite Hp in *.
  assert (Hroom : readdir_room q cap).
  { intro Hq. rewrite <- Hsize. apply (readdir_reached_room cfg h ctx r fs cap); [rewrite Hop; exact Hq|exact Hreach]. }
  destruct (post_action_roundtrip q (cfg_minor cfg) cap fs a Hu Hcap Hkind Hfits Hroom Ha Hlen) as [p [Hm Hr]].
  rewrite (perform_mem_virtio cap (q_unique q) a p Hcap Hm Hlen). exact Hr.
Qed.

(* ------------------------------------------------------------------ the whole of handle_message *)
Lemma kind_ok_not_init op fs : kind_ok op fs = true -> (op =? 26) = false.
Proof.
  unfold kind_ok. intro H. apply existsb_exists in H. destruct H as [k [Hin Hk]]. apply N.eqb_eq in Hk.
  subst k. destruct fs; cbn [In] in Hin; repeat (destruct Hin as [Hin|Hin]); try contradiction; subst op; reflexivity.
Qed.

(* what [decide] does once two calls (the id translation and the operation) were made:
   it went through the dispatch table *)
Lemma decide_reached cfg req fs cap :
  (2 <= List.length (fst (fst (decide cfg req fs cap))))%nat ->
  (u32 4 req =? 26) = false ->
  exists ctx,
    let h := parse_hdr (firstn 40 req) in
    fst (handler cfg h ctx (skipn 40 req) fs cap) <> [] /\
    snd (fst (decide cfg req fs cap)) = snd (handler cfg h ctx (skipn 40 req) fs cap) /\
    h_opcode h = u32 4 req.
Proof.
  intros Hlen Hop. unfold decide in *.
  destruct (read_obj 40 req) as [[hb r]|] eqn:E; [|cbn in Hlen; lia].
  apply read_obj_some in E. destruct E as [-> ->].
  assert (Hopc : h_opcode (parse_hdr (firstn 40 req)) = u32 4 req).
  { unfold parse_hdr. cbn [h_opcode]. apply u32_firstn. lia. }
  cbv zeta in *. rewrite Hopc in *.
  destruct (cfg_remap cfg) as [du dg|]; [|cbn in Hlen; lia].
  destruct (_ <? _).
  - destruct (_ || _); cbn in Hlen; lia.
  - rewrite Hop in *.
    match goal with |- context [handler cfg ?h ?c ?r fs cap] => exists c end.
    destruct (handler _ _ _ _ _ _) as [cs a] eqn:Eh. cbn [fst snd] in *.
    split; [|split; reflexivity].
    intro Hnil. rewrite Hnil in Hlen. cbn in Hlen. lia.
Qed.

Lemma skipn_skipn_add {A} : forall a b (l : list A), skipn a (skipn b l) = skipn (a + b) l.
Proof.
  induction b as [|b IH]; intro l.
  - rewrite Nat.add_0_r. reflexivity.
  - destruct l as [|x l].
    + rewrite !skipn_nil. reflexivity.
    + rewrite Nat.add_succ_r. cbn [skipn]. apply IH.
Qed.

Lemma u32_skipn a b l : u32 a (skipn b l) = u32 (a + b) l.
Proof. unfold u32. rewrite skipn_skipn_add. reflexivity. Qed.

(* The C03 statement on the model of handle_message, for ALL request bytes: if the request
   carries opcode/unique/size of [q], the operation was called, the filesystem answered [fs]
   (of a kind that operation returns) and the reply fits the buffer, then exactly one packet
   reaches /dev/fuse and the kernel decodes [fs] from it. *)
Theorem handle_roundtrip cfg cap req q fs :
  q_unique q < 2 ^ 64 -> cap < 2 ^ 32 ->
  u32 4 req = q_op q -> u64 8 req = q_unique q -> u32 56 req = fld q "size" ->
  kind_ok (q_op q) fs = true -> reply_fits q cap fs ->
  (2 <= List.length (h_calls (handle cfg FuseDev cap req fs)))%nat ->
  action_len (snd (fst (decide cfg req fs cap))) <= cap ->
  exists p, o_packets (h_outcome (handle cfg FuseDev cap req fs)) = [p] /\
            reply_ok q (cfg_minor cfg) fs p = true.
Proof.
  intros Hu Hcap Hop Huniq Hsize Hkind Hfits Hcalls Hlen.
  rewrite handle_outcome, Huniq.
  assert (Hc2 : (2 <= List.length (fst (fst (decide cfg req fs cap))))%nat).
  { unfold handle, h_calls in Hcalls. destruct (decide cfg req fs cap) as [[cs a] m]. exact Hcalls. }
  pose proof (kind_ok_not_init _ _ Hkind) as Hni. rewrite <- Hop in Hni.
  destruct (decide_reached cfg req fs cap Hc2 Hni) as [ctx [Hreach [Hact Hopc]]]. cbv zeta in *.
  rewrite Hact in *.
  apply handler_roundtrip; try assumption.
  - rewrite Hopc. exact Hop.
  - rewrite u32_skipn. exact Hsize.
Qed.

Theorem handle_roundtrip_virtio cfg cap req q fs :
  q_unique q < 2 ^ 64 -> cap < 2 ^ 32 ->
  u32 4 req = q_op q -> u64 8 req = q_unique q -> u32 56 req = fld q "size" ->
  kind_ok (q_op q) fs = true -> reply_fits q cap fs ->
  (2 <= List.length (h_calls (handle cfg Virtio cap req fs)))%nat ->
  action_len (snd (fst (decide cfg req fs cap))) <= cap ->
  reply_ok q (cfg_minor cfg) fs (o_mem (h_outcome (handle cfg Virtio cap req fs))) = true.
Proof.
  intros Hu Hcap Hop Huniq Hsize Hkind Hfits Hcalls Hlen.
  rewrite handle_outcome, Huniq.
  assert (Hc2 : (2 <= List.length (fst (fst (decide cfg req fs cap))))%nat).
  { unfold handle, h_calls in Hcalls. destruct (decide cfg req fs cap) as [[cs a] m]. exact Hcalls. }
  pose proof (kind_ok_not_init _ _ Hkind) as Hni. rewrite <- Hop in Hni.
  destruct (decide_reached cfg req fs cap Hc2 Hni) as [ctx [Hreach [Hact Hopc]]]. cbv zeta in *.
  rewrite Hact in *.
  apply handler_roundtrip_virtio; try assumption.
  - rewrite Hopc. exact Hop.
  - rewrite u32_skipn. exact Hsize.
Qed.
