(* Proofs/TransportFuse.v -- FuseDevWriter (Model/Transport.v fw_*, fstep, frun): capacity invariant,
   split partition, commit = one packet self ++ other, the assert! fires exactly on a second write to an
   unbuffered writer, refusals change nothing, buffer content = concatenation written, frame. *)
From Coq Require Import List Arith NArith Bool Lia ZifyBool ZifyNat ZifyN.
From FB Require Import Model.Transport Proofs.Transport Proofs.TransportMachine.
Import ListNotations.
Local Open Scope N_scope.
Arguments N.add : simpl never.
Arguments N.sub : simpl never.
Arguments N.mul : simpl never.
Arguments N.min : simpl never.

(* ------------------------------------------------------------------ contiguous stores *)
Lemma write_list_frame m a d x : ~ (a <= x < a + lenN d) -> mget (write_list m a d) x = mget m x.
Proof.
  intro H. rewrite write_list_addrs. apply write_addrs_frame. rewrite map_fst_combine.
  intro Hin. apply H. assert (In x (addrs_nat a (length d))) as Hx.
  { rewrite <- (firstn_skipn (length d)). apply in_or_app. auto. }
  apply addrs_nat_in in Hx. unfold lenN. lia.
Qed.

Lemma read_write_list m a d : read_range (write_list m a d) a (lenN d) = d.
Proof.
  rewrite read_range_map, write_list_addrs. unfold addrs, lenN. rewrite Nat2N.id.
  apply write_addrs_read; [apply addrs_nat_nodup|apply addrs_nat_length].
Qed.

Lemma read_range_frame m m' a len : (forall x, a <= x < a + len -> mget m' x = mget m x) ->
  read_range m' a len = read_range m a len.
Proof.
  intro H. rewrite !read_range_map. apply map_ext_in. intros x Hx. apply H. apply addrs_in. exact Hx.
Qed.

Lemma read_range_app m a n k : read_range m a (n + k) = read_range m a n ++ read_range m (a + n) k.
Proof. rewrite !read_range_map, addrs_app, map_app. reflexivity. Qed.

Lemma write_list_app m a x y : write_list m a (x ++ y) = write_list (write_list m a x) (a + lenN x) y.
Proof.
  revert m a; induction x as [|b x IH]; intros m a; cbn [app write_list].
  - unfold lenN; cbn [length]. replace (a + N.of_nat 0) with a by lia. reflexivity.
  - rewrite IH. f_equal. unfold lenN; cbn [length]. lia.
Qed.

Lemma lenN_read_range m a len : lenN (read_range m a len) = len.
Proof. rewrite read_range_map, lenN_map. unfold lenN. rewrite addrs_length. lia. Qed.

(* appending [d] after [len] bytes: the buffer then reads old content ++ d *)
Lemma append_content m base len d :
  read_range (write_list m (base + len) d) base (len + lenN d) = read_range m base len ++ d.
Proof.
  rewrite read_range_app, read_write_list. f_equal. apply read_range_frame.
  intros x Hx. apply write_list_frame. lia.
Qed.

Lemma fw_extend_spec datas m a : fw_extend datas m a = (write_list m a (concat datas), lenN (concat datas)).
Proof.
  revert m a; induction datas as [|x r IH]; intros m a; cbn [fw_extend concat].
  - reflexivity.
  - rewrite IH, write_list_app, lenN_app. reflexivity.
Qed.

(* ------------------------------------------------------------------ one writer *)
Definition f_inv (w : fdw) : Prop := f_len w <= f_cap w.
(* the assert!(self.buffered || self.buf.is_empty()) holds *)
Definition f_oneshot_ok (w : fdw) : Prop := f_buffered w = true \/ f_len w = 0.
(* addresses owned by a writer *)
Definition f_owns (w : fdw) (x : N) : Prop := f_base w <= x < f_base w + f_cap w.

Lemma f_check_spec w sz :
  (f_check w sz = Some RPanic <-> ~ f_oneshot_ok w) /\
  (f_oneshot_ok w -> f_avail w < sz -> f_check w sz = Some (RErr ENoSpace)) /\
  (f_oneshot_ok w -> sz <= f_avail w -> f_check w sz = None).
Proof.
  unfold f_check, f_oneshot_ok.
  destruct (f_buffered w) eqn:B; destruct (N.eqb_spec (f_len w) 0) as [E|E]; cbn [orb negb];
    destruct (N.ltb_spec (f_avail w) sz) as [L|L];
    repeat split; intros; try discriminate; try reflexivity; try lia;
    try (exfalso; intuition (try congruence; try lia)).
Qed.

(* write: refused without any effect when it does not fit; buffered: appended to the window;
   unbuffered: sent as one packet, memory untouched *)
Lemma fw_write_spec data m w : f_inv w -> f_oneshot_ok w ->
  (f_avail w < lenN data -> fw_write data m w = (RErr ENoSpace, m, w, [])) /\
  (lenN data <= f_avail w ->
   exists m' w', fw_write data m w = (ROk (lenN data) [], m', w', if f_buffered w then [] else [data]) /\
     f_inv w' /\ f_len w' = f_len w + lenN data /\ f_base w' = f_base w /\ f_cap w' = f_cap w /\
     f_buffered w' = f_buffered w /\
     (f_buffered w = true -> read_range m' (f_base w) (f_len w') = read_range m (f_base w) (f_len w) ++ data) /\
     (f_buffered w = false -> m' = m) /\
     (forall x, ~ (f_base w + f_len w <= x < f_base w + f_len w + lenN data) -> mget m' x = mget m x)).
Proof.
  intros Hinv Hone. destruct (f_check_spec w (lenN data)) as [_ [Hno Hok]]. unfold fw_write. split; intro H.
  - rewrite (Hno Hone H). reflexivity.
  - rewrite (Hok Hone H). unfold f_inv, f_avail in *. destruct (f_buffered w) eqn:B.
    + eexists _, _. split; [reflexivity|]. cbn [f_len f_base f_cap f_buffered]. repeat split; try lia.
      all: try (intros; discriminate); try (intros; apply append_content); try (intros x Hx; apply write_list_frame; lia); auto.
    + eexists _, _. split; [reflexivity|]. cbn [f_len f_base f_cap f_buffered]. repeat split; try lia.
      all: try (intros; discriminate); try (intros; apply append_content); try (intros x Hx; apply write_list_frame; lia); auto.
Qed.

Lemma fw_write_vectored_spec datas m w : f_inv w -> f_oneshot_ok w ->
  let data := concat datas in
  (f_avail w < lenN data -> fw_write_vectored datas m w = (RErr ENoSpace, m, w, [])) /\
  (lenN data <= f_avail w ->
   exists m' w' ps, fw_write_vectored datas m w = (ROk (lenN data) [], m', w', ps) /\
     ps = (if f_buffered w then [] else match data with [] => [] | _ => [data] end) /\
     f_inv w' /\ f_len w' = f_len w + lenN data /\ f_base w' = f_base w /\ f_cap w' = f_cap w /\
     f_buffered w' = f_buffered w /\
     (f_buffered w = true -> read_range m' (f_base w) (f_len w') = read_range m (f_base w) (f_len w) ++ data) /\
     (f_buffered w = false -> m' = m) /\
     (forall x, ~ (f_base w + f_len w <= x < f_base w + f_len w + lenN data) -> mget m' x = mget m x)).
Proof.
  intros Hinv Hone data. destruct (f_check_spec w (lenN data)) as [_ [Hno Hok]]. unfold fw_write_vectored.
  rewrite fold_left_len. replace (0 + lenN (concat datas)) with (lenN data) by (subst data; lia). split; intro H.
  - rewrite (Hno Hone H). reflexivity.
  - rewrite (Hok Hone H). unfold f_inv, f_avail in *. destruct (f_buffered w) eqn:B.
    + rewrite fw_extend_spec. fold data. eexists _, _, _. split; [reflexivity|]. cbn [f_len f_base f_cap f_buffered].
      repeat split; try lia.
      all: try (intros; discriminate); try (intros; apply append_content); try (intros x Hx; apply write_list_frame; lia); auto.
    + destruct datas as [|d0 dr] eqn:Ed.
      * subst data. cbn [concat]. unfold lenN; cbn [length N.of_nat]. replace (f_len w + 0) with (f_len w) by lia.
        exists m, w, []. repeat split; auto; try lia.
        all: try (intros; discriminate).
      * subst data. eexists _, _, _. split; [reflexivity|]. cbn [f_len f_base f_cap f_buffered].
        repeat split; try lia.
        all: try (intros; discriminate); try (intros; apply append_content); try (intros x Hx; apply write_list_frame; lia); auto.
Qed.

Lemma fw_write_from_spec count src m w : f_inv w -> f_oneshot_ok w ->
  (f_avail w < count -> fw_write_from count src m w = (RErr ENoSpace, m, w, [])) /\
  (count <= f_avail w ->
   match src with
   | None => fw_write_from count src m w = (RErr EFile, m, w, [])
   | Some sd =>
       let data := firstn (N.to_nat count) sd in
       exists m' w', fw_write_from count src m w = (ROk (lenN data) [], m', w', if f_buffered w then [] else [data]) /\
         f_inv w' /\ f_len w' = f_len w + lenN data /\ f_base w' = f_base w /\ f_cap w' = f_cap w /\
         f_buffered w' = f_buffered w /\
         read_range m' (f_base w) (f_len w') = read_range m (f_base w) (f_len w) ++ data /\
         (forall x, ~ (f_base w + f_len w <= x < f_base w + f_len w + lenN data) -> mget m' x = mget m x)
   end).
Proof.
  intros Hinv Hone. destruct (f_check_spec w count) as [_ [Hno Hok]]. unfold fw_write_from. split; intro H.
  - rewrite (Hno Hone H). reflexivity.
  - rewrite (Hok Hone H). destruct src as [sd|]; [|reflexivity]. cbn zeta.
    set (data := firstn (N.to_nat count) sd).
    assert (Hd : lenN data <= count) by (subst data; unfold lenN; rewrite firstn_length; lia).
    unfold f_inv, f_avail in *. destruct (f_buffered w) eqn:B.
    + eexists _, _. split; [reflexivity|]. cbn [f_len f_base f_cap f_buffered]. repeat split; try lia.
      all: try (intros; discriminate); try (intros; apply append_content); try (intros x Hx; apply write_list_frame; lia); auto.
    + assert (f_len w = 0) as Hz by (destruct Hone as [Hb|Hz]; [congruence|exact Hz]).
      eexists _, _. split.
      * f_equal. f_equal. rewrite Hz. replace (f_base w + 0) with (f_base w) by lia. now rewrite read_write_list.
      * cbn [f_len f_base f_cap f_buffered]. repeat split; try lia.
        all: try (intros; discriminate); try (intros; apply append_content); try (intros x Hx; apply write_list_frame; lia); auto.
Qed.

(* split_at: the two windows partition the old one at [off] (offset from the start of the buffer);
   both halves are buffered; refused iff off > capacity *)
Lemma fw_split_spec off w : f_inv w ->
  (f_cap w < off -> fw_split off w = None) /\
  (off <= f_cap w ->
   exists a o, fw_split off w = Some (a, o) /\
     f_buffered a = true /\ f_buffered o = true /\
     f_base a = f_base w /\ f_cap a = off /\ f_base o = f_base w + off /\ f_cap o = f_cap w - off /\
     f_len a + f_len o = f_len w /\ f_len a = N.min (f_len w) off /\ f_inv a /\ f_inv o /\
     (forall x, f_owns w x <-> f_owns a x \/ f_owns o x) /\ (forall x, ~ (f_owns a x /\ f_owns o x))).
Proof.
  intro Hinv. unfold fw_split, f_inv, f_owns in *. split; intro H.
  - destruct (N.ltb_spec (f_cap w) off); [reflexivity|lia].
  - destruct (N.ltb_spec (f_cap w) off); [lia|].
    destruct (N.ltb_spec off (f_len w)); eexists _, _; (split; [reflexivity|]);
      cbn [f_len f_base f_cap f_buffered]; repeat split; try lia.
Qed.

(* after a split both windows still read what the undivided buffer read *)
Lemma fw_split_content off w a o m : f_inv w -> fw_split off w = Some (a, o) ->
  read_range m (f_base a) (f_len a) ++ read_range m (f_base o) (f_len o) = read_range m (f_base w) (f_len w).
Proof.
  intros Hinv. unfold fw_split, f_inv in *. destruct (N.ltb_spec (f_cap w) off); [discriminate|].
  destruct (N.ltb_spec off (f_len w)) as [Hlt|Hge]; intro E; inversion E; subst; cbn [f_len f_base].
  - rewrite <- read_range_app. f_equal. lia.
  - unfold read_range at 2. cbn [N.to_nat read_range_nat]. now rewrite app_nil_r.
Qed.

(* commit: never changes anything; an unbuffered writer sends nothing; a buffered one sends exactly one
   packet, its own bytes followed by the other writer's, unless both are empty *)
Lemma fw_commit_spec m w other :
  let s := read_range m (f_base w) (f_len w) in
  let o := match other with Some x => read_range m (f_base x) (f_len x) | None => [] end in
  fw_commit m w other =
    if negb (f_buffered w) then (ROk 0 [], [])
    else match s ++ o with [] => (ROk 0 [], []) | p => (ROk (lenN p) [], [p]) end.
Proof.
  intros s o. unfold fw_commit. fold s o. destruct (f_buffered w); cbn [negb]; [|reflexivity].
  destruct s as [|x s']; destruct o as [|y o']; reflexivity.
Qed.

Lemma fw_commit_one_packet m w other r ps : fw_commit m w other = (r, ps) -> (List.length ps <= 1)%nat.
Proof.
  rewrite fw_commit_spec. destruct (negb (f_buffered w)).
  - intro H; inversion H; cbn; lia.
  - destruct (_ ++ _); intro H; inversion H; cbn; lia.
Qed.

(* ------------------------------------------------------------------ the machine *)
Definition f_wf (st : fstate) : Prop := Forall f_inv (f_ws st).

(* nothing outside the windows of the writers is ever written, and windows only shrink/split *)
Definition f_step_post (st st' : fstate) : Prop :=
  f_wf st' /\
  (forall x, (forall w, In w (f_ws st) -> ~ f_owns w x) -> mget (f_mem st') x = mget (f_mem st) x) /\
  (forall w' x, In w' (f_ws st') -> f_owns w' x -> exists w, In w (f_ws st) /\ f_owns w x) /\
  (exists ps, f_pkts st' = f_pkts st ++ ps /\ (List.length ps <= 1)%nat).

Lemma f_step_post_refl st : f_wf st -> f_step_post st st.
Proof.
  intro H. unfold f_step_post. split; [exact H|]. split; [reflexivity|]. split; [eauto|].
  exists []. rewrite app_nil_r. cbn. split; [reflexivity|lia].
Qed.

Lemma f_owns_range w x : f_inv w -> f_base w + f_len w <= x < f_base w + f_len w + (f_cap w - f_len w) -> f_owns w x.
Proof. unfold f_inv, f_owns. lia. Qed.

Lemma f_step_post_write st i w m' w' ps : f_wf st -> nth_error (f_ws st) i = Some w ->
  f_inv w' -> f_base w' = f_base w -> f_cap w' = f_cap w ->
  (forall x, ~ f_owns w x -> mget m' x = mget (f_mem st) x) -> (List.length ps <= 1)%nat ->
  f_step_post st (mkf m' (set_nth i w' (f_ws st)) (f_pkts st ++ ps)).
Proof.
  intros Hwf E Hi Hb Hc Hfr Hps. pose proof (nth_error_In _ _ E) as Hin.
  unfold f_step_post, f_wf. cbn [f_mem f_ws f_pkts]. split; [apply Forall_set_nth; assumption|].
  split; [intros x Hx; apply Hfr; apply Hx; exact Hin|]. split; [|eauto].
  intros w2 x Hw2 Hx. apply in_set_nth in Hw2. destruct Hw2 as [->|Hw2]; [|eauto].
  exists w. split; [exact Hin|]. unfold f_owns in *. rewrite <- Hb, <- Hc. exact Hx.
Qed.

Ltac fin_write :=
  eapply f_step_post_write; eauto; cbn [f_len f_base f_cap length]; unfold f_inv; cbn [f_len f_cap];
  try lia; try (intros x Hx; apply write_list_frame; unfold f_owns in Hx; lia);
  try (match goal with |- context [match ?c with _ => _ end] => destruct c end; cbn [length]; lia).

(* a step that is refused (error or panic) changes neither memory, nor the writers, nor the packets *)
Lemma fstep_post op st : f_wf st -> f_step_post st (snd (fstep op st)).
Proof.
  intro Hwf. destruct op as [i data|i datas|i count src|i off|i other]; cbn [fstep].
  - destruct (nth_error (f_ws st) i) as [w|] eqn:E; [|apply f_step_post_refl; exact Hwf].
    assert (Hinv : f_inv w) by (eapply nth_error_Forall; eauto).
    destruct (fw_write data (f_mem st) w) as [[[r m'] w'] ps] eqn:F. cbn [snd].
    unfold fw_write in F. destruct (f_check w (lenN data)) as [r0|] eqn:C.
    + inversion F; subst. rewrite app_nil_r. replace (set_nth i w' (f_ws st)) with (f_ws st).
      * destruct st; apply f_step_post_refl; exact Hwf.
      * clear -E. revert i E; induction (f_ws st) as [|y l IH]; intros i E; destruct i; cbn in *; try discriminate.
        -- inversion E; reflexivity.
        -- f_equal. apply IH. exact E.
    + assert (Hok : lenN data <= f_avail w).
      { unfold f_check in C. destruct (negb _); [discriminate|]. destruct (N.ltb_spec (f_avail w) (lenN data)); [discriminate|lia]. }
      unfold f_inv, f_avail in *. destruct (f_buffered w); inversion F; subst.
      * fin_write.
      * fin_write.
  - destruct (nth_error (f_ws st) i) as [w|] eqn:E; [|apply f_step_post_refl; exact Hwf].
    assert (Hinv : f_inv w) by (eapply nth_error_Forall; eauto).
    destruct (fw_write_vectored datas (f_mem st) w) as [[[r m'] w'] ps] eqn:F. cbn [snd].
    unfold fw_write_vectored in F. rewrite fold_left_len in F.
    replace (0 + lenN (concat datas)) with (lenN (concat datas)) in F by lia.
    destruct (f_check w (lenN (concat datas))) as [r0|] eqn:C.
    + inversion F; subst. rewrite app_nil_r. replace (set_nth i w' (f_ws st)) with (f_ws st).
      * destruct st; apply f_step_post_refl; exact Hwf.
      * clear -E. revert i E; induction (f_ws st) as [|y l IH]; intros i E; destruct i; cbn in *; try discriminate.
        -- inversion E; reflexivity.
        -- f_equal. apply IH. exact E.
    + assert (Hok : lenN (concat datas) <= f_avail w).
      { unfold f_check in C. destruct (negb _); [discriminate|]. destruct (N.ltb_spec (f_avail w) (lenN (concat datas))); [discriminate|lia]. }
      unfold f_inv, f_avail in *. destruct (f_buffered w).
      * rewrite fw_extend_spec in F. inversion F; subst.
        fin_write.
      * destruct datas as [|d0 dr] eqn:Ed.
        -- inversion F; subst. fin_write.
        -- rewrite <- Ed in *. inversion F; subst. fin_write.
  - destruct (nth_error (f_ws st) i) as [w|] eqn:E; [|apply f_step_post_refl; exact Hwf].
    assert (Hinv : f_inv w) by (eapply nth_error_Forall; eauto).
    destruct (fw_write_from count src (f_mem st) w) as [[[r m'] w'] ps] eqn:F. cbn [snd].
    unfold fw_write_from in F. destruct (f_check w count) as [r0|] eqn:C.
    + inversion F; subst. rewrite app_nil_r. replace (set_nth i w' (f_ws st)) with (f_ws st).
      * destruct st; apply f_step_post_refl; exact Hwf.
      * clear -E. revert i E; induction (f_ws st) as [|y l IH]; intros i E; destruct i; cbn in *; try discriminate.
        -- inversion E; reflexivity.
        -- f_equal. apply IH. exact E.
    + assert (Hok : count <= f_avail w).
      { unfold f_check in C. destruct (negb _); [discriminate|]. destruct (N.ltb_spec (f_avail w) count); [discriminate|lia]. }
      destruct src as [sd|].
      * cbn zeta in F. set (data := firstn (N.to_nat count) sd) in *.
        assert (Hd : lenN data <= count) by (subst data; unfold lenN; rewrite firstn_length; lia).
        unfold f_inv, f_avail in *.
        destruct (f_buffered w); inversion F; subst; fin_write.
      * inversion F; subst. rewrite app_nil_r. replace (set_nth i w' (f_ws st)) with (f_ws st).
        -- destruct st; apply f_step_post_refl; exact Hwf.
        -- clear -E. revert i E; induction (f_ws st) as [|y l IH]; intros i E; destruct i; cbn in *; try discriminate.
           ++ inversion E; reflexivity.
           ++ f_equal. apply IH. exact E.
  - destruct (nth_error (f_ws st) i) as [w|] eqn:E; [|apply f_step_post_refl; exact Hwf].
    assert (Hinv : f_inv w) by (eapply nth_error_Forall; eauto). pose proof (nth_error_In _ _ E) as Hin.
    destruct (fw_split_spec off w Hinv) as [Hno Hok].
    destruct (N.lt_ge_cases (f_cap w) off) as [H|H].
    + rewrite (Hno H). cbn [snd]. apply f_step_post_refl; exact Hwf.
    + destruct (Hok H) as [a [o [E2 [_ [_ [_ [_ [_ [_ [_ [_ [Ia [Io [Hown _]]]]]]]]]]]]]]. rewrite E2. cbn [snd].
      unfold f_step_post, f_wf. cbn [f_mem f_ws f_pkts].
      split; [apply Forall_app; split; [apply Forall_set_nth; assumption|auto]|]. split; [reflexivity|]. split.
      * intros w2 x Hw2 Hx. apply in_app_or in Hw2. destruct Hw2 as [Hw2|[<-|[]]].
        -- apply in_set_nth in Hw2. destruct Hw2 as [->|Hw2]; [|eauto]. exists w. split; [exact Hin|]. apply Hown. auto.
        -- exists w. split; [exact Hin|]. apply Hown. auto.
      * exists []. rewrite app_nil_r. cbn. split; [reflexivity|lia].
  - destruct (nth_error (f_ws st) i) as [w|] eqn:E; [|apply f_step_post_refl; exact Hwf].
    destruct (fw_commit (f_mem st) w _) as [r ps] eqn:F. cbn [snd].
    unfold f_step_post, f_wf. cbn [f_mem f_ws f_pkts]. split; [exact Hwf|]. split; [reflexivity|]. split; [eauto|].
    exists ps. split; [reflexivity|]. eapply fw_commit_one_packet; eauto.
Qed.

Lemma frun_snd_cons op ops st : snd (frun (op :: ops) st) = snd (frun ops (snd (fstep op st))).
Proof.
  cbn [frun]. destruct (fstep op st) as [o st1]. cbn [snd]. destruct (frun ops st1) as [os st2]. reflexivity.
Qed.

(* any operation sequence: len <= cap for every writer of the family, memory outside the original
   windows untouched, windows never grow, and at most one packet per operation *)
Theorem frun_post ops st : f_wf st ->
  f_wf (snd (frun ops st)) /\
  (forall x, (forall w, In w (f_ws st) -> ~ f_owns w x) -> mget (f_mem (snd (frun ops st))) x = mget (f_mem st) x) /\
  (forall w' x, In w' (f_ws (snd (frun ops st))) -> f_owns w' x -> exists w, In w (f_ws st) /\ f_owns w x) /\
  (exists ps, f_pkts (snd (frun ops st)) = f_pkts st ++ ps /\ (List.length ps <= List.length ops)%nat).
Proof.
  revert st; induction ops as [|op ops IH]; intros st Hwf.
  - cbn [frun snd]. split; [exact Hwf|]. split; [reflexivity|]. split; [eauto|].
    exists []. rewrite app_nil_r. cbn. split; [reflexivity|lia].
  - rewrite frun_snd_cons. destruct (fstep_post op st Hwf) as [W1 [M1 [O1 [ps1 [P1 L1]]]]].
    destruct (IH _ W1) as [W2 [M2 [O2 [ps2 [P2 L2]]]]]. split; [exact W2|]. split; [|split].
    + intros x Hx. rewrite M2; [apply M1; exact Hx|].
      intros w1 Hw1 Hown. destruct (O1 _ _ Hw1 Hown) as [w [Hw Hwx]]. exact (Hx w Hw Hwx).
    + intros w2 x Hw2 Hx. destruct (O2 _ _ Hw2 Hx) as [w1 [Hw1 Hx1]]. eauto.
    + exists (ps1 ++ ps2). rewrite P2, P1, app_assoc. split; [reflexivity|]. rewrite app_length. cbn [length]. lia.
Qed.

(* the assert! : a write-type operation panics exactly when the writer is unbuffered and already wrote *)
Theorem panic_iff data m w :
  (fst (fst (fst (fw_write data m w))) = RPanic <-> ~ f_oneshot_ok w).
Proof.
  destruct (f_check_spec w (lenN data)) as [Hp _]. unfold fw_write. split.
  - intro H. apply Hp. destruct (f_check w (lenN data)) as [r|] eqn:C.
    + cbn [fst] in H. congruence.
    + destruct (f_buffered w); cbn [fst] in H; discriminate.
  - intro H. apply Hp in H. rewrite H. reflexivity.
Qed.
