(* Proofs/ReaddirListing.v -- a client that lists a directory by resuming from the offset of the
   last entry it received, on any handles, with arbitrary other requests in between (C16). *)
From Coq Require Import List NArith Bool Lia ZifyBool ZifyNat ZifyN Arith.
From FB Require Import Model.Readdir Proofs.Readdir Proofs.ReaddirStep.
Import ListNotations.
Local Open Scope N_scope.

(* host bytes needed to reach the first visible entry of [rest], and that entry *)
Fixpoint need (rest : list hent) : option (N * hent) :=
  match rest with
  | [] => None
  | e :: t => if is_dot e
              then match need t with Some (n, v) => Some (host_reclen e + n, v) | None => None end
              else Some (host_reclen e, e)
  end.

(* what the code needs of a size to make progress: the getdents64 batch must reach the next visible
   entry (the "." / ".." records before it take host-buffer space) and the reply must hold it *)
Definition step_ok (plus : bool) (size : N) (rest : list hent) : Prop :=
  match need rest with
  | Some (n, v) => n <= size /\ dirent_size plus v <= size
  | None => match rest with e :: _ => host_reclen e <= size | [] => True end
  end.

(* what the statement of C16 asks of a size: it can hold the next entry *)
Definition spec_size_ok (plus : bool) (size : N) (rest : list hent) : Prop :=
  match need rest with
  | Some (_, v) => dirent_size plus v <= size
  | None => True
  end.

Lemma need_visible rest :
  match need rest with
  | Some (_, v) => exists t, visible rest = v :: t
  | None => visible rest = []
  end.
Proof.
  induction rest as [|e t IH]; [reflexivity|]. cbn [need]. unfold visible. cbn [filter]. fold (visible t).
  destruct (is_dot e); cbn [negb].
  - destruct (need t) as [[n v]|]; exact IH.
  - exists (visible t). reflexivity.
Qed.

Lemma need_first_fits rest n v size :
  need rest = Some (n, v) -> n <= size -> match rest with e :: _ => host_reclen e <= size | [] => True end.
Proof.
  destruct rest as [|e t]; [intros; exact I|]. cbn [need].
  destruct (is_dot e).
  - destruct (need t) as [[n' v']|]; [|discriminate]. intros [= <- <-]. lia.
  - intros [= <- <-]. lia.
Qed.

Lemma need_progress rest : forall n v size,
  need rest = Some (n, v) -> n <= size ->
  exists t, visible (take_fit host_reclen size rest) = v :: t.
Proof.
  induction rest as [|e t IH]; intros n v size; cbn [need]; [discriminate|].
  destruct (is_dot e) eqn:Ed.
  - destruct (need t) as [[n' v']|] eqn:En; [|discriminate]. intros [= <- <-] Hle.
    rewrite take_fit_cons_fit by lia. unfold visible. cbn [filter]. rewrite Ed. cbn [negb].
    apply (IH n' v'); [reflexivity|lia].
  - intros [= <- <-] Hle. rewrite take_fit_cons_fit by lia. unfold visible. cbn [filter]. rewrite Ed. cbn [negb].
    eexists. reflexivity.
Qed.

Lemma step_ok_first_fits plus size rest :
  step_ok plus size rest -> match rest with e :: _ => host_reclen e <= size | [] => True end.
Proof.
  unfold step_ok. destruct (need rest) as [[n v]|] eqn:En; [|tauto].
  intros [Hn _]. exact (need_first_fits _ _ _ _ En Hn).
Qed.

Lemma visible_prefix_nil a b : visible (a ++ b) = [] -> visible a = [].
Proof. rewrite visible_app. intros Hx. apply app_eq_nil in Hx. tauto. Qed.

Lemma visible_split B1 x B2 S DD' :
  filter (fun e => negb (is_dot e)) B1 = DD' -> negb (is_dot x) = true ->
  visible ((B1 ++ x :: B2) ++ S) = (DD' ++ [x]) ++ visible (B2 ++ S).
Proof.
  intros <- Hx. rewrite !visible_app. unfold visible. cbn [filter]. rewrite Hx.
  rewrite <- !app_assoc. reflexivity.
Qed.

(* ------------------------------------------------------------------ progress of the batch *)
Lemma list_eqb_eq a b : list_eqb a b = true -> a = b.
Proof.
  revert b. induction a as [|x a IH]; intros [|y b]; cbn [list_eqb]; try discriminate; [reflexivity|].
  intros Hx. apply andb_true_iff in Hx. destruct Hx as [H1 H2]. f_equal; [lia|apply IH; exact H2].
Qed.

Lemma dot_reclen e : is_dot e = true -> host_reclen e = 24.
Proof.
  unfold is_dot. intros Hd. apply orb_true_iff in Hd. unfold host_reclen, namelen.
  destruct Hd as [Hd|Hd]; apply list_eqb_eq in Hd; rewrite Hd; reflexivity.
Qed.

Lemma round8_mono a b : a <= b -> round8 a <= round8 b.
Proof.
  intros Hle. unfold round8. apply N.mul_le_mono_r. apply N.div_le_mono; lia.
Qed.

Lemma host_le_dirent plus e : host_reclen e <= dirent_size plus e.
Proof.
  unfold host_reclen, dirent_size. pose proof (round8_mono (19 + namelen e + 1) (24 + namelen e)) as Hm.
  destruct plus; lia.
Qed.

Lemma no_visible_all_dots l : visible l = [] -> forallb is_dot l = true.
Proof.
  unfold visible. induction l as [|y l IH]; [reflexivity|]. cbn [filter forallb].
  destruct (is_dot y); cbn [negb andb]; [exact IH|discriminate].
Qed.

Lemma not_only_dots_visible b : only_dots b = false -> visible b = [] -> b = [].
Proof.
  destruct b as [|x b]; [reflexivity|]. unfold only_dots. rewrite forallb_dot_agrees. intros Ho Hv.
  rewrite (no_visible_all_dots _ Hv) in Ho. discriminate.
Qed.

(* what the statement asks of a size, for a tree with the re-read loop: it holds the next entry
   (and a dot record, 24 bytes, which every entry-holding size does) *)
Definition size_ok (X : rfixes) (plus : bool) (size : N) (rest : list hent) : Prop :=
  if rx_refill X then 24 <= size /\ spec_size_ok plus size rest else step_ok plus size rest.

Lemma first_fits size rest :
  24 <= size -> (forall v t, visible rest = v :: t -> host_reclen v <= size) ->
  match rest with e :: _ => host_reclen e <= size | [] => True end.
Proof.
  intros H24 Hv. destruct rest as [|e t]; [exact I|].
  destruct (is_dot e) eqn:Ed; [rewrite (dot_reclen _ Ed); exact H24|].
  apply (Hv e (visible t)). unfold visible. cbn [filter]. rewrite Ed. reflexivity.
Qed.

Lemma refill_progress size : 24 <= size -> forall fuel s b pos,
  (length s < fuel)%nat ->
  (forall v t, visible s = v :: t -> host_reclen v <= size) ->
  (b = [] -> s = []) ->
  exists b2, fst (refill fuel s size b pos) = ROk b2 /\
             (visible b <> [] -> b2 = b) /\
             (visible b = [] -> forall v t, visible s = v :: t -> exists t', visible b2 = v :: t').
Proof.
  intros H24. induction fuel as [|f IH]; intros s b pos Hlen Hfit Hnil; [lia|].
  cbn [refill]. destruct (only_dots b) eqn:Eo.
  - assert (Hvb : visible b = []) by (apply only_dots_visible; exact Eo).
    destruct s as [|e ts] eqn:Es.
    + (* nothing left to read *)
      cbn [getdents_l skipn length]. exists []. split; [destruct f; reflexivity|].
      split; [intros Hx; congruence|intros _ v t Hv; discriminate].
    + rewrite <- Es in *.
      pose proof (first_fits size s H24 Hfit) as Hff.
      rewrite (getdents_fits _ _ Hff).
      destruct (take_fit_prefix host_reclen s size) as [s' Hs'].
      remember (take_fit host_reclen size s) as b' eqn:Eb'.
      assert (Hb'ne : b' <> []).
      { rewrite Eb', Es. rewrite Es in Hff. rewrite take_fit_cons_fit by exact Hff. discriminate. }
      assert (Hsk : skipn (length b') s = s') by (rewrite Hs' at 1; apply skipn_app_len).
      rewrite Hsk.
      assert (Hlen' : (length s' < f)%nat).
      { assert (Hl : length s = (length b' + length s')%nat) by (rewrite Hs' at 1; apply app_length).
        destruct b'; [congruence|cbn [length] in Hl; lia]. }
      destruct (visible b') as [|v0 t0] eqn:Evb'.
      * destruct (IH s' b' (pos + length b')%nat Hlen') as (b2 & Hr & _ & H2).
        { intros v t Hv. apply (Hfit v t). rewrite Hs', visible_app, Evb'. exact Hv. }
        { intros Hx. congruence. }
        exists b2. split; [exact Hr|]. split; [intros Hx; congruence|].
        intros _ v t Hv. rewrite Hs', visible_app, Evb' in Hv. cbn [app] in Hv.
        apply (H2 Evb' v t Hv).
      * (* the re-read batch has a visible entry: it is returned *)
        destruct f as [|f']; [lia|].
        exists b'. cbn [refill].
        assert (Ho' : only_dots b' = false).
        { destruct (only_dots b') eqn:E; [|reflexivity]. pose proof (only_dots_visible _ E) as Hx.
          unfold visible in Evb'. congruence. }
        rewrite Ho'. cbn [fst]. split; [reflexivity|]. split; [intros Hx; congruence|].
        intros _ v t Hv. rewrite Hs', visible_app, Evb' in Hv. cbn [app] in Hv. injection Hv as <- _.
        exists t0. exact Evb'.
  - exists b. cbn [fst]. split; [reflexivity|]. split; [reflexivity|].
    intros Hvb v t Hv. rewrite (Hnil (not_only_dots_visible _ Eo Hvb)) in Hv. discriminate.
Qed.

Lemma batchf_progress X plus size rest :
  size_ok X plus size rest ->
  exists B, batchf X size rest = ROk B /\
            forall v t, visible rest = v :: t -> dirent_size plus v <= size /\ exists t', visible B = v :: t'.
Proof.
  unfold size_ok, batchf. destruct (rx_refill X) eqn:Ex.
  - intros [H24 Hspec].
    assert (Hv : forall v t, visible rest = v :: t -> dirent_size plus v <= size).
    { intros v t Hvis. unfold spec_size_ok in Hspec. pose proof (need_visible rest) as Hn.
      destruct (need rest) as [[n w]|]; [destruct Hn as [t' Hn]; rewrite Hn in Hvis; injection Hvis as <- _; exact Hspec|congruence]. }
    assert (Hfit : forall v t, visible rest = v :: t -> host_reclen v <= size).
    { intros v t Hvis. pose proof (Hv v t Hvis). pose proof (host_le_dirent plus v). lia. }
    pose proof (first_fits size rest H24 Hfit) as Hff. rewrite (getdents_fits _ _ Hff).
    destruct (take_fit_prefix host_reclen rest size) as [s Hs].
    set (b := take_fit host_reclen size rest) in *.
    assert (Hsk : skipn (length b) rest = s) by (rewrite Hs at 1; apply skipn_app_len). rewrite Hsk.
    assert (Hbnil : b = [] -> s = []).
    { intros Hb. destruct rest as [|e t]; [rewrite Hb in Hs; cbn in Hs; congruence|].
      exfalso. unfold b in Hb. rewrite take_fit_cons_fit in Hb by exact Hff. discriminate. }
    destruct (visible b) as [|v0 t0] eqn:Evb.
    + destruct (refill_progress size H24 (S (length s)) s b 0%nat (Nat.lt_succ_diag_r _)) as (b2 & Hr & _ & H2);
        [|exact Hbnil|].
      { intros v t Hvis. apply (Hfit v t). rewrite Hs, visible_app, Evb. exact Hvis. }
      exists b2. split; [exact Hr|]. intros v t Hvis. split; [exact (Hv v t Hvis)|].
      apply (H2 Evb v t). rewrite Hs, visible_app, Evb in Hvis. exact Hvis.
    + (* the first batch already shows an entry: the loop is not entered *)
      assert (Ho : only_dots b = false).
      { destruct (only_dots b) eqn:E; [|reflexivity]. pose proof (only_dots_visible _ E) as Hx.
        unfold visible in Evb. congruence. }
      exists b. cbn [refill]. rewrite Ho. cbn [fst]. split; [reflexivity|].
      intros v t Hvis. split; [exact (Hv v t Hvis)|].
      rewrite Hs, visible_app, Evb in Hvis. cbn [app] in Hvis. injection Hvis as <- _. exists t0. exact Evb.
  - intros Hok. pose proof (step_ok_first_fits _ _ _ Hok) as Hff. rewrite (getdents_fits _ _ Hff).
    eexists. split; [reflexivity|]. intros v t Hvis. unfold step_ok in Hok. pose proof (need_visible rest) as Hn.
    destruct (need rest) as [[n w]|] eqn:En; [|congruence]. destruct Hn as [t' Hn]. rewrite Hn in Hvis.
    injection Hvis as <- _. destruct Hok as [Hn1 Hn2]. split; [exact Hn2|]. exact (need_progress _ _ _ _ En Hn1).
Qed.

(* ------------------------------------------------------------------ the listing client *)
Record mstep := mk_mstep { ms_noise : list req; ms_handle : N; ms_size : N }.

Definition last_off (reply : list dirent) (off : N) : N :=
  match rev reply with [] => off | e :: _ => de_off e end.

Fixpoint listing (H : host) (C : cfg) (d : list hent) (st : state) (off : N) (plus : bool)
         (plan : list mstep) : list (res (list dirent)) :=
  match plan with
  | [] => []
  | m :: t =>
    let st1 := snd (run H C d st (ms_noise m)) in
    let o := step H C d st1 (mk_req (ms_handle m) (ms_size m) off plus) in
    fst o :: match fst o with
             | ROk reply => listing H C d (snd o) (last_off reply off) plus t
             | RErr _ => []
             end
  end.

Definition start_idx (d : list hent) (off : N) : nat :=
  if off =? 0 then 0%nat else match index_after off d with Some k => k | None => 0%nat end.

(* every size of the plan is adequate at the point where it is used; [ok] is step_ok or spec_size_ok *)
Fixpoint plan_ok (ok : bool -> N -> list hent -> Prop) (H : host) (C : cfg) (d : list hent) (st : state)
         (off : N) (plus : bool) (plan : list mstep) : Prop :=
  match plan with
  | [] => True
  | m :: t =>
    let st1 := snd (run H C d st (ms_noise m)) in
    let o := step H C d st1 (mk_req (ms_handle m) (ms_size m) off plus) in
    ms_size m <> 0 /\ ok plus (ms_size m) (skipn (start_idx d off) d) /\
    match fst o with
    | ROk reply => plan_ok ok H C d (snd o) (last_off reply off) plus t
    | RErr _ => True
    end
  end.

Lemma start_idx_at pre rest off :
  good_dir (pre ++ rest) -> off_at pre off -> start_idx (pre ++ rest) off = length pre.
Proof.
  intros Hg Ho. unfold start_idx.
  destruct (off_at_index _ _ _ Hg Ho) as [[-> ->]|[Hnz Hidx]]; [reflexivity|].
  destruct (off =? 0) eqn:E; [lia|]. rewrite Hidx. reflexivity.
Qed.

Lemma last_off_map H wrap plus l x off : last_off (map (mkd H wrap plus) (l ++ [x])) off = h_off x.
Proof. unfold last_off. rewrite map_app, rev_app_distr. reflexivity. Qed.

Definition all_ok (l : list (res (list dirent))) (replies : list (list dirent)) : Prop :=
  l = map ROk replies.

Theorem listing_complete : forall plan H C pre rest st off plus,
  good_dir (pre ++ rest) -> seekable H (pre ++ rest) -> lookups_ok H (pre ++ rest) ->
  wrap_total (c_wrap C) -> InvSt (pre ++ rest) st ->
  (c_noopendir C = false -> forall m, In m plan -> hs_open (st_h st (ms_handle m)) = true) ->
  off_at pre off ->
  plan_ok (size_ok (c_rx C)) H C (pre ++ rest) st off plus plan ->
  (length (visible rest) < length plan)%nat ->
  exists replies,
    listing H C (pre ++ rest) st off plus plan = map ROk (replies ++ [[]]) /\
    concat replies = map (mkd H (c_wrap C) plus) (visible rest).
Proof.
  induction plan as [|m t IH]; intros H C pre rest st off plus Hg Hs Hl Hw Hi Hop Ho Hpl Hlen;
    [cbn [length] in Hlen; lia|].
  cbn [listing plan_ok] in *. cbv zeta in *.
  set (st1 := snd (run H C (pre ++ rest) st (ms_noise m))) in *.
  destruct Hpl as (Hnz & Hok & Hrest).
  rewrite (start_idx_at _ _ _ Hg Ho), skipn_pre in Hok.
  assert (Hi1 : InvSt (pre ++ rest) st1) by (apply run_inv; assumption).
  assert (Hop1 : c_noopendir C = false -> forall m', In m' (m :: t) -> hs_open (st_h st1 (ms_handle m')) = true).
  { intros Hc m' Hm'. unfold st1. rewrite run_open. apply Hop; assumption. }
  destruct (batchf_progress _ _ _ _ Hok) as (B & HB & Hprog).
  pose proof (step_resume H C pre rest st1 (mk_req (ms_handle m) (ms_size m) off plus) B Hg Hs Hi1 Hl Hw
                (fun Hc => Hop1 Hc m (or_introl eq_refl)) Ho Hnz HB (batchf_sub _ _ _ _ HB)) as Hstep.
  cbn [r_size r_plus r_handle r_offset] in Hstep.
  set (o := step H C (pre ++ rest) st1 (mk_req (ms_handle m) (ms_size m) off plus)) in *.
  rewrite Hstep in *.
  set (DD := take_fit (dirent_size plus) (ms_size m) (visible B)) in *.
  assert (Hi2 : InvSt (pre ++ rest) (snd o)) by (apply step_inv; assumption).
  assert (Hop2 : c_noopendir C = false -> forall m', In m' t -> hs_open (st_h (snd o) (ms_handle m')) = true).
  { intros Hc m' Hm'. unfold o. rewrite step_open. apply Hop1; [exact Hc|right; exact Hm']. }
  destruct (batchf_shape _ _ _ _ HB) as (K & S & HS & HK).
  destruct (take_fit_prefix (dirent_size plus) (visible B) (ms_size m)) as [s' Hs']. fold DD in Hs'.
  destruct (snoc_cases DD) as [HDD|(DD' & x & HDD)].
  - (* empty reply: nothing visible remains *)
    assert (Hvis : visible rest = []).
    { destruct (visible rest) as [|v tv] eqn:Ev; [reflexivity|exfalso].
      destruct (Hprog v tv eq_refl) as (Hfit & t' & Ht').
      unfold DD in HDD. rewrite Ht' in HDD. rewrite take_fit_cons_fit in HDD by exact Hfit. discriminate. }
    rewrite HDD in *. cbn [map] in *. unfold last_off in *. cbn [rev] in *.
    destruct t as [|m2 t2].
    + exists []. cbn [app map concat listing]. rewrite Hvis. split; reflexivity.
    + destruct (IH H C pre rest (snd o) off plus Hg Hs Hl Hw Hi2 Hop2 Ho Hrest) as (replies & Hlist & Hcat).
      { rewrite Hvis. cbn [length]. lia. }
      exists ([] :: replies). cbn [app map concat]. rewrite Hlist, Hcat. split; reflexivity.
  - (* DD = DD' ++ [x]: resume after x *)
    rewrite HDD in Hs'. rewrite <- app_assoc in Hs'. cbn [app] in Hs'.
    destruct (filter_prefix_split _ _ _ _ _ Hs') as (B1 & B2 & HBB & HB1 & HB2 & Hx).
    assert (Hd : pre ++ rest = (pre ++ (K ++ B1) ++ [x]) ++ (B2 ++ S)).
    { rewrite HS, HBB, <- !app_assoc. reflexivity. }
    assert (Hvr : visible rest = DD ++ visible (B2 ++ S)).
    { rewrite HS, HBB, HDD. rewrite app_assoc. rewrite (app_assoc K). apply visible_split; [|exact Hx].
      change (filter (fun e => negb (is_dot e)) (K ++ B1)) with (visible (K ++ B1)).
      rewrite visible_app, HK. exact HB1. }
    assert (Ho' : off_at (pre ++ (K ++ B1) ++ [x]) (last_off (map (mkd H (c_wrap C) plus) DD) off)).
    { right. exists (pre ++ K ++ B1), x. split; [rewrite <- !app_assoc; reflexivity|].
      rewrite HDD. apply last_off_map. }
    rewrite Hd in Hg, Hs, Hl, Hi2, Hrest |- *.
    assert (Hlen' : (length (visible (B2 ++ S)) < length t)%nat).
    { rewrite Hvr, HDD, !app_length in Hlen. cbn [length] in Hlen. lia. }
    destruct (IH H C _ _ (snd o) _ plus Hg Hs Hl Hw Hi2 Hop2 Ho' Hrest Hlen') as (replies & Hlist & Hcat).
    exists (map (mkd H (c_wrap C) plus) DD :: replies). cbn [app map concat]. split.
    + rewrite Hlist. reflexivity.
    + rewrite Hcat, Hvr, map_app. reflexivity.
Qed.

(* safety without any assumption on the sizes: as long as no request fails, the client has received a
   prefix of the visible entries, in order, each once *)
Theorem listing_prefix : forall plan H C pre rest st off plus replies,
  good_dir (pre ++ rest) -> seekable H (pre ++ rest) -> lookups_ok H (pre ++ rest) ->
  wrap_total (c_wrap C) -> InvSt (pre ++ rest) st ->
  (c_noopendir C = false -> forall m, In m plan -> hs_open (st_h st (ms_handle m)) = true) ->
  off_at pre off ->
  listing H C (pre ++ rest) st off plus plan = map ROk replies ->
  exists s, map (mkd H (c_wrap C) plus) (visible rest) = concat replies ++ s.
Proof.
  induction plan as [|m t IH]; intros H C pre rest st off plus replies Hg Hs Hl Hw Hi Hop Ho Hlist.
  - destruct replies; [|discriminate]. cbn [concat app]. eexists. reflexivity.
  - cbn [listing] in Hlist. cbv zeta in Hlist.
    set (st1 := snd (run H C (pre ++ rest) st (ms_noise m))) in *.
    destruct replies as [|rp replies]; [discriminate|]. cbn [map] in Hlist.
    injection Hlist as Hfst Hrest.
    assert (Hi1 : InvSt (pre ++ rest) st1) by (apply run_inv; assumption).
    assert (Hop1 : c_noopendir C = false -> forall m', In m' (m :: t) -> hs_open (st_h st1 (ms_handle m')) = true).
    { intros Hc m' Hm'. unfold st1. rewrite run_open. apply Hop; assumption. }
    set (o := step H C (pre ++ rest) st1 (mk_req (ms_handle m) (ms_size m) off plus)) in *.
    assert (Hi2 : InvSt (pre ++ rest) (snd o)) by (apply step_inv; assumption).
    assert (Hop2 : c_noopendir C = false -> forall m', In m' t -> hs_open (st_h (snd o) (ms_handle m')) = true).
    { intros Hc m' Hm'. unfold o. rewrite step_open. apply Hop1; [exact Hc|right; exact Hm']. }
    rewrite Hfst in Hrest.
    destruct (N.eq_dec (ms_size m) 0) as [Hz|Hnz].
    { (* size 0: empty reply, nothing moves *)
      assert (Hrp : rp = []).
      { unfold o in Hfst. rewrite step_unfold in Hfst. cbn [r_size] in Hfst. rewrite Hz in Hfst. cbn in Hfst. congruence. }
      subst rp. unfold last_off in Hrest. cbn [rev] in Hrest.
      destruct (IH H C pre rest (snd o) off plus replies Hg Hs Hl Hw Hi2 Hop2 Ho Hrest) as [s Hs0].
      exists s. cbn [concat app]. exact Hs0. }
    (* the batch either fails (then so does the request, which cannot be in an all-ok listing) or is B *)
    destruct (batchf (c_rx C) (ms_size m) rest) as [B|e] eqn:HB.
    2:{ exfalso. pose proof (step_resume_err H C pre rest st1 (mk_req (ms_handle m) (ms_size m) off plus) e Hg Hs Hi1 Hl Hw
                  (fun Hc => Hop1 Hc m (or_introl eq_refl)) Ho Hnz HB) as Herr.
        fold o in Herr. congruence. }
    pose proof (step_resume H C pre rest st1 (mk_req (ms_handle m) (ms_size m) off plus) B Hg Hs Hi1 Hl Hw
                  (fun Hc => Hop1 Hc m (or_introl eq_refl)) Ho Hnz HB (batchf_sub _ _ _ _ HB)) as Hstep.
    cbn [r_size r_plus r_handle r_offset] in Hstep. fold o in Hstep. rewrite Hstep in Hfst.
    injection Hfst as Hrp.
    set (DD := take_fit (dirent_size plus) (ms_size m) (visible B)) in *.
    destruct (batchf_shape _ _ _ _ HB) as (K & S & HS & HK).
    destruct (take_fit_prefix (dirent_size plus) (visible B) (ms_size m)) as [s' Hs']. fold DD in Hs'.
    destruct (snoc_cases DD) as [HDD|(DD' & x & HDD)].
    + rewrite HDD in Hrp. cbn [map] in Hrp. subst rp. unfold last_off in Hrest. cbn [rev] in Hrest.
      destruct (IH H C pre rest (snd o) off plus replies Hg Hs Hl Hw Hi2 Hop2 Ho Hrest) as [s Hs0].
      exists s. cbn [concat app]. exact Hs0.
    + rewrite HDD in Hs'. rewrite <- app_assoc in Hs'. cbn [app] in Hs'.
      destruct (filter_prefix_split _ _ _ _ _ Hs') as (B1 & B2 & HBB & HB1 & HB2 & Hx).
      assert (Hd : pre ++ rest = (pre ++ (K ++ B1) ++ [x]) ++ (B2 ++ S)).
      { rewrite HS, HBB, <- !app_assoc. reflexivity. }
      assert (Hvr : visible rest = DD ++ visible (B2 ++ S)).
      { rewrite HS, HBB, HDD. rewrite app_assoc. rewrite (app_assoc K). apply visible_split; [|exact Hx].
        change (filter (fun e => negb (is_dot e)) (K ++ B1)) with (visible (K ++ B1)).
        rewrite visible_app, HK. exact HB1. }
      assert (Ho' : off_at (pre ++ (K ++ B1) ++ [x]) (last_off rp off)).
      { right. exists (pre ++ K ++ B1), x. split; [rewrite <- !app_assoc; reflexivity|].
        rewrite <- Hrp, HDD. apply last_off_map. }
      rewrite Hd in Hg, Hs, Hl, Hi2, Hrest.
      destruct (IH H C _ _ (snd o) _ plus replies Hg Hs Hl Hw Hi2 Hop2 Ho' Hrest) as [s Hs0].
      exists s. cbn [concat]. rewrite Hvr, map_app, Hs0, <- Hrp, app_assoc. reflexivity.
Qed.
