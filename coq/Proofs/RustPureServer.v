(* Proofs/RustPureServer.v -- the size arithmetic of add_dirent (src/api/server/sync_io.rs) is the one of
   Model/Server.v ([pad8], [dirent_total], the skip test of [fill_dirents]) (C03) and of Model/Readdir.v
   ([round8], [dirent_size], the skip test of the readdir loop) (C16). *)
From Coq Require Import List NArith ZArith String Bool Lia.
From FB Require Import Lib.RustExpr Gen.RustPure Proofs.RustPure.
From FB Require Model.Server Model.Readdir.
Import ListNotations.
Local Open Scope N_scope.

(* what add_dirent answers, as a function of: max (the `size` of the request), the name length, whether an entry is
   attached (readdirplus), and the bytes already written: Ok(0) = skipped, Ok(total) = appended total bytes *)
Definition add_dirent_spec (total max written : N) : RustExpr.outcome :=
  Val (VOk (VInt Usize (if (max - written) <? total then 0 else total))).

Lemma src_add_dirent_server : forall max nl plus written,
  max < 4294967296 -> nl <= 4294967295 -> written < 18446744073709551616 ->
  eval_fn Debug add_dirent_src [VInt U32 max; VInt Usize nl; VBool plus; VInt Usize written] =
  add_dirent_spec (Server.pad8 (24 + nl) + (if plus then 128 else 0)) max written.
Proof.
  intros max nl plus written Hm Hn Hw.
  rsolve_with bitnorm.
Qed.

(* a name longer than u32::MAX is refused before any arithmetic *)
Lemma src_add_dirent_long_name : forall max nl plus written,
  max < 4294967296 -> 4294967295 < nl -> nl < 18446744073709551616 -> written < 18446744073709551616 ->
  eval_fn Debug add_dirent_src [VInt U32 max; VInt Usize nl; VBool plus; VInt Usize written] = Val (VErr (VInt I32 75)).
Proof. intros. rsolve. Qed.

(* the padding written after the name is the model's: pad8 dl - dl, between 0 and 7 *)
Lemma pad8_bounds : forall n, n + 7 < 18446744073709551616 -> n <= Server.pad8 n /\ Server.pad8 n - n <= 7.
Proof.
  intros n H. unfold Server.pad8. change (N.lnot 7 64) with 18446744073709551608.
  rewrite land_mask8 by exact H. split; dlia.
Qed.

Lemma round8_pad8 : forall n, n + 7 < 18446744073709551616 -> Readdir.round8 n = Server.pad8 n.
Proof.
  intros n H. unfold Readdir.round8, Server.pad8. change (N.lnot 7 64) with 18446744073709551608.
  rewrite land_mask8 by exact H. apply N.mul_comm.
Qed.

Lemma src_add_dirent_readdir : forall max nl plus written,
  max < 4294967296 -> nl <= 4294967295 -> written < 18446744073709551616 ->
  eval_fn Debug add_dirent_src [VInt U32 max; VInt Usize nl; VBool plus; VInt Usize written] =
  add_dirent_spec (Readdir.round8 (24 + nl) + (if plus then 128 else 0)) max written.
Proof.
  intros max nl plus written Hm Hn Hw. rewrite round8_pad8 by lia. apply src_add_dirent_server; assumption.
Qed.
