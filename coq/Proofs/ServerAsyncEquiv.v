(* C20: async_handle against handle.  The full statement is refuted by the faithful model
   (one witness left: the size gate of async_write, replayed on the real code by props/c20.py; the
   other three defects were repaired in /repo by fix: commits 2dcabb6 and 45bf06c and the model followed
   through its translated [shape]); outside the narrow class [known_class] the two handlers are equal --
   not only observably. *)
From Coq Require Import List String NArith Bool Lia Arith.
From FB Require Import Lib.Bytes Model.Server Model.ServerCmp Model.ServerAsync
                       Proofs.ServerPerform Proofs.ServerAsyncPerform Proofs.ServerAsyncHandlers.
Import ListNotations.
Local Open Scope N_scope.

(* ------------------------------------------------------------------ the known defect class *)
Definition oversize (h : hdr) : bool := MAX_BUFFER_SIZE + BUFFER_HEADER_SIZE <? h_len h.
Definition is_forget (h : hdr) : bool := (h_opcode h =? 2) || (h_opcode h =? 42).
Definition on_fusedev (k : transport) : bool := match k with FuseDev => true | Virtio => false end.

(* One disjunct per defect, each guarded by the bit of the [shape] that stands for it:
   D11c  the async gate refuses a reply capacity below an out header before dispatch (every opcode, also FORGET)
   D11a  the async gate answers an oversized FORGET / BATCH_FORGET with ENOMEM
   D11b  async_write refuses size > MAX_BUFFER_SIZE with ENOMEM before calling the filesystem
   D14   FuseDevWriter::async_commit re-sends the buffer of an unbuffered writer: an error reply through
         async_do_reply_error on the unsplit fusedev writer is followed by a second, stale 16-byte write *)
Definition known_class_gen (sh : shape) (cfg : config) (k : transport) (cap : N) (req : bytes) (fr : fsres) : bool :=
  match read_obj 40 req with
  | None => false
  | Some (hb, r) =>
    let h := parse_hdr hb in
    match cfg_remap cfg with
    | RemapFail => false
    | RemapOk _ _ =>
      (sh_gate_capacity sh && negb (oversize h) && (cap <? OUT_HDR))
      || (negb (sh_gate_exempts_forget sh) && oversize h && is_forget h)
      || (sh_write_gate sh && negb (oversize h) && (h_opcode h =? 16) && big_write r)
      || (negb (sh_commit_skips sh) && on_fusedev k && (OUT_HDR <=? cap)
          && is_unsplit_err (snd (fst (async_decide sh cfg req fr cap))))
    end
  end.

(* the code as it is (after 2dcabb6 and 45bf06c): one defect left, one disjunct.
   D11b  async_write refuses size > MAX_BUFFER_SIZE with ENOMEM before calling the filesystem *)
Definition known_class (cfg : config) (k : transport) (cap : N) (req : bytes) (fr : fsres) : bool :=
  match read_obj 40 req with
  | None => false
  | Some (hb, r) =>
    let h := parse_hdr hb in
    match cfg_remap cfg with
    | RemapFail => false
    | RemapOk _ _ => negb (oversize h) && (h_opcode h =? 16) && big_write r
    end
  end.

Lemma known_class_is_code_class cfg k cap req fr :
  known_class_gen code_shape cfg k cap req fr = known_class cfg k cap req fr.
Proof.
  unfold known_class_gen, known_class.
  destruct (read_obj 40 req) as [[hb r]|]; [|reflexivity].
  destruct (cfg_remap cfg); [|reflexivity].
  change (sh_gate_capacity code_shape) with false. change (sh_gate_exempts_forget code_shape) with true.
  change (sh_write_gate code_shape) with true. change (sh_commit_skips code_shape) with true.
  cbn [negb andb orb]. rewrite orb_false_r. reflexivity.
Qed.

(* ------------------------------------------------------------------ decide *)
Definition adec_to_sync (d : adecision * option N) : decision * option N :=
  (dec_to_sync (fst d), snd d).

Lemma decide_rel sh cfg req fr cap :
  names_answered sh = true -> async_expressible fr = true ->
  (forall hb r du dg, read_obj 40 req = Some (hb, r) -> cfg_remap cfg = RemapOk du dg ->
     (sh_gate_capacity sh && negb (oversize (parse_hdr hb)) && (cap <? OUT_HDR)) = false /\
     (negb (sh_gate_exempts_forget sh) && oversize (parse_hdr hb) && is_forget (parse_hdr hb)) = false /\
     (sh_write_gate sh && negb (oversize (parse_hdr hb)) && (h_opcode (parse_hdr hb) =? 16) && big_write r) = false) ->
  adec_to_sync (async_decide sh cfg req fr cap) = decide cfg req fr cap.
Proof.
  intros Hn Hx Hk. unfold async_decide, decide.
  destruct (read_obj 40 req) as [[hb r]|] eqn:E; [|reflexivity].
  destruct (cfg_remap cfg) as [du dg|] eqn:R; [|reflexivity].
  destruct (Hk hb r du dg eq_refl eq_refl) as [Hcap [Hfg Hwr]]. clear Hk.
  set (h := parse_hdr hb) in *.
  fold (oversize h). fold (is_forget h).
  destruct (oversize h) eqn:Ov.
  - rewrite andb_true_r in Hfg.
    destruct (is_forget h) eqn:Fg.
    + rewrite andb_true_r in Hfg. apply negb_false_iff in Hfg. rewrite Hfg. reflexivity.
    + rewrite andb_false_r. reflexivity.
  - cbn [negb] in Hcap, Hwr. rewrite andb_true_r in Hcap, Hwr. rewrite Hcap.
    destruct (h_opcode h =? 26) eqn:I.
    + destruct (do_init cfg h r fr) as [[cs a] m]. reflexivity.
    + assert (Hw : h_opcode h = 16 -> (sh_write_gate sh && big_write r) = false).
      { intro O. rewrite O in Hwr. cbn [N.eqb Pos.eqb] in Hwr. rewrite andb_true_r in Hwr. exact Hwr. }
      pose proof (async_handler_rel sh cfg h
                    ((h_uid h + du) mod 4294967296, (h_gid h + dg) mod 4294967296, h_pid h) r fr cap Hn Hx Hw) as A.
      unfold dec_to_sync in A.
      destruct (async_handler sh cfg h _ r fr cap) as [cs aa].
      destruct (handler cfg h _ r fr cap) as [cs' a'].
      cbn [fst snd] in A. inversion A; subst. reflexivity.
Qed.

(* ------------------------------------------------------------------ handle *)
Lemma known_false_parts sh cfg k cap req fr : known_class_gen sh cfg k cap req fr = false ->
  (forall hb r du dg, read_obj 40 req = Some (hb, r) -> cfg_remap cfg = RemapOk du dg ->
     (sh_gate_capacity sh && negb (oversize (parse_hdr hb)) && (cap <? OUT_HDR)) = false /\
     (negb (sh_gate_exempts_forget sh) && oversize (parse_hdr hb) && is_forget (parse_hdr hb)) = false /\
     (sh_write_gate sh && negb (oversize (parse_hdr hb)) && (h_opcode (parse_hdr hb) =? 16) && big_write r) = false) /\
  (k = Virtio \/ is_unsplit_err (snd (fst (async_decide sh cfg req fr cap))) = false \/ cap < 16 \/ sh_commit_skips sh = true).
Proof.
  unfold known_class_gen. intro H.
  destruct (read_obj 40 req) as [[hb r]|] eqn:E.
  - destruct (cfg_remap cfg) as [du dg|] eqn:R.
    + apply orb_false_elim in H. destruct H as [H H4].
      apply orb_false_elim in H. destruct H as [H H3].
      apply orb_false_elim in H. destruct H as [H1 H2].
      split.
      * intros hb' r' du' dg' E' _. inversion E'; subst. auto.
      * apply andb_false_elim in H4. destruct H4 as [H4|H4]; [|right; left; exact H4].
        apply andb_false_elim in H4. destruct H4 as [H4|H4].
        -- apply andb_false_elim in H4. destruct H4 as [H4|H4].
           ++ right; right; right. apply negb_false_iff. exact H4.
           ++ left. destruct k; [discriminate H4 | reflexivity].
        -- right; right; left. apply N.leb_gt in H4. unfold OUT_HDR in H4. exact H4.
    + split; [intros ? ? ? ? _ X; discriminate X|].
      right; left. unfold async_decide. rewrite E, R. reflexivity.
  - split; [intros ? ? ? ? X; discriminate X|].
    right; left. unfold async_decide. rewrite E. reflexivity.
Qed.

Theorem async_handle_gen_eq sh cfg k cap buf0 req fr :
  names_answered sh = true -> async_expressible fr = true -> known_class_gen sh cfg k cap req fr = false ->
  async_handle_gen sh cfg k cap buf0 req fr = handle cfg k cap req fr.
Proof.
  intros Hn Hx Hk. destruct (known_false_parts _ _ _ _ _ _ Hk) as [Hp Hu].
  pose proof (decide_rel sh cfg req fr cap Hn Hx Hp) as D.
  unfold async_handle_gen, handle.
  destruct (async_decide sh cfg req fr cap) as [[cs aa] m].
  destruct (decide cfg req fr cap) as [[cs' a'] m'].
  unfold adec_to_sync, dec_to_sync in D. cbn [fst snd] in D, Hu. inversion D; subst.
  rewrite aperform_eq; [reflexivity | exact Hu].
Qed.

(* the code as it is *)
Theorem async_handle_eq cfg k cap buf0 req fr :
  async_expressible fr = true -> known_class cfg k cap req fr = false ->
  async_handle cfg k cap buf0 req fr = handle cfg k cap req fr.
Proof.
  intros Hx Hk. apply async_handle_gen_eq; [reflexivity (* names_answered code_shape: both async name decoders answer EINVAL *)
                                          | exact Hx | rewrite known_class_is_code_class; exact Hk].
Qed.

(* the code after the three proposed patches: the class is empty and the full statement holds *)
Lemma known_class_fixed_empty cfg k cap req fr : known_class_gen fixed_shape cfg k cap req fr = false.
Proof.
  unfold known_class_gen. destruct (read_obj 40 req) as [[hb r]|]; [|reflexivity].
  destruct (cfg_remap cfg); reflexivity.
Qed.

Theorem async_handle_fixed_eq cfg k cap buf0 req fr :
  async_expressible fr = true ->
  async_handle_gen fixed_shape cfg k cap buf0 req fr = handle cfg k cap req fr.
Proof. intro Hx. apply async_handle_gen_eq; [reflexivity | exact Hx | apply known_class_fixed_empty]. Qed.

Definition C20_full_stmt : Prop :=
  forall cfg k cap buf0 req fr, async_expressible fr = true ->
    observable k (async_handle cfg k cap buf0 req fr) = observable k (handle cfg k cap req fr).

Theorem async_handle_observable_eq cfg k cap buf0 req fr :
  async_expressible fr = true -> known_class cfg k cap req fr = false ->
  observable k (async_handle cfg k cap buf0 req fr) = observable k (handle cfg k cap req fr).
Proof. intros Hx Hk. rewrite (async_handle_eq _ _ _ _ _ _ Hx Hk). reflexivity. Qed.

(* the async path keeps the C01 guarantee that needs no side condition *)
Theorem async_handle_no_panic cfg k cap buf0 req fr :
  o_panic (snd (fst (async_handle cfg k cap buf0 req fr))) = false.
Proof.
  unfold async_handle, async_handle_gen. destruct (async_decide code_shape cfg req fr cap) as [[cs a] m]. cbn [fst snd].
  apply async_perform_no_panic.
Qed.

(* ------------------------------------------------------------------ what the known class is, exactly *)
(* the capacity, the transport and the filesystem's answer are not part of it *)
Lemma known_class_only_request cfg k cap req fr k' cap' fr' :
  known_class cfg k cap req fr = known_class cfg k' cap' req fr'.
Proof. reflexivity. Qed.

Lemma find_ahandler_write sh : find_ahandler 16 (async_handlers sh) = Some (ah_write sh).
Proof. reflexivity. Qed.
Lemma find_handler_write : find_handler 16 handlers = Some (h_write 16).
Proof. reflexivity. Qed.

(* and it is no wider than the defect: on EVERY member the async handler stops after the id remap while the sync handler
   goes on to call write -- whatever the capacity, transport, buffer content and answer *)
Lemma known_class_differs cfg k cap buf0 req fr :
  known_class cfg k cap req fr = true ->
  List.length (fst (fst (async_handle cfg k cap buf0 req fr))) = 1%nat /\
  List.length (fst (fst (handle cfg k cap req fr))) = 2%nat.
Proof.
  unfold known_class. intro H.
  destruct (read_obj 40 req) as [[hb r]|] eqn:E; [|discriminate H].
  destruct (cfg_remap cfg) as [du dg|] eqn:R; [|discriminate H].
  apply andb_true_iff in H. destruct H as [H Hb].
  apply andb_true_iff in H. destruct H as [Hov Hop].
  apply negb_true_iff in Hov. unfold oversize in Hov. apply N.eqb_eq in Hop.
  unfold big_write in Hb.
  destruct (read_obj 40 r) as [[s r']|] eqn:E2; [|discriminate Hb].
  unfold async_handle, async_handle_gen, handle, async_decide, decide.
  rewrite E, R, Hov.
  change (sh_gate_capacity code_shape) with false. cbn [andb].
  rewrite Hop. change (16 =? 26) with false. cbv iota.
  unfold async_handler, handler. rewrite Hop, find_ahandler_write, find_handler_write.
  unfold ah_write, h_write, awith_obj, with_obj. rewrite E2.
  change (sh_write_gate code_shape) with true. cbn [andb]. rewrite Hb.
  split; reflexivity.
Qed.

(* ------------------------------------------------------------------ witnesses (each replayed on the code) *)
Definition cfg0 : config := {| cfg_minor := 33; cfg_remap := RemapOk 0 0; cfg_vu_req := false; cfg_fsopt_mask := 0 |}.
Definition hdr_bytes (len op unique nodeid : N) : bytes :=
  enc 4 len ++ enc 4 op ++ enc 8 unique ++ enc 8 nodeid ++ enc 16 0.

(* D11b: WRITE with size = MAX_BUFFER_SIZE + 1 *)
Definition w_write_req : bytes :=
  hdr_bytes 80 16 7 1 ++ enc 8 3 ++ enc 8 0 ++ enc 4 (1048576 + 1) ++ enc 4 0 ++ enc 8 0 ++ enc 4 0 ++ enc 4 0.
Lemma witness_write_size :
  observable Virtio (async_handle cfg0 Virtio 4096 [] w_write_req (FCount 0))
  <> observable Virtio (handle cfg0 Virtio 4096 w_write_req (FCount 0)).
Proof. intro H. vm_compute in H. discriminate H. Qed.

(* the inputs that used to witness the three repaired defects (oversized FORGET; FORGET without reply
   capacity; GETATTR error on fusedev) now behave alike on both paths *)
Definition w_forget_req : bytes := hdr_bytes (1048576 + 4097) 2 7 1 ++ enc 8 1.
Definition w_forget_nocap_req : bytes := hdr_bytes 48 2 7 1 ++ enc 8 1.
Definition w_getattr_req : bytes := hdr_bytes 56 3 7 1 ++ enc 16 0.
Lemma repaired_witnesses_agree :
  async_handle cfg0 Virtio 4096 [] w_forget_req FUnit = handle cfg0 Virtio 4096 w_forget_req FUnit /\
  async_handle cfg0 Virtio 0 [] w_forget_nocap_req FUnit = handle cfg0 Virtio 0 w_forget_nocap_req FUnit /\
  async_handle cfg0 FuseDev 4096 (repeat 165 16) w_getattr_req (FErr (Os 2)) = handle cfg0 FuseDev 4096 w_getattr_req (FErr (Os 2)).
Proof. repeat split; apply async_handle_eq; vm_compute; reflexivity. Qed.

Theorem full_refuted : ~ C20_full_stmt.
Proof.
  intro F. apply witness_write_size. apply F. reflexivity.
Qed.

(* the witness lies in the class, and the class is not everything: ordinary requests are outside it *)
Lemma witnesses_in_class :
  known_class cfg0 Virtio 4096 w_write_req (FCount 0) = true /\
  known_class cfg0 FuseDev 4096 w_write_req (FErr (Os 5)) = true.
Proof. vm_compute. auto. Qed.

Lemma class_nonvacuous :
  known_class cfg0 FuseDev 4096 w_getattr_req (FErr (Os 2)) = false /\
  known_class cfg0 Virtio 0 w_forget_nocap_req FUnit = false /\
  known_class cfg0 Virtio 4096 w_forget_req FUnit = false /\
  known_class cfg0 Virtio 4096 (hdr_bytes 80 16 7 1 ++ enc 8 3 ++ enc 8 0 ++ enc 4 1048576 ++ enc 4 0 ++ enc 8 0 ++ enc 4 0 ++ enc 4 0) (FCount 0) = false.
Proof. vm_compute. auto. Qed.

(* why the statement is restricted to [async_expressible]: a passthrough id returned by the sync open
   cannot be returned by the async one *)
Lemma passthrough_inexpressible :
  observable Virtio (async_handle cfg0 Virtio 4096 [] (hdr_bytes 48 14 7 1 ++ enc 8 0) (FOpen (Some 3) 0 (Some 9)))
  <> observable Virtio (handle cfg0 Virtio 4096 (hdr_bytes 48 14 7 1 ++ enc 8 0) (FOpen (Some 3) 0 (Some 9))).
Proof. intro H. vm_compute in H. discriminate H. Qed.
