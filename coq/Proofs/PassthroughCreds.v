(* C05: the serving thread's credentials after every request -- on every path, including every error
   path -- are what they were before (root with CAP_FSETID), in every configuration. *)
From Coq Require Import List NArith Bool Lia.
From FB Require Import Gen.Validators Model.Names Model.HostFs Model.Passthrough.
Import ListNotations.
Local Open Scope N_scope.

Definition ids_root (c : creds) : Prop := euid c = 0 /\ egid c = 0.

Lemma do_lookup_creds : forall s p n r s', do_lookup s p n = (r, s') -> p_creds s' = p_creds s.
Proof.
  intros s p n r s' H. unfold do_lookup in H.
  destruct (assoc p (p_inodes s)); [|inversion H; subst; reflexivity].
  destruct (lookup1 _ _ _ _); [|inversion H; subst; reflexivity].
  destruct (stat _ _); [|inversion H; subst; reflexivity].
  destruct (find_by_host _ _) as [[f d]|]; [inversion H; subst; reflexivity|].
  destruct (assoc _ (p_idmap s)); inversion H; subst; reflexivity.
Qed.

Lemma open_inode_creds : forall cf s i f r s', open_inode cf s i f = (r, s') -> p_creds s' = p_creds s.
Proof.
  intros cf s i f r s' H. unfold open_inode in H.
  repeat match type of H with
  | (match ?x with _ => _ end) = _ => destruct x
  | (if ?b then _ else _) = _ => destruct b
  end; inversion H; subst; reflexivity.
Qed.

Lemma insert_handle_creds : forall s hd k s', insert_handle s hd = (k, s') -> p_creds s' = p_creds s.
Proof. intros s hd k s' H. unfold insert_handle in H. inversion H; subst. reflexivity. Qed.

Lemma forget_one_creds : forall s i c, p_creds (forget_one s i c) = p_creds s.
Proof.
  intros s i c. unfold forget_one. destruct (i =? ROOT_ID); [reflexivity|].
  destruct (assoc i (p_inodes s)); reflexivity.
Qed.

Lemma get_data_creds : forall cf no s h i f r s', get_data cf no s h i f = (r, s') -> p_creds s' = p_creds s.
Proof.
  intros cf no s h i f r s' H. unfold get_data in H. destruct (negb no).
  - destruct (handle_get s h i); inversion H; subst; reflexivity.
  - destruct (open_inode cf s i f) as [[[hi fl]|e] s1] eqn:Ho; inversion H; subst; apply (open_inode_creds _ _ _ _ _ _ Ho).
Qed.

Lemma check_fd_flags_creds : forall cf s hid hd f hd' s', check_fd_flags cf s hid hd f = (hd', s') -> p_creds s' = p_creds s.
Proof.
  intros cf s hid hd f hd' s' H. unfold check_fd_flags in H.
  destruct (hd_flags hd =? f); [inversion H; subst; reflexivity|].
  destruct hid; inversion H; subst; reflexivity.
Qed.

Lemma entry_reply_creds : forall s p n rp io s', entry_reply (do_lookup s p n) = (rp, io, s') -> p_creds s' = p_creds s.
Proof.
  intros s p n rp io s' H. destruct (do_lookup s p n) as [[[f a]|e] s1] eqn:Hl; cbn in H; inversion H; subst;
    apply (do_lookup_creds _ _ _ _ _ Hl).
Qed.

(* set_creds(uid, gid) ... drop: from root back to root; from root without CAP_FSETID back to root ids *)
Lemma with_creds_root : forall A uid gid s (body : pstate -> res A * pstate) r s',
  (forall s0 r0 s1, body s0 = (r0, s1) -> p_creds s1 = p_creds s0) ->
  with_creds uid gid s body = (r, s') ->
  (p_creds s = root_creds -> p_creds s' = root_creds) /\ (ids_root (p_creds s) -> ids_root (p_creds s')).
Proof.
  intros A uid gid s body r s' Hk H. unfold with_creds in H.
  assert (Hgen : forall f, p_creds s = mkCreds 0 0 f ->
            euid (p_creds s') = 0 /\ egid (p_creds s') = 0 /\ (f = true -> fsetid (p_creds s') = true)).
  { intros f Hc. unfold restore_ids, sys_setresgid, sys_setresuid in H. rewrite Hc in H. cbn [euid egid fsetid] in H.
    destruct (gid =? 0) eqn:Hg; destruct (uid =? 0) eqn:Hu; cbn [N.eqb orb andb euid egid fsetid] in H;
      match type of H with context [body ?x] => destruct (body x) as [r0 s1] eqn:Hb end;
      inversion H; subst; cbn [p_creds with_creds_of];
      pose proof (Hk _ _ _ Hb) as Hs1; cbn in Hs1; rewrite Hs1; cbn; rewrite ?Hu, ?orb_true_r; cbn; rewrite ?Hu, ?orb_true_r; cbn; rewrite ?Hu; cbn; auto. }
  split.
  - intros Hc. destruct (Hgen true Hc) as [H1 [H2 H3]]. destruct (p_creds s') as [u g f]. cbn in *. subst. rewrite (H3 eq_refl). reflexivity.
  - intros [H1 H2]. destruct (p_creds s) as [u g f] eqn:Hc. cbn in H1, H2. subst.
    destruct (Hgen f eq_refl) as [H3 [H4 _]]. split; assumption.
Qed.

Lemma with_killpriv_root : forall A cond s (body : pstate -> A * pstate) r s',
  (forall s0 r0 s1, body s0 = (r0, s1) ->
     (p_creds s0 = root_creds -> p_creds s1 = root_creds) /\ (ids_root (p_creds s0) -> ids_root (p_creds s1))) ->
  with_killpriv cond s body = (r, s') -> p_creds s = root_creds -> p_creds s' = root_creds.
Proof.
  intros A cond s body r s' Hb H Hc. unfold with_killpriv in H. rewrite Hc in H. cbn [fsetid root_creds] in H.
  rewrite andb_true_r in H. destruct cond.
  - destruct (body (with_creds_of s (cap_drop_fsetid root_creds))) as [r0 s1] eqn:Hbb. inversion H; subst. cbn.
    destruct (Hb _ _ _ Hbb) as [_ Hids]. destruct (Hids (conj eq_refl eq_refl)) as [H1 H2].
    unfold cap_raise_fsetid. rewrite H1, H2. reflexivity.
  - destruct (Hb _ _ _ H) as [Hr _]. apply Hr. exact Hc.
Qed.

Lemma keeps_both : forall (s0 s1 : pstate), p_creds s1 = p_creds s0 ->
  (p_creds s0 = root_creds -> p_creds s1 = root_creds) /\ (ids_root (p_creds s0) -> ids_root (p_creds s1)).
Proof. intros s0 s1 H. rewrite H. auto. Qed.

Lemma create_then_lookup_creds : forall s uid gid parent n call rp io s',
  create_then_lookup s uid gid parent n call = (rp, io, s') -> p_creds s = root_creds -> p_creds s' = root_creds.
Proof.
  intros s uid gid parent n call rp io s' H Hc. unfold create_then_lookup in H.
  destruct (assoc parent (p_inodes s)) as [d|]; [|inversion H; subst; exact Hc].
  match type of H with context [with_creds uid gid s ?b] => destruct (with_creds uid gid s b) as [r s1] eqn:Hw end.
  assert (H1 : p_creds s1 = root_creds).
  { refine (proj1 (with_creds_root _ _ _ _ _ _ _ _ Hw) Hc).
    intros s0 r0 s2 Hb.
    destruct (call (p_creds s0) (p_host s0) (id_host d)) as [r1 h']. inversion Hb; subst. reflexivity. }
  destruct r; [|inversion H; subst; exact H1].
  rewrite (entry_reply_creds _ _ _ _ _ _ H). exact H1.
Qed.

Lemma setattr_size_creds : forall cf s inode hdo valid size r s',
  setattr_size cf s inode hdo valid size = (r, s') -> p_creds s = root_creds -> p_creds s' = root_creds.
Proof.
  intros cf s inode hdo valid size r s' H Hc. unfold setattr_size in H.
  refine (with_killpriv_root _ _ _ _ _ _ _ H Hc).
  intros s0 r0 s1 Hb. apply keeps_both. destruct hdo as [hd|].
  - destruct (acc_w (hd_acc hd)); [|inversion Hb; subst; reflexivity].
    destruct (sys_ftruncate (p_creds s0) (p_host s0) (hd_host hd) size). inversion Hb; subst. reflexivity.
  - destruct (open_inode cf s0 inode (O_NONBLOCK + O_RDWR)) as [[[hi fl]|e] s2] eqn:Ho.
    + destruct (sys_ftruncate (p_creds s2) (p_host s2) hi size). inversion Hb; subst. cbn. apply (open_inode_creds _ _ _ _ _ _ Ho).
    + inversion Hb; subst. apply (open_inode_creds _ _ _ _ _ _ Ho).
Qed.

Lemma do_open_creds : forall cf s inode flags ff rp s', do_open cf s inode flags ff = (rp, s') ->
  p_creds s = root_creds -> p_creds s' = root_creds.
Proof.
  intros cf s inode flags ff rp s' H Hc. unfold do_open in H.
  match type of H with context [with_killpriv ?c s ?b] => destruct (with_killpriv c s b) as [r s1] eqn:Hw end.
  assert (H1 : p_creds s1 = root_creds).
  { refine (with_killpriv_root _ _ _ _ _ _ _ Hw Hc). intros s0 r0 s2 Hb. apply keeps_both. apply (open_inode_creds _ _ _ _ _ _ Hb). }
  destruct r as [[hi fl]|e]; [|inversion H; subst; exact H1].
  destruct (insert_handle s1 (new_hdata inode hi fl flags)) as [k s2] eqn:Hi. inversion H; subst.
  rewrite (insert_handle_creds _ _ _ _ Hi). exact H1.
Qed.

Ltac inv4 H := inversion H; subst; clear H.

Theorem pstep_creds_restored : forall cf s q rp io ho s',
  p_creds s = root_creds -> pstep cf s q = (rp, io, ho, s') -> p_creds s' = root_creds.
Proof.
  intros cf s q rp io ho s' Hc H. unfold pstep in H. destruct q; cbv beta zeta in H.
  - (* lookup *)
    destruct (lookup_check n); [inv4 H; exact Hc|].
    destruct (entry_reply (do_lookup s parent n)) as [[rp0 io0] s0] eqn:He. inv4 H.
    rewrite (entry_reply_creds _ _ _ _ _ _ He). exact Hc.
  - inv4 H. rewrite forget_one_creds. exact Hc.
  - inv4 H. revert s Hc. induction l as [|p l IH]; intros s Hc; cbn [fold_left]; [exact Hc|]. apply IH. rewrite forget_one_creds. exact Hc.
  - destruct (do_getattr cf s inode handle); inv4 H; exact Hc.
  - (* setattr *)
    destruct (assoc inode (p_inodes s)) as [d|]; [|inv4 H; exact Hc].
    match type of H with context [match ?x with Ok hdo => _ | Err e => _ end] => destruct x as [hdo|e] end; [|inv4 H; exact Hc].
    match type of H with context [let '(r1, s1) := ?x in _] => destruct x as [r1 s1] eqn:H1 end.
    assert (C1 : p_creds s1 = root_creds).
    { destruct (has valid FATTR_MODE); [|inversion H1; subst; exact Hc].
      match type of H1 with context [sys_chmod ?c ?h ?i ?m] => destruct (sys_chmod c h i m) end. inversion H1; subst. exact Hc. }
    destruct r1; [|inv4 H; exact C1].
    match type of H with context [let '(r2, s2) := ?x in _] => destruct x as [r2 s2] eqn:H2 end.
    assert (C2 : p_creds s2 = root_creds).
    { destruct (has valid FATTR_UID || has valid FATTR_GID); [|inversion H2; subst; exact C1].
      match type of H2 with context [sys_chown ?c ?h ?i ?u ?g] => destruct (sys_chown c h i u g) end. inversion H2; subst. exact C1. }
    destruct r2; [|inv4 H; exact C2].
    match type of H with context [let '(r3, s3) := ?x in _] => destruct x as [r3 s3] eqn:H3 end.
    assert (C3 : p_creds s3 = root_creds).
    { destruct (has valid FATTR_SIZE); [|inversion H3; subst; exact C2]. apply (setattr_size_creds _ _ _ _ _ _ _ _ H3 C2). }
    destruct r3; [|inv4 H; exact C3].
    match type of H with context [let '(r4, s4) := ?x in _] => destruct x as [r4 s4] eqn:H4 end.
    assert (C4 : p_creds s4 = root_creds).
    { destruct (has valid FATTR_ATIME || has valid FATTR_MTIME); [|inversion H4; subst; exact C3].
      match type of H4 with context [sys_utimens ?h ?i ?a ?m] => destruct (sys_utimens h i a m) end. inversion H4; subst. exact C3. }
    destruct r4; [|inv4 H; exact C4].
    destruct (do_getattr cf s4 inode handle); inv4 H; exact C4.
  - (* mkdir *)
    destruct (validate cf n); [inv4 H; exact Hc|].
    match type of H with context [create_then_lookup ?a ?b ?c ?d ?e ?f] => destruct (create_then_lookup a b c d e f) as [[rp0 io0] s0] eqn:Hx end.
    inv4 H. apply (create_then_lookup_creds _ _ _ _ _ _ _ _ _ Hx Hc).
  - (* mknod *)
    destruct (validate cf n); [inv4 H; exact Hc|].
    match type of H with context [create_then_lookup ?a ?b ?c ?d ?e ?f] => destruct (create_then_lookup a b c d e f) as [[rp0 io0] s0] eqn:Hx end.
    inv4 H. apply (create_then_lookup_creds _ _ _ _ _ _ _ _ _ Hx Hc).
  - (* create *)
    destruct (validate cf n); [inv4 H; exact Hc|].
    destruct (assoc parent (p_inodes s)) as [d|]; [|inv4 H; exact Hc].
    match type of H with context [with_creds uid gid s ?b] => destruct (with_creds uid gid s b) as [r s1] eqn:Hw end.
    assert (C1 : p_creds s1 = root_creds).
    { refine (proj1 (with_creds_root _ _ _ _ _ _ _ _ Hw) Hc). intros s0 r0 s2 Hb.
      match type of Hb with context [sys_openat_creat_excl ?c ?h ?i ?nn ?f ?m] => destruct (sys_openat_creat_excl c h i nn f m) as [[i0|e0] h'] end.
      - inversion Hb; subst. reflexivity.
      - destruct ((e0 =? EEXIST) && negb _); inversion Hb; subst; reflexivity. }
    destruct r as [newf|e]; [|inv4 H; exact C1].
    destruct (do_lookup s1 parent n) as [[[f a]|e] s2] eqn:Hl; [|inv4 H; rewrite (do_lookup_creds _ _ _ _ _ Hl); exact C1].
    assert (C2 : p_creds s2 = root_creds) by (rewrite (do_lookup_creds _ _ _ _ _ Hl); exact C1).
    match type of H with context [let '(rf, s3) := ?x in _] => destruct x as [rf s3] eqn:H3 end.
    assert (C3 : p_creds s3 = root_creds).
    { destruct newf as [i0|]; [inversion H3; subst; exact C2|].
      refine (with_killpriv_root _ _ _ _ _ _ _ H3 C2). intros s0 r0 s4 Hb.
      refine (with_creds_root _ _ _ _ _ _ _ _ Hb). intros s5 r5 s6 Hb5. apply (open_inode_creds _ _ _ _ _ _ Hb5). }
    destruct rf as [[hi fl]|e]; [|inv4 H; rewrite forget_one_creds; exact C3].
    destruct (c_no_open cf); [inv4 H; exact C3|].
    destruct (insert_handle s3 (new_hdata f hi fl flags)) as [hk s4] eqn:Hi. inv4 H.
    rewrite (insert_handle_creds _ _ _ _ Hi). exact C3.
  - (* symlink *)
    destruct (validate cf n); [inv4 H; exact Hc|].
    match type of H with context [create_then_lookup ?a ?b ?c ?d ?e ?f] => destruct (create_then_lookup a b c d e f) as [[rp0 io0] s0] eqn:Hx end.
    inv4 H. apply (create_then_lookup_creds _ _ _ _ _ _ _ _ _ Hx Hc).
  - (* link *)
    destruct (validate cf n); [inv4 H; exact Hc|].
    destruct (assoc inode (p_inodes s)); [|inv4 H; exact Hc].
    destruct (assoc newparent (p_inodes s)); [|inv4 H; exact Hc].
    match type of H with context [sys_linkat ?c ?h ?a ?b ?nn] => destruct (sys_linkat c h a b nn) as [[u|e] h'] end; [|inv4 H; exact Hc].
    destruct (entry_reply (do_lookup (with_host s h') newparent n)) as [[rp0 io0] s0] eqn:He. inv4 H.
    rewrite (entry_reply_creds _ _ _ _ _ _ He). exact Hc.
  - (* unlink *)
    destruct (validate cf n); [inv4 H; exact Hc|].
    destruct (assoc parent (p_inodes s)); [|inv4 H; exact Hc].
    match type of H with context [sys_unlinkat ?c ?h ?a ?nn ?f] => destruct (sys_unlinkat c h a nn f) as [[u|e] h'] end; inv4 H; exact Hc.
  - (* rmdir *)
    destruct (validate cf n); [inv4 H; exact Hc|].
    destruct (assoc parent (p_inodes s)); [|inv4 H; exact Hc].
    match type of H with context [sys_unlinkat ?c ?h ?a ?nn ?f] => destruct (sys_unlinkat c h a nn f) as [[u|e] h'] end; inv4 H; exact Hc.
  - (* rename *)
    destruct (validate cf on); [inv4 H; exact Hc|]. destruct (validate cf nn); [inv4 H; exact Hc|].
    destruct (assoc olddir (p_inodes s)); [|inv4 H; exact Hc].
    destruct (assoc newdir (p_inodes s)); [|inv4 H; exact Hc].
    match type of H with context [sys_renameat2 ?c ?h ?a ?n1 ?b ?n2 ?f] => destruct (sys_renameat2 c h a n1 b n2 f) as [[u|e] h'] end; inv4 H; exact Hc.
  - (* open *)
    destruct (c_no_open cf); [inv4 H; exact Hc|].
    destruct (do_open cf s inode flags fuse_flags) as [rp0 s0] eqn:Ho.
    pose proof (do_open_creds _ _ _ _ _ _ _ Ho Hc). destruct rp0; inv4 H; assumption.
  - (* opendir *)
    destruct (c_no_opendir cf); [inv4 H; exact Hc|].
    destruct (do_open cf s inode (N.lor flags O_DIRECTORY) 0) as [rp0 s0] eqn:Ho.
    pose proof (do_open_creds _ _ _ _ _ _ _ Ho Hc). destruct rp0; inv4 H; assumption.
  - destruct (c_no_open cf); [inv4 H; exact Hc|]. destruct (handle_get s handle inode); inv4 H; exact Hc.
  - destruct (c_no_opendir cf); [inv4 H; exact Hc|]. destruct (handle_get s handle inode); inv4 H; exact Hc.
  - (* read *)
    destruct (get_data cf (c_no_open cf) s handle inode O_RDONLY) as [[[hid hd]|e] s1] eqn:Hg;
      pose proof (get_data_creds _ _ _ _ _ _ _ _ Hg) as C1; [|inv4 H; rewrite C1; exact Hc].
    destruct (check_fd_flags cf s1 hid hd flags) as [hd' s2] eqn:Hf. pose proof (check_fd_flags_creds _ _ _ _ _ _ _ Hf) as C2.
    destruct (negb (acc_r (hd_acc hd'))); [inv4 H; rewrite C2, C1; exact Hc|].
    destruct (hd_direct hd' && (0 <? size)); [inv4 H; rewrite C2, C1; exact Hc|].
    destruct (sys_pread (p_host s2) (hd_host hd') size off); inv4 H; rewrite C2, C1; exact Hc.
  - (* write *)
    destruct (get_data cf (c_no_open cf) s handle inode O_RDWR) as [[[hid hd]|e] s1] eqn:Hg;
      pose proof (get_data_creds _ _ _ _ _ _ _ _ Hg) as C1; [|inv4 H; rewrite C1; exact Hc].
    destruct (check_fd_flags cf s1 hid hd flags) as [hd' s2] eqn:Hf. pose proof (check_fd_flags_creds _ _ _ _ _ _ _ Hf) as C2.
    match type of H with context [with_killpriv ?c s2 ?b] => destruct (with_killpriv c s2 b) as [r s3] eqn:Hw end.
    assert (C3 : p_creds s3 = root_creds).
    { refine (with_killpriv_root _ _ _ _ _ _ _ Hw _); [|rewrite C2, C1; exact Hc].
      intros s0 r0 s4 Hb. apply keeps_both. destruct (negb (acc_w (hd_acc hd'))); [inversion Hb; subst; reflexivity|].
      destruct (hd_direct hd' && (0 <? len data)); [inversion Hb; subst; reflexivity|].
      destruct (sys_pwrite (p_creds s0) (p_host s0) (hd_host hd') (hd_append hd') off data). inversion Hb; subst. reflexivity. }
    destruct r; inv4 H; exact C3.
  - destruct (assoc inode (p_inodes s)); [|inv4 H; exact Hc]. destruct (sys_readlink (p_host s) (id_host i)); inv4 H; exact Hc.
  - destruct (negb (c_xattr cf)); [inv4 H; exact Hc|]. destruct (assoc inode (p_inodes s)); [|inv4 H; exact Hc].
    match type of H with context [sys_setxattr ?c ?h ?a ?nn ?v ?f] => destruct (sys_setxattr c h a nn v f) as [[u|e] h'] end; inv4 H; exact Hc.
  - destruct (negb (c_xattr cf)); [inv4 H; exact Hc|]. destruct (assoc inode (p_inodes s)); [|inv4 H; exact Hc].
    destruct (sys_getxattr (p_creds s) (p_host s) (id_host i) n size) as [[v|c]|e]; inv4 H; exact Hc.
  - destruct (negb (c_xattr cf)); [inv4 H; exact Hc|]. destruct (assoc inode (p_inodes s)); [|inv4 H; exact Hc].
    destruct (sys_listxattr (p_host s) (id_host i) size) as [[v|c]|e]; inv4 H; exact Hc.
  - destruct (negb (c_xattr cf)); [inv4 H; exact Hc|]. destruct (assoc inode (p_inodes s)); [|inv4 H; exact Hc].
    match type of H with context [sys_removexattr ?c ?h ?a ?nn] => destruct (sys_removexattr c h a nn) as [[u|e] h'] end; inv4 H; exact Hc.
  - (* fallocate *)
    destruct (get_data cf (c_no_open cf) s handle inode O_RDWR) as [[[hid hd]|e] s1] eqn:Hg;
      pose proof (get_data_creds _ _ _ _ _ _ _ _ Hg) as C1; [|inv4 H; rewrite C1; exact Hc].
    destruct (l =? 0); [inv4 H; rewrite C1; exact Hc|].
    destruct (negb (acc_w (hd_acc hd))); [inv4 H; rewrite C1; exact Hc|].
    match type of H with context [sys_fallocate ?c ?h ?a ?m ?o ?l] => destruct (sys_fallocate c h a m o l) as [[u|e] h'] end; inv4 H; cbn; rewrite C1; exact Hc.
  - (* lseek *)
    destruct (handle_get s handle inode) as [hd|]; [|inv4 H; exact Hc].
    destruct (stat (p_host s) (hd_host hd)); [|inv4 H; exact Hc].
    match type of H with context [match ?x with Some p => _ | None => _ end] => destruct x as [p|] end; [|inv4 H; exact Hc].
    destruct (9223372036854775807 <? p); inv4 H; exact Hc.
  - destruct (get_data cf (c_no_open cf) s handle inode O_RDONLY) as [[x|e] s1] eqn:Hg;
      pose proof (get_data_creds _ _ _ _ _ _ _ _ Hg) as C1; inv4 H; rewrite C1; exact Hc.
  - destruct (c_no_open cf); [inv4 H; exact Hc|]. destruct (handle_get s handle inode); inv4 H; exact Hc.
  - destruct (assoc inode (p_inodes s)); inv4 H; exact Hc.
  - destruct (assoc inode (p_inodes s)); [|inv4 H; exact Hc]. destruct (stat (p_host s) (id_host i)); inv4 H; exact Hc.
Qed.

Theorem run_creds_restored : forall cf qs r out rf, p_creds (r_p r) = root_creds -> run cf r qs = (out, rf) ->
  p_creds (r_p rf) = root_creds /\ Forall (fun o => snd o = root_creds) out.
Proof.
  intros cf qs. induction qs as [|q qs IH]; intros r out rf Hc H; cbn in H.
  - inversion H; subst. split; [exact Hc | constructor].
  - destruct (rstep cf r q) as [[rp c] r1] eqn:Hs. destruct (run cf r1 qs) as [out1 rf1] eqn:Hr. inversion H; subst.
    unfold rstep in Hs. destruct (pstep cf (r_p r) (resolve (r_is r) (r_hs r) q)) as [[[rp0 io] ho] s'] eqn:Hp.
    inversion Hs; subst. pose proof (pstep_creds_restored _ _ _ _ _ _ _ Hc Hp) as C1.
    destruct (IH (mkR s' _ _) _ _ C1 Hr) as [C2 Hall]. split; [exact C2|]. constructor; [exact C1 | exact Hall].
Qed.
