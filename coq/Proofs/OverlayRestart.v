(* C11: restart equivalence.  The faithful model refutes the full statement (two defect classes
   of do_mkdir / do_rm); witnesses below are replayed on the real code by props/c11.py. *)
From Coq Require Import List String NArith Bool.
From FB Require Import Model.Overlay Proofs.OverlayInv.
Import ListNotations.
Local Open Scope string_scope.
Local Open Scope N_scope.
Local Open Scope list_scope.

(* after any history (tree walks in between or not), a fresh instance over the same layer
   directories shows the tree the live instance shows (serialisation = tree up to child order) *)
Definition restart_same_view (u : option tree) (ls : list tree) (nx : N) (ops : list (bool * op)) : Prop :=
  let s := run_dumps ops (load_all (fresh u ls nx)) in
  ser_opt (view (load_all (restart s))) = ser_opt (view (load_all s)).
Definition C11_full : Prop := forall u ls nx ops, restart_same_view u ls nx ops.

(* D4: rmdir of a lower-only directory, then mkdir of the same name: the whiteout node is
   "upper only", so do_mkdir does not mark the new directory opaque *)
Definition w_upper := Dir 493 [] [].
Definition w_lower := Dir 493 [] [("d", Dir 493 [] [("old", File 1 420 [111] [])])].
Definition w_ops := [(true, OUnlink ["d"; "old"]); (true, ORmdir ["d"]); (true, OMkdir ["d"] 493)].
Lemma witness_mkdir :
  let s := run_dumps w_ops (load_all (fresh (Some w_upper) [w_lower] 1000)) in
  ser_opt (view (load_all s)) = "d1ed(d=d1ed(),)" /\
  ser_opt (view (load_all (restart s))) = "d1ed(d=d1ed(old=f1a4:6f,),)".
Proof. vm_compute. split; reflexivity. Qed.
(* second class: an upper file shadowing a lower file is unlinked without leaving a whiteout *)
Definition w2_upper := Dir 493 [] [("c", File 1 420 [117] [])].
Definition w2_lower := Dir 493 [] [("c", File 2 420 [108] [])].
Lemma witness_unlink :
  let s := run_dumps [(true, OUnlink ["c"])] (load_all (fresh (Some w2_upper) [w2_lower] 1000)) in
  ser_opt (view (load_all s)) = "d1ed()" /\
  ser_opt (view (load_all (restart s))) = "d1ed(c=f1a4:6c,)".
Proof. vm_compute. split; reflexivity. Qed.

Lemma restart_refuted : ~ C11_full.
Proof.
  intros H. pose proof (H (Some w_upper) [w_lower] 1000 w_ops) as H1.
  assert (E : String.eqb
                (ser_opt (view (load_all (restart (run_dumps w_ops (load_all (fresh (Some w_upper) [w_lower] 1000)))))))
                (ser_opt (view (load_all (run_dumps w_ops (load_all (fresh (Some w_upper) [w_lower] 1000)))))) = false)
    by (vm_compute; reflexivity).
  apply String.eqb_neq in E. apply E. exact H1.
Qed.
