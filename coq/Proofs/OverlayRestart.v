(* C11: restart equivalence.  The faithful model refutes the full statement (two defect classes
   of do_mkdir / do_rm); witnesses below are replayed on the real code by props/c11.py. *)
From Coq Require Import List String NArith Bool.
From FB Require Import Model.Overlay Proofs.OverlayInv.
Import ListNotations.
Local Open Scope string_scope.
Local Open Scope N_scope.
Local Open Scope list_scope.

(* after any history (tree walks in between or not), a fresh instance over the same layer
   directories shows the tree the live instance shows (serialisation = tree up to child order) *)
Definition restart_same_view (u : option tree) (ls : list tree) (nx : N) (ops : list (bool * op)) : Prop :=
  let s := run_dumps ops (load_all (fresh u ls nx)) in
  ser_opt (view (load_all (restart s))) = ser_opt (view (load_all s)).
Definition C11_full : Prop := forall u ls nx ops, restart_same_view u ls nx ops.

(* D4: rmdir of a lower-only directory, then mkdir of the same name: the whiteout node is
   "upper only", so do_mkdir does not mark the new directory opaque *)
Definition w_upper := Dir 493 [] [].
Definition w_lower := Dir 493 [] [("d", Dir 493 [] [("old", File 1 420 [111] [])])].
Definition w_ops := [(true, OUnlink ["d"; "old"]); (true, ORmdir ["d"]); (true, OMkdir ["d"] 493)].
Lemma witness_mkdir :
  let s := run_dumps w_ops (load_all (fresh (Some w_upper) [w_lower] 1000)) in
  ser_opt (view (load_all s)) = "d1ed(d=d1ed(),)" /\
  ser_opt (view (load_all (restart s))) = "d1ed(d=d1ed(old=f1a4:6f,),)".
Proof. vm_compute. split; reflexivity. Qed.
(* second class: an upper file shadowing a lower file is unlinked without leaving a whiteout *)
Definition w2_upper := Dir 493 [] [("c", File 1 420 [117] [])].
Definition w2_lower := Dir 493 [] [("c", File 2 420 [108] [])].
Lemma witness_unlink :
  let s := run_dumps [(true, OUnlink ["c"])] (load_all (fresh (Some w2_upper) [w2_lower] 1000)) in
  ser_opt (view (load_all s)) = "d1ed()" /\
  ser_opt (view (load_all (restart s))) = "d1ed(c=f1a4:6c,)".
Proof. vm_compute. split; reflexivity. Qed.

Lemma restart_refuted : ~ C11_full.
Proof.
  intros H. pose proof (H (Some w_upper) [w_lower] 1000 w_ops) as H1.
  assert (E : String.eqb
                (ser_opt (view (load_all (restart (run_dumps w_ops (load_all (fresh (Some w_upper) [w_lower] 1000)))))))
                (ser_opt (view (load_all (run_dumps w_ops (load_all (fresh (Some w_upper) [w_lower] 1000)))))) = false)
    by (vm_compute; reflexivity).
  apply String.eqb_neq in E. apply E. exact H1.
Qed.

(* ------------------------------------------------------------------ statements that are NOT proved in general *)
(* the narrow classes of the two reproduced defects, as triggers on the model state before a step *)
Definition known_step (s : state) (o : op) : bool :=
  match o, upper s with
  | OMkdir p _, Some t => match tget t p with Some Wh => true | _ => false end
  | OUnlink p, Some t | ORmdir p, Some t =>
      match tget t p with
      | Some Wh | None => false
      | Some _ => match merge (lowers s) with
                  | Some lv => match tget lv p with Some _ => true | None => false end
                  | None => false
                  end
      end
  | _, _ => false
  end.
Fixpoint known_run (ops : list (bool * op)) (s : state) : bool :=
  match ops with
  | [] => false
  | (d, o) :: r => known_step s o || known_run r (let s1 := run_op o s in if d then load_all s1 else s1)
  end.
(* restart equivalence outside the known classes: stated, checked by differential runs, not proved *)
Definition C11_partial_statement : Prop := forall u ls nx ops,
  known_run ops (load_all (fresh u ls nx)) = false -> restart_same_view u ls nx ops.

(* C10, per-operation refinement: every step changes the client's view as an ordinary file system
   step would, and returns the same result.  The faithful model refutes the full statement
   (copy-up drops extended attributes); stated here, proved only for the consequences in Props/C10.v *)
Definition res_same (a b : res string) : Prop :=
  match a, b with Ok x, Ok y => x = y | Err x, Err y => x = y | _, _ => False end.
Definition op_refines (u : option tree) (ls : list tree) (nx : N) (ops : list (bool * op)) (o : op) : Prop :=
  let s := run_dumps ops (load_all (fresh u ls nx)) in
  match view (load_all s) with
  | Some v =>
      let spec := fs_apply o (mkFs v (next_ino s)) in
      res_same (fst (step o (load_all s))) (fst spec) /\
      ser_opt (view (load_all (run_op o (load_all s)))) = ser SER (f_tree (snd spec))
  | None => True
  end.
Definition C10_op_refines_full : Prop := forall u ls nx ops o, u <> None -> op_refines u ls nx ops o.
Definition x_lower := Dir 493 [] [("f", File 1 420 [104] [("user.k", [118])])].
Lemma op_refines_refuted : ~ C10_op_refines_full.
Proof.
  intros H. specialize (H (Some (Dir 493 [] [])) [x_lower] 1000 [] (OChmod ["f"] 384)).
  assert (E : String.eqb
    (ser_opt (view (load_all (run_op (OChmod ["f"] 384) (load_all (run_dumps [] (load_all (fresh (Some (Dir 493 [] [])) [x_lower] 1000))))))))
    (ser SER (f_tree (snd (fs_apply (OChmod ["f"] 384) (mkFs (Dir 493 [] [("f", File 1 420 [104] [("user.k", [118])])]) 1000))))) = false)
    by (vm_compute; reflexivity).
  apply String.eqb_neq in E. apply E. clear E.
  assert (Hu : Some (Dir 493 [] []) <> None) by discriminate. specialize (H Hu).
  unfold op_refines in H. cbv zeta in H.
  assert (Ev : view (load_all (run_dumps [] (load_all (fresh (Some (Dir 493 [] [])) [x_lower] 1000)))) =
               Some (Dir 493 [] [("f", File 1 420 [104] [("user.k", [118])])])) by (vm_compute; reflexivity).
  rewrite Ev in H. destruct H as [_ H].
  assert (En : next_ino (run_dumps [] (load_all (fresh (Some (Dir 493 [] [])) [x_lower] 1000))) = 1000) by (vm_compute; reflexivity).
  rewrite En in H. exact H.
Qed.
