(* C11: restart equivalence (full statement as a Definition; proved for histories of read-only
   operations in Proofs/OverlayReadOnly.v) and the statement of per-operation refinement for C10. *)
From Coq Require Import List String NArith Bool.
From FB Require Import Model.Overlay Proofs.OverlayInv.
Import ListNotations.
Local Open Scope string_scope.
Local Open Scope N_scope.
Local Open Scope list_scope.

(* after any history (tree walks in between or not), a fresh instance over the same layer
   directories shows the tree the live instance shows (serialisation = tree up to child order) *)
Definition restart_same_view (u : option tree) (ls : list tree) (nx : N) (ops : list (bool * op)) : Prop :=
  let s := run_dumps ops (load_all (fresh u ls nx)) in
  ser_opt (view (load_all (restart s))) = ser_opt (view (load_all s)).
Definition C11_full : Prop := forall u ls nx ops, restart_same_view u ls nx ops.

(* The two histories that refuted C11_full before the fix: commits 7b264a9 / 2d8d33e in /repo
   (do_mkdir always makes a directory replacing a whiteout opaque; do_rm asks the parent's lower
   layers whether they hold the name).  On the repaired model they are instances of C11_full. *)
Definition w_upper := Dir 493 [] [].
Definition w_lower := Dir 493 [] [("d", Dir 493 [] [("old", File 1 420 [111] [])])].
Definition w_ops := [(true, OUnlink ["d"; "old"]); (true, ORmdir ["d"]); (true, OMkdir ["d"] 493)].
Lemma witness_mkdir :
  let s := run_dumps w_ops (load_all (fresh (Some w_upper) [w_lower] 1000)) in
  ser_opt (view (load_all s)) = "d1ed(d=d1ed(),)" /\
  ser_opt (view (load_all (restart s))) = "d1ed(d=d1ed(),)" /\
  upper s = Some (Dir 493 [] [("d", Dir 493 [("user.fuseoverlayfs.opaque", [121])] [])]).
Proof. vm_compute. repeat split; reflexivity. Qed.
Definition w2_upper := Dir 493 [] [("c", File 1 420 [117] [])].
Definition w2_lower := Dir 493 [] [("c", File 2 420 [108] [])].
Lemma witness_unlink :
  let s := run_dumps [(true, OUnlink ["c"])] (load_all (fresh (Some w2_upper) [w2_lower] 1000)) in
  ser_opt (view (load_all s)) = "d1ed()" /\
  ser_opt (view (load_all (restart s))) = "d1ed()" /\
  upper s = Some (Dir 493 [] [("c", Wh)]).
Proof. vm_compute. repeat split; reflexivity. Qed.

(* C10, per-operation refinement: every step changes the client's view as an ordinary file system
   step would, and returns the same result.  The faithful model refutes the full statement
   (copy-up drops extended attributes); stated here, proved only for the consequences in Props/C10.v *)
Definition res_same (a b : res string) : Prop :=
  match a, b with Ok x, Ok y => x = y | Err x, Err y => x = y | _, _ => False end.
Definition op_refines (u : option tree) (ls : list tree) (nx : N) (ops : list (bool * op)) (o : op) : Prop :=
  let s := run_dumps ops (load_all (fresh u ls nx)) in
  match view (load_all s) with
  | Some v =>
      let spec := fs_apply o (mkFs v (next_ino s)) in
      res_same (fst (step o (load_all s))) (fst spec) /\
      ser_opt (view (load_all (run_op o (load_all s)))) = ser SER (f_tree (snd spec))
  | None => True
  end.
Definition C10_op_refines_full : Prop := forall u ls nx ops o, u <> None -> op_refines u ls nx ops o.
Definition x_lower := Dir 493 [] [("f", File 1 420 [104] [("user.k", [118])])].
Lemma op_refines_refuted : ~ C10_op_refines_full.
Proof.
  intros H. specialize (H (Some (Dir 493 [] [])) [x_lower] 1000 [] (OChmod ["f"] 384)).
  assert (E : String.eqb
    (ser_opt (view (load_all (run_op (OChmod ["f"] 384) (load_all (run_dumps [] (load_all (fresh (Some (Dir 493 [] [])) [x_lower] 1000))))))))
    (ser SER (f_tree (snd (fs_apply (OChmod ["f"] 384) (mkFs (Dir 493 [] [("f", File 1 420 [104] [("user.k", [118])])]) 1000))))) = false)
    by (vm_compute; reflexivity).
  apply String.eqb_neq in E. apply E. clear E.
  assert (Hu : Some (Dir 493 [] []) <> None) by discriminate. specialize (H Hu).
  unfold op_refines in H. cbv zeta in H.
  assert (Ev : view (load_all (run_dumps [] (load_all (fresh (Some (Dir 493 [] [])) [x_lower] 1000)))) =
               Some (Dir 493 [] [("f", File 1 420 [104] [("user.k", [118])])])) by (vm_compute; reflexivity).
  rewrite Ev in H. destruct H as [_ H].
  assert (En : next_ino (run_dumps [] (load_all (fresh (Some (Dir 493 [] [])) [x_lower] 1000))) = 1000) by (vm_compute; reflexivity).
  rewrite En in H. exact H.
Qed.

(* A third history refutes C11_full on the current code: a client sets one of the overlay's own opaque
   markers on a merged directory.  sync_io.rs setxattr writes it to the upper directory and keeps
   the cached node ("TODO: recreate node since setxattr may made dir opaque"): the live instance goes
   on showing the lower children, a freshly started one hides them. *)
Definition w3_upper := Dir 493 [] [("d", Dir 493 [] [("n", File 1 420 [110] [])])].
Definition w3_lower := Dir 493 [] [("d", Dir 493 [] [("o", File 2 420 [111] [])])].
Definition w3_ops := [(true, OSetxattr ["d"] "user.overlay.opaque" [121])].
Lemma witness_opaque_marker :
  let s := run_dumps w3_ops (load_all (fresh (Some w3_upper) [w3_lower] 1000)) in
  ser_opt (view (load_all s)) = "d1ed(d=d1ed(n=f1a4:6e,o=f1a4:6f,),)" /\
  ser_opt (view (load_all (restart s))) = "d1ed(d=d1ed(n=f1a4:6e,),)" /\
  upper s = Some (Dir 493 [] [("d", Dir 493 [("user.overlay.opaque", [121])] [("n", File 1 420 [110] [])])]).
Proof. vm_compute. repeat split; reflexivity. Qed.
Theorem C11_full_refuted : ~ C11_full.
Proof.
  intros H. specialize (H (Some w3_upper) [w3_lower] 1000 w3_ops). unfold restart_same_view in H.
  destruct witness_opaque_marker as (A & B & _). cbv zeta in A, B, H. rewrite A, B in H. discriminate.
Qed.
