(* The pseudo tree survives save / restore: for every pseudo fs satisfying the tree invariant
   (children lists = the inodes with that parent, in increasing inode order; every parent present),
   restore_from_state of its saved state into a fresh PseudoFs yields a table with the same entry
   for every inode number and the same next_inode.  The invariant holds along every bounded
   history of mounts and of umounts that do not evict a pseudo directory that still has children. *)
From Coq Require Import List NArith Bool Lia.
From FB Require Import Model.Pseudo Gen.VfsTable Model.Vfs Model.Persist
  Proofs.VfsCodec Proofs.VfsInv Proofs.VfsRouting Proofs.PseudoWalk Proofs.VfsPersist.
Import ListNotations.
Local Open Scope N_scope.

(* ---------- strictly sorted lists ---------- *)
Fixpoint ssorted (l : list (N * N)) : Prop :=
  match l with [] => True | x :: r => (forall y, In y r -> fst x < fst y) /\ ssorted r end.

Lemma ssorted_unique : forall l1 l2, ssorted l1 -> ssorted l2 -> (forall x, In x l1 <-> In x l2) -> l1 = l2.
Proof.
  induction l1 as [|x r IH]; intros l2 S1 S2 E.
  - destruct l2 as [|y t]; [reflexivity|]. exfalso. apply (proj2 (E y)). left. reflexivity.
  - destruct l2 as [|y t]; [exfalso; apply (proj1 (E x)); left; reflexivity|].
    destruct S1 as [Hx Sr]. destruct S2 as [Hy St].
    assert (Exy : x = y).
    { destruct (proj1 (E x) (or_introl eq_refl)) as [H | H]; [symmetry; exact H|].
      destruct (proj2 (E y) (or_introl eq_refl)) as [H' | H']; [exact H'|].
      pose proof (Hy _ H). pose proof (Hx _ H'). lia. }
    subst y. f_equal. apply IH; try assumption.
    intros z. split; intros Hz.
    + destruct (proj1 (E z) (or_intror Hz)) as [H | H]; [|exact H]. subst z. pose proof (Hx _ Hz). lia.
    + destruct (proj2 (E z) (or_intror Hz)) as [H | H]; [|exact H]. subst z. pose proof (Hy _ Hz). lia.
Qed.

Definition key3 (x : N * N * N) : N := fst (fst x).
Fixpoint tsorted (l : list (N * N * N)) : Prop :=
  match l with [] => True | x :: r => (forall y, In y r -> key3 x < key3 y) /\ tsorted r end.

Lemma ins_props x : forall l, tsorted l -> (forall y, In y l -> key3 y <> key3 x) ->
  tsorted (ins_by_ino x l) /\ (forall z, In z (ins_by_ino x l) <-> z = x \/ In z l).
Proof.
  induction l as [|y r IH]; intros S D.
  - cbn. split; [split; [intros ? []|exact I]|]. intros z. split; [intros [H|[]]; left; auto|intros [H|[]]; left; auto].
  - cbn [ins_by_ino]. destruct S as [Hy Sr]. fold (key3 x) (key3 y).
    destruct (key3 x <? key3 y) eqn:E.
    + apply N.ltb_lt in E. split.
      * split; [|split; assumption]. intros z [Hz | Hz]; [subst; exact E|]. pose proof (Hy _ Hz). lia.
      * intros z. cbn [In]. split; [intros [H|H]; [left; auto|right; exact H]|intros [H|H]; [left; auto|right; exact H]].
    + apply N.ltb_ge in E. assert (Hne : key3 y <> key3 x) by (apply D; left; reflexivity).
      destruct (IH Sr (fun z Hz => D z (or_intror Hz))) as (S' & M). split.
      * split; [|exact S']. intros z Hz. apply M in Hz. destruct Hz as [-> | Hz]; [lia|apply Hy; exact Hz].
      * intros z. cbn [In]. rewrite M. split; [intros [H|[H|H]]; auto|intros [H|[H|H]]; auto].
Qed.

Lemma sort_props : forall l, NoDup (map key3 l) ->
  tsorted (sort_by_ino l) /\ (forall z, In z (sort_by_ino l) <-> In z l).
Proof.
  induction l as [|x r IH]; intros ND; [cbn; split; [exact I|tauto]|].
  inversion ND as [|? ? Hnin ND']; subst. destruct (IH ND') as (S & M).
  cbn [sort_by_ino fold_right]. fold (sort_by_ino r).
  destruct (ins_props x (sort_by_ino r) S) as (S' & M').
  - intros y Hy Hk. apply Hnin. apply M in Hy. rewrite <- Hk. apply in_map. exact Hy.
  - split; [exact S'|]. intros z. rewrite M', M. cbn. split; intros [H | H]; auto.
Qed.

Lemma kids_in j : forall l i nm, In (i, nm) (kids j l) <-> In (i, j, nm) l.
Proof.
  induction l as [|[[i0 p0] n0] r IH]; intros i nm; [cbn; tauto|].
  unfold kids in *. cbn [filter fst snd]. destruct (p0 =? j) eqn:E.
  - apply N.eqb_eq in E. subst p0. cbn [map In fst snd]. rewrite IH. split; intros [H | H]; auto; left; congruence.
  - apply N.eqb_neq in E. rewrite IH. cbn [In]. split; [auto|]. intros [H | H]; [inversion H; contradiction|exact H].
Qed.

Lemma kids_sorted j : forall l, tsorted l -> ssorted (kids j l).
Proof.
  induction l as [|[[i0 p0] n0] r IH]; intros S; [exact I|].
  destruct S as [Hx Sr]. unfold kids in *. cbn [filter fst snd]. destruct (p0 =? j) eqn:E; [|apply IH; exact Sr].
  cbn [map ssorted fst snd]. split; [|apply IH; exact Sr].
  intros [i nm] Hy. cbn [fst]. apply N.eqb_eq in E. subst p0.
  assert (In (i, j, nm) r) by (apply (kids_in j r); exact Hy). exact (Hx _ H).
Qed.

(* ---------- association lists without duplicate keys ---------- *)
Lemma aget_in {V} : forall (m : amap V) k v, aget k m = Some v -> In (k, v) m.
Proof.
  induction m as [|[k' v'] r IH]; intros k v H; [discriminate|]. cbn [aget] in H.
  destruct (k =? k') eqn:E; [apply N.eqb_eq in E; inversion H; subst; left; reflexivity|right; apply IH; exact H].
Qed.
Lemma in_aget {V} : forall (m : amap V) k v, NoDup (map fst m) -> In (k, v) m -> aget k m = Some v.
Proof.
  induction m as [|[k' v'] r IH]; intros k v ND H; [destruct H|].
  inversion ND as [|? ? Hnin ND']; subst. cbn [aget]. destruct H as [H | H].
  - inversion H; subst. rewrite N.eqb_refl. reflexivity.
  - destruct (k =? k') eqn:E; [|apply IH; assumption].
    apply N.eqb_eq in E. subst k'. exfalso. apply Hnin. change k with (fst (k, v)). apply in_map. exact H.
Qed.
Lemma adel_keys {V} k : forall (m : amap V) x, In x (map fst (adel k m)) -> In x (map fst m) /\ x <> k.
Proof.
  induction m as [|[k' v'] r IH]; intros x H; [destruct H|]. cbn [adel] in H. destruct (k =? k') eqn:E.
  - destruct (IH x H). split; [right; assumption|assumption].
  - cbn [map In fst] in H. destruct H as [<- | H]; [split; [left; reflexivity|apply N.eqb_neq in E; congruence]|].
    destruct (IH x H). split; [right; assumption|assumption].
Qed.
Lemma adel_nodup {V} k : forall (m : amap V), NoDup (map fst m) -> NoDup (map fst (adel k m)).
Proof.
  induction m as [|[k' v'] r IH]; intros ND; [constructor|]. inversion ND as [|? ? Hnin ND']; subst.
  cbn [adel]. destruct (k =? k'); [apply IH; exact ND'|]. cbn [map fst]. constructor; [|apply IH; exact ND'].
  intros H. apply Hnin. apply (adel_keys k r k' H).
Qed.
Lemma aset_nodup {V} k (v : V) m : NoDup (map fst m) -> NoDup (map fst (aset k v m)).
Proof.
  intros ND. unfold aset. cbn [map fst]. constructor; [|apply adel_nodup; exact ND].
  intros H. destruct (adel_keys k m k H) as [_ Hne]. contradiction.
Qed.

(* ---------- the saved inode list ---------- *)
Lemma save_in ps i p nm : NoDup (map fst (ps_inodes ps)) ->
  (In (i, p, nm) (save_inodes ps) <-> i <> ROOT_ID /\ exists pn, aget i (ps_inodes ps) = Some pn /\ pi_parent pn = p /\ pi_name pn = nm).
Proof.
  intros ND. unfold save_inodes. rewrite in_map_iff. split.
  - intros ([k pn] & E & Hin). apply filter_In in Hin. destruct Hin as [Hin Hf]. cbn [fst snd] in *.
    inversion E; subst. split; [apply negb_true_iff, N.eqb_neq in Hf; exact Hf|].
    exists pn. split; [apply in_aget; assumption|auto].
  - intros (Hne & pn & Hg & Hp & Hn). exists (i, pn). cbn [fst snd]. split; [congruence|].
    apply filter_In. split; [apply aget_in; exact Hg|]. cbn [fst]. apply negb_true_iff, N.eqb_neq. exact Hne.
Qed.

Lemma save_nodup ps : NoDup (map fst (ps_inodes ps)) -> NoDup (map key3 (save_inodes ps)).
Proof.
  unfold save_inodes. generalize (ps_inodes ps). intros l. induction l as [|[k pn] r IH]; intros ND; [constructor|].
  inversion ND as [|? ? Hnin ND']; subst. cbn [filter fst]. destruct (negb (k =? ROOT_ID)); [|apply IH; exact ND'].
  cbn [map]. unfold key3 at 1. cbn [fst]. constructor; [|apply IH; exact ND'].
  intros H. apply Hnin. rewrite in_map_iff in H. destruct H as ([[i p] nm] & E & Hin).
  rewrite in_map_iff in Hin. destruct Hin as ([k' pn'] & E' & Hin'). apply filter_In in Hin'. destruct Hin' as [Hin' _].
  cbn [fst snd] in E'. inversion E'; subst i p nm. unfold key3 in E. cbn [fst] in E. subst k. change k' with (fst (k', pn')). apply in_map. exact Hin'.
Qed.

(* ---------- the tree invariant ---------- *)
Record tree_ok (ps : pseudo) : Prop := mkTree {
  t_nodup : NoDup (map fst (ps_inodes ps));
  t_root : exists cs, aget ROOT_ID (ps_inodes ps) = Some (mkPi ROOT_ID root_name cs);
  t_parent : forall i pn, aget i (ps_inodes ps) = Some pn -> aget (pi_parent pn) (ps_inodes ps) <> None;
  t_sorted : forall j pn, aget j (ps_inodes ps) = Some pn -> ssorted (pi_children pn);
  t_exact : forall j pn, aget j (ps_inodes ps) = Some pn -> forall i nm,
      In (i, nm) (pi_children pn) <->
      (i <> ROOT_ID /\ exists pi, aget i (ps_inodes ps) = Some pi /\ pi_parent pi = j /\ pi_name pi = nm);
  t_names : forall j pn, aget j (ps_inodes ps) = Some pn -> NoDup (map snd (pi_children pn)) }.

(* children of j in the original = what the reconstruction appends to j *)
Lemma children_are_kids ps j pn : tree_ok ps -> aget j (ps_inodes ps) = Some pn ->
  pi_children pn = kids j (sort_by_ino (save_inodes ps)).
Proof.
  intros T Hj. destruct (sort_props (save_inodes ps) (save_nodup ps (t_nodup ps T))) as (S & M).
  apply ssorted_unique.
  - exact (t_sorted ps T j pn Hj).
  - apply kids_sorted. exact S.
  - intros [i nm]. rewrite kids_in, M, (save_in ps i j nm (t_nodup ps T)). apply (t_exact ps T j pn Hj).
Qed.

(* the fresh table built from the saved list *)
Lemma fold_fresh : forall (l : list (N * N * N)) t0 j, NoDup (map key3 l) ->
  aget j (fold_left (fun t x => let '(ino, parent, nm) := x in aset ino (mkPi parent nm []) t) l t0) =
  match find (fun x => key3 x =? j) l with
  | Some x => Some (mkPi (snd (fst x)) (snd x) [])
  | None => aget j t0
  end.
Proof.
  induction l as [|[[i p] nm] r IH]; intros t0 j ND; [reflexivity|].
  inversion ND as [|? ? Hnin ND']; subst. cbn [fold_left find]. change (key3 (i, p, nm)) with i in *.
  rewrite (IH _ j ND'). destruct (i =? j) eqn:E.
  - apply N.eqb_eq in E. subst j.
    destruct (find (fun x => key3 x =? i) r) as [x|] eqn:Ef.
    + exfalso. apply find_some in Ef. destruct Ef as [Hin Hk]. apply N.eqb_eq in Hk. apply Hnin. rewrite <- Hk. apply in_map. exact Hin.
    + rewrite aget_aset_same. reflexivity.
  - apply N.eqb_neq in E. destruct (find (fun x => key3 x =? j) r); [reflexivity|].
    apply aget_aset_other. congruence.
Qed.

Lemma find_save ps j : NoDup (map fst (ps_inodes ps)) ->
  find (fun x => key3 x =? j) (save_inodes ps) =
  (if j =? ROOT_ID then None else option_map (fun pn => (j, pi_parent pn, pi_name pn)) (aget j (ps_inodes ps))).
Proof.
  intros ND. destruct (find (fun x => key3 x =? j) (save_inodes ps)) as [[[i p] nm]|] eqn:Ef.
  - apply find_some in Ef. destruct Ef as [Hin Hk]. unfold key3 in Hk. cbn in Hk. apply N.eqb_eq in Hk. subst i.
    apply (save_in ps j p nm ND) in Hin. destruct Hin as (Hne & pn & Hg & Hp & Hn).
    assert (E : j =? ROOT_ID = false) by (apply N.eqb_neq; exact Hne). rewrite E, Hg. cbn. congruence.
  - destruct (j =? ROOT_ID) eqn:E; [reflexivity|]. apply N.eqb_neq in E.
    destruct (aget j (ps_inodes ps)) as [pn|] eqn:Hg; [|reflexivity]. exfalso.
    assert (Hin : In (j, pi_parent pn, pi_name pn) (save_inodes ps)).
    { apply (save_in ps j _ _ ND). split; [exact E|]. exists pn. auto. }
    pose proof (find_none _ _ Ef _ Hin) as Hk. unfold key3 in Hk. cbn in Hk. rewrite N.eqb_refl in Hk. discriminate.
Qed.

(* ---------- the round trip ---------- *)
Theorem pseudo_roundtrip : forall ps st, tree_ok ps ->
  st_inodes st = save_inodes ps -> st_next_inode st = ps_next ps ->
  exists ps', ps_restore ps_new st = Ok ps' /\ ps_next ps' = ps_next ps /\
              forall j, aget j (ps_inodes ps') = aget j (ps_inodes ps).
Proof.
  intros ps st T Hi Hn. unfold ps_restore. cbn [ps_new ps_inodes aget]. rewrite N.eqb_refl. rewrite Hi, Hn.
  pose proof (t_nodup ps T) as ND. pose proof (save_nodup ps ND) as NDs.
  destruct (sort_props (save_inodes ps) NDs) as (S & M).
  set (fresh := fold_left (fun t x => let '(ino, parent, nm) := x in aset ino (mkPi parent nm []) t) (save_inodes ps) []).
  set (tbl := aset ROOT_ID (mkPi ROOT_ID root_name []) fresh).
  assert (Htbl : forall j, aget j tbl = if j =? ROOT_ID then Some (mkPi ROOT_ID root_name [])
                                         else option_map (fun pn => mkPi (pi_parent pn) (pi_name pn) []) (aget j (ps_inodes ps))).
  { intros j. unfold tbl. rewrite aget_aset. destruct (j =? ROOT_ID) eqn:E; [reflexivity|].
    unfold fresh. rewrite (fold_fresh _ [] j NDs), (find_save ps j ND), E.
    destruct (aget j (ps_inodes ps)); reflexivity. }
  destruct (connect_spec (sort_by_ino (save_inodes ps)) tbl) as (tbl' & Ec & Hs).
  { intros [[i p] nm] Hin. apply M in Hin. apply (save_in ps i p nm ND) in Hin. destruct Hin as (Hne & pn & Hg & Hp & _).
    cbn [fst snd]. rewrite !Htbl. split.
    - assert (E : i =? ROOT_ID = false) by (apply N.eqb_neq; exact Hne). rewrite E, Hg. discriminate.
    - destruct (p =? ROOT_ID); [discriminate|]. pose proof (t_parent ps T i pn Hg) as Hpar. rewrite Hp in Hpar.
      destruct (aget p (ps_inodes ps)); [discriminate|contradiction]. }
  rewrite Ec. cbn [bind]. eexists. split; [reflexivity|]. cbn [ps_next ps_inodes]. split; [reflexivity|].
  intros j. rewrite Hs, Htbl. destruct (j =? ROOT_ID) eqn:E.
  - apply N.eqb_eq in E. subst j. destruct (t_root ps T) as (cs & Hr). rewrite Hr. cbn [option_map]. unfold add_kids. cbn.
    rewrite <- (children_are_kids ps ROOT_ID _ T Hr). reflexivity.
  - destruct (aget j (ps_inodes ps)) as [pn|] eqn:Hg; [|reflexivity]. cbn [option_map]. unfold add_kids. cbn.
    rewrite <- (children_are_kids ps j pn T Hg). destruct pn; reflexivity.
Qed.

(* ---------- the invariant along histories ---------- *)
Lemma tree_new : tree_ok ps_new.
Proof.
  unfold ps_new. constructor; cbn [ps_inodes].
  - cbn. constructor; [intros []|constructor].
  - exists []. reflexivity.
  - intros i pn. cbn. destruct (i =? ROOT_ID); [|discriminate]. intros H. inversion H. cbn. discriminate.
  - intros j pn. cbn. destruct (j =? ROOT_ID); [|discriminate]. intros H. inversion H. exact I.
  - intros j pn. cbn. destruct (j =? ROOT_ID) eqn:Ej; [|discriminate]. intros H. inversion H. cbn [pi_children].
    intros i nm. split; [intros []|]. intros (Hne & pi & Hg & Hp & _). cbn in Hg.
    destruct (i =? ROOT_ID) eqn:Ei; [apply N.eqb_eq in Ei; contradiction|discriminate].
  - intros j pn. cbn. destruct (j =? ROOT_ID); [|discriminate]. intros H. inversion H. constructor.
Qed.

Lemma find_child_none k : forall cs, find_child k cs = None -> ~ In k (map snd cs).
Proof.
  induction cs as [|[i n] r IH]; intros H; [intros []|]. cbn [find_child] in H. destruct (n =? k) eqn:E; [discriminate|].
  apply N.eqb_neq in E. cbn [map snd In]. intros [Hc | Hc]; [contradiction|exact (IH H Hc)].
Qed.

Lemma ssorted_snoc : forall l x, ssorted l -> (forall y, In y l -> fst y < fst x) -> ssorted (l ++ [x]).
Proof.
  induction l as [|a r IH]; intros x S H; [cbn; split; [intros ? []|exact I]|].
  destruct S as [Ha Sr]. cbn [app ssorted]. split.
  - intros y Hy. apply in_app_or in Hy. destruct Hy as [Hy | [<- | []]]; [apply Ha; exact Hy|apply H; left; reflexivity].
  - apply IH; [exact Sr|]. intros y Hy. apply H. right. exact Hy.
Qed.

Lemma NoDup_app_snoc {A} (l : list A) x : NoDup l -> ~ In x l -> NoDup (l ++ [x]).
Proof.
  induction l as [|a r IH]; intros ND Hn; [cbn; constructor; [intros []|constructor]|].
  inversion ND as [|? ? Ha ND']; subst. cbn [app]. constructor.
  - intros H. apply in_app_or in H. destruct H as [H | [H | []]]; [contradiction|]. apply Hn. left. symmetry. exact H.
  - apply IH; [exact ND'|]. intros H. apply Hn. right. exact H.
Qed.

Lemma create_tree s cur pn k s1 ino : tree_ok s -> keys_lt s -> ps_next s < two56 ->
  aget cur (ps_inodes s) = Some pn -> find_child k (pi_children pn) = None ->
  ps_create s cur pn k = (s1, ino) -> tree_ok s1.
Proof.
  intros T KL Hb Hcur Hnf H. unfold ps_create in H. inversion H; subst s1 ino. clear H.
  set (ino := ps_next s). set (new := mkPi cur k []).
  set (pn' := mkPi (pi_parent pn) (pi_name pn) (pi_children pn ++ [(ino, k)])).
  assert (Hfresh : aget ino (ps_inodes s) = None).
  { destruct (aget ino (ps_inodes s)) as [x|] eqn:E; [|reflexivity]. pose proof (KL _ _ E). unfold ino in *. lia. }
  assert (Hne : cur <> ino) by (intros E; rewrite E in Hcur; congruence).
  assert (Hino1 : ino <> ROOT_ID).
  { destruct (t_root s T) as (cs & Hr). intros E. rewrite E in Hfresh. congruence. }
  assert (G : forall j, aget j (aset cur pn' (aset ino new (ps_inodes s))) =
                        if j =? cur then Some pn' else if j =? ino then Some new else aget j (ps_inodes s)).
  { intros j. rewrite !aget_aset. reflexivity. }
  (* an entry of the new table has the parent and name of ... *)
  assert (PN : forall i pi, aget i (aset cur pn' (aset ino new (ps_inodes s))) = Some pi ->
             (i = ino /\ pi = new) \/ (i <> ino /\ exists po, aget i (ps_inodes s) = Some po /\ pi_parent pi = pi_parent po /\ pi_name pi = pi_name po /\
                                        (i <> cur -> pi = po) /\ (i = cur -> pi = pn'))).
  { intros i pi. rewrite G. destruct (i =? cur) eqn:E1.
    - apply N.eqb_eq in E1. subst i. intros Hx. inversion Hx; subst pi. right. split; [exact Hne|]. exists pn. cbn. repeat split; try reflexivity; try assumption. intros Hc; contradiction.
    - destruct (i =? ino) eqn:E2.
      + apply N.eqb_eq in E2. intros Hx. inversion Hx. left. auto.
      + apply N.eqb_neq in E1, E2. intros Hx. right. split; [exact E2|]. exists pi. repeat split; try assumption; try reflexivity. intros Hc; contradiction. }
  constructor; cbn [ps_inodes].
  - apply aset_nodup, aset_nodup, (t_nodup s T).
  - destruct (t_root s T) as (cs & Hr). rewrite G. destruct (ROOT_ID =? cur) eqn:E.
    + apply N.eqb_eq in E. subst cur. rewrite Hr in Hcur. inversion Hcur; subst pn. eexists. reflexivity.
    + assert (E2 : ROOT_ID =? ino = false) by (apply N.eqb_neq; congruence). rewrite E2. exists cs. exact Hr.
  - intros i pi Hi. destruct (PN i pi Hi) as [[-> ->] | (Hni & po & Ho & Hp & _)].
    + cbn [pi_parent new]. rewrite G, N.eqb_refl. discriminate.
    + rewrite Hp, G. pose proof (t_parent s T i po Ho) as Hpar.
      destruct (pi_parent po =? cur); [discriminate|]. destruct (pi_parent po =? ino); [discriminate|exact Hpar].
  - intros j pj Hj. destruct (PN j pj Hj) as [[-> ->] | (Hni & po & Ho & _ & _ & Hoth & Hcu)].
    + exact I.
    + destruct (N.eq_dec j cur) as [-> | Hjc].
      * rewrite (Hcu eq_refl). cbn [pi_children pn']. rewrite Hcur in Ho. inversion Ho; subst po.
        apply ssorted_snoc; [exact (t_sorted s T cur pn Hcur)|].
        intros [i nm] Hy. cbn [fst]. apply (t_exact s T cur pn Hcur) in Hy. destruct Hy as (_ & pi & Hg & _).
        pose proof (KL _ _ Hg). unfold ino. exact H.
      * rewrite (Hoth Hjc). exact (t_sorted s T j po Ho).
  - intros j pj Hj i nm. destruct (PN j pj Hj) as [[-> ->] | (Hni & po & Ho & _ & _ & Hoth & Hcu)].
    + (* the new directory has no children: nobody has it as parent *)
      cbn [pi_children new]. split; [intros []|]. intros (Hne1 & pi & Hg & Hp & _). exfalso.
      destruct (PN i pi Hg) as [[-> ->] | (Hni & po & Ho & Hpp & _)].
      * cbn in Hp. congruence.
      * rewrite Hpp in Hp. pose proof (t_parent s T i po Ho) as Hpar. rewrite Hp, Hfresh in Hpar. contradiction.
    + assert (Hold : forall i nm, In (i, nm) (pi_children po) <->
                       i <> ROOT_ID /\ exists pi, aget i (ps_inodes s) = Some pi /\ pi_parent pi = j /\ pi_name pi = nm)
        by (apply (t_exact s T j po Ho)).
      assert (Hchild : In (i, nm) (pi_children pj) <-> In (i, nm) (pi_children po) \/ (j = cur /\ i = ino /\ nm = k)).
      { destruct (N.eq_dec j cur) as [-> | Hjc].
        - rewrite (Hcu eq_refl). cbn [pi_children pn']. rewrite Hcur in Ho. inversion Ho; subst po.
          rewrite in_app_iff. cbn [In]. split; [intros [H | [H | []]]; [left; exact H|inversion H; right; auto]|].
          intros [H | (_ & -> & ->)]; [left; exact H|right; left; reflexivity].
        - rewrite (Hoth Hjc). split; [auto|]. intros [H | (Hc & _)]; [exact H|contradiction]. }
      rewrite Hchild, Hold. split.
      * intros [(Hn1 & pi & Hg & Hp & Hnm) | (-> & -> & ->)].
        -- split; [exact Hn1|]. assert (Hi_ino : i <> ino) by (intros E; rewrite E in Hg; congruence).
           destruct (N.eq_dec i cur) as [-> | Hic].
           ++ exists pn'. rewrite G, N.eqb_refl. rewrite Hcur in Hg. inversion Hg; subst pi. cbn. auto.
           ++ exists pi. rewrite G. assert (E1 : i =? cur = false) by (apply N.eqb_neq; exact Hic).
              assert (E2 : i =? ino = false) by (apply N.eqb_neq; exact Hi_ino). rewrite E1, E2. auto.
        -- split; [exact Hino1|]. exists new. rewrite G. assert (E1 : ino =? cur = false) by (apply N.eqb_neq; congruence).
           rewrite E1, N.eqb_refl. cbn. auto.
      * intros (Hn1 & pi & Hg & Hp & Hnm). destruct (PN i pi Hg) as [[-> ->] | (Hni2 & po2 & Ho2 & Hpp & Hnn & _)].
        -- cbn in Hp, Hnm. right. auto.
        -- left. split; [exact Hn1|]. exists po2. rewrite <- Hpp, <- Hnn. auto.
  - intros j pj Hj. destruct (PN j pj Hj) as [[-> ->] | (Hni & po & Ho & _ & _ & Hoth & Hcu)]; [constructor|].
    destruct (N.eq_dec j cur) as [-> | Hjc].
    + rewrite (Hcu eq_refl). cbn [pi_children pn']. rewrite Hcur in Ho. inversion Ho; subst po.
      rewrite map_app. cbn [map snd]. apply NoDup_app_snoc; [exact (t_names s T cur pn Hcur)|apply find_child_none; exact Hnf].
    + rewrite (Hoth Hjc). exact (t_names s T j po Ho).
Qed.

(* ---------- evicting a pseudo directory that has no children ---------- *)
Lemma rfn_spec : forall cs nm ino, NoDup (map snd cs) -> In (ino, nm) cs ->
  exists cs', remove_first_named nm cs = Some cs' /\ (forall x, In x cs' <-> In x cs /\ x <> (ino, nm)).
Proof.
  induction cs as [|[i n] r IH]; intros nm ino ND Hin; [destruct Hin|].
  inversion ND as [|? ? Hnin ND']; subst. cbn [remove_first_named]. destruct (n =? nm) eqn:E.
  - apply N.eqb_eq in E. subst n.
    assert (Hhead : (i, nm) = (ino, nm)).
    { destruct Hin as [H | H]; [exact H|]. exfalso. apply Hnin. change nm with (snd (ino, nm)). apply in_map. exact H. }
    inversion Hhead; subst i. exists r. split; [reflexivity|]. intros x. split.
    + intros Hx. split; [right; exact Hx|]. intros ->. apply Hnin. change nm with (snd (ino, nm)). apply in_map. exact Hx.
    + intros [[Hx | Hx] Hne]; [symmetry in Hx; contradiction|exact Hx].
  - apply N.eqb_neq in E. destruct Hin as [H | H]; [inversion H; contradiction|].
    destruct (IH nm ino ND' H) as (r' & Er & Hr). rewrite Er. exists ((i, n) :: r'). split; [reflexivity|].
    intros x. cbn [In]. rewrite Hr. split.
    + intros [Hx | [Hx Hne]]; [split; [left; exact Hx|]|split; [right; exact Hx|exact Hne]].
      subst x. intros Hc. inversion Hc. contradiction.
    + intros [[Hx | Hx] Hne]; [left; exact Hx|right; split; assumption].
Qed.

Lemma rfn_keeps : forall cs nm cs', remove_first_named nm cs = Some cs' ->
  (ssorted cs -> ssorted cs') /\ (NoDup (map snd cs) -> NoDup (map snd cs')).
Proof.
  induction cs as [|[i n] r IH]; intros nm cs' H; [discriminate|]. cbn [remove_first_named] in H.
  destruct (n =? nm).
  - inversion H; subst. split; [intros [_ S]; exact S|intros ND; inversion ND; assumption].
  - destruct (remove_first_named nm r) as [r'|] eqn:Er; [|discriminate]. inversion H; subst cs'.
    destruct (IH nm r' Er) as (A & B). split.
    + intros [Hx S]. cbn [ssorted]. split; [|exact (A S)]. intros y Hy. apply Hx. eapply remove_first_named_sub; eassumption.
    + intros ND. inversion ND as [|? ? Hnin ND']; subst. cbn [map snd]. constructor; [|exact (B ND')].
      intros Hc. apply Hnin. rewrite in_map_iff in *. destruct Hc as (x & Ex & Hx). exists x. split; [exact Ex|].
      eapply remove_first_named_sub; eassumption.
Qed.

Lemma evict_tree s ino pn s' : tree_ok s -> aget ino (ps_inodes s) = Some pn -> pi_children pn = [] ->
  ps_evict s ino = Ok s' -> tree_ok s'.
Proof.
  intros T Hino Hleaf. unfold ps_evict. rewrite Hino.
  destruct (ino =? pi_parent pn) eqn:Eroot; [intros H; inversion H; subst; exact T|].
  apply N.eqb_neq in Eroot.
  destruct (aget (pi_parent pn) (ps_inodes s)) as [par|] eqn:Hpar; [|discriminate].
  assert (Hino1 : ino <> ROOT_ID).
  { intros ->. destruct (t_root s T) as (cs & Hr). rewrite Hr in Hino. inversion Hino; subst pn. cbn in Eroot. contradiction. }
  assert (Hchild : In (ino, pi_name pn) (pi_children par)).
  { apply (t_exact s T _ par Hpar). split; [exact Hino1|]. exists pn. auto. }
  destruct (rfn_spec _ _ _ (t_names s T _ par Hpar) Hchild) as (cs & Er & Hcs). rewrite Er.
  destruct (rfn_keeps _ _ _ Er) as (Ksorted & Knames).
  set (par' := mkPi (pi_parent par) (pi_name par) cs).
  remember (aset (pi_parent pn) par' (ps_inodes s)) as tbl eqn:Et.
  intros H. inversion H; subst s'. clear H.
  assert (G : forall j, aget j (adel ino tbl) = if j =? ino then None else if j =? pi_parent pn then Some par' else aget j (ps_inodes s)).
  { intros j. rewrite aget_adel. destruct (j =? ino); [reflexivity|]. subst tbl. rewrite aget_aset. reflexivity. }
  (* nobody has the evicted directory as parent *)
  assert (Nochild : forall i pi, aget i (ps_inodes s) = Some pi -> i <> ROOT_ID -> pi_parent pi <> ino).
  { intros i pi Hi Hn1 Hp. assert (Hc : In (i, pi_name pi) (pi_children pn)) by (apply (t_exact s T ino pn Hino); split; [exact Hn1|]; exists pi; auto).
    rewrite Hleaf in Hc. destruct Hc. }
  assert (PN : forall i pi, aget i (adel ino tbl) = Some pi -> i <> ino /\
             exists po, aget i (ps_inodes s) = Some po /\ pi_parent pi = pi_parent po /\ pi_name pi = pi_name po /\
                        (i <> pi_parent pn -> pi = po) /\ (i = pi_parent pn -> pi = par')).
  { intros i pi. rewrite G. destruct (i =? ino) eqn:E1; [discriminate|]. apply N.eqb_neq in E1.
    destruct (i =? pi_parent pn) eqn:E2.
    - apply N.eqb_eq in E2. subst i. intros Hx. inversion Hx; subst pi. split; [exact E1|]. exists par. cbn. repeat split; try reflexivity; try assumption. intros Hc; contradiction.
    - apply N.eqb_neq in E2. intros Hx. split; [exact E1|]. exists pi. repeat split; try assumption; try reflexivity. intros Hc; contradiction. }
  constructor; cbn [ps_inodes].
  - apply adel_nodup. subst tbl. apply aset_nodup. exact (t_nodup s T).
  - destruct (t_root s T) as (cs0 & Hr). rewrite G. assert (E1 : ROOT_ID =? ino = false) by (apply N.eqb_neq; congruence). rewrite E1.
    destruct (ROOT_ID =? pi_parent pn) eqn:E2; [|exists cs0; exact Hr].
    apply N.eqb_eq in E2. rewrite <- E2 in Hpar. rewrite Hr in Hpar. inversion Hpar; subst par. eexists. reflexivity.
  - intros i pi Hi. destruct (PN i pi Hi) as (Hni & po & Ho & Hp & _). rewrite Hp, G.
    pose proof (t_parent s T i po Ho) as Hex.
    destruct (pi_parent po =? ino) eqn:E1.
    + exfalso. apply N.eqb_eq in E1. destruct (N.eq_dec i ROOT_ID) as [-> | Hn1].
      * destruct (t_root s T) as (cs0 & Hr). rewrite Hr in Ho. inversion Ho; subst po. cbn in E1. congruence.
      * exact (Nochild i po Ho Hn1 E1).
    + destruct (pi_parent po =? pi_parent pn); [discriminate|exact Hex].
  - intros j pj Hj. destruct (PN j pj Hj) as (Hni & po & Ho & _ & _ & Hoth & Hcu).
    destruct (N.eq_dec j (pi_parent pn)) as [-> | Hjc].
    + rewrite (Hcu eq_refl). cbn [pi_children par']. apply Ksorted. exact (t_sorted s T _ par Hpar).
    + rewrite (Hoth Hjc). exact (t_sorted s T j po Ho).
  - intros j pj Hj i nm. destruct (PN j pj Hj) as (Hnj & po & Ho & _ & _ & Hoth & Hcu).
    assert (Hold : In (i, nm) (pi_children po) <->
                   i <> ROOT_ID /\ exists pi, aget i (ps_inodes s) = Some pi /\ pi_parent pi = j /\ pi_name pi = nm)
      by (apply (t_exact s T j po Ho)).
    assert (Hchildren : In (i, nm) (pi_children pj) <-> In (i, nm) (pi_children po) /\ (i, nm) <> (ino, pi_name pn)).
    { destruct (N.eq_dec j (pi_parent pn)) as [-> | Hjc].
      - rewrite (Hcu eq_refl). cbn [pi_children par']. rewrite Hpar in Ho. inversion Ho; subst po. apply Hcs.
      - rewrite (Hoth Hjc). split; [|intros [H _]; exact H]. intros Hc. split; [exact Hc|]. intros Heq. inversion Heq; subst i nm.
        apply Hold in Hc. destruct Hc as (_ & pi & Hg & Hp & _). rewrite Hino in Hg. inversion Hg; subst pi. congruence. }
    rewrite Hchildren, Hold. split.
    + intros [(Hn1 & pi & Hg & Hp & Hnm) Hne]. split; [exact Hn1|].
      assert (Hi_ino : i <> ino).
      { intros ->. rewrite Hino in Hg. inversion Hg; subst pi. apply Hne. rewrite Hnm. reflexivity. }
      destruct (N.eq_dec i (pi_parent pn)) as [-> | Hic].
      * exists par'. rewrite G. assert (E1 : pi_parent pn =? ino = false) by (apply N.eqb_neq; congruence).
        rewrite E1, N.eqb_refl. rewrite Hpar in Hg. inversion Hg; subst pi. cbn. auto.
      * exists pi. rewrite G. assert (E1 : i =? ino = false) by (apply N.eqb_neq; exact Hi_ino).
        assert (E2 : i =? pi_parent pn = false) by (apply N.eqb_neq; exact Hic). rewrite E1, E2. auto.
    + intros (Hn1 & pi & Hg & Hp & Hnm). destruct (PN i pi Hg) as (Hni & po2 & Ho2 & Hpp & Hnn & _).
      split; [split; [exact Hn1|]; exists po2; rewrite <- Hpp, <- Hnn; auto|].
      intros Heq. inversion Heq. contradiction.
  - intros j pj Hj. destruct (PN j pj Hj) as (Hnj & po & Ho & _ & _ & Hoth & Hcu).
    destruct (N.eq_dec j (pi_parent pn)) as [-> | Hjc].
    + rewrite (Hcu eq_refl). cbn [pi_children par']. apply Knames. exact (t_names s T _ par Hpar).
    + rewrite (Hoth Hjc). exact (t_names s T j po Ho).
Qed.

Lemma mount_walk_tree : forall cs s cur s' i, tree_ok s -> keys_lt s -> ps_next s + N.of_nat (length cs) <= two56 ->
  ps_mount_walk s cur cs = Ok (s', i) -> tree_ok s' /\ keys_lt s'.
Proof.
  induction cs as [|c r IH]; intros s cur s' i T KL Hb H.
  - cbn in H. inversion H; subst. auto.
  - cbn [ps_mount_walk] in H. cbn [length] in Hb. rewrite Nat2N.inj_succ in Hb.
    destruct (aget cur (ps_inodes s)) as [pn|] eqn:Hc; [|discriminate].
    destruct c as [|k].
    + destruct (aget (pi_parent pn) (ps_inodes s)); [|discriminate]. apply (IH s (pi_parent pn) s' i T KL); [lia|exact H].
    + destruct (find_child k (pi_children pn)) as [ci|] eqn:Hf.
      * destruct (aget ci (ps_inodes s)); [|discriminate]. apply (IH s ci s' i T KL); [lia|exact H].
      * destruct (ps_create s cur pn k) as [s1 ino] eqn:Hcr.
        assert (Hlt : ps_next s < two56) by lia.
        destruct (create_props s cur pn k s1 ino KL Hlt Hc Hf Hcr) as (_ & KL1 & Hn1 & _).
        pose proof (create_tree s cur pn k s1 ino T KL Hlt Hc Hf Hcr) as T1.
        apply (IH s1 ino s' i T1 KL1); [lia|exact H].
Qed.

(* bounded histories of a Vfs that keeps its pseudo directories (remove_pseudo_root not set: the default) *)
Inductive kreach : vfs -> Prop :=
| K_new : forall o, kreach (vfs_new o false)
| K_mount : forall s bid p map a s' r evs, kreach s ->
    ps_next (v_ps s) + N.of_nat (length (p_comps p)) <= two56 ->
    vfs_mount s bid p map a = (s', r, evs) -> kreach s'
| K_umount : forall s p s' r evs, kreach s -> vfs_umount s p = (s', r, evs) -> kreach s'
| K_init : forall s o e s' r evs, kreach s -> vfs_init s o e = (s', r, evs) -> kreach s'
| K_destroy : forall s s' evs, kreach s -> vfs_destroy s = (s', evs) -> kreach s'.

Lemma insert_mount_tree s bid e idx p s' r : tree_ok (v_ps s) -> keys_lt (v_ps s) ->
  ps_next (v_ps s) + N.of_nat (length (p_comps p)) <= two56 -> insert_mount s bid e idx p = (s', r) ->
  tree_ok (v_ps s') /\ keys_lt (v_ps s') /\ v_rm s' = v_rm s.
Proof.
  intros T KL Hb. unfold insert_mount, ps_mount. destruct (p_rooted p); [|intros H; inversion H; subst; auto].
  destruct (ps_mount_walk (v_ps s) ROOT_ID (p_comps p)) as [[ps' inode]| |] eqn:Em;
    [|intros H; inversion H; subst; auto|intros H; inversion H; subst; auto].
  destruct (mount_walk_tree _ _ _ _ _ T KL Hb Em) as (T' & KL').
  destruct (convert_entry (with_ps s ps') idx (e_ino e) e); intros H; inversion H; subst; cbn; auto.
Qed.

Lemma vfs_init_rm s o e : v_rm (fst (fst (vfs_init s o e))) = v_rm s.
Proof.
  unfold vfs_init. destruct (v_init s); [reflexivity|].
  remember (sb_in_order 256 0 (v_sb s)) as bs eqn:Hbs. clear Hbs.
  destruct (o_no_open (v_opts s)); destruct (o_no_opendir (v_opts s)); cbv beta iota zeta;
  destruct bs; try destruct (negb (e =? 0)); reflexivity.
Qed.
Lemma vfs_destroy_rm s : v_rm (fst (vfs_destroy s)) = v_rm s.
Proof.
  unfold vfs_destroy. remember (sb_in_order 256 0 (v_sb s)) as bs eqn:Hbs. clear Hbs. destruct (v_init s); reflexivity.
Qed.

Theorem kreach_tree s : kreach s -> tree_ok (v_ps s) /\ keys_lt (v_ps s) /\ v_rm s = false.
Proof.
  induction 1 as [o| s bid p map a s' r evs _ IH Hb Hm | s p s' r evs _ IH Hu | s o e s' r evs _ IH Hi | s s' evs _ IH Hd].
  - cbn. split; [apply tree_new|]. split; [apply (proj1 ps_ok_new)|reflexivity].
  - destruct IH as (T & KL & Hrm). unfold vfs_mount in Hm.
    destruct (negb (ma_err a =? 0)); [inversion Hm; subst; auto|].
    destruct (VFS_MAX_INO <? ma_max a); [inversion Hm; subst; auto|].
    destruct (v_init s && negb (ma_init_err a =? 0)); [inversion Hm; subst; auto|].
    destruct (allocate_fs_idx s) as [[i| |] nx]; try (inversion Hm; subst; cbn; auto).
    set (s2 := with_maps (with_next s nx) (match map with Some m => aset i m (v_maps (with_next s nx)) | None => adel i (v_maps (with_next s nx)) end)) in *.
    assert (Hps : v_ps s2 = v_ps s) by reflexivity.
    assert (Hrm2 : v_rm s2 = v_rm s) by reflexivity.
    destruct (insert_mount s2 bid (root_entry_of a) i p) as [s3 r3] eqn:Ei.
    destruct (insert_mount_tree s2 bid (root_entry_of a) i p s3 r3) as (T3 & KL3 & Hrm3); try (rewrite Hps; assumption); [exact Ei|].
    destruct r3; inversion Hm; subst; cbn [with_maps v_ps v_rm]; (split; [exact T3|split; [exact KL3|congruence]]).
  - destruct IH as (T & KL & Hrm). unfold vfs_umount in Hu. rewrite Hrm in Hu.
    destruct (ps_path_walk (v_ps s) p) as [[inode|]| |]; try (inversion Hu; subst; auto).
    destruct (ps_parent (v_ps s) inode); try (inversion Hu; subst; auto).
    destruct (aget inode (v_mps s)); inversion Hu; subst; cbn; auto.
  - destruct IH as (T & KL & Hrm). pose proof (vfs_init_ps s o e) as E. pose proof (vfs_init_rm s o e) as E2.
    rewrite Hi in E, E2. cbn [fst] in E, E2. rewrite E, E2. auto.
  - destruct IH as (T & KL & Hrm). pose proof (vfs_destroy_ps s) as E. pose proof (vfs_destroy_rm s) as E2.
    rewrite Hd in E, E2. cbn [fst] in E, E2. rewrite E, E2. auto.
Qed.

(* everything the pseudo fs answers depends on the table only through lookups by inode number *)
Definition same_table (a b : pseudo) : Prop := forall j, aget j (ps_inodes a) = aget j (ps_inodes b).

Lemma ps_walk_same a b : same_table a b -> forall cs cur, ps_walk a cur cs = ps_walk b cur cs.
Proof.
  intros E. induction cs as [|c r IH]; intros cur; [reflexivity|]. cbn [ps_walk]. rewrite (E cur).
  destruct (aget cur (ps_inodes b)) as [pn|]; [|reflexivity]. destruct c as [|k].
  - rewrite (E (pi_parent pn)). destruct (aget (pi_parent pn) (ps_inodes b)); [apply IH|reflexivity].
  - destruct (find_child k (pi_children pn)) as [ci|]; [|reflexivity]. rewrite (E ci).
    destruct (aget ci (ps_inodes b)); [apply IH|reflexivity].
Qed.
Lemma ps_answers_same a b : same_table a b ->
  (forall p, ps_path_walk a p = ps_path_walk b p) /\
  (forall parent nm, ps_lookup a parent nm = ps_lookup b parent nm) /\
  (forall ino, ps_getattr a ino = ps_getattr b ino) /\
  (forall ino size off, ps_readdir a ino size off = ps_readdir b ino size off) /\
  (forall ino, ps_parent a ino = ps_parent b ino).
Proof.
  intros E. repeat split.
  - intros p. unfold ps_path_walk. destruct (p_rooted p); [apply ps_walk_same; exact E|reflexivity].
  - intros parent nm. unfold ps_lookup. rewrite (E parent). reflexivity.
  - intros ino. unfold ps_getattr. rewrite (E ino). reflexivity.
  - intros ino size off. unfold ps_readdir. rewrite (E ino). reflexivity.
  - intros ino. unfold ps_parent. rewrite (E ino). reflexivity.
Qed.

(* the round trip at the Vfs level: for every bounded history of a Vfs that keeps its pseudo directories, restoring
   its snapshot into ANY freshly constructed Vfs succeeds and yields the same pseudo table and counters *)
Theorem vfs_pseudo_roundtrip : forall s o rm, kreach s ->
  exists t', vfs_restore (vfs_new o rm) (vfs_save s) = (t', Ok tt) /\
             same_table (v_ps t') (v_ps s) /\ ps_next (v_ps t') = ps_next (v_ps s) /\ v_next t' = v_next s.
Proof.
  intros s o rm K. destruct (kreach_tree s K) as (T & _ & _).
  destruct (pseudo_roundtrip (v_ps s) (vfs_save s) T eq_refl eq_refl) as (ps' & Er & Hn & Hs).
  unfold vfs_restore. cbn [v_ps vfs_new]. rewrite Er. eexists. split; [reflexivity|].
  cbn [with_ps v_ps v_next]. repeat split; assumption.
Qed.

Lemma ex_kreach : exists s, kreach s /\ aget 4 (ps_inodes (v_ps s)) <> None.
Proof.
  exists ex_two. split.
  - unfold ex_two. eapply K_mount; [eapply K_mount; [apply K_new| |apply triple_eta]| |apply triple_eta]; vm_compute; discriminate.
  - vm_compute. discriminate.
Qed.

(* ---------- the same with remove_pseudo_root, as long as an evicted mount point has no pseudo children
   (i.e. no mount path runs through another mount point: nested mounts are unsupported by the Vfs) ---------- *)
Definition evicts_leaf (s : vfs) (p : path) : Prop :=
  v_rm s = true -> forall inode pn, ps_path_walk (v_ps s) p = Ok (Some inode) -> aget inode (v_mps s) <> None ->
    aget inode (ps_inodes (v_ps s)) = Some pn -> pi_children pn = [].

Inductive lreach : vfs -> Prop :=
| L_new : forall o rm, lreach (vfs_new o rm)
| L_mount : forall s bid p map a s' r evs, lreach s ->
    ps_next (v_ps s) + N.of_nat (length (p_comps p)) <= two56 ->
    vfs_mount s bid p map a = (s', r, evs) -> lreach s'
| L_umount : forall s p s' r evs, lreach s -> evicts_leaf s p -> vfs_umount s p = (s', r, evs) -> lreach s'
| L_init : forall s o e s' r evs, lreach s -> vfs_init s o e = (s', r, evs) -> lreach s'
| L_destroy : forall s s' evs, lreach s -> vfs_destroy s = (s', evs) -> lreach s'.

Theorem lreach_tree s : lreach s -> tree_ok (v_ps s) /\ ps_ok (v_ps s).
Proof.
  induction 1 as [o rm| s bid p map a s' r evs _ IH Hb Hm | s p s' r evs _ IH Hl Hu | s o e s' r evs _ IH Hi | s s' evs _ IH Hd].
  - cbn. split; [apply tree_new|apply ps_ok_new].
  - destruct IH as (T & OK). pose proof OK as (KL & _ & _). unfold vfs_mount in Hm.
    destruct (negb (ma_err a =? 0)); [inversion Hm; subst; auto|].
    destruct (VFS_MAX_INO <? ma_max a); [inversion Hm; subst; auto|].
    destruct (v_init s && negb (ma_init_err a =? 0)); [inversion Hm; subst; auto|].
    destruct (allocate_fs_idx s) as [[i| |] nx]; try (inversion Hm; subst; cbn; auto).
    set (s2 := with_maps (with_next s nx) (match map with Some m => aset i m (v_maps (with_next s nx)) | None => adel i (v_maps (with_next s nx)) end)) in *.
    assert (Hps : v_ps s2 = v_ps s) by reflexivity.
    destruct (insert_mount s2 bid (root_entry_of a) i p) as [s3 r3] eqn:Ei.
    destruct (insert_mount_tree s2 bid (root_entry_of a) i p s3 r3) as (T3 & _ & _); try (rewrite Hps; assumption); [exact Ei|].
    assert (OK3 : ps_ok (v_ps s3)) by (eapply insert_mount_ps; [rewrite Hps; exact OK|rewrite Hps; exact Hb|exact Ei]).
    destruct r3; inversion Hm; subst; cbn [with_maps v_ps]; auto.
  - destruct IH as (T & OK). unfold vfs_umount in Hu. unfold evicts_leaf in Hl.
    destruct (ps_path_walk (v_ps s) p) as [[inode|]| |] eqn:Ew; try (inversion Hu; subst; auto).
    destruct (ps_parent (v_ps s) inode) eqn:Epar; try (inversion Hu; subst; auto).
    destruct (aget inode (v_mps s)) eqn:Em; try (inversion Hu; subst; auto).
    destruct (v_rm s) eqn:Erm.
    + destruct (ps_evict (v_ps s) inode) as [ps'| |] eqn:Ee; try (inversion Hu; subst; auto).
      inversion Hu; subst. cbn [v_ps]. split; [|eapply evict_ok; eassumption].
      unfold ps_parent in Epar. destruct (aget inode (ps_inodes (v_ps s))) as [pn|] eqn:Hpn; [|discriminate].
      eapply evict_tree; try eassumption. apply (Hl eq_refl inode pn eq_refl); [congruence|exact Hpn].
    + inversion Hu; subst. cbn [v_ps]. auto.
  - pose proof (vfs_init_ps s o e) as E. rewrite Hi in E. cbn [fst] in E. rewrite E. exact IH.
  - pose proof (vfs_destroy_ps s) as E. rewrite Hd in E. cbn [fst] in E. rewrite E. exact IH.
Qed.

Theorem vfs_pseudo_roundtrip_rm : forall s o rm, lreach s ->
  exists t', vfs_restore (vfs_new o rm) (vfs_save s) = (t', Ok tt) /\
             same_table (v_ps t') (v_ps s) /\ ps_next (v_ps t') = ps_next (v_ps s) /\ v_next t' = v_next s.
Proof.
  intros s o rm L. destruct (lreach_tree s L) as (T & _).
  destruct (pseudo_roundtrip (v_ps s) (vfs_save s) T eq_refl eq_refl) as (ps' & Er & Hn & Hs).
  unfold vfs_restore. cbn [v_ps vfs_new]. rewrite Er. eexists. split; [reflexivity|].
  cbn [with_ps v_ps v_next]. repeat split; assumption.
Qed.

(* non-vacuity: mount /n1, umount it with remove_pseudo_root (evicting the leaf), mount /n2/n3 *)
Definition ex_rm : vfs :=
  let s0 := vfs_new default_opts true in
  let s1 := fst (fst (vfs_mount s0 10 (mkPath true [CNorm 1]) None (mkMA 0 1 0 0 0 1000 0))) in
  let s2 := fst (fst (vfs_umount s1 (mkPath true [CNorm 1]))) in
  fst (fst (vfs_mount s2 11 (mkPath true [CNorm 2; CNorm 3]) None (mkMA 0 1 0 0 0 1000 0))).
Lemma ex_lreach : lreach ex_rm /\ aget 2 (ps_inodes (v_ps ex_rm)) = None /\ aget 4 (ps_inodes (v_ps ex_rm)) <> None.
Proof.
  split.
  - unfold ex_rm. eapply L_mount; [eapply L_umount; [eapply L_mount; [apply L_new| |apply triple_eta]| |apply triple_eta]| |apply triple_eta].
    + vm_compute. discriminate.
    + intros _ inode pn Hw _ Hp. vm_compute in Hw. inversion Hw; subst inode. vm_compute in Hp. inversion Hp. reflexivity.
    + vm_compute. discriminate.
  - vm_compute. split; [reflexivity|discriminate].
Qed.
