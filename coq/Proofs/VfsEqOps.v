(* Observational equality of Vfs states is preserved by every bookkeeping operation (mount, over-mount, umount with
   and without eviction, init, destroy, restore_mount), which also return the same results and make the same backend
   calls; hence by every step of a history that is not a save/restore. *)
From Coq Require Import List NArith Bool Lia.
From FB Require Import Model.Pseudo Gen.VfsTable Model.Vfs Model.Persist Model.VfsRun Model.VfsLive
  Proofs.VfsInv Proofs.VfsPersist Proofs.VfsEq.
Import ListNotations.
Local Open Scope N_scope.

(* ---------- association maps ---------- *)
Lemma aset_ext {V} k (v : V) m1 m2 : (forall j, aget j m1 = aget j m2) -> forall j, aget j (aset k v m1) = aget j (aset k v m2).
Proof. intros E j. rewrite !aget_aset. destruct (j =? k); [reflexivity|apply E]. Qed.
Lemma adel_ext {V} k (m1 m2 : amap V) : (forall j, aget j m1 = aget j m2) -> forall j, aget j (adel k m1) = aget j (adel k m2).
Proof. intros E j. rewrite !aget_adel. destruct (j =? k); [reflexivity|apply E]. Qed.

(* ---------- the pseudo fs ---------- *)
Definition ps_rel (a b : pseudo) : Prop := ps_next a = ps_next b /\ tbl_eq a b.

Definition orel {A} (R : A -> A -> Prop) (x y : outcome A) : Prop :=
  match x, y with Ok a, Ok b => R a b | Err e, Err e' => e = e' | Panic, Panic => True | _, _ => False end.

Lemma ps_walk_cong a b : tbl_eq a b -> forall cs cur, ps_walk a cur cs = ps_walk b cur cs.
Proof.
  intros E. induction cs as [|c r IH]; intros cur; [reflexivity|]. cbn [ps_walk]. rewrite (E cur).
  destruct (aget cur (ps_inodes b)) as [pn|]; [|reflexivity]. destruct c as [|k].
  - rewrite (E (pi_parent pn)). destruct (aget (pi_parent pn) (ps_inodes b)); [apply IH|reflexivity].
  - destruct (find_child k (pi_children pn)) as [ci|]; [|reflexivity]. rewrite (E ci).
    destruct (aget ci (ps_inodes b)); [apply IH|reflexivity].
Qed.
Lemma ps_path_walk_cong a b p : tbl_eq a b -> ps_path_walk a p = ps_path_walk b p.
Proof. intros E. unfold ps_path_walk. destruct (p_rooted p); [apply ps_walk_cong; exact E|reflexivity]. Qed.
Lemma ps_parent_cong a b i : tbl_eq a b -> ps_parent a i = ps_parent b i.
Proof. intros E. unfold ps_parent. rewrite (E i). reflexivity. Qed.

Lemma ps_mount_walk_cong : forall cs a b cur, ps_rel a b ->
  orel (fun x y => ps_rel (fst x) (fst y) /\ snd x = snd y) (ps_mount_walk a cur cs) (ps_mount_walk b cur cs).
Proof.
  induction cs as [|c r IH]; intros a b cur [Hn E]; [cbn; split; [split; assumption|reflexivity]|].
  cbn [ps_mount_walk]. rewrite (E cur). destruct (aget cur (ps_inodes b)) as [pn|]; [|exact I]. destruct c as [|k].
  - rewrite (E (pi_parent pn)). destruct (aget (pi_parent pn) (ps_inodes b)); [apply IH; split; assumption|exact I].
  - destruct (find_child k (pi_children pn)) as [ci|].
    + rewrite (E ci). destruct (aget ci (ps_inodes b)); [apply IH; split; assumption|exact I].
    + unfold ps_create. rewrite Hn. apply IH. split; cbn [ps_next ps_inodes]; [reflexivity|].
      intros j. apply aset_ext. apply aset_ext. exact E.
Qed.

Lemma ps_mount_cong a b p : ps_rel a b ->
  orel (fun x y => ps_rel (fst x) (fst y) /\ snd x = snd y) (ps_mount a p) (ps_mount b p).
Proof. intros R. unfold ps_mount. destruct (p_rooted p); [apply ps_mount_walk_cong; exact R|reflexivity]. Qed.

Lemma ps_evict_cong a b ino : ps_rel a b -> orel ps_rel (ps_evict a ino) (ps_evict b ino).
Proof.
  intros [Hn E]. unfold ps_evict. rewrite (E ino). destruct (aget ino (ps_inodes b)) as [pn|]; [|exact I].
  destruct (ino =? pi_parent pn); [split; assumption|]. rewrite (E (pi_parent pn)).
  destruct (aget (pi_parent pn) (ps_inodes b)) as [par|]; [|exact I].
  destruct (remove_first_named (pi_name pn) (pi_children par)); [|exact I].
  split; cbn [ps_next ps_inodes]; [exact Hn|]. intros j. apply adel_ext. apply aset_ext. exact E.
Qed.

(* ---------- building related states ---------- *)
Lemma veq_with_ps s t a b : veq s t -> ps_rel a b -> veq (with_ps s a) (with_ps t b).
Proof. intros [A B C D E F G H I J] [Hn Ht]. constructor; cbn [with_ps v_next v_ps v_mps v_sb v_maps v_opts v_init v_rm v_gmap]; assumption. Qed.
Lemma veq_with_next s t n : veq s t -> veq (with_next s n) (with_next t n).
Proof. intros [A B C D E F G H I J]. constructor; cbn [with_next v_next v_ps v_mps v_sb v_maps v_opts v_init v_rm v_gmap]; try assumption; reflexivity. Qed.
Lemma veq_with_maps s t m : veq s t -> veq (with_maps s m) (with_maps t m).
Proof. intros [A B C D E F G H I J]. constructor; cbn [with_maps v_next v_ps v_mps v_sb v_maps v_opts v_init v_rm v_gmap]; try assumption; reflexivity. Qed.
Lemma veq_ps_rel s t : veq s t -> ps_rel (v_ps s) (v_ps t).
Proof. intros Q. split; [exact (q_psn _ _ Q)|exact (q_tbl _ _ Q)]. Qed.

Lemma allocate_veq s t : veq s t -> allocate_fs_idx s = allocate_fs_idx t.
Proof. intros Q. unfold allocate_fs_idx. rewrite (q_next _ _ Q). apply alloc_loop_ext. exact (q_sb _ _ Q). Qed.

Lemma sb_in_order_ext sb1 sb2 : (forall j, aget j sb1 = aget j sb2) -> forall n i, sb_in_order n i sb1 = sb_in_order n i sb2.
Proof. intros E. induction n as [|n IH]; intros i; [reflexivity|]. cbn [sb_in_order]. rewrite (E i), IH. reflexivity. Qed.

(* ---------- insert_mount_locked ---------- *)
Lemma insert_mount_cong s t bid e idx p : veq s t ->
  veq (fst (insert_mount s bid e idx p)) (fst (insert_mount t bid e idx p)) /\
  snd (insert_mount s bid e idx p) = snd (insert_mount t bid e idx p).
Proof.
  intros Q. unfold insert_mount. pose proof (ps_mount_cong _ _ p (veq_ps_rel _ _ Q)) as M.
  destruct (ps_mount (v_ps s) p) as [[a i]| |], (ps_mount (v_ps t) p) as [[b i']| |]; cbn [orel fst snd] in M; try contradiction;
    try (subst; cbn [fst snd]; split; [exact Q|reflexivity]).
  destruct M as [R ->].
  pose proof (veq_with_ps _ _ _ _ Q R) as Q1.
  rewrite (convert_entry_veq _ _ Q1).
  destruct (convert_entry (with_ps t b) idx (e_ino e) e) as [e'| |]; cbn [fst snd]; try (split; [exact Q1|reflexivity]).
  split; [|reflexivity]. destruct Q1 as [A B C D E F G H I J]. destruct R as [Rn Rt].
  constructor; cbn [with_ps v_next v_ps v_mps v_sb v_maps v_opts v_init v_rm v_gmap] in *; try assumption.
  - intros j. apply aset_ext. exact D.
  - intros j. apply aset_ext. rewrite (D i'). destruct (aget i' (v_mps t)); [apply adel_ext|]; exact E.
Qed.

(* ---------- mount ---------- *)
Lemma vfs_mount_cong s t bid p map a : veq s t ->
  veq (fst (fst (vfs_mount s bid p map a))) (fst (fst (vfs_mount t bid p map a))) /\
  snd (fst (vfs_mount s bid p map a)) = snd (fst (vfs_mount t bid p map a)) /\
  snd (vfs_mount s bid p map a) = snd (vfs_mount t bid p map a).
Proof.
  intros Q. unfold vfs_mount. rewrite (q_init _ _ Q), (q_opts _ _ Q), (allocate_veq _ _ Q).
  destruct (negb (ma_err a =? 0)); [cbn; auto|].
  destruct (VFS_MAX_INO <? ma_max a); [cbn; auto|].
  destruct (v_init t && negb (ma_init_err a =? 0)); [cbn; auto|].
  destruct (allocate_fs_idx t) as [[idx| |] nx]; try (cbn [fst snd]; split; [apply veq_with_next; exact Q|auto]).
  rewrite (q_maps _ _ (veq_with_next _ _ nx Q)).
  set (m2 := match map with Some m => aset idx m (v_maps (with_next t nx)) | None => adel idx (v_maps (with_next t nx)) end).
  pose proof (veq_with_maps _ _ m2 (veq_with_next _ _ nx Q)) as Q2.
  destruct (insert_mount_cong _ _ bid (root_entry_of a) idx p Q2) as [Q3 Er].
  destruct (insert_mount (with_maps (with_next s nx) m2) bid (root_entry_of a) idx p) as [s3 r3].
  destruct (insert_mount (with_maps (with_next t nx) m2) bid (root_entry_of a) idx p) as [t3 r3'].
  cbn [fst snd] in Q3, Er. subst r3'. destruct r3; cbn [fst snd]; auto.
  split; [|auto]. rewrite (q_maps _ _ Q3). apply veq_with_maps. exact Q3.
Qed.

Lemma vfs_restore_mount_cong s t bid idx p a : veq s t ->
  veq (fst (fst (vfs_restore_mount s bid idx p a))) (fst (fst (vfs_restore_mount t bid idx p a))) /\
  snd (fst (vfs_restore_mount s bid idx p a)) = snd (fst (vfs_restore_mount t bid idx p a)) /\
  snd (vfs_restore_mount s bid idx p a) = snd (vfs_restore_mount t bid idx p a).
Proof.
  intros Q. unfold vfs_restore_mount.
  destruct (negb (ma_err a =? 0)); [cbn; auto|]. destruct (VFS_MAX_INO <? ma_max a); [cbn; auto|].
  destruct (insert_mount_cong _ _ bid (root_entry_of a) idx p Q) as [Q3 Er].
  destruct (insert_mount s bid (root_entry_of a) idx p) as [s3 r3], (insert_mount t bid (root_entry_of a) idx p) as [t3 r3'].
  cbn [fst snd] in *. auto.
Qed.

(* ---------- umount ---------- *)
Lemma vfs_umount_cong s t p : veq s t ->
  veq (fst (fst (vfs_umount s p))) (fst (fst (vfs_umount t p))) /\
  snd (fst (vfs_umount s p)) = snd (fst (vfs_umount t p)) /\ snd (vfs_umount s p) = snd (vfs_umount t p).
Proof.
  intros Q. unfold vfs_umount. rewrite (ps_path_walk_cong _ _ p (q_tbl _ _ Q)).
  destruct (ps_path_walk (v_ps t) p) as [[inode|]| |]; try (cbn; auto).
  rewrite (ps_parent_cong _ _ inode (q_tbl _ _ Q)). destruct (ps_parent (v_ps t) inode) as [parent|]; [|cbn; auto].
  rewrite (q_mps _ _ Q inode). destruct (aget inode (v_mps t)) as [x|]; [|cbn; auto].
  rewrite (q_rm _ _ Q), (q_sb _ _ Q (mp_idx x)).
  assert (M : orel ps_rel (if v_rm t then ps_evict (v_ps s) inode else Ok (v_ps s)) (if v_rm t then ps_evict (v_ps t) inode else Ok (v_ps t))).
  { destruct (v_rm t); [apply ps_evict_cong|]; apply veq_ps_rel; exact Q. }
  destruct (if v_rm t then ps_evict (v_ps s) inode else Ok (v_ps s)) as [a| |],
           (if v_rm t then ps_evict (v_ps t) inode else Ok (v_ps t)) as [b| |]; cbn [orel] in M; try contradiction; try (cbn; auto).
  cbn [fst snd]. split; [|auto]. destruct M as [Mn Mt]. destruct Q as [A B C D E F G H I J].
  constructor; cbn [v_next v_ps v_mps v_sb v_maps v_opts v_init v_rm v_gmap]; try assumption; try reflexivity.
  - intros j. apply adel_ext. exact D.
  - intros j. apply adel_ext. exact E.
  - rewrite F. reflexivity.
Qed.

(* ---------- init / destroy ---------- *)
Lemma vfs_init_cong s t o e : veq s t ->
  veq (fst (fst (vfs_init s o e))) (fst (fst (vfs_init t o e))) /\
  snd (fst (vfs_init s o e)) = snd (fst (vfs_init t o e)) /\ snd (vfs_init s o e) = snd (vfs_init t o e).
Proof.
  intros Q. unfold vfs_init. rewrite (q_init _ _ Q), (q_opts _ _ Q), (sb_in_order_ext _ _ (q_sb _ _ Q)).
  destruct (v_init t); [cbn; auto|].
  remember (sb_in_order 256 0 (v_sb t)) as bs eqn:Hbs. clear Hbs.
  destruct Q as [A B C D E F G H I J].
  destruct (o_no_open (v_opts t)); destruct (o_no_opendir (v_opts t)); cbv beta iota zeta;
  destruct bs; try destruct (negb (e =? 0)); cbn [fst snd]; (split; [|auto]);
  constructor; cbn [v_next v_ps v_mps v_sb v_maps v_opts v_init v_rm v_gmap]; try assumption; try reflexivity.
Qed.

Lemma vfs_destroy_cong s t : veq s t ->
  veq (fst (vfs_destroy s)) (fst (vfs_destroy t)) /\ snd (vfs_destroy s) = snd (vfs_destroy t).
Proof.
  intros Q. unfold vfs_destroy. rewrite (q_init _ _ Q), (sb_in_order_ext _ _ (q_sb _ _ Q)).
  destruct (v_init t); [|cbn; auto]. cbn [fst snd]. split; [|reflexivity]. destruct Q as [A B C D E F G H I J].
  constructor; cbn [v_next v_ps v_mps v_sb v_maps v_opts v_init v_rm v_gmap]; try assumption; try reflexivity.
Qed.

(* ---------- one step of a history that is not a save/restore ---------- *)
Definition st_of (x : vfs * list N * bool) : vfs := fst (fst x).
Definition obs_of (x : vfs * list N * bool) : list N := snd (fst x).
Definition dead_of (x : vfs * list N * bool) : bool := snd x.

Lemma run_step_cong c s t st : is_save st = false -> veq s t ->
  veq (st_of (run_step c s st)) (st_of (run_step c t st)) /\
  obs_of (run_step c s st) = obs_of (run_step c t st) /\ dead_of (run_step c s st) = dead_of (run_step c t st).
Proof.
  intros Hs Q. unfold st_of, obs_of, dead_of. destruct st; cbn [run_step is_save] in *; try discriminate.
  - destruct (vfs_mount_cong s t bid p map a Q) as (A & B & C).
    destruct (vfs_mount s bid p map a) as [[s' r] ev], (vfs_mount t bid p map a) as [[t' r'] ev']. cbn [fst snd] in *. subst. auto.
  - destruct (vfs_umount_cong s t p Q) as (A & B & C).
    destruct (vfs_umount s p) as [[s' r] ev], (vfs_umount t p) as [[t' r'] ev']. cbn [fst snd] in *. subst. auto.
  - destruct (vfs_init_cong s t opts ierr Q) as (A & B & C).
    destruct (vfs_init s opts ierr) as [[s' r] ev], (vfs_init t opts ierr) as [[t' r'] ev']. cbn [fst snd] in *. subst. auto.
  - destruct (vfs_destroy_cong s t Q) as (A & B).
    destruct (vfs_destroy s) as [s' ev], (vfs_destroy t) as [t' ev']. cbn [fst snd] in *. subst. auto.
  - rewrite (q_init _ _ Q), (q_opts _ _ Q). auto.
  - rewrite (vfs_request_veq _ _ Q). destruct (vfs_request t hdr c0 o a). cbn [fst snd]. auto.
  - rewrite (vfs_request_async_veq _ _ Q). destruct (vfs_request_async t hdr c0 o a). cbn [fst snd]. auto.
Qed.

(* the caller's bookkeeping depends on the results only *)
Lemma live_step_cong s t st live : veq s t -> live_step s st live = live_step t st live.
Proof.
  intros Q. destruct st; cbn [live_step]; try reflexivity.
  - destruct (vfs_mount_cong s t bid p map a Q) as (A & B & C).
    destruct (vfs_mount s bid p map a) as [[s' r] ev], (vfs_mount t bid p map a) as [[t' r'] ev']. cbn [fst snd] in *. subst r'.
    destruct r; try reflexivity. rewrite (ps_path_walk_cong _ _ p (q_tbl _ _ A)). reflexivity.
  - destruct (vfs_umount_cong s t p Q) as (A & B & C).
    destruct (vfs_umount s p) as [[s' r] ev], (vfs_umount t p) as [[t' r'] ev']. cbn [fst snd] in *. subst r'. reflexivity.
Qed.

(* so does the side condition of the theorem *)
Lemma paths_resolve_cong s t live : veq s t -> paths_resolve s live = paths_resolve t live.
Proof.
  intros Q. unfold paths_resolve. induction live as [|l r IH]; [reflexivity|]. cbn [forallb].
  rewrite (ps_path_walk_cong _ _ (l_path l) (q_tbl _ _ Q)), IH. reflexivity.
Qed.

Lemma step_good_cong c s t live st : veq s t -> step_good c s live st = step_good c t live st.
Proof.
  intros Q. destruct st; cbn [step_good]; try reflexivity.
  - rewrite (q_psn _ _ Q). reflexivity.
  - unfold evicts_leaf_b. rewrite (q_rm _ _ Q), (ps_path_walk_cong _ _ p (q_tbl _ _ Q)).
    destruct (v_rm t); [|reflexivity]. destruct (ps_path_walk (v_ps t) p) as [[inode|]| |]; try reflexivity.
    rewrite (q_mps _ _ Q inode), (q_tbl _ _ Q inode). reflexivity.
  - unfold save_good. rewrite (q_init _ _ Q), (q_opts _ _ Q), (q_maps _ _ Q), (paths_resolve_cong _ _ _ Q). reflexivity.
Qed.
