(* UID/GID mapping: the remap arithmetic, and what every operation does with ids on the way in
   (context, setattr owner) and on the way out (entries, attributes, readdirplus, mount roots). *)
From Coq Require Import List NArith Bool Lia.
From FB Require Import Model.Pseudo Gen.VfsTable Model.Vfs Proofs.VfsCodec Proofs.VfsAlloc Proofs.VfsInv Proofs.VfsRouting Proofs.PseudoWalk.
Import ListNotations.
Local Open Scope N_scope.

(* ---------- remap algebra ---------- *)
Definition map_wf (m : mapping) : Prop := let '(i, e, r) := m in i + r <= two32 /\ e + r <= two32.
Definition in_range (v base r : N) : Prop := base <= v < base + r.

Lemma remap_inside v f t r : in_range v f r -> t + r <= two32 -> remap_id v f t r = Some (v - f + t).
Proof.
  unfold in_range, remap_id. intros [H1 H2] Ht.
  assert (E1 : (f <=? v) = true) by (apply N.leb_le; lia).
  assert (E2 : (v - f <? r) = true) by (apply N.ltb_lt; lia).
  assert (E3 : (v - f + t <? two32) = true) by (apply N.ltb_lt; lia).
  rewrite E1, E2, E3. reflexivity.
Qed.

Lemma remap_outside v f t r : ~ in_range v f r -> remap_id v f t r = Some v.
Proof.
  unfold in_range, remap_id. intros H.
  destruct (f <=? v) eqn:E1; [|reflexivity]. destruct (v - f <? r) eqn:E2; [|reflexivity].
  apply N.leb_le in E1. apply N.ltb_lt in E2. exfalso. apply H. lia.
Qed.

Theorem remap_algebra : forall i e r v, map_wf (i, e, r) ->
  (* round trip on the range, both ways *)
  (in_range v i r -> exists w, to_ext (Some (i, e, r)) v = Some w /\ in_range w e r /\ to_int (Some (i, e, r)) w = Some v) /\
  (in_range v e r -> exists w, to_int (Some (i, e, r)) v = Some w /\ in_range w i r /\ to_ext (Some (i, e, r)) w = Some v) /\
  (* identity outside *)
  (~ in_range v i r -> to_ext (Some (i, e, r)) v = Some v) /\
  (~ in_range v e r -> to_int (Some (i, e, r)) v = Some v) /\
  (* no u32 overflow, results are u32 *)
  (v < two32 -> exists w1 w2, to_ext (Some (i, e, r)) v = Some w1 /\ w1 < two32 /\ to_int (Some (i, e, r)) v = Some w2 /\ w2 < two32).
Proof.
  intros i e r v [Hi He]. cbn [to_ext to_int]. repeat split.
  - intros Hr. exists (v - i + e). rewrite (remap_inside v i e r Hr He).
    assert (Hw : in_range (v - i + e) e r) by (unfold in_range in *; lia).
    repeat split; try (unfold in_range in *; lia).
    rewrite (remap_inside _ e i r Hw Hi). f_equal. unfold in_range in *. lia.
  - intros Hr. exists (v - e + i). rewrite (remap_inside v e i r Hr Hi).
    assert (Hw : in_range (v - e + i) i r) by (unfold in_range in *; lia).
    repeat split; try (unfold in_range in *; lia).
    rewrite (remap_inside _ i e r Hw He). f_equal. unfold in_range in *. lia.
  - apply remap_outside.
  - apply remap_outside.
  - intros Hv.
    assert (A : exists w1, remap_id v i e r = Some w1 /\ w1 < two32).
    { destruct (N.le_gt_cases i v) as [H1|H1]; [destruct (N.lt_ge_cases v (i + r)) as [H2|H2]|].
      - exists (v - i + e). rewrite (remap_inside v i e r (conj H1 H2) He). split; [reflexivity|lia].
      - exists v. rewrite remap_outside; [auto|]. unfold in_range. lia.
      - exists v. rewrite remap_outside; [auto|]. unfold in_range. lia. }
    assert (B : exists w2, remap_id v e i r = Some w2 /\ w2 < two32).
    { destruct (N.le_gt_cases e v) as [H1|H1]; [destruct (N.lt_ge_cases v (e + r)) as [H2|H2]|].
      - exists (v - e + i). rewrite (remap_inside v e i r (conj H1 H2) Hi). split; [reflexivity|lia].
      - exists v. rewrite remap_outside; [auto|]. unfold in_range. lia.
      - exists v. rewrite remap_outside; [auto|]. unfold in_range. lia. }
    destruct A as (w1 & A1 & A2). destruct B as (w2 & B1 & B2). exists w1, w2. auto.
Qed.

(* overflow is real without well-formedness: value - from + to can leave u32 (panic in a debug build) *)
Example remap_overflow : remap_id 10 0 4294967290 100 = None.
Proof. reflexivity. Qed.

(* ---------- in: the context every backend call carries ---------- *)
Lemma vfs_op_ctx : forall s c o a r evs, vfs_op s c o a = (r, evs) ->
  Forall (fun ev => ev_cuid ev = c_uid c /\ ev_cgid ev = c_gid c) evs.
Proof.
  intros s c o a r evs H. destruct o; cbn [vfs_op] in H.
  - destruct (has_slash nm); [nil H|].
    destruct (get_real_rootfs s parent) as [[?|? ? ?]| |]; fin H; repeat constructor.
  - destruct (get_real_rootfs s ino) as [[?|? ? ?]| |]; fin H; repeat constructor.
  - assert (F : forall n, Forall (fun ev => ev_cuid ev = c_uid c /\ ev_cgid ev = c_gid c) (snd (forget_one s c n))).
    { intros n. unfold forget_one. destruct (get_real_rootfs s n) as [[?|? ? ?]| |]; cbn; repeat constructor. }
    pose proof (F ino1) as F1. pose proof (F ino2) as F2.
    destruct (forget_one s c ino1) as [p1 e1]. destruct (forget_one s c ino2) as [p2 e2]. cbn [snd] in *.
    destruct p1; [fin H; exact F1|]. destruct p2; fin H; apply Forall_app; split; assumption.
  - destruct (get_real_rootfs s ino) as [[?|? ? ?]| |]; fin H; repeat constructor.
  - destruct (get_real_rootfs s ino) as [[?|? ? ?]| |]; [nil H| |nil H|nil H].
    destruct (to_int (effective_mapping s idx) uid); [|nil H].
    destruct (to_int (effective_mapping s idx) gid); fin H; repeat constructor.
  - destruct (aget m forward_table) as [[[[validate g] is_entry] ret_unit]|]; [|nil H].
    destruct (validate && negb (name_safe nm)); [nil H|].
    destruct (gate_closed s g); [nil H|].
    destruct (get_real_rootfs s ino) as [[?|? ? ?]| |]; fin H; repeat constructor.
  - destruct (negb (name_safe oldname) || negb (name_safe newname)); [nil H|].
    destruct (get_real_rootfs s olddir) as [so| |]; [|nil H|nil H].
    destruct (get_real_rootfs s newdir) as [sn| |]; [|nil H|nil H].
    match type of H with (if ?x then _ else _) = _ => destruct x end; [nil H|].
    destruct so; fin H; repeat constructor.
  - destruct (negb (name_safe nm)); [nil H|].
    destruct (get_real_rootfs s ino) as [so| |]; [|nil H|nil H].
    destruct (get_real_rootfs s newparent) as [sn| |]; [|nil H|nil H].
    match type of H with (if ?x then _ else _) = _ => destruct x end; [nil H|].
    destruct so; fin H; repeat constructor.
  - destruct (get_real_rootfs s ino) as [[?|? ? ?]| |]; fin H; repeat constructor.
  - nil H.
Qed.

(* every backend call of a request carries the caller's ids translated external -> internal with the mapping
   selected by the header nodeid *)
Theorem ctx_in : forall s hdr c o a r evs, vfs_request s hdr c o a = (r, evs) ->
  Forall (fun ev => Some (ev_cuid ev) = to_int (effective_mapping s (ctx_idx s hdr)) (c_uid c) /\
                    Some (ev_cgid ev) = to_int (effective_mapping s (ctx_idx s hdr)) (c_gid c)) evs.
Proof.
  intros s hdr c o a r evs H. unfold vfs_request, srv_remap_ctx in H.
  destruct (to_int (effective_mapping s (ctx_idx s hdr)) (c_uid c)) as [u|]; [|nil H].
  destruct (to_int (effective_mapping s (ctx_idx s hdr)) (c_gid c)) as [g|]; [|nil H].
  eapply Forall_impl; [|exact (vfs_op_ctx _ _ _ _ _ _ H)]. cbn. intros ev [A B]. rewrite A, B. auto.
Qed.

(* the header nodeid selects the mapping of the slot that serves it: its own index bits, or the index of the mount
   at "/" for nodeid 1 *)
Lemma hdr_slot s n b idx i : eff s n = Some (b, idx, i) -> ctx_idx s n = idx.
Proof.
  unfold eff, ctx_idx. destruct (fs_idx n =? 0) eqn:E0; cbn [andb].
  - destruct (ino_of n =? ROOT_ID); [|discriminate].
    destruct (aget ROOT_ID (v_mps s)) as [mnt|]; [|discriminate].
    destruct (aget (mp_idx mnt) (v_sb s)); intros H; inversion H. reflexivity.
  - destruct (aget (fs_idx n) (v_sb s)); intros H; inversion H. reflexivity.
Qed.

(* the protocol's header nodeid of a request *)
Definition hdr_of (o : op) : N :=
  match o with
  | OLookup n _ | OForget n | OGetattr n | OSetattr n _ _ _ | OFwd _ n _ | OReaddir _ n _ _ _ | ORename n _ _ _ => n
  | OLink _ np _ => np
  | OBatchForget _ _ | OUnfwd _ => 0
  end.

(* the backend sees the caller's ids translated with the mapping of the mount that serves the request *)
Theorem in_full : forall s c o a r evs b idx i, eff s (hdr_of o) = Some (b, idx, i) ->
  vfs_request s (hdr_of o) c o a = (r, evs) ->
  Forall (fun ev => Some (ev_cuid ev) = to_int (effective_mapping s idx) (c_uid c) /\
                    Some (ev_cgid ev) = to_int (effective_mapping s idx) (c_gid c)) evs.
Proof.
  intros s c o a r evs b idx i He H. rewrite <- (hdr_slot _ _ _ _ _ He). eapply ctx_in. exact H.
Qed.

(* a root mount with its own mapping; a request on nodeid 1 from external uid 100005 reaches it as uid 5 *)
Definition ex_rootmap : vfs :=
  fst (fst (vfs_mount (vfs_new default_opts false) 10 (mkPath true []) (Some (0, 100000, 65536)) (mkMA 0 1 0 0 0 1000 0))).
Example in_root_mount : reachable ex_rootmap /\ eff ex_rootmap 1 = Some (10, 1, 1) /\
  map (fun ev => (ev_bid ev, ev_cuid ev, ev_cgid ev))
      (snd (vfs_request ex_rootmap 1 (mkC 100005 100006) (OGetattr 1) (mkAns 0 (mkE 0 0 0 0 0) (mkA 1 0 0 0) 0 []))) = [(10, 5, 6)].
Proof.
  split; [|vm_compute; split; reflexivity].
  unfold ex_rootmap. eapply R_mount; [apply R_new|apply triple_eta].
Qed.


(* ---------- in: owner ids to be set (setattr) ---------- *)
Theorem setattr_in : forall s c n u g valid a r ev evs, wf s -> vfs_op s c (OSetattr n u g valid) a = (r, ev :: evs) ->
  exists b idx i, eff s n = Some (b, idx, i) /\
    Some (ev_suid ev) = to_int (effective_mapping s idx) u /\ Some (ev_sgid ev) = to_int (effective_mapping s idx) g.
Proof.
  intros s c n u g valid a r ev evs W H. cbn [vfs_op] in H.
  grr W n; [|discriminate|discriminate].
  destruct (to_int (effective_mapping s idx) u) as [u'|] eqn:Eu; [|discriminate].
  destruct (to_int (effective_mapping s idx) g) as [g'|] eqn:Eg'; [|discriminate].
  inversion H; subst. exists b, (fs_idx id), (ino_of id). cbn [ev_suid ev_sgid]. auto.
Qed.

(* ---------- out: owner ids in replies ---------- *)
Lemma convert_entry_ids s idx inode e e' : convert_entry s idx inode e = Ok e' ->
  Some (e_uid e') = to_ext (effective_mapping s idx) (e_uid e) /\
  Some (e_gid e') = to_ext (effective_mapping s idx) (e_gid e).
Proof.
  unfold convert_entry. destruct (convert_inode idx inode); try discriminate.
  destruct (to_ext _ (e_uid e)); [|discriminate]. destruct (to_ext _ (e_gid e)); [|discriminate].
  intros H. inversion H. cbn. auto.
Qed.

Lemma convert_attr_ids s nodeid idx x x' : convert_attr s nodeid idx x = Ok x' ->
  Some (a_uid x') = to_ext (effective_mapping s idx) (a_uid x) /\
  Some (a_gid x') = to_ext (effective_mapping s idx) (a_gid x).
Proof.
  unfold convert_attr. destruct (to_ext _ (a_uid x)); [|discriminate]. destruct (to_ext _ (a_gid x)); [|discriminate].
  intros H. inversion H. cbn. auto.
Qed.

Definition ids_out (s : vfs) (idx : N) (bu bg u g : N) : Prop :=
  Some u = to_ext (effective_mapping s idx) bu /\ Some g = to_ext (effective_mapping s idx) bg.

Lemma backend_entry_ids s a idx e : backend_entry s a idx = Ok (REntry e) ->
  ids_out s idx (e_uid (n_ent a)) (e_gid (n_ent a)) (e_uid e) (e_gid e).
Proof.
  unfold backend_entry. destruct (n_err a =? 0); [|discriminate].
  destruct (convert_entry s idx (e_ino (n_ent a)) (n_ent a)) as [e'| |] eqn:Ec; try discriminate.
  cbn [bind]. intros H. inversion H; subst e'. exact (convert_entry_ids _ _ _ _ _ Ec).
Qed.

(* lookup, symlink, mknod, mkdir, create, link served by a backend: the entry's owner ids are the backend's,
   translated internal -> external with the mapping of the serving slot *)
Theorem out_entry : forall s c o a e ev evs, wf s -> vfs_op s c o a = (Ok (REntry e), ev :: evs) ->
  exists idx, aget idx (v_sb s) = Some (ev_bid ev) /\
              ids_out s idx (e_uid (n_ent a)) (e_gid (n_ent a)) (e_uid e) (e_gid e).
Proof.
  intros s c o a e ev evs W H. destruct o; cbn [vfs_op] in H.
  - destruct (has_slash nm); [discriminate|].
    grr W parent; [|discriminate|discriminate].
    inversion H; subst. exists (fs_idx id). split; [exact Hs|]. apply backend_entry_ids. assumption.
  - grr W ino; inversion H.
  - destruct (forget_one s c ino1) as [p1 e1]. destruct p1; [discriminate|].
    destruct (forget_one s c ino2) as [p2 e2]. destruct p2; discriminate.
  - grr W ino; [|discriminate|discriminate]. inversion H; subst.
    destruct (n_err a =? 0); [|discriminate]. destruct (convert_attr s id (fs_idx id) (n_attr a)); discriminate.
  - grr W ino; [|discriminate|discriminate].
    destruct (to_int (effective_mapping s idx) uid); [|discriminate].
    destruct (to_int (effective_mapping s idx) gid); [|discriminate].
    inversion H; subst.
    destruct (n_err a =? 0); [|discriminate]. destruct (convert_attr s id (fs_idx id) (n_attr a)); discriminate.
  - destruct (aget m forward_table) as [[[[validate g] is_entry] ret_unit]|]; [|discriminate].
    destruct (validate && negb (name_safe nm)); [discriminate|].
    destruct (gate_closed s g); [discriminate|].
    grr W ino; [|discriminate|discriminate].
    inversion H; subst. exists (fs_idx id). split; [exact Hs|].
    destruct is_entry; [apply backend_entry_ids; assumption|].
    destruct (n_err a =? 0); discriminate.
  - destruct (negb (name_safe oldname) || negb (name_safe newname)); [discriminate|].
    destruct (get_real_rootfs s olddir) as [so| |]; [|discriminate|discriminate].
    destruct (get_real_rootfs s newdir) as [sn| |]; [|discriminate|discriminate].
    match type of H with (if ?x then _ else _) = _ => destruct x end; [discriminate|].
    destruct so; [unfold default_of in H; destruct (aget m_rename default_table) as [[|?]|]; discriminate|].
    inversion H. destruct (n_err a =? 0); discriminate.
  - destruct (negb (name_safe nm)); [discriminate|].
    grr W ino; [| |discriminate].
    + grr W newparent; [| |discriminate].
      * destruct (negb (fs_idx id =? fs_idx id0)) eqn:Ef; [discriminate|].
        apply negb_false_iff, N.eqb_eq in Ef.
        inversion H; subst. exists (fs_idx id). split; [exact Hs|]. rewrite Ef. apply backend_entry_ids. assumption.
      * destruct (negb (fs_idx id =? fs_idx newparent)) eqn:Ef; [discriminate|].
        apply negb_false_iff, N.eqb_eq in Ef. lia.
    + grr W newparent; [| |discriminate].
      * destruct (negb (fs_idx ino =? fs_idx id)); [discriminate|].
        unfold default_of in H. destruct (aget m_link default_table) as [[|?]|]; discriminate.
      * destruct (negb (fs_idx ino =? fs_idx newparent)); [discriminate|].
        unfold default_of in H. destruct (aget m_link default_table) as [[|?]|]; discriminate.
  - grr W ino; [|discriminate|discriminate]. inversion H; subst.
    unfold readdir_backend in H1. destruct (negb (n_err a =? 0)); [discriminate|].
    match type of H1 with bind ?f _ = _ => destruct f end; discriminate.
  - discriminate.
Qed.

(* getattr / setattr served by a backend *)
Theorem out_attr : forall s c o a x ev evs, wf s -> vfs_op s c o a = (Ok (RAttr x), ev :: evs) ->
  exists idx, aget idx (v_sb s) = Some (ev_bid ev) /\
              ids_out s idx (a_uid (n_attr a)) (a_gid (n_attr a)) (a_uid x) (a_gid x).
Proof.
  intros s c o a x ev evs W H. destruct o; cbn [vfs_op] in H.
  - destruct (has_slash nm); [discriminate|].
    grr W parent; [|discriminate|discriminate]. inversion H; subst.
    unfold backend_entry in H1. destruct (n_err a =? 0); [|discriminate].
    destruct (convert_entry s (fs_idx id) (e_ino (n_ent a)) (n_ent a)); discriminate.
  - grr W ino; inversion H.
  - destruct (forget_one s c ino1) as [p1 e1]. destruct p1; [discriminate|].
    destruct (forget_one s c ino2) as [p2 e2]. destruct p2; discriminate.
  - grr W ino; [|discriminate|discriminate]. inversion H; subst. exists (fs_idx id). split; [exact Hs|].
    destruct (n_err a =? 0); [|discriminate].
    destruct (convert_attr s id (fs_idx id) (n_attr a)) as [x'| |] eqn:Ec; try discriminate.
    cbn [bind] in H1. inversion H1; subst x'. exact (convert_attr_ids _ _ _ _ _ Ec).
  - grr W ino; [|discriminate|discriminate].
    destruct (to_int (effective_mapping s idx) uid); [|discriminate].
    destruct (to_int (effective_mapping s idx) gid); [|discriminate].
    inversion H; subst. exists (fs_idx id). split; [exact Hs|].
    destruct (n_err a =? 0); [|discriminate].
    destruct (convert_attr s id (fs_idx id) (n_attr a)) as [x'| |] eqn:Ec; try discriminate.
    cbn [bind] in H1. inversion H1; subst x'. exact (convert_attr_ids _ _ _ _ _ Ec).
  - destruct (aget m forward_table) as [[[[validate g] is_entry] ret_unit]|]; [|discriminate].
    destruct (validate && negb (name_safe nm)); [discriminate|].
    destruct (gate_closed s g); [discriminate|].
    grr W ino; [|discriminate|discriminate].
    inversion H; subst. destruct is_entry.
    + unfold backend_entry in H1. destruct (n_err a =? 0); [|discriminate].
      destruct (convert_entry s (fs_idx id) (e_ino (n_ent a)) (n_ent a)); discriminate.
    + destruct (n_err a =? 0); discriminate.
  - destruct (negb (name_safe oldname) || negb (name_safe newname)); [discriminate|].
    destruct (get_real_rootfs s olddir) as [so| |]; [|discriminate|discriminate].
    destruct (get_real_rootfs s newdir) as [sn| |]; [|discriminate|discriminate].
    match type of H with (if ?x then _ else _) = _ => destruct x end; [discriminate|].
    destruct so; [unfold default_of in H; destruct (aget m_rename default_table) as [[|?]|]; discriminate|].
    inversion H. destruct (n_err a =? 0); discriminate.
  - destruct (negb (name_safe nm)); [discriminate|].
    destruct (get_real_rootfs s ino) as [so| |]; [|discriminate|discriminate].
    destruct (get_real_rootfs s newparent) as [sn| |]; [|discriminate|discriminate].
    match type of H with (if ?x then _ else _) = _ => destruct x end; [discriminate|].
    destruct so; [unfold default_of in H; destruct (aget m_link default_table) as [[|?]|]; discriminate|].
    inversion H. unfold backend_entry in H1. destruct (n_err a =? 0); [|discriminate].
    match type of H1 with bind ?f _ = _ => destruct f end; discriminate.
  - grr W ino; [|discriminate|discriminate]. inversion H; subst.
    unfold readdir_backend in H1. destruct (negb (n_err a =? 0)); [discriminate|].
    match type of H1 with bind ?f _ = _ => destruct f end; discriminate.
  - discriminate.
Qed.

(* readdirplus served by a backend: every entry's owner ids are those of a scripted entry, translated with the
   serving slot's mapping *)
From FB Require Import Proofs.VfsIssued.
Theorem out_readdirplus : forall s c n size off lim a l ev evs, wf s ->
  vfs_op s c (OReaddir true n size off lim) a = (Ok (RDir l), ev :: evs) ->
  exists idx, aget idx (v_sb s) = Some (ev_bid ev) /\
    Forall (fun y => exists x e, In x (n_dir a) /\ snd y = Some e /\
                                 ids_out s idx (e_uid (snd x)) (e_gid (snd x)) (e_uid e) (e_gid e)) l.
Proof.
  intros s c n size off lim a l ev evs W H. cbn [vfs_op] in H.
  grr W n; [|discriminate|discriminate]. inversion H; subst. exists (fs_idx id). split; [exact Hs|].
  unfold readdir_backend in H1. destruct (negb (n_err a =? 0)); [discriminate|].
  match type of H1 with bind (feed ?cv _ _) _ = _ => set (conv := cv) in * end.
  destruct (feed conv lim (number_dir (off + 1) (n_dir a))) as [out| |] eqn:Ef; try discriminate.
  cbn [bind] in H1. inversion H1; subst out.
  apply (feed_forall conv _ _ _ _ Ef). intros [[[dino nm] e] o'] y Hin Hc. apply In_number_dir in Hin.
  unfold conv in Hc. destruct (convert_inode (fs_idx id) (e_ino e)); try discriminate. cbn [bind] in Hc.
  destruct (to_ext (effective_mapping s (fs_idx id)) (e_uid e)) as [u|] eqn:Eu; [|discriminate].
  destruct (to_ext (effective_mapping s (fs_idx id)) (e_gid e)) as [g|] eqn:Eg'; [|discriminate].
  inversion Hc; subst y. exists (dino, nm, e). eexists. split; [exact Hin|]. split; [reflexivity|].
  unfold ids_out. cbn. auto.
Qed.

(* ---------- mount roots ---------- *)
Lemma eff_map_ps s ps idx : effective_mapping (with_ps s ps) idx = effective_mapping s idx.
Proof. reflexivity. Qed.

Lemma insert_mount_root s bid e idx p s' : insert_mount s bid e idx p = (s', Ok tt) ->
  v_maps s' = v_maps s /\ v_gmap s' = v_gmap s /\
  exists pino m, aget pino (v_mps s') = Some m /\ mp_idx m = idx /\ mp_ino m = e_ino e /\
                 ids_out s idx (e_uid e) (e_gid e) (e_uid (mp_entry m)) (e_gid (mp_entry m)).
Proof.
  unfold insert_mount. destruct (ps_mount (v_ps s) p) as [[ps' inode]| |]; try (intros H; inversion H; fail).
  destruct (convert_entry (with_ps s ps') idx (e_ino e) e) as [e'| |] eqn:Ec; try (intros H; inversion H; fail).
  intros H. inversion H; subst s'. cbn [v_maps v_gmap v_mps with_ps]. repeat split.
  exists inode. eexists. rewrite aget_aset_same. split; [reflexivity|]. cbn [mp_idx mp_ino mp_entry].
  split; [reflexivity|]. split; [reflexivity|].
  exact (convert_entry_ids _ _ _ _ _ Ec).
Qed.

(* at mount time the root entry is translated once, with the mapping of the new mount: the one given with the
   mount, else the global one -- whatever a previous occupant of the slot left behind is overwritten *)
Theorem mount_root_translated : forall s bid p map a s' idx evs, vfs_mount s bid p map a = (s', VOk idx, evs) ->
  effective_mapping s' idx = (match map with Some x => Some x | None => v_gmap s end) /\
  exists pino m, aget pino (v_mps s') = Some m /\ mp_idx m = idx /\ mp_ino m = ma_ino a /\
                 ids_out s' idx (ma_uid a) (ma_gid a) (e_uid (mp_entry m)) (e_gid (mp_entry m)).
Proof.
  intros s bid p map a s' idx evs. unfold vfs_mount.
  destruct (negb (ma_err a =? 0)); [intros H; inversion H|].
  destruct (VFS_MAX_INO <? ma_max a); [intros H; inversion H|].
  destruct (v_init s && negb (ma_init_err a =? 0)); [intros H; inversion H|].
  destruct (allocate_fs_idx s) as [[i| |] nx]; try (intros H; inversion H; fail).
  set (s1 := with_next s nx).
  set (s2 := with_maps s1 (match map with Some m => aset i m (v_maps s1) | None => adel i (v_maps s1) end)).
  destruct (insert_mount s2 bid (root_entry_of a) i p) as [s3 [[]|?|]] eqn:Ei; try (intros H; inversion H; fail).
  intros H. inversion H; subst s3 i. clear H.
  destruct (insert_mount_root _ _ _ _ _ _ Ei) as (Hm & Hg & pino & m & A & B & C & D).
  assert (E2 : effective_mapping s2 idx = match map with Some x => Some x | None => v_gmap s end).
  { unfold s2, s1, effective_mapping. cbn [v_maps v_gmap with_maps with_next].
    destruct map; [rewrite aget_aset_same|rewrite aget_adel_same]; reflexivity. }
  assert (E3 : effective_mapping s' idx = effective_mapping s2 idx).
  { unfold effective_mapping. rewrite Hm, Hg. reflexivity. }
  split; [rewrite E3; exact E2|]. exists pino, m. repeat split; try assumption.
  - unfold ids_out in *. rewrite E3. exact (proj1 D).
  - unfold ids_out in *. rewrite E3. exact (proj2 D).
Qed.


(* lookup across a mount point hands the stored root entry out unchanged (as readdirplus does) *)
Theorem root_out_full : forall s n nm ino m e,
  ps_lookup (v_ps s) (ino_of n) nm = Ok ino -> aget ino (v_mps s) = Some m -> lookup_pseudo s n nm = Ok e ->
  e = mp_entry m.
Proof.
  intros s n nm ino m e Hl Hm. unfold lookup_pseudo. rewrite Hl. cbn [bind]. rewrite Hm. intros H. inversion H. reflexivity.
Qed.

(* global mapping (0, 1000, 65536), backend root owned by 5:6: stored and looked up as 1005:1006 *)
Definition ex_double : vfs :=
  fst (fst (vfs_mount (vfs_new (mkO 0 default_out_opts true true false false false false (0, 1000, 65536)) false)
                      10 (mkPath true [CNorm 1]) None (mkMA 0 1 5 6 0 1000 0))).
Example root_out_once : reachable ex_double /\
  lookup_pseudo ex_double 1 (NNorm 1) = Ok (mkE (mk_vino 1 1) (mk_vino 1 1) 1005 1006 0).
Proof.
  split; [|vm_compute; reflexivity].
  unfold ex_double. eapply R_mount; [apply R_new|apply triple_eta].
Qed.

(* pseudo directories (internal owner 0:0): lookup, getattr and readdirplus all translate the owner with the
   mapping of index 0; lookup and getattr of the same directory agree *)
Theorem pseudo_owner_full : forall s c a n nm ino e x evs, fs_idx n = 0 ->
  ps_lookup (v_ps s) (ino_of n) nm = Ok ino -> aget ino (v_mps s) = None ->
  lookup_pseudo s n nm = Ok e ->
  vfs_op s c (OGetattr (e_ino e)) a = (Ok (RAttr x), evs) ->
  evs = [] /\ a_uid x = e_uid e /\ a_gid x = e_gid e /\ a_ino x = e_ino e.
Proof.
  intros s c a n nm ino e x evs Hz Hl Hm He Hg.
  unfold lookup_pseudo in He. rewrite Hl in He. cbn [bind] in He. rewrite Hm, Hz in He.
  destruct (convert_entry_ids _ _ _ _ _ He) as [A B]. cbn [pseudo_entry e_uid e_gid] in A, B.
  destruct (convert_entry_shape _ _ _ _ _ He) as (Ei & _ & Hle & _).
  assert (Hnz : ino <> 0).
  { unfold ps_lookup in Hl. destruct (aget (ino_of n) (ps_inodes (v_ps s))); [|discriminate].
    destruct nm; try discriminate;
    match type of Hl with (if ?c then _ else _) = _ => destruct c eqn:E0 end; try discriminate;
    inversion Hl; subst; apply N.eqb_neq in E0; exact E0. }
  assert (E0 : ino =? 0 = false) by (apply N.eqb_neq; exact Hnz). rewrite E0 in Ei.
  pose proof (pseudo_ino_codec ino Hle) as Hcodec.
  destruct Hcodec as (Hf & Hi & Hmk). rewrite Hmk in Ei. rewrite Ei in *.
  cbn [vfs_op] in Hg. unfold get_real_rootfs in Hg. rewrite Hf, Hi in Hg. cbn [N.eqb] in Hg.
  assert (G : (if ino =? ROOT_ID then match aget ROOT_ID (v_mps s) with
                 | Some mnt => bind (get_fs_by_idx s (mp_idx mnt)) (fun b =>
                     if N.land (mp_ino mnt) (N.lnot VFS_MAX_INO 64) =? 0
                     then Ok (SRight b (mp_idx mnt) (mk_vino (mp_idx mnt) (mp_ino mnt))) else Panic)
                 | None => Ok (SLeft ino) end else Ok (SLeft ino)) = Ok (SLeft ino)).
  { destruct (ino =? ROOT_ID) eqn:E1; [|reflexivity]. apply N.eqb_eq in E1. rewrite <- E1, Hm. reflexivity. }
  change (0 =? 0) with true in Hg. cbv iota in Hg. rewrite G in Hg. rewrite Hi in Hg.
  unfold ps_getattr in Hg. destruct (aget ino (ps_inodes (v_ps s))); [|discriminate]. cbn [bind] in Hg.
  rewrite Hf in Hg. destruct (convert_attr s ino 0 (pseudo_attr ino)) as [x'| |] eqn:Ec; try discriminate.
  cbn [bind] in Hg. inversion Hg; subst x' evs. destruct (convert_attr_ids _ _ _ _ _ Ec) as [C D].
  cbn [pseudo_attr a_uid a_gid] in C, D.
  assert (Hx : a_ino x = ino).
  { unfold convert_attr in Ec. destruct (to_ext (effective_mapping s 0) (a_uid (pseudo_attr ino))); [|discriminate].
    destruct (to_ext (effective_mapping s 0) (a_gid (pseudo_attr ino))); [|discriminate]. inversion Ec. reflexivity. }
  split; [reflexivity|]. rewrite <- C in A. rewrite <- D in B. inversion A. inversion B. auto.
Qed.

Definition ex_gmap : vfs :=
  fst (fst (vfs_mount (vfs_new (mkO 0 default_out_opts true true false false false false (0, 1000, 65536)) false)
                      10 (mkPath true [CNorm 1; CNorm 2]) None (mkMA 0 1 5 6 0 1000 0))).
Example pseudo_owner_translated : reachable ex_gmap /\
  lookup_pseudo ex_gmap 1 (NNorm 1) = Ok (mkE 2 2 1000 1000 0) /\
  fst (vfs_op ex_gmap (mkC 0 0) (OGetattr 2) (mkAns 0 (mkE 0 0 0 0 0) (mkA 0 0 0 0) 0 [])) = Ok (RAttr (mkA 2 1000 1000 0)).
Proof.
  split; [|vm_compute; split; reflexivity].
  unfold ex_gmap. eapply R_mount; [apply R_new|apply triple_eta].
Qed.
