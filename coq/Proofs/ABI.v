(* C13: checkers over the translated ABI tables and their soundness lemmas. *)
From Coq Require Import List Ascii String NArith Bool Lia.
From FB Require Import Lib.Layout Gen.RustABI Spec.KernelABI.
Import ListNotations.
Local Open Scope string_scope.
Local Open Scope list_scope.
Local Open Scope N_scope.

(* ------------------------------------------------------------------ layouts *)

(* head component of a leaf path: up to the first '.' or '[' *)
Fixpoint path_head (s : string) : string :=
  match s with
  | EmptyString => EmptyString
  | String c r =>
    if orb (Ascii.eqb c "."%char) (Ascii.eqb c "["%char) then EmptyString
    else String c (path_head r)
  end.

Definition mem_str (s : string) (l : list string) : bool := existsb (String.eqb s) l.

Definition alias (rs : string) (path : string) : string :=
  match lookup (sapp rs (sapp "." path)) field_alias with
  | Some k => k
  | None => path
  end.

(* kernel leaves restricted to the given top-level fields, rebased to offset 0 *)
Definition kernel_slice (ks : string) (fields : list string) : option (list leaf * N) :=
  match struct_leaves kernel_structs ks with
  | None => None
  | Some ls =>
    let sel := filter (fun l => mem_str (path_head (l_path l)) fields) ls in
    match sel with
    | [] => Some ([], 0)
    | l0 :: _ =>
      let base := l_off l0 in
      let reb := map (fun l => {| l_path := l_path l; l_off := l_off l - base;
                                  l_width := l_width l; l_signed := l_signed l |}) sel in
      (* extent: up to the next leaf not selected that lies after the slice, else struct size *)
      let after := filter (fun l => andb (negb (mem_str (path_head (l_path l)) fields))
                                         (base <? l_off l)) ls in
      match after, struct_size kernel_structs ks with
      | a :: _, _ => Some (reb, l_off a - base)
      | [], Some sz => Some (reb, sz - base)
      | [], None => None
      end
    end
  end.

Definition rust_leaves_aliased (rs : string) : option (list leaf) :=
  match struct_leaves rust_structs rs with
  | None => None
  | Some ls => Some (map (fun l => {| l_path := alias rs (l_path l); l_off := l_off l;
                                      l_width := l_width l; l_signed := l_signed l |}) ls)
  end.

Definition pair_ok (p : string * string * list string) : bool :=
  let '(rs, ks, fields) := p in
  match rust_leaves_aliased rs, struct_size rust_structs rs, kernel_slice ks fields with
  | Some lr, Some szr, Some (lk, szk) => leaves_eqb lr lk && (szr =? szk)
  | _, _, _ => false
  end.

(* What pair_ok = true means, as a proposition. *)
Definition layout_agrees (p : string * string * list string) : Prop :=
  let '(rs, ks, fields) := p in
  exists ls sz,
    rust_leaves_aliased rs = Some ls /\ struct_size rust_structs rs = Some sz /\
    kernel_slice ks fields = Some (ls, sz).

Lemma pair_ok_sound p : pair_ok p = true -> layout_agrees p.
Proof.
  destruct p as [[rs ks] fields]; unfold pair_ok, layout_agrees.
  destruct (rust_leaves_aliased rs) as [lr|]; [|discriminate].
  destruct (struct_size rust_structs rs) as [szr|]; [|discriminate].
  destruct (kernel_slice ks fields) as [[lk szk]|]; [|discriminate].
  intro H. apply andb_prop in H. destruct H as [H1 H2].
  apply leaves_eqb_eq in H1. apply N.eqb_eq in H2. subst.
  exists lk, szk. auto.
Qed.

(* every crate struct is paired (no struct escapes the comparison) *)
Definition all_structs_paired : bool :=
  forallb (fun s => existsb (fun p => String.eqb (fst s) (fst (fst p))) struct_pairs) rust_structs.

(* ---------------------------------------------------------------- constants *)
Definition const_ok (p : string * string) : bool :=
  match lookup (fst p) rust_consts, lookup (snd p) kernel_consts with
  | Some a, Some b => a =? b
  | _, _ => false
  end.

Definition const_agrees (p : string * string) : Prop :=
  exists v, lookup (fst p) rust_consts = Some v /\ lookup (snd p) kernel_consts = Some v.

Lemma const_ok_sound p : const_ok p = true -> const_agrees p.
Proof.
  unfold const_ok, const_agrees.
  destruct (lookup (fst p) rust_consts) as [a|]; [|discriminate].
  destruct (lookup (snd p) kernel_consts) as [b|]; [|discriminate].
  intro H. apply N.eqb_eq in H. subst. eauto.
Qed.

Definition member_ok (tbl : list (string * list (string * N))) (group : string) (p : string * string) : bool :=
  match lookup group tbl with
  | None => false
  | Some ms =>
    match lookup (fst p) ms, lookup (snd p) kernel_consts with
    | Some a, Some b => a =? b
    | _, _ => false
    end
  end.

Definition member_agrees tbl group (p : string * string) : Prop :=
  exists ms v, lookup group tbl = Some ms /\ lookup (fst p) ms = Some v /\
               lookup (snd p) kernel_consts = Some v.

Lemma member_ok_sound tbl g p : member_ok tbl g p = true -> member_agrees tbl g p.
Proof.
  unfold member_ok, member_agrees.
  destruct (lookup g tbl) as [ms|] eqn:E1; [|discriminate].
  destruct (lookup (fst p) ms) as [a|] eqn:E2; [|discriminate].
  destruct (lookup (snd p) kernel_consts) as [b|] eqn:E3; [|discriminate].
  intro H. apply N.eqb_eq in H. subst a. exists ms, b. auto.
Qed.

(* every member of every bitflags group is either paired or declared crate-only *)
Definition bitflags_all_covered : bool :=
  forallb (fun g =>
    match lookup (fst g) bitflag_pairs with
    | None => false
    | Some ps =>
      forallb (fun m => orb (existsb (fun p => String.eqb (fst m) (fst p)) ps)
                            (existsb (fun r => andb (String.eqb (fst g) (fst r)) (String.eqb (fst m) (snd r)))
                                     rust_only_bitflags)) (snd g)
    end) rust_bitflags.

(* crate-only INIT bits do not collide with any bit the kernel defines *)
Definition crate_only_bits_free : bool :=
  forallb (fun r =>
    match lookup (fst r) rust_bitflags with
    | None => false
    | Some ms => match lookup (snd r) ms with
                 | None => false
                 | Some v => forallb (fun kv => N.land v kv =? 0) kernel_init_flags
                 end
    end) rust_only_bitflags.

(* ------------------------------------------------------------ opcode totality *)
Fixpoint lookupN {A} (k : N) (l : list (N * A)) : option A :=
  match l with
  | [] => None
  | (k', v) :: r => if k =? k' then Some v else lookupN k r
  end.

Definition memN (n : N) (l : list N) : bool := existsb (N.eqb n) l.

Lemma lookupN_In {A} n (l : list (N * A)) s : lookupN n l = Some s -> In (n, s) l.
Proof.
  induction l as [|[k v] l IH]; cbn [lookupN]; [discriminate|].
  destruct (N.eqb_spec n k) as [->|Hne].
  - intro H; injection H as ->. left; reflexivity.
  - intro H; right; auto.
Qed.

Lemma memN_true n l : memN n l = true <-> In n l.
Proof.
  unfold memN. rewrite existsb_exists. split.
  - intros [x [Hx He]]. apply N.eqb_eq in He. subst; auto.
  - intro H. exists n. split; auto. apply N.eqb_refl.
Qed.

Section OpcodeFrom.
  Variable arms : list (N * string).
  Variable default unsup : string.
  Variable enum : list (string * N).
  Variable supported : list N.

  (* the model of `impl From<u32> for Opcode`: the variant name the match yields *)
  Definition opcode_from_g (n : N) : string :=
    match lookupN n arms with Some s => s | None => default end.
  (* `Opcode::from(n) as u32` *)
  Definition opcode_from_disc_g (n : N) : option N := lookup (opcode_from_g n) enum.
  Definition unsupported_value_g : N :=
    match lookup unsup enum with Some v => v | None => 0 end.

  Definition arms_ok_g : bool :=
    forallb (fun a => match lookup (snd a) enum with
                      | Some v => (v =? fst a) && memN (fst a) supported
                      | None => false end) arms
    && forallb (fun v => match lookupN v arms with Some _ => true | None => false end) supported
    && String.eqb default unsup
    && match lookup unsup enum with Some _ => true | None => false end.

  Lemma opcode_total_gen :
    arms_ok_g = true ->
    forall n : N,
      opcode_from_disc_g n = Some (if memN n supported then n else unsupported_value_g).
  Proof.
    unfold arms_ok_g. intro H.
    apply andb_prop in H; destruct H as [H H4].
    apply andb_prop in H; destruct H as [H H3].
    apply andb_prop in H; destruct H as [H1 H2].
    rewrite forallb_forall in H1, H2. apply String.eqb_eq in H3.
    intro n. unfold opcode_from_disc_g, opcode_from_g.
    destruct (lookupN n arms) as [s|] eqn:E.
    - apply lookupN_In in E. specialize (H1 _ E). cbn [fst snd] in H1.
      destruct (lookup s enum) as [v|]; [|discriminate].
      apply andb_prop in H1; destruct H1 as [Hv Hm]. apply N.eqb_eq in Hv. subst v.
      rewrite Hm. reflexivity.
    - destruct (memN n supported) eqn:Hm.
      + apply memN_true in Hm. specialize (H2 _ Hm). rewrite E in H2. discriminate.
      + rewrite H3. unfold unsupported_value_g.
        destruct (lookup unsup enum); [reflexivity|discriminate].
  Qed.
End OpcodeFrom.

Definition opcode_enum : list (string * N) :=
  match lookup "Opcode" rust_enums with Some l => l | None => [] end.
Definition opcode_from := opcode_from_g rust_opcode_from_arms rust_opcode_from_default.
Definition opcode_from_disc := opcode_from_disc_g rust_opcode_from_arms rust_opcode_from_default opcode_enum.
Definition unsupported_value := unsupported_value_g unsupported_opcode opcode_enum.
Definition arms_ok := arms_ok_g rust_opcode_from_arms rust_opcode_from_default unsupported_opcode opcode_enum supported_opcodes.

(* --------------------------------------------------------- stat conversions *)
Definition ity := (N * bool)%type.
Definition bits (t : ity) : N := 8 * fst t.

(* Rust `as` between integer types, on bit patterns *)
Definition cast1 (src dst : ity) (v : N) : N :=
  if bits dst <=? bits src then v mod 2 ^ bits dst
  else if snd src && (2 ^ (bits src - 1) <=? v) then v + (2 ^ bits dst - 2 ^ bits src)
  else v.

Fixpoint cast_chain (chain : list ity) (v : N) : N :=
  match chain with
  | a :: ((b :: _) as r) => cast_chain r (cast1 a b v)
  | _ => v
  end.

Fixpoint last_ty (chain : list ity) (d : ity) : ity :=
  match chain with [] => d | [a] => a | _ :: r => last_ty r d end.

(* each step keeps or reduces the width: the chain is truncation to the last width *)
Fixpoint non_widening (chain : list ity) : bool :=
  match chain with
  | a :: ((b :: _) as r) => (bits b <=? bits a) && non_widening r
  | _ => true
  end.

(* each step keeps or grows the width, growing only from unsigned: value preserved *)
Fixpoint value_preserving (chain : list ity) : bool :=
  match chain with
  | a :: ((b :: _) as r) =>
    (bits a <=? bits b) && (negb (snd a) || (bits a =? bits b)) && value_preserving r
  | _ => true
  end.

Lemma mod_mod_pow a b v : a <= b -> (v mod 2 ^ b) mod 2 ^ a = v mod 2 ^ a.
Proof.
  intro H. replace b with (a + (b - a)) by lia. rewrite N.pow_add_r.
  rewrite N.mod_mul_r by (apply N.pow_nonzero; lia).
  rewrite N.mul_comm, N.mod_add by (apply N.pow_nonzero; lia).
  apply N.mod_mod. apply N.pow_nonzero; lia.
Qed.

Lemma last_ty_indep l : forall x d d', last_ty (x :: l) d = last_ty (x :: l) d'.
Proof.
  induction l as [|y l IH]; intros x d d'; [reflexivity|].
  change (last_ty (x :: y :: l) d) with (last_ty (y :: l) d).
  change (last_ty (x :: y :: l) d') with (last_ty (y :: l) d'). apply IH.
Qed.

Lemma non_widening_mod chain : forall v a,
  non_widening (a :: chain) = true ->
  cast_chain (a :: chain) v mod 2 ^ bits (last_ty (a :: chain) a)
  = v mod 2 ^ bits (last_ty (a :: chain) a)
  /\ (chain <> [] -> cast_chain (a :: chain) v < 2 ^ bits (last_ty (a :: chain) a))
  /\ bits (last_ty (a :: chain) a) <= bits a.
Proof.
  induction chain as [|b r IH]; intros v a H.
  - cbn. split; [reflexivity|]. split; [intro C; contradiction C; reflexivity| lia].
  - cbn [non_widening] in H. apply andb_prop in H. destruct H as [Hba Hr].
    apply N.leb_le in Hba.
    change (cast_chain (a :: b :: r) v) with (cast_chain (b :: r) (cast1 a b v)).
    change (last_ty (a :: b :: r) a) with (last_ty (b :: r) a).
    assert (Hl : last_ty (b :: r) a = last_ty (b :: r) b) by apply last_ty_indep.
    rewrite Hl.
    destruct (IH (cast1 a b v) b Hr) as [I1 [I2 I3]].
    assert (Hc : cast1 a b v = v mod 2 ^ bits b).
    { unfold cast1. apply N.leb_le in Hba. rewrite Hba. reflexivity. }
    split; [|split].
    + rewrite I1, Hc. apply mod_mod_pow. exact I3.
    + intros _. destruct r as [|c r'].
      * cbn. rewrite Hc. apply N.mod_lt. apply N.pow_nonzero; lia.
      * apply I2. discriminate.
    + lia.
Qed.

Lemma non_widening_is_mod a chain v :
  chain <> [] -> non_widening (a :: chain) = true ->
  cast_chain (a :: chain) v = v mod 2 ^ bits (last_ty (a :: chain) a).
Proof.
  intros Hne H. destruct (non_widening_mod chain v a H) as [I1 [I2 _]].
  rewrite <- I1. symmetry. apply N.mod_small. apply I2. exact Hne.
Qed.

Lemma value_preserving_id chain : forall a v,
  value_preserving (a :: chain) = true -> v < 2 ^ bits a ->
  cast_chain (a :: chain) v = v.
Proof.
  induction chain as [|b r IH]; intros a v H Hv; [reflexivity|].
  cbn [value_preserving] in H.
  apply andb_prop in H; destruct H as [H Hr].
  apply andb_prop in H; destruct H as [Hab Hs].
  apply N.leb_le in Hab.
  change (cast_chain (a :: b :: r) v) with (cast_chain (b :: r) (cast1 a b v)).
  assert (Hc : cast1 a b v = v).
  { unfold cast1. destruct (N.leb_spec (bits b) (bits a)) as [Hle|Hgt].
    - assert (bits a = bits b) by lia. rewrite <- H. apply N.mod_small. exact Hv.
    - apply orb_prop in Hs. destruct Hs as [Hs|Hs].
      + apply negb_true_iff in Hs. rewrite Hs. reflexivity.
      + apply N.eqb_eq in Hs. lia. }
  rewrite Hc. apply IH; [exact Hr|].
  eapply N.lt_le_trans; [exact Hv|]. apply N.pow_le_mono_r; lia.
Qed.

Definition conv_table := list (string * option string * list ity).

Fixpoint find_row (dst : string) (t : conv_table) : option (option string * list ity) :=
  match t with
  | [] => None
  | (d, s, c) :: r => if String.eqb dst d then Some (s, c) else find_row dst r
  end.

(* applying a conversion: destination field [f] as a function of the source record;
   fields not assigned are zero (mem::zeroed / Default) *)
Definition apply_conv (t : conv_table) (src : string -> N) (param : string -> N) (f : string) : N :=
  match find_row f t with
  | Some (Some s, chain) => cast_chain chain (src s)
  | Some (None, _) => param f
  | None => 0
  end.

(* narrowing direction (host -> wire): wire field = host field mod 2^(wire width) *)
Definition narrow_ok (t : conv_table) (p : string * string) : bool :=
  match find_row (fst p) t with
  | Some (Some s, chain) =>
    match chain with
    | _ :: _ :: _ => String.eqb s (snd p) && non_widening chain
    | _ => false
    end
  | _ => false
  end.

(* widening direction (wire -> host): host field = wire field *)
Definition widen_ok (t : conv_table) (p : string * string) : bool :=
  match find_row (snd p) t with
  | Some (Some s, chain) =>
    match chain with
    | _ :: _ => String.eqb s (fst p) && value_preserving chain
    | _ => false
    end
  | _ => false
  end.

Definition chain_of (t : conv_table) (f : string) : list ity :=
  match find_row f t with Some (_, c) => c | None => [] end.
Definition src_ty (t : conv_table) (f : string) : ity :=
  match chain_of t f with a :: _ => a | [] => (0, false) end.
Definition dst_ty (t : conv_table) (f : string) : ity := last_ty (chain_of t f) (0, false).

Lemma narrow_sound t p src param :
  narrow_ok t p = true ->
  apply_conv t src param (fst p) = src (snd p) mod 2 ^ bits (dst_ty t (fst p)).
Proof.
  unfold narrow_ok, apply_conv, dst_ty, chain_of.
  destruct (find_row (fst p) t) as [[[s|] chain]|]; try discriminate.
  destruct chain as [|a [|b r]]; try discriminate.
  intro H. apply andb_prop in H. destruct H as [Hs Hn]. apply String.eqb_eq in Hs. subst s.
  rewrite (non_widening_is_mod a (b :: r)); [|discriminate|exact Hn].
  rewrite (last_ty_indep (b :: r) a a (0, false)). reflexivity.
Qed.

Lemma widen_sound t p src param :
  widen_ok t p = true -> src (fst p) < 2 ^ bits (src_ty t (snd p)) ->
  apply_conv t src param (snd p) = src (fst p).
Proof.
  unfold widen_ok, apply_conv, src_ty, chain_of.
  destruct (find_row (snd p) t) as [[[s|] chain]|]; try discriminate.
  destruct chain as [|a r]; try discriminate.
  intros H Hv. apply andb_prop in H. destruct H as [Hs Hn]. apply String.eqb_eq in Hs. subst s.
  apply value_preserving_id; assumption.
Qed.

(* the wire field's declared type in the crate struct equals the conversion's end type *)
Definition field_ity (sname f : string) : option ity :=
  match lookup sname rust_structs with
  | None => None
  | Some fs => match lookup f fs with Some (TInt w s) => Some (w, s) | _ => None end
  end.

Definition ity_eqb (a b : ity) : bool := (fst a =? fst b) && Bool.eqb (snd a) (snd b).

Definition conv_types_ok (sname : string) (narrow widen : conv_table) (p : string * string) : bool :=
  match field_ity sname (fst p) with
  | None => false
  | Some t => ity_eqb (dst_ty narrow (fst p)) t && ity_eqb (src_ty widen (snd p)) t
  end.
