(* Proofs/RustPureSeal.v -- Model/Seal.v [seal_size_check] IS what PassthroughFs::seal_size_check
   (src/passthrough/mod.rs) computes, for all sizes, offsets and fallocate modes (C18). *)
From Coq Require Import List NArith ZArith String Bool Lia.
From FB Require Import Lib.RustExpr Gen.RustPure Proofs.RustPure Model.Seal.
Import ListNotations.
Local Open Scope N_scope.

Definition op_write : string := "Opcode::Write".
Definition op_fallocate : string := "Opcode::Fallocate".

(* io::Result<()> of the source for the model's errno (0 = Ok(())) *)
Definition seal_result (e : N) : RustExpr.outcome :=
  if e =? 0 then Val (VOk VUnit) else Val (VErr (VInt I32 e)).

Lemma src_seal_size_check_write : forall fsz off len mode,
  fsz < 18446744073709551616 -> off < 18446744073709551616 -> len < 18446744073709551616 -> mode < 4294967296 ->
  eval_fn Debug seal_size_check_src [VEnum "Opcode::Write"; VInt U64 fsz; VInt U64 off; VInt U64 len; VInt I32 mode] =
  seal_result (seal_size_check true fsz off len mode).
Proof. intros. rsolve. Qed.

Lemma src_seal_size_check_fallocate : forall fsz off len mode,
  fsz < 18446744073709551616 -> off < 18446744073709551616 -> len < 18446744073709551616 -> mode < 4294967296 ->
  eval_fn Debug seal_size_check_src [VEnum "Opcode::Fallocate"; VInt U64 fsz; VInt U64 off; VInt U64 len; VInt I32 mode] =
  seal_result (seal_size_check false fsz off len mode).
Proof.
  intros fsz off len mode Hf Ho Hl Hm.
  rsolve_with bitnorm.
Qed.

(* any other opcode: ENOSYS once offset + size fits (the model is only ever asked about WRITE and FALLOCATE) *)
Lemma src_seal_size_check_other : forall op fsz off len mode,
  enum_eqb op "Opcode::Write" = false -> enum_eqb op "Opcode::Fallocate" = false ->
  fsz < 18446744073709551616 -> off < 18446744073709551616 -> len < 18446744073709551616 -> mode < 4294967296 ->
  eval_fn Debug seal_size_check_src [VEnum op; VInt U64 fsz; VInt U64 off; VInt U64 len; VInt I32 mode] =
  if off + len <? 18446744073709551616 then Val (VErr (VInt I32 ENOSYS)) else Val (VErr (VInt I32 EINVAL)).
Proof. intros op fsz off len mode Hw Hf. intros. rcbv. rewrite Hw, Hf. nfold. repeat split_if; leaf. Qed.

(* the same in a release build: the checked_add guard makes the later `size + offset` overflow-free, so the two
   builds agree *)
Lemma src_seal_size_check_release : forall (w : bool) fsz off len mode,
  fsz < 18446744073709551616 -> off < 18446744073709551616 -> len < 18446744073709551616 -> mode < 4294967296 ->
  eval_fn RustExpr.Release seal_size_check_src [VEnum (if w then "Opcode::Write" else "Opcode::Fallocate")%string; VInt U64 fsz; VInt U64 off; VInt U64 len; VInt I32 mode] =
  seal_result (seal_size_check w fsz off len mode).
Proof.
  intros w fsz off len mode Hf Ho Hl Hm. destruct w.
  - rsolve.
  - rsolve_with bitnorm.
Qed.
