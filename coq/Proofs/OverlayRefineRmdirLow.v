(* Per-operation refinement: RMDIR of a directory that only lower layers hold (its parent is a directory of the upper layer) and
   that is empty IN THE VIEW: every name a directory merged into it holds has a whiteout - of a lower layer - as first candidate.
   Nothing is emptied (the node has no upper part); a whiteout is written.  Complements Proofs/OverlayRefineWh.v (no entries at
   all) and Proofs/OverlayRefineRmdir.v (target in the upper layer). *)
From Coq Require Import List String Arith NArith Bool Lia.
From FB Require Import Model.Overlay Proofs.OverlayInv Proofs.OverlayScan Proofs.OverlayRestart
  Proofs.OverlayReadOnly Proofs.OverlayCoh Proofs.OverlayCohView Proofs.OverlayCopyUp Proofs.OverlayCohOps
  Proofs.OverlayCohSteps Proofs.OverlayRefineTeq Proofs.OverlayRefineMerge Proofs.OverlayRefineRun Proofs.OverlayRefine
  Proofs.OverlayRefineWh Proofs.OverlayRefineCu Proofs.OverlayRefineRmdir.
Import ListNotations.
Local Open Scope N_scope.

(* the children of the (loaded) node of a view-empty directory are all whiteout nodes *)
Lemma view_empty_children s u (q : path) c t0 rest0 : Coherent s -> upper s = Some u -> nget q (root s) = Some c -> n_loaded c = true ->
  mstack (u :: lowers s) q = t0 :: rest0 -> view_empty (t0 :: rest0) ->
  filter (fun kv : name * node => negb (n_wh (snd kv))) (n_ch c) = [].
Proof.
  intros HC Hu Hg Hld Hms Hemp.
  pose proof HC as (_ & _ & HCT). pose proof (HCT q c Hg) as Nc. cbn [app] in Nc.
  destruct (ok_ld _ _ _ _ Nc Hld) as (_ & _ & K). pose proof (ok_nodup _ _ _ _ Nc) as Hnd.
  apply filter_all_false. intros [k ck] Hin. cbn [snd]. pose proof (afind_In_nodup k ck _ Hnd Hin) as Hk.
  pose proof (nget_snoc q k (root s) c ck Hg Hk) as Hgk.
  assert (Hne : lstack (shp s) (List.length (lowers s)) (q ++ [k]) <> []).
  { rewrite lstack_snoc. intros E. apply K in E. congruence. }
  destruct (lstack (shp s) (List.length (lowers s)) (q ++ [k])) as [|i0 ir] eqn:El; [contradiction|].
  pose proof (lstack_rel s u (q ++ [k]) Hu) as R. rewrite El in R.
  destruct (mstack (u :: lowers s) (q ++ [k])) as [|t' r'] eqn:Em; [inversion R|]. assert (He : entR s (q ++ [k]) i0 t') by (inversion R; assumption).
  rewrite mstack_snoc, Hms in Em. specialize (Hemp k). rewrite Em in Hemp. subst t'.
  destruct (cand_node s _ ck i0 ir Wh HC Hgk El He) as (kr & krs & _ & _ & _ & _ & _ & Hkw & _). rewrite Hkw. reflexivity.
Qed.

Lemma do_rmdir_lowhid_run (pp : path) (nm : name) s u pn m x ch mq xq chq rest0 :
  Coherent s -> upper s = Some u -> nget pp (root s) = Some pn ->
  tget u pp = Some (Dir m x ch) -> afind nm ch = None ->
  mstack (u :: lowers s) (pp ++ [nm]) = Dir mq xq chq :: rest0 -> view_empty (Dir mq xq chq :: rest0) ->
  exists s', do_rm pp nm true s = (Ok tt, s') /\ upper s' = Some (tupd pp (dir_ins nm Wh) u) /\ lowers s' = lowers s.
Proof.
  intros HC Hu Hg Hpp Hnone Hms Hemp. set (q := pp ++ [nm]) in *. set (t0 := Dir mq xq chq) in *.
  destruct (upper_node s u pp pn _ HC Hu Hg Hpp) as (pr0 & prs0 & _ & _ & _ & _ & _ & Hw & Hfd). cbn in Hw, Hfd.
  destruct (lookup_run pp s pn HC Hg Hw) as (s1 & pn1 & HC1 & Hsd1 & Hg1 & Hw1 & Hr1 & _ & Hlk1).
  assert (Hu1 : upper s1 = Some u) by (destruct Hsd1 as (A & _); congruence).
  assert (Hl1 : lowers s1 = lowers s) by (destruct Hsd1 as (_ & B & _); exact B).
  destruct (lookup_cand_run pp nm s1 u pn1 m x ch t0 rest0 HC1 Hu1 Hg1 Hpp) as (s2 & pn2 & pr2 & prs2 & c & Elk2 & HC2 & Hsd2 & Hg2 & Hw2 & Hld2 & _ & _ & _ & _ & Hgq);
    [rewrite Hl1; exact Hms|]. fold q in Hgq, Elk2.
  pose proof (sd_trans _ _ _ Hsd1 Hsd2) as Hsd02. destruct Hsd02 as (U2 & L2 & I2).
  assert (Hu2 : upper s2 = Some u) by congruence.
  assert (Hms2 : mstack (u :: lowers s2) q = t0 :: rest0) by (rewrite L2; exact Hms).
  destruct (lstack_head_rel s2 u q t0 rest0 Hu2 Hms2) as (i0 & irest & Hl2 & He2).
  destruct (cand_node s2 q c i0 irest t0 HC2 Hgq Hl2 He2) as (cr & crs & Ecr & _ & _ & Hcup & Hstc & Hwc & _). cbn in Hwc.
  (* the directory is loaded; it shows nothing *)
  destruct (load_dir_run q s2 c _ _ _ HC2 Hgq Hstc) as (s3 & c3 & E3 & HC3 & Hsd3 & Hg3 & Hld3 & Hroot3).
  assert (Hu3 : upper s3 = Some u) by (destruct Hsd3 as (A & _); congruence).
  assert (Hl3 : lowers s3 = lowers s) by (destruct Hsd3 as (_ & B & _); congruence).
  assert (Hms3 : mstack (u :: lowers s3) q = t0 :: rest0) by (rewrite Hl3; exact Hms).
  assert (Hpn3 : exists pn3, nget pp (root s3) = Some pn3).
  { destruct Hroot3 as [->|[g ->]]; [eauto|]. unfold q. apply (nget_parent_nupd pp nm g (root s2) pn2 Hg2). }
  destruct Hpn3 as [pn3 Hgp3].
  destruct (lstack_head_rel s3 u q t0 rest0 Hu3 Hms3) as (j0 & jrest & Hlq3 & Heq3).
  destruct (cand_node s3 q c3 j0 jrest t0 HC3 Hg3 Hlq3 Heq3) as (cr3 & crs3 & Ecr3 & _ & _ & Hcup3 & Hstc3 & _ & _).
  destruct (cand_upper_cases s3 u pp nm m x ch t0 rest0 j0 jrest Hu3 Hpp Hms3 Hlq3) as [(Hnm & _)|(_ & Hj0 & _)]; [congruence|].
  apply Nat.eqb_neq in Hj0.
  assert (Hin3 : in_upper c3 = false) by (unfold in_upper; rewrite Ecr3, Hcup3; exact Hj0).
  assert (Huo : upper_only c3 = false) by (unfold upper_only; rewrite Ecr3; destruct crs3; [rewrite Hcup3; exact Hj0|reflexivity]).
  pose proof (view_empty_children s3 u q c3 t0 rest0 HC3 Hu3 Hg3 Hld3 Hms3 Hemp) as Hcnt.
  destruct (upper_node s3 u pp pn3 _ HC3 Hu3 Hgp3 Hpp) as (pr & prs & Er & Hup & Hl0 & Hpath & _ & Hw3 & _).
  (* the run *)
  unfold do_rm. rewrite (bind_ok _ _ _ _ _ (need_upper_ok s u Hu)), (bind_ok _ _ _ _ _ (Hlk1 None)).
  rewrite (bind_ok _ _ _ _ _ (get_node_ok pp s1 pn1 Hg1)), Hw1.
  rewrite (bind_ok _ _ _ _ _ Elk2), (bind_ok _ _ _ _ _ (get_node_ok q s2 c Hgq)), Hwc.
  assert (Emid : (load_dir q;;; n1 <- get_node q;; st <- stat_node n1;;
      (if negb (is_dirT st) then fail ENOTDIR else
       if negb (Nat.eqb (List.length (filter (fun kv : name * node => negb (n_wh (snd kv))) (n_ch n1))) 0) then fail ENOTEMPTY else
       if negb (Nat.eqb (List.length (filter (fun kv : name * node => n_wh (snd kv)) (n_ch n1))) 0) && in_upper n1 then empty_node_directory q else ret tt)) s2 = (Ok tt, s3)).
  { rewrite (bind_ok _ _ _ _ _ E3), (bind_ok _ _ _ _ _ (get_node_ok q s3 c3 Hg3)).
    assert (Es : stat_node c3 s3 = (Ok t0, s3)) by (unfold stat_node; rewrite Hstc3; reflexivity).
    rewrite (bind_ok _ _ _ _ _ Es). unfold t0 at 1. cbn [is_dirT negb]. rewrite Hcnt, Hin3, andb_false_r. reflexivity. }
  rewrite (bind_ok _ _ _ _ _ Emid).
  rewrite (bind_ok _ _ _ _ _ (copy_up_noop pp s3 pn3 pr prs Hgp3 Er Hup)).
  rewrite (bind_ok _ _ _ _ _ (get_node_ok q s3 c3 Hg3)), (bind_ok _ _ _ _ _ (get_node_ok pp s3 pn3 Hgp3)).
  rewrite Huo. assert (Er0 : ret true s3 = (Ok true, s3)) by reflexivity. rewrite (bind_ok _ _ _ _ _ Er0), Hin3, (bind_ok _ _ _ _ _ Er0).
  unfold remove_child at 1. unfold mod_node at 1. unfold bind at 1.
  set (s5 := mkState (upper s3) (lowers s3) (nupd pp (fun n => Node (n_reals n) (n_wh n) (n_loaded n) (adel nm (n_ch n))) (root s3)) (next_ino s3) (log s3)).
  assert (Hg5 : nget pp (root s5) = Some (Node (n_reals pn3) (n_wh pn3) (n_loaded pn3) (adel nm (n_ch pn3)))) by (cbn [root s5]; rewrite nget_nupd, Hgp3; reflexivity).
  rewrite (bind_ok _ _ _ _ _ (get_node_ok pp s5 _ Hg5)), (bind_ok _ _ _ _ _ (upper_real_ok _ pr prs EINVAL s5 Er Hup)).
  assert (E6 : ri_whiteout pr nm s5 = (Ok (mkReal 0 true (pp ++ [nm]) true false false), set_layer s5 0 (tupd pp (dir_ins nm Wh) u))).
  { unfold ri_whiteout, ri_guard. rewrite Hup. unfold bind at 1. cbn [ret]. unfold bind at 1. rewrite Hl0, Hpath.
    rewrite (mutate0_ok (h_create_whiteout pp nm) s5 u (tupd pp (dir_ins nm Wh) u)); [reflexivity|exact Hu3|].
    unfold h_create_whiteout. rewrite tget_app, Hpp, Hnone. unfold h_insert. rewrite Hpp, Hnone. reflexivity. }
  rewrite (bind_ok _ _ _ _ _ E6). unfold insert_child, mod_node. eexists. split; [reflexivity|].
  cbn [upper lowers set_layer s5]. rewrite Hu3. auto.
Qed.

Theorem step_rmdir_lowhid_run (pp : path) (nm : name) s u m x ch mq xq chq rest0 :
  Coherent s -> upper s = Some u -> tget u pp = Some (Dir m x ch) -> afind nm ch = None ->
  mstack (u :: lowers s) (pp ++ [nm]) = Dir mq xq chq :: rest0 -> view_empty (Dir mq xq chq :: rest0) ->
  exists s', step (ORmdir (pp ++ [nm])) s = (Ok ""%string, s') /\ upper s' = Some (tupd pp (dir_ins nm Wh) u) /\ lowers s' = lowers s.
Proof.
  intros HC Hu Hpp Hnone Hms Hemp.
  destruct (walk_run u pp [] s (root s) _ HC Hu eq_refl Hpp eq_refl) as (s1 & n1 & E1 & HC1 & (U1 & L1 & I1) & Hg1). cbn [app] in Hg1.
  assert (Hu1 : upper s1 = Some u) by congruence.
  destruct (do_rmdir_lowhid_run pp nm s1 u n1 m x ch mq xq chq rest0 HC1 Hu1 Hg1 Hpp Hnone) as (s' & E & U' & L'); [rewrite L1; exact Hms|exact Hemp|].
  exists s'. split; [|split; [exact U'|congruence]].
  cbn [step]. rewrite with_parent_snoc. unfold walk. rewrite (bind_ok _ _ _ _ _ E1), (bind_ok _ _ _ _ _ E). reflexivity.
Qed.

Lemma rm_lowhid_merge u ls (pp : path) (nm : name) m x ch mq xq chq rest0 f mv :
  Forall wf (u :: ls) -> tget u pp = Some (Dir m x ch) -> afind nm ch = None ->
  mstack (u :: ls) (pp ++ [nm]) = Dir mq xq chq :: rest0 -> view_empty (Dir mq xq chq :: rest0) ->
  DEPTH = (S (S f) + List.length pp)%nat -> merge (u :: ls) = Some mv ->
  oteq (merge (tupd pp (dir_ins nm Wh) u :: ls)) (Some (tupd pp (dir_del nm) mv)) /\
  h_rmdir pp nm mv = Ok (tupd pp (dir_del nm) mv).
Proof.
  intros W Hpp Hnone Hms Hemp Hd Hm. destruct (mstack_head pp u ls _ Hpp) as [r Hr].
  pose proof (wf_tget _ (Forall_inv W) _ _ Hpp) as Wd.
  assert (Hn : NoDup (map fst ch)) by (inversion Wd; assumption).
  split.
  - assert (HG : only_at nm (aset nm Wh) ch).
    { split; [apply keys_aset; exact Hn|]. split.
      - intros k Hk. apply String.eqb_neq in Hk. rewrite afind_aset, Hk. reflexivity.
      - intros c0 H0. rewrite afind_aset_same in H0. assert (E : c0 = Wh) by congruence. rewrite E. constructor. }
    pose proof (merge_tupd nm (aset nm Wh) (S f) pp u ls m x ch W Hpp HG Hd) as M. cbv zeta in M.
    rewrite Hm in M. cbn [option_map] in M.
    assert (E : tupd pp (chmap (aset nm Wh)) u = tupd pp (dir_ins nm Wh) u) by (apply tupd_ext; intros d; symmetry; apply dir_ins_chmap).
    rewrite E in M. clear E.
    rewrite (dir_stack_head m x (aset nm Wh ch)), ents_cons in M. cbn [dir_children] in M. rewrite afind_aset_same in M. exact M.
  - destruct (tget_merge (S f) pp u ls _ W Hpp eq_refl Hd) as (r0 & Hr0 & Ht). rewrite Hm in Hr0. assert (E0 : r0 = mv) by congruence. rewrite E0 in Ht. clear E0 Hr0.
    rewrite Hr in Ht. assert (Wr : Forall wf (Dir m x ch :: r)) by (rewrite <- Hr; apply mstack_wf; exact W).
    destruct (resolve_dir_spec (S f) m x ch r Wr) as (chs & Er & N & K). rewrite Er in Ht.
    assert (Wq : Forall wf (Dir mq xq chq :: rest0)) by (rewrite <- Hms; apply mstack_wf; exact W).
    assert (E0 : afind nm chs = Some (Dir mq (user_xs xq) [])).
    { rewrite K. pose proof Hms as H. rewrite mstack_snoc, Hr in H. rewrite H. apply resolve_view_empty'; assumption. }
    unfold h_rmdir. rewrite Ht, E0. reflexivity.
Qed.

Theorem refines_rmdir_lowhid s (pp : path) (nm : name) u m x ch mq xq chq rest0 v :
  Coherent s -> upper s = Some u -> tget u pp = Some (Dir m x ch) -> afind nm ch = None ->
  mstack (u :: lowers s) (pp ++ [nm]) = Dir mq xq chq :: rest0 -> view_empty (Dir mq xq chq :: rest0) ->
  (List.length (pp ++ [nm]) < DEPTH)%nat -> view (load_all s) = Some v -> refines_at s (ORmdir (pp ++ [nm])) v.
Proof.
  intros HC Hu Hpp Hnone Hms Hemp Hlen Hv.
  destruct (step_rmdir_lowhid_run pp nm s u m x ch mq xq chq rest0 HC Hu Hpp Hnone Hms Hemp) as (s' & Hrun & Hu' & Hl').
  unfold refines_at, run_op. rewrite Hrun. cbn [fst snd].
  assert (Hd : exists f, DEPTH = (S (S f) + List.length pp)%nat).
  { rewrite app_length in Hlen. cbn [List.length] in Hlen. exists (DEPTH - 2 - List.length pp)%nat. lia. }
  destruct Hd as [f Hd].
  pose proof (coherent_wf_layers s u HC Hu) as W.
  destruct (refine_from_disk s (ORmdir (pp ++ [nm])) v _ s' HC eq_refl Hv Hrun) as [R T]; [|cbv zeta; auto].
  intros mv Hm. rewrite Hu in Hm. cbn [all_layers] in Hm. rewrite Hu', Hl'. cbn [all_layers]. cbv zeta.
  destruct (rm_lowhid_merge u (lowers s) pp nm m x ch mq xq chq rest0 f mv W Hpp Hnone Hms Hemp Hd Hm) as [M I].
  cbn [fs_apply]. rewrite split_last_snoc. unfold fs_mut. cbn [f_tree f_next]. rewrite I. cbn [fst snd f_tree]. split; [reflexivity|exact M].
Qed.

(* [direct_rmdir_low s o]: rmdir, below a directory of the upper layer, of a directory that the upper layer does not hold and whose
   merged parts show no entry (every name they hold has a whiteout as first candidate) *)
Definition direct_rmdir_low (s : state) (o : op) : bool :=
  match upper s, o with
  | Some u, ORmdir p =>
      match split_last p with
      | Some (pp, nm) =>
          (List.length p <? DEPTH)%nat && match tget u pp with Some (Dir _ _ _) => true | _ => false end &&
          match tget u p with None => true | Some _ => false end &&
          match mstack (u :: lowers s) p with Dir _ _ _ :: _ => true | _ => false end && view_emptyb (mstack (u :: lowers s) p)
      | None => false
      end
  | _, _ => false
  end.
Theorem op_refines_rmdir_low s o v : Coherent s -> direct_rmdir_low s o = true -> view (load_all s) = Some v -> refines_at s o v.
Proof.
  intros HC Hd Hv. unfold direct_rmdir_low in Hd. destruct (upper s) as [u|] eqn:Hu; [|discriminate]. destruct o; try discriminate.
  destruct (split_last p) as [[pp nm]|] eqn:Esp; [|discriminate]. apply split_last_spec in Esp. subst p.
  apply andb_prop in Hd. destruct Hd as [Hd H5]. apply andb_prop in Hd. destruct Hd as [Hd H4]. apply andb_prop in Hd. destruct Hd as [Hd H3].
  apply andb_prop in Hd. destruct Hd as [H1 H2]. apply Nat.ltb_lt in H1.
  destruct (tget u pp) as [[m x ch| | |]|] eqn:Hpp; try discriminate.
  destruct (tget u (pp ++ [nm])) eqn:Hq; [discriminate|].
  assert (Hnone : afind nm ch = None) by (rewrite tget_app, Hpp in Hq; exact Hq).
  destruct (mstack (u :: lowers s) (pp ++ [nm])) as [|[mq xq chq| | |] rest0] eqn:Hms; try discriminate.
  pose proof (coherent_wf_layers s u HC Hu) as W.
  assert (Hemp : view_empty (Dir mq xq chq :: rest0)) by (rewrite <- Hms; apply view_emptyb_ok; [apply mstack_wf; exact W|rewrite Hms; exact H5]).
  exact (refines_rmdir_lowhid s pp nm u m x ch mq xq chq rest0 v HC Hu Hpp Hnone Hms Hemp H1 Hv).
Qed.
