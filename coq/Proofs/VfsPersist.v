(* Save / restore of the VFS state (feature persist). *)
From Coq Require Import List NArith Bool Lia.
From FB Require Import Model.Pseudo Gen.VfsTable Model.Vfs Model.Persist
  Proofs.VfsCodec Proofs.VfsAlloc Proofs.VfsInv Proofs.VfsRouting.
Import ListNotations.
Local Open Scope N_scope.

(* ---------- what restore_from_bytes puts back ---------- *)
Theorem restore_fields : forall t s t', vfs_restore t (vfs_save s) = (t', Ok tt) ->
  v_next t' = v_next s /\ ps_next (v_ps t') = ps_next (v_ps s) /\ v_opts t' = v_opts s /\ v_maps t' = v_maps s /\
  v_init t' = negb (o_in (v_opts s) =? 0) /\
  (* not part of the snapshot: stay as the fresh Vfs was constructed *)
  v_gmap t' = v_gmap t /\ v_rm t' = v_rm t /\ v_sb t' = v_sb t /\ v_mps t' = v_mps t.
Proof.
  intros t s t'. unfold vfs_restore, vfs_save. cbn [st_maps st_opts st_next_super].
  destruct (ps_restore (v_ps t) _) as [ps'| |] eqn:Ep; intros H; inversion H; subst t'.
  cbn. repeat split.
  unfold ps_restore in Ep. destruct (aget ROOT_ID (ps_inodes (v_ps t))); [|discriminate].
  cbn [bind st_inodes st_next_inode] in Ep.
  match type of Ep with bind ?c _ = _ => destruct c end; try discriminate. cbn [bind] in Ep. inversion Ep. reflexivity.
Qed.

(* ---------- the same future allocations ---------- *)
Lemma alloc_loop_ext : forall fuel sb1 sb2 start next found, (forall i, aget i sb1 = aget i sb2) ->
  alloc_loop fuel sb1 start next found = alloc_loop fuel sb2 start next found.
Proof.
  induction fuel as [|f IH]; intros sb1 sb2 start next found E; [reflexivity|].
  cbn [alloc_loop]. rewrite (E next), (IH sb1 sb2 _ _ _ E). reflexivity.
Qed.

Theorem future_same : forall s t, v_next t = v_next s -> (forall i, aget i (v_sb t) = aget i (v_sb s)) ->
  ps_next (v_ps t) = ps_next (v_ps s) ->
  allocate_fs_idx t = allocate_fs_idx s /\ ps_next (v_ps t) = ps_next (v_ps s).
Proof.
  intros s t Hn Hsb Hp. split; [|exact Hp]. unfold allocate_fs_idx. rewrite Hn. apply alloc_loop_ext. exact Hsb.
Qed.

(* ---------- re-attaching a backend at its recorded index ---------- *)
Theorem reattach_slot : forall t bid idx p a t' evs, vfs_restore_mount t bid idx p a = (t', Ok tt, evs) ->
  aget idx (v_sb t') = Some bid /\ v_next t' = v_next t /\ v_maps t' = v_maps t /\ v_opts t' = v_opts t /\
  v_init t' = v_init t /\
  exists pino m, aget pino (v_mps t') = Some m /\ mp_idx m = idx /\ mp_ino m = ma_ino a.
Proof.
  intros t bid idx p a t' evs. unfold vfs_restore_mount.
  destruct (negb (ma_err a =? 0)); [intros H; inversion H|].
  destruct (VFS_MAX_INO <? ma_max a); [intros H; inversion H|].
  destruct (insert_mount t bid (root_entry_of a) idx p) as [s' r] eqn:Ei. intros H. inversion H; subst s' r evs.
  unfold insert_mount in Ei. destruct (ps_mount (v_ps t) p) as [[ps' inode]| |]; try (inversion Ei; fail).
  destruct (convert_entry (with_ps t ps') idx (e_ino (root_entry_of a)) (root_entry_of a)); try (inversion Ei; fail).
  inversion Ei; subst t'. cbn [v_sb v_next v_maps v_opts v_init v_mps with_ps]. rewrite aget_aset_same.
  repeat split. exists inode. eexists. rewrite aget_aset_same. split; [reflexivity|]. cbn. auto.
Qed.

(* an inode number issued before the save routes to the re-attached backend *)
Theorem reattached_routes : forall t bid idx ino, 0 < idx < 256 -> 0 < ino <= VFS_MAX_INO ->
  aget idx (v_sb t) = Some bid -> eff t (mk_vino idx ino) = Some (bid, idx, ino).
Proof.
  intros t bid idx ino Hi Hn Hs. unfold eff.
  rewrite (fs_idx_mk idx ino) by lia. rewrite (ino_of_mk idx ino) by lia.
  assert (E : idx =? 0 = false) by (apply N.eqb_neq; lia). rewrite E, Hs. reflexivity.
Qed.

(* ---------- initialized ---------- *)
Definition initialized_full : Prop := forall t s t', reachable s ->
  vfs_restore t (vfs_save s) = (t', Ok tt) -> v_init t' = v_init s.

Theorem initialized_partial : forall t s t', vfs_restore t (vfs_save s) = (t', Ok tt) ->
  v_init s = negb (o_in (v_opts s) =? 0) -> v_init t' = v_init s.
Proof.
  intros t s t' H E. destruct (restore_fields _ _ _ H) as (_ & _ & _ & _ & Hi & _). congruence.
Qed.

(* refuted: INIT with no capability bits; the restored Vfs is not initialized *)
Definition ex_init0 : vfs := fst (fst (vfs_init (vfs_new default_opts false) 0 0)).
Theorem initialized_refuted : ~ initialized_full.
Proof.
  intros F.
  assert (R : reachable ex_init0).
  { unfold ex_init0. eapply R_init; [apply R_new|apply triple_eta]. }
  specialize (F (vfs_new default_opts false) ex_init0 (fst (vfs_restore (vfs_new default_opts false) (vfs_save ex_init0))) R).
  assert (E : vfs_restore (vfs_new default_opts false) (vfs_save ex_init0) =
              (fst (vfs_restore (vfs_new default_opts false) (vfs_save ex_init0)), Ok tt)) by (vm_compute; reflexivity).
  specialize (F E). vm_compute in F. discriminate F.
Qed.

(* ---------- the global id mapping ---------- *)
Definition gmap_of_opts (o : vopts) : option mapping :=
  let '(_, _, r) := o_idmap o in if r =? 0 then None else Some (o_idmap o).

Definition global_mapping_full : Prop := forall o rm s t', reachable s ->
  vfs_restore (vfs_new o rm) (vfs_save s) = (t', Ok tt) -> v_gmap t' = gmap_of_opts (v_opts t').

(* holds when the fresh Vfs was constructed with the id_mapping option the snapshot holds *)
Theorem global_mapping_partial : forall o rm s t', vfs_restore (vfs_new o rm) (vfs_save s) = (t', Ok tt) ->
  o_idmap o = o_idmap (v_opts s) -> v_gmap t' = gmap_of_opts (v_opts t').
Proof.
  intros o rm s t' H E. destruct (restore_fields _ _ _ H) as (_ & _ & Ho & _ & _ & Hg & _).
  rewrite Hg, Ho. unfold vfs_new, gmap_of_opts. cbn [v_gmap]. rewrite E. reflexivity.
Qed.

Definition ex_gm : vfs := vfs_new (mkO 0 default_out_opts true true false false false false (0, 1000, 65536)) false.
Theorem global_mapping_refuted : ~ global_mapping_full.
Proof.
  intros F. specialize (F default_opts false ex_gm (fst (vfs_restore (vfs_new default_opts false) (vfs_save ex_gm))) (R_new _ _)).
  assert (E : vfs_restore (vfs_new default_opts false) (vfs_save ex_gm) =
              (fst (vfs_restore (vfs_new default_opts false) (vfs_save ex_gm)), Ok tt)) by (vm_compute; reflexivity).
  specialize (F E). vm_compute in F. discriminate F.
Qed.

(* ---------- version 1 snapshots ---------- *)
Theorem v1_loads : forall t s, vfs_restore t (as_v1 (vfs_save s)) = vfs_restore t (vfs_save (with_maps s [])).
Proof. intros t s. reflexivity. Qed.

(* ---------- the pseudo tree: what restore_from_state rebuilds ---------- *)
Definition kids (j : N) (l : list (N * N * N)) : list (N * N) :=
  map (fun x => (fst (fst x), snd x)) (filter (fun x => snd (fst x) =? j) l).

Definition add_kids (l : list (N * N * N)) (j : N) (pn : pinode) : pinode :=
  mkPi (pi_parent pn) (pi_name pn) (pi_children pn ++ kids j l).

(* connecting the inodes (in the given order) appends to every directory exactly its children, in that order;
   it fails exactly when some inode's parent is missing *)
Lemma connect_spec : forall l tbl,
  (forall x, In x l -> aget (fst (fst x)) tbl <> None /\ aget (snd (fst x)) tbl <> None) ->
  exists tbl', connect tbl l = Ok tbl' /\
    forall j, aget j tbl' = option_map (add_kids l j) (aget j tbl).
Proof.
  induction l as [|[[ino parent] nm] r IH]; intros tbl Hall.
  - exists tbl. split; [reflexivity|]. intros j. unfold add_kids, kids. cbn.
    destruct (aget j tbl) as [pn|]; [|reflexivity]. cbn. rewrite app_nil_r. destruct pn; reflexivity.
  - destruct (Hall (ino, parent, nm) (or_introl eq_refl)) as [Hi Hp]. cbn [fst snd] in Hi, Hp.
    cbn [connect]. destruct (aget ino tbl) as [pi|]; [|contradiction]. destruct (aget parent tbl) as [par|] eqn:Epar; [|contradiction].
    set (tbl1 := aset parent (mkPi (pi_parent par) (pi_name par) (pi_children par ++ [(ino, nm)])) tbl).
    assert (Hall1 : forall x, In x r -> aget (fst (fst x)) tbl1 <> None /\ aget (snd (fst x)) tbl1 <> None).
    { intros x Hx. destruct (Hall x (or_intror Hx)) as [A B]. unfold tbl1. rewrite !aget_aset.
      split; [destruct (fst (fst x) =? parent)|destruct (snd (fst x) =? parent)]; try discriminate; assumption. }
    destruct (IH tbl1 Hall1) as (tbl' & Ec & Hs). exists tbl'. split; [exact Ec|].
    intros j. rewrite Hs. unfold tbl1. rewrite aget_aset. unfold add_kids, kids. cbn [filter fst snd].
    destruct (j =? parent) eqn:Ej.
    + apply N.eqb_eq in Ej. subst j. rewrite Epar, N.eqb_refl. cbn. rewrite <- app_assoc. reflexivity.
    + rewrite N.eqb_sym, Ej. reflexivity.
Qed.

(* a reachable state with two mounts (/n1 and /n2/n3) and its restoration *)
Definition ex_two : vfs :=
  let s0 := vfs_new default_opts false in
  let s1 := fst (fst (vfs_mount s0 10 (mkPath true [CNorm 1]) None (mkMA 0 1 0 0 0 1000 0))) in
  fst (fst (vfs_mount s1 11 (mkPath true [CNorm 2; CNorm 3]) None (mkMA 0 1 0 0 0 1000 0))).
Lemma ex_restore : exists s t', reachable s /\ vfs_restore (vfs_new default_opts false) (vfs_save s) = (t', Ok tt) /\
  v_next t' = 3 /\ ps_next (v_ps t') = 5.
Proof.
  exists ex_two, (fst (vfs_restore (vfs_new default_opts false) (vfs_save ex_two))). split.
  - unfold ex_two. eapply R_mount; [eapply R_mount; [apply R_new|]|]; apply triple_eta.
  - vm_compute. repeat split.
Qed.
