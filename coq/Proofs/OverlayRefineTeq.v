(* Trees compared as finite maps ([teq], Proofs/OverlayCohView.v): equivalence properties, and the
   ordinary file system [fs_apply] respects it - equal result codes/payloads, [teq] trees afterwards.
   Used by the per-operation refinement theorems (Proofs/OverlayRefine*.v): the client's view of a
   coherent state and the overlayfs union of its layers agree only up to the order of entries. *)
From Coq Require Import List String Arith NArith Bool Lia.
From FB Require Import Model.Overlay Proofs.OverlayInv Proofs.OverlayScan Proofs.OverlayRestart
  Proofs.OverlayCoh Proofs.OverlayCohView Proofs.OverlayCohOps Proofs.OverlayCohSteps.
Import ListNotations.
Local Open Scope N_scope.

(* ------------------------------------------------------------------ induction over trees with the children *)
Section TreeInd.
Variable P : tree -> Prop.
Hypothesis Hdir : forall m x ch, Forall (fun kv => P (snd kv)) ch -> P (Dir m x ch).
Hypothesis Hfile : forall i m d x, P (File i m d x).
Hypothesis Hlnk : forall t, P (Lnk t).
Hypothesis Hwh : P Wh.
Fixpoint tree_ind2 (t : tree) : P t :=
  match t with
  | Dir m x ch =>
      Hdir m x ch ((fix go (l : list (name * tree)) : Forall (fun kv => P (snd kv)) l :=
                      match l with
                      | [] => Forall_nil _
                      | kv :: r => @Forall_cons _ (fun kv => P (snd kv)) kv r (tree_ind2 (snd kv)) (go r)
                      end) ch)
  | File i m d x => Hfile i m d x
  | Lnk t => Hlnk t
  | Wh => Hwh
  end.
End TreeInd.

Lemma afind_In' {A} k (c : A) l : afind k l = Some c -> In (k, c) l.
Proof.
  induction l as [|[a x] l IH]; cbn [afind]; [discriminate|]. destruct (String.eqb k a) eqn:E.
  - apply String.eqb_eq in E; subst. intros H; inversion H; subst. left; reflexivity.
  - intros H. right. auto.
Qed.
Lemma Forall_afind {A} (Q : A -> Prop) k l v : Forall (fun kv => Q (snd kv)) l -> afind k l = Some v -> Q v.
Proof. intros HF HA. apply afind_In' in HA. rewrite Forall_forall in HF. exact (HF _ HA). Qed.
Lemma keys_adel_nd {A} nm (l : list (string * A)) : NoDup (map fst l) -> NoDup (map fst (adel nm l)).
Proof.
  intros Hn. induction l as [|[a x] l IH]; cbn [adel map fst] in *; [constructor|].
  inversion Hn as [|? ? Hnot Hn']; subst. destruct (String.eqb nm a); [auto|]. cbn [map fst]. constructor; [|auto].
  intros Hin. apply Hnot. clear -Hin. induction l as [|[b y] l IHl]; cbn [adel map fst] in *; [exact Hin|].
  destruct (String.eqb nm b); [right; auto|]. cbn [map fst] in Hin. destruct Hin as [H|H]; [left; exact H|right; auto].
Qed.
Lemma afind_amap_gen {A} c (f : A -> A) k l :
  afind k (amap c f l) = if String.eqb c k then option_map f (afind k l) else afind k l.
Proof.
  destruct (String.eqb c k) eqn:E.
  - apply String.eqb_eq in E; subst. apply afind_amap.
  - apply afind_amap_other. exact E.
Qed.

(* ------------------------------------------------------------------ teq is an equivalence on well-formed trees *)
Lemma teq_wf a : forall b, teq a b -> wf a /\ wf b.
Proof.
  induction a as [m x ch IH|i m d x|t|] using tree_ind2; intros b H;
    inversion H as [? ? ? ch2 N1 N2 H1 H2|? Hl]; subst; try (split; constructor); try discriminate.
  - exact N1.
  - apply Forall_forall. intros [k a] Hin. cbn [snd].
    assert (Hf : afind k ch = Some a) by (apply afind_In_nodup; assumption).
    destruct (H1 k a Hf) as (b & _ & Hab). rewrite Forall_forall in IH. exact (proj1 (IH (k, a) Hin b Hab)).
  - exact N2.
  - apply Forall_forall. intros [k b] Hin. cbn [snd].
    assert (Hf : afind k ch2 = Some b) by (apply afind_In_nodup; assumption).
    destruct (afind k ch) as [a|] eqn:Ea.
    + destruct (H1 k a Ea) as (b' & Hb' & Hab). rewrite Hf in Hb'. inversion Hb'; subst b'.
      rewrite Forall_forall in IH. exact (proj2 (IH (k, a) (afind_In' _ _ _ Ea) b Hab)).
    + rewrite (H2 k Ea) in Hf. discriminate.
Qed.
Lemma teq_refl a : wf a -> teq a a.
Proof.
  induction a as [m x ch IH|i m d x|t|] using tree_ind2; intros W; try (apply teq_leaf; reflexivity).
  inversion W as [? ? ? Hn Hall| | |]; subst. apply teq_dir; auto.
  intros k a Ha. exists a. split; [exact Ha|]. apply (Forall_afind (fun v => wf v -> teq v v) k ch a IH Ha).
  exact (Forall_afind (fun v => wf v) k ch a Hall Ha).
Qed.
Lemma teq_sym a : forall b, teq a b -> teq b a.
Proof.
  induction a as [m x ch IH|i m d x|t|] using tree_ind2; intros b H;
    inversion H as [? ? ? ch2 N1 N2 H1 H2|? Hl]; subst; try (apply teq_leaf; assumption).
  apply teq_dir; auto.
  - intros k b Hb. destruct (afind k ch) as [a|] eqn:Ea.
    + destruct (H1 k a Ea) as (b' & Hb' & Hab). rewrite Hb in Hb'. inversion Hb'; subst b'.
      exists a. split; [reflexivity|]. exact (Forall_afind (fun v => forall b, teq v b -> teq b v) k ch a IH Ea b Hab).
    + rewrite (H2 k Ea) in Hb. discriminate.
  - intros k Hb. destruct (afind k ch) as [a|] eqn:Ea; [|reflexivity].
    destruct (H1 k a Ea) as (b' & Hb' & _). congruence.
Qed.
Lemma teq_trans a : forall b c, teq a b -> teq b c -> teq a c.
Proof.
  induction a as [m x ch IH|i m d x|t|] using tree_ind2; intros b c H1 H2;
    inversion H1 as [? ? ? ch2 N1 N2 A1 A2|? Hl]; subst; try exact H2.
  inversion H2 as [? ? ? ch3 N2' N3 B1 B2|? Hl]; subst; [|discriminate]. apply teq_dir; [assumption|assumption| |].
  - intros k a Ha. destruct (A1 k a Ha) as (b & Hb & Hab). destruct (B1 k b Hb) as (c & Hc & Hbc).
    exists c. split; [exact Hc|]. exact (Forall_afind (fun v => forall b c, teq v b -> teq b c -> teq v c) k ch a IH Ha b c Hab Hbc).
  - intros k Ha. apply B2. apply A2. exact Ha.
Qed.
Lemma oteq_sym a b : oteq a b -> oteq b a.
Proof. destruct a, b; cbn; auto. apply teq_sym. Qed.
Lemma oteq_trans a b c : oteq a b -> oteq b c -> oteq a c.
Proof. destruct a, b, c; cbn; try tauto. apply teq_trans. Qed.

Lemma teq_dir' m x c1 c2 : NoDup (map fst c1) -> NoDup (map fst c2) ->
  (forall k, oteq (afind k c1) (afind k c2)) -> teq (Dir m x c1) (Dir m x c2).
Proof.
  intros N1 N2 H. apply teq_dir; auto.
  - intros k a Ha. specialize (H k). rewrite Ha in H. destruct (afind k c2) as [b|]; [|contradiction]. eauto.
  - intros k Ha. specialize (H k). rewrite Ha in H. destruct (afind k c2); [contradiction|reflexivity].
Qed.
Lemma teq_inv a b : teq a b ->
  (exists m x c1 c2, a = Dir m x c1 /\ b = Dir m x c2 /\ NoDup (map fst c1) /\ NoDup (map fst c2) /\
     forall k, oteq (afind k c1) (afind k c2)) \/ (is_dirT a = false /\ a = b).
Proof.
  intros H. inversion H as [m x c1 c2 N1 N2 H1 H2|? Hl]; subst; [left|right; auto].
  exists m, x, c1, c2. repeat split; auto. intros k. destruct (afind k c1) as [a|] eqn:Ea.
  - destruct (H1 k a Ea) as (b & -> & Hab). exact Hab.
  - rewrite (H2 k Ea). exact I.
Qed.
Ltac tinv H := let m := fresh "m" in let x := fresh "x" in let c1 := fresh "c1" in let c2 := fresh "c2" in
  let N1 := fresh "N1" in let N2 := fresh "N2" in let K := fresh "K" in let Hl := fresh "Hl" in
  destruct (teq_inv _ _ H) as [(m & x & c1 & c2 & -> & -> & N1 & N2 & K)|[Hl ->]].
Lemma nondir_cases (t : tree) : is_dirT t = false -> forall (P : tree -> Prop),
  (forall i m d x, P (File i m d x)) -> (forall tg, P (Lnk tg)) -> P Wh -> P t.
Proof. intros H P A B C. destruct t; [discriminate|apply A|apply B|apply C]. Qed.

Lemma teq_nondir a b : teq a b -> is_dirT a = false -> a = b.
Proof. intros H Hd. tinv H; [discriminate|reflexivity]. Qed.
Lemma teq_is_dir a b : teq a b -> is_dirT b = is_dirT a.
Proof. intros H. tinv H; reflexivity. Qed.
Lemma teq_afind m x c1 c2 k : teq (Dir m x c1) (Dir m x c2) -> oteq (afind k c1) (afind k c2).
Proof. intros H. destruct (teq_inv _ _ H) as [(m' & x' & d1 & d2 & E1 & E2 & _ & _ & K)|[Hl _]]; [|discriminate]. inversion E1; inversion E2; subst. apply K. Qed.
Lemma teq_kind a b : teq a b -> kind_of a = kind_of b /\ size_of a = size_of b /\ xs_of a = xs_of b.
Proof. intros H. tinv H; auto. Qed.

(* ------------------------------------------------------------------ tree operations respect teq *)
Lemma teq_tget p : forall a b, teq a b -> oteq (tget a p) (tget b p).
Proof.
  induction p as [|k p IH]; intros a b H; cbn [tget]; [exact H|].
  tinv H.
  - specialize (K k). destruct (afind k c1), (afind k c2); cbn in K; try contradiction; [apply IH; exact K|exact I].
  - destruct b; try discriminate; exact I.
Qed.
Definition respects (f : tree -> tree) : Prop := forall a b, teq a b -> teq (f a) (f b).
Lemma teq_tupd p f : respects f -> respects (tupd p f).
Proof.
  intros Hf. induction p as [|k p IH]; intros a b H; cbn [tupd]; [apply Hf; exact H|].
  tinv H; [|destruct b; try discriminate; apply teq_leaf; reflexivity].
  apply teq_dir'; rewrite ?keys_amap; auto.
  intros k'. rewrite !afind_amap_gen. specialize (K k'). destruct (String.eqb k k'); [|exact K].
  destruct (afind k' c1), (afind k' c2); cbn in K; try contradiction; cbn; [apply IH; exact K|exact I].
Qed.
Lemma respects_dir_ins n c : wf c -> respects (dir_ins n c).
Proof.
  intros Wc a b H. tinv H; [|destruct b; try discriminate; apply teq_leaf; reflexivity].
  cbn [dir_ins]. apply teq_dir'; try (apply keys_aset; assumption).
  intros k. rewrite !afind_aset. destruct (String.eqb k n); [apply teq_refl; exact Wc|apply K].
Qed.
Lemma respects_dir_del n : respects (dir_del n).
Proof.
  intros a b H. tinv H; [|destruct b; try discriminate; apply teq_leaf; reflexivity].
  cbn [dir_del]. apply teq_dir'; try (apply keys_adel_nd; assumption).
  intros k. rewrite !afind_adel. destruct (String.eqb k n); [exact I|apply K].
Qed.
Definition file_leaf (f : tree -> tree) : Prop := forall j m d x, is_dirT (f (File j m d x)) = false.
Lemma respects_tmap_ino i f : file_leaf f -> respects (tmap_ino i f).
Proof.
  intros Hf a. induction a as [m x ch IH|j m d x|t|] using tree_ind2; intros b H.
  - destruct (teq_inv _ _ H) as [(m' & x' & d1 & d2 & E1 & E2 & N1 & N2 & K)|[Hl _]]; [|discriminate].
    inversion E1; subst m' x' d1 b. cbn [tmap_ino]. apply teq_dir'; rewrite ?keys_map_snd; auto.
    intros k. rewrite !afind_map_snd'. specialize (K k). destruct (afind k ch) as [a0|] eqn:E0, (afind k d2) as [b0|]; cbn in K; try contradiction; cbn; [|exact I].
    exact (Forall_afind (fun v => forall b, teq v b -> teq (tmap_ino i f v) (tmap_ino i f b)) k ch a0 IH E0 b0 K).
  - rewrite <- (teq_nondir _ _ H eq_refl). cbn [tmap_ino]. destruct (i =? j); apply teq_leaf; [apply Hf|reflexivity].
  - rewrite <- (teq_nondir _ _ H eq_refl). apply teq_leaf; reflexivity.
  - rewrite <- (teq_nondir _ _ H eq_refl). apply teq_leaf; reflexivity.
Qed.

(* attribute / content functions: on a directory they keep the children *)
Definition dir_attr_fun (f : tree -> tree) : Prop :=
  file_leaf f /\ (forall m x, exists m' x', forall ch', f (Dir m x ch') = Dir m' x' ch') /\ (forall t, f (Lnk t) = Lnk t) /\ f Wh = Wh.
Lemma respects_attr f : dir_attr_fun f -> respects f.
Proof.
  intros (Hf & Hd & Hl & Hw) a b H. tinv H.
  - destruct (Hd m x) as (m' & x' & E). rewrite (E c1), (E c2). apply teq_dir'; assumption.
  - apply (nondir_cases b Hl0); intros.
    + apply teq_leaf. apply Hf.
    + rewrite Hl. apply teq_leaf. reflexivity.
    + rewrite Hw. apply teq_leaf. reflexivity.
Qed.
Lemma dir_attr_set_xs k v : dir_attr_fun (set_xs k v).
Proof. split; [intros j m d x; reflexivity|]. split; [intros m x; cbn; eauto|]. split; reflexivity. Qed.
Lemma dir_attr_del_xs k : dir_attr_fun (del_xs k).
Proof. split; [intros j m d x; reflexivity|]. split; [intros m x; cbn; eauto|]. split; reflexivity. Qed.
Lemma dir_attr_set_mode mo : dir_attr_fun (set_mode mo).
Proof. split; [intros j m d x; reflexivity|]. split; [intros m x; cbn; eauto|]. split; reflexivity. Qed.
Lemma file_leaf_set_data g : file_leaf (set_data g).
Proof. intros j m d x. reflexivity. Qed.

(* ------------------------------------------------------------------ host calls respect teq *)
Definition rteq (a b : res tree) : Prop :=
  match a, b with Ok x, Ok y => teq x y | Err e, Err e' => e = e' | _, _ => False end.
Ltac at_path Hp a b p H :=
  pose proof (teq_tget p a b H) as Hp;
  let ta := fresh "ta" in let tb := fresh "tb" in
  destruct (tget a p) as [ta|], (tget b p) as [tb|]; cbn in Hp; try contradiction; [|reflexivity].

Lemma h_insert_teq pp n c a b : wf c -> teq a b -> rteq (h_insert pp n c a) (h_insert pp n c b).
Proof.
  intros Wc H. unfold h_insert. at_path Hp a b pp H. tinv Hp.
  - specialize (K n). destruct (afind n c1), (afind n c2); cbn in K; try contradiction; [reflexivity|].
    cbn. apply teq_tupd; [apply respects_dir_ins; exact Wc|exact H].
  - apply (nondir_cases tb Hl); intros; reflexivity.
Qed.
Lemma h_unlink_teq pp n a b : teq a b -> rteq (h_unlink pp n a) (h_unlink pp n b).
Proof.
  intros H. unfold h_unlink. at_path Hp a b pp H. tinv Hp.
  - specialize (K n). destruct (afind n c1) as [ea|], (afind n c2) as [eb|]; cbn in K; try contradiction; [|reflexivity].
    tinv K; [reflexivity|]. apply (nondir_cases eb Hl); intros; cbn; (apply teq_tupd; [apply respects_dir_del|exact H]).
  - apply (nondir_cases tb Hl); intros; reflexivity.
Qed.
Lemma teq_nil_children m x c2 : teq (Dir m x []) (Dir m x c2) -> c2 = [].
Proof.
  intros H. destruct c2 as [|[k v] c2]; [reflexivity|]. pose proof (teq_afind _ _ _ _ k H) as K.
  cbn [afind] in K. rewrite String.eqb_refl in K. contradiction.
Qed.
Lemma h_rmdir_teq pp n a b : teq a b -> rteq (h_rmdir pp n a) (h_rmdir pp n b).
Proof.
  intros H. unfold h_rmdir. at_path Hp a b pp H. tinv Hp.
  - specialize (K n). destruct (afind n c1) as [ea|], (afind n c2) as [eb|]; cbn in K; try contradiction; [|reflexivity].
    pose proof K as K0. tinv K.
    + destruct c0 as [|kv0 c0].
      * rewrite (teq_nil_children _ _ _ K0). cbn. apply teq_tupd; [apply respects_dir_del|exact H].
      * destruct c3 as [|kv3 c3]; [|reflexivity]. apply teq_sym in K0. pose proof (teq_nil_children _ _ _ K0). discriminate.
    + apply (nondir_cases eb Hl); intros; reflexivity.
  - apply (nondir_cases tb Hl); intros; reflexivity.
Qed.
Lemma h_update_teq p f a b : dir_attr_fun f -> teq a b -> rteq (h_update p f a) (h_update p f b).
Proof.
  intros Hf H. unfold h_update. at_path Hp a b p H. tinv Hp.
  - cbn. apply teq_tupd; [apply respects_attr; exact Hf|exact H].
  - apply (nondir_cases tb Hl); intros; cbn; try reflexivity. apply respects_tmap_ino; [apply Hf|exact H].
Qed.
Lemma h_setdata_teq p g a b : teq a b -> rteq (h_setdata p g a) (h_setdata p g b).
Proof.
  intros H. unfold h_setdata. at_path Hp a b p H. tinv Hp; [reflexivity|].
  apply (nondir_cases tb Hl); intros; cbn; try reflexivity. apply respects_tmap_ino; [apply file_leaf_set_data|exact H].
Qed.
Lemma h_removexattr_teq p k a b : teq a b -> rteq (h_removexattr p k a) (h_removexattr p k b).
Proof.
  intros H. unfold h_removexattr. at_path Hp a b p H.
  destruct (teq_kind _ _ Hp) as (_ & _ & Hx). rewrite Hx.
  destruct (afind k (xs_of tb)); [apply h_update_teq; [apply dir_attr_del_xs|exact H]|reflexivity].
Qed.
Lemma h_link_teq src pp n a b : teq a b -> rteq (h_link src pp n a) (h_link src pp n b).
Proof.
  intros H. unfold h_link. at_path Hp a b src H. tinv Hp; [reflexivity|].
  apply (nondir_cases tb Hl); intros; apply h_insert_teq; try exact H; constructor.
Qed.

(* teq directories list the same names *)
Lemma ssort_keys_teq m x c1 c2 : teq (Dir m x c1) (Dir m x c2) -> map fst (ssort c1) = map fst (ssort c2).
Proof.
  intros H. inversion H as [? ? ? ? N1 N2 H1 H2|]; subst; [|discriminate].
  destruct (ssort_spec c1 N1) as (S1 & D1 & K1 & F1). destruct (ssort_spec c2 N2) as (S2 & D2 & K2 & F2).
  apply sorted_unique; auto. intros k. rewrite K1, K2. split; intros Hk.
  - destruct (afind k c2) eqn:E; [apply afind_In' in E; apply (in_map fst) in E; exact E|]. exfalso.
    destruct (afind k c1) as [a1|] eqn:E1; [destruct (H1 k a1 E1) as (b1 & Hb & _); congruence|].
    apply afind_none_notin in E1. contradiction.
  - destruct (afind k c1) eqn:E; [apply afind_In' in E; apply (in_map fst) in E; exact E|]. exfalso.
    apply H2 in E. apply afind_none_notin in E. contradiction.
Qed.

(* ------------------------------------------------------------------ the ordinary file system respects teq *)
Definition fsrel (x y : res string * fs) : Prop :=
  res_same (fst x) (fst y) /\ teq (f_tree (snd x)) (f_tree (snd y)) /\ f_next (snd x) = f_next (snd y).

Definition mrel (n : N) (x y : res unit * fs) : Prop :=
  match fst x, fst y with Ok _, Ok _ => True | Err e, Err e' => e = e' | _, _ => False end /\
  teq (f_tree (snd x)) (f_tree (snd y)) /\ f_next (snd x) = n /\ f_next (snd y) = n.
Lemma fs_mut_teq F a b n : teq a b -> rteq (F a) (F b) -> mrel n (fs_mut F (mkFs a n)) (fs_mut F (mkFs b n)).
Proof.
  intros Hab Hr. unfold fs_mut, mrel. cbn [f_tree f_next]. destruct (F a), (F b); cbn in Hr; try contradiction; cbn; auto.
Qed.
Lemma fs_after_teq n (r1 r2 : res unit * fs) p : mrel n r1 r2 -> fsrel (fs_after r1 p) (fs_after r2 p).
Proof.
  destruct r1 as [[u1|e1] s1], r2 as [[u2|e2] s2]; unfold mrel, fs_after, fsrel; cbn [fst snd]; intros (Hr & Ht & Hn1 & Hn2); try contradiction.
  - pose proof (teq_tget p _ _ Ht) as Hp.
    destruct (tget (f_tree s1) p), (tget (f_tree s2) p); cbn in Hp; try contradiction; cbn; repeat split; auto; try congruence.
    destruct (teq_kind _ _ Hp) as (-> & _). reflexivity.
  - cbn. repeat split; auto; congruence.
Qed.
Lemma fs_ret_teq n (r1 r2 : res unit * fs) (pl : string) : mrel n r1 r2 ->
  fsrel (match r1 with (Ok _, s') => (Ok pl, s') | (Err e, s') => (Err e, s') end)
        (match r2 with (Ok _, s') => (Ok pl, s') | (Err e, s') => (Err e, s') end).
Proof.
  destruct r1 as [[u1|e1] s1], r2 as [[u2|e2] s2]; unfold mrel, fsrel; cbn [fst snd]; intros (Hr & Ht & Hn1 & Hn2); try contradiction;
    cbn; repeat split; auto; congruence.
Qed.

Theorem fs_apply_teq o a b n : teq a b -> fsrel (fs_apply o (mkFs a n)) (fs_apply o (mkFs b n)).
Proof.
  intros H. pose proof (fun p => teq_tget p a b H) as Hg.
  assert (Hsame : forall r, fsrel (r, mkFs a n) (r, mkFs b n)) by (intros r; repeat split; auto; destruct r; reflexivity).
  destruct o; cbn [fs_apply f_tree f_next].
  - (* lookup *) specialize (Hg p). destruct (tget a p), (tget b p); cbn in Hg; try contradiction; [|apply Hsame].
    destruct (teq_kind _ _ Hg) as (-> & _). apply Hsame.
  - (* getattr *) specialize (Hg p). destruct (tget a p), (tget b p); cbn in Hg; try contradiction; [|apply Hsame].
    destruct (teq_kind _ _ Hg) as (-> & -> & _). apply Hsame.
  - (* readdir *) specialize (Hg p). destruct (tget a p) as [ta|], (tget b p) as [tb|]; cbn in Hg; try contradiction; [|apply Hsame].
    pose proof Hg as Hg0. tinv Hg.
    + rewrite (ssort_keys_teq m x c1 c2 Hg0). apply Hsame.
    + apply (nondir_cases tb Hl); intros; apply Hsame.
  - (* read *) specialize (Hg p). destruct (tget a p) as [ta|], (tget b p) as [tb|]; cbn in Hg; try contradiction; [|apply Hsame].
    tinv Hg; [apply Hsame|]. apply (nondir_cases tb Hl); intros; apply Hsame.
  - (* readlink *) specialize (Hg p). destruct (tget a p) as [ta|], (tget b p) as [tb|]; cbn in Hg; try contradiction; [|apply Hsame].
    tinv Hg; [apply Hsame|]. apply (nondir_cases tb Hl); intros; apply Hsame.
  - (* create *) destruct (split_last p) as [[pp nm]|]; [|apply Hsame].
    pose proof (fs_mut_teq (h_create pp nm n mode) a b n H (h_insert_teq pp nm _ a b (wf_file _ _ _ _) H)) as Hm.
    revert Hm. generalize (fs_mut (h_create pp nm n mode) (mkFs a n)) (fs_mut (h_create pp nm n mode) (mkFs b n)).
    intros [[[]|e1] s1] [[[]|e2] s2] Hm; [apply (fs_after_teq (n + 1))|exfalso; apply Hm|exfalso; apply Hm|apply (fs_after_teq n)];
      unfold mrel in *; cbn [fst snd f_tree f_next] in *; intuition congruence.
  - (* mkdir *) destruct (split_last p) as [[pp nm]|]; [|apply Hsame]. apply (fs_after_teq n).
    exact (fs_mut_teq (h_mkdir pp nm mode) a b n H (h_insert_teq pp nm _ a b (wf_dir _ _ [] (NoDup_nil _) (Forall_nil _)) H)).
  - (* mknod *) destruct (split_last p) as [[pp nm]|]; [|apply Hsame].
    pose proof (fs_mut_teq (h_create pp nm n mode) a b n H (h_insert_teq pp nm _ a b (wf_file _ _ _ _) H)) as Hm.
    revert Hm. generalize (fs_mut (h_create pp nm n mode) (mkFs a n)) (fs_mut (h_create pp nm n mode) (mkFs b n)).
    intros [[[]|e1] s1] [[[]|e2] s2] Hm; [apply (fs_after_teq (n + 1))|exfalso; apply Hm|exfalso; apply Hm|apply (fs_after_teq n)];
      unfold mrel in *; cbn [fst snd f_tree f_next] in *; intuition congruence.
  - (* symlink *) destruct (split_last p) as [[pp nm]|]; [|apply Hsame]. apply (fs_after_teq n).
    exact (fs_mut_teq (h_symlink pp nm target) a b n H (h_insert_teq pp nm _ a b (wf_lnk _) H)).
  - (* link *) destruct (split_last dst) as [[pp nm]|]; [|apply Hsame]. apply (fs_after_teq n).
    exact (fs_mut_teq (h_link src pp nm) a b n H (h_link_teq src pp nm a b H)).
  - (* unlink *) destruct (split_last p) as [[pp nm]|]; [|apply Hsame]. apply (fs_ret_teq n).
    exact (fs_mut_teq (h_unlink pp nm) a b n H (h_unlink_teq pp nm a b H)).
  - (* rmdir *) destruct (split_last p) as [[pp nm]|]; [|apply Hsame]. apply (fs_ret_teq n).
    exact (fs_mut_teq (h_rmdir pp nm) a b n H (h_rmdir_teq pp nm a b H)).
  - (* rename *) destruct (split_last a0) as [[pa na]|]; [|apply Hsame]. destruct (split_last b0) as [[pb nb]|]; [|apply Hsame].
    pose proof (Hg pa) as Ha. pose proof (Hg pb) as Hb.
    destruct (tget a pa), (tget b pa); cbn in Ha; try contradiction; [|apply Hsame].
    destruct (tget a pb), (tget b pb); cbn in Hb; try contradiction; apply Hsame.
  - (* open *) specialize (Hg p). destruct (tget a p) as [ta|], (tget b p) as [tb|]; cbn in Hg; try contradiction; [|apply Hsame].
    tinv Hg; [destruct (of_readonly fl); apply Hsame|]. apply (nondir_cases tb Hl); intros; try apply Hsame.
    destruct (of_trunc fl); [|apply Hsame]. apply (fs_ret_teq n).
    exact (fs_mut_teq (h_setdata p (fun _ => [])) a b n H (h_setdata_teq p _ a b H)).
  - (* write *) apply (fs_ret_teq n).
    exact (fs_mut_teq (h_setdata p (write_at (N.to_nat off) data)) a b n H (h_setdata_teq p _ a b H)).
  - (* chmod *) apply (fs_after_teq n).
    exact (fs_mut_teq (h_chmod p mode) a b n H (h_update_teq p _ a b (dir_attr_set_mode mode) H)).
  - (* truncate *) apply (fs_ret_teq n).
    exact (fs_mut_teq (h_setdata p (resize (N.to_nat size))) a b n H (h_setdata_teq p _ a b H)).
  - (* setxattr *) apply (fs_ret_teq n).
    exact (fs_mut_teq (h_setxattr p k v) a b n H (h_update_teq p _ a b (dir_attr_set_xs k v) H)).
  - (* getxattr *) specialize (Hg p). destruct (tget a p) as [ta|], (tget b p) as [tb|]; cbn in Hg; try contradiction; [|apply Hsame].
    destruct (teq_kind _ _ Hg) as (_ & _ & ->). destruct (afind k (xs_of tb)); apply Hsame.
  - (* listxattr *) specialize (Hg p). destruct (tget a p) as [ta|], (tget b p) as [tb|]; cbn in Hg; try contradiction; [|apply Hsame].
    destruct (teq_kind _ _ Hg) as (_ & _ & ->). apply Hsame.
  - (* removexattr *) apply (fs_ret_teq n).
    exact (fs_mut_teq (h_removexattr p k) a b n H (h_removexattr_teq p k a b H)).
Qed.
