(* Proofs/TransportDev.v -- FuseDevWriter against a fuse descriptor that may refuse or short-write
   (Model/TransportEnv.v part 1): what holds for EVERY oracle of device verdicts. *)
From Coq Require Import List Arith NArith Bool Lia ZifyBool ZifyNat ZifyN.
From FB Require Import Model.Transport Model.TransportEnv Proofs.Transport Proofs.TransportMachine Proofs.TransportFuse.
Import ListNotations.
Local Open Scope N_scope.
Arguments N.add : simpl never.
Arguments N.sub : simpl never.
Arguments N.mul : simpl never.
Arguments N.min : simpl never.

(* ------------------------------------------------------------------ one device call *)
Lemma dev_ret_le v n : match dev_ret v n with DRet k => k <= n | DErrno _ => True end.
Proof. destruct v; cbn; lia. Qed.

(* the bytes the device took are a prefix of the packet it was offered *)
Lemma emitted_prefix c : exists rest, dc_offered c = emitted c ++ rest.
Proof.
  unfold emitted. destruct (dc_ret c) as [k|e].
  - exists (skipn (N.to_nat k) (dc_offered c)). now rewrite firstn_skipn.
  - exists (dc_offered c). reflexivity.
Qed.
Lemma emitted_len v kind p : lenN (emitted (dev_call v kind p)) = match dev_ret v (lenN p) with DRet k => k | DErrno _ => 0 end.
Proof.
  unfold emitted, dev_call. cbn [dc_ret dc_offered]. pose proof (dev_ret_le v (lenN p)) as H.
  destruct (dev_ret v (lenN p)) as [k|e]; [|reflexivity]. apply lenN_firstn. exact H.
Qed.
(* a refused call took nothing *)
Lemma emitted_fail c e : dc_ret c = DErrno e -> emitted c = [].
Proof. unfold emitted. intros ->. reflexivity. Qed.

Definition dev_whole (c : dcall) : Prop := dc_ret c = DRet (lenN (dc_offered c)).
Definition dres_ok (r : dres) : Prop := match r with DR (ROk _ _) => True | _ => False end.
Definition dres_dev_err (r : dres) : Prop := match r with DOther _ | DRaw _ => True | DR _ => False end.
Definition no_short (v : dverdict) : Prop := match v with DShort _ => False | _ => True end.

Lemma dev_whole_emitted c : dev_whole c -> emitted c = dc_offered c.
Proof. unfold dev_whole, emitted, lenN. intros ->. rewrite Nat2N.id. apply firstn_all. Qed.

Lemma dev_accounted_le strict v kind p : dev_accounted strict (dev_call v kind p) <= lenN p.
Proof.
  unfold dev_accounted, dev_call. cbn [dc_ret dc_offered]. pose proof (dev_ret_le v (lenN p)) as H.
  destruct (dev_ret v (lenN p)) as [k|e]; [|lia]. destruct (strict && _); lia.
Qed.
(* without the strict check the writer accounts exactly for the bytes the device took *)
Lemma dev_accounted_emitted v kind p : dev_accounted false (dev_call v kind p) = lenN (emitted (dev_call v kind p)).
Proof. rewrite emitted_len. unfold dev_accounted, dev_call. cbn [dc_ret andb]. destruct (dev_ret v (lenN p)); reflexivity. Qed.

(* a call site reports success: under the strict check the device took everything; without it only if the device
   does not short-write *)
Lemma dev_result_ok strict raw v kind p : dres_ok (dev_result strict raw (dev_call v kind p)) ->
  (strict = true \/ no_short v) -> dev_whole (dev_call v kind p).
Proof.
  unfold dev_result, dev_whole, dev_call. cbn [dc_ret dc_offered]. pose proof (dev_ret_le v (lenN p)) as H.
  destruct v as [|k|e]; cbn [dev_ret] in *.
  - reflexivity.
  - intros Hok [->|[]]. cbn [andb] in Hok. destruct (N.ltb_spec (N.min k (lenN p)) (lenN p)) as [L|L].
    + destruct raw; contradiction.
    + f_equal. lia.
  - destruct raw; contradiction.
Qed.
(* a call site reports a device error without the strict check: the device refused and took nothing *)
Lemma dev_result_err raw c r : dres_dev_err r -> r = dev_result false raw c ->
  exists e, dc_ret c = DErrno e /\ r = (if raw then DRaw e else DOther e).
Proof.
  unfold dev_result. cbn [andb]. destruct (dc_ret c) as [k|e]; intros H ->; [contradiction|]. eauto.
Qed.

(* ------------------------------------------------------------------ the outcome of one operation:
   no call at all (and then no device error is reported), or exactly one call, made with verdict [v];
   a reported success implies that call's own result was a success; a reported device error is that call's result *)
Definition op_out (strict raw : bool) (v : dverdict) (r : dres) (cs : list dcall) : Prop :=
  (cs = [] /\ ~ dres_dev_err r) \/
  (exists kind p, cs = [dev_call v kind p] /\
     (dres_ok r -> dres_ok (dev_result strict raw (dev_call v kind p))) /\
     (dres_dev_err r -> r = dev_result strict raw (dev_call v kind p))).

Lemma op_out_nocall strict raw v r : op_out strict raw v (DR r) [].
Proof. left. split; [reflexivity|]. cbn. tauto. Qed.
Lemma op_out_call strict raw v kind p : op_out strict raw v (dev_result strict raw (dev_call v kind p)) [dev_call v kind p].
Proof. right. exists kind, p. repeat split; auto. Qed.

Lemma op_out_length strict raw v r cs : op_out strict raw v r cs -> (length cs <= 1)%nat.
Proof. intros [[-> _]|[k [p [-> _]]]]; cbn; lia. Qed.

(* the writer part of an outcome: same window, len <= cap kept, len never decreases, nothing outside the window written *)
Definition w_shape (m : mem) (w : fdw) (m' : mem) (w' : fdw) : Prop :=
  f_inv w' /\ f_base w' = f_base w /\ f_cap w' = f_cap w /\ f_buffered w' = f_buffered w /\ f_len w <= f_len w' /\
  (forall x, ~ f_owns w x -> mget m' x = mget m x).
Lemma w_shape_refl m w : f_inv w -> w_shape m w m w.
Proof. intro H. unfold w_shape. repeat split; auto; lia. Qed.
Lemma w_shape_trans m w m1 w1 m2 w2 : w_shape m w m1 w1 -> w_shape m1 w1 m2 w2 -> w_shape m w m2 w2.
Proof.
  unfold w_shape, f_owns. intros [A1 [A2 [A3 [A4 [A5 A6]]]]] [B1 [B2 [B3 [B4 [B5 B6]]]]].
  repeat split; try congruence; try lia. intros x Hx. rewrite B6; [apply A6; exact Hx|]. rewrite A2, A3. exact Hx.
Qed.

Lemma f_check_none w sz : f_check w sz = None -> sz <= f_avail w /\ f_oneshot_ok w.
Proof.
  unfold f_check, f_oneshot_ok. destruct (f_buffered w); destruct (N.eqb_spec (f_len w) 0); cbn [orb negb]; try discriminate;
    destruct (N.ltb_spec (f_avail w) sz); try discriminate; intros _; split; auto; lia.
Qed.
Lemma f_check_some w sz r : f_check w sz = Some r -> r = RPanic \/ r = RErr ENoSpace.
Proof. unfold f_check. destruct (negb _); [intro H; inversion H; auto|]. destruct (_ <? _); [intro H; inversion H; auto|discriminate]. Qed.
(* the assert!: an unbuffered writer that already accounted for bytes refuses every write-type operation *)
Lemma f_check_poisoned w sz : f_buffered w = false -> f_len w <> 0 -> f_check w sz = Some RPanic.
Proof. unfold f_check. intros -> H. destruct (N.eqb_spec (f_len w) 0); [contradiction|]. reflexivity. Qed.

(* ------------------------------------------------------------------ write *)
Lemma dw_write_out strict v data m w : f_inv w ->
  let '(r, m', w', cs) := dw_write strict v data m w in op_out strict false v r cs /\ w_shape m w m' w'.
Proof.
  intro Hinv. unfold dw_write. destruct (f_check w (lenN data)) as [r0|] eqn:C.
  - split; [apply op_out_nocall|apply w_shape_refl; exact Hinv].
  - destruct (f_check_none _ _ C) as [Hs _]. unfold f_avail, f_inv in *. destruct (f_buffered w) eqn:B.
    + split; [apply op_out_nocall|]. unfold w_shape, f_inv, f_owns. cbn [f_len f_cap f_base f_buffered]. repeat split; auto; try lia.
      intros x Hx. apply write_list_frame. lia.
    + split; [apply op_out_call|]. pose proof (dev_accounted_le strict v KWrite data).
      unfold w_shape, f_inv. cbn [f_len f_cap f_base f_buffered]. repeat split; auto; lia.
Qed.
Lemma dw_write_poisoned strict v data m w : f_buffered w = false -> f_len w <> 0 ->
  dw_write strict v data m w = (DR RPanic, m, w, []).
Proof. intros B L. unfold dw_write. rewrite (f_check_poisoned _ _ B L). reflexivity. Qed.

(* ------------------------------------------------------------------ write_vectored *)
Lemma dw_write_vectored_out strict v datas m w : f_inv w ->
  let '(r, m', w', cs) := dw_write_vectored strict v datas m w in op_out strict false v r cs /\ w_shape m w m' w'.
Proof.
  intro Hinv. unfold dw_write_vectored. rewrite fold_left_len. replace (0 + lenN (concat datas)) with (lenN (concat datas)) by lia.
  destruct (f_check w (lenN (concat datas))) as [r0|] eqn:C.
  - split; [apply op_out_nocall|apply w_shape_refl; exact Hinv].
  - destruct (f_check_none _ _ C) as [Hs _]. unfold f_avail, f_inv in *. destruct (f_buffered w) eqn:B.
    + rewrite fw_extend_spec. split; [apply op_out_nocall|]. unfold w_shape, f_inv, f_owns. cbn [f_len f_cap f_base f_buffered].
      repeat split; auto; try lia. intros x Hx. apply write_list_frame. lia.
    + destruct datas as [|d0 dr] eqn:Ed.
      * split; [apply op_out_nocall|apply w_shape_refl; exact Hinv].
      * rewrite <- Ed in *. split; [apply op_out_call|]. pose proof (dev_accounted_le strict v KWritev (concat datas)).
        unfold w_shape, f_inv. cbn [f_len f_cap f_base f_buffered]. repeat split; auto; lia.
Qed.
Lemma dw_write_vectored_poisoned strict v datas m w : f_buffered w = false -> f_len w <> 0 ->
  dw_write_vectored strict v datas m w = (DR RPanic, m, w, []).
Proof. intros B L. unfold dw_write_vectored. rewrite (f_check_poisoned _ _ B L). reflexivity. Qed.

(* ------------------------------------------------------------------ write_from / write_from_at *)
Lemma dw_write_from_out strict v count src m w : f_inv w ->
  let '(r, m', w', cs) := dw_write_from strict v count src m w in op_out strict false v r cs /\ w_shape m w m' w'.
Proof.
  intro Hinv. unfold dw_write_from. destruct (f_check w count) as [r0|] eqn:C.
  - split; [apply op_out_nocall|apply w_shape_refl; exact Hinv].
  - destruct (f_check_none _ _ C) as [Hs _]. destruct src as [sd|].
    + cbn zeta. set (got := firstn (N.to_nat count) sd).
      assert (Hd : lenN got <= count) by (subst got; unfold lenN; rewrite firstn_length; lia).
      assert (Hsh : w_shape m w (write_list m (f_base w + f_len w) got) (mkfdw (f_buffered w) (f_base w) (f_len w + lenN got) (f_cap w))).
      { unfold f_avail, f_inv in *. unfold w_shape, f_inv, f_owns. cbn [f_len f_cap f_base f_buffered]. repeat split; auto; try lia.
        intros x Hx. apply write_list_frame. lia. }
      destruct (f_buffered w) eqn:B.
      * split; [apply op_out_nocall|exact Hsh].
      * split; [apply op_out_call|exact Hsh].
    + split; [apply op_out_nocall|apply w_shape_refl; exact Hinv].
Qed.
Lemma dw_write_from_poisoned strict v count src m w : f_buffered w = false -> f_len w <> 0 ->
  dw_write_from strict v count src m w = (DR RPanic, m, w, []).
Proof. intros B L. unfold dw_write_from. rewrite (f_check_poisoned _ _ B L). reflexivity. Qed.

(* what an unbuffered write_from leaves behind: the file data is accounted for whatever the device says *)
Lemma dw_write_from_unbuffered strict v count sd m w : f_buffered w = false -> f_check w count = None ->
  let got := firstn (N.to_nat count) sd in
  let m' := write_list m (f_base w + f_len w) got in
  let c := dev_call v KWrite (read_range m' (f_base w) (lenN got)) in
  dw_write_from strict v count (Some sd) m w =
    (dev_result strict false c, m', mkfdw false (f_base w) (f_len w + lenN got) (f_cap w), [c]) /\
  dc_offered c = got.
Proof.
  intros B C. cbn zeta. unfold dw_write_from. rewrite C, B. split; [reflexivity|].
  destruct (f_check_none _ _ C) as [_ [Hb|Hz]]; [congruence|]. cbn [dev_call dc_offered]. rewrite Hz.
  replace (f_base w + 0) with (f_base w) by lia. apply read_write_list.
Qed.

(* ------------------------------------------------------------------ commit *)
Lemma dw_commit_spec strict v m w other :
  let s := read_range m (f_base w) (f_len w) in
  let o := match other with Some x => read_range m (f_base x) (f_len x) | None => [] end in
  dw_commit strict v m w other =
    if negb (f_buffered w) then (DR (ROk 0 []), [])
    else match s ++ o with
         | [] => (DR (ROk 0 []), [])
         | p => let c := dev_call v (match s, o with _ :: _, _ :: _ => KWritev | _, _ => KWrite end) p in
                (dev_result strict true c, [c])
         end.
Proof.
  intros s o. unfold dw_commit. fold s o. destruct (f_buffered w); cbn [negb]; [|reflexivity].
  destruct s as [|x s']; destruct o as [|y o']; cbn [app]; try reflexivity. now rewrite app_nil_r.
Qed.
Lemma dw_commit_out strict v m w other : let '(r, cs) := dw_commit strict v m w other in op_out strict true v r cs.
Proof.
  rewrite dw_commit_spec. destruct (negb (f_buffered w)); [apply op_out_nocall|].
  destruct (_ ++ _) eqn:E; [apply op_out_nocall|]. cbn zeta. apply op_out_call.
Qed.

(* ------------------------------------------------------------------ write_all (std) over write *)
Lemma dw_write_all_loop_poisoned strict dev fuel data m w cs : f_buffered w = false -> f_len w <> 0 ->
  exists r, dw_write_all_loop strict dev fuel data m w cs = (DR r, m, w, cs) /\
            (r = RPanic \/ (r = ROk 0 [] /\ data = []) \/ (r = RErr EBadIndex /\ fuel = O)).
Proof.
  intros B L. destruct fuel as [|f]; cbn [dw_write_all_loop]; [eauto 6|].
  destruct data as [|b data]; [eauto 6|]. rewrite (dw_write_poisoned _ _ _ _ _ B L). rewrite app_nil_r. eauto.
Qed.

Lemma op_out_weaken strict raw v r r' cs : op_out strict raw v r cs -> ~ dres_ok r' -> ~ dres_dev_err r' -> op_out strict raw v r' cs.
Proof. intros [[-> _]|[k [p [-> _]]]] H1 H2; [left; auto|]. right. exists k, p. repeat split; tauto. Qed.

Lemma dev_result_ok_accounted strict raw c n d : dev_result strict raw c = DR (ROk n d) -> dev_accounted strict c = n.
Proof.
  unfold dev_result, dev_accounted. destruct (dc_ret c) as [k|e]; [|destruct raw; discriminate].
  destruct (strict && _); [destruct raw; discriminate|]. intro H; inversion H; reflexivity.
Qed.
Lemma dev_result_ok_le strict raw v kind p n d : dev_result strict raw (dev_call v kind p) = DR (ROk n d) -> n <= lenN p.
Proof.
  unfold dev_result, dev_call. cbn [dc_ret dc_offered]. pose proof (dev_ret_le v (lenN p)) as H.
  destruct (dev_ret v (lenN p)) as [k|e]; [|destruct raw; discriminate].
  destruct (strict && _); [destruct raw; discriminate|]. intro E; inversion E; subst; exact H.
Qed.

Lemma dw_write_all_loop_step strict dev f b data m w cs :
  dw_write_all_loop strict dev (S f) (b :: data) m w cs =
  let '(r, m', w', c) := dw_write strict (dev (length cs)) (b :: data) m w in
  match r with
  | DR (ROk 0 _) => (DR (RErr EEof), m', w', cs ++ c)
  | DR (ROk n _) => dw_write_all_loop strict dev f (skipn (N.to_nat n) (b :: data)) m' w' (cs ++ c)
  | _ => (r, m', w', cs ++ c)
  end.
Proof.
  cbn [dw_write_all_loop]. destruct (dw_write strict (dev (length cs)) (b :: data) m w) as [[[r m'] w'] c].
  reflexivity.
Qed.

(* at most one device call, made by the first round; afterwards the writer is either buffered (no calls at all) or
   refuses (the assert!) *)
Lemma dw_write_all_loop_out strict dev fuel : forall data m w cs, f_inv w ->
  let '(r, m', w', cs') := dw_write_all_loop strict dev fuel data m w cs in
  exists ext, cs' = cs ++ ext /\ op_out strict false (dev (length cs)) r ext /\ w_shape m w m' w'.
Proof.
  induction fuel as [|f IH]; intros data m w cs Hinv.
  - cbn [dw_write_all_loop]. exists []. rewrite app_nil_r. split; [reflexivity|]. split; [apply op_out_nocall|apply w_shape_refl; exact Hinv].
  - destruct data as [|b data].
    + cbn [dw_write_all_loop]. exists []. rewrite app_nil_r. split; [reflexivity|]. split; [apply op_out_nocall|apply w_shape_refl; exact Hinv].
    + rewrite dw_write_all_loop_step. pose proof (dw_write_out strict (dev (length cs)) (b :: data) m w Hinv) as Hout.
      unfold dw_write in *. destruct (f_check w (lenN (b :: data))) as [r0|] eqn:C.
      * destruct (f_check_some _ _ _ C) as [->| ->]; exists []; rewrite !app_nil_r; (split; [reflexivity|]); exact Hout.
      * destruct (f_buffered w) eqn:B.
        -- (* buffered: everything is appended at once; the rest of the loop makes no call either *)
           destruct Hout as [_ Hsh]. destruct (lenN (b :: data)) as [|pp] eqn:El; [unfold lenN in El; cbn [length] in El; lia|].
           rewrite app_nil_r. set (m1 := write_list m (f_base w + f_len w) (b :: data)) in *.
           set (w1 := mkfdw true (f_base w) (f_len w + N.pos pp) (f_cap w)) in *.
           assert (Hi1 : f_inv w1) by (destruct Hsh; assumption).
           specialize (IH (skipn (N.to_nat (N.pos pp)) (b :: data)) m1 w1 cs Hi1).
           destruct (dw_write_all_loop strict dev f _ m1 w1 cs) as [[[r2 m2] w2] cs2]. destruct IH as [ext [E1 [E2 E3]]].
           exists ext. split; [exact E1|]. split; [exact E2|]. eapply w_shape_trans; eauto.
        -- (* unbuffered: one device call *)
           set (c0 := dev_call (dev (length cs)) KWrite (b :: data)) in *. destruct Hout as [_ Hsh].
           set (w1 := mkfdw false (f_base w) (f_len w + dev_accounted strict c0) (f_cap w)) in *.
           destruct (dev_result strict false c0) as [[n d|e|]|e|e] eqn:R.
           ++ destruct n as [|pp].
              ** exists [c0]. split; [reflexivity|]. split; [|exact Hsh].
                 apply (op_out_weaken strict false _ (dev_result strict false c0)); [apply op_out_call|cbn; tauto|cbn; tauto].
              ** pose proof (dev_result_ok_accounted _ _ _ _ _ R) as Ha.
                 assert (Hp : f_len w1 <> 0) by (subst w1; cbn [f_len]; lia).
                 destruct (dw_write_all_loop_poisoned strict dev f (skipn (N.to_nat (N.pos pp)) (b :: data)) m w1 (cs ++ [c0]) eq_refl Hp) as [r2 [E2 _]].
                 rewrite E2. exists [c0]. split; [reflexivity|]. split; [|exact Hsh].
                 right. exists KWrite, (b :: data). fold c0. split; [reflexivity|]. rewrite R. split; [intros _; exact I|intros []].
           ++ exists [c0]. split; [reflexivity|]. split; [rewrite <- R; apply op_out_call|exact Hsh].
           ++ exists [c0]. split; [reflexivity|]. split; [rewrite <- R; apply op_out_call|exact Hsh].
           ++ exists [c0]. split; [reflexivity|]. split; [rewrite <- R; apply op_out_call|exact Hsh].
           ++ exists [c0]. split; [reflexivity|]. split; [rewrite <- R; apply op_out_call|exact Hsh].
Qed.

Lemma dw_write_all_out strict dev data m w : f_inv w ->
  let '(r, m', w', cs) := dw_write_all strict dev data m w in op_out strict false (dev O) r cs /\ w_shape m w m' w'.
Proof.
  intro Hinv. unfold dw_write_all. pose proof (dw_write_all_loop_out strict dev (S (length data)) data m w [] Hinv) as H.
  destruct (dw_write_all_loop _ _ _ _ _ _ _) as [[[r m'] w'] cs]. destruct H as [ext [E1 [E2 E3]]]. cbn [app length] in *. subst. auto.
Qed.

(* ------------------------------------------------------------------ write_all_from over write_from *)
Lemma dw_write_all_from_loop_poisoned strict dev fuel count src m w cs : f_buffered w = false -> f_len w <> 0 ->
  exists r, dw_write_all_from_loop strict dev fuel count src m w cs = (DR r, m, w, cs).
Proof.
  intros B L. destruct fuel as [|f]; cbn [dw_write_all_from_loop]; [eauto|].
  destruct (count =? 0); [eauto|]. rewrite (dw_write_from_poisoned _ _ _ _ _ _ B L). rewrite app_nil_r. eauto.
Qed.

Lemma dw_write_all_from_loop_step strict dev f count src m w cs : count <> 0 ->
  dw_write_all_from_loop strict dev (S f) count src m w cs =
  let '(r, m', w', c) := dw_write_from strict (dev (length cs)) count src m w in
  match r with
  | DR (ROk 0 _) => (DR (RErr EEof), m', w', cs ++ c)
  | DR (ROk n _) => dw_write_all_from_loop strict dev f (count - n) (option_map (skipn (N.to_nat n)) src) m' w' (cs ++ c)
  | _ => (r, m', w', cs ++ c)
  end.
Proof.
  intro Hc. cbn [dw_write_all_from_loop]. destruct (N.eqb_spec count 0); [contradiction|].
  destruct (dw_write_from strict (dev (length cs)) count src m w) as [[[r m'] w'] c].
  reflexivity.
Qed.

Lemma dw_write_all_from_loop_out strict dev fuel : forall count src m w cs, f_inv w ->
  let '(r, m', w', cs') := dw_write_all_from_loop strict dev fuel count src m w cs in
  exists ext, cs' = cs ++ ext /\ op_out strict false (dev (length cs)) r ext /\ w_shape m w m' w'.
Proof.
  induction fuel as [|f IH]; intros count src m w cs Hinv.
  - cbn [dw_write_all_from_loop]. exists []. rewrite app_nil_r. split; [reflexivity|]. split; [apply op_out_nocall|apply w_shape_refl; exact Hinv].
  - destruct (N.eq_dec count 0) as [Hz|Hz].
    + cbn [dw_write_all_from_loop]. subst count. cbn [N.eqb]. exists []. rewrite app_nil_r. split; [reflexivity|]. split; [apply op_out_nocall|apply w_shape_refl; exact Hinv].
    + rewrite (dw_write_all_from_loop_step _ _ _ _ _ _ _ _ Hz).
      pose proof (dw_write_from_out strict (dev (length cs)) count src m w Hinv) as Hout.
      destruct (f_check w count) as [r0|] eqn:C.
      * unfold dw_write_from in *. rewrite C in *. destruct (f_check_some _ _ _ C) as [->| ->]; exists []; rewrite !app_nil_r; (split; [reflexivity|]); exact Hout.
      * destruct src as [sd|].
        2:{ unfold dw_write_from in *. rewrite C in *. exists []. rewrite !app_nil_r. split; [reflexivity|]. exact Hout. }
        destruct (f_buffered w) eqn:B.
        -- (* buffered: no device call in this round nor later *)
           unfold dw_write_from in *. rewrite C, B in *. cbn zeta in *. destruct Hout as [_ Hsh].
           set (got := firstn (N.to_nat count) sd) in *. set (m1 := write_list m (f_base w + f_len w) got) in *.
           set (w1 := mkfdw true (f_base w) (f_len w + lenN got) (f_cap w)) in *.
           assert (Hi1 : f_inv w1) by (destruct Hsh; assumption).
           destruct (lenN got) as [|pp] eqn:El.
           ++ exists []. rewrite !app_nil_r. split; [reflexivity|]. split; [|exact Hsh]. left. split; [reflexivity|]. cbn. tauto.
           ++ rewrite app_nil_r. specialize (IH (count - N.pos pp) (option_map (skipn (N.to_nat (N.pos pp))) (Some sd)) m1 w1 cs Hi1).
              destruct (dw_write_all_from_loop strict dev f _ _ m1 w1 cs) as [[[r2 m2] w2] cs2]. destruct IH as [ext [E1 [E2 E3]]].
              exists ext. split; [exact E1|]. split; [exact E2|]. eapply w_shape_trans; eauto.
        -- (* unbuffered: the file data is accounted for, then one device call *)
           destruct (dw_write_from_unbuffered strict (dev (length cs)) count sd m w B C) as [Eq Hoff]. cbn zeta in Eq, Hoff.
           rewrite Eq in *. destruct Hout as [_ Hsh].
           set (got := firstn (N.to_nat count) sd) in *. set (m1 := write_list m (f_base w + f_len w) got) in *.
           set (c0 := dev_call (dev (length cs)) KWrite (read_range m1 (f_base w) (lenN got))) in *.
           set (w1 := mkfdw false (f_base w) (f_len w + lenN got) (f_cap w)) in *.
           destruct (dev_result strict false c0) as [[n d|e|]|e|e] eqn:R.
           ++ destruct n as [|pp].
              ** exists [c0]. split; [reflexivity|]. split; [|exact Hsh].
                 apply (op_out_weaken strict false _ (dev_result strict false c0)); [apply op_out_call|cbn; tauto|cbn; tauto].
              ** pose proof (dev_result_ok_le _ _ _ _ _ _ _ R) as Hle. rewrite lenN_read_range in Hle.
                 assert (Hp : f_len w1 <> 0) by (subst w1; cbn [f_len]; lia).
                 destruct (dw_write_all_from_loop_poisoned strict dev f (count - N.pos pp) (option_map (skipn (N.to_nat (N.pos pp))) (Some sd)) m1 w1 (cs ++ [c0]) eq_refl Hp) as [r2 E2].
                 rewrite E2. exists [c0]. split; [reflexivity|]. split; [|exact Hsh].
                 right. exists KWrite, (read_range m1 (f_base w) (lenN got)). fold c0. split; [reflexivity|]. rewrite R. split; [intros _; exact I|intros []].
           ++ exists [c0]. split; [reflexivity|]. split; [rewrite <- R; apply op_out_call|exact Hsh].
           ++ exists [c0]. split; [reflexivity|]. split; [rewrite <- R; apply op_out_call|exact Hsh].
           ++ exists [c0]. split; [reflexivity|]. split; [rewrite <- R; apply op_out_call|exact Hsh].
           ++ exists [c0]. split; [reflexivity|]. split; [rewrite <- R; apply op_out_call|exact Hsh].
Qed.

Lemma dw_write_all_from_out strict dev count src m w : f_inv w ->
  let '(r, m', w', cs) := dw_write_all_from strict dev count src m w in op_out strict false (dev O) r cs /\ w_shape m w m' w'.
Proof.
  intro Hinv. unfold dw_write_all_from. destruct (f_check w count) as [r0|].
  - split; [apply op_out_nocall|apply w_shape_refl; exact Hinv].
  - pose proof (dw_write_all_from_loop_out strict dev (S (N.to_nat count)) count src m w [] Hinv) as H.
    destruct (dw_write_all_from_loop _ _ _ _ _ _ _ _) as [[[r m'] w'] cs]. destruct H as [ext [E1 [E2 E3]]]. cbn [app length] in *. subst. auto.
Qed.

(* ------------------------------------------------------------------ the machine, for every oracle *)
Definition d_wf (st : dstate) : Prop := Forall f_inv (d_ws st).
Definition op_raw (op : dop) : bool := match op with DCommit _ _ => true | _ => false end.
(* memory outside the windows of the writers untouched; windows never grow *)
Definition d_frame (st st' : dstate) : Prop :=
  d_wf st' /\
  (forall x, (forall w, In w (d_ws st) -> ~ f_owns w x) -> mget (d_mem st') x = mget (d_mem st) x) /\
  (forall w' x, In w' (d_ws st') -> f_owns w' x -> exists w, In w (d_ws st) /\ f_owns w x).

Lemma d_frame_refl st : d_wf st -> d_frame st st.
Proof. intro H. unfold d_frame. split; [exact H|]. split; [reflexivity|eauto]. Qed.

Lemma d_frame_write st i w m' w' cs : d_wf st -> nth_error (d_ws st) i = Some w -> w_shape (d_mem st) w m' w' ->
  d_frame st (mkd m' (set_nth i w' (d_ws st)) cs).
Proof.
  intros Hwf E [S1 [S2 [S3 [S4 [S5 S6]]]]]. pose proof (nth_error_In _ _ E) as Hin.
  unfold d_frame, d_wf. cbn [d_mem d_ws]. split; [apply Forall_set_nth; assumption|]. split.
  - intros x Hx. apply S6. apply Hx. exact Hin.
  - intros w2 x Hw2 Hx. apply in_set_nth in Hw2. destruct Hw2 as [->|Hw2]; [|eauto].
    exists w. split; [exact Hin|]. unfold f_owns in *. rewrite <- S2, <- S3. exact Hx.
Qed.

(* one operation, any oracle: the device calls made so far grow by at most one call (made with the next verdict),
   the result relates to that call as [op_out] says, len <= cap is kept, nothing outside the windows is written *)
Theorem dstep_out strict dev op st : d_wf st ->
  exists ext, d_calls (snd (dstep strict dev op st)) = d_calls st ++ ext /\
    op_out strict (op_raw op) (dev (length (d_calls st))) (do_res (fst (dstep strict dev op st))) ext /\
    d_frame st (snd (dstep strict dev op st)).
Proof.
  intro Hwf.
  assert (Hbad : exists ext, d_calls st = d_calls st ++ ext /\
            op_out strict (op_raw op) (dev (length (d_calls st))) (do_res dobs_bad) ext /\ d_frame st st).
  { exists []. rewrite app_nil_r. split; [reflexivity|]. split; [apply op_out_nocall|apply d_frame_refl; exact Hwf]. }
  destruct op as [i data|i datas|i count src|i data|i count src|i off|i other]; unfold dstep; cbn [op_raw].
  - destruct (nth_error (d_ws st) i) as [w|] eqn:E; [|exact Hbad].
    assert (Hinv : f_inv w) by (eapply nth_error_Forall; eauto).
    pose proof (dw_write_out strict (dev (length (d_calls st))) data (d_mem st) w Hinv) as H.
    destruct (dw_write _ _ _ _ _) as [[[r m'] w'] cs]. destruct H as [H1 H2]. cbn [fst snd d_calls do_res dobs1].
    exists cs. split; [reflexivity|]. split; [exact H1|]. eapply d_frame_write; eauto.
  - destruct (nth_error (d_ws st) i) as [w|] eqn:E; [|exact Hbad].
    assert (Hinv : f_inv w) by (eapply nth_error_Forall; eauto).
    pose proof (dw_write_vectored_out strict (dev (length (d_calls st))) datas (d_mem st) w Hinv) as H.
    destruct (dw_write_vectored _ _ _ _ _) as [[[r m'] w'] cs]. destruct H as [H1 H2]. cbn [fst snd d_calls do_res dobs1].
    exists cs. split; [reflexivity|]. split; [exact H1|]. eapply d_frame_write; eauto.
  - destruct (nth_error (d_ws st) i) as [w|] eqn:E; [|exact Hbad].
    assert (Hinv : f_inv w) by (eapply nth_error_Forall; eauto).
    pose proof (dw_write_from_out strict (dev (length (d_calls st))) count src (d_mem st) w Hinv) as H.
    destruct (dw_write_from _ _ _ _ _ _) as [[[r m'] w'] cs]. destruct H as [H1 H2]. cbn [fst snd d_calls do_res dobs1].
    exists cs. split; [reflexivity|]. split; [exact H1|]. eapply d_frame_write; eauto.
  - destruct (nth_error (d_ws st) i) as [w|] eqn:E; [|exact Hbad].
    assert (Hinv : f_inv w) by (eapply nth_error_Forall; eauto).
    pose proof (dw_write_all_out strict (fun k => dev (length (d_calls st) + k)%nat) data (d_mem st) w Hinv) as H.
    destruct (dw_write_all _ _ _ _ _) as [[[r m'] w'] cs]. destruct H as [H1 H2]. cbn [fst snd d_calls do_res dobs1].
    rewrite Nat.add_0_r in H1. exists cs. split; [reflexivity|]. split; [exact H1|]. eapply d_frame_write; eauto.
  - destruct (nth_error (d_ws st) i) as [w|] eqn:E; [|exact Hbad].
    assert (Hinv : f_inv w) by (eapply nth_error_Forall; eauto).
    pose proof (dw_write_all_from_out strict (fun k => dev (length (d_calls st) + k)%nat) count src (d_mem st) w Hinv) as H.
    destruct (dw_write_all_from _ _ _ _ _ _) as [[[r m'] w'] cs]. destruct H as [H1 H2]. cbn [fst snd d_calls do_res dobs1].
    rewrite Nat.add_0_r in H1. exists cs. split; [reflexivity|]. split; [exact H1|]. eapply d_frame_write; eauto.
  - destruct (nth_error (d_ws st) i) as [w|] eqn:E; [|exact Hbad].
    assert (Hinv : f_inv w) by (eapply nth_error_Forall; eauto). pose proof (nth_error_In _ _ E) as Hin.
    destruct (fw_split_spec off w Hinv) as [Hno Hok].
    destruct (N.lt_ge_cases (f_cap w) off) as [H|H].
    + rewrite (Hno H). cbn [fst snd do_res dobs1]. exists []. rewrite app_nil_r. split; [reflexivity|]. split; [apply op_out_nocall|apply d_frame_refl; exact Hwf].
    + destruct (Hok H) as [a [o [E2 [_ [_ [_ [_ [_ [_ [_ [_ [Ia [Io [Hown _]]]]]]]]]]]]]]. rewrite E2. cbn [fst snd do_res d_calls].
      exists []. rewrite app_nil_r. split; [reflexivity|]. split; [apply op_out_nocall|].
      unfold d_frame, d_wf. cbn [d_mem d_ws]. split; [apply Forall_app; split; [apply Forall_set_nth; assumption|auto]|]. split; [reflexivity|].
      intros w2 x Hw2 Hx. apply in_app_or in Hw2. destruct Hw2 as [Hw2|[<-|[]]].
      * apply in_set_nth in Hw2. destruct Hw2 as [->|Hw2]; [|eauto]. exists w. split; [exact Hin|]. apply Hown. auto.
      * exists w. split; [exact Hin|]. apply Hown. auto.
  - destruct (nth_error (d_ws st) i) as [w|] eqn:E; [|exact Hbad].
    pose proof (dw_commit_out strict (dev (length (d_calls st))) (d_mem st) w
                  (match other with Some j => nth_error (d_ws st) j | None => None end)) as H.
    destruct (dw_commit _ _ _ _ _) as [r cs]. cbn [fst snd d_calls do_res dobs1].
    exists cs. split; [reflexivity|]. split; [exact H|]. unfold d_frame, d_wf. cbn [d_mem d_ws]. split; [exact Hwf|]. split; [reflexivity|eauto].
Qed.

Lemma drun_snd_cons strict dev op ops st : snd (drun strict dev (op :: ops) st) = snd (drun strict dev ops (snd (dstep strict dev op st))).
Proof. cbn [drun]. destruct (dstep strict dev op st) as [o st1]. cbn [snd]. destruct (drun strict dev ops st1) as [os st2]. reflexivity. Qed.

(* any operation list, any oracle: at most one device call per operation; len <= cap for every writer;
   memory outside the reply buffer untouched; windows never grow *)
Theorem drun_inv strict dev ops st : d_wf st ->
  (exists ext, d_calls (snd (drun strict dev ops st)) = d_calls st ++ ext /\ (length ext <= length ops)%nat) /\
  d_frame st (snd (drun strict dev ops st)).
Proof.
  revert st; induction ops as [|op ops IH]; intros st Hwf.
  - cbn [drun snd]. split; [exists []; rewrite app_nil_r; cbn; split; [reflexivity|lia]|apply d_frame_refl; exact Hwf].
  - rewrite drun_snd_cons. destruct (dstep_out strict dev op st Hwf) as [e1 [C1 [O1 [W1 [M1 G1]]]]].
    destruct (IH _ W1) as [[e2 [C2 L2]] [W2 [M2 G2]]]. split.
    + exists (e1 ++ e2). rewrite C2, C1, app_assoc. split; [reflexivity|]. rewrite app_length. apply op_out_length in O1. cbn [length]. lia.
    + split; [exact W2|]. split.
      * intros x Hx. rewrite M2; [apply M1; exact Hx|].
        intros w1 Hw1 Hown. destruct (G1 _ _ Hw1 Hown) as [w [Hw Hwx]]. exact (Hx w Hw Hwx).
      * intros w2 x Hw2 Hx. destruct (G2 _ _ Hw2 Hx) as [w1 [Hw1 Hx1]]. eauto.
Qed.

(* ------------------------------------------------------------------ the property and where it fails *)
(* "success is reported only if the device took the whole packet" *)
Definition dev_full (strict : bool) : Prop :=
  forall dev op st, d_wf st ->
    forall ext, d_calls (snd (dstep strict dev op st)) = d_calls st ++ ext ->
    dres_ok (do_res (fst (dstep strict dev op st))) -> Forall dev_whole ext.

Lemma op_out_whole strict raw v r cs : op_out strict raw v r cs -> dres_ok r -> strict = true \/ no_short v -> Forall dev_whole cs.
Proof.
  intros [[-> _]|[k [p [-> [H1 _]]]]] Hok Hs; [constructor|]. constructor; [|constructor].
  eapply dev_result_ok; eauto.
Qed.

Theorem dev_full_strict : dev_full true.
Proof.
  intros dev op st Hwf ext E Hok. destruct (dstep_out true dev op st Hwf) as [e1 [C1 [O1 _]]].
  rewrite C1 in E. apply app_inv_head in E. subst e1. eapply op_out_whole; eauto.
Qed.
(* without the check: holds for every device that never short-writes *)
Theorem dev_full_no_short dev op st : d_wf st -> no_short (dev (length (d_calls st))) ->
  forall ext, d_calls (snd (dstep false dev op st)) = d_calls st ++ ext ->
  dres_ok (do_res (fst (dstep false dev op st))) -> Forall dev_whole ext.
Proof.
  intros Hwf Hn ext E Hok. destruct (dstep_out false dev op st Hwf) as [e1 [C1 [O1 _]]].
  rewrite C1 in E. apply app_inv_head in E. subst e1. eapply op_out_whole; eauto.
Qed.
(* the witness: a split writer holding 4 bytes, commit, the device takes 2 of them: Ok(2) *)
Definition dev_witness_st : dstate := mkd (mem_init 0) [mkfdw true 1000 4 16] [].
Theorem dev_full_refuted : ~ dev_full false.
Proof.
  intro H. specialize (H (fun _ => DShort 2) (DCommit 0 None) dev_witness_st).
  assert (Hwf : d_wf dev_witness_st) by (repeat constructor; unfold f_inv; cbn; lia).
  specialize (H Hwf _ eq_refl I). inversion H as [|c l Hc _]; subst. vm_compute in Hc. discriminate.
Qed.
Theorem dev_full_iff strict : dev_full strict <-> strict = true.
Proof.
  split.
  - destruct strict; [reflexivity|]. intro H. exfalso. exact (dev_full_refuted H).
  - intros ->. exact dev_full_strict.
Qed.

(* a reported device error (without the strict check): exactly one call was made, it failed with that errno and the
   device took nothing *)
Theorem dev_error_means_refused dev op st : d_wf st ->
  dres_dev_err (do_res (fst (dstep false dev op st))) ->
  exists c e, d_calls (snd (dstep false dev op st)) = d_calls st ++ [c] /\ dc_ret c = DErrno e /\ emitted c = [] /\
              do_res (fst (dstep false dev op st)) = (if op_raw op then DRaw e else DOther e).
Proof.
  intros Hwf Herr. destruct (dstep_out false dev op st Hwf) as [e1 [C1 [O1 _]]].
  destruct O1 as [[-> Hn]|[k [p [-> [_ H2]]]]]; [contradiction|].
  destruct (dev_result_err _ _ _ Herr (H2 Herr)) as [e [He Hr]].
  exists (dev_call (dev (length (d_calls st))) k p), e. repeat split; auto. eapply emitted_fail; eauto.
Qed.

(* an unbuffered writer that already accounted for bytes never reaches the device again (unless it is split) *)
Theorem dev_poisoned_silent strict dev op st i w : nth_error (d_ws st) i = Some w -> f_buffered w = false -> f_len w <> 0 ->
  match op with
  | DWrite j _ | DWriteV j _ | DWriteFrom j _ _ | DWriteAllFrom j _ _ => j = i /\ True
  | DWriteAll j data => j = i /\ data <> []
  | _ => False
  end ->
  dstep strict dev op st = (dobs1 (DR RPanic) w, mkd (d_mem st) (set_nth i w (d_ws st)) (d_calls st ++ [])).
Proof.
  intros E B L. destruct op as [j data|j datas|j count src|j data|j count src|j off|j other]; try contradiction; intros [-> Hx]; unfold dstep; rewrite E.
  - rewrite (dw_write_poisoned _ _ _ _ _ B L). reflexivity.
  - rewrite (dw_write_vectored_poisoned _ _ _ _ _ B L). reflexivity.
  - rewrite (dw_write_from_poisoned _ _ _ _ _ _ B L). reflexivity.
  - unfold dw_write_all. destruct data as [|b data]; [contradiction|]. cbn [length dw_write_all_loop].
    rewrite (dw_write_poisoned _ _ _ _ _ B L). reflexivity.
  - unfold dw_write_all_from. rewrite (f_check_poisoned _ _ B L). reflexivity.
Qed.
Theorem dev_commit_unbuffered_silent strict dev st i w other : nth_error (d_ws st) i = Some w -> f_buffered w = false ->
  dstep strict dev (DCommit i other) st = (dobs1 (DR (ROk 0 [])) w, mkd (d_mem st) (d_ws st) (d_calls st ++ [])).
Proof. intros E B. unfold dstep. rewrite E. unfold dw_commit. rewrite B. reflexivity. Qed.

(* counters (without the strict check): an unbuffered write / write_vectored accounts exactly for the bytes the
   device took; an unbuffered write_from accounts for the file data whatever the device took *)
Theorem dev_write_counts v data m w : f_buffered w = false -> f_check w (lenN data) = None ->
  let '(r, m', w', cs) := dw_write false v data m w in
  exists c, cs = [c] /\ dc_offered c = data /\ m' = m /\ f_len w' = f_len w + lenN (emitted c) /\
            r = (match dc_ret c with DRet k => DR (ROk k []) | DErrno e => DOther e end).
Proof.
  intros B C. unfold dw_write. rewrite C, B. eexists. split; [reflexivity|]. cbn [f_len dev_call dc_offered].
  rewrite dev_accounted_emitted. repeat split.
Qed.
Theorem dev_write_from_counts v count sd m w : f_buffered w = false -> f_check w count = None ->
  let got := firstn (N.to_nat count) sd in
  let '(r, m', w', cs) := dw_write_from false v count (Some sd) m w in
  exists c, cs = [c] /\ dc_offered c = got /\ f_len w' = f_len w + lenN got /\ lenN (emitted c) <= lenN got /\
            r = (match dc_ret c with DRet k => DR (ROk k []) | DErrno e => DOther e end).
Proof.
  intros B C. cbn zeta. destruct (dw_write_from_unbuffered false v count sd m w B C) as [Eq Hoff]. cbn zeta in Eq, Hoff. rewrite Eq.
  eexists. split; [reflexivity|]. split; [exact Hoff|]. cbn [f_len]. split; [reflexivity|]. split.
  - rewrite emitted_len. rewrite lenN_read_range. pose proof (dev_ret_le v (lenN (firstn (N.to_nat count) sd))) as H.
    destruct (dev_ret v _); lia.
  - reflexivity.
Qed.

(* ------------------------------------------------------------------ a device that takes everything: the machine of
   Model/Transport.v (the fw_ functions), call for packet *)
Definition pkt_call (k : dkind) (p : list N) : dcall := mkdc k p (DRet (lenN p)).
Lemma dev_result_all strict raw k p : dev_result strict raw (dev_call DAll k p) = DR (ROk (lenN p) []) /\
  dev_accounted strict (dev_call DAll k p) = lenN p /\ dev_call DAll k p = pkt_call k p.
Proof.
  unfold dev_result, dev_accounted, dev_call, pkt_call. cbn [dc_ret dc_offered dev_ret]. rewrite N.ltb_irrefl, andb_false_r. auto.
Qed.
Theorem dev_all_write strict data m w :
  dw_write strict DAll data m w = let '(r, m', w', ps) := fw_write data m w in (DR r, m', w', map (pkt_call KWrite) ps).
Proof.
  unfold dw_write, fw_write. destruct (f_check w (lenN data)); [reflexivity|]. destruct (f_buffered w); [reflexivity|].
  destruct (dev_result_all strict false KWrite data) as [-> [-> ->]]. reflexivity.
Qed.
Theorem dev_all_write_from strict count src m w :
  dw_write_from strict DAll count src m w = let '(r, m', w', ps) := fw_write_from count src m w in (DR r, m', w', map (pkt_call KWrite) ps).
Proof.
  unfold dw_write_from, fw_write_from. destruct (f_check w count); [reflexivity|]. destruct src as [sd|]; [|reflexivity]. cbn zeta.
  destruct (f_buffered w); [reflexivity|].
  destruct (dev_result_all strict false KWrite (read_range (write_list m (f_base w + f_len w) (firstn (N.to_nat count) sd)) (f_base w) (lenN (firstn (N.to_nat count) sd)))) as [-> [_ ->]].
  rewrite lenN_read_range. reflexivity.
Qed.
Theorem dev_all_commit strict m w other :
  fst (dw_commit strict DAll m w other) = DR (fst (fw_commit m w other)) /\
  map dc_offered (snd (dw_commit strict DAll m w other)) = snd (fw_commit m w other) /\
  Forall dev_whole (snd (dw_commit strict DAll m w other)).
Proof.
  unfold dw_commit, fw_commit. destruct (f_buffered w); cbn [negb]; [|repeat split; constructor].
  destruct (read_range m (f_base w) (f_len w)) as [|x s]; destruct (match other with Some x => _ | None => [] end) as [|y o];
    cbn [fst snd map]; try (repeat split; constructor);
    match goal with |- context [dev_call DAll ?k ?p] => destruct (dev_result_all strict true k p) as [-> [_ ->]] end;
    cbn [pkt_call dc_offered]; rewrite ?app_nil_r; repeat split; repeat constructor.
Qed.
