(* C02: source-level decode exactness.  Composition of
     - Proofs/ServerHandlersSrc.v  (the model's handler makes the calls the SOURCE's handler body makes, [src_calls]) and
     - Proofs/ServerDecodeOps*.v   (the model's handler makes exactly [expected_call] on every well-formed request):
   for every well-formed request, the filesystem call read off the Rust handler body -- fields by name through the
   crate's struct layouts, the crate's constants -- is exactly the operation and arguments the specification
   (Spec/Requests.v, kernel field names and kernel layouts) prescribes. *)
From Coq Require Import List String NArith Bool Lia Arith ZifyBool ZifyNat ZifyN.
From FB Require Import Lib.Bytes Lib.Layout Gen.RustABI Spec.KernelABI Model.Server Model.ServerSrc Gen.RustHandlers
  Spec.Requests Spec.WfReq Proofs.EncLemmas Proofs.ServerDecide Proofs.ServerDecodeLib Proofs.ServerDecodeOps
  Proofs.ServerDecodeOps2 Proofs.ServerDecode Proofs.ServerHandlersSrc.
Import ListNotations.
Local Open Scope string_scope.
Local Open Scope list_scope.
Local Open Scope N_scope.

Lemma bytes_okb_ok l : bytes_okb l = true -> bytes_ok l.
Proof.
  unfold bytes_okb, bytes_ok. intro H. rewrite forallb_forall in H. apply Forall_forall.
  intros x Hx. specialize (H x Hx). lia.
Qed.

Lemma encf_bytes_ok fs : bytes_ok (encf fs).
Proof.
  unfold encf, bytes_ok. induction fs as [|p fs IH]; cbn [flat_map]; [constructor|].
  apply Forall_app. split; [apply enc_bytes_ok|exact IH].
Qed.

Lemma pairs_bytes_ok l : bytes_ok (pairs_bytes l).
Proof.
  unfold pairs_bytes, bytes_ok. induction l as [|p l IH]; cbn [flat_map]; [constructor|].
  repeat (apply Forall_app; split); try apply enc_bytes_ok. exact IH.
Qed.

Lemma repeat0_ok n : bytes_ok (repeat 0 n).
Proof. unfold bytes_ok. induction n; cbn; constructor; [lia|assumption]. Qed.

Lemma tail_bytes_ok q :
  bytes_ok (q_name1 q) -> bytes_ok (q_name2 q) -> bytes_ok (q_payload q) -> bytes_ok (tail_bytes q).
Proof.
  intros H1 H2 H3.
  assert (Z : bytes_ok [0]) by (constructor; [lia|constructor]).
  assert (E : bytes_ok []) by constructor.
  assert (A : forall a b, bytes_ok a -> bytes_ok b -> bytes_ok (a ++ b)) by (intros; apply Forall_app; split; assumption).
  unfold tail_bytes.
  repeat match goal with
  | |- bytes_ok (match ?x with _ => _ end) => destruct x
  end;
  repeat first [ assumption | apply pairs_bytes_ok | apply enc_bytes_ok | apply repeat0_ok | apply A ].
Qed.

Lemma body_bytes_ok q : wf_req q = true -> bytes_ok (body q).
Proof.
  unfold wf_req. intro H.
  repeat match type of H with (_ && _) = true => apply andb_prop in H; let H' := fresh "W" in destruct H as [H H'] end.
  unfold body. apply Forall_app. split.
  - rewrite struct_bytes_eq. apply encf_bytes_ok.
  - apply tail_bytes_ok; apply bytes_okb_ok; assumption.
Qed.

(* the source's calls on the body of an encoded well-formed request = the specification's expected call *)
Theorem src_calls_meet_spec : forall e, In e src_handlers ->
  forall q cfg cap ctx,
    wf_req q = true -> q_op q = se_op e -> env_ok cfg cap q = true ->
    src_calls e cfg (qhdr q) ctx (body q) cap = expected_calls q ctx.
Proof.
  intros e Hin q cfg cap ctx Hwf Hop Henv.
  pose proof src_ties_all as HA. rewrite Forall_forall in HA. specialize (HA e Hin). unfold tie_ok in HA.
  destruct (find_handler (se_op e) handlers) as [f|] eqn:Hf; [|contradiction].
  pose proof handlers_all_exact as HE. rewrite Forall_forall in HE.
  specialize (HE _ (find_handler_in _ _ _ Hf)). cbn [fst snd] in HE.
  destruct (HE q cfg ctx FUnit cap Hop (wf_req_facts q Hwf) Henv) as [a [E _]].
  rewrite <- (HA cfg (qhdr q) ctx (body q) FUnit cap (body_bytes_ok q Hwf)). rewrite E. reflexivity.
Qed.

(* ... and at the level of handle_message: what the server does with the encoded request is the id-remap call followed
   by the calls read off the source's handler body (which, by the theorem above, are the expected ones) *)
Theorem src_decide_encoded : forall e, In e src_handlers ->
  forall q cfg fr cap du dg,
    wf_req q = true -> q_op q = se_op e -> cfg_remap cfg = RemapOk du dg ->
    fst (fst (decide cfg (encode_req q) fr cap)) =
      remap_call q :: src_calls e cfg (qhdr q) (qctx q du dg) (body q) cap.
Proof.
  intros e Hin q cfg fr cap du dg Hwf Hop Hre.
  pose proof (wf_req_facts q Hwf) as F.
  pose proof src_ties_all as HA. rewrite Forall_forall in HA. specialize (HA e Hin). unfold tie_ok in HA.
  destruct (find_handler (se_op e) handlers) as [f|] eqn:Hf; [|contradiction].
  destruct (wf_ops_range _ (wf_op q F)) as [_ H26].
  rewrite <- Hop in Hf.
  rewrite (decide_encode_req q cfg fr cap du dg f (wf_hdr q F) (wf_len q F) H26 Hre Hf). cbv zeta. cbn [fst].
  change 4294967296 with (2 ^ 32). fold (qctx q du dg).
  rewrite (HA cfg (qhdr q) (qctx q du dg) (body q) fr cap (body_bytes_ok q Hwf)). reflexivity.
Qed.

(* non-vacuity: the table row of WRITE run on the sample WRITE of Proofs/ServerDecode.v *)
Example src_calls_sample_write :
  match src_entry_for 16 with
  | Some e => src_calls e sample_cfg (qhdr sample_write) (0, 0, 4242) (body sample_write) 0
  | None => []
  end =
  [mk "write" (0, 0, 4242)
      [AN 4660; AN 18446744073709551615; AB [104; 101; 108; 108; 111]; AN 5; AN 4096;
       AO (Some 81985529216486895); ABool true; AN 32769; AN 3]].
Proof. vm_compute. reflexivity. Qed.
