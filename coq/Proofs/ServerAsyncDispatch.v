(* C20: the translated async dispatch table / gate shape (Gen/RustAsyncDispatch.v, regenerated from
   src/api/server/async_io.rs and src/transport/fusedev/mod.rs on every run) against the model. *)
From Coq Require Import List String NArith Bool.
From FB Require Import Lib.Bytes Gen.RustDispatch Gen.RustAsyncDispatch Model.Server Model.ServerAsync
                       Proofs.ServerDispatch.
Import ListNotations.
Local Open Scope string_scope.
Local Open Scope list_scope.
Local Open Scope N_scope.

Fixpoint insert2 (x : N * bool) (l : list (N * bool)) : list (N * bool) :=
  match l with [] => [x] | y :: r => if fst x <=? fst y then x :: l else y :: insert2 x r end.
Definition sort2 (l : list (N * bool)) : list (N * bool) := fold_right insert2 [] l.
Fixpoint list2_eqb (a b : list (N * bool)) : bool :=
  match a, b with
  | [], [] => true
  | (x, p) :: a', (y, q) :: b' => (x =? y) && Bool.eqb p q && list2_eqb a' b'
  | _, _ => false
  end.

(* the model dispatches exactly the translated opcodes, and marks as async exactly the arms that await an
   async handler (INIT is handled by do_init in the model: a fall-back arm) *)
Lemma async_table_matches :
  list2_eqb (sort2 ((26, false) :: map fst (async_handlers code_shape)))
            (sort2 (map (fun e => (fst (fst e), snd e)) rust_async_dispatch)) = true.
Proof. vm_compute. reflexivity. Qed.

Fixpoint lookup_h (op : N) (l : list (N * string * list string)) : option string :=
  match l with [] => None | (o, h, _) :: r => if op =? o then Some h else lookup_h op r end.

(* every fall-back arm calls the handler function the sync dispatch calls for that opcode, and every async
   arm calls `async_<that handler>`, which awaits AsyncFileSystem::async_<method> of the sync handler's
   FileSystem::<method> *)
Definition arm_ok (e : N * string * bool) : bool :=
  let '(op, h, a) := e in
  match lookup_h op rust_dispatch with
  | Some hs => if a then String.eqb h ("async_" ++ hs) else String.eqb h hs
  | None => false
  end.
Lemma async_arms_name_the_sync_handlers : forallb arm_ok rust_async_dispatch = true.
Proof. vm_compute. reflexivity. Qed.

Fixpoint lookup_m (op : N) (l : list (N * string * list string)) : list string :=
  match l with [] => [] | (o, _, ms) :: r => if op =? o then ms else lookup_m op r end.
Definition call_ok (e : N * string * list string) : bool :=
  let '(op, h, ms) := e in
  match ms, lookup_m op rust_dispatch with
  | [m], [m'] => String.eqb m ("async_" ++ m')
  | _, _ => false
  end.
Lemma async_handlers_await_the_async_twin : forallb call_ok rust_async_calls = true.
Proof. vm_compute. reflexivity. Qed.

(* the errnos the model's gate, write gate and default arm use are the code's (0 = the write gate is absent);
   commit() has the early return the model of the sync writer (w_commit) has *)
Lemma async_errnos_match :
  rust_async_gate_errno = ENOMEM /\
  ((rust_async_write_gate_errno =? ENOMEM) || (rust_async_write_gate_errno =? 0)) = true /\
  rust_async_default_errno = ENOSYS /\ rust_commit_skips_unbuffered = true.
Proof. repeat split; reflexivity. Qed.

(* the code as it is (after fix: commits 2dcabb6 and 45bf06c): the gate mirrors the sync gate, async_commit
   skips an unbuffered writer; the size gate of async_write is still there.  When that changes this lemma (and
   the C20_refuted witness that rests on the same fact) stops checking, while C20_partial_any_shape keeps
   holding for the new shape. *)
Lemma code_shape_is :
  code_shape = {| sh_gate_capacity := false; sh_gate_exempts_forget := true; sh_write_gate := true; sh_commit_skips := true;
                  sh_lookup_badname := true; sh_create_badname := true |}.
Proof. reflexivity. Qed.
