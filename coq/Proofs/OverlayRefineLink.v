(* Per-operation refinement for LINK, no copy-up: the source is a regular file or symlink of the upper layer, the new
   parent a directory of the upper layer, and the new name has no candidate in any layer. *)
From Coq Require Import List String Arith NArith Bool Lia.
From FB Require Import Model.Overlay Proofs.OverlayInv Proofs.OverlayScan Proofs.OverlayRestart
  Proofs.OverlayReadOnly Proofs.OverlayCoh Proofs.OverlayCohView Proofs.OverlayCopyUp Proofs.OverlayCohOps
  Proofs.OverlayCohSteps Proofs.OverlayRefineTeq Proofs.OverlayRefineMerge Proofs.OverlayRefineRun Proofs.OverlayRefine.
Import ListNotations.
Local Open Scope N_scope.

(* ------------------------------------------------------------------ lookups and walks never drop a cached node *)
Definition npres {A} (m : M A) : Prop :=
  forall s, Coherent s -> forall (q : path) n, nget q (root s) = Some n -> exists n', nget q (root (snd (m s))) = Some n'.
Lemma npres_same {A} (m : M A) : (forall s, snd (m s) = s) -> npres m.
Proof. intros H s _ q n Hq. rewrite H. eauto. Qed.
Lemma npres_bind {A B} (m : M A) (f : A -> M B) : cpres m -> npres m -> (forall a, npres (f a)) -> npres (bind m f).
Proof.
  intros Hc Hm Hf s HC q n Hq. unfold bind. destruct (Hm s HC q n Hq) as [n1 H1]. specialize (Hc s HC).
  destruct (m s) as [[a|e] s1]; cbn [snd] in *; [|eauto]. exact (Hf a s1 Hc q n1 H1).
Qed.
Lemma npres_if {A} (b : bool) (m1 m2 : M A) : npres m1 -> npres m2 -> npres (if b then m1 else m2).
Proof. destruct b; auto. Qed.
Lemma npres_ret {A} (a : A) : npres (ret a). Proof. apply npres_same; reflexivity. Qed.
Lemma npres_fail {A} e : npres (@fail A e). Proof. apply npres_same; reflexivity. Qed.
Lemma npres_get_node p : npres (get_node p).
Proof. apply npres_same. intros s. unfold get_node. destruct (nget p (root s)); reflexivity. Qed.
Lemma npres_stat_node n : npres (stat_node n).
Proof. apply npres_same. intros s. unfold stat_node. destruct (node_stat s n); reflexivity. Qed.

Lemma nget_nupd_keep f : forall (a : path) r m0, nget a r = Some m0 ->
  (forall k c, afind k (n_ch m0) = Some c -> afind k (n_ch (f m0)) = Some c) ->
  forall (q : path) n, nget q r = Some n -> exists n', nget q (nupd a f r) = Some n'.
Proof.
  induction a as [|c a IH]; intros r m0 Ha Hk q n Hq; cbn [nget nupd] in *.
  - inversion Ha; subst m0. destruct q as [|k q]; cbn [nget] in *; [eauto|].
    destruct (afind k (n_ch r)) as [y|] eqn:E; [|discriminate]. rewrite (Hk k y E). eauto.
  - destruct (afind c (n_ch r)) as [y|] eqn:Ec; [|discriminate].
    destruct q as [|k q]; cbn [nget n_ch] in *; [eauto|].
    destruct (String.eqb c k) eqn:E.
    + apply String.eqb_eq in E; subst k. rewrite Ec in Hq.
      assert (Ea : afind c (amap c (nupd a f) (n_ch r)) = Some (nupd a f y)) by (rewrite afind_amap, Ec; reflexivity).
      rewrite Ea. exact (IH y m0 Ha Hk q n Hq).
    + rewrite (afind_amap_other k c (nupd a f) (n_ch r) E). destruct (afind k (n_ch r)) as [z|]; [|discriminate]. eauto.
Qed.
Lemma npres_load_dir p : npres (load_dir p).
Proof.
  intros s HC q n Hq. unfold load_dir, bind, get_node. destruct (nget p (root s)) as [m0|] eqn:Hp; cbn [snd]; [|eauto].
  destruct (n_loaded m0) eqn:El; cbn [ret snd]; [eauto|]. destruct (scan_children s m0) as [cs|e]; cbn [snd]; [|eauto].
  unfold mod_node. cbn [snd root]. refine (nget_nupd_keep (load1 s) p (root s) m0 Hp _ q n Hq).
  intros k c Hc. pose proof HC as (_ & _ & HCT). pose proof (HCT p m0 Hp) as N. rewrite (ok_unl _ _ _ _ N El) in Hc. discriminate.
Qed.
Lemma npres_load_if_dir p n st : npres (load_if_dir p n st).
Proof. unfold load_if_dir. apply npres_if; [apply npres_load_dir|apply npres_ret]. Qed.
Lemma npres_lookup_node p nm : npres (lookup_node p nm).
Proof.
  unfold lookup_node. apply npres_bind; [apply cpres_get_node|apply npres_get_node|]. intros pn.
  apply npres_if; [apply npres_fail|]. apply npres_bind; [apply cpres_stat_node|apply npres_stat_node|]. intros st.
  apply npres_bind; [apply cpres_load_if_dir|apply npres_load_if_dir|]. intros _.
  destruct nm as [c|]; [|apply npres_ret]. apply npres_bind; [apply cpres_get_node|apply npres_get_node|]. intros pn'.
  destruct (afind c (n_ch pn')); [apply npres_ret|apply npres_fail].
Qed.
Lemma npres_do_lookup p nm : npres (do_lookup p nm).
Proof.
  unfold do_lookup. apply npres_bind; [apply cpres_lookup_node|apply npres_lookup_node|]. intros q.
  apply npres_bind; [apply cpres_get_node|apply npres_get_node|]. intros n. apply npres_if; [apply npres_fail|].
  apply npres_bind; [apply cpres_stat_node|apply npres_stat_node|]. intros st.
  apply npres_bind; [apply cpres_load_if_dir|apply npres_load_if_dir|]. intros _. apply npres_ret.
Qed.
Lemma npres_walk_from p : forall cur, npres (walk_from cur p).
Proof.
  induction p as [|c p IH]; intros cur; cbn [walk_from]; [apply npres_ret|].
  apply npres_bind; [apply cpres_do_lookup|apply npres_do_lookup|]. intros _. apply IH.
Qed.
Lemma npres_sync_parent pp : npres (sync_parent pp).
Proof.
  unfold sync_parent. apply npres_bind; [apply cpres_lookup_node|apply npres_lookup_node|]. intros _.
  apply npres_bind; [apply cpres_get_node|apply npres_get_node|]. intros pn. apply npres_if; [apply npres_fail|apply npres_ret].
Qed.

(* ------------------------------------------------------------------ the run *)
Definition is_leafT (c : tree) : bool := match c with File _ _ _ _ | Lnk _ => true | _ => false end.
Lemma leaf_facts c : is_leafT c = true -> is_dirT c = false /\ is_whT c = false /\ wf c.
Proof. destruct c; try discriminate; intros _; repeat split; constructor. Qed.

Lemma node_checked_run (src : path) s u n c : Coherent s -> upper s = Some u -> nget src (root s) = Some n ->
  tget u src = Some c -> is_whT c = false ->
  exists s1 n1, node_checked src s = (Ok tt, s1) /\ Coherent s1 /\ sd s s1 /\ nget src (root s1) = Some n1.
Proof.
  intros HC Hu Hg Hc Hw.
  destruct (upper_node s u src n c HC Hu Hg Hc) as (pr & prs & _ & _ & _ & _ & _ & Hwn & _). rewrite Hw in Hwn.
  destruct (lookup_run src s n HC Hg Hwn) as (s1 & n1 & HC1 & Hsd1 & Hg1 & Hw1 & _ & _ & Hlk).
  exists s1, n1. unfold node_checked. rewrite (bind_ok _ _ _ _ _ (Hlk None)), (bind_ok _ _ _ _ _ (get_node_ok src s1 n1 Hg1)), Hw1. auto.
Qed.

Lemma do_link_run (src pp : path) (nm : name) s u sn pn c m x ch :
  Coherent s -> upper s = Some u -> nget src (root s) = Some sn -> nget pp (root s) = Some pn ->
  tget u src = Some c -> is_leafT c = true -> tget u pp = Some (Dir m x ch) -> mstack (u :: lowers s) (pp ++ [nm]) = [] ->
  exists s5 pn5, do_link src pp nm s = (Ok tt, s5) /\ upper s5 = Some (tupd pp (dir_ins nm c) u) /\
    lowers s5 = lowers s /\ nget pp (root s5) = Some pn5.
Proof.
  intros HC Hu Hgs Hgp Hc Hleaf Hpp Hms. destruct (leaf_facts c Hleaf) as (Hcd & Hcw & _).
  destruct (upper_node s u src sn c HC Hu Hgs Hc) as (sr & srs & Esr & Hsup & Hsl0 & Hspath & Hsst & Hsw & _). rewrite Hcw in Hsw.
  destruct (upper_node s u pp pn _ HC Hu Hgp Hpp) as (pr0 & prs0 & Epr0 & Hpup0 & _ & _ & _ & Hpw & _). cbn in Hpw.
  destruct (lookup_absent_run pp nm s u pn m x ch HC Hu Hgp Hpp Hms) as (s1 & pn1 & pr & prs & Elk & HC1 & (U1 & L1 & I1) & Hg1 & Hw1 & Er & Hup & Hl0 & Hpath).
  assert (Hu1 : upper s1 = Some u) by congruence.
  pose proof (mstack_nil_afind u (lowers s) pp nm m x ch Hpp Hms) as Hnone.
  set (u1 := tupd pp (dir_ins nm c) u).
  assert (Eln : ri_link pr sr nm s1 = (Ok (mkReal 0 true (pp ++ [nm]) false false false), set_layer s1 0 u1)).
  { unfold ri_link, ri_guard. rewrite Hup. unfold bind at 1. cbn [ret]. unfold bind at 1. rewrite Hsl0, Hl0. cbn [Nat.eqb]. unfold bind at 1. cbn [ret].
    rewrite Hspath, Hpath. rewrite (mutate0_ok (h_link src pp nm) s1 u u1 Hu1); [reflexivity|].
    unfold h_link. rewrite Hc. unfold h_insert. rewrite Hpp, Hnone. destruct c; try discriminate; reflexivity. }
  unfold do_link. rewrite (bind_ok _ _ _ _ _ (need_upper_ok s u Hu)), (bind_ok _ _ _ _ _ (get_node_ok src s sn Hgs)), (bind_ok _ _ _ _ _ (get_node_ok pp s pn Hgp)).
  rewrite Hsw, Hpw. cbn [orb].
  assert (Es : stat_node sn s = (Ok c, s)) by (unfold stat_node; rewrite Hsst; reflexivity).
  rewrite (bind_ok _ _ _ _ _ Es), Hcd.
  rewrite (bind_ok _ _ _ _ _ (copy_up_noop src s sn sr srs Hgs Esr Hsup)), (bind_ok _ _ _ _ _ (copy_up_noop pp s pn pr0 prs0 Hgp Epr0 Hpup0)).
  rewrite (bind_ok _ _ _ _ _ (get_node_ok src s sn Hgs)).
  assert (Efr : first_real sn s = (Ok sr, s)) by (unfold first_real; rewrite Esr; reflexivity).
  rewrite (bind_ok _ _ _ _ _ Efr), (bind_ok _ _ _ _ _ Elk).
  rewrite (bind_ok _ _ _ _ _ (get_node_ok pp s1 pn1 Hg1)), (bind_ok _ _ _ _ _ (upper_real_ok pn1 pr prs EINVAL s1 Er Hup)).
  rewrite (bind_ok _ _ _ _ _ Eln). unfold insert_child, mod_node. eexists. eexists. split; [reflexivity|]. cbn [upper lowers root set_layer].
  rewrite Hu1. split; [reflexivity|]. split; [exact L1|]. rewrite nget_nupd, Hg1. reflexivity.
Qed.

Theorem step_link_run (src pp : path) (nm : name) s u c m x ch :
  Coherent s -> upper s = Some u -> tget u src = Some c -> is_leafT c = true ->
  tget u pp = Some (Dir m x ch) -> mstack (u :: lowers s) (pp ++ [nm]) = [] ->
  exists s', step (OLink src (pp ++ [nm])) s = (Ok (kind_of c), s') /\ upper s' = Some (tupd pp (dir_ins nm c) u) /\ lowers s' = lowers s.
Proof.
  intros HC Hu Hc Hleaf Hpp Hms. destruct (leaf_facts c Hleaf) as (Hcd & Hcw & _).
  destruct (walk_run u src [] s (root s) c HC Hu eq_refl Hc Hcw) as (s1 & n1 & E1 & HC1 & Hsd1 & Hg1). cbn [app] in Hg1.
  assert (Hu1 : upper s1 = Some u) by (destruct Hsd1 as (A & _); congruence).
  destruct (walk_run u pp [] s1 (root s1) _ HC1 Hu1 eq_refl Hpp eq_refl) as (s2 & n2 & E2 & HC2 & Hsd2 & Hg2). cbn [app] in Hg2.
  assert (Hu2 : upper s2 = Some u) by (destruct Hsd2 as (A & _); congruence).
  destruct (npres_walk_from pp [] s1 HC1 src n1 Hg1) as [n1' Hg1']. unfold walk in *. rewrite E2 in Hg1'. cbn [snd] in Hg1'.
  destruct (node_checked_run src s2 u n1' c HC2 Hu2 Hg1' Hc Hcw) as (s3 & n3 & E3 & HC3 & Hsd3 & Hg3).
  assert (Hu3 : upper s3 = Some u) by (destruct Hsd3 as (A & _); congruence).
  assert (Hgp3 : exists pn3, nget pp (root s3) = Some pn3).
  { assert (Hnp : npres (node_checked src)).
    { unfold node_checked. apply npres_bind; [apply cpres_lookup_node|apply npres_lookup_node|]. intros _.
      apply npres_bind; [apply cpres_get_node|apply npres_get_node|]. intros n. apply npres_if; [apply npres_fail|apply npres_ret]. }
    destruct (Hnp s2 HC2 pp n2 Hg2) as [pn3 H]. rewrite E3 in H. eauto. }
  destruct Hgp3 as [pn3 Hgp3].
  destruct (sync_parent_run pp s3 u pn3 m x ch HC3 Hu3 Hgp3 Hpp) as (s4 & pn4 & E4 & HC4 & Hsd4 & Hgp4).
  assert (Hu4 : upper s4 = Some u) by (destruct Hsd4 as (A & _); congruence).
  destruct (npres_sync_parent pp s3 HC3 src n3 Hg3) as [n4 Hg4]. rewrite E4 in Hg4. cbn [snd] in Hg4.
  pose proof (sd_trans _ _ _ (sd_trans _ _ _ (sd_trans _ _ _ Hsd1 Hsd2) Hsd3) Hsd4) as (U4 & L4 & I4).
  destruct (do_link_run src pp nm s4 u n4 pn4 c m x ch HC4 Hu4 Hg4 Hgp4 Hc Hleaf Hpp) as (s5 & pn5 & E5 & U5 & L5 & Hg5); [rewrite L4; exact Hms|].
  assert (HC5 : Coherent s5) by (pose proof (cpres_do_link src pp nm s4 HC4) as H; rewrite E5 in H; exact H).
  assert (Hpp5 : tget (tupd pp (dir_ins nm c) u) pp = Some (Dir m x (aset nm c ch))) by (rewrite tget_tupd, Hpp; reflexivity).
  destruct (entry_run pp nm s5 _ pn5 m x _ c HC5 U5 Hg5 Hpp5 (afind_aset_same nm c ch) Hcw) as (s6 & E6 & _ & (U6 & L6 & _)).
  exists s6. cbn [step]. unfold walk. rewrite (bind_ok _ _ _ _ _ E1), with_parent_snoc. unfold walk.
  rewrite (bind_ok _ _ _ _ _ E2), (bind_ok _ _ _ _ _ E3), (bind_ok _ _ _ _ _ E4), (bind_ok _ _ _ _ _ E5), E6.
  split; [reflexivity|]. split; congruence.
Qed.

(* ------------------------------------------------------------------ the union *)
Lemma resolve_leaf f c l : is_leafT c = true -> resolve (S f) (c :: l) = Some (hide_xs c).
Proof. destruct c; try discriminate; reflexivity. Qed.
Lemma ins_leaf_merge u ls (pp : path) (nm : name) m x ch c f mv :
  Forall wf (u :: ls) -> tget u pp = Some (Dir m x ch) -> mstack (u :: ls) (pp ++ [nm]) = [] -> is_leafT c = true ->
  DEPTH = (S (S f) + List.length pp)%nat -> merge (u :: ls) = Some mv ->
  oteq (merge (tupd pp (dir_ins nm c) u :: ls)) (Some (tupd pp (dir_ins nm (hide_xs c)) mv)) /\
  h_insert pp nm (hide_xs c) mv = Ok (tupd pp (dir_ins nm (hide_xs c)) mv).
Proof.
  intros W Hpp Hms Hleaf Hd Hm. destruct (leaf_facts c Hleaf) as (_ & _ & Wc).
  destruct (mstack_head pp u ls _ Hpp) as [r Hr].
  assert (Hnone : afind nm ch = None) by (apply (mstack_nil_afind u ls pp nm m x ch Hpp Hms)).
  assert (E0 : ents nm (dir_stack (Dir m x ch :: r)) = []) by (rewrite mstack_snoc, Hr in Hms; exact Hms).
  split.
  - pose proof (wf_tget _ (Forall_inv W) _ _ Hpp) as Wd.
    assert (Hn : NoDup (map fst ch)) by (inversion Wd; assumption).
    assert (HG : only_at nm (aset nm c) ch).
    { split; [apply keys_aset; exact Hn|]. split.
      - intros k Hk. rewrite afind_aset. apply String.eqb_neq in Hk. rewrite Hk. reflexivity.
      - intros c0 H0. rewrite afind_aset_same in H0. assert (E : c0 = c) by congruence. rewrite E. exact Wc. }
    pose proof (merge_tupd nm (aset nm c) (S f) pp u ls m x ch W Hpp HG Hd) as M. cbv zeta in M.
    rewrite Hm in M. cbn [option_map] in M.
    assert (E : tupd pp (chmap (aset nm c)) u = tupd pp (dir_ins nm c) u) by (apply tupd_ext; intros d; symmetry; apply dir_ins_chmap).
    rewrite E in M. clear E.
    rewrite (dir_stack_head m x (aset nm c ch)), ents_cons in M. cbn [dir_children] in M. rewrite afind_aset_same, (resolve_leaf f c _ Hleaf) in M. exact M.
  - destruct (tget_merge (S f) pp u ls _ W Hpp eq_refl Hd) as (r0 & Hr0 & Ht). rewrite Hm in Hr0. assert (E : r0 = mv) by congruence. rewrite E in Ht. clear E Hr0.
    rewrite Hr in Ht. assert (Wr : Forall wf (Dir m x ch :: r)) by (rewrite <- Hr; apply mstack_wf; exact W).
    destruct (resolve_dir_spec (S f) m x ch r Wr) as (chs & Er & N & K). rewrite Er in Ht.
    unfold h_insert. rewrite Ht, K, E0. reflexivity.
Qed.

Theorem refines_link s (src pp : path) (nm : name) c u m x ch v :
  Coherent s -> upper s = Some u -> tget u src = Some c -> is_leafT c = true ->
  tget u pp = Some (Dir m x ch) -> mstack (u :: lowers s) (pp ++ [nm]) = [] ->
  (List.length src < DEPTH)%nat -> (List.length (pp ++ [nm]) < DEPTH)%nat -> view (load_all s) = Some v ->
  refines_at s (OLink src (pp ++ [nm])) v.
Proof.
  intros HC Hu Hc Hleaf Hpp Hms Hls Hlen Hv. destruct (leaf_facts c Hleaf) as (Hcd & Hcw & _).
  destruct (step_link_run src pp nm s u c m x ch HC Hu Hc Hleaf Hpp Hms) as (s' & Hrun & Hu' & Hl').
  unfold refines_at, run_op. rewrite Hrun. cbn [fst snd].
  assert (Hd : exists f, DEPTH = (S (S f) + List.length pp)%nat).
  { rewrite app_length in Hlen. cbn [List.length] in Hlen. exists (DEPTH - 2 - List.length pp)%nat. lia. }
  destruct Hd as [f Hd].
  assert (Hds : exists f', DEPTH = (S f' + List.length src)%nat) by (exists (DEPTH - 1 - List.length src)%nat; lia).
  destruct Hds as [f' Hds].
  pose proof (coherent_wf_layers s u HC Hu) as W.
  destruct (refine_from_disk s (OLink src (pp ++ [nm])) v _ s' HC eq_refl Hv Hrun) as [R T]; [|cbv zeta; auto].
  intros mv Hm. rewrite Hu in Hm. cbn [all_layers] in Hm. rewrite Hu', Hl'. cbn [all_layers]. cbv zeta.
  destruct (ins_leaf_merge u (lowers s) pp nm m x ch c f mv W Hpp Hms Hleaf Hd Hm) as [M I].
  destruct (tget_merge f' src u (lowers s) c W Hc Hcw Hds) as (mv' & Hm' & Hts). rewrite Hm in Hm'. assert (E : mv' = mv) by congruence. rewrite E in Hts. clear E Hm'.
  destruct (mstack_head src u (lowers s) _ Hc) as [rs Hrs]. rewrite Hrs, (resolve_leaf f' c rs Hleaf) in Hts.
  cbn [fs_apply]. rewrite split_last_snoc. unfold fs_mut, h_link. cbn [f_tree f_next]. rewrite Hts.
  assert (Eh : match hide_xs c with Dir _ _ _ => Err EPERM | _ => h_insert pp nm (hide_xs c) mv end = h_insert pp nm (hide_xs c) mv) by (destruct c; try discriminate; reflexivity).
  rewrite Eh, I. cbn [fs_after f_tree]. rewrite (h_insert_get _ _ _ _ _ I). cbn [fst snd f_tree].
  split; [destruct c; try discriminate; reflexivity|exact M].
Qed.

(* the side condition for LINK: source = regular file or symlink of the upper layer, new parent = directory of the upper layer,
   no candidate for the new name, both paths shorter than DEPTH *)
Definition direct_link (s : state) (o : op) : bool :=
  match upper s, o with
  | Some u, OLink src dst =>
      match split_last dst with
      | Some (pp, nm) =>
          (List.length src <? DEPTH)%nat && (List.length dst <? DEPTH)%nat &&
          match tget u src with Some c => is_leafT c | None => false end &&
          match tget u pp with Some (Dir _ _ _) => true | _ => false end && no_cand (u :: lowers s) dst
      | None => false
      end
  | _, _ => false
  end.
Theorem op_refines_link s o v : Coherent s -> direct_link s o = true -> view (load_all s) = Some v -> refines_at s o v.
Proof.
  intros HC Hd Hv. unfold direct_link in Hd. destruct (upper s) as [u|] eqn:Hu; [|discriminate]. destruct o; try discriminate.
  destruct (split_last dst) as [[pp nm]|] eqn:Esp; [|discriminate]. apply split_last_spec in Esp. subst dst.
  apply andb_prop in Hd. destruct Hd as [Hd H5]. apply andb_prop in Hd. destruct Hd as [Hd H4]. apply andb_prop in Hd. destruct Hd as [Hd H3].
  apply andb_prop in Hd. destruct Hd as [H1 H2]. apply Nat.ltb_lt in H1. apply Nat.ltb_lt in H2.
  destruct (tget u src) as [c|] eqn:Hc; [|discriminate]. destruct (tget u pp) as [[m x ch| | |]|] eqn:Hpp; try discriminate.
  unfold no_cand in H5. destruct (mstack (u :: lowers s) (pp ++ [nm])) eqn:Hms; [|discriminate].
  exact (refines_link s src pp nm c u m x ch v HC Hu Hc H3 Hpp Hms H1 H2 Hv).
Qed.
