(* Per-operation refinement, LINK with copy-up (the new name has no candidate in any layer):
   (a) the source is a regular file or symlink of the upper layer, the new parent a visible directory that the upper layer does
       not hold - its chain is copied up (hypothesis [cu_okb]);
   (b) the source is a symlink that only lower layers hold - it is copied up (and its missing parent directories, [cu_okb]) -,
       the new parent a directory of the upper layer.
   Both by re-running (Proofs/OverlayRefineRerun.v): from the state after the copy-up the operation is the LINK of
   Proofs/OverlayRefineLink.v.  Not covered: a lower REGULAR FILE as source (the copy gets a fresh identity, so only the
   serialisations can agree) and the combination of (a) and (b). *)
From Coq Require Import List String Arith NArith Bool Lia.
From FB Require Import Model.Overlay Proofs.OverlayInv Proofs.OverlayScan Proofs.OverlayRestart
  Proofs.OverlayReadOnly Proofs.OverlayCoh Proofs.OverlayCohView Proofs.OverlayCopyUp Proofs.OverlayCohOps
  Proofs.OverlayCohSteps Proofs.OverlayRefineTeq Proofs.OverlayRefineMerge Proofs.OverlayRefineRun Proofs.OverlayRefine
  Proofs.OverlayRefineWh Proofs.OverlayRefineCu Proofs.OverlayRefineCuFile Proofs.OverlayRefineDirAttr Proofs.OverlayRefineLink Proofs.OverlayRefineCuRm
  Proofs.OverlayRefineFail Proofs.OverlayRefineRead Proofs.OverlayRefineFail2 Proofs.OverlayRefineRerun Proofs.OverlayRefineDirAttr2
  Proofs.OverlayRefineRmdirLow Proofs.OverlayRefineCuWh Proofs.OverlayRefineSymlink.
Import ListNotations.
Local Open Scope N_scope.

(* a path of the upper tree is visible *)
Lemma upper_visp u ls : forall (q : path) t, tget u q = Some t -> is_whT t = false -> visp (u :: ls) [] q.
Proof.
  intros q t Hq Hw. apply visb_visp. rewrite visb_vis_rel. cbn [mstack]. revert u t Hq Hw. generalize ls.
  induction q as [|k q IH]; intros ls0 u t Hq Hw; cbn [vis_rel]; [reflexivity|]. cbn [tget] in Hq.
  destruct u as [m0 x0 ch0| | |]; try discriminate. destruct (afind k ch0) as [e1|] eqn:Ek; [|discriminate].
  rewrite (dir_stack_head m0 x0 ch0), ents_cons. cbn [dir_children]. rewrite Ek.
  assert (Hw1 : is_whT e1 = false) by (destruct q; cbn [tget] in Hq; [inversion Hq; subst; exact Hw|destruct e1; try discriminate; reflexivity]).
  rewrite Hw1. cbn [negb andb]. apply (IH _ e1 t Hq Hw).
Qed.

(* the lookups of LINK before do_link read the cache only, once everything on the way is loaded *)
Lemma link_prefix_noop (src pp : path) s sn pn ts : Coherent s ->
  nget src (root s) = Some sn -> n_wh sn = false -> node_stat s sn = Some ts -> is_dirT ts = false ->
  nget pp (root s) = Some pn -> n_wh pn = false -> n_loaded pn = true ->
  forall (K : M string), (walk src ;;; (walk pp ;;; (node_checked src ;;; sync_parent pp ;;; K))) s = K s.
Proof.
  intros HC Hgs Hws Hsts Hnd Hgp Hwp Hldp K.
  destruct (node_first_real s pp pn HC Hgp) as (r0 & rs0 & tp & _ & _ & Hstp & _).
  assert (W1 : walk src s = (Ok tt, s)) by (unfold walk; apply (walk_noop s src [] sn ts HC Hgs Hws Hsts); rewrite Hnd; discriminate).
  assert (W2 : walk pp s = (Ok tt, s)) by (unfold walk; apply (walk_noop s pp [] pn tp HC Hgp Hwp Hstp); intros _; exact Hldp).
  assert (Enc : node_checked src s = (Ok tt, s)).
  { unfold node_checked. rewrite (bind_ok _ _ _ _ _ (lookup_nondir_noop src s sn ts Hgs Hws Hsts Hnd)), (bind_ok _ _ _ _ _ (get_node_ok src s sn Hgs)), Hws. reflexivity. }
  assert (Esy : sync_parent pp s = (Ok tt, s)).
  { unfold sync_parent. rewrite (bind_ok _ _ _ _ _ (lookup_loaded pp s pn HC Hgp Hwp Hldp None)), (bind_ok _ _ _ _ _ (get_node_ok pp s pn Hgp)), Hwp. reflexivity. }
  rewrite (bind_ok _ _ _ _ _ W1), (bind_ok _ _ _ _ _ W2), (bind_ok _ _ _ _ _ Enc), (bind_ok _ _ _ _ _ Esy). reflexivity.
Qed.

(* ------------------------------------------------------------------ (a) the new parent is copied up *)
Lemma link_cu_rerun (src pp : path) (nm : name) s u c m x ch r0 : Coherent s -> upper s = Some u ->
  tget u src = Some c -> is_leafT c = true ->
  visp (u :: lowers s) [] pp -> mstack (u :: lowers s) pp = Dir m x ch :: r0 -> tget u pp = None ->
  (List.length pp < DEPTH)%nat -> cu_disk_ok u (lowers s) pp ->
  exists s5 u5, step (OLink src (pp ++ [nm])) s = step (OLink src (pp ++ [nm])) s5 /\ cu_state s u pp s5 u5 /\ tget u5 src = Some c.
Proof.
  intros HC Hu Hc Hleaf Hvis Hpp Hnoup Hdep Hcu. destruct (leaf_facts c Hleaf) as (Hcd & Hcw & _).
  destruct (mstack_head src u (lowers s) c Hc) as [rs Hms].
  destruct (link_prefix_run src pp s u c rs _ r0 HC Hu (upper_visp u (lowers s) src c Hc Hcw) Hms Hcw Hvis Hpp eq_refl)
    as (s4 & sn & pn & Hrun & HC4 & Hsd4 & Hgs & Hgp & Hws & Hwp & Hsts & Hstp & Hldp).
  specialize (Hldp eq_refl). pose proof Hsd4 as (U4 & L4 & I4). assert (Hu4 : upper s4 = Some u) by congruence.
  destruct (upper_node s4 u src sn c HC4 Hu4 Hgs Hc) as (sr & srs & Esr & Hsup & _).
  destruct (cu_prestate pp s4 u pn m x ch HC4 Hu4 Hgp Hstp Hldp Hdep) as (s5 & u5 & pn5 & pr & prs & m5 & x5 & ch5 & Ecu & HC5 & Hu5 & L5 & I5 & M5 & Hrel & Hg5 & Hld5 & Hw5 & Er5 & Hup5 & _ & _ & Hpp5 & Fr & SP & W5 & Cu5 & Lk5);
    [rewrite L4; exact Hcu|].
  rewrite L4 in *. pose proof Hrel as (_ & R2 & _).
  pose proof (R2 src c Hc Hcd) as Hc5.
  destruct (same_paths_some s4 s5 src sn SP Hgs) as (sn5 & Hgs5 & _).
  destruct (upper_node s5 u5 src sn5 c HC5 Hu5 Hgs5 Hc5) as (sr5 & srs5 & Esr5 & Hsup5 & _ & _ & Hsst5 & Hsw5 & _). rewrite Hcw in Hsw5.
  exists s5, u5. split; [|split; [|exact Hc5]].
  2:{ unfold cu_state. repeat (split; [first [assumption|congruence]|]). eauto. }
  assert (Hbody : do_link src pp nm s4 = do_link src pp nm s5).
  { unfold do_link.
    rewrite (bind_ok _ _ _ _ _ (need_upper_ok s5 u5 Hu5)), (bind_ok _ _ _ _ _ (get_node_ok src s5 sn5 Hgs5)), (bind_ok _ _ _ _ _ (get_node_ok pp s5 pn5 Hg5)), Hsw5, Hw5.
    cbn [orb]. assert (Es5 : stat_node sn5 s5 = (Ok c, s5)) by (unfold stat_node; rewrite Hsst5; reflexivity).
    rewrite (bind_ok _ _ _ _ _ Es5), Hcd, (bind_ok _ _ _ _ _ (copy_up_noop src s5 sn5 sr5 srs5 Hgs5 Esr5 Hsup5)), (bind_ok _ _ _ _ _ Cu5).
    rewrite (bind_ok _ _ _ _ _ (need_upper_ok s4 u Hu4)), (bind_ok _ _ _ _ _ (get_node_ok src s4 sn Hgs)), (bind_ok _ _ _ _ _ (get_node_ok pp s4 pn Hgp)), Hws, Hwp.
    cbn [orb]. assert (Es4 : stat_node sn s4 = (Ok c, s4)) by (unfold stat_node; rewrite Hsts; reflexivity).
    rewrite (bind_ok _ _ _ _ _ Es4), Hcd, (bind_ok _ _ _ _ _ (copy_up_noop src s4 sn sr srs Hgs Esr Hsup)), (bind_ok _ _ _ _ _ Ecu). reflexivity. }
  cbn [step]. rewrite with_parent_snoc, Hrun.
  rewrite (link_prefix_noop src pp s5 sn5 pn5 c HC5 Hgs5 Hsw5 Hsst5 Hcd Hg5 Hw5 Hld5). apply bind_congr2. exact Hbody.
Qed.

Theorem refines_link_cu s (src pp : path) (nm : name) c u m x ch r0 v : Coherent s -> upper s = Some u ->
  tget u src = Some c -> is_leafT c = true ->
  visp (u :: lowers s) [] pp -> mstack (u :: lowers s) pp = Dir m x ch :: r0 -> tget u pp = None -> cu_disk_ok u (lowers s) pp ->
  mstack (u :: lowers s) (pp ++ [nm]) = [] -> (List.length src < DEPTH)%nat -> (List.length (pp ++ [nm]) < DEPTH)%nat ->
  view (load_all s) = Some v -> refines_at s (OLink src (pp ++ [nm])) v.
Proof.
  intros HC Hu Hc Hleaf Hvis Hpp Hnoup Hcu Hms Hls Hlen Hv.
  assert (Hdep : (List.length pp < DEPTH)%nat) by (rewrite app_length in Hlen; cbn in Hlen; lia).
  destruct (link_cu_rerun src pp nm s u c m x ch r0 HC Hu Hc Hleaf Hvis Hpp Hnoup Hdep Hcu) as (s5 & u5 & Hrun & (HC5 & Hu5 & L5 & I5 & M5 & (R1 & _) & (m5 & x5 & ch5 & Hpp5)) & Hc5).
  destruct (views_teq s s5 u u5 v HC HC5 Hu Hu5 L5 M5 Hv) as (v5 & Hv5 & T5).
  apply (refines_transfer s s5 _ v v5 Hrun L5 I5 T5). apply (op_refines_link s5 _ v5 HC5); [|exact Hv5].
  unfold direct_link. rewrite Hu5, L5, split_last_snoc, Hc5, Hleaf, Hpp5, (proj2 (Nat.ltb_lt _ _) Hls), (proj2 (Nat.ltb_lt _ _) Hlen).
  unfold no_cand. rewrite (R1 nm []), Hms. reflexivity.
Qed.

(* ------------------------------------------------------------------ (b) the source is a lower-only symlink *)
Lemma link_sym_rerun (sp pp : path) (sn nm : name) s u tg rest m x ch : let src := sp ++ [sn] in Coherent s -> upper s = Some u ->
  visp (u :: lowers s) [] src -> mstack (u :: lowers s) src = Lnk tg :: rest -> tget u src = None ->
  (List.length src < DEPTH)%nat -> cu_disk_ok u (lowers s) sp ->
  tget u pp = Some (Dir m x ch) -> mstack (u :: lowers s) (pp ++ [nm]) = [] ->
  exists s5 u5 ch5, step (OLink src (pp ++ [nm])) s = step (OLink src (pp ++ [nm])) s5 /\
    Coherent s5 /\ upper s5 = Some u5 /\ lowers s5 = lowers s /\ next_ino s5 = next_ino s /\ oteq (merge (u5 :: lowers s)) (merge (u :: lowers s)) /\
    tget u5 src = Some (Lnk tg) /\ tget u5 pp = Some (Dir m x ch5) /\ mstack (u5 :: lowers s) (pp ++ [nm]) = [].
Proof.
  intros src HC Hu Hvs Hms Hnoup Hlen Hcu Hpp Hmn.
  assert (Hdep : (List.length sp < DEPTH)%nat) by (unfold src in Hlen; rewrite app_length in Hlen; cbn in Hlen; lia).
  destruct (mstack_head pp u (lowers s) _ Hpp) as [rp Hmp].
  destruct (link_prefix_run src pp s u _ rest _ rp HC Hu Hvs Hms eq_refl (upper_visp u (lowers s) pp _ Hpp eq_refl) Hmp eq_refl)
    as (s4 & n4 & pn4 & Hrun & HC4 & Hsd4 & Hgs & Hgp & Hws & Hwp & Hsts & Hstp & Hldp).
  specialize (Hldp eq_refl). pose proof Hsd4 as (U4 & L4 & I4). assert (Hu4 : upper s4 = Some u) by congruence.
  assert (Hin4 : in_upper n4 = false).
  { destruct (in_upper n4) eqn:E; [|reflexivity]. rewrite (upper_dir_of_node s4 u src n4 _ HC4 Hu4 Hgs E Hsts) in Hnoup. discriminate. }
  destruct (cnu_symlink_run sp sn s4 u n4 tg HC4 Hu4 Hgs Hsts Hin4 Hdep) as (s5 & u2 & m2 & x2 & ch2 & rest0 & n5 & ri & Ecu & HC5 & L5 & I5 & U5 & W2 & M2 & (_ & R2 & R3) & Hsp2 & Hnone2 & Hms2 & Hg5 & Er5 & Hup5 & Hl05 & Hpath5 & Hw5 & SP);
    [rewrite L4; exact Hcu|].
  rewrite L4 in *. set (u5 := tupd sp (dir_ins sn (Lnk tg)) u2) in *. fold src in Ecu, Hms2, Hg5, Hpath5.
  assert (Hd : exists f, DEPTH = (S (S f) + List.length sp)%nat).
  { unfold src in Hlen. rewrite app_length in Hlen. cbn [List.length] in Hlen. exists (DEPTH - 2 - List.length sp)%nat. lia. }
  destruct Hd as [f Hd].
  assert (Hs5 : tget u5 src = Some (Lnk tg)).
  { unfold u5, src. rewrite (tget_app _ sp sn), tget_tupd, Hsp2. cbn [option_map dir_ins]. apply afind_aset_same. }
  assert (Hst5 : node_stat s5 n5 = Some (Lnk tg)).
  { unfold node_stat. rewrite Er5. cbn [map first_some]. rewrite real_tree_ent, Hl05, Hpath5. unfold ent. cbn [get_layer]. rewrite U5. fold u5. rewrite Hs5. reflexivity. }
  destruct (R3 pp m x ch Hpp) as [ch1 Hpp2]. destruct (tget_tupd_ins_dir sn (Lnk tg) sp u2 pp m2 x2 ch2 m x ch1 Hsp2 Hnone2 Hpp2) as [ch5 Hpp5]. fold u5 in Hpp5.
  (* the new parent in the cache *)
  destruct (same_paths_some s4 s5 pp pn4 SP Hgp) as (pn5 & Hgp5 & Hsig). unfold nsig in Hsig. inversion Hsig as [[Hld5 Hfd5]]. rewrite Hldp in Hld5.
  destruct (upper_node s5 u5 pp pn5 _ HC5 U5 Hgp5 Hpp5) as (pr5 & prs5 & Epr5 & Hpup5 & _ & _ & _ & Hwp5 & _). cbn in Hwp5.
  (* no candidate for the new name, read off the caches *)
  assert (Hmn5 : mstack (u5 :: lowers s) (pp ++ [nm]) = []).
  { pose proof HC4 as (_ & _ & HCT4). pose proof (HCT4 pp pn4 Hgp) as N4. cbn [app] in N4. destruct (ok_ld _ _ _ _ N4 Hldp) as (_ & _ & K4).
    assert (Hn4 : afind nm (n_ch pn4) = None) by (apply K4; apply (kids_nil_of_mstack s4 u pp nm Hu4); rewrite L4; exact Hmn).
    pose proof (same_paths_none s4 s5 _ SP (nget_snoc_none pp nm (root s4) pn4 Hgp Hn4)) as Hq5.
    assert (Hn5 : afind nm (n_ch pn5) = None).
    { destruct (afind nm (n_ch pn5)) as [c5|] eqn:Ec; [|reflexivity]. rewrite (nget_snoc pp nm (root s5) pn5 c5 Hgp5 Ec) in Hq5. discriminate. }
    pose proof HC5 as (_ & _ & HCT5). pose proof (HCT5 pp pn5 Hgp5) as N5. cbn [app] in N5. destruct (ok_ld _ _ _ _ N5 Hld5) as (_ & _ & K5).
    apply K5 in Hn5. rewrite <- lstack_snoc in Hn5. pose proof (lstack_rel s5 u5 (pp ++ [nm]) U5) as R. rewrite Hn5, L5 in R. inversion R. reflexivity. }
  exists s5, u5, ch5. split; [|repeat (split; [first [assumption|congruence]|]); split; [|split; [exact Hs5|split; [exact Hpp5|exact Hmn5]]]].
  2:{ apply (oteq_trans _ (merge (u2 :: lowers s))); [exact (symlink_up_merge u2 (lowers s) sp sn m2 x2 ch2 tg rest0 f W2 Hsp2 Hnone2 Hms2 Hd)|exact M2]. }
  assert (Hbody : do_link src pp nm s4 = do_link src pp nm s5).
  { unfold do_link.
    rewrite (bind_ok _ _ _ _ _ (need_upper_ok s5 u5 U5)), (bind_ok _ _ _ _ _ (get_node_ok src s5 n5 Hg5)), (bind_ok _ _ _ _ _ (get_node_ok pp s5 pn5 Hgp5)), Hw5, Hwp5.
    cbn [orb]. assert (Es5 : stat_node n5 s5 = (Ok (Lnk tg), s5)) by (unfold stat_node; rewrite Hst5; reflexivity).
    rewrite (bind_ok _ _ _ _ _ Es5). cbn [is_dirT]. rewrite (bind_ok _ _ _ _ _ (copy_up_noop src s5 n5 ri [] Hg5 Er5 Hup5)).
    rewrite (bind_ok _ _ _ _ _ (need_upper_ok s4 u Hu4)), (bind_ok _ _ _ _ _ (get_node_ok src s4 n4 Hgs)), (bind_ok _ _ _ _ _ (get_node_ok pp s4 pn4 Hgp)), Hws, Hwp.
    cbn [orb]. assert (Es4 : stat_node n4 s4 = (Ok (Lnk tg), s4)) by (unfold stat_node; rewrite Hsts; reflexivity).
    rewrite (bind_ok _ _ _ _ _ Es4). cbn [is_dirT]. rewrite (bind_ok _ _ _ _ _ Ecu). reflexivity. }
  cbn [step]. rewrite with_parent_snoc, Hrun.
  rewrite (link_prefix_noop src pp s5 n5 pn5 (Lnk tg) HC5 Hg5 Hw5 Hst5 eq_refl Hgp5 Hwp5 Hld5). apply bind_congr2. exact Hbody.
Qed.

Theorem refines_link_sym s (sp pp : path) (sn nm : name) u tg rest m x ch v : let src := sp ++ [sn] in Coherent s -> upper s = Some u ->
  visp (u :: lowers s) [] src -> mstack (u :: lowers s) src = Lnk tg :: rest -> tget u src = None -> cu_disk_ok u (lowers s) sp ->
  tget u pp = Some (Dir m x ch) -> mstack (u :: lowers s) (pp ++ [nm]) = [] ->
  (List.length src < DEPTH)%nat -> (List.length (pp ++ [nm]) < DEPTH)%nat -> view (load_all s) = Some v ->
  refines_at s (OLink src (pp ++ [nm])) v.
Proof.
  intros src HC Hu Hvs Hms Hnoup Hcu Hpp Hmn Hls Hlen Hv. subst src.
  destruct (link_sym_rerun sp pp sn nm s u tg rest m x ch HC Hu Hvs Hms Hnoup Hls Hcu Hpp Hmn) as (s5 & u5 & ch5 & Hrun & HC5 & Hu5 & L5 & I5 & M5 & Hs5 & Hpp5 & Hmn5).
  destruct (views_teq s s5 u u5 v HC HC5 Hu Hu5 L5 M5 Hv) as (v5 & Hv5 & T5).
  apply (refines_transfer s s5 _ v v5 Hrun L5 I5 T5). apply (op_refines_link s5 _ v5 HC5); [|exact Hv5].
  unfold direct_link. rewrite Hu5, L5, split_last_snoc. cbv zeta in Hs5. rewrite Hs5, Hpp5, (proj2 (Nat.ltb_lt _ _) Hls), (proj2 (Nat.ltb_lt _ _) Hlen).
  unfold no_cand. rewrite Hmn5. reflexivity.
Qed.

(* ------------------------------------------------------------------ the fragment *)
Definition direct_link_cu (s : state) (o : op) : bool :=
  match upper s, o with
  | Some u, OLink src dst =>
      let L := u :: lowers s in
      match split_last dst with
      | Some (pp, nm) =>
          (List.length src <? DEPTH)%nat && (List.length dst <? DEPTH)%nat && no_cand L dst &&
          ((match tget u src with Some c => is_leafT c | None => false end && visb L [] pp &&
            match tget u pp with None => true | Some _ => false end && match mstack L pp with Dir _ _ _ :: _ => true | _ => false end && cu_okb u (lowers s) pp)
           ||
           (match split_last src with
            | Some (sp, _) =>
                visb L [] src && match tget u src with None => true | Some _ => false end &&
                match mstack L src with Lnk _ :: _ => true | _ => false end && cu_okb u (lowers s) sp &&
                match tget u pp with Some (Dir _ _ _) => true | _ => false end
            | None => false
            end))
      | None => false
      end
  | _, _ => false
  end.
Theorem op_refines_link_cu s o v : Coherent s -> direct_link_cu s o = true -> view (load_all s) = Some v -> refines_at s o v.
Proof.
  intros HC Hd Hv. unfold direct_link_cu in Hd. destruct (upper s) as [u|] eqn:Hu; [|discriminate]. destruct o; try discriminate. cbv zeta in Hd.
  destruct (split_last dst) as [[pp nm]|] eqn:Esp; [|discriminate]. apply split_last_spec in Esp. subst dst.
  apply andb_prop in Hd. destruct Hd as [Hd Hcase]. apply andb_prop in Hd. destruct Hd as [Hd H3]. apply andb_prop in Hd. destruct Hd as [H1 H2].
  apply Nat.ltb_lt in H1. apply Nat.ltb_lt in H2.
  unfold no_cand in H3. destruct (mstack (u :: lowers s) (pp ++ [nm])) eqn:Hmn; [|discriminate].
  apply orb_prop in Hcase. destruct Hcase as [Ha|Hb].
  - apply andb_prop in Ha. destruct Ha as [Ha A5]. apply andb_prop in Ha. destruct Ha as [Ha A4]. apply andb_prop in Ha. destruct Ha as [Ha A3].
    apply andb_prop in Ha. destruct Ha as [A1 A2].
    destruct (tget u src) as [c|] eqn:Hc; [|discriminate]. destruct (tget u pp) eqn:Hnoup; [discriminate|].
    destruct (mstack (u :: lowers s) pp) as [|[m x ch| | |] r0] eqn:Hpp; try discriminate.
    exact (refines_link_cu s src pp nm c u m x ch r0 v HC Hu Hc A1 (visb_visp _ _ _ A2) Hpp Hnoup (cu_okb_ok _ _ _ A5) Hmn H1 H2 Hv).
  - destruct (split_last src) as [[sp sn]|] eqn:Ess; [|discriminate]. apply split_last_spec in Ess. subst src.
    apply andb_prop in Hb. destruct Hb as [Hb B5]. apply andb_prop in Hb. destruct Hb as [Hb B4]. apply andb_prop in Hb. destruct Hb as [Hb B3].
    apply andb_prop in Hb. destruct Hb as [B1 B2].
    destruct (tget u (sp ++ [sn])) eqn:Hnoup; [discriminate|].
    destruct (mstack (u :: lowers s) (sp ++ [sn])) as [|[| |tg|] rest] eqn:Hms; try discriminate.
    destruct (tget u pp) as [[m x ch| | |]|] eqn:Hpp; try discriminate.
    exact (refines_link_sym s sp pp sn nm u tg rest m x ch v HC Hu (visb_visp _ _ _ B1) Hms Hnoup (cu_okb_ok _ _ _ B4) Hpp Hmn H1 H2 Hv).
Qed.
