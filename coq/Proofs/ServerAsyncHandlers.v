(* C20: the async dispatch table against the sync one, handler by handler.
   [handler_rel op af f]: for every configuration, header, context, body, filesystem answer and
   capacity, the async handler [af] makes the same filesystem calls as the sync handler [f] and takes the
   corresponding reply action -- for filesystem answers the async trait can express (no passthrough
   backing id) and, for WRITE only, a size the async handler does not refuse.  Everything is proved for
   an arbitrary [shape] (Model/ServerAsync.v), i.e. for the code as it is and for the repaired code. *)
From Coq Require Import List String NArith Bool Lia Arith.
From FB Require Import Lib.Bytes Model.Server Model.ServerCmp Model.ServerAsync
                       Proofs.ServerPerform Proofs.ServerAsyncPerform.
Import ListNotations.
Local Open Scope N_scope.

(* AsyncFileSystem::async_open / async_create have no slot for the passthrough backing id *)
Definition async_expressible (fr : fsres) : bool :=
  match fr with
  | FOpen _ _ (Some _) => false
  | FCreate _ _ _ (Some _) => false
  | _ => true
  end.

(* body of a WRITE whose size field exceeds MAX_BUFFER_SIZE *)
Definition big_write (r : bytes) : bool :=
  match read_obj 40 r with
  | Some (s, _) => MAX_BUFFER_SIZE <? u32 16 s
  | None => false
  end.

Definition dec_to_sync (d : adecision) : decision := (fst d, to_sync (snd d)).

Definition handler_rel (sh : shape) (op : N) (af : ahandler_fn) (f : handler_fn) : Prop :=
  forall cfg h ctx r fr wcap,
    names_answered sh = true ->
    async_expressible fr = true -> (op = 16 -> (sh_write_gate sh && big_write r) = false) ->
    dec_to_sync (af cfg h ctx r fr wcap) = f cfg h ctx r fr wcap.

(* the fall-back arms: the async dispatch calls the very same sync handler *)
Lemma rel_fallback sh op f : handler_rel sh op (fallback f) f.
Proof.
  intros cfg h ctx r fr wcap _ _ _. unfold fallback, dec_to_sync.
  destruct (f cfg h ctx r fr wcap) as [cs a]. reflexivity.
Qed.

Ltac break_match :=
  match goal with
  | |- context [match ?x with _ => _ end] => destruct x eqn:?
  end.

Ltac solve_rel :=
  intros cfg h ctx r fr wcap Hn Hx Hw;
  unfold names_answered in Hn; apply andb_true_iff in Hn; destruct Hn as [Hn1 Hn2]; try rewrite Hn1; try rewrite Hn2;
  cbv beta delta [awith_obj awith_name with_obj with_name aunit_reply unit_reply aattr_reply attr_reply
                  entry_reply dec_to_sync];
  repeat break_match; subst; cbn [fst snd to_sync]; try reflexivity; try discriminate.

Lemma rel_lookup sh : handler_rel sh 1 (ah_lookup sh) (h_lookup 1).
Proof. unfold ah_lookup, h_lookup. solve_rel. Qed.

Lemma rel_getattr sh : handler_rel sh 3 ah_getattr (h_getattr 3).
Proof. unfold ah_getattr, h_getattr. solve_rel. Qed.

Lemma rel_setattr sh : handler_rel sh 4 ah_setattr (h_setattr 4).
Proof. unfold ah_setattr, h_setattr. solve_rel. Qed.

(* open / create: the answer carries no passthrough id ([async_expressible]), so `..Default::default()`
   and `passthrough.unwrap_or_default()` both put 0 in OpenOut *)
Ltac no_passthrough :=
  match goal with
  | H : async_expressible (FOpen _ _ ?p) = true |- _ => destruct p; [discriminate H|]
  | H : async_expressible (FCreate _ _ _ ?p) = true |- _ => destruct p; [discriminate H|]
  end.

Lemma rel_open sh : handler_rel sh 14 ah_open (h_open 14).
Proof. unfold ah_open, h_open. solve_rel. no_passthrough. reflexivity. Qed.

Lemma rel_read sh : handler_rel sh 15 ah_read (h_read 15).
Proof. unfold ah_read, h_read. solve_rel. Qed.

Lemma rel_write sh : handler_rel sh 16 (ah_write sh) (h_write 16).
Proof.
  unfold ah_write, h_write.
  intros cfg h ctx r fr wcap _ Hx Hw. specialize (Hw eq_refl). unfold big_write in Hw.
  cbv beta delta [awith_obj with_obj dec_to_sync].
  destruct (read_obj 40 r) as [[s r']|]; [|reflexivity].
  rewrite Hw. destruct fr; reflexivity.
Qed.

Lemma rel_fsync sh : handler_rel sh 20 ah_fsync (h_fsync 20).
Proof. unfold ah_fsync, h_fsync. solve_rel. Qed.

Lemma rel_fsyncdir sh : handler_rel sh 30 ah_fsyncdir (h_fsyncdir 30).
Proof. unfold ah_fsyncdir, h_fsyncdir. solve_rel. Qed.

Lemma rel_create sh : handler_rel sh 35 (ah_create sh) (h_create 35).
Proof. unfold ah_create, h_create, CREATE_ATTR_FLAGS. solve_rel. no_passthrough. reflexivity. Qed.

Lemma rel_fallocate sh : handler_rel sh 43 ah_fallocate (h_fallocate 43).
Proof. unfold ah_fallocate, h_fallocate. solve_rel. Qed.

(* ------------------------------------------------------------------ the whole table *)
Definition entry_rel (sh : shape) (a : N * bool * ahandler_fn) (b : N * handler_fn) : Prop :=
  fst (fst a) = fst b /\ handler_rel sh (fst b) (snd a) (snd b).

Lemma table_rel sh : Forall2 (entry_rel sh) (async_handlers sh) handlers.
Proof.
  unfold async_handlers, handlers.
  repeat (apply Forall2_cons;
          [split; [reflexivity |
                   first [ apply rel_fallback | exact (rel_lookup sh) | exact (rel_getattr sh) | exact (rel_setattr sh)
                         | exact (rel_open sh) | exact (rel_read sh) | exact (rel_write sh) | exact (rel_fsync sh)
                         | exact (rel_fsyncdir sh) | exact (rel_create sh) | exact (rel_fallocate sh) ]] |]).
  apply Forall2_nil.
Qed.

Definition found_rel (sh : shape) (op : N) (x : option ahandler_fn) (y : option handler_fn) : Prop :=
  match x, y with
  | Some af, Some f => handler_rel sh op af f
  | None, None => True
  | _, _ => False
  end.

Lemma find_rel sh t1 t2 : Forall2 (entry_rel sh) t1 t2 ->
  forall op, found_rel sh op (find_ahandler op t1) (find_handler op t2).
Proof.
  induction 1 as [|[[o b] af] [o' f] t1 t2 [Ho Hr] _ IH]; intro op; cbn [find_ahandler find_handler].
  - exact I.
  - cbn in Ho, Hr. subst o'.
    destruct (N.eqb_spec op o) as [->|_]; [exact Hr | apply IH].
Qed.

(* the dispatch step: same calls, corresponding action, for every opcode (known or not) *)
Lemma async_handler_rel sh cfg h ctx r fr wcap :
  names_answered sh = true -> async_expressible fr = true -> (h_opcode h = 16 -> (sh_write_gate sh && big_write r) = false) ->
  dec_to_sync (async_handler sh cfg h ctx r fr wcap) = handler cfg h ctx r fr wcap.
Proof.
  intros Hn Hx Hw. unfold async_handler, handler.
  pose proof (find_rel sh _ _ (table_rel sh) (h_opcode h)) as F. unfold found_rel in F.
  destruct (find_ahandler (h_opcode h) (async_handlers sh)) as [af|];
  destruct (find_handler (h_opcode h) handlers) as [f|]; try contradiction.
  - apply F; assumption.
  - reflexivity.
Qed.

(* which opcodes go through an async handler at all *)
Definition async_ops (sh : shape) : list N := map (fun e => fst (fst e)) (filter (fun e => snd (fst e)) (async_handlers sh)).
Lemma async_ops_are sh : async_ops sh = [1; 3; 4; 14; 15; 16; 20; 30; 35; 43].
Proof. reflexivity. Qed.
