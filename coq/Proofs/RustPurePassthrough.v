(* Proofs/RustPurePassthrough.v -- helpers of Model/Passthrough.v that ARE the source's
   (src/passthrough/mod.rs get_writeback_open_flags, src/passthrough/util.rs is_safe_inode) (C05). *)
From Coq Require Import List NArith ZArith String Bool Lia.
From FB Require Import Lib.RustExpr Gen.RustPure Proofs.RustPure.
From FB Require Model.HostFs Model.Passthrough.
Import ListNotations.
Local Open Scope N_scope.

(* open flags are an i32; the model keeps the bit pattern.  `writeback` is the value loaded from self.writeback *)
Lemma src_get_writeback_open_flags : forall cf flags, flags < 4294967296 ->
  eval_fn Debug get_writeback_open_flags_src [VInt I32 flags; VBool (Passthrough.c_writeback cf)] =
  Val (VInt I32 (Passthrough.get_writeback_open_flags cf flags)).
Proof.
  intros cf flags Hf. destruct cf; cbn [Passthrough.c_writeback].
  match goal with |- context [VBool ?b] => destruct b end.
  - rsolve_with bitnorm.
  - rsolve_with bitnorm.
Qed.

Lemma src_is_safe_inode : forall mode, mode < 4294967296 ->
  eval_fn Debug is_safe_inode_src [VInt U32 mode] = Val (VBool (Passthrough.is_safe_inode mode)).
Proof. intros. rsolve. Qed.
