(* Proofs/Transport.v -- the flat byte-range abstraction of IoBuffers and the per-operation
   specifications of Model/Transport.v in terms of it.
   An IoBuffers value denotes the list [flat (segs b)] of the addresses it still covers, in order. *)
From Coq Require Import List Arith NArith Bool Lia ZifyBool ZifyNat ZifyN PArith FMapPositive Permutation.
From FB Require Import Model.Transport.
Import ListNotations.
Local Open Scope N_scope.
Arguments N.add : simpl never.
Arguments N.sub : simpl never.
Arguments N.mul : simpl never.
Arguments N.div : simpl never.
Arguments N.modulo : simpl never.
Arguments N.min : simpl never.

(* ------------------------------------------------------------------ memory *)
Lemma succ_pos_inj a b : N.succ_pos a = N.succ_pos b -> a = b.
Proof. intro H. rewrite <- (N.pos_pred_succ a), <- (N.pos_pred_succ b), H. reflexivity. Qed.

Lemma mget_mset_same m a v : mget (mset m a v) a = v.
Proof. unfold mget, mset; cbn [m_map m_dflt]. rewrite PositiveMap.gss. reflexivity. Qed.
Lemma mget_mset_other m a b v : a <> b -> mget (mset m a v) b = mget m b.
Proof.
  intro H. unfold mget, mset; cbn [m_map m_dflt]. rewrite PositiveMap.gso; [reflexivity|].
  intro E. apply H. symmetry. apply succ_pos_inj. exact E.
Qed.

(* ------------------------------------------------------------------ addresses of a segment *)
Fixpoint addrs_nat (a : N) (n : nat) : list N :=
  match n with O => [] | S k => a :: addrs_nat (a + 1) k end.
Definition addrs (a len : N) : list N := addrs_nat a (N.to_nat len).
Definition flat (l : list seg) : list N := flat_map (fun s => addrs (sa s) (sl s)) l.

Lemma addrs_nat_length a n : length (addrs_nat a n) = n.
Proof. revert a; induction n as [|n IH]; intro a; cbn [addrs_nat length]; [reflexivity|now rewrite IH]. Qed.
Lemma addrs_length a len : length (addrs a len) = N.to_nat len.
Proof. apply addrs_nat_length. Qed.

Lemma addrs_nat_app a n k : addrs_nat a (n + k) = addrs_nat a n ++ addrs_nat (a + N.of_nat n) k.
Proof.
  revert a; induction n as [|n IH]; intro a.
  - cbn [Nat.add addrs_nat app]. replace (a + N.of_nat 0) with a by lia. reflexivity.
  - cbn [Nat.add addrs_nat app]. rewrite IH.
    replace (a + 1 + N.of_nat n) with (a + N.of_nat (S n)) by lia. reflexivity.
Qed.
Lemma addrs_app a n k : addrs a (n + k) = addrs a n ++ addrs (a + n) k.
Proof.
  unfold addrs. rewrite N2Nat.inj_add, addrs_nat_app. do 2 f_equal. lia.
Qed.

Lemma addrs_nat_in a n x : In x (addrs_nat a n) <-> a <= x /\ x < a + N.of_nat n.
Proof.
  revert a; induction n as [|n IH]; intro a; cbn [addrs_nat In].
  - split; [tauto|lia].
  - rewrite IH. lia.
Qed.
Lemma addrs_in a len x : In x (addrs a len) <-> a <= x /\ x < a + len.
Proof. unfold addrs. rewrite addrs_nat_in. lia. Qed.

Lemma addrs_nat_nodup a n : NoDup (addrs_nat a n).
Proof.
  revert a; induction n as [|n IH]; intro a; cbn [addrs_nat]; constructor.
  - rewrite addrs_nat_in. lia.
  - apply IH.
Qed.

Lemma firstn_addrs a r len : r <= len -> firstn (N.to_nat r) (addrs a len) = addrs a r.
Proof.
  intro H. replace len with (r + (len - r)) by lia. rewrite addrs_app.
  rewrite firstn_app, addrs_length, Nat.sub_diag, firstn_O, app_nil_r.
  apply firstn_all2. rewrite addrs_length. lia.
Qed.
Lemma skipn_addrs a r len : r <= len -> skipn (N.to_nat r) (addrs a len) = addrs (a + r) (len - r).
Proof.
  intro H. replace len with (r + (len - r)) at 1 by lia. rewrite addrs_app.
  rewrite skipn_app, addrs_length, Nat.sub_diag, skipn_O.
  rewrite skipn_all2 by (rewrite addrs_length; lia). reflexivity.
Qed.

Lemma firstn_addrs_ge a r len : len <= r -> firstn (N.to_nat r) (addrs a len) = addrs a len.
Proof. intro H. apply firstn_all2. rewrite addrs_length. lia. Qed.
Lemma skipn_addrs_ge a r len : len <= r -> skipn (N.to_nat r) (addrs a len) = [].
Proof. intro H. apply skipn_all2. rewrite addrs_length. lia. Qed.

Lemma read_range_nat_map m a n : read_range_nat m a n = map (mget m) (addrs_nat a n).
Proof. revert a; induction n as [|n IH]; intro a; cbn [read_range_nat addrs_nat map]; [reflexivity|now rewrite IH]. Qed.
Lemma read_range_map m a len : read_range m a len = map (mget m) (addrs a len).
Proof. apply read_range_nat_map. Qed.

Lemma gather_map m bufs : gather m bufs = map (mget m) (flat bufs).
Proof.
  unfold gather, flat. induction bufs as [|s r IH]; cbn [flat_map map]; [reflexivity|].
  rewrite map_app, IH, read_range_map. reflexivity.
Qed.

(* ------------------------------------------------------------------ lengths *)
Lemma lenN_app {A} (a b : list A) : lenN (a ++ b) = lenN a + lenN b.
Proof. unfold lenN. rewrite app_length. lia. Qed.
Lemma lenN_firstn {A} (l : list A) n : n <= lenN l -> lenN (firstn (N.to_nat n) l) = n.
Proof. unfold lenN. intro H. rewrite firstn_length. lia. Qed.
Lemma lenN_map {A B} (f : A -> B) l : lenN (map f l) = lenN l.
Proof. unfold lenN. now rewrite map_length. Qed.

Lemma seg_total_flat l : seg_total l = lenN (flat l).
Proof.
  induction l as [|s r IH]; cbn [seg_total fold_right flat flat_map]; [reflexivity|].
  fold (seg_total r). fold (flat r). rewrite lenN_app, IH. unfold lenN. rewrite addrs_length. lia.
Qed.
Lemma fold_left_total l acc : fold_left (fun c s => c + sl s) l acc = acc + seg_total l.
Proof.
  revert acc; induction l as [|s r IH]; intro acc; cbn [fold_left seg_total fold_right]; [lia|].
  fold (seg_total r). rewrite IH. lia.
Qed.
Lemma avail_flat b : avail b = lenN (flat (segs b)).
Proof. unfold avail. rewrite fold_left_total, seg_total_flat. lia. Qed.

(* ------------------------------------------------------------------ take / drop / split on the flat view *)
Lemma take_segs_0 l : take_segs 0 l = [].
Proof. destruct l; reflexivity. Qed.

Lemma take_segs_flat r l : flat (take_segs r l) = firstn (N.to_nat r) (flat l).
Proof.
  revert r; induction l as [|s l IH]; intro r; cbn [take_segs].
  - cbn. now rewrite firstn_nil.
  - destruct (N.eqb_spec r 0) as [->|Hr]; [reflexivity|].
    destruct (N.ltb_spec r (sl s)) as [Hlt|Hge]; cbn [sl sa flat flat_map]; fold (flat l).
    + replace (r - r) with 0 by lia. rewrite take_segs_0. cbn [flat flat_map]. rewrite app_nil_r.
      rewrite firstn_app, addrs_length.
      replace (N.to_nat r - N.to_nat (sl s))%nat with O by lia. rewrite firstn_O, app_nil_r.
      symmetry. apply firstn_addrs. lia.
    + fold (flat (take_segs (r - sl s) l)). rewrite IH, firstn_app, addrs_length.
      rewrite firstn_addrs_ge by lia.
      f_equal. f_equal. lia.
Qed.

Lemma drop_bytes_flat r l : flat (drop_bytes r l) = skipn (N.to_nat r) (flat l).
Proof.
  revert r; induction l as [|s l IH]; intro r; cbn [drop_bytes].
  - cbn. now rewrite skipn_nil.
  - destruct (N.ltb_spec r (sl s)) as [Hlt|Hge]; cbn [sl sa flat flat_map]; fold (flat l).
    + rewrite skipn_app, addrs_length.
      replace (N.to_nat r - N.to_nat (sl s))%nat with O by lia. rewrite skipn_O.
      f_equal. symmetry. apply skipn_addrs. lia.
    + rewrite IH, skipn_app, addrs_length.
      rewrite skipn_addrs_ge by lia. cbn [app]. f_equal. lia.
Qed.

Lemma split_segs_some r l a b : split_segs r l = Some (a, b) ->
  flat a = firstn (N.to_nat r) (flat l) /\ flat b = skipn (N.to_nat r) (flat l).
Proof.
  revert r a b; induction l as [|s l IH]; intros r a b; cbn [split_segs].
  - destruct (N.eqb_spec r 0); [|discriminate]. intro H; inversion H; subst. cbn. rewrite ?firstn_nil, ?skipn_nil. auto.
  - destruct (N.ltb_spec r (sl s)) as [Hlt|Hge].
    + destruct (N.ltb_spec 0 r) as [Hpos|Hz]; intro H; inversion H; subst; clear H;
        cbn [flat flat_map sa sl]; fold (flat l).
      * rewrite app_nil_r. rewrite firstn_app, skipn_app, addrs_length.
        replace (N.to_nat r - N.to_nat (sl s))%nat with O by lia. rewrite firstn_O, skipn_O, app_nil_r.
        split; [symmetry; apply firstn_addrs; lia|]. f_equal. symmetry. apply skipn_addrs. lia.
      * replace r with 0 by lia. cbn [N.to_nat firstn skipn]. auto.
    + destruct (split_segs (r - sl s) l) as [[a' b']|] eqn:E; [|discriminate].
      intro H; inversion H; subst; clear H. destruct (IH _ _ _ E) as [Ha Hb].
      cbn [flat flat_map]; fold (flat a') (flat l).
      rewrite firstn_app, skipn_app, addrs_length.
      rewrite firstn_addrs_ge by lia.
      rewrite skipn_addrs_ge by lia. cbn [app].
      replace (N.to_nat r - N.to_nat (sl s))%nat with (N.to_nat (r - sl s)) by lia.
      rewrite Ha, Hb. auto.
Qed.

Lemma split_segs_none r l : split_segs r l = None <-> seg_total l < r.
Proof.
  revert r; induction l as [|s l IH]; intro r; cbn [split_segs seg_total fold_right].
  - destruct (N.eqb_spec r 0); split; intro H; try discriminate; try reflexivity; lia.
  - fold (seg_total l). destruct (N.ltb_spec r (sl s)) as [Hlt|Hge].
    + destruct (0 <? r); split; intro H; try discriminate; lia.
    + specialize (IH (r - sl s)). destruct (split_segs (r - sl s) l) as [[a' b']|].
      * split; [discriminate|]. intro H. assert (seg_total l < r - sl s) as H' by lia.
        apply IH in H'. discriminate.
      * split; [|reflexivity]. intros _. assert (seg_total l < r - sl s) by (apply IH; reflexivity). lia.
Qed.

Lemma seg_total_take r l : seg_total (take_segs r l) = N.min r (seg_total l).
Proof. rewrite !seg_total_flat, take_segs_flat. unfold lenN. rewrite firstn_length. lia. Qed.

Lemma take_segs_nil r l : take_segs r l = [] -> r = 0 \/ l = [].
Proof.
  destruct l as [|s l]; [auto|]. cbn [take_segs]. destruct (N.eqb_spec r 0); [auto|discriminate].
Qed.

(* ------------------------------------------------------------------ copy loops *)
Lemma copy_out_0 m bufs : copy_out m bufs 0 = [].
Proof.
  induction bufs as [|b r IH]; cbn [copy_out]; [reflexivity|].
  replace (N.min 0 (sl b)) with 0 by lia. replace (0 - 0) with 0 by lia. rewrite IH. reflexivity.
Qed.
Lemma copy_out_flat m bufs k : copy_out m bufs k = map (mget m) (firstn (N.to_nat k) (flat bufs)).
Proof.
  revert k; induction bufs as [|b r IH]; intro k; cbn [copy_out flat flat_map].
  - now rewrite firstn_nil.
  - fold (flat r). rewrite read_range_map, IH, firstn_app, addrs_length, map_app.
    destruct (N.le_gt_cases (sl b) k) as [Hge|Hlt].
    + replace (N.min k (sl b)) with (sl b) by lia. rewrite firstn_addrs_ge by lia.
      replace (N.to_nat k - N.to_nat (sl b))%nat with (N.to_nat (k - sl b)) by lia. reflexivity.
    + replace (N.min k (sl b)) with k by lia. replace (k - k) with 0 by lia.
      replace (N.to_nat k - N.to_nat (sl b))%nat with O by lia.
      cbn [N.to_nat firstn map]. rewrite firstn_addrs by lia. reflexivity.
Qed.

(* writes expressed as one fold of single-byte stores, in address order *)
Definition write_addrs (m : mem) (l : list (N * N)) : mem :=
  fold_left (fun m p => mset m (fst p) (snd p)) l m.

Lemma write_addrs_app m l1 l2 : write_addrs m (l1 ++ l2) = write_addrs (write_addrs m l1) l2.
Proof. unfold write_addrs. apply fold_left_app. Qed.

Lemma write_list_addrs m a d : write_list m a d = write_addrs m (combine (addrs_nat a (length d)) d).
Proof.
  revert m a; induction d as [|x d IH]; intros m a; cbn [write_list length addrs_nat combine]; [reflexivity|].
  rewrite IH. reflexivity.
Qed.

Lemma firstn_min_len {A} i (l : list A) : firstn i l = firstn (Nat.min i (length l)) l.
Proof.
  destruct (Nat.le_gt_cases i (length l)) as [H|H].
  - now rewrite Nat.min_l by exact H.
  - rewrite Nat.min_r by lia. rewrite firstn_all. apply firstn_all2. lia.
Qed.
Lemma combine_nil_r {A B} (l : list A) : combine l (@nil B) = [].
Proof. destruct l; reflexivity. Qed.
Lemma combine_app_l {A B} (l1 l2 : list A) (d : list B) :
  combine (l1 ++ l2) d = combine l1 (firstn (length l1) d) ++ combine l2 (skipn (length l1) d).
Proof.
  revert d; induction l1 as [|x l1 IH]; intro d; cbn [app length firstn skipn combine]; [reflexivity|].
  destruct d as [|y d]; cbn [combine firstn skipn app].
  - now rewrite combine_nil_r.
  - now rewrite IH.
Qed.
Lemma combine_firstn_l {A B} (l : list A) (d : list B) : combine (firstn (length d) l) d = combine l d.
Proof.
  revert d; induction l as [|x l IH]; intro d; destruct d as [|y d]; cbn [length firstn combine]; try reflexivity.
  now rewrite IH.
Qed.
Lemma combine_firstn_r {A B} (l : list A) (d : list B) : combine l (firstn (length l) d) = combine l d.
Proof.
  revert d; induction l as [|x l IH]; intro d; destruct d as [|y d]; cbn [length firstn combine]; try reflexivity.
  now rewrite IH.
Qed.
Lemma map_fst_combine {A B} (l : list A) (d : list B) : map fst (combine l d) = firstn (length d) l.
Proof.
  revert d; induction l as [|x l IH]; intro d; destruct d as [|y d]; cbn [length firstn combine map fst]; try reflexivity.
  now rewrite IH.
Qed.
Lemma map_snd_combine {A B} (l : list A) (d : list B) : map snd (combine l d) = firstn (length l) d.
Proof.
  revert d; induction l as [|x l IH]; intro d; destruct d as [|y d]; cbn [length firstn combine map snd]; try reflexivity.
  now rewrite IH.
Qed.

Lemma copy_in_nil m bufs : copy_in m bufs [] = (m, 0).
Proof.
  revert m; induction bufs as [|b r IH]; intro m; cbn [copy_in]; [reflexivity|].
  replace (N.min (lenN (@nil N)) (sl b)) with 0 by (unfold lenN; cbn [length]; lia).
  cbn [N.to_nat firstn skipn write_list]. rewrite IH. reflexivity.
Qed.

Lemma copy_in_spec m bufs d :
  copy_in m bufs d = (write_addrs m (combine (flat bufs) d), N.min (lenN d) (seg_total bufs)).
Proof.
  revert m d; induction bufs as [|b r IH]; intros m d; cbn [copy_in flat flat_map seg_total fold_right].
  - cbn [combine write_addrs fold_left]. f_equal. lia.
  - fold (flat r) (seg_total r).
    set (c := N.min (lenN d) (sl b)).
    rewrite IH. rewrite combine_app_l, write_addrs_app, addrs_length, write_list_addrs.
    assert (Hc : length (firstn (N.to_nat c) d) = N.to_nat c).
    { rewrite firstn_length. unfold c, lenN. lia. }
    rewrite Hc.
    assert (E1 : combine (addrs_nat (sa b) (N.to_nat c)) (firstn (N.to_nat c) d)
                 = combine (addrs (sa b) (sl b)) (firstn (N.to_nat (sl b)) d)).
    { destruct (N.le_gt_cases (sl b) (lenN d)) as [Hle|Hgt].
      - replace c with (sl b) by (unfold c; lia). reflexivity.
      - replace c with (lenN d) by (unfold c; lia).
        rewrite !firstn_all2 by (unfold lenN in *; lia).
        rewrite <- (combine_firstn_l (addrs (sa b) (sl b)) d).
        f_equal. unfold lenN. rewrite Nat2N.id.
        replace (length d) with (N.to_nat (lenN d)) at 2 by (unfold lenN; lia).
        rewrite firstn_addrs by lia. unfold addrs, lenN. now rewrite Nat2N.id. }
    rewrite E1.
    assert (E2 : combine (flat r) (skipn (N.to_nat c) d) = combine (flat r) (skipn (N.to_nat (sl b)) d)).
    { destruct (N.le_gt_cases (sl b) (lenN d)) as [Hle|Hgt].
      - replace c with (sl b) by (unfold c; lia). reflexivity.
      - rewrite !skipn_all2 by (unfold c, lenN in *; lia). reflexivity. }
    rewrite E2. f_equal.
    unfold lenN in *. rewrite skipn_length. subst c. lia.
Qed.

(* what a fold of stores does to a given address *)
Lemma write_addrs_cons m p l : write_addrs m (p :: l) = write_addrs (mset m (fst p) (snd p)) l.
Proof. reflexivity. Qed.
Lemma write_addrs_frame m l a : ~ In a (map fst l) -> mget (write_addrs m l) a = mget m a.
Proof.
  revert m; induction l as [|[x v] l IH]; intros m H; [reflexivity|].
  rewrite write_addrs_cons. cbn [map fst snd In] in *.
  rewrite IH by tauto. apply mget_mset_other. tauto.
Qed.
Lemma write_addrs_content m l a v : NoDup (map fst l) -> In (a, v) l -> mget (write_addrs m l) a = v.
Proof.
  revert m; induction l as [|[x w] l IH]; intros m Hnd Hin; cbn [In] in Hin; [contradiction|].
  rewrite write_addrs_cons. cbn [map fst snd] in *.
  inversion Hnd as [|? ? Hx Hnd']; subst. destruct Hin as [E|Hin].
  - inversion E; subst. rewrite write_addrs_frame by exact Hx. apply mget_mset_same.
  - apply IH; assumption.
Qed.
Lemma write_addrs_read m l d : NoDup l -> length l = length d ->
  map (mget (write_addrs m (combine l d))) l = d.
Proof.
  intros Hnd Hlen.
  assert (Hfst : map fst (combine l d) = l).
  { rewrite map_fst_combine, <- Hlen. apply firstn_all. }
  apply nth_ext with (d := 0) (d' := 0); [now rewrite map_length|].
  intros i Hi. rewrite map_length in Hi.
  rewrite (nth_indep _ 0 (mget (write_addrs m (combine l d)) 0)) by (now rewrite map_length).
  rewrite map_nth. apply write_addrs_content; [now rewrite Hfst|].
  rewrite <- (combine_nth l d i 0 0 Hlen). apply nth_In. rewrite combine_length. lia.
Qed.

(* ------------------------------------------------------------------ dirty log *)
Lemma mark_range_spec a len d p :
  mark_range a len d p = true <-> d p = true \/ exists x, In x (addrs a len) /\ x / PS = p.
Proof.
  unfold mark_range. destruct (N.eqb_spec len 0) as [->|Hlen].
  - split; [auto|]. intros [H|[x [Hx _]]]; [exact H|]. apply addrs_in in Hx. lia.
  - rewrite orb_true_iff, andb_true_iff, !N.leb_le. unfold PS. split.
    + intros [[H1 H2]|H]; [|auto]. right.
      exists (N.max a (p * 4096)). rewrite addrs_in. split.
      * assert ((a + len - 1) / 4096 * 4096 <= a + len - 1) by (rewrite N.mul_comm; apply N.mul_div_le; lia).
        assert (p * 4096 <= (a + len - 1) / 4096 * 4096) by (apply N.mul_le_mono_r; exact H2).
        lia.
      * destruct (N.max_spec a (p * 4096)) as [[Hlt ->]|[Hge ->]].
        -- apply N.div_mul. lia.
        -- apply N.le_antisymm; [exact H1|]. apply N.div_le_lower_bound; lia.
    + intros [H|[x [Hx Hp]]]; [auto|]. left. apply addrs_in in Hx. subst p. split.
      * apply N.div_le_mono; lia.
      * apply N.div_le_mono; lia.
Qed.

Lemma mark_dirty_spec r l d p :
  mark_dirty r l d p = true <-> d p = true \/ exists x, In x (firstn (N.to_nat r) (flat l)) /\ x / PS = p.
Proof.
  revert r d; induction l as [|s l IH]; intros r d; cbn [mark_dirty].
  - cbn [flat flat_map]. rewrite firstn_nil. split; [auto|]. intros [H|[x [[] _]]]; exact H.
  - destruct (N.eqb_spec r 0) as [->|Hr].
    + cbn [N.to_nat firstn]. split; [auto|]. intros [H|[x [[] _]]]; exact H.
    + cbn [flat flat_map]; fold (flat l). rewrite IH, mark_range_spec, firstn_app, addrs_length.
      destruct (N.ltb_spec r (sl s)) as [Hlt|Hge].
      * replace (r - r) with 0 by lia. cbn [N.to_nat firstn].
        replace (N.to_nat r - N.to_nat (sl s))%nat with O by lia. rewrite firstn_O, app_nil_r.
        rewrite firstn_addrs by lia. split.
        -- intros [[H|H]|[x [[] _]]]; auto.
        -- intros [H|H]; auto.
      * rewrite firstn_addrs_ge by lia.
        replace (N.to_nat r - N.to_nat (sl s))%nat with (N.to_nat (r - sl s)) by lia. split.
        -- intros [[H|[x [Hx Hp]]]|[x [Hx Hp]]]; auto; right; exists x; (split; [|exact Hp]);
             apply in_or_app; auto.
        -- intros [H|[x [Hx Hp]]]; auto. apply in_app_or in Hx. destruct Hx as [Hx|Hx]; [left; right|right]; eauto.
Qed.

(* ------------------------------------------------------------------ per-operation specifications *)
(* counters cannot overflow a usize: established at construction (chain_segs checks the sum) and kept *)
Definition wf_io (b : iobuf) : Prop := consumed b + avail b <= USIZE_MAX.

Lemma mark_used_spec n b : wf_io b -> n <= avail b ->
  exists b', mark_used n b = Some b' /\ flat (segs b') = skipn (N.to_nat n) (flat (segs b)) /\
             consumed b' = consumed b + n /\ wf_io b'.
Proof.
  intros Hwf Hn. unfold mark_used. destruct (N.ltb_spec USIZE_MAX (consumed b + n)) as [H|H].
  - unfold wf_io in Hwf. lia.
  - eexists. split; [reflexivity|]. cbn [segs consumed]. rewrite drop_bytes_flat. split; [reflexivity|].
    split; [reflexivity|]. unfold wf_io in *. cbn [consumed]. rewrite avail_flat in *. cbn [segs].
    rewrite drop_bytes_flat. unfold lenN in *. rewrite skipn_length. lia.
Qed.

(* Reader side: what is handed out is the prefix of the flat view, which is then dropped *)
Lemma io_read_spec count k m b : wf_io b ->
  let n := N.min (N.min count k) (avail b) in
  exists b', io_read count (Some k) m b = (ROk n (map (mget m) (firstn (N.to_nat n) (flat (segs b)))), b') /\
             flat (segs b') = skipn (N.to_nat n) (flat (segs b)) /\ consumed b' = consumed b + n /\ wf_io b'.
Proof.
  intros Hwf n. unfold io_read.
  destruct (take_segs count (segs b)) as [|s0 r0] eqn:E.
  - apply take_segs_nil in E. assert (n = 0) as ->.
    { subst n. destruct E as [->|E]; [lia|]. rewrite avail_flat, E. cbn. lia. }
    exists b. cbn [N.to_nat firstn map skipn]. repeat split; auto; lia.
  - rewrite <- E. clear s0 r0 E.
    set (bufs := take_segs count (segs b)).
    assert (Htot : seg_total bufs = N.min count (avail b)).
    { unfold bufs. rewrite seg_total_take, avail_flat, seg_total_flat. reflexivity. }
    assert (Hdata : copy_out m bufs (N.min k (seg_total bufs)) = map (mget m) (firstn (N.to_nat n) (flat (segs b)))).
    { rewrite copy_out_flat. unfold bufs. rewrite take_segs_flat, firstn_firstn.
      f_equal. f_equal. fold bufs. rewrite Htot. subst n. lia. }
    rewrite Hdata.
    assert (Hn : n <= avail b) by (subst n; lia).
    assert (Hlen : lenN (map (mget m) (firstn (N.to_nat n) (flat (segs b)))) = n).
    { rewrite lenN_map. apply lenN_firstn. rewrite <- avail_flat. exact Hn. }
    rewrite Hlen. destruct (mark_used_spec n b Hwf Hn) as [b' [H1 [H2 [H3 H4]]]].
    rewrite H1. exists b'. auto.
Qed.

Lemma io_read_fail count m b : exists r, io_read count None m b = (r, b) /\ (r = RErr EFile \/ r = ROk 0 []).
Proof.
  unfold io_read. destruct (take_segs count (segs b)); eexists; split; try reflexivity; auto.
Qed.

(* Writer side: the first n addresses of the flat view receive the first n bytes of the source,
   are marked dirty (when mark = true) and are dropped; n = min(count, |source|, available) *)
Lemma io_write_spec mark count data m d b : wf_io b ->
  let n := N.min (N.min count (lenN data)) (avail b) in
  let ws := firstn (N.to_nat n) (flat (segs b)) in
  exists b', io_write mark count (Some data) m d b =
               (ROk n [], write_addrs m (combine ws data), (if mark then mark_dirty n (segs b) d else d), b') /\
             flat (segs b') = skipn (N.to_nat n) (flat (segs b)) /\ consumed b' = consumed b + n /\ wf_io b'.
Proof.
  intros Hwf n ws. unfold io_write.
  destruct (take_segs count (segs b)) as [|s0 r0] eqn:E.
  - apply take_segs_nil in E. assert (n = 0) as Hn0.
    { subst n. destruct E as [->|E]; [lia|]. rewrite avail_flat, E. cbn. lia. }
    exists b. subst ws. rewrite Hn0. cbn [N.to_nat firstn combine write_addrs fold_left skipn].
    split; [|repeat split; auto; lia]. destruct mark; [|reflexivity].
    f_equal. f_equal. destruct (segs b) as [|s l]; reflexivity.
  - rewrite <- E. clear s0 r0 E.
    set (bufs := take_segs count (segs b)).
    assert (Htot : seg_total bufs = N.min count (avail b)).
    { unfold bufs. rewrite seg_total_take, avail_flat, seg_total_flat. reflexivity. }
    rewrite copy_in_spec, Htot.
    replace (N.min (lenN data) (N.min count (avail b))) with n by (subst n; lia).
    assert (Hn : n <= avail b) by (subst n; lia).
    destruct (mark_used_spec n b Hwf Hn) as [b' [H1 [H2 [H3 H4]]]].
    rewrite H1. exists b'. split; [|auto]. f_equal. f_equal. f_equal.
    (* the stores: combine over all of bufs = combine over the first n addresses *)
    unfold bufs, ws. rewrite take_segs_flat.
    rewrite <- (combine_firstn_l (firstn (N.to_nat count) (flat (segs b))) data).
    rewrite <- (combine_firstn_l (firstn (N.to_nat n) (flat (segs b))) data).
    rewrite !firstn_firstn.
    rewrite (firstn_min_len (Nat.min (length data) (N.to_nat count))).
    rewrite (firstn_min_len (Nat.min (length data) (N.to_nat n))).
    do 3 f_equal. subst n. rewrite avail_flat. unfold lenN. lia.
Qed.

Lemma io_write_fail mark count m d b :
  exists r, io_write mark count None m d b = (r, m, d, b) /\ (r = RErr EFile \/ r = ROk 0 []).
Proof.
  unfold io_write. destruct (take_segs count (segs b)); eexists; split; try reflexivity; auto.
Qed.

(* split: the two halves partition the flat view at [off]; refused (state unchanged) iff off > available *)
Lemma io_split_spec off b : wf_io b ->
  (off <= avail b ->
   exists a o, io_split off b = Some (a, o) /\
     flat (segs a) = firstn (N.to_nat off) (flat (segs b)) /\ flat (segs o) = skipn (N.to_nat off) (flat (segs b)) /\
     consumed a = consumed b /\ consumed o = 0 /\ wf_io a /\ wf_io o) /\
  (avail b < off -> io_split off b = None).
Proof.
  intro Hwf. unfold io_split. split.
  - intro Hle. destruct (split_segs off (segs b)) as [[a o]|] eqn:E.
    + destruct (split_segs_some _ _ _ _ E) as [Ha Ho].
      exists (mkio a (consumed b)), (mkio o 0). cbn [segs consumed]. repeat split; auto.
      * unfold wf_io in *. rewrite avail_flat in *. cbn [segs consumed]. rewrite Ha. unfold lenN in *.
        rewrite firstn_length. lia.
      * unfold wf_io in *. rewrite avail_flat in *. cbn [segs consumed]. rewrite Ho. unfold lenN in *.
        rewrite skipn_length. lia.
    + apply split_segs_none in E. rewrite avail_flat, <- seg_total_flat in Hle. lia.
  - intro Hlt. assert (split_segs off (segs b) = None) as ->; [|reflexivity].
    apply split_segs_none. rewrite avail_flat, <- seg_total_flat in Hlt. exact Hlt.
Qed.

(* decidable duplicate-freeness, for concrete witnesses *)
Fixpoint nodupb (l : list N) : bool :=
  match l with [] => true | x :: r => negb (existsb (N.eqb x) r) && nodupb r end.
Lemma nodupb_sound l : nodupb l = true -> NoDup l.
Proof.
  induction l as [|x r IH]; cbn [nodupb]; intro H; constructor; apply andb_true_iff in H; destruct H as [H1 H2].
  - intro Hin. apply negb_true_iff in H1. assert (existsb (N.eqb x) r = true) as E; [|congruence].
    apply existsb_exists. exists x. split; [exact Hin|apply N.eqb_refl].
  - apply IH; exact H2.
Qed.
Lemma wf_io_b b : (consumed b + avail b <=? USIZE_MAX) = true -> wf_io b.
Proof. intro H. apply N.leb_le in H. exact H. Qed.
