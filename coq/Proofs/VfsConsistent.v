(* Inode-number consistency: the number the client sees for a name is the same in lookup, getattr,
   readdir and readdirplus -- for pseudo directories, mount points, and backends that number their
   own entries consistently (dirent.ino = entry.inode = attr.st_ino). *)
From Coq Require Import List NArith Bool Lia.
From FB Require Import Model.Pseudo Gen.VfsTable Model.Vfs Proofs.VfsCodec Proofs.VfsAlloc Proofs.VfsInv
  Proofs.VfsRouting Proofs.VfsIssued Proofs.PseudoWalk.
Import ListNotations.
Local Open Scope N_scope.

Lemma feed_from {A} (conv : A -> outcome (dirent * option entry)) :
  forall l limit out, feed conv limit l = Ok out -> Forall (fun y => exists x, In x l /\ conv x = Ok y) out.
Proof.
  intros l limit out H. apply (feed_forall conv _ _ _ _ H). intros x y Hin Hc. exists x. auto.
Qed.

(* the client-visible number of backend inode y in slot idx *)
Definition shown (idx y : N) : N := if y =? 0 then 0 else mk_vino idx y.

Lemma convert_inode_shown idx y x : convert_inode idx y = Ok x -> x = shown idx y.
Proof.
  intros H. unfold shown. destruct (convert_inode_ok _ _ _ H) as [[-> ->] | [Hr ->]]; [reflexivity|].
  assert (E : y =? 0 = false) by (apply N.eqb_neq; lia). rewrite E. reflexivity.
Qed.

(* ---------- served by a backend ---------- *)
Theorem lookup_number : forall s c n nm a e ev evs, wf s -> vfs_op s c (OLookup n nm) a = (Ok (REntry e), ev :: evs) ->
  exists b idx i, eff s n = Some (b, idx, i) /\ e_ino e = shown idx (e_ino (n_ent a)) /\ e_stino e = e_ino e.
Proof.
  intros s c n nm a e ev evs W H. cbn [vfs_op] in H. destruct (has_slash nm); [discriminate|].
  grr W n; [|discriminate|discriminate]. inversion H; subst. exists b, (fs_idx id), (ino_of id). split; [exact Ee|].
  unfold backend_entry in H1. destruct (n_err a =? 0); [|discriminate].
  destruct (convert_entry s (fs_idx id) (e_ino (n_ent a)) (n_ent a)) as [e'| |] eqn:Ec; try discriminate.
  cbn [bind] in H1. inversion H1; subst e'. destruct (convert_entry_shape _ _ _ _ _ Ec) as (A & B & _).
  split; [exact A|exact B].
Qed.

Theorem readdir_numbers : forall s c plus n size off lim a l ev evs, wf s ->
  vfs_op s c (OReaddir plus n size off lim) a = (Ok (RDir l), ev :: evs) ->
  exists b idx i, eff s n = Some (b, idx, i) /\
    Forall (fun y => exists dino nm e, In (dino, nm, e) (n_dir a) /\ d_name (fst y) = nm /\
                       d_ino (fst y) = shown idx (if plus then e_ino e else dino) /\
                       (if plus then exists e', snd y = Some e' /\ e_ino e' = d_ino (fst y) /\ e_stino e' = d_ino (fst y)
                        else snd y = None)) l.
Proof.
  intros s c plus n size off lim a l ev evs W H. cbn [vfs_op] in H.
  grr W n; [|discriminate|discriminate]. inversion H; subst. exists b, (fs_idx id), (ino_of id). split; [exact Ee|].
  unfold readdir_backend in H1. destruct (negb (n_err a =? 0)); [discriminate|].
  match type of H1 with bind (feed ?cv _ _) _ = _ => set (conv := cv) in * end.
  destruct (feed conv lim (number_dir (off + 1) (n_dir a))) as [out| |] eqn:Ef; try discriminate.
  cbn [bind] in H1. inversion H1; subst out.
  eapply Forall_impl; [|exact (feed_from conv _ _ _ Ef)].
  intros y ([[[dino nm] e] o'] & Hin & Hc). apply In_number_dir in Hin. exists dino, nm, e. split; [exact Hin|].
  unfold conv in Hc. destruct plus.
  - destruct (convert_inode (fs_idx id) (e_ino e)) as [di| |] eqn:Ei; try discriminate. cbn [bind] in Hc.
    destruct (to_ext _ (e_uid e)); [|discriminate]. destruct (to_ext _ (e_gid e)); [|discriminate].
    inversion Hc; subst y. cbn. split; [reflexivity|]. split; [exact (convert_inode_shown _ _ _ Ei)|].
    eexists. split; [reflexivity|]. cbn. auto.
  - destruct (convert_inode (fs_idx id) dino) as [di| |] eqn:Ei; try discriminate. cbn [bind] in Hc.
    inversion Hc; subst y. cbn. split; [reflexivity|]. split; [exact (convert_inode_shown _ _ _ Ei)|reflexivity].
Qed.

(* getattr / setattr: st_ino is the number of the inode that was asked for *)
Theorem getattr_number : forall s c n a x ev evs, wf s -> n < two64 ->
  vfs_op s c (OGetattr n) a = (Ok (RAttr x), ev :: evs) ->
  exists b idx i, eff s n = Some (b, idx, i) /\ a_ino x = mk_vino idx i /\ (fs_idx n <> 0 -> a_ino x = n).
Proof.
  intros s c n a x ev evs W Hn H. cbn [vfs_op] in H.
  unfold get_real_rootfs, eff in *. destruct (fs_idx n =? 0) eqn:E0.
  - destruct (ino_of n =? ROOT_ID); [|discriminate].
    destruct (aget ROOT_ID (v_mps s)) as [mnt|] eqn:Em; [|discriminate].
    unfold get_fs_by_idx in H. destruct (aget (mp_idx mnt) (v_sb s)) as [b|]; [|discriminate]. cbn [bind] in H.
    destruct (N.land (mp_ino mnt) (N.lnot VFS_MAX_INO 64) =? 0); [|discriminate].
    inversion H; subst. destruct (n_err a =? 0); [|discriminate].
    unfold convert_attr in H1. destruct (to_ext _ (a_uid (n_attr a))); [|discriminate]. destruct (to_ext _ (a_gid (n_attr a))); [|discriminate].
    cbn [bind] in H1. inversion H1. cbn. exists b, (mp_idx mnt), (mp_ino mnt).
    split; [reflexivity|]. split; [reflexivity|]. apply N.eqb_eq in E0. intros Hc. contradiction.
  - unfold get_fs_by_idx in H. destruct (aget (fs_idx n) (v_sb s)) as [b|]; [|discriminate]. cbn [bind] in H.
    inversion H; subst. destruct (n_err a =? 0); [|discriminate].
    unfold convert_attr in H1. destruct (to_ext _ (a_uid (n_attr a))); [|discriminate]. destruct (to_ext _ (a_gid (n_attr a))); [|discriminate].
    cbn [bind] in H1. inversion H1. cbn. exists b, (fs_idx n), (ino_of n).
    split; [reflexivity|]. split; [apply vino_decompose; exact Hn|intros _; reflexivity].
Qed.

Lemma skipn_sub {A} : forall n (l : list A) x, In x (skipn n l) -> In x l.
Proof.
  induction n as [|n IH]; intros l x H; [exact H|]. destruct l as [|y r]; [exact H|]. right. apply IH. exact H.
Qed.

(* ---------- served by the pseudo fs ---------- *)
(* the number a child of a pseudo directory is shown with: the mounted root if it is a mount point *)
Definition child_number (s : vfs) (ci : N) : N :=
  match aget ci (v_mps s) with Some m => root_vino m | None => ci end.

Theorem pseudo_lookup_number : forall s c a cur k pn ci, wf s -> pkids_ok (v_ps s) -> aget ROOT_ID (v_mps s) = None ->
  cur <= VFS_MAX_INO -> aget cur (ps_inodes (v_ps s)) = Some pn -> find_child k (pi_children pn) = Some ci ->
  exists res, vfs_op s c (OLookup cur (NNorm k)) a = (res, []) /\
    (res = Panic \/ exists e, res = Ok (REntry e) /\ e_ino e = child_number s ci).
Proof.
  intros s c a cur k pn ci W K Hr Hc Hp Hf.
  destruct (lookup_step s c a cur k pn ci W K Hr Hc Hp Hf) as (_ & res & A & B). exists res. split; [exact A|exact B].
Qed.

Theorem pseudo_readdir_numbers : forall s c a plus cur size off lim pn l evs, wf s -> pkids_ok (v_ps s) ->
  aget ROOT_ID (v_mps s) = None -> cur <= VFS_MAX_INO -> aget cur (ps_inodes (v_ps s)) = Some pn ->
  vfs_op s c (OReaddir plus cur size off lim) a = (Ok (RDir l), evs) ->
  evs = [] /\
  Forall (fun y => exists ci, In (ci, d_name (fst y)) (pi_children pn) /\ d_ino (fst y) = child_number s ci /\
                     (if plus then exists e', snd y = Some e' /\ e_ino e' = d_ino (fst y) /\ e_stino e' = d_ino (fst y)
                      else snd y = None)) l.
Proof.
  intros s c a plus cur size off lim pn l evs W K Hroot Hcur Hpn H. cbn [vfs_op] in H.
  destruct (pseudo_ino_codec cur Hcur) as (Hf & Hi & _).
  assert (G : get_real_rootfs s cur = Ok (SLeft cur)).
  { unfold get_real_rootfs. rewrite Hf. cbn. rewrite Hi. destruct (cur =? ROOT_ID); [rewrite Hroot|]; reflexivity. }
  rewrite G in H. inversion H; subst evs. split; [reflexivity|].
  unfold readdir_pseudo in H1. rewrite Hi in H1. unfold ps_readdir in H1. rewrite Hpn in H1.
  destruct (size =? 0); [cbn in H1; inversion H1; constructor|].
  destruct (two64 <=? off + 1); [discriminate|].
  set (cands := if N.of_nat (length (pi_children pn)) <=? off then [] else number_from (off + 1) (skipn (N.to_nat off) (pi_children pn))).
  assert (Hc : forall ino nm o', In (ino, nm, o') cands -> In (ino, nm) (pi_children pn)).
  { unfold cands. destruct (N.of_nat (length (pi_children pn)) <=? off); [intros ? ? ? []|].
    generalize (off + 1). generalize (skipn_sub (N.to_nat off) (pi_children pn)).
    generalize (skipn (N.to_nat off) (pi_children pn)). intros sk.
    induction sk as [|[i0 n0] r IH]; intros Hinc next ino nm o' Hin; [destruct Hin|].
    cbn [number_from] in Hin. destruct Hin as [Hin | Hin].
    - inversion Hin; subst. apply Hinc. left. reflexivity.
    - eapply IH; [|exact Hin]. intros x Hx. apply Hinc. right. exact Hx. }
  assert (Hb : (if N.of_nat (length (pi_children pn)) <=? off then Ok []
                else Ok (number_from (off + 1) (skipn (N.to_nat off) (pi_children pn)))) = Ok cands).
  { unfold cands. destruct (N.of_nat (length (pi_children pn)) <=? off); reflexivity. }
  rewrite Hb in H1. cbn [bind] in H1.
  match type of H1 with bind (feed ?cv _ _) _ = _ => set (conv := cv) in * end.
  destruct (feed conv lim cands) as [out| |] eqn:Ef; try discriminate. cbn [bind] in H1. inversion H1; subst out.
  eapply Forall_impl; [|exact (feed_from conv _ _ _ Ef)].
  intros y ([[ino nm] o'] & Hin & Hcv). pose proof (Hc _ _ _ Hin) as Hchild.
  assert (Hino : 0 < ino <= VFS_MAX_INO).
  { pose proof (K _ _ Hpn) as F. rewrite Forall_forall in F. apply (F (ino, nm) Hchild). }
  unfold conv in Hcv. unfold child_number. destruct (aget ino (v_mps s)) as [m|] eqn:Em.
  - destruct (convert_inode (mp_idx m) (mp_ino m)) as [di| |] eqn:Ei; try discriminate. cbn [bind] in Hcv.
    destruct (wf_mp s W _ _ Em) as (_ & _ & Hent & _ & _).
    assert (Hdi : di = root_vino m) by (unfold root_vino; apply (convert_inode_shown _ _ _ Ei)).
    inversion Hcv; subst y. cbn [fst snd d_ino d_name]. exists ino. split; [exact Hchild|]. rewrite Em. split; [exact Hdi|].
    destruct plus; [|reflexivity]. eexists. split; [reflexivity|]. cbn [e_ino e_stino]. rewrite Hent. fold (root_vino m). auto.
  - rewrite Hf in Hcv. destruct (convert_inode 0 ino) as [di| |] eqn:Ei; try discriminate. cbn [bind] in Hcv.
    assert (Hdi : di = ino).
    { rewrite (convert_inode_shown _ _ _ Ei). unfold shown. assert (E : ino =? 0 = false) by (apply N.eqb_neq; lia).
      rewrite E. apply (pseudo_ino_codec ino). lia. }
    destruct plus.
    + destruct (to_ext (effective_mapping s 0) 0); [|discriminate]. inversion Hcv; subst y. cbn [fst snd d_ino d_name].
      exists ino. split; [exact Hchild|]. rewrite Em. split; [exact Hdi|]. eexists. split; [reflexivity|]. cbn. auto.
    + inversion Hcv; subst y. cbn [fst snd d_ino d_name]. exists ino. split; [exact Hchild|]. rewrite Em. split; [exact Hdi|reflexivity].
Qed.

(* a bounded-reachable state: /n1 mounted (pseudo 2), /n2/n3 mounted (pseudo 3, 4) *)
Definition ex_cross : vfs :=
  let s0 := vfs_new default_opts false in
  let s1 := fst (fst (vfs_mount s0 10 (mkPath true [CNorm 1]) None (mkMA 0 1 0 0 0 1000 0))) in
  fst (fst (vfs_mount s1 11 (mkPath true [CNorm 2; CNorm 3]) None (mkMA 0 1 0 0 0 1000 0))).
Lemma ex_crossing : exists s, breach s /\ aget ROOT_ID (v_mps s) = None /\
  ps_walk (v_ps s) ROOT_ID (map CNorm [2; 3]) = Ok (Some 4) /\ aget 4 (v_mps s) <> None /\ aget 3 (v_mps s) = None.
Proof.
  exists ex_cross. split.
  - unfold ex_cross. eapply B_mount; [eapply B_mount; [apply B_new| |apply triple_eta]| |apply triple_eta]; vm_compute; discriminate.
  - vm_compute. repeat split; discriminate.
Qed.
