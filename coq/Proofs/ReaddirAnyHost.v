(* Proofs/ReaddirAnyHost.v -- C16, repaired do_readdir (re-read loop + scan buffer of max(size, 4096)):
   the statement as given also holds on hosts whose cookies cannot all be lseek'ed to (cookies above
   i64::MAX, lseek answering EINVAL), where resuming goes through the linear-scan fallback - provided every
   host record fits 4096 bytes (NAME_MAX = 255 gives at most 280). *)
From Coq Require Import List NArith Bool Lia ZifyBool ZifyNat ZifyN Arith.
From FB Require Import Model.Readdir Proofs.Readdir Proofs.ReaddirStep Proofs.ReaddirListing Proofs.ReaddirScan
                       Proofs.ReaddirFallback Proofs.ReaddirInst.
Import ListNotations.
Local Open Scope N_scope.

(* what `post` hands over on a tree with the re-read loop, whatever batch it starts from: a segment after
   skipped dot records that shows the next visible entry *)
Lemma post_progress X uc d size (p : list hent) b s :
  rx_refill X = true -> d = p ++ b ++ s -> (b = [] -> s = []) -> 24 <= size ->
  (forall v t, visible (b ++ s) = v :: t -> host_reclen v <= size) ->
  exists K B S, b ++ s = K ++ B ++ S /\ visible K = [] /\
                fst (post X uc d size b (length p + length b)) = ROk B /\
                (forall v t, visible (b ++ s) = v :: t -> exists t', visible B = v :: t').
Proof.
  intros HX Hd Hnil H24 Hfit. unfold post. rewrite HX.
  assert (Hsk : skipn (length p + length b) d = s).
  { rewrite Hd, app_assoc. replace (length p + length b)%nat with (length (p ++ b)) by (rewrite app_length; reflexivity).
    apply skipn_app_len. }
  rewrite Hsk.
  destruct (visible b) as [|v0 t0] eqn:Evb.
  - destruct (refill_progress size H24 (S (length s)) s b (length p + length b)%nat (Nat.lt_succ_diag_r _)) as (b2 & Hr & _ & H2);
      [|exact Hnil|].
    { intros v t Hv. apply (Hfit v t). rewrite visible_app, Evb. exact Hv. }
    destruct (refill (S (length s)) s size b (length p + length b)) as [[b3|e3] n3] eqn:Hr3; cbn [fst] in Hr; [|discriminate].
    injection Hr as ->.
    destruct (refill_segment size _ p b s b2 n3 Hr3) as (K & s2 & HK & _ & Hv).
    exists K, b2, s2. split; [exact HK|]. split; [exact Hv|]. split; [reflexivity|].
    intros v t Hvis. rewrite visible_app, Evb in Hvis. apply (H2 Evb v t Hvis).
  - assert (Ho : only_dots b = false).
    { destruct (only_dots b) eqn:E; [|reflexivity]. pose proof (only_dots_visible _ E) as Hx.
      unfold visible in Evb. congruence. }
    cbn [refill]. rewrite Ho. cbn [fst].
    exists [], b, s. split; [reflexivity|]. split; [reflexivity|]. split; [reflexivity|].
    intros v t Hvis. rewrite visible_app, Evb in Hvis. cbn [app] in Hvis. injection Hvis as <- _. exists t0. exact Evb.
Qed.

Definition next_fits (size : N) (rest : list hent) : Prop :=
  forall v t, visible rest = v :: t -> host_reclen v <= size.

Lemma gd_progress X uc pre rest size :
  rx_refill X = true -> 24 <= size -> next_fits size rest ->
  exists K B S, rest = K ++ B ++ S /\ visible K = [] /\
                fst (gd X uc (pre ++ rest) size (length pre)) = ROk B /\
                (forall v t, visible rest = v :: t -> exists t', visible B = v :: t').
Proof.
  intros HX H24 Hfit. unfold gd. rewrite skipn_pre.
  pose proof (first_fits size rest H24 Hfit) as Hff. rewrite (getdents_fits _ _ Hff).
  destruct (take_fit_prefix host_reclen rest size) as [s Hs].
  set (b := take_fit host_reclen size rest) in *.
  assert (Hnil : b = [] -> s = []).
  { intros Hb. destruct rest as [|e t]; [rewrite Hb in Hs; cbn in Hs; congruence|].
    exfalso. unfold b in Hb. rewrite take_fit_cons_fit in Hb by exact Hff. discriminate. }
  assert (Hd : pre ++ rest = pre ++ b ++ s) by (rewrite Hs at 1; reflexivity).
  destruct (post_progress X uc (pre ++ rest) size pre b s HX Hd Hnil H24) as (K & B & S & HK & Hv & Hp & Hpr).
  { rewrite <- Hs. exact Hfit. }
  exists K, B, S. split; [rewrite Hs at 1; exact HK|]. split; [exact Hv|]. split; [exact Hp|].
  rewrite <- Hs in Hpr. exact Hpr.
Qed.

Lemma fb_progress X uc p x rest size :
  rx_refill X = true -> rx_scanlen X = true ->
  good_dir ((p ++ [x]) ++ rest) -> all_fit 4096 ((p ++ [x]) ++ rest) -> 24 <= size -> next_fits size rest ->
  exists K B S, rest = K ++ B ++ S /\ visible K = [] /\
                fst (fb X uc ((p ++ [x]) ++ rest) size (h_off x)) = ROk B /\
                (forall v t, visible rest = v :: t -> exists t', visible B = v :: t').
Proof.
  intros HX HS Hg Hf H24 Hfit.
  assert (Hd : (p ++ [x]) ++ rest = p ++ x :: rest) by (rewrite <- app_assoc; reflexivity).
  unfold fb. rewrite HS.
  assert (Hfs : all_fit (N.max size 4096) (p ++ x :: rest)).
  { rewrite <- Hd. apply (all_fit_mono 4096); [lia|exact Hf]. }
  assert (Hn : ~ In (h_off x) (map h_off p)) by (apply nodup_mid_notin with rest; rewrite <- Hd; apply Hg).
  rewrite Hd.
  destruct (scan_found (S (length (p ++ x :: rest))) [] p x rest (N.max size 4096) (h_off x)
              (Nat.lt_succ_diag_r _) eq_refl Hn Hfs) as (b & s & Hsc & Hr & Hne).
  cbn [length] in Hsc. rewrite Hsc.
  assert (Hd2 : p ++ x :: rest = (p ++ [x]) ++ b ++ s) by (rewrite Hr, <- app_assoc; reflexivity).
  assert (Hnil : b = [] -> s = []).
  { intros Hb. destruct rest as [|e t]; [rewrite Hb in Hr; cbn in Hr; congruence|].
    exfalso. apply Hne; [discriminate|exact Hb]. }
  destruct (post_progress X uc (p ++ x :: rest) size (p ++ [x]) b s HX Hd2 Hnil H24) as (K & B & S & HK & Hv & Hp & Hpr).
  { rewrite <- Hr. exact Hfit. }
  replace (0 + length p + 1 + length b)%nat with (length (p ++ [x]) + length b)%nat by (rewrite app_length; cbn [length]; lia).
  exists K, B, S. split; [rewrite Hr; exact HK|]. split; [exact Hv|]. split; [exact Hp|].
  rewrite <- Hr in Hpr. exact Hpr.
Qed.

Lemma fetch_progress_any H X uc pre rest hs size off :
  rx_refill X = true -> rx_scanlen X = true ->
  good_dir (pre ++ rest) -> seek_recoverable H -> Inv_h (pre ++ rest) hs -> off_at pre off ->
  all_fit 4096 (pre ++ rest) -> 24 <= size -> next_fits size rest ->
  exists K B S, rest = K ++ B ++ S /\ visible K = [] /\
                fst (fetch H X uc (pre ++ rest) hs size off) = ROk B /\
                (forall v t, visible rest = v :: t -> exists t', visible B = v :: t').
Proof.
  intros HX HS Hg [Hs0 Hs] Hi Ho Hf H24 Hfit. rewrite fetch_unfold.
  destruct (off_at_index _ _ _ Hg Ho) as [[-> ->]|[Hnz Hidx]].
  - destruct (cache_hit uc hs 0) eqn:Hh.
    + exfalso. destruct uc; [|discriminate]. destruct (cache_hit_sound H _ _ _ Hg Hi Hh) as [Hx _].
      exact (good_no_zero _ _ Hg Hx).
    + replace (I64_MAX <? 0) with false by reflexivity. rewrite Hs0. cbn [N.eqb].
      unfold lseek_pos. cbn [N.eqb]. apply (gd_progress X uc [] rest size HX H24 Hfit).
  - assert (Hgd : forall pos, pos = length pre ->
              exists K B S, rest = K ++ B ++ S /\ visible K = [] /\ fst (gd X uc (pre ++ rest) size pos) = ROk B /\
                            (forall v t, visible rest = v :: t -> exists t', visible B = v :: t')).
    { intros pos ->. apply gd_progress; assumption. }
    assert (Hfb : exists K B S, rest = K ++ B ++ S /\ visible K = [] /\ fst (fb X uc (pre ++ rest) size off) = ROk B /\
                                (forall v t, visible rest = v :: t -> exists t', visible B = v :: t')).
    { destruct Ho as [[_ ->]|(p & x & -> & ->)]; [congruence|]. apply fb_progress; assumption. }
    destruct (cache_hit uc hs off) eqn:Hh.
    + destruct uc; [|discriminate]. destruct (cache_hit_sound H _ _ _ Hg Hi Hh) as [Hx _].
      rewrite Hidx in Hx. injection Hx as Hx. apply Hgd. congruence.
    + destruct (I64_MAX <? off); [exact Hfb|].
      destruct (Hs off) as [-> | ->].
      * cbn [N.eqb]. apply Hgd. unfold lseek_pos. destruct (off =? 0) eqn:E; [lia|]. rewrite Hidx. reflexivity.
      * replace (EINVAL =? 0) with false by reflexivity. rewrite N.eqb_refl. exact Hfb.
Qed.

Lemma step_progress_any H C pre rest st r :
  rx_refill (c_rx C) = true -> rx_scanlen (c_rx C) = true ->
  good_dir (pre ++ rest) -> seek_recoverable H -> InvSt (pre ++ rest) st ->
  lookups_ok H (pre ++ rest) -> wrap_total (c_wrap C) ->
  (c_noopendir C = false -> hs_open (st_h st (r_handle r)) = true) ->
  off_at pre (r_offset r) -> r_size r <> 0 -> all_fit 4096 (pre ++ rest) ->
  24 <= r_size r -> next_fits (r_size r) rest ->
  exists K B S, rest = K ++ B ++ S /\ visible K = [] /\
    fst (step H C (pre ++ rest) st r) =
    ROk (map (mkd H (c_wrap C) (r_plus r)) (take_fit (dirent_size (r_plus r)) (r_size r) (visible B))) /\
    (forall v t, visible rest = v :: t -> exists t', visible B = v :: t').
Proof.
  intros HX HS Hg Hs Hi Hl Hw Hop Ho Hnz Hf H24 Hfit. rewrite step_unfold.
  destruct (r_size r =? 0) eqn:Ez; [lia|].
  assert (Hdel : forall K B S refs, rest = K ++ B ++ S ->
     fst (deliver H (c_wrap C) (r_plus r) (r_size r) B true 0 refs) =
     ROk (map (mkd H (c_wrap C) (r_plus r)) (take_fit (dirent_size (r_plus r)) (r_size r) (visible B)))).
  { intros K B S refs HB. rewrite (deliver_spec _ _ _ _ B); [rewrite N.sub_0_r; reflexivity| |exact Hw].
    apply (lookups_ok_sub H (pre ++ rest)); [exact Hl|]. intros e He. apply in_or_app. right.
    rewrite HB. apply in_or_app. right. apply in_or_app. left. exact He. }
  destruct (c_noopendir C).
  - destruct (fetch_progress_any H (c_rx C) false pre rest fresh_fd (r_size r) (r_offset r) HX HS Hg Hs I Ho Hf H24 Hfit)
      as (K & B & S & HB & Hv & Hfe & Hpr).
    exists K, B, S. split; [exact HB|]. split; [exact Hv|]. split; [|exact Hpr]. rewrite Hfe. cbn [fst]. apply (Hdel K B S _ HB).
  - rewrite (Hop eq_refl). cbn [negb]. cbv zeta.
    destruct (fetch_progress_any H (c_rx C) true pre rest (st_h st (r_handle r)) (r_size r) (r_offset r) HX HS Hg Hs (Hi _) Ho Hf H24 Hfit)
      as (K & B & S & HB & Hv & Hfe & Hpr).
    exists K, B, S. split; [exact HB|]. split; [exact Hv|]. split; [|exact Hpr]. rewrite Hfe. cbn [fst]. apply (Hdel K B S _ HB).
Qed.

Lemma full_size_next_fits plus size rest : full_size_ok plus size rest ->
  24 <= size /\ next_fits size rest /\ (forall v t, visible rest = v :: t -> dirent_size plus v <= size).
Proof.
  intros [H24 Hspec].
  assert (Hv : forall v t, visible rest = v :: t -> dirent_size plus v <= size).
  { intros v t Hvis. unfold spec_size_ok in Hspec. pose proof (need_visible rest) as Hn.
    destruct (need rest) as [[n w]|]; [destruct Hn as [t' Hn]; rewrite Hn in Hvis; injection Hvis as <- _; exact Hspec|congruence]. }
  split; [exact H24|]. split; [|exact Hv].
  intros v t Hvis. pose proof (Hv v t Hvis). pose proof (host_le_dirent plus v). lia.
Qed.

(* the statement as given on any host with recoverable lseek, for the repaired code *)
Theorem listing_complete_any_host : forall plan H C pre rest st off plus,
  c_rx C = all_rfixes ->
  good_dir (pre ++ rest) -> seek_recoverable H -> all_fit 4096 (pre ++ rest) -> lookups_ok H (pre ++ rest) ->
  wrap_total (c_wrap C) -> InvSt (pre ++ rest) st ->
  (c_noopendir C = false -> forall m, In m plan -> hs_open (st_h st (ms_handle m)) = true) ->
  off_at pre off ->
  plan_ok full_size_ok H C (pre ++ rest) st off plus plan ->
  (length (visible rest) < length plan)%nat ->
  exists replies,
    listing H C (pre ++ rest) st off plus plan = map ROk (replies ++ [[]]) /\
    concat replies = map (mkd H (c_wrap C) plus) (visible rest).
Proof.
  induction plan as [|m t IH]; intros H C pre rest st off plus HC Hg Hs Hf Hl Hw Hi Hop Ho Hpl Hlen;
    [cbn [length] in Hlen; lia|].
  cbn [listing plan_ok] in *. cbv zeta in *.
  set (st1 := snd (run H C (pre ++ rest) st (ms_noise m))) in *.
  destruct Hpl as (Hnz & Hok & Hrest).
  rewrite (start_idx_at _ _ _ Hg Ho), skipn_pre in Hok.
  destruct (full_size_next_fits _ _ _ Hok) as (H24 & Hnf & Hdv).
  assert (Hi1 : InvSt (pre ++ rest) st1) by (apply run_inv; assumption).
  assert (Hop1 : c_noopendir C = false -> forall m', In m' (m :: t) -> hs_open (st_h st1 (ms_handle m')) = true).
  { intros Hc m' Hm'. unfold st1. rewrite run_open. apply Hop; assumption. }
  assert (HX : rx_refill (c_rx C) = true) by (rewrite HC; reflexivity).
  assert (HSl : rx_scanlen (c_rx C) = true) by (rewrite HC; reflexivity).
  destruct (step_progress_any H C pre rest st1 (mk_req (ms_handle m) (ms_size m) off plus) HX HSl Hg Hs Hi1 Hl Hw
              (fun Hc => Hop1 Hc m (or_introl eq_refl)) Ho Hnz Hf H24 Hnf) as (K & B & S & HS & HK & Hstep & Hprog).
  cbn [r_size r_plus r_handle r_offset] in Hstep.
  set (o := step H C (pre ++ rest) st1 (mk_req (ms_handle m) (ms_size m) off plus)) in *.
  rewrite Hstep in *.
  set (DD := take_fit (dirent_size plus) (ms_size m) (visible B)) in *.
  assert (Hi2 : InvSt (pre ++ rest) (snd o)) by (apply step_inv; assumption).
  assert (Hop2 : c_noopendir C = false -> forall m', In m' t -> hs_open (st_h (snd o) (ms_handle m')) = true).
  { intros Hc m' Hm'. unfold o. rewrite step_open. apply Hop1; [exact Hc|right; exact Hm']. }
  destruct (take_fit_prefix (dirent_size plus) (visible B) (ms_size m)) as [s' Hs']. fold DD in Hs'.
  destruct (snoc_cases DD) as [HDD|(DD' & x & HDD)].
  - assert (Hvis : visible rest = []).
    { destruct (visible rest) as [|v tv] eqn:Ev; [reflexivity|exfalso].
      destruct (Hprog v tv eq_refl) as (t' & Ht'). pose proof (Hdv v tv eq_refl) as Hfit.
      unfold DD in HDD. rewrite Ht' in HDD. rewrite take_fit_cons_fit in HDD by exact Hfit. discriminate. }
    rewrite HDD in *. cbn [map] in *. unfold last_off in *. cbn [rev] in *.
    destruct t as [|m2 t2].
    + exists []. cbn [app map concat listing]. rewrite Hvis. split; reflexivity.
    + destruct (IH H C pre rest (snd o) off plus HC Hg Hs Hf Hl Hw Hi2 Hop2 Ho Hrest) as (replies & Hlist & Hcat).
      { rewrite Hvis. cbn [length]. lia. }
      exists ([] :: replies). cbn [app map concat]. rewrite Hlist, Hcat. split; reflexivity.
  - rewrite HDD in Hs'. rewrite <- app_assoc in Hs'. cbn [app] in Hs'.
    destruct (filter_prefix_split _ _ _ _ _ Hs') as (B1 & B2 & HBB & HB1 & HB2 & Hx).
    assert (Hd : pre ++ rest = (pre ++ (K ++ B1) ++ [x]) ++ (B2 ++ S)).
    { rewrite HS, HBB, <- !app_assoc. reflexivity. }
    assert (Hvr : visible rest = DD ++ visible (B2 ++ S)).
    { rewrite HS, HBB, HDD. rewrite app_assoc. rewrite (app_assoc K). apply visible_split; [|exact Hx].
      change (filter (fun e => negb (is_dot e)) (K ++ B1)) with (visible (K ++ B1)).
      rewrite visible_app, HK. exact HB1. }
    assert (Ho' : off_at (pre ++ (K ++ B1) ++ [x]) (last_off (map (mkd H (c_wrap C) plus) DD) off)).
    { right. exists (pre ++ K ++ B1), x. split; [rewrite <- !app_assoc; reflexivity|].
      rewrite HDD. apply last_off_map. }
    rewrite Hd in Hg, Hf, Hl, Hi2, Hrest |- *.
    assert (Hlen' : (length (visible (B2 ++ S)) < length t)%nat).
    { rewrite Hvr, HDD, !app_length in Hlen. cbn [length] in Hlen. lia. }
    destruct (IH H C _ _ (snd o) _ plus HC Hg Hs Hf Hl Hw Hi2 Hop2 Ho' Hrest Hlen') as (replies & Hlist & Hcat).
    exists (map (mkd H (c_wrap C) plus) DD :: replies). cbn [app map concat]. split.
    + rewrite Hlist. reflexivity.
    + rewrite Hcat, Hvr, map_app. reflexivity.
Qed.
