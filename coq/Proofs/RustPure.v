(* Proofs/RustPure.v -- tactics and bit lemmas for the ties between the translated source functions
   (Gen/RustPure.v, regenerated from /repo/src on every run) and the hand models.

   Method.  [eval_fn m f [args]] with symbolic arguments computes ([rcbv]: cbv that leaves the N operations
   folded) to a finite tree of [if c then .. else ..] whose conditions are comparisons of the arguments
   (Lib/RustExpr.v never inspects a symbolic boolean).  The model side is unfolded by the same reduction.  Every
   condition is case-split and each leaf closed by [reflexivity], [lia], or [f_equal; lia].  The proofs therefore do
   not depend on the shape of the Rust text, only on what it computes: reordering pure operands, renaming locals,
   extracting a [let], writing [a <= x] for [x >= a] leave them valid; changing a constant, an operator, a
   comparison or the order of evaluation where it matters (overflow) does not. *)
From Coq Require Import List NArith ZArith String Bool Lia.
From FB Require Import Lib.RustExpr.
Import ListNotations.
Local Open Scope N_scope.

(* ------------------------------------------------------------------ reduction *)
Ltac rcbv := cbv -[N.add N.sub N.mul N.div N.modulo N.ltb N.leb N.eqb N.land N.lor N.lxor N.ldiff N.lnot N.shiftl N.shiftr
                   N.pow N.min N.max N.testbit sem rep in_range enum_eqb].

(* closed N operations (both arguments numerals) are computed *)
Ltac is_pnum p := lazymatch p with xH => idtac | xO ?q => is_pnum q | xI ?q => is_pnum q end.
Ltac is_num t := lazymatch t with N0 => idtac | Npos ?p => is_pnum p end.
Ltac nfold1 :=
  match goal with
  | |- context [?f ?a ?b] =>
     lazymatch f with
     | N.add => idtac | N.sub => idtac | N.mul => idtac | N.div => idtac | N.modulo => idtac | N.ltb => idtac
     | N.leb => idtac | N.eqb => idtac | N.land => idtac | N.lor => idtac | N.lxor => idtac | N.ldiff => idtac
     | N.lnot => idtac | N.shiftl => idtac | N.shiftr => idtac | N.pow => idtac | N.min => idtac | N.max => idtac
     end;
     is_num a; is_num b;
     let v := eval vm_compute in (f a b) in change (f a b) with v
  end.
Ltac is_str s := lazymatch s with EmptyString => idtac | String _ ?r => is_str r end.
Ltac efold1 :=
  match goal with
  | |- context [enum_eqb ?a ?b] =>
     is_str a; is_str b; let v := eval vm_compute in (enum_eqb a b) in change (enum_eqb a b) with v
  end.
Ltac nfold := repeat nfold1; repeat efold1; cbv beta iota.

Ltac bool_hyps :=
  repeat match goal with
  | H : (_ <=? _) = true |- _ => apply N.leb_le in H
  | H : (_ <=? _) = false |- _ => apply N.leb_gt in H
  | H : (_ <? _) = true |- _ => apply N.ltb_lt in H
  | H : (_ <? _) = false |- _ => apply N.ltb_ge in H
  | H : (_ =? _) = true |- _ => apply N.eqb_eq in H
  | H : (_ =? _) = false |- _ => apply N.eqb_neq in H
  end.

(* split the innermost condition first *)
Ltac split_if :=
  match goal with
  | |- context [if ?c then _ else _] =>
      lazymatch c with context [if _ then _ else _] => fail | _ => idtac end;
      let E := fresh "E" in destruct c eqn:E
  end.

Ltac dlia := zify; Z.to_euclidean_division_equations; lia.
(* peel the constructors of equal shape off both sides, down to the numbers *)
Ltac vequal :=
  repeat match goal with
  | |- Val _ = Val _ => apply f_equal
  | |- RustExpr.VOk _ = RustExpr.VOk _ => apply f_equal
  | |- RustExpr.VErr _ = RustExpr.VErr _ => apply f_equal
  | |- VSome _ = VSome _ => apply f_equal
  | |- VInt ?t _ = VInt ?t _ => apply f_equal
  | |- VBool _ = VBool _ => apply f_equal
  end.
(* two bit expressions over the same atoms (operands of | & ^ reordered, re-associated): bit by bit *)
Ltac bitext :=
  apply N.bits_inj; intro;
  repeat (rewrite N.lor_spec || rewrite N.land_spec || rewrite N.lxor_spec || rewrite N.ldiff_spec);
  repeat match goal with |- context [N.testbit ?a ?i] => destruct (N.testbit a i) end;
  reflexivity.
Ltac leaf :=
  bool_hyps;
  first [ reflexivity | exfalso; lia | congruence | vequal; lia | exfalso; dlia | vequal; dlia | vequal; bitext ].

(* [pre]: rewrites applied to the computed tree before the case split (bit identities) *)
Ltac rsolve_with pre := rcbv; pre; nfold; pre; nfold; repeat split_if; leaf.
Ltac rsolve := rsolve_with idtac.

(* ------------------------------------------------------------------ bit lemmas *)
Lemma testbit_high : forall a w i, a < 2 ^ w -> w <= i -> N.testbit a i = false.
Proof.
  intros a w i Ha Hi. destruct (N.eq_dec a 0) as [-> | Hz]; [apply N.bits_0 |].
  apply N.bits_above_log2. apply N.lt_le_trans with w; [| exact Hi].
  apply N.log2_lt_pow2; [lia | exact Ha].
Qed.

(* x & !m on a w-bit value clears the bits of m *)
Lemma land_lnot_ldiff : forall a b w, a < 2 ^ w -> N.land a (N.lnot b w) = N.ldiff a b.
Proof.
  intros a b w Ha. apply N.bits_inj; intro i. rewrite N.land_spec, N.ldiff_spec.
  destruct (N.lt_ge_cases i w) as [Hi | Hi].
  - rewrite N.lnot_spec_low by exact Hi. reflexivity.
  - rewrite (testbit_high a w i Ha Hi). reflexivity.
Qed.

Lemma land_le_l : forall a b, N.land a b <= a.
Proof.
  intros a b. apply N.ldiff_le. apply N.bits_inj; intro i.
  rewrite N.ldiff_spec, N.land_spec, N.bits_0. destruct (N.testbit a i), (N.testbit b i); reflexivity.
Qed.

Lemma ldiff_le_l : forall a b, N.ldiff a b <= a.
Proof.
  intros a b. apply N.ldiff_le. apply N.bits_inj; intro i.
  rewrite !N.ldiff_spec, N.bits_0. destruct (N.testbit a i), (N.testbit b i); reflexivity.
Qed.

Lemma lor_lt_pow2 : forall a b w, a < 2 ^ w -> b < 2 ^ w -> N.lor a b < 2 ^ w.
Proof.
  intros a b w Ha Hb. destruct (N.eq_dec (N.lor a b) 0) as [-> | Hz]; [lia |].
  apply N.log2_lt_pow2; [lia |]. rewrite N.log2_lor.
  assert (Hl : forall x, x < 2 ^ w -> N.lor a b <> 0 -> N.log2 x < w).
  { intros x Hx _. destruct (N.eq_dec x 0) as [-> | Hx0].
    - cbn. destruct (N.eq_dec w 0) as [-> | ]; [| lia]. cbn in Ha, Hb. assert (a = 0) by lia. assert (b = 0) by lia. subst. cbn in Hz. congruence.
    - apply N.log2_lt_pow2; [lia | exact Hx]. }
  apply N.max_lub_lt; apply Hl; assumption.
Qed.

(* the mask !7 of a 64-bit word: rounding down to a multiple of 8 *)
Lemma land_mask8 : forall x, x < 18446744073709551616 -> N.land x 18446744073709551608 = 8 * (x / 8).
Proof.
  intros x Hx. change 18446744073709551608 with (N.lnot 7 64).
  rewrite land_lnot_ldiff by exact Hx. change 7 with (N.ones 3).
  rewrite N.ldiff_ones_r, N.shiftr_div_pow2, N.shiftl_mul_pow2. change (2 ^ 3) with 8. apply N.mul_comm.
Qed.

Lemma shl_small : forall a k M, a * 2 ^ k < M -> N.shiftl a k mod M = N.shiftl a k.
Proof. intros a k M H. rewrite N.shiftl_mul_pow2. apply N.mod_small. exact H. Qed.

(* bounds of bit expressions, for the side conditions of the lemmas above *)
Ltac pow_num := try change (2 ^ 8) with 256; try change (2 ^ 32) with 4294967296; try change (2 ^ 64) with 18446744073709551616.
Ltac bitbound :=
  first [ solve [pow_num; lia]
        | apply lor_lt_pow2; bitbound
        | eapply N.le_lt_trans; [apply ldiff_le_l | bitbound]
        | eapply N.le_lt_trans; [apply land_le_l | bitbound] ].

(* bit identities applied wherever they occur, whatever the operands look like and in either operand order:
   x & !m on a w-bit x  ->  ldiff x m ;  x & 0xffff_ffff_ffff_fff8  ->  8 * (x / 8) ;  (a << k) mod 2^w -> a << k when it fits *)
Ltac bitnorm1 :=
  match goal with
  | |- context [N.lnot 7 64] => change (N.lnot 7 64) with 18446744073709551608
  | |- context [N.land ?x (N.lnot ?m ?w)] => rewrite (land_lnot_ldiff x m w) by bitbound
  | |- context [N.land (N.lnot ?m ?w) ?x] => rewrite (N.land_comm (N.lnot m w) x), (land_lnot_ldiff x m w) by bitbound
  | |- context [N.land ?x 18446744073709551608] => rewrite (land_mask8 x) by lia
  | |- context [N.land 18446744073709551608 ?x] => rewrite (N.land_comm 18446744073709551608 x), (land_mask8 x) by lia
  | |- context [N.shiftl ?a ?k mod ?M] => rewrite (shl_small a k M) by (nfold; lia)
  end.
Ltac bitnorm := repeat bitnorm1.
