(* Every inode number handed to the client identifies one mounted backend and one inode of it:
   a number in a reply served by a backend decodes to (the serving slot, an inode number that
   backend answered); a number in a reply served by the pseudo fs is a pseudo inode (index 0) or
   the root of an attached mount. *)
From Coq Require Import List NArith Bool Lia.
From FB Require Import Model.Pseudo Gen.VfsTable Model.Vfs Proofs.VfsCodec Proofs.VfsAlloc Proofs.VfsInv Proofs.VfsRouting.
Import ListNotations.
Local Open Scope N_scope.

Definition entry_inodes (e : entry) : list N := [e_ino e; e_stino e].
Definition reply_inodes (r : reply) : list N :=
  match r with
  | REntry e => entry_inodes e
  | RDir l => flat_map (fun x => d_ino (fst x) :: match snd x with Some e => entry_inodes e | None => [] end) l
  | _ => []
  end.
(* the inode numbers the backend answered with *)
Definition ans_inodes (a : ans) : list N :=
  e_ino (n_ent a) :: flat_map (fun x => [fst (fst x); e_ino (snd x)]) (n_dir a).

(* x stands for backend inode y of the backend in slot idx *)
Definition stands_for (s : vfs) (b idx : N) (ys : list N) (x : N) : Prop :=
  x = 0 \/ (x < two64 /\ fs_idx x = idx /\ aget idx (v_sb s) = Some b /\ In (ino_of x) ys).
Definition pseudo_or_root (s : vfs) (x : N) : Prop :=
  x = 0 \/ fs_idx x = 0 \/
  exists p m b, aget p (v_mps s) = Some m /\ aget (mp_idx m) (v_sb s) = Some b /\
                x = mk_vino (mp_idx m) (mp_ino m) /\ fs_idx x = mp_idx m /\ ino_of x = mp_ino m.

Lemma feed_forall {A} (conv : A -> outcome (dirent * option entry)) (P : dirent * option entry -> Prop) :
  forall l limit out, feed conv limit l = Ok out ->
    (forall x y, In x l -> conv x = Ok y -> P y) -> Forall P out.
Proof.
  induction l as [|x r IH]; intros limit out H HP; simpl in H.
  - inversion H. constructor.
  - destruct (conv x) as [y| |] eqn:Ec; try discriminate.
    destruct limit as [|k]; [inversion H; constructor|].
    destruct (feed conv k r) as [t| |] eqn:Ef; try discriminate. cbn [bind] in H. inversion H; subst out.
    constructor.
    + apply (HP x y); [left; reflexivity|exact Ec].
    + apply (IH k t Ef). intros x' y' Hin. apply HP. right. exact Hin.
Qed.

Lemma conv_stands s b idx ino x ys : 0 < idx < 256 -> aget idx (v_sb s) = Some b -> In ino ys ->
  convert_inode idx ino = Ok x -> stands_for s b idx ys x.
Proof.
  intros Hi Hs Hin Hc. destruct (convert_inode_ok _ _ _ Hc) as [[_ ->] | [Hr ->]]; [left; reflexivity|].
  right. repeat split.
  - apply mk_vino_lt; lia.
  - apply fs_idx_mk; lia.
  - exact Hs.
  - rewrite ino_of_mk by lia. exact Hin.
Qed.

Lemma backend_entry_stands s a idx b r : 0 < idx < 256 -> aget idx (v_sb s) = Some b ->
  backend_entry s a idx = Ok r -> Forall (stands_for s b idx (ans_inodes a)) (reply_inodes r).
Proof.
  intros Hi Hs. unfold backend_entry. destruct (n_err a =? 0); [|discriminate].
  destruct (convert_entry s idx (e_ino (n_ent a)) (n_ent a)) as [e| |] eqn:Ec; try discriminate.
  cbn [bind]. intros H. inversion H; subst r. cbn [reply_inodes entry_inodes].
  unfold convert_entry in Ec. destruct (convert_inode idx (e_ino (n_ent a))) as [x| |] eqn:Ei; try discriminate.
  destruct (to_ext _ (e_uid (n_ent a))); [|discriminate]. destruct (to_ext _ (e_gid (n_ent a))); [|discriminate].
  inversion Ec; subst e. cbn [e_ino e_stino].
  assert (S : stands_for s b idx (ans_inodes a) x).
  { eapply conv_stands; try eassumption. left. reflexivity. }
  constructor; [exact S|constructor; [exact S|constructor]].
Qed.

Lemma In_number_dir : forall l next x off, In (x, off) (number_dir next l) -> In x l.
Proof.
  induction l as [|y r IH]; intros next x off H; cbn [number_dir] in H; [contradiction|].
  destruct H as [H | H]; [inversion H; left; reflexivity|right; eapply IH; exact H].
Qed.

Lemma readdir_backend_stands s plus idx a offset limit b r : 0 < idx < 256 -> aget idx (v_sb s) = Some b ->
  readdir_backend s plus idx a offset limit = Ok r -> Forall (stands_for s b idx (ans_inodes a)) (reply_inodes r).
Proof.
  intros Hi Hs. unfold readdir_backend. destruct (negb (n_err a =? 0)); [discriminate|].
  match goal with |- bind (feed ?cv _ _) _ = _ -> _ => set (conv := cv) end.
  destruct (feed conv limit (number_dir (offset + 1) (n_dir a))) as [out| |] eqn:Ef; try discriminate.
  cbn [bind]. intros H. inversion H; subst r. cbn [reply_inodes].
  assert (F : Forall (fun y => Forall (stands_for s b idx (ans_inodes a))
                                 (d_ino (fst y) :: match snd y with Some e => entry_inodes e | None => [] end)) out).
  { apply (feed_forall conv _ _ _ _ Ef). intros [[[dino nm] e] off] y Hin Hc.
    apply In_number_dir in Hin.
    assert (Hd : In dino (ans_inodes a)).
    { right. apply in_flat_map. exists (dino, nm, e). split; [exact Hin|left; reflexivity]. }
    assert (He : In (e_ino e) (ans_inodes a)).
    { right. apply in_flat_map. exists (dino, nm, e). split; [exact Hin|right; left; reflexivity]. }
    unfold conv in Hc. destruct plus.
    - destruct (convert_inode idx (e_ino e)) as [di| |] eqn:Ei; try discriminate. cbn [bind] in Hc.
      destruct (to_ext _ (e_uid e)); [|discriminate]. destruct (to_ext _ (e_gid e)); [|discriminate].
      inversion Hc; subst y. cbn [fst snd d_ino entry_inodes e_ino e_stino].
      assert (S : stands_for s b idx (ans_inodes a) di) by exact (conv_stands s b idx (e_ino e) di _ Hi Hs He Ei).
      unfold entry_inodes; cbn [e_ino e_stino]. constructor; [exact S|constructor; [exact S|constructor; [exact S|constructor]]].
    - destruct (convert_inode idx dino) as [di| |] eqn:Ei; try discriminate. cbn [bind] in Hc.
      inversion Hc; subst y. simpl.
      constructor; [exact (conv_stands s b idx dino di _ Hi Hs Hd Ei)|constructor]. }
  clear Ef H. induction F as [|y t Hy _ IH]; [constructor|].
  cbn [flat_map]. apply Forall_app. split; [exact Hy|exact IH].
Qed.

Lemma eff_slot s n b idx i : wf s -> eff s n = Some (b, idx, i) -> 0 < idx < 256 /\ aget idx (v_sb s) = Some b.
Proof.
  intros W H. destruct (grr_cases s n W) as [(b' & idx' & id & E & Ee & Hf & Hi & Hs) | [(E & Ee & Hf) | (E & Ee & Hf)]];
  rewrite Ee in H; inversion H; subst; auto.
Qed.

(* replies served by a backend *)
Theorem issued_by_backend : forall s c o a r ev evs, wf s -> vfs_op s c o a = (Ok r, ev :: evs) ->
  exists idx, 0 < idx < 256 /\ aget idx (v_sb s) = Some (ev_bid ev) /\
              Forall (stands_for s (ev_bid ev) idx (ans_inodes a)) (reply_inodes r).
Proof.
  intros s c o a r ev evs W H. pose proof (routing s c o a _ _ W H) as R.
  destruct o; cbn [vfs_op] in H.
  - destruct (has_slash nm); [discriminate|].
    grr W parent; [|discriminate|discriminate].
    inversion H; subst. cbn [ev_bid evc]. exists (fs_idx id). split; [exact Hi|]. split; [exact Hs|].
    eapply backend_entry_stands; eassumption.
  - grr W ino; [|discriminate|discriminate]. inversion H; subst. exists (fs_idx id). cbn. repeat split; try assumption; try lia. constructor.
  - destruct (forget_one s c ino1) as [p1 e1]. destruct p1; [discriminate|].
    destruct (forget_one s c ino2) as [p2 e2]. destruct p2; [discriminate|].
    inversion H; subst. inversion R as [|x l Hx _]; subst.
    destruct Hx as (_ & [(b & idx & i & E & Hb & _) | (b & idx & i & E & Hb & _)] & _);
      destruct (eff_slot _ _ _ _ _ W E) as (Hi & Hs); exists idx; subst b; (split; [exact Hi|]); (split; [exact Hs|]); constructor.
  - grr W ino; [|discriminate|discriminate]. inversion H; subst. exists (fs_idx id). cbn [ev_bid evc]. split; [exact Hi|]. split; [exact Hs|].
    destruct (n_err a =? 0); [|discriminate]. destruct (convert_attr s id (fs_idx id) (n_attr a)); try discriminate.
    cbn [bind] in H1. inversion H1. constructor.
  - grr W ino; [|discriminate|discriminate].
    destruct (to_int (effective_mapping s idx) uid); [|discriminate].
    destruct (to_int (effective_mapping s idx) gid); [|discriminate].
    inversion H; subst. exists (fs_idx id). cbn [ev_bid]. split; [exact Hi|]. split; [exact Hs|].
    destruct (n_err a =? 0); [|discriminate]. destruct (convert_attr s id (fs_idx id) (n_attr a)); try discriminate.
    cbn [bind] in H1. inversion H1. constructor.
  - destruct (aget m forward_table) as [[[[validate g] is_entry] ret_unit]|]; [|discriminate].
    destruct (validate && negb (name_safe nm)); [discriminate|].
    destruct (gate_closed s g); [discriminate|].
    grr W ino; [|discriminate|discriminate].
    inversion H; subst. exists (fs_idx id). cbn [ev_bid evc]. split; [exact Hi|]. split; [exact Hs|].
    destruct is_entry.
    + eapply backend_entry_stands; eassumption.
    + destruct (n_err a =? 0); [|discriminate]. inversion H1. constructor.
  - destruct (negb (name_safe oldname) || negb (name_safe newname)); [discriminate|].
    grr W olddir; [| |discriminate].
    + grr W newdir; [| |discriminate].
      * destruct (negb (fs_idx id =? fs_idx id0)); [discriminate|].
        inversion H; subst. exists (fs_idx id). cbn [ev_bid evc]. split; [exact Hi|]. split; [exact Hs|].
        destruct (n_err a =? 0); [|discriminate]. inversion H1. constructor.
      * destruct (negb (fs_idx id =? fs_idx newdir)); [discriminate|]. inversion H; subst.
        exists (fs_idx id). cbn [ev_bid evc]. split; [exact Hi|]. split; [exact Hs|].
        destruct (n_err a =? 0); [|discriminate]. inversion H1. constructor.
    + grr W newdir; [| |discriminate].
      * destruct (negb (fs_idx olddir =? fs_idx id)); discriminate.
      * destruct (negb (fs_idx olddir =? fs_idx newdir)); discriminate.
  - destruct (negb (name_safe nm)); [discriminate|].
    grr W ino; [| |discriminate].
    + grr W newparent; [| |discriminate].
      * destruct (negb (fs_idx id =? fs_idx id0)) eqn:Ef; [discriminate|].
        apply negb_false_iff, N.eqb_eq in Ef.
        inversion H; subst. exists (fs_idx id). cbn [ev_bid evc]. split; [exact Hi|]. split; [exact Hs|].
        rewrite <- Ef in H1. eapply backend_entry_stands; eassumption.
      * destruct (negb (fs_idx id =? fs_idx newparent)) eqn:Ef; [discriminate|].
        apply negb_false_iff, N.eqb_eq in Ef. lia.
    + grr W newparent; [| |discriminate].
      * destruct (negb (fs_idx ino =? fs_idx id)); discriminate.
      * destruct (negb (fs_idx ino =? fs_idx newparent)); discriminate.
  - grr W ino; [|discriminate|discriminate].
    inversion H; subst. exists (fs_idx id). cbn [ev_bid evc]. split; [exact Hi|]. split; [exact Hs|].
    eapply readdir_backend_stands; eassumption.
  - discriminate.
Qed.

(* ---------- replies served by the pseudo fs ---------- *)
Lemma root_of_mount s p m : wf s -> aget p (v_mps s) = Some m ->
  pseudo_or_root s (if mp_ino m =? 0 then 0 else mk_vino (mp_idx m) (mp_ino m)).
Proof.
  intros W H. destruct (wf_mp s W _ _ H) as (Hi & Hino & _ & _ & Hatt).
  destruct (mp_ino m =? 0); [left; reflexivity|].
  destruct (aget (mp_idx m) (v_sb s)) as [b|] eqn:Eb; [|contradiction].
  right. right. exists p, m, b. repeat split; try assumption.
  - apply fs_idx_mk; [lia|exact Hino].
  - apply ino_of_mk. exact Hino.
Qed.

Lemma pseudo_number s ino x : convert_inode 0 ino = Ok x -> pseudo_or_root s x.
Proof.
  intros H. destruct (convert_inode_ok _ _ _ H) as [[_ ->] | [Hr ->]]; [left; reflexivity|].
  right. left. apply fs_idx_mk; lia.
Qed.

Lemma lookup_pseudo_issued s n nm e : wf s -> fs_idx n = 0 -> lookup_pseudo s n nm = Ok e ->
  Forall (pseudo_or_root s) (entry_inodes e).
Proof.
  intros W Hz. unfold lookup_pseudo. destruct (ps_lookup (v_ps s) (ino_of n) nm) as [ino| |]; try discriminate.
  cbn [bind]. destruct (aget ino (v_mps s)) as [mnt|] eqn:Em; intros H.
  - inversion H; subst e. destruct (wf_mp s W _ _ Em) as (_ & _ & E1 & E2 & _). unfold entry_inodes. rewrite E2, E1.
    pose proof (root_of_mount s ino mnt W Em) as P. constructor; [exact P|constructor; [exact P|constructor]].
  - rewrite Hz in H. destruct (convert_entry_shape _ _ _ _ _ H) as (E1 & E2 & Hle & _). unfold entry_inodes. rewrite E2, E1.
    assert (P : pseudo_or_root s (if ino =? 0 then 0 else mk_vino 0 ino)).
    { destruct (ino =? 0); [left; reflexivity|]. right. left. apply fs_idx_mk; [lia|exact Hle]. }
    constructor; [exact P|constructor; [exact P|constructor]].
Qed.

Lemma readdir_pseudo_issued s plus n size offset limit r : wf s -> fs_idx n = 0 ->
  readdir_pseudo s plus n size offset limit = Ok r -> Forall (pseudo_or_root s) (reply_inodes r).
Proof.
  intros W Hz. unfold readdir_pseudo.
  destruct (ps_readdir (v_ps s) (ino_of n) size offset) as [cands| |]; try discriminate. cbn [bind].
  match goal with |- bind (feed ?cv _ _) _ = _ -> _ => set (conv := cv) end.
  destruct (feed conv limit cands) as [out| |] eqn:Ef; try discriminate.
  cbn [bind]. intros H. inversion H; subst r. cbn [reply_inodes].
  assert (F : Forall (fun y => Forall (pseudo_or_root s)
                                 (d_ino (fst y) :: match snd y with Some e => entry_inodes e | None => [] end)) out).
  { apply (feed_forall conv _ _ _ _ Ef). intros [[ino nm] off] y _ Hc. unfold conv in Hc.
    destruct (aget ino (v_mps s)) as [mnt|] eqn:Em.
    - destruct (convert_inode (mp_idx mnt) (mp_ino mnt)) as [di| |] eqn:Ei; try discriminate. cbn [bind] in Hc.
      pose proof (root_of_mount s ino mnt W Em) as P.
      destruct (wf_mp s W _ _ Em) as (_ & _ & Hent & _ & _).
      assert (Hdi : di = (if mp_ino mnt =? 0 then 0 else mk_vino (mp_idx mnt) (mp_ino mnt))).
      { destruct (convert_inode_ok _ _ _ Ei) as [[Hz0 ->] | [Hr ->]].
        - rewrite Hz0. reflexivity.
        - assert (E : mp_ino mnt =? 0 = false) by (apply N.eqb_neq; lia). rewrite E. reflexivity. }
      inversion Hc; subst y. simpl. rewrite Hdi.
      destruct plus; simpl.
      + unfold entry_inodes. cbn [e_ino e_stino]. rewrite Hent.
        constructor; [exact P|constructor; [exact P|constructor; [exact P|constructor]]].
      + constructor; [exact P|constructor].
    - rewrite Hz in Hc. destruct (convert_inode 0 ino) as [di| |] eqn:Ei; try discriminate. cbn [bind] in Hc.
      pose proof (pseudo_number s ino di Ei) as P.
      destruct plus.
      + destruct (to_ext (effective_mapping s 0) 0); [|discriminate]. inversion Hc; subst y. simpl.
        unfold entry_inodes. cbn [e_ino e_stino].
        constructor; [exact P|constructor; [exact P|constructor; [exact P|constructor]]].
      + inversion Hc; subst y. simpl. constructor; [exact P|constructor]. }
  clear Ef H. induction F as [|y t Hy _ IH]; [constructor|].
  cbn [flat_map]. apply Forall_app. split; [exact Hy|exact IH].
Qed.

Theorem issued_by_pseudo : forall s c o a r, wf s -> vfs_op s c o a = (Ok r, []) ->
  Forall (pseudo_or_root s) (reply_inodes r).
Proof.
  intros s c o a r W H. destruct o; cbn [vfs_op] in H.
  - destruct (has_slash nm); [discriminate|].
    grr W parent; [discriminate| |discriminate].
    destruct (lookup_pseudo s parent nm) as [e| |] eqn:El; try discriminate. cbn [bind] in H. inversion H; subst r.
    cbn [reply_inodes]. eapply lookup_pseudo_issued; eassumption.
  - grr W ino; inversion H; constructor.
  - destruct (forget_one s c ino1) as [p1 e1]. destruct p1; [discriminate|].
    destruct (forget_one s c ino2) as [p2 e2]. destruct p2; [discriminate|]. inversion H. constructor.
  - grr W ino; [discriminate| |discriminate].
    destruct (ps_getattr (v_ps s) (ino_of ino)); try discriminate. cbn [bind] in H.
    destruct (convert_attr s ino (fs_idx ino) (pseudo_attr a0)); try discriminate. cbn [bind] in H. inversion H. constructor.
  - grr W ino; [| |discriminate].
    + destruct (to_int (effective_mapping s idx) uid); [|discriminate].
      destruct (to_int (effective_mapping s idx) gid); discriminate.
    + unfold default_of in H. destruct (aget m_setattr default_table) as [[|?]|]; inversion H; constructor.
  - destruct (aget m forward_table) as [[[[validate g] is_entry] ret_unit]|]; [|discriminate].
    destruct (validate && negb (name_safe nm)); [discriminate|].
    destruct (gate_closed s g); [discriminate|].
    grr W ino; [discriminate| |discriminate].
    unfold default_of in H. destruct (aget m default_table) as [[|?]|]; inversion H; constructor.
  - destruct (negb (name_safe oldname) || negb (name_safe newname)); [discriminate|].
    destruct (get_real_rootfs s olddir) as [so| |]; [|discriminate|discriminate].
    destruct (get_real_rootfs s newdir) as [sn| |]; [|discriminate|discriminate].
    match type of H with (if ?x then _ else _) = _ => destruct x end; [discriminate|].
    destruct so; [|discriminate].
    unfold default_of in H. destruct (aget m_rename default_table) as [[|?]|]; inversion H; constructor.
  - destruct (negb (name_safe nm)); [discriminate|].
    destruct (get_real_rootfs s ino) as [so| |]; [|discriminate|discriminate].
    destruct (get_real_rootfs s newparent) as [sn| |]; [|discriminate|discriminate].
    match type of H with (if ?x then _ else _) = _ => destruct x end; [discriminate|].
    destruct so; [|discriminate].
    unfold default_of in H. destruct (aget m_link default_table) as [[|?]|]; inversion H; constructor.
  - grr W ino; [discriminate| |discriminate].
    inversion H. eapply readdir_pseudo_issued; eassumption.
  - unfold default_of in H. destruct (aget m default_table) as [[|?]|]; inversion H; constructor.
Qed.
