(* Preservation of the coherence invariant: frame/transfer lemmas for a change of one entry of the
   upper layer, and the operations. *)
From Coq Require Import List String Arith NArith Bool Lia Sorted.
From FB Require Import Model.Overlay Proofs.OverlayInv Proofs.OverlayScan Proofs.OverlayRestart
  Proofs.OverlayReadOnly Proofs.OverlayCoh Proofs.OverlayCohView Proofs.OverlayCopyUp.
Import ListNotations.

Definition is_prefix (a b : path) : Prop := exists r, b = a ++ r.
Lemma is_prefix_refl a : is_prefix a a. Proof. exists []. rewrite app_nil_r. reflexivity. Qed.
Lemma is_prefix_app a r : is_prefix a (a ++ r). Proof. exists r. reflexivity. Qed.
Lemma is_prefix_trans a b c : is_prefix a b -> is_prefix b c -> is_prefix a c.
Proof. intros [r ->] [r' ->]. exists (r ++ r'). rewrite app_assoc. reflexivity. Qed.

(* ------------------------------------------------------------------ the invariant only reads shapes near the node *)
Section Transfer.
Variables Sh Sh' : nat -> path -> option shape.
Variable nl : nat.

Lemma dcut_ext p st : (forall i, Sh' i p = Sh i p) -> dcut Sh' p st = dcut Sh p st.
Proof. intros H. induction st as [|i r IH]; cbn [dcut]; [reflexivity|]. rewrite H, IH. reflexivity. Qed.
Lemma kids_ext p st k : (forall i, Sh' i p = Sh i p) -> (forall i, Sh' i (p ++ [k]) = Sh i (p ++ [k])) ->
  kids Sh' p st k = kids Sh p st k.
Proof.
  intros H1 H2. unfold kids. rewrite (dcut_ext p st H1). apply filter_ext. intros i. unfold present. rewrite H2. reflexivity.
Qed.
Lemma lstk_ext p : forall st p0, (forall i p', is_prefix p0 p' -> is_prefix p' (p0 ++ p) -> Sh' i p' = Sh i p') ->
  lstk Sh' st p0 p = lstk Sh st p0 p.
Proof.
  induction p as [|k p IH]; intros st p0 H; cbn [lstk]; [reflexivity|].
  rewrite kids_ext.
  - apply IH. intros i p' A B. apply H; [eapply is_prefix_trans; [apply is_prefix_app|exact A]|].
    rewrite <- app_assoc in B. exact B.
  - intros i. apply H; [apply is_prefix_refl|apply is_prefix_app].
  - intros i. apply H; [apply is_prefix_app|]. exists p. rewrite <- app_assoc. reflexivity.
Qed.
Lemma lstack_ext p : (forall i p', is_prefix p' p -> Sh' i p' = Sh i p') -> lstack Sh' nl p = lstack Sh nl p.
Proof. intros H. unfold lstack. apply lstk_ext. intros i p' _ B. apply H. exact B. Qed.

Lemma opq_ok_ext p rs : (forall i, Sh' i p = Sh i p) -> opq_ok Sh p rs -> opq_ok Sh' p rs.
Proof.
  intros H. induction rs as [|r rest IH]; intros Ho; [exact I|]. destruct rest as [|r2 rest]; [exact I|].
  destruct Ho as [A B]. split; [rewrite H; exact A|apply IH; exact B].
Qed.
Lemma NodeOK_ext p n :
  (forall i p', is_prefix p' p -> Sh' i p' = Sh i p') -> (forall i k, Sh' i (p ++ [k]) = Sh i (p ++ [k])) ->
  NodeOK Sh nl p n -> NodeOK Sh' nl p n.
Proof.
  intros H1 H2 N. assert (Hp : forall i, Sh' i p = Sh i p) by (intros i; apply H1; apply is_prefix_refl).
  pose proof (lstack_ext p H1) as HL.
  constructor; rewrite ?HL; try apply N.
  - eapply Forall_impl; [|apply (ok_reals _ _ _ _ N)]. intros r (A & B & C). unfold rgood. rewrite Hp. auto.
  - rewrite !(dcut_ext p _ Hp). apply N.
  - apply opq_ok_ext; [exact Hp|apply N].
  - intros Hl. destruct (ok_ld _ _ _ _ N Hl) as (A & B & C). split; [exact A|]. split; [exact B|].
    intros k. rewrite (kids_ext p _ k Hp (fun i => H2 i k)). apply C.
Qed.
End Transfer.

(* subtrees not comparable with the changed path keep their coherence *)
Lemma CohT_frame Sh Sh' nl q : (forall i p', ~ is_prefix q p' -> Sh' i p' = Sh i p') ->
  forall p n, (forall p', is_prefix p p' -> ~ is_prefix q p') -> (forall p', is_prefix p' p -> ~ is_prefix q p') ->
  CohT Sh nl p n -> CohT Sh' nl p n.
Proof.
  intros Hag p n Hdown Hup HC r m Hm. apply (NodeOK_ext Sh Sh' nl).
  - intros i p' Hpre. apply Hag. destruct Hpre as [r' Hr']. destruct (Nat.le_gt_cases (List.length p') (List.length p)) as [Hle|Hgt].
    + (* p' is a prefix of p or extends it; either way it is on one side of p *)
      intros Hq. 
      assert (Hcmp : is_prefix p' p \/ is_prefix p p').
      { clear -Hr' Hle. revert p Hr' Hle. induction p' as [|a p' IH]; intros p Hr' Hle; [left; exists p; reflexivity|].
        destruct p as [|b p]; [cbn in Hle; lia|]. cbn [app] in Hr'. 
        assert (Hab : a = b).
        { destruct r; cbn in Hr'; inversion Hr'; reflexivity. }
        subst b. destruct (IH p) as [[x Hx]|[x Hx]].
        - destruct r; cbn in Hr'; inversion Hr'; reflexivity.
        - cbn in Hle; lia.
        - left. exists x. cbn. rewrite <- Hx. reflexivity.
        - right. exists x. cbn. rewrite <- Hx. reflexivity. }
      destruct Hcmp as [H|H]; [exact (Hup p' H Hq)|exact (Hdown p' H Hq)].
    + apply Hdown. clear -Hr' Hgt.
      revert p' Hr' Hgt. induction p as [|b p IH]; intros p' Hr' Hgt; [exists p'; reflexivity|].
      destruct p' as [|a p']; [cbn in Hgt; lia|]. cbn [app] in Hr'. inversion Hr'; subst.
      destruct (IH p' H1) as [x Hx]; [cbn in Hgt; lia|]. exists x. cbn. rewrite <- Hx. reflexivity.
  - intros i k. apply Hag. apply Hdown. exists (r ++ [k]). rewrite app_assoc. reflexivity.
  - apply HC. exact Hm.
Qed.

(* ------------------------------------------------------------------ prefixes *)
Lemma is_prefix_len a b : is_prefix a b -> (List.length a <= List.length b)%nat.
Proof. intros [r ->]. rewrite app_length. lia. Qed.
Lemma is_prefix_cons x a y b : is_prefix (x :: a) (y :: b) <-> x = y /\ is_prefix a b.
Proof.
  split.
  - intros [r H]. cbn in H. inversion H; subst. split; [reflexivity|exists r; reflexivity].
  - intros [-> [r ->]]. exists r. reflexivity.
Qed.
Lemma is_prefix_app_l a b c : is_prefix (a ++ b) (a ++ c) <-> is_prefix b c.
Proof.
  induction a as [|x a IH]; cbn [app]; [reflexivity|]. rewrite is_prefix_cons. rewrite IH. tauto.
Qed.
Lemma not_prefix_sibling a x b y d : x <> y -> ~ is_prefix (a ++ x :: b) (a ++ y :: d).
Proof. intros Hn H. apply (proj1 (is_prefix_app_l _ _ _)) in H. apply (proj1 (is_prefix_cons _ _ _ _)) in H. tauto. Qed.
Lemma not_prefix_longer a b : (List.length b < List.length a)%nat -> ~ is_prefix a b.
Proof. intros H Hp. apply is_prefix_len in Hp. lia. Qed.

(* ------------------------------------------------------------------ replacing one child in the cache *)
Definition set_child (nm : name) (c : node) (pn : node) : node :=
  Node (n_reals pn) (n_wh pn) (n_loaded pn) (aset nm c (n_ch pn)).
Definition del_child (nm : name) (pn : node) : node :=
  Node (n_reals pn) (n_wh pn) (n_loaded pn) (adel nm (n_ch pn)).

Section SetEntry.
Variables Sh Sh' : nat -> path -> option shape.
Variable nl : nat.
Variable nm : name.

(* the parent itself: same backing inodes, child [nm] present (set) *)
Lemma parent_set_ok q0 pn cnew :
  (forall i p', ~ is_prefix (q0 ++ [nm]) p' -> Sh' i p' = Sh i p') ->
  NodeOK Sh nl q0 pn -> n_loaded pn = true ->
  kids Sh' q0 (lstack Sh' nl q0) nm <> [] ->
  NodeOK Sh' nl q0 (set_child nm cnew pn).
Proof.
  intros Hag N Hl Hk.
  assert (Hpre : forall i p', is_prefix p' q0 -> Sh' i p' = Sh i p').
  { intros i p' Hp. apply Hag. intros Hq. apply is_prefix_len in Hp. apply is_prefix_len in Hq.
    rewrite app_length in Hq. cbn in Hq. lia. }
  assert (Hp : forall i, Sh' i q0 = Sh i q0) by (intros i; apply Hpre; apply is_prefix_refl).
  pose proof (lstack_ext Sh Sh' nl q0 Hpre) as HL.
  constructor; unfold set_child; cbn [n_reals n_wh n_loaded n_ch]; rewrite ?HL; try apply N.
  - eapply Forall_impl; [|apply (ok_reals _ _ _ _ N)]. intros r (A & B & C). unfold rgood. rewrite Hp. auto.
  - rewrite !(dcut_ext Sh Sh' q0 _ Hp). apply N.
  - apply (opq_ok_ext Sh Sh'); [exact Hp|apply N].
  - rewrite Hl. discriminate.
  - apply keys_aset. apply N.
  - intros _. destruct (ok_ld _ _ _ _ N Hl) as (A & B & C). split; [exact A|]. split; [exact B|].
    intros k. rewrite afind_aset. destruct (String.eqb k nm) eqn:E.
    + apply String.eqb_eq in E; subst k. rewrite <- HL. split; [discriminate|]. intros H. contradiction.
    + rewrite (kids_ext Sh Sh' q0 _ k Hp).
      * apply C.
      * intros i. apply Hag. intros Hq. apply (proj1 (is_prefix_app_l _ _ _)) in Hq. apply (proj1 (is_prefix_cons _ _ _ _)) in Hq.
        destruct Hq as [Hq _]. subst k. rewrite String.eqb_refl in E. discriminate.
Qed.
Lemma parent_del_ok q0 pn :
  (forall i p', ~ is_prefix (q0 ++ [nm]) p' -> Sh' i p' = Sh i p') ->
  NodeOK Sh nl q0 pn -> n_loaded pn = true ->
  kids Sh' q0 (lstack Sh' nl q0) nm = [] ->
  NodeOK Sh' nl q0 (del_child nm pn).
Proof.
  intros Hag N Hl Hk.
  assert (Hpre : forall i p', is_prefix p' q0 -> Sh' i p' = Sh i p').
  { intros i p' Hp. apply Hag. intros Hq. apply is_prefix_len in Hp. apply is_prefix_len in Hq.
    rewrite app_length in Hq. cbn in Hq. lia. }
  assert (Hp : forall i, Sh' i q0 = Sh i q0) by (intros i; apply Hpre; apply is_prefix_refl).
  pose proof (lstack_ext Sh Sh' nl q0 Hpre) as HL.
  constructor; unfold del_child; cbn [n_reals n_wh n_loaded n_ch]; rewrite ?HL; try apply N.
  - eapply Forall_impl; [|apply (ok_reals _ _ _ _ N)]. intros r (A & B & C). unfold rgood. rewrite Hp. auto.
  - rewrite !(dcut_ext Sh Sh' q0 _ Hp). apply N.
  - apply (opq_ok_ext Sh Sh'); [exact Hp|apply N].
  - rewrite Hl. discriminate.
  - pose proof (ok_nodup _ _ _ _ N) as Hn. clear -Hn. induction (n_ch pn) as [|[a x] l IH]; cbn [adel map fst] in *; [constructor|].
    inversion Hn as [|? ? Hnot Hn']; subst. destruct (String.eqb nm a); [auto|]. cbn [map fst]. constructor; [|auto].
    intros Hin. apply Hnot. clear -Hin. induction l as [|[b y] l IHl]; cbn [adel map fst] in *; [exact Hin|].
    destruct (String.eqb nm b); [right; auto|]. cbn [map fst] in Hin. destruct Hin as [H|H]; [left; exact H|right; auto].
  - intros _. destruct (ok_ld _ _ _ _ N Hl) as (A & B & C). split; [exact A|]. split; [exact B|].
    intros k. rewrite afind_adel. destruct (String.eqb k nm) eqn:E.
    + apply String.eqb_eq in E; subst k. rewrite <- HL. split; [intros _; exact Hk|reflexivity].
    + rewrite (kids_ext Sh Sh' q0 _ k Hp).
      * apply C.
      * intros i. apply Hag. intros Hq. apply (proj1 (is_prefix_app_l _ _ _)) in Hq. apply (proj1 (is_prefix_cons _ _ _ _)) in Hq.
        destruct Hq as [Hq _]. subst k. rewrite String.eqb_refl in E. discriminate.
Qed.

(* the whole cache: replace the child [nm] of the node at [pp] *)
Lemma update_child_coh (g : node -> node) pp : forall q0 r pn,
  (forall i p', ~ is_prefix (q0 ++ pp ++ [nm]) p' -> Sh' i p' = Sh i p') ->
  CohT Sh nl q0 r -> nget pp r = Some pn ->
  NodeOK Sh' nl (q0 ++ pp) (g pn) ->
  (forall k c, afind k (n_ch (g pn)) = Some c ->
     (k = nm /\ CohT Sh' nl (q0 ++ pp ++ [nm]) c) \/ (k <> nm /\ afind k (n_ch pn) = Some c)) ->
  CohT Sh' nl q0 (nupd pp g r).
Proof.
  induction pp as [|c pp IH]; intros q0 r pn Hag HC Hget Hpar Hch; cbn [nupd nget] in *.
  - inversion Hget; subst pn. rewrite app_nil_r in Hpar. cbn [app] in *. apply CohT_intro; [exact Hpar|].
    intros k c' Hk. destruct (Hch k c' Hk) as [H1|H1]; destruct H1 as [Hne Hold]; [subst k; exact Hold|].
    apply (CohT_frame Sh Sh' nl (q0 ++ [nm])); [exact Hag| | |eapply CohT_child; eassumption].
    + intros p' [x ->]. rewrite <- app_assoc. cbn [app]. apply not_prefix_sibling. congruence.
    + intros p' Hp Hq. pose proof (is_prefix_trans _ _ _ Hq Hp) as H.
      apply (proj1 (is_prefix_app_l _ _ _)) in H. apply (proj1 (is_prefix_cons _ _ _ _)) in H. destruct H as [H _]. congruence.
  - destruct (afind c (n_ch r)) as [y|] eqn:Ec; [|discriminate].
    assert (Hagq : forall i p', (List.length p' <= S (List.length q0))%nat -> Sh' i p' = Sh i p').
    { intros i p' Hlen. apply Hag. apply not_prefix_longer. rewrite !app_length. cbn [List.length]. rewrite ?app_length. cbn [List.length]. lia. }
    apply CohT_intro.
    + eapply NodeOK_shape; [| | | |apply (NodeOK_ext Sh Sh' nl q0 r); [| |apply (CohT_node _ _ _ _ HC)]];
        cbn [n_reals n_wh n_loaded n_ch]; try reflexivity.
      * apply keys_amap.
      * intros i p' Hp. apply Hagq. apply is_prefix_len in Hp. lia.
      * intros i k. apply Hagq. rewrite app_length. cbn. lia.
    + intros k c' Hk. cbn [n_ch] in Hk. destruct (String.eqb c k) eqn:E.
      * apply String.eqb_eq in E; subst k. rewrite afind_amap, Ec in Hk. cbn [option_map] in Hk. inversion Hk; subst c'.
        apply (IH (q0 ++ [c]) y pn).
        -- intros i p' Hn. apply Hag. rewrite <- app_assoc in Hn. exact Hn.
        -- eapply CohT_child; eassumption.
        -- exact Hget.
        -- rewrite <- app_assoc. exact Hpar.
        -- intros k c0 Hk0. destruct (Hch k c0 Hk0) as [H|H]; [left|right; exact H]. destruct H as [H1 H2].
           split; [exact H1|]. rewrite <- app_assoc. exact H2.
      * rewrite (afind_amap_other _ _ _ _ E) in Hk.
        apply (CohT_frame Sh Sh' nl (q0 ++ (c :: pp) ++ [nm])); [exact Hag| | |eapply CohT_child; eassumption].
        -- intros p' [x ->]. rewrite <- !app_assoc. cbn [app]. apply not_prefix_sibling.
           intros ->. rewrite String.eqb_refl in E. discriminate.
        -- intros p' Hp. apply not_prefix_longer. apply is_prefix_len in Hp. rewrite !app_length in *. cbn [List.length] in *.
           rewrite ?app_length. cbn [List.length]. lia.
Qed.
End SetEntry.

(* ------------------------------------------------------------------ candidate lists are increasing: layer 0 can only be first *)
Section Sorted.
Variable Sh : nat -> path -> option shape.
Variable nl : nat.
Definition incr (l : list nat) : Prop := StronglySorted lt l.
Lemma incr_dcut p st : incr st -> incr (dcut Sh p st) /\ (forall i, In i (dcut Sh p st) -> In i st).
Proof.
  induction st as [|i r IH]; intros H; cbn [dcut]; [split; [constructor|auto]|].
  inversion H as [|? ? Hr Hall]; subst. destruct (IH Hr) as [A B].
  destruct (Sh i p) as [[o|w]|].
  - destruct o.
    + split; [constructor; [constructor|constructor]|]. intros j [->|[]]. left; reflexivity.
    + split.
      * constructor; [exact A|]. rewrite Forall_forall in *. intros j Hj. apply Hall. apply B. exact Hj.
      * intros j [->|Hj]; [left; reflexivity|right; apply B; exact Hj].
  - split; [constructor|intros j []].
  - split; [constructor|intros j []].
Qed.
Lemma incr_filter f l : incr l -> incr (filter f l).
Proof.
  induction 1 as [|i r Hr IH Hall]; cbn [filter]; [constructor|]. destruct (f i); [|exact IH].
  constructor; [exact IH|]. rewrite Forall_forall in *. intros j Hj. apply Hall. apply filter_In in Hj. tauto.
Qed.
Lemma incr_kids p st k : incr st -> incr (kids Sh p st k).
Proof. intros H. unfold kids. apply incr_filter. apply incr_dcut. exact H. Qed.
Lemma incr_lstk p : forall st p0, incr st -> incr (lstk Sh st p0 p).
Proof. induction p as [|k p IH]; intros st p0 H; cbn [lstk]; [exact H|]. apply IH. apply incr_kids. exact H. Qed.
Lemma incr_seq a n : incr (seq a n).
Proof.
  revert a. induction n as [|n IH]; intros a; cbn [seq]; constructor; [apply IH|].
  apply Forall_forall. intros j Hj. apply in_seq in Hj. lia.
Qed.
Lemma incr_lstack p : incr (lstack Sh nl p).
Proof. apply incr_lstk. apply incr_seq. Qed.
Lemma incr_zero_head l : incr l -> In 0%nat l -> exists r, l = 0%nat :: r.
Proof.
  intros H Hin. destruct l as [|i r]; [destruct Hin|]. inversion H as [|? ? _ Hall]; subst.
  destruct Hin as [->|Hin]; [eauto|]. rewrite Forall_forall in Hall. specialize (Hall 0%nat Hin). lia.
Qed.
End Sorted.

(* ------------------------------------------------------------------ the invariant at a node, from the candidate list and the shapes at the node *)
Lemma NodeOK_ext2 Sh Sh' nl p n :
  lstack Sh' nl p = lstack Sh nl p -> (forall i, Sh' i p = Sh i p) ->
  (forall i k, Sh' i (p ++ [k]) = Sh i (p ++ [k])) -> NodeOK Sh nl p n -> NodeOK Sh' nl p n.
Proof.
  intros HL Hp H2 N.
  constructor; rewrite ?HL; try apply N.
  - eapply Forall_impl; [|apply (ok_reals _ _ _ _ N)]. intros r (A & B & C). unfold rgood. rewrite Hp. auto.
  - rewrite !(dcut_ext Sh Sh' p _ Hp). apply N.
  - apply (opq_ok_ext Sh Sh'); [exact Hp|apply N].
  - intros Hl. destruct (ok_ld _ _ _ _ N Hl) as (A & B & C). split; [exact A|]. split; [exact B|].
    intros k. rewrite (kids_ext Sh Sh' p _ k Hp (fun i => H2 i k)). apply C.
Qed.
Lemma lstk_app S a : forall st p0 b, lstk S st p0 (a ++ b) = lstk S (lstk S st p0 a) (p0 ++ a) b.
Proof.
  induction a as [|x a IH]; intros st p0 b; cbn [app lstk]; [rewrite app_nil_r; reflexivity|].
  rewrite IH. rewrite <- app_assoc. reflexivity.
Qed.
(* below a path q whose candidate lists for the children did not change *)
Lemma CohT_below Sh Sh' nl q :
  (forall i r, r <> [] -> Sh' i (q ++ r) = Sh i (q ++ r)) ->
  (forall k, kids Sh' q (lstack Sh' nl q) k = kids Sh q (lstack Sh nl q) k) ->
  forall k c, CohT Sh nl (q ++ [k]) c -> CohT Sh' nl (q ++ [k]) c.
Proof.
  intros Hag Hk k c HC r m Hm. apply (NodeOK_ext2 Sh Sh' nl); [| | |apply HC; exact Hm].
  - unfold lstack. rewrite (lstk_app Sh' (q ++ [k])), (lstk_app Sh (q ++ [k])). cbn [app].
    fold (lstack Sh' nl (q ++ [k])). fold (lstack Sh nl (q ++ [k])). rewrite !lstack_snoc, Hk.
    apply lstk_ext. intros i p' [x Hx] _. subst p'. rewrite <- app_assoc. apply Hag. destruct x; discriminate.
  - intros i. rewrite <- app_assoc. apply Hag. discriminate.
  - intros i k'. rewrite <- !app_assoc. apply Hag. discriminate.
Qed.

(* ------------------------------------------------------------------ shapes of the upper tree after changing one child of one directory *)
Fixpoint strip (a b : path) : option path :=
  match a, b with
  | [], _ => Some b
  | x :: a', y :: b' => if String.eqb x y then strip a' b' else None
  | _ :: _, [] => None
  end.
Lemma strip_some a : forall b r, strip a b = Some r -> b = a ++ r.
Proof.
  induction a as [|x a IH]; intros b r H; cbn [strip] in H; [inversion H; reflexivity|].
  destruct b as [|y b]; [discriminate|]. destruct (String.eqb x y) eqn:E; [|discriminate].
  apply String.eqb_eq in E; subst y. cbn. f_equal. apply IH. exact H.
Qed.
Lemma strip_app a r : strip a (a ++ r) = Some r.
Proof. induction a as [|x a IH]; cbn [strip app]; [reflexivity|]. rewrite String.eqb_refl. exact IH. Qed.
Lemma strip_none a b : strip a b = None -> ~ is_prefix a b.
Proof. intros H [r ->]. rewrite strip_app in H. discriminate. Qed.

Lemma tget_app_gen pp : forall U d r, tget U pp = Some d -> tget U (pp ++ r) = tget d r.
Proof.
  induction pp as [|c pp IH]; intros U d r H; cbn [tget app] in *; [inversion H; reflexivity|].
  destruct U; try discriminate. destruct (afind c ch) as [y|]; [|discriminate]. apply IH. exact H.
Qed.
Lemma sh_tupd pp g : (forall d, sh (g d) = sh d) -> forall U d, tget U pp = Some d -> forall p,
  option_map sh (tget (tupd pp g U) p) =
  match strip pp p with Some r => option_map sh (tget (g d) r) | None => option_map sh (tget U p) end.
Proof.
  intros Hg. induction pp as [|c pp IH]; intros U d H p; cbn [tget tupd strip] in *.
  - inversion H; subst. reflexivity.
  - destruct U as [m x ch| | |]; try discriminate. destruct (afind c ch) as [y|] eqn:Ec; [|discriminate].
    destruct p as [|k p]; [reflexivity|]. cbn [tget].
    destruct (String.eqb c k) eqn:E.
    + apply String.eqb_eq in E; subst k. rewrite afind_amap, Ec. cbn [option_map]. apply IH. exact H.
    + rewrite (afind_amap_other _ _ _ _ E). reflexivity.
Qed.

Definition chmap (G : list (name * tree) -> list (name * tree)) (d : tree) : tree :=
  match d with Dir m x ch => Dir m x (G ch) | _ => d end.
Lemma sh_chmap G d : sh (chmap G d) = sh d.
Proof. destruct d; reflexivity. Qed.

Lemma upper_update_shape s s' U (pp : path) (nm : name) G cn m x ch :
  upper s = Some U -> upper s' = Some (tupd pp (chmap G) U) -> lowers s' = lowers s ->
  tget U pp = Some (Dir m x ch) ->
  (forall k, k <> nm -> afind k (G ch) = afind k ch) -> afind nm (G ch) = cn ->
  (forall i p', ~ is_prefix (pp ++ [nm]) p' -> shp s' i p' = shp s i p') /\
  (forall r, shp s' 0%nat (pp ++ nm :: r) = option_map sh (match cn with Some c => tget c r | None => None end)) /\
  (forall j p', shp s' (S j) p' = shp s (S j) p').
Proof.
  intros Hu Hu' Hl Hd HG Hnm.
  assert (Hlow : forall j p', shp s' (S j) p' = shp s (S j) p').
  { intros j p'. unfold shp, ent. cbn [get_layer]. rewrite Hl. reflexivity. }
  assert (H0 : forall p, shp s' 0%nat p = option_map sh (tget (tupd pp (chmap G) U) p)).
  { intros p. unfold shp, ent. cbn [get_layer]. rewrite Hu'. reflexivity. }
  assert (H0s : forall p, shp s 0%nat p = option_map sh (tget U p)).
  { intros p. unfold shp, ent. cbn [get_layer]. rewrite Hu. reflexivity. }
  split.
  - intros i p' Hn. destruct i as [|j].
    + rewrite H0, H0s, (sh_tupd pp (chmap G) (sh_chmap G) U _ Hd).
      destruct (strip pp p') as [r|] eqn:Es; [|reflexivity]. apply strip_some in Es. subst p'.
      rewrite (tget_app_gen pp U _ r Hd). destruct r as [|k r]; [cbn; reflexivity|].
      cbn [chmap tget]. destruct (String.eqb k nm) eqn:E.
      * apply String.eqb_eq in E; subst k. exfalso. apply Hn. exists r. rewrite <- app_assoc. reflexivity.
      * apply String.eqb_neq in E. rewrite (HG k E). reflexivity.
    + apply Hlow.
  - split; [|exact Hlow]. intros r. rewrite H0, (sh_tupd pp (chmap G) (sh_chmap G) U _ Hd), strip_app. cbn [chmap tget]. rewrite Hnm.
    destruct cn; reflexivity.
Qed.

(* ------------------------------------------------------------------ candidates of a child whose upper entry is (re)placed *)
Section UpperChild.
Variables Sh Sh' : nat -> path -> option shape.
Variable nl : nat.
Variables (pp : path) (nm : name).
Let q := pp ++ [nm].
Hypothesis Hag : forall i p', ~ is_prefix q p' -> Sh' i p' = Sh i p'.
Hypothesis Hlow : forall j p', Sh' (S j) p' = Sh (S j) p'.

Lemma ag_prefix i p' : is_prefix p' pp -> Sh' i p' = Sh i p'.
Proof using All.
  intros Hp. apply Hag. intros Hq. apply is_prefix_len in Hp. apply is_prefix_len in Hq.
  unfold q in Hq. rewrite app_length in Hq. cbn in Hq. lia.
Qed.
Lemma lstack_pp : lstack Sh' nl pp = lstack Sh nl pp.
Proof using All. apply lstack_ext. intros i p' Hp. apply ag_prefix. exact Hp. Qed.

Lemma dcut_on p st : (forall i, In i st -> Sh' i p = Sh i p) -> dcut Sh' p st = dcut Sh p st.
Proof using All.
  induction st as [|i r IH]; intros H; cbn [dcut]; [reflexivity|].
  rewrite (H i (or_introl eq_refl)), IH; [reflexivity|]. intros j Hj. apply H. right; exact Hj.
Qed.
Lemma nozero_agree p st : ~ In 0%nat st -> forall i, In i st -> Sh' i p = Sh i p.
Proof using All. intros Hn i Hi. destruct i as [|j]; [contradiction|apply Hlow]. Qed.
Lemma filter_on (f g : nat -> bool) st : (forall i, In i st -> f i = g i) -> filter f st = filter g st.
Proof using All.
  induction st as [|i r IH]; intros H; cbn [filter]; [reflexivity|].
  rewrite (H i (or_introl eq_refl)), IH; [reflexivity|]. intros j Hj. apply H. right; exact Hj.
Qed.

(* the parent is backed by the upper layer *)
Definition lowerc (rest : list nat) : list nat := filter (present Sh q) (tl (dcut Sh pp (0%nat :: rest))).
Lemma rest_nozero rest o : lstack Sh nl pp = 0%nat :: rest -> Sh 0%nat pp = Some (SDir o) ->
  ~ In 0%nat (tl (dcut Sh pp (0%nat :: rest))).
Proof using All.
  intros Hst Hpd. pose proof (incr_lstack Sh nl pp) as Hi. rewrite Hst in Hi.
  destruct (incr_dcut Sh pp _ Hi) as [A _]. cbn [dcut] in *. rewrite Hpd in *. destruct o; cbn [tl]; [intros []|].
  inversion A as [|? ? _ Hall]; subst. rewrite Forall_forall in Hall. intros H0. specialize (Hall _ H0). lia.
Qed.
Lemma lowerc_nozero rest o : lstack Sh nl pp = 0%nat :: rest -> Sh 0%nat pp = Some (SDir o) -> ~ In 0%nat (lowerc rest).
Proof using All.
  intros Hst Hpd. unfold lowerc. intros H. apply filter_In in H. destruct H as [H _]. exact (rest_nozero rest o Hst Hpd H).
Qed.
Lemma kids_old rest o : lstack Sh nl pp = 0%nat :: rest -> Sh 0%nat pp = Some (SDir o) ->
  kids Sh pp (lstack Sh nl pp) nm = (if present Sh q 0%nat then [0%nat] else []) ++ lowerc rest.
Proof using All.
  intros Hst Hpd. unfold kids, lowerc. rewrite Hst. cbn [dcut]. rewrite Hpd. fold q.
  destruct o; cbn [filter tl]; destruct (present Sh q 0%nat); reflexivity.
Qed.
Lemma kids_new rest o : lstack Sh nl pp = 0%nat :: rest -> Sh 0%nat pp = Some (SDir o) ->
  kids Sh' pp (lstack Sh' nl pp) nm = (if present Sh' q 0%nat then [0%nat] else []) ++ lowerc rest.
Proof using All.
  intros Hst Hpd. unfold kids. rewrite lstack_pp, Hst.
  rewrite (dcut_ext Sh Sh' pp _ (fun i => ag_prefix i pp (is_prefix_refl pp))).
  unfold lowerc. cbn [dcut]. rewrite Hpd. fold q.
  destruct o; cbn [filter tl].
  - destruct (present Sh' q 0%nat); reflexivity.
  - assert (E : filter (present Sh' q) (dcut Sh pp rest) = filter (present Sh q) (dcut Sh pp rest)).
    { apply filter_on. intros i Hi. unfold present. rewrite (nozero_agree q (dcut Sh pp rest)); [reflexivity| |exact Hi].
      pose proof (rest_nozero rest false Hst Hpd) as R. cbn [dcut tl] in R. rewrite Hpd in R. exact R. }
    rewrite E. destruct (present Sh' q 0%nat); reflexivity.
Qed.
Lemma lstack_q_old rest o : lstack Sh nl pp = 0%nat :: rest -> Sh 0%nat pp = Some (SDir o) ->
  lstack Sh nl q = (if present Sh q 0%nat then [0%nat] else []) ++ lowerc rest.
Proof using All. intros Hst Hpd. unfold q. rewrite lstack_snoc. apply (kids_old rest o Hst Hpd). Qed.
Lemma lstack_q_new rest o : lstack Sh nl pp = 0%nat :: rest -> Sh 0%nat pp = Some (SDir o) ->
  lstack Sh' nl q = (if present Sh' q 0%nat then [0%nat] else []) ++ lowerc rest.
Proof using All. intros Hst Hpd. unfold q. rewrite lstack_snoc. apply (kids_new rest o Hst Hpd). Qed.

(* a node whose single backing inode is the new upper entry *)
Lemma leaf_node_ok rest o ri : lstack Sh nl pp = 0%nat :: rest -> Sh 0%nat pp = Some (SDir o) ->
  rgood Sh' q ri -> r_layer ri = 0%nat ->
  (dcut Sh' q [0%nat] = dcut Sh' q (0%nat :: lowerc rest)) ->
  NodeOK Sh' nl q (Node [ri] (r_wh ri) false []).
Proof using All.
  intros Hst Hpd Hg Hl Hc.
  assert (Hp : present Sh' q 0%nat = true).
  { destruct Hg as (_ & _ & Hs). rewrite Hl in Hs. unfold present. destruct (Sh' 0%nat q); [reflexivity|contradiction]. }
  constructor; cbn [n_reals n_wh n_loaded n_ch first_wh map]; rewrite ?Hl, ?(lstack_q_new rest o Hst Hpd), ?Hp; cbn [app hd_error].
  - constructor; [exact Hg|constructor].
  - discriminate.
  - reflexivity.
  - exact Hc.
  - exact I.
  - reflexivity.
  - reflexivity.
  - constructor.
  - discriminate.
Qed.
End UpperChild.

(* the parent after any change of its child [nm] *)
Lemma parent_upd_ok Sh Sh' nl nm q0 pn ch' :
  (forall i p', ~ is_prefix (q0 ++ [nm]) p' -> Sh' i p' = Sh i p') ->
  NodeOK Sh nl q0 pn -> n_loaded pn = true -> NoDup (map fst ch') ->
  (forall k, k <> nm -> (afind k ch' = None <-> afind k (n_ch pn) = None)) ->
  (afind nm ch' = None <-> kids Sh' q0 (lstack Sh' nl q0) nm = []) ->
  NodeOK Sh' nl q0 (Node (n_reals pn) (n_wh pn) (n_loaded pn) ch').
Proof.
  intros Hag N Hl Hnd Hoth Hnm.
  assert (Hpre : forall i p', is_prefix p' q0 -> Sh' i p' = Sh i p').
  { intros i p' Hp. apply Hag. intros Hq. apply is_prefix_len in Hp. apply is_prefix_len in Hq.
    rewrite app_length in Hq. cbn in Hq. lia. }
  assert (Hp : forall i, Sh' i q0 = Sh i q0) by (intros i; apply Hpre; apply is_prefix_refl).
  pose proof (lstack_ext Sh Sh' nl q0 Hpre) as HL.
  constructor; cbn [n_reals n_wh n_loaded n_ch]; rewrite ?HL; try apply N.
  - eapply Forall_impl; [|apply (ok_reals _ _ _ _ N)]. intros r (A & B & C). unfold rgood. rewrite Hp. auto.
  - rewrite !(dcut_ext Sh Sh' q0 _ Hp). apply N.
  - apply (opq_ok_ext Sh Sh'); [exact Hp|apply N].
  - rewrite Hl. discriminate.
  - exact Hnd.
  - intros _. destruct (ok_ld _ _ _ _ N Hl) as (A & B & C). split; [exact A|]. split; [exact B|].
    intros k. destruct (String.eqb k nm) eqn:E.
    + apply String.eqb_eq in E; subst k. rewrite <- HL. exact Hnm.
    + apply String.eqb_neq in E. rewrite (Hoth k E). rewrite (kids_ext Sh Sh' q0 _ k Hp).
      * apply C.
      * intros i. apply Hag. intros Hq. apply (proj1 (is_prefix_app_l _ _ _)) in Hq. apply (proj1 (is_prefix_cons _ _ _ _)) in Hq.
        destruct Hq as [Hq _]. congruence.
Qed.

(* ------------------------------------------------------------------ layers stay well formed *)
Lemma wf_tupd pp g : (forall d, wf d -> wf (g d)) -> forall U, wf U -> wf (tupd pp g U).
Proof.
  intros Hg. induction pp as [|c pp IH]; intros U HU; cbn [tupd]; [auto|].
  destruct U; try exact HU. inversion HU as [? ? ? Hn Hall| | |]; subst.
  constructor; [rewrite keys_amap; exact Hn|].
  unfold amap. clear Hn HU. induction Hall as [|kv l H1 H2 IHl]; cbn [map]; constructor; auto.
  match goal with |- context [if ?b then _ else _] => destruct b end; cbn [snd]; auto.
Qed.
Lemma dir_tupd pp g : (forall d, is_dirT d = true -> is_dirT (g d) = true) -> forall U, is_dirT U = true -> is_dirT (tupd pp g U) = true.
Proof. intros Hg. destruct pp; intros U HU; cbn [tupd]; [auto|]. destruct U; try discriminate. reflexivity. Qed.
Lemma wf_chmap_aset nm c d : wf d -> wf c -> wf (chmap (aset nm c) d).
Proof.
  intros Hd Hc. destruct d; cbn [chmap]; try exact Hd. inversion Hd as [? ? ? Hn Hall| | |]; subst.
  constructor; [apply keys_aset; exact Hn|]. apply Forall_aset; assumption.
Qed.
Lemma keys_adel_nodup {A} nm (l : list (string * A)) : NoDup (map fst l) -> NoDup (map fst (adel nm l)).
Proof.
  intros Hn. induction l as [|[a x] l IH]; cbn [adel map fst] in *; [constructor|].
  inversion Hn as [|? ? Hnot Hn']; subst. destruct (String.eqb nm a); [auto|]. cbn [map fst]. constructor; [|auto].
  intros Hin. apply Hnot. clear -Hin. induction l as [|[b y] l IHl]; cbn [adel map fst] in *; [exact Hin|].
  destruct (String.eqb nm b); [right; auto|]. cbn [map fst] in Hin. destruct Hin as [H|H]; [left; exact H|right; auto].
Qed.
Lemma wf_chmap_adel nm d : wf d -> wf (chmap (adel nm) d).
Proof.
  intros Hd. destruct d; cbn [chmap]; try exact Hd. inversion Hd as [? ? ? Hn Hall| | |]; subst.
  constructor; [apply keys_adel_nodup; exact Hn|]. apply Forall_adel. exact Hall.
Qed.
Lemma layer_ok_tupd pp g U : (forall d, wf d -> wf (g d)) -> (forall d, is_dirT d = true -> is_dirT (g d) = true) ->
  layer_ok U -> layer_ok (tupd pp g U).
Proof. intros H1 H2 [A B]. split; [apply wf_tupd; assumption|apply dir_tupd; assumption]. Qed.
Lemma wf_layers_set_upper s s' U' : wf_layers s -> upper s' = Some U' -> lowers s' = lowers s -> layer_ok U' -> wf_layers s'.
Proof.
  intros Hw Hu Hl HU i t Hg. destruct i as [|j]; cbn [get_layer] in Hg.
  - rewrite Hu in Hg. inversion Hg; subst. exact HU.
  - rewrite Hl in Hg. apply (Hw (S j) t). exact Hg.
Qed.

(* ------------------------------------------------------------------ block: the upper entry pp/nm becomes the leaf c
   (file, symlink, whiteout, empty directory) and the cache child becomes a node backed by it alone *)
Lemma sh_dir_of_tget s U pp m x ch : upper s = Some U -> tget U pp = Some (Dir m x ch) ->
  shp s 0%nat pp = Some (SDir (xs_opaque x)).
Proof. intros Hu Ht. unfold shp, ent. cbn [get_layer]. rewrite Hu, Ht. reflexivity. Qed.

Lemma leaf_block s s' U (pp : path) (nm : name) G c pn rest m x ch ri :
  Coherent s ->
  upper s = Some U -> tget U pp = Some (Dir m x ch) ->
  (forall k, k <> nm -> afind k (G ch) = afind k ch) -> afind nm (G ch) = Some c ->
  (forall k r, tget c (k :: r) = None) ->
  upper s' = Some (tupd pp (chmap G) U) -> lowers s' = lowers s -> wf_layers s' ->
  nget pp (root s) = Some pn -> n_loaded pn = true ->
  lstack (shp s) (List.length (lowers s)) pp = 0%nat :: rest ->
  (r_layer ri = 0%nat /\ r_upper ri = true /\ r_path ri = pp ++ [nm] /\ r_wh ri = is_whT c /\ r_dir ri = is_dirT c /\
   (r_opq ri = true -> is_opaqueT c = true)) ->
  (is_dirT c = false \/ is_opaqueT c = true \/ lowerc (shp s) pp nm rest = []) ->
  (exists g, root s' = nupd pp g (root s) /\ n_reals (g pn) = n_reals pn /\ n_wh (g pn) = n_wh pn /\
      n_loaded (g pn) = n_loaded pn /\ NoDup (map fst (n_ch (g pn))) /\
      afind nm (n_ch (g pn)) = Some (Node [ri] (r_wh ri) false []) /\
      (forall k, k <> nm -> afind k (n_ch (g pn)) = afind k (n_ch pn))) ->
  Coherent s'.
Proof.
  intros (Hu0 & Hw & HC) Hu Hd HG Hnm Hleaf Hu' Hl Hw' Hget Hld Hst (R1 & R2 & R3 & R4 & R5 & R6) Hcut (g & Hroot & G1 & G2 & G3 & G4 & G5 & G6).
  destruct (upper_update_shape s s' U pp nm G (Some c) m x ch Hu Hu' Hl Hd HG Hnm) as (Hag & Hat & Hlow).
  pose proof (sh_dir_of_tget s U pp m x ch Hu Hd) as Hpd.
  set (Sh := shp s) in *. set (Sh' := shp s') in *. set (nl := List.length (lowers s)) in *.
  assert (Hq : Sh' 0%nat (pp ++ [nm]) = Some (sh c)) by (rewrite (Hat []); reflexivity).
  assert (Hpres : present Sh' (pp ++ [nm]) 0%nat = true) by (unfold present; rewrite Hq; reflexivity).
  split; [eauto|]. split; [exact Hw'|]. rewrite Hl, Hroot. fold nl.
  apply (update_child_coh Sh Sh' nl nm g pp [] (root s) pn); cbn [app]; [exact Hag|exact HC|exact Hget| |].
  - (* the parent *)
    destruct (g pn) as [rs' w' l' ch'] eqn:Eg. cbn [n_reals n_wh n_loaded n_ch] in *. subst rs' w' l'.
    apply (parent_upd_ok Sh Sh' nl nm pp pn ch').
    + exact Hag.
    + exact (HC pp pn Hget).
    + exact Hld.
    + exact G4.
    + intros k Hk. rewrite (G6 k Hk). reflexivity.
    + rewrite G5, (kids_new Sh Sh' nl pp nm Hag Hlow rest _ Hst Hpd). unfold path, name in *. rewrite Hpres. cbn [app]. split; discriminate.
  - (* the children *)
    intros k c0 Hk. destruct (String.eqb k nm) eqn:E.
    + apply String.eqb_eq in E; subst k. left. split; [reflexivity|]. rewrite G5 in Hk. inversion Hk; subst c0.
      apply CohT_intro; [|intros k' c' H'; discriminate].
      apply (leaf_node_ok Sh Sh' nl pp nm Hag Hlow rest _ ri Hst Hpd); auto.
      * unfold rgood. unfold path, name in *. rewrite R1, R2, R3, Hq. split; [reflexivity|]. split; [reflexivity|].
        destruct c; cbn [sh is_whT is_dirT is_opaqueT] in *; repeat split; auto.
        -- destruct (r_opq ri); [specialize (R6 eq_refl); discriminate|reflexivity].
        -- destruct (r_opq ri); [specialize (R6 eq_refl); discriminate|reflexivity].
        -- destruct (r_opq ri); [specialize (R6 eq_refl); discriminate|reflexivity].
      * cbn [dcut]. unfold path, name in *. rewrite Hq. destruct c as [mc xc cc| | |]; cbn [sh]; try reflexivity.
        destruct (xs_opaque xc) eqn:Eo; [reflexivity|].
        destruct Hcut as [H|[H|H]]; [discriminate|cbn in H; congruence|]. rewrite H. reflexivity.
    + right. apply String.eqb_neq in E. split; [exact E|]. rewrite <- (G6 k E). exact Hk.
Qed.

(* ------------------------------------------------------------------ block: a lower-only directory gets an (empty) upper directory *)
Lemma tget_none_app t : forall p r, tget t p = None -> tget t (p ++ r) = None.
Proof.
  intros p; revert t. induction p as [|k p IH]; intros t r H; cbn [tget app] in *; [discriminate|].
  destruct t; try reflexivity. destruct (afind k ch); [apply IH; exact H|reflexivity].
Qed.
Lemma nupd_app pp nm f : forall r,
  nupd (pp ++ [nm]) f r = nupd pp (fun pn => Node (n_reals pn) (n_wh pn) (n_loaded pn) (amap nm f (n_ch pn))) r.
Proof.
  induction pp as [|c pp IH]; intros r; cbn [app nupd]; [reflexivity|].
  f_equal. unfold amap. apply map_ext. intros kv. destruct (String.eqb c (fst kv)); [rewrite IH|]; reflexivity.
Qed.
Lemma rgood_on Sh Sh' p r : Sh' (r_layer r) p = Sh (r_layer r) p -> rgood Sh p r -> rgood Sh' p r.
Proof. intros H (A & B & C). unfold rgood. rewrite H. auto. Qed.
Lemma opq_ok_on Sh Sh' p rs : (forall r, In r rs -> Sh' (r_layer r) p = Sh (r_layer r) p) -> opq_ok Sh p rs -> opq_ok Sh' p rs.
Proof.
  induction rs as [|r rest IH]; intros H Ho; [exact I|]. destruct rest as [|r2 rest]; [exact I|].
  destruct Ho as [A B]. split; [rewrite (H r (or_introl eq_refl)); exact A|].
  apply IH; [|exact B]. intros r' Hr'. apply H. right; exact Hr'.
Qed.

Lemma dirup_block s s' U (pp : path) (nm : name) md pn n_old rest m x ch :
  Coherent s ->
  upper s = Some U -> tget U pp = Some (Dir m x ch) -> afind nm ch = None ->
  upper s' = Some (tupd pp (chmap (aset nm (Dir md [] []))) U) -> lowers s' = lowers s ->
  nget pp (root s) = Some pn -> n_loaded pn = true -> afind nm (n_ch pn) = Some n_old ->
  lstack (shp s) (List.length (lowers s)) pp = 0%nat :: rest ->
  root s' = nupd (pp ++ [nm]) (add_upper (mkReal 0 true (pp ++ [nm]) false false true) false) (root s) ->
  Coherent s'.
Proof.
  intros (Hu0 & Hw & HC) Hu Hd Hnone Hu' Hl Hget Hld Hold Hst Hroot.
  set (c := Dir md [] []). set (ri := mkReal 0 true (pp ++ [nm]) false false true) in *.
  assert (HG : forall k, k <> nm -> afind k (aset nm c ch) = afind k ch).
  { intros k Hk. rewrite afind_aset. apply String.eqb_neq in Hk. rewrite Hk. reflexivity. }
  assert (Hnm : afind nm (aset nm c ch) = Some c) by (rewrite afind_aset, String.eqb_refl; reflexivity).
  destruct (upper_update_shape s s' U pp nm (aset nm c) (Some c) m x ch Hu Hu' Hl Hd HG Hnm) as (Hag & Hat & Hlow).
  pose proof (sh_dir_of_tget s U pp m x ch Hu Hd) as Hpd.
  assert (Hw' : wf_layers s').
  { apply (wf_layers_set_upper s s' _ Hw Hu' Hl). apply layer_ok_tupd.
    - intros d Hdw. apply wf_chmap_aset; [exact Hdw|]. constructor; constructor.
    - intros d Hdd. destruct d; try discriminate. reflexivity.
    - apply (Hw 0%nat U). cbn. exact Hu. }
  set (Sh := shp s) in *. set (Sh' := shp s') in *. set (nl := List.length (lowers s)) in *.
  set (q := pp ++ [nm]) in *.
  assert (Hq' : Sh' 0%nat q = Some (SDir false)) by (unfold q; rewrite (Hat []); reflexivity).
  assert (Hq : Sh 0%nat q = None).
  { unfold Sh, shp, ent, q. cbn [get_layer]. rewrite Hu, (tget_app U pp nm), Hd, Hnone. reflexivity. }
  assert (Hbelow0 : forall r, r <> [] -> Sh' 0%nat (q ++ r) = Sh 0%nat (q ++ r)).
  { intros r Hr. destruct r as [|k r]; [contradiction|]. unfold q. rewrite <- app_assoc. cbn [app]. rewrite (Hat (k :: r)). cbn.
    unfold Sh, shp, ent. cbn [get_layer]. rewrite Hu.
    change (pp ++ nm :: k :: r) with (pp ++ [nm] ++ k :: r). rewrite app_assoc.
    rewrite (tget_none_app U (pp ++ [nm]) (k :: r)); [reflexivity|]. rewrite (tget_app U pp nm), Hd. exact Hnone. }
  assert (Hpres' : present Sh' q 0%nat = true) by (unfold present; rewrite Hq'; reflexivity).
  assert (Hpres : present Sh q 0%nat = false) by (unfold present; rewrite Hq; reflexivity).
  pose proof (lstack_q_old Sh Sh' nl pp nm Hag Hlow rest _ Hst Hpd) as Lold. fold q in Lold. rewrite Hpres in Lold. cbn [app] in Lold.
  pose proof (lstack_q_new Sh Sh' nl pp nm Hag Hlow rest _ Hst Hpd) as Lnew. fold q in Lnew. rewrite Hpres' in Lnew. cbn [app] in Lnew.
  pose proof (lowerc_nozero Sh Sh' nl pp nm Hag Hlow rest _ Hst Hpd) as Lnz.
  set (L := lowerc Sh pp nm rest) in *.
  assert (HdL : dcut Sh' q L = dcut Sh q L) by (apply (dcut_on Sh Sh' nl pp nm Hag Hlow); apply (nozero_agree Sh Sh' nl pp nm Hag Hlow); exact Lnz).
  assert (Hkids : forall k, kids Sh' q (lstack Sh' nl q) k = kids Sh q (lstack Sh nl q) k).
  { intros k. unfold kids. rewrite Lnew, Lold. cbn [dcut]. rewrite Hq', HdL. cbn [filter].
    assert (E0 : present Sh' (q ++ [k]) 0%nat = false).
    { unfold present. rewrite (Hbelow0 [k]); [|discriminate]. unfold Sh, shp, ent. cbn [get_layer]. rewrite Hu.
      unfold q. rewrite (tget_none_app U (pp ++ [nm]) [k]); [reflexivity|]. rewrite (tget_app U pp nm), Hd. exact Hnone. }
    rewrite E0. apply (filter_on Sh Sh' nl pp nm Hag Hlow). intros i Hi. unfold present.
    destruct i as [|j]; [|rewrite Hlow; reflexivity]. exfalso. apply Lnz.
    destruct (incr_dcut Sh q L) as [_ B]; [|apply B; exact Hi].
    rewrite <- Lold. apply incr_lstack. }
  pose proof (HC pp pn Hget) as Npn.
  assert (Nold : NodeOK Sh nl q n_old).
  { apply (HC q n_old). unfold q. clear -Hget Hold. revert Hget. generalize (root s). induction pp as [|a pp IH]; intros r Hg; cbn [nget app] in *.
    - inversion Hg; subst. rewrite Hold. reflexivity.
    - destruct (afind a (n_ch r)); [apply IH; exact Hg|discriminate]. }
  assert (Hnz : forall r, In r (n_reals n_old) -> Sh' (r_layer r) q = Sh (r_layer r) q).
  { intros r Hr. pose proof (ok_reals _ _ _ _ Nold) as Hg. rewrite Forall_forall in Hg. destruct (Hg r Hr) as (_ & _ & Hs).
    destruct (r_layer r) as [|j]; [rewrite Hq in Hs; contradiction|apply Hlow]. }
  split; [eauto|]. split; [exact Hw'|]. rewrite Hl, Hroot. fold nl. unfold q. rewrite nupd_app.
  apply (update_child_coh Sh Sh' nl nm _ pp [] (root s) pn); cbn [app]; [exact Hag|exact HC|exact Hget| |].
  - apply (parent_upd_ok Sh Sh' nl nm pp pn).
    + exact Hag.
    + exact Npn.
    + exact Hld.
    + rewrite keys_amap. apply Npn.
    + intros k Hk. apply String.eqb_neq in Hk. rewrite String.eqb_sym in Hk. rewrite (afind_amap_other _ _ _ _ Hk). reflexivity.
    + rewrite afind_amap, Hold. cbn [option_map].
      rewrite (kids_new Sh Sh' nl pp nm Hag Hlow rest _ Hst Hpd). fold q. rewrite Hpres'. cbn [app]. split; discriminate.
  - cbn [n_ch]. intros k c0 Hk. destruct (String.eqb nm k) eqn:E.
    + apply String.eqb_eq in E; subst k. left. split; [reflexivity|]. rewrite afind_amap, Hold in Hk. cbn [option_map] in Hk.
      inversion Hk; subst c0. fold q. apply CohT_intro.
      * (* the copied-up directory node *)
        unfold add_upper. cbn [r_wh ri].
        constructor; cbn [n_reals n_wh n_loaded n_ch first_wh first_dir map r_layer r_wh r_dir ri]; rewrite ?Lnew.
        -- constructor.
           ++ unfold rgood; cbn [r_path r_upper r_layer r_wh r_dir r_opq ri]. rewrite Hq'. repeat split; auto.
           ++ eapply Forall_impl_in || idtac. apply Forall_forall. intros r Hr.
              pose proof (ok_reals _ _ _ _ Nold) as Hg. rewrite Forall_forall in Hg.
              apply (rgood_on Sh Sh'); [apply Hnz; exact Hr|apply Hg; exact Hr].
        -- discriminate.
        -- reflexivity.
        -- cbn [dcut]. rewrite Hq'. f_equal. rewrite HdL.
           rewrite (dcut_on Sh Sh' nl pp nm Hag Hlow q (map r_layer (n_reals n_old))).
           ++ rewrite (ok_cut _ _ _ _ Nold), Lold. reflexivity.
           ++ intros i Hi. apply in_map_iff in Hi. destruct Hi as (r & <- & Hr). apply Hnz. exact Hr.
        -- pose proof (ok_opq _ _ _ _ Nold) as Ho. destruct (n_reals n_old) as [|r2 rs2] eqn:Er; [exact I|].
           split; [intros H; unfold ri in H; cbn [r_layer] in H; rewrite Hq' in H; discriminate|]. apply (opq_ok_on Sh Sh'); [exact Hnz|exact Ho].
        -- reflexivity.
        -- apply Nold.
        -- apply Nold.
        -- intros Hl'. destruct (ok_ld _ _ _ _ Nold Hl') as (_ & _ & C). split; [reflexivity|]. split; [reflexivity|].
           intros k. rewrite <- Lnew, Hkids. apply C.
      * cbn [add_upper n_ch]. intros k c' Hk'.
        apply (CohT_below Sh Sh' nl q).
        -- intros i r Hr. destruct i as [|j]; [apply Hbelow0; exact Hr|apply Hlow].
        -- exact Hkids.
        -- apply (CohT_child Sh nl q n_old k c'); [|exact Hk'].
           intros r m' Hm'. apply HC. unfold q. clear -Hget Hold Hm'. revert Hget. generalize (root s).
           induction pp as [|a pp IH]; intros r0 Hg; cbn [nget app] in *.
           ++ inversion Hg; subst. rewrite Hold. exact Hm'.
           ++ destruct (afind a (n_ch r0)); [apply IH; exact Hg|discriminate].
    + right. split; [intros ->; rewrite String.eqb_refl in E; discriminate|].
      rewrite (afind_amap_other _ _ _ _ E) in Hk. exact Hk.
Qed.

(* ------------------------------------------------------------------ create_upper_dir keeps the state coherent *)
Lemma split_last_spec p pp nm : split_last p = Some (pp, nm) -> p = pp ++ [nm].
Proof.
  revert pp nm. induction p as [|a p IH]; intros pp nm H; cbn [split_last] in H; [discriminate|].
  destruct p as [|b p]; [inversion H; reflexivity|].
  destruct (split_last (b :: p)) as [[q l]|]; [|discriminate]. inversion H; subst. cbn. f_equal. apply IH. reflexivity.
Qed.
Lemma nget_nupd_loaded f q : (forall m, n_ch (f m) = n_ch m) -> (forall m, n_loaded (f m) = n_loaded m) ->
  forall r p, option_map n_loaded (nget p (nupd q f r)) = option_map n_loaded (nget p r).
Proof.
  intros Hf Hl. induction q as [|c q IH]; intros r p; cbn [nupd].
  - destruct p as [|k p]; cbn [nget option_map]; [rewrite Hl; reflexivity|]. rewrite Hf. reflexivity.
  - destruct p as [|k p]; cbn [nget n_ch option_map n_loaded]; [reflexivity|].
    destruct (String.eqb c k) eqn:E.
    + apply String.eqb_eq in E; subst k. rewrite afind_amap. destruct (afind c (n_ch r)); cbn [option_map]; [apply IH|reflexivity].
    + rewrite (afind_amap_other _ _ _ _ E). reflexivity.
Qed.
(* same paths in the cache, same loaded flags *)
Definition same_paths (s s' : state) : Prop :=
  forall p, option_map n_loaded (nget p (root s')) = option_map n_loaded (nget p (root s)).
Lemma same_paths_refl s : same_paths s s. Proof. intros p; reflexivity. Qed.
Lemma same_paths_trans a b c : same_paths a b -> same_paths b c -> same_paths a c.
Proof. intros H1 H2 p. rewrite (H2 p). apply H1. Qed.
Lemma same_paths_some s s' p n : same_paths s s' -> nget p (root s) = Some n ->
  exists n', nget p (root s') = Some n' /\ n_loaded n' = n_loaded n.
Proof.
  intros H Hn. specialize (H p). rewrite Hn in H. destruct (nget p (root s')) as [n'|]; cbn in H; [|discriminate].
  inversion H. eauto.
Qed.

Lemma nget_child pp nm r pn c : nget pp r = Some pn -> nget (pp ++ [nm]) r = Some c -> afind nm (n_ch pn) = Some c.
Proof.
  revert r. induction pp as [|a pp IH]; intros r Hp Hc; cbn [nget app] in *.
  - inversion Hp; subst. destruct (afind nm (n_ch pn)); [exact Hc|discriminate].
  - destruct (afind a (n_ch r)); [eapply IH; eassumption|discriminate].
Qed.
Lemma first_upper_stack s p n r rs : NodeOK (shp s) (List.length (lowers s)) p n -> n_reals n = r :: rs -> r_upper r = true ->
  r_layer r = 0%nat /\ r_path r = p /\ exists rest, lstack (shp s) (List.length (lowers s)) p = 0%nat :: rest.
Proof.
  intros N Er Hu. pose proof (ok_reals _ _ _ _ N) as Hg. rewrite Er in Hg. inversion Hg as [|? ? (Hp & Hup & _) _]; subst.
  rewrite Hu in Hup. symmetry in Hup. apply Nat.eqb_eq in Hup. split; [exact Hup|]. split; [reflexivity|].
  pose proof (ok_hd _ _ _ _ N) as Hh. rewrite Er in Hh. cbn [map hd_error] in Hh. rewrite Hup in Hh.
  destruct (lstack (shp s) (List.length (lowers s)) (r_path r)) as [|i rest]; [discriminate|]. inversion Hh; subst. eauto.
Qed.

Definition upper_at' (p : path) (s : state) : Prop := forall n', nget p (root s) = Some n' -> in_upper n' = true.
Lemma cud_coherent fuel : forall p s r s', Coherent s -> create_upper_dir fuel p s = (r, s') ->
  Coherent s' /\ same_paths s s' /\ (r = Ok tt -> upper_at' p s').
Proof.
  induction fuel as [|f IH]; intros p s r s' HC Hrun; cbn [create_upper_dir] in Hrun.
  { inversion Hrun; subst. split; [exact HC|]. split; [apply same_paths_refl|discriminate]. }
  assert (Keep : forall e, (Err e, s) = (r, s') -> Coherent s' /\ same_paths s s' /\ (r = Ok tt -> upper_at' p s')).
  { intros e H. inversion H; subst. split; [exact HC|]. split; [apply same_paths_refl|discriminate]. }
  unfold bind at 1 in Hrun. unfold get_node at 1 in Hrun. destruct (nget p (root s)) as [n|] eqn:Hg; [|exact (Keep _ Hrun)].
  unfold bind at 1 in Hrun. unfold stat_node in Hrun. destruct (node_stat s n) as [st|] eqn:Hst; [|exact (Keep _ Hrun)].
  destruct (is_dirT st) eqn:Edir; cbn [negb] in Hrun; [|exact (Keep _ Hrun)].
  destruct (in_upper n) eqn:Eup.
  { inversion Hrun; subst. split; [exact HC|]. split; [apply same_paths_refl|]. intros _ n' Hn'. rewrite Hg in Hn'. inversion Hn'; subst. exact Eup. }
  destruct (split_last p) as [[pp nm]|] eqn:Esp; [|exact (Keep _ Hrun)].
  pose proof (split_last_spec _ _ _ Esp) as Hp. subst p.
  unfold bind at 1 in Hrun. unfold get_node at 1 in Hrun. destruct (nget pp (root s)) as [pn|] eqn:Hgp; [|exact (Keep _ Hrun)].
  unfold bind at 1 in Hrun.
  destruct ((if in_upper pn then ret tt else create_upper_dir f pp) s) as [[[]|e] s1] eqn:E1.
  2:{ inversion Hrun; subst. destruct (in_upper pn); [inversion E1|].
      destruct (IH pp s _ _ HC E1) as (A & B & _). split; [exact A|]. split; [exact B|discriminate]. }
  assert (H1 : Coherent s1 /\ same_paths s s1 /\ upper_at' pp s1).
  { destruct (in_upper pn) eqn:Epu.
    - inversion E1; subst s1. split; [exact HC|]. split; [apply same_paths_refl|]. intros n' Hn'. rewrite Hgp in Hn'. inversion Hn'; subst. exact Epu.
    - destruct (IH pp s _ _ HC E1) as (A & B & C). split; [exact A|]. split; [exact B|]. apply C. reflexivity. }
  destruct H1 as (HC1 & SP1 & Hup1).
  assert (Keep1 : forall e, (Err e, s1) = (r, s') -> Coherent s' /\ same_paths s s' /\ (r = Ok tt -> upper_at' (pp ++ [nm]) s')).
  { intros e H. inversion H; subst. split; [exact HC1|]. split; [exact SP1|discriminate]. }
  unfold bind at 1 in Hrun. unfold get_node at 1 in Hrun. destruct (nget pp (root s1)) as [pn'|] eqn:Hgp1; [|exact (Keep1 _ Hrun)].
  pose proof (Hup1 pn' Hgp1) as Hpu.
  pose proof HC1 as (Hu1 & Hw1 & HCT1). pose proof (HCT1 pp pn' Hgp1) as Npn.
  unfold bind at 1 in Hrun. unfold upper_real in Hrun. unfold in_upper in Hpu.
  destruct (n_reals pn') as [|pr prs] eqn:Epr; [discriminate|]. rewrite Hpu in Hrun. cbn [ret] in Hrun.
  destruct (first_upper_stack s1 pp pn' pr prs Npn Epr Hpu) as (Hl0 & Hpp & rest & Hstk).
  unfold bind at 1 in Hrun.
  destruct (ri_mkdir pr nm (mode_of st) s1) as [[ri|e] s2] eqn:Emk.
  2:{ assert (s2 = s1).
      { unfold ri_mkdir, ri_guard in Emk. rewrite Hpu in Emk. unfold bind at 1 in Emk. cbn [ret] in Emk. unfold bind at 1 in Emk.
        unfold mutate in Emk. rewrite Hl0 in Emk. cbn [get_layer] in Emk. destruct (upper s1) as [u1|]; [|inversion Emk; reflexivity].
        destruct (h_mkdir (r_path pr) nm (mode_of st) u1); inversion Emk; reflexivity. }
      subst s2. exact (Keep1 _ Hrun). }
  destruct (ri_mkdir_spec _ _ _ _ _ _ Hpu Hl0 Emk) as (U & U1 & HU & Hmk & -> & HU2 & Hlow2 & Hroot2).
  rewrite Hpp in *.
  unfold h_mkdir, h_insert in Hmk. destruct (tget U pp) as [[m x ch| | |]|] eqn:Etg; try discriminate.
  destruct (afind nm ch) eqn:Enm; [discriminate|]. inversion Hmk; subst U1; clear Hmk.
  destruct (same_paths_some s s1 _ _ SP1 Hg) as (n1 & Hn1 & _).
  pose proof (nget_child pp nm (root s1) pn' n1 Hgp1 Hn1) as Hchild.
  assert (Hld : n_loaded pn' = true).
  { destruct (n_loaded pn') eqn:El; [reflexivity|]. rewrite (ok_unl _ _ _ _ Npn El) in Hchild. discriminate. }
  unfold mod_node in Hrun. inversion Hrun; subst r s'; clear Hrun.
  split; [|split].
  - apply (dirup_block s1 _ U pp nm (N.land (mode_of st) 1023) pn' n1 rest m x ch); auto.
    cbn [root]. rewrite Hroot2. reflexivity.
  - apply (same_paths_trans s s1 _); [exact SP1|]. intros p'. cbn [root]. rewrite Hroot2.
    apply nget_nupd_loaded; intros m0; reflexivity.
  - intros _ n' Hn'. cbn [root] in Hn'. rewrite nget_nupd in Hn'. destruct (nget (pp ++ [nm]) (root s2)); cbn [option_map] in Hn'; [|discriminate].
    inversion Hn'; subst. reflexivity.
Qed.

(* ------------------------------------------------------------------ attribute / content changes do not change shapes *)
Definition file_to_file (f : tree -> tree) : Prop := forall j m d x, exists j' m' d' x', f (File j m d x) = File j' m' d' x'.
Lemma sh_tmap_ino i f : file_to_file f -> forall p t, option_map sh (tget (tmap_ino i f t) p) = option_map sh (tget t p).
Proof.
  intros Hf. induction p as [|k p IH]; intros t.
  - cbn [tget option_map]. destruct t; cbn [tmap_ino sh]; try reflexivity.
    destruct (i =? ino)%N; [|reflexivity]. destruct (Hf ino mode data xs) as (j' & m' & d' & x' & ->). reflexivity.
  - destruct t; cbn [tmap_ino tget]; try reflexivity.
    + rewrite afind_map_snd. destruct (afind k ch); cbn [option_map]; [apply IH|reflexivity].
    + destruct (i =? ino)%N; [|reflexivity]. destruct (Hf ino mode data xs) as (j' & m' & d' & x' & ->). reflexivity.
Qed.
Lemma wf_tmap_ino i f : file_to_file f -> forall t, wf t -> wf (tmap_ino i f t).
Proof.
  intros Hf. fix IH 2. intros t Hw. destruct Hw as [m x ch Hn Hall| | |]; cbn [tmap_ino]; try constructor.
  - rewrite map_map. cbn [fst]. exact Hn.
  - induction Hall as [|kv l H1 H2 IHl]; cbn [map]; constructor; [cbn [snd]; apply IH; exact H1|exact IHl].
  - destruct (i =? i0)%N; [|constructor]. destruct (Hf i0 m d x) as (j' & m' & d' & x' & ->). constructor.
Qed.
Lemma coherent_shape_eq s s' :
  (forall i p, shp s' i p = shp s i p) -> root s' = root s -> List.length (lowers s') = List.length (lowers s) ->
  wf_layers s' -> (exists u, upper s' = Some u) -> Coherent s -> Coherent s'.
Proof.
  intros Hs Hr Hl Hw Hu (_ & _ & HC). split; [exact Hu|]. split; [exact Hw|]. rewrite Hr, Hl.
  assert (E : shp s' = shp s).
  { apply FunctionalExtensionality.functional_extensionality. intros i. apply FunctionalExtensionality.functional_extensionality. apply Hs. }
  rewrite E. exact HC.
Qed.
